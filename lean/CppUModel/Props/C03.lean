import CppUModel.Proofs.Asserts
import CppUModel.Gen.AssertFns
import CppUModel.Gen.AssertMacros
/-!
# C03 — each check fails exactly when the predicate it names is false

Property theorems only.  Model: `CppUModel/Model/Asserts.lean` (from `UtestShell::assert*`,
`doubles_equal`, UtestMacros.h, TestHarness_c.cpp); vocabulary: `CppUModel/Spec/Asserts.lean`.

Reading guide.  `o.fails = true` : the check recorded a failure; `o.counted` : how often
`countCheck()` ran.  Integer operands are mathematical integers `v : Int` (an operand of ANY C
integer type has one); `asType t v` is the value after the conversion to the declared parameter
type that the macro's cast / the call performs, and `InRange t v → asType t v = v`.
-/
namespace Asserts
open Text

/-! ## 0. the model is written against the current source (regenerated tables) -/

/-- every `assert*` body: `countCheck()` first and once, then exactly these conditions with
    these failure classes (regenerated from Utest.cpp on every run) -/
theorem shapes_match : Gen.AssertShapes.shapes = expectedShapes := rfl
/-- declared operand parameter types of the assert functions -/
theorem params_match : Gen.AssertShapes.params = expectedParams := rfl
/-- the three statements of `doubles_equal` -/
theorem doubles_equal_body_match : Gen.AssertShapes.doublesEqualBody = expectedDoublesEqual := rfl
/-- every `*_LOCATION` macro: callee and operand expressions with their casts -/
theorem macros_match : Gen.AssertShapes.macros = expectedMacros := rfl
theorem check_equal_macro_match : Gen.AssertShapes.flow_CHECK_EQUAL_LOCATION = expectedCheckEqual := rfl
theorem check_compare_macro_match : Gen.AssertShapes.flow_CHECK_COMPARE_LOCATION = expectedCheckCompare := rfl
theorem enums_equal_macro_match : Gen.AssertShapes.flow_ENUMS_EQUAL_TYPE_LOCATION = expectedEnumsEqual := rfl
/-- the user-facing macros: which `*_LOCATION` macro they expand to, with which operand text -/
theorem front_macros_match : Gen.AssertShapes.front = expectedFront := rfl
/-- the C entry points: parameter types, callee, operand expressions -/
theorem c_entries_match : Gen.AssertShapes.cEntries = expectedCEntries := rfl
theorem c_front_match : Gen.AssertShapes.cFront = expectedCFront := rfl
theorem check_throws_macro_match : Gen.AssertShapes.flow_CHECK_THROWS = expectedCheckThrows := rfl
theorem test_exit_macro_match : Gen.AssertShapes.flow_TEST_EXIT = expectedTestExit := rfl
/-- the set of check macros the two headers define (a new macro is a new obligation) -/
theorem all_macros_match : Gen.AssertShapes.allMacros = expectedAllMacros := rfl
theorem all_c_macros_match : Gen.AssertShapes.allCMacros = expectedAllCMacros := rfl
/-- `PlatformSpecificIsNan/IsInf/Fabs` are `isnan(d)`, `isinf(d)`, `fabs` of the double itself: the model's class
    split nan / inf / finite is the one `doubles_equal` sees -/
theorem platform_predicates_match : Gen.AssertShapes.platformPredicates = expectedPlatformPredicates := rfl
/-- the literal of `BYTES_EQUAL` is `0xff` -/
theorem bytes_mask_is_ff : Gen.AssertShapes.bytesMask = 255 := rfl

/-! ## 1. counting: every check is counted exactly once; a passing comparison is not counted -/

theorem countThenFailIf_counts_one (c : Bool) : (countThenFailIf c).counted = 1 := rfl

theorem cstrCheck_counts_one (p : Bytes → Bytes → Bool) (e a : Option Bytes) :
    (cstrCheck p e a).counted = 1 := by
  cases e <;> cases a <;> rfl

/-- every function of the `assert*` family calls `countCheck()` exactly once, whatever the operands -/
theorem assert_family_counts_one :
    (∀ c, (assertTrue c).counted = 1) ∧ fail.counted = 1 ∧
    (∀ e a, (assertLongsEqual e a).counted = 1) ∧ (∀ e a, (assertUnsignedLongsEqual e a).counted = 1) ∧
    (∀ e a, (assertLongLongsEqual e a).counted = 1) ∧ (∀ e a, (assertUnsignedLongLongsEqual e a).counted = 1) ∧
    (∀ e a, (assertSignedBytesEqual e a).counted = 1) ∧ (∀ e a, (assertPointersEqual e a).counted = 1) ∧
    (∀ e a, (assertFunctionPointersEqual e a).counted = 1) ∧
    (∀ e a m n, (assertBitsEqual e a m n).counted = 1) ∧
    (∀ f, (assertEquals f).counted = 1) ∧ (∀ c, (assertCompare c).counted = 1) ∧
    (∀ e a, (assertCstrEqual e a).counted = 1) ∧ (∀ e a n, (assertCstrNEqual e a n).counted = 1) ∧
    (∀ e a, (assertCstrNoCaseEqual e a).counted = 1) ∧ (∀ e a, (assertCstrContains e a).counted = 1) ∧
    (∀ e a, (assertCstrNoCaseContains e a).counted = 1) ∧
    (∀ e a n, (assertBinaryEqual e a n).counted = 1) := by
  refine ⟨fun _ => rfl, rfl, fun _ _ => rfl, fun _ _ => rfl, fun _ _ => rfl, fun _ _ => rfl, fun _ _ => rfl,
    fun _ _ => rfl, fun _ _ => rfl, fun _ _ _ _ => rfl, fun _ => rfl, fun _ => rfl, ?_, ?_, ?_, ?_, ?_, ?_⟩
  · intro e a; exact cstrCheck_counts_one _ e a
  · intro e a n; exact cstrCheck_counts_one _ e a
  · intro e a; exact cstrCheck_counts_one _ e a
  · intro e a; exact cstrCheck_counts_one _ e a
  · intro e a; exact cstrCheck_counts_one _ e a
  · intro e a n; unfold assertBinaryEqual; split
    · rfl
    · exact cstrCheck_counts_one _ e a

theorem assertDoublesEqual_counts_one {F : Type} (o : FinOps F) (e a t : D F) :
    (assertDoublesEqual o e a t).counted = 1 := rfl

/-- `CHECK_EQUAL` counts one check on both of its paths (`assertEquals(true…)` when the operands
    differ, `assertLongsEqual(0, 0)` when they are equal) -/
theorem CHECK_EQUAL_counts_one (ne : Bool) : (CHECK_EQUAL ne).counted = 1 := by
  cases ne <;> rfl

theorem ENUMS_EQUAL_TYPE_counts_one (w : Nat) (e a : Int) : (ENUMS_EQUAL_TYPE w e a).counted = 1 := by
  unfold ENUMS_EQUAL_TYPE; split <;> rfl

/-- a comparison that holds calls no assert function: nothing is counted and nothing fails -/
theorem compare_pass_counts_zero (success : Bool) (h : success = true) :
    (CHECK_COMPARE success).counted = 0 ∧ (CHECK_COMPARE success).fails = false := by
  subst h; exact ⟨rfl, rfl⟩

/-- a comparison that does not hold is counted once and fails -/
theorem compare_fail_counts_one (success : Bool) (h : success = false) :
    (CHECK_COMPARE success).counted = 1 ∧ (CHECK_COMPARE success).fails = true := by
  subst h; exact ⟨rfl, rfl⟩

theorem CHECK_COMPARE_fails_iff (success : Bool) : (CHECK_COMPARE success).fails = true ↔ success = false := by
  cases success <;> simp [CHECK_COMPARE, assertCompare, countThenFailIf, nothing]

/-- the macros built on integer conversions count one check for all operands -/
theorem integer_macros_count_one (e a : Int) (x y : CInt) :
    (LONGS_EQUAL e a).counted = 1 ∧ (UNSIGNED_LONGS_EQUAL e a).counted = 1 ∧ (LONGLONGS_EQUAL e a).counted = 1 ∧
    (UNSIGNED_LONGLONGS_EQUAL e a).counted = 1 ∧ (BYTES_EQUAL x y).counted = 1 ∧ (SIGNED_BYTES_EQUAL e a).counted = 1 ∧
    (CHECK_EQUAL_int x y).counted = 1 ∧
    (CHECK_EQUAL_C_BOOL e a).counted = 1 ∧ (CHECK_EQUAL_C_INT e a).counted = 1 ∧ (CHECK_EQUAL_C_UINT e a).counted = 1 ∧
    (CHECK_EQUAL_C_LONG e a).counted = 1 ∧ (CHECK_EQUAL_C_ULONG e a).counted = 1 ∧ (CHECK_EQUAL_C_LONGLONG e a).counted = 1 ∧
    (CHECK_EQUAL_C_ULONGLONG e a).counted = 1 ∧ (CHECK_EQUAL_C_CHAR e a).counted = 1 ∧ (CHECK_EQUAL_C_UBYTE e a).counted = 1 ∧
    (CHECK_EQUAL_C_SBYTE e a).counted = 1 ∧ (CHECK_C e).counted = 1 ∧ FAIL.counted = 1 ∧ FAIL_C.counted = 1 := by
  refine ⟨rfl, rfl, rfl, rfl, rfl, rfl, CHECK_EQUAL_counts_one _, rfl, rfl, rfl, rfl, rfl, rfl, rfl, rfl, rfl, rfl, rfl, rfl, rfl⟩

/-! ## 2. booleans -/

theorem assertTrue_fails_iff (c : Bool) : (assertTrue c).fails = true ↔ c = false := by
  cases c <;> simp [assertTrue, countThenFailIf]

theorem CHECK_fails_iff (c : Bool) : (CHECK c).fails = true ↔ c = false := assertTrue_fails_iff c

theorem CHECK_FALSE_fails_iff (c : Bool) : (CHECK_FALSE c).fails = true ↔ c = true := by
  cases c <;> simp [CHECK_FALSE, assertTrue, countThenFailIf]

/-- `CHECK_C(c)`: fails iff the operand, converted to the `int` parameter, is zero -/
theorem CHECK_C_fails_iff (c : Int) : (CHECK_C c).fails = true ↔ asType tyInt c = 0 := by
  have h0 : asType tyInt 0 = 0 := by decide
  rw [← h0, asType_eq_iff]
  simp [CHECK_C, assertTrue, countThenFailIf, tyInt, conv]

theorem CHECK_C_fails_iff_value (c : Int) (h : InRange tyInt c) : (CHECK_C c).fails = true ↔ c = 0 := by
  rw [CHECK_C_fails_iff, asType_of_inRange tyInt (by decide) c h]

/-- `FAIL` always fails -/
theorem fail_always_fails : fail.fails = true ∧ FAIL.fails = true ∧ FAIL_C.fails = true := ⟨rfl, rfl, rfl⟩

/-! ### the boolean macros on a compound condition (`CHECK(a || b)`, `CHECK_FALSE(a == b)`, `CHECK_C(a ? b : 0)` …) -/

theorem CondOp.truth_or (a b : Int) : CondOp.or.truth a b = (a != 0 || b != 0) := by
  simp only [CondOp.truth, CondOp.value]; split <;> simp_all
theorem CondOp.truth_and (a b : Int) : CondOp.and.truth a b = (a != 0 && b != 0) := by
  simp only [CondOp.truth, CondOp.value]; split <;> simp_all
theorem CondOp.truth_eq (a b : Int) : CondOp.eq.truth a b = RelOp.holds .eq a b := by
  simp only [CondOp.truth, CondOp.value]; split <;> simp_all
theorem CondOp.truth_ne (a b : Int) : CondOp.ne.truth a b = RelOp.holds .ne a b := by
  simp only [CondOp.truth, CondOp.value]; split <;> simp_all
theorem CondOp.truth_lt (a b : Int) : CondOp.lt.truth a b = RelOp.holds .lt a b := by
  simp only [CondOp.truth, CondOp.value]; split <;> simp_all
theorem CondOp.truth_cond (a b : Int) : CondOp.cond.truth a b = (a != 0 && b != 0) := by
  simp only [CondOp.truth, CondOp.value]; split <;> simp_all

/-- the value of the whole expression, converted to `bool`, is the truth of the predicate the condition names -/
theorem CondOp.truth_iff (op : CondOp) (a b : Int) : op.truth a b = true ↔ op.Holds a b := by
  cases op <;> simp only [CondOp.truth, CondOp.value, CondOp.Holds, RelOp.holds] <;> (repeat' split) <;> simp_all

theorem CondOp.value_inRange (op : CondOp) (a b : Int) (hb : InRange tyInt b) : InRange tyInt (op.value a b) := by
  have h0 : InRange tyInt 0 := by decide
  have h1 : InRange tyInt 1 := by decide
  cases op <;> simp only [CondOp.value] <;> split <;> assumption

/-- the boolean check macros on a compound condition over two `int` operands: each fails exactly when the predicate the
    WHOLE condition names is false (`CHECK_FALSE`: true), and counts one check -/
theorem compound_condition_checks (op : CondOp) (a b : Int) (hb : InRange tyInt b) :
    ((CHECK (op.truth a b)).fails = true ↔ ¬ op.Holds a b) ∧ (CHECK (op.truth a b)).counted = 1 ∧
    ((CHECK_FALSE (op.truth a b)).fails = true ↔ op.Holds a b) ∧ (CHECK_FALSE (op.truth a b)).counted = 1 ∧
    ((CHECK_C (op.value a b)).fails = true ↔ ¬ op.Holds a b) ∧ (CHECK_C (op.value a b)).counted = 1 := by
  refine ⟨?_, rfl, ?_, rfl, ?_, rfl⟩
  · rw [CHECK_fails_iff, ← CondOp.truth_iff]; simp
  · rw [CHECK_FALSE_fails_iff, CondOp.truth_iff]
  · rw [CHECK_C_fails_iff_value _ (CondOp.value_inRange op a b hb), ← CondOp.truth_iff]
    simp [CondOp.truth]

/-- what the driver replays for a `boolx` op: one check, failing iff the whole condition is false (`CHECK_FALSE`: true) -/
theorem boolxMacro_verdict (m : String) (op : CondOp) (a b : Int) (hb : InRange tyInt b) (o : Outcome)
    (h : boolxMacro m op a b = some o) :
    o.counted = 1 ∧ (o.fails = true ↔ if m = "CHECK_FALSE" then op.Holds a b else ¬ op.Holds a b) := by
  have hc := compound_condition_checks op a b hb
  unfold boolxMacro at h
  split at h <;> simp at h <;> subst h <;> simp [hc]

/-- non-vacuity: `CHECK_FALSE(0 || 1)` fails, `CHECK_FALSE(1 == 2)` and `CHECK_FALSE(1 && 0)` pass (the conditions on
    which `!a OP b` differs from `!(a OP b)`), `CHECK(3 < 5)` passes, `CHECK_C(1 ? 0 : 0)` fails -/
example : (CHECK_FALSE (CondOp.or.truth 0 1)).fails = true ∧ (CHECK_FALSE (CondOp.eq.truth 1 2)).fails = false ∧
    (CHECK_FALSE (CondOp.and.truth 1 0)).fails = false ∧ (CHECK (CondOp.lt.truth 3 5)).fails = false ∧
    (CHECK_C (CondOp.cond.value 1 0)).fails = true ∧ CondOp.or.Holds 0 1 ∧ ¬ CondOp.eq.Holds 1 2 ∧
    boolxMacro "CHECK_FALSE" .or 0 1 = some { fails := true, counted := 1 } ∧ InRange tyInt 1 :=
  ⟨by decide, by decide, by decide, by decide, by decide, by simp [CondOp.Holds], by simp [CondOp.Holds], by decide, by decide⟩

/-! ## 3. integers: the assert functions at their declared parameter types -/

theorem assertLongsEqual_fails_iff (e a : BitVec 64) :
    (assertLongsEqual e a).fails = true ↔ e.toInt ≠ a.toInt := by
  simp [assertLongsEqual, countThenFailIf, BitVec.toInt_inj]

theorem assertUnsignedLongsEqual_fails_iff (e a : BitVec 64) :
    (assertUnsignedLongsEqual e a).fails = true ↔ e.toNat ≠ a.toNat := by
  simp [assertUnsignedLongsEqual, countThenFailIf, BitVec.toNat_inj]

theorem assertLongLongsEqual_fails_iff (e a : BitVec 64) :
    (assertLongLongsEqual e a).fails = true ↔ e.toInt ≠ a.toInt := by
  simp [assertLongLongsEqual, countThenFailIf, BitVec.toInt_inj]

theorem assertUnsignedLongLongsEqual_fails_iff (e a : BitVec 64) :
    (assertUnsignedLongLongsEqual e a).fails = true ↔ e.toNat ≠ a.toNat := by
  simp [assertUnsignedLongLongsEqual, countThenFailIf, BitVec.toNat_inj]

/-- the promotion to `int` inside `assertSignedBytesEqual` does not change the verdict -/
theorem assertSignedBytesEqual_fails_iff (e a : BitVec 8) :
    (assertSignedBytesEqual e a).fails = true ↔ e.toInt ≠ a.toInt := by
  simp [assertSignedBytesEqual, countThenFailIf, signExtend_eq_iff (show 8 ≤ 32 by decide), BitVec.toInt_inj]

theorem assertPointersEqual_fails_iff (e a : BitVec 64) :
    (assertPointersEqual e a).fails = true ↔ e ≠ a := by
  simp [assertPointersEqual, countThenFailIf]

theorem assertFunctionPointersEqual_fails_iff (e a : BitVec 64) :
    (assertFunctionPointersEqual e a).fails = true ↔ e ≠ a := by
  simp [assertFunctionPointersEqual, countThenFailIf]

theorem assertEquals_fails_iff (failed : Bool) : (assertEquals failed).fails = true ↔ failed = true := by
  simp [assertEquals, countThenFailIf]

/-! ## 4. integers: the macros, operands of any integer type -/

theorem ne_conv_iff (t : CTy) (e a : Int) : (conv t.w e != conv t.w a) = true ↔ asType t e ≠ asType t a := by
  rw [Ne, asType_eq_iff]; simp

theorem ne_asType_iff (t : CTy) (e a : Int) : asType t e ≠ asType t a ↔ conv t.w e ≠ conv t.w a := by
  rw [Ne, asType_eq_iff]

/-- `LONGS_EQUAL(e, a)` fails iff the operands differ after the macro's cast to `long` -/
theorem LONGS_EQUAL_fails_iff (e a : Int) :
    (LONGS_EQUAL e a).fails = true ↔ asType tyLong e ≠ asType tyLong a :=
  ne_conv_iff tyLong e a

/-- … which is plain inequality of the operands whenever both are representable as `long`
    (every signed type, every unsigned type narrower than 64 bits, `unsigned long` below 2^63) -/
theorem LONGS_EQUAL_fails_iff_value (e a : Int) (he : InRange tyLong e) (ha : InRange tyLong a) :
    (LONGS_EQUAL e a).fails = true ↔ e ≠ a := by
  rw [LONGS_EQUAL_fails_iff, asType_of_inRange tyLong (by decide) e he, asType_of_inRange tyLong (by decide) a ha]

/-- in general the cast makes it equality modulo 2^64 -/
theorem LONGS_EQUAL_fails_iff_mod (e a : Int) :
    (LONGS_EQUAL e a).fails = true ↔ e % (2 : Int) ^ 64 ≠ a % (2 : Int) ^ 64 := by
  rw [LONGS_EQUAL_fails_iff, Ne, asType_eq_iff, conv_eq_iff]; rfl

theorem UNSIGNED_LONGS_EQUAL_fails_iff (e a : Int) :
    (UNSIGNED_LONGS_EQUAL e a).fails = true ↔ asType tyULong e ≠ asType tyULong a :=
  ne_conv_iff tyULong e a

theorem UNSIGNED_LONGS_EQUAL_fails_iff_value (e a : Int) (he : InRange tyULong e) (ha : InRange tyULong a) :
    (UNSIGNED_LONGS_EQUAL e a).fails = true ↔ e ≠ a := by
  rw [UNSIGNED_LONGS_EQUAL_fails_iff, asType_of_inRange tyULong (by decide) e he,
    asType_of_inRange tyULong (by decide) a ha]

theorem LONGLONGS_EQUAL_fails_iff (e a : Int) :
    (LONGLONGS_EQUAL e a).fails = true ↔ asType tyLong e ≠ asType tyLong a :=
  ne_conv_iff tyLong e a

theorem LONGLONGS_EQUAL_fails_iff_value (e a : Int) (he : InRange tyLong e) (ha : InRange tyLong a) :
    (LONGLONGS_EQUAL e a).fails = true ↔ e ≠ a := by
  rw [LONGLONGS_EQUAL_fails_iff, asType_of_inRange tyLong (by decide) e he, asType_of_inRange tyLong (by decide) a ha]

theorem UNSIGNED_LONGLONGS_EQUAL_fails_iff (e a : Int) :
    (UNSIGNED_LONGLONGS_EQUAL e a).fails = true ↔ asType tyULong e ≠ asType tyULong a :=
  ne_conv_iff tyULong e a

theorem UNSIGNED_LONGLONGS_EQUAL_fails_iff_value (e a : Int) (he : InRange tyULong e) (ha : InRange tyULong a) :
    (UNSIGNED_LONGLONGS_EQUAL e a).fails = true ↔ e ≠ a := by
  rw [UNSIGNED_LONGLONGS_EQUAL_fails_iff, asType_of_inRange tyULong (by decide) e he,
    asType_of_inRange tyULong (by decide) a ha]

/-- `BYTES_EQUAL(e, a)` fails iff the low bytes differ, for operands of every integer type
    (the `& 0xff` in the operand's promoted type followed by the cast to `long` loses nothing) -/
theorem BYTES_EQUAL_fails_iff (e a : CInt) :
    (BYTES_EQUAL e a).fails = true ↔ e.val % 256 ≠ a.val % 256 := by
  unfold BYTES_EQUAL
  rw [bytes_mask_is_ff, andLit_255_val, andLit_255_val]
  have hr : ∀ v : Int, InRange tyLong (v % 256) := by
    intro v
    have h1 := Int.emod_nonneg v (show (256 : Int) ≠ 0 by decide)
    have h2 := Int.emod_lt_of_pos v (show (0 : Int) < 256 by decide)
    simp only [InRange, tyLong]
    constructor <;> omega
  exact LONGS_EQUAL_fails_iff_value _ _ (hr _) (hr _)

theorem SIGNED_BYTES_EQUAL_fails_iff (e a : Int) :
    (SIGNED_BYTES_EQUAL e a).fails = true ↔ asType tySChar e ≠ asType tySChar a := by
  unfold SIGNED_BYTES_EQUAL
  rw [assertSignedBytesEqual_fails_iff]; rfl

theorem SIGNED_BYTES_EQUAL_fails_iff_value (e a : Int) (he : InRange tySChar e) (ha : InRange tySChar a) :
    (SIGNED_BYTES_EQUAL e a).fails = true ↔ e ≠ a := by
  rw [SIGNED_BYTES_EQUAL_fails_iff, asType_of_inRange tySChar (by decide) e he,
    asType_of_inRange tySChar (by decide) a ha]

/-- `CHECK_EQUAL` fails iff the operands' own `!=` says they differ -/
theorem CHECK_EQUAL_fails_iff (ne : Bool) : (CHECK_EQUAL ne).fails = true ↔ ne = true := by
  cases ne <;> simp [CHECK_EQUAL, assertEquals, assertLongsEqual, countThenFailIf]

/-- for integer operands the operands' own `!=` compares the values converted to the common type … -/
theorem CHECK_EQUAL_int_fails_iff (e a : CInt) :
    (CHECK_EQUAL_int e a).fails = true ↔
      asType (common e.ty a.ty) e.val ≠ asType (common e.ty a.ty) a.val := by
  unfold CHECK_EQUAL_int
  rw [CHECK_EQUAL_fails_iff]
  exact ne_conv_iff (common e.ty a.ty) e.val a.val

/-- … which is mathematical inequality whenever the common type represents both values -/
theorem CHECK_EQUAL_int_fails_iff_value (e a : CInt)
    (he : InRange (common e.ty a.ty) e.val) (ha : InRange (common e.ty a.ty) a.val) :
    (CHECK_EQUAL_int e a).fails = true ↔ e.val ≠ a.val := by
  have hw : 0 < (common e.ty a.ty).w := by have := common_w_ge e.ty a.ty; omega
  rw [CHECK_EQUAL_int_fails_iff, asType_of_inRange _ hw _ he, asType_of_inRange _ hw _ ha]

/-- in particular: operands that are values of their own types compare by mathematical equality
    whenever their promoted types have the same signedness or both values are non-negative (the
    only other case is a negative value converted to unsigned by the language itself) -/
theorem CHECK_EQUAL_int_fails_iff_math (e a : CInt) (he : InRange e.ty e.val) (ha : InRange a.ty a.val)
    (h : (promote e.ty).signed = (promote a.ty).signed ∨ (0 ≤ e.val ∧ 0 ≤ a.val)) :
    (CHECK_EQUAL_int e a).fails = true ↔ e.val ≠ a.val :=
  CHECK_EQUAL_int_fails_iff_value e a (inRange_common e a he ha h).1 (inRange_common e a he ha h).2

/-- `ENUMS_EQUAL_TYPE(T, e, a)` fails iff the operands differ after the cast to `T` -/
theorem ENUMS_EQUAL_TYPE_fails_iff (t : CTy) (e a : Int) :
    (ENUMS_EQUAL_TYPE t.w e a).fails = true ↔ asType t e ≠ asType t a := by
  rw [← ne_conv_iff]
  unfold ENUMS_EQUAL_TYPE
  split
  · next h => simp [assertEquals, countThenFailIf, h]
  · next h => simp [assertLongsEqual, countThenFailIf, h]

theorem ENUMS_EQUAL_TYPE_fails_iff_value (t : CTy) (ht : 0 < t.w) (e a : Int) (he : InRange t e) (ha : InRange t a) :
    (ENUMS_EQUAL_TYPE t.w e a).fails = true ↔ e ≠ a := by
  rw [ENUMS_EQUAL_TYPE_fails_iff, asType_of_inRange t ht e he, asType_of_inRange t ht a ha]

/-! ### relational comparison on integers -/

theorem CHECK_COMPARE_int_fails_iff_value (op : RelOp) (e a : CInt)
    (he : InRange (common e.ty a.ty) e.val) (ha : InRange (common e.ty a.ty) a.val) :
    (CHECK_COMPARE_int op e a).fails = true ↔ op.holds e.val a.val = false := by
  have hw : 0 < (common e.ty a.ty).w := by have := common_w_ge e.ty a.ty; omega
  unfold CHECK_COMPARE_int
  rw [CHECK_COMPARE_fails_iff]
  unfold cppRel
  have h1 := asType_of_inRange _ hw _ he
  have h2 := asType_of_inRange _ hw _ ha
  unfold asType at h1 h2
  rw [h1, h2]

theorem CHECK_COMPARE_int_fails_iff_math (op : RelOp) (e a : CInt) (he : InRange e.ty e.val) (ha : InRange a.ty a.val)
    (h : (promote e.ty).signed = (promote a.ty).signed ∨ (0 ≤ e.val ∧ 0 ≤ a.val)) :
    (CHECK_COMPARE_int op e a).fails = true ↔ op.holds e.val a.val = false :=
  CHECK_COMPARE_int_fails_iff_value op e a (inRange_common e a he ha h).1 (inRange_common e a he ha h).2

/-- … and is then counted iff it does not hold -/
theorem CHECK_COMPARE_int_counted_math (op : RelOp) (e a : CInt) (he : InRange e.ty e.val) (ha : InRange a.ty a.val)
    (h : (promote e.ty).signed = (promote a.ty).signed ∨ (0 ≤ e.val ∧ 0 ≤ a.val)) :
    (CHECK_COMPARE_int op e a).counted = if op.holds e.val a.val then 0 else 1 := by
  have hf := CHECK_COMPARE_int_fails_iff_math op e a he ha h
  unfold CHECK_COMPARE_int at *
  cases hs : cppRel op e a
  · have := (CHECK_COMPARE_fails_iff false).mpr rfl
    rw [hs] at hf
    rw [hf.mp this]; rfl
  · rw [hs] at hf
    cases hh : op.holds e.val a.val
    · have := hf.mpr hh
      simp [CHECK_COMPARE, nothing] at this
    · rfl

/-! ### the C entry points -/

theorem CHECK_EQUAL_C_INT_fails_iff (e a : Int) :
    (CHECK_EQUAL_C_INT e a).fails = true ↔ asType tyInt e ≠ asType tyInt a := by
  rw [ne_asType_iff]
  simp [CHECK_EQUAL_C_INT, assertLongsEqual, countThenFailIf, tyInt, signExtend_eq_iff (show 32 ≤ 64 by decide)]

theorem CHECK_EQUAL_C_UINT_fails_iff (e a : Int) :
    (CHECK_EQUAL_C_UINT e a).fails = true ↔ asType tyUInt e ≠ asType tyUInt a := by
  rw [ne_asType_iff]
  simp [CHECK_EQUAL_C_UINT, assertUnsignedLongsEqual, countThenFailIf, tyUInt, zeroExtend_eq_iff (show 32 ≤ 64 by decide)]

theorem CHECK_EQUAL_C_LONG_fails_iff (e a : Int) :
    (CHECK_EQUAL_C_LONG e a).fails = true ↔ asType tyLong e ≠ asType tyLong a := ne_conv_iff tyLong e a
theorem CHECK_EQUAL_C_ULONG_fails_iff (e a : Int) :
    (CHECK_EQUAL_C_ULONG e a).fails = true ↔ asType tyULong e ≠ asType tyULong a := ne_conv_iff tyULong e a
theorem CHECK_EQUAL_C_LONGLONG_fails_iff (e a : Int) :
    (CHECK_EQUAL_C_LONGLONG e a).fails = true ↔ asType tyLong e ≠ asType tyLong a := ne_conv_iff tyLong e a
theorem CHECK_EQUAL_C_ULONGLONG_fails_iff (e a : Int) :
    (CHECK_EQUAL_C_ULONGLONG e a).fails = true ↔ asType tyULong e ≠ asType tyULong a := ne_conv_iff tyULong e a

theorem CHECK_EQUAL_C_CHAR_fails_iff (e a : Int) :
    (CHECK_EQUAL_C_CHAR e a).fails = true ↔ asType tySChar e ≠ asType tySChar a := by
  rw [ne_asType_iff]
  simp [CHECK_EQUAL_C_CHAR, assertEquals, countThenFailIf, tySChar, signExtend_eq_iff (show 8 ≤ 32 by decide)]

theorem CHECK_EQUAL_C_SBYTE_fails_iff (e a : Int) :
    (CHECK_EQUAL_C_SBYTE e a).fails = true ↔ asType tySChar e ≠ asType tySChar a := by
  rw [ne_asType_iff]
  simp [CHECK_EQUAL_C_SBYTE, assertEquals, countThenFailIf, tySChar, signExtend_eq_iff (show 8 ≤ 32 by decide)]

theorem CHECK_EQUAL_C_UBYTE_fails_iff (e a : Int) :
    (CHECK_EQUAL_C_UBYTE e a).fails = true ↔ asType tyUChar e ≠ asType tyUChar a := by
  rw [ne_asType_iff]
  simp [CHECK_EQUAL_C_UBYTE, assertEquals, countThenFailIf, tyUChar, zeroExtend_eq_iff (show 8 ≤ 32 by decide)]

/-- `CHECK_EQUAL_C_BOOL(e, a)` fails iff exactly one of the two `int` arguments is zero -/
theorem CHECK_EQUAL_C_BOOL_fails_iff (e a : Int) :
    (CHECK_EQUAL_C_BOOL e a).fails = true ↔ ¬ (asType tyInt e = 0 ↔ asType tyInt a = 0) := by
  have h0 : asType tyInt 0 = 0 := by decide
  have hz : ∀ v : Int, asType tyInt v = 0 ↔ conv 32 v = 0 := by
    intro v
    rw [← h0, asType_eq_iff]; rfl
  rw [hz, hz]
  simp only [CHECK_EQUAL_C_BOOL, assertEquals, countThenFailIf]
  generalize conv 32 e = x
  generalize conv 32 a = y
  have hb : ∀ z : BitVec 32, (z != 0) = !decide (z = 0) := by
    intro z; rfl
  rw [hb, hb]
  by_cases h1 : x = 0 <;> by_cases h2 : y = 0 <;> simp [h1, h2]

/-- all C integer entry points compare mathematical values when the arguments fit the parameters -/
theorem c_entries_fail_iff_value (e a : Int) :
    (InRange tyInt e → InRange tyInt a → ((CHECK_EQUAL_C_INT e a).fails = true ↔ e ≠ a)) ∧
    (InRange tyUInt e → InRange tyUInt a → ((CHECK_EQUAL_C_UINT e a).fails = true ↔ e ≠ a)) ∧
    (InRange tyLong e → InRange tyLong a → ((CHECK_EQUAL_C_LONG e a).fails = true ↔ e ≠ a)) ∧
    (InRange tyULong e → InRange tyULong a → ((CHECK_EQUAL_C_ULONG e a).fails = true ↔ e ≠ a)) ∧
    (InRange tyLong e → InRange tyLong a → ((CHECK_EQUAL_C_LONGLONG e a).fails = true ↔ e ≠ a)) ∧
    (InRange tyULong e → InRange tyULong a → ((CHECK_EQUAL_C_ULONGLONG e a).fails = true ↔ e ≠ a)) ∧
    (InRange tySChar e → InRange tySChar a → ((CHECK_EQUAL_C_CHAR e a).fails = true ↔ e ≠ a)) ∧
    (InRange tySChar e → InRange tySChar a → ((CHECK_EQUAL_C_SBYTE e a).fails = true ↔ e ≠ a)) ∧
    (InRange tyUChar e → InRange tyUChar a → ((CHECK_EQUAL_C_UBYTE e a).fails = true ↔ e ≠ a)) := by
  refine ⟨?_, ?_, ?_, ?_, ?_, ?_, ?_, ?_, ?_⟩
  · intro he ha; rw [CHECK_EQUAL_C_INT_fails_iff, asType_of_inRange _ (by decide) _ he, asType_of_inRange _ (by decide) _ ha]
  · intro he ha; rw [CHECK_EQUAL_C_UINT_fails_iff, asType_of_inRange _ (by decide) _ he, asType_of_inRange _ (by decide) _ ha]
  · intro he ha; rw [CHECK_EQUAL_C_LONG_fails_iff, asType_of_inRange _ (by decide) _ he, asType_of_inRange _ (by decide) _ ha]
  · intro he ha; rw [CHECK_EQUAL_C_ULONG_fails_iff, asType_of_inRange _ (by decide) _ he, asType_of_inRange _ (by decide) _ ha]
  · intro he ha; rw [CHECK_EQUAL_C_LONGLONG_fails_iff, asType_of_inRange _ (by decide) _ he, asType_of_inRange _ (by decide) _ ha]
  · intro he ha; rw [CHECK_EQUAL_C_ULONGLONG_fails_iff, asType_of_inRange _ (by decide) _ he, asType_of_inRange _ (by decide) _ ha]
  · intro he ha; rw [CHECK_EQUAL_C_CHAR_fails_iff, asType_of_inRange _ (by decide) _ he, asType_of_inRange _ (by decide) _ ha]
  · intro he ha; rw [CHECK_EQUAL_C_SBYTE_fails_iff, asType_of_inRange _ (by decide) _ he, asType_of_inRange _ (by decide) _ ha]
  · intro he ha; rw [CHECK_EQUAL_C_UBYTE_fails_iff, asType_of_inRange _ (by decide) _ he, asType_of_inRange _ (by decide) _ ha]

/-! ## 5. strings (`none` = NULL): NULL equals only NULL -/

/-- the NULL rules are the same for all five string checks (and the block check with a
    non-zero length): two NULLs pass, exactly one NULL fails -/
theorem cstrCheck_null_rules (p : Bytes → Bytes → Bool) (x : Bytes) :
    (cstrCheck p none none).fails = false ∧ (cstrCheck p none (some x)).fails = true ∧
    (cstrCheck p (some x) none).fails = true := ⟨rfl, rfl, rfl⟩

def NulFreeOpt (s : Option Bytes) : Prop := ∀ x, s = some x → NulFree x

/-- `STRCMP_EQUAL`: fails iff not (both NULL, or both non-NULL and the same string) -/
theorem assertCstrEqual_fails_iff (e a : Option Bytes) (he : NulFreeOpt e) (ha : NulFreeOpt a) :
    (assertCstrEqual e a).fails = true ↔ ¬ NullOrRel (fun x y => x = y) e a := by
  cases e with
  | none => cases a <;> simp [assertCstrEqual, cstrCheck, NullOrRel]
  | some x => cases a with
    | none => simp [assertCstrEqual, cstrCheck, NullOrRel]
    | some y =>
      have := cmp_eq_zero_iff x y (he x rfl) (ha y rfl)
      simp [assertCstrEqual, cstrCheck, NullOrRel, countThenFailIf, this]

/-- `STRNCMP_EQUAL(e, a, n)`: … the same first `n` characters -/
theorem assertCstrNEqual_fails_iff (e a : Option Bytes) (n : Nat) (he : NulFreeOpt e) (ha : NulFreeOpt a) :
    (assertCstrNEqual e a n).fails = true ↔ ¬ NullOrRel (fun x y => x.take n = y.take n) e a := by
  cases e with
  | none => cases a <;> simp [assertCstrNEqual, cstrCheck, NullOrRel]
  | some x => cases a with
    | none => simp [assertCstrNEqual, cstrCheck, NullOrRel]
    | some y =>
      have := ncmp_eq_zero_iff n x y (he x rfl) (ha y rfl)
      simp [assertCstrNEqual, cstrCheck, NullOrRel, countThenFailIf, this]

/-- `STRCMP_NOCASE_EQUAL`: … equal after ASCII lower-casing -/
theorem assertCstrNoCaseEqual_fails_iff (e a : Option Bytes) :
    (assertCstrNoCaseEqual e a).fails = true ↔ ¬ NullOrRel (fun x y => Text.lower x = Text.lower y) e a := by
  cases e with
  | none => cases a <;> simp [assertCstrNoCaseEqual, cstrCheck, NullOrRel]
  | some x => cases a with
    | none => simp [assertCstrNoCaseEqual, cstrCheck, NullOrRel]
    | some y => simp [assertCstrNoCaseEqual, cstrCheck, NullOrRel, countThenFailIf, Text.equalsNoCase]

/-- `STRCMP_CONTAINS(e, a)`: … `e` occurs in `a` as a contiguous substring -/
theorem assertCstrContains_fails_iff (e a : Option Bytes) :
    (assertCstrContains e a).fails = true ↔ ¬ NullOrRel (fun x y => x <:+: y) e a := by
  cases e with
  | none => cases a <;> simp [assertCstrContains, cstrCheck, NullOrRel]
  | some x => cases a with
    | none => simp [assertCstrContains, cstrCheck, NullOrRel]
    | some y =>
      show (assertCstrContains (some x) (some y)).fails = true ↔ ¬ (x <:+: y)
      rw [← isInfix_iff y x]
      cases h : isInfix y x <;> simp [assertCstrContains, cstrCheck, countThenFailIf, h]

/-- `STRCMP_NOCASE_CONTAINS(e, a)`: … the lower-cased `e` occurs in the lower-cased `a` -/
theorem assertCstrNoCaseContains_fails_iff (e a : Option Bytes) :
    (assertCstrNoCaseContains e a).fails = true ↔
      ¬ NullOrRel (fun x y => Text.lower x <:+: Text.lower y) e a := by
  cases e with
  | none => cases a <;> simp [assertCstrNoCaseContains, cstrCheck, NullOrRel]
  | some x => cases a with
    | none => simp [assertCstrNoCaseContains, cstrCheck, NullOrRel]
    | some y =>
      show (assertCstrNoCaseContains (some x) (some y)).fails = true ↔ ¬ (Text.lower x <:+: Text.lower y)
      rw [← isInfix_iff (Text.lower y) (Text.lower x)]
      cases h : isInfix (Text.lower y) (Text.lower x) <;>
        simp [assertCstrNoCaseContains, cstrCheck, countThenFailIf, Text.containsNoCase, h]

/-! ## 6. memory blocks -/

/-- a zero length block always matches, NULL or not -/
theorem assertBinaryEqual_zero_length (e a : Option Bytes) :
    (assertBinaryEqual e a 0).fails = false ∧ (assertBinaryEqual e a 0).counted = 1 := ⟨rfl, rfl⟩

/-- for a non-zero length: fails iff not (both NULL, or both non-NULL with the same first `n`
    bytes); the blocks hold at least `n` bytes (the caller's obligation) -/
theorem assertBinaryEqual_fails_iff (e a : Option Bytes) (n : Nat) (hn : n ≠ 0)
    (he : ∀ x, e = some x → n ≤ x.length) (ha : ∀ x, a = some x → n ≤ x.length) :
    (assertBinaryEqual e a n).fails = true ↔ ¬ NullOrRel (fun x y => x.take n = y.take n) e a := by
  unfold assertBinaryEqual
  rw [if_neg hn]
  cases e with
  | none => cases a <;> simp [cstrCheck, NullOrRel]
  | some x => cases a with
    | none => simp [cstrCheck, NullOrRel]
    | some y =>
      have := memCmp_eq_zero_iff n x y (he x rfl) (ha y rfl)
      simp [cstrCheck, NullOrRel, countThenFailIf, this]

/-! ## 7. masked bits -/

theorem assertBitsEqual_fails_iff (e a m : BitVec 64) (bc : Nat) :
    (assertBitsEqual e a m bc).fails = true ↔ (e &&& m) ≠ (a &&& m) := by
  simp [assertBitsEqual, countThenFailIf]

/-- the byte count plays no role in the verdict -/
theorem assertBitsEqual_byteCount_irrelevant (e a m : BitVec 64) (bc bc' : Nat) :
    assertBitsEqual e a m bc = assertBitsEqual e a m bc' := rfl

/-- `BITS_EQUAL(e, a, m)` passes iff at every bit position selected by the mask the two's
    complement representations of the operands (as converted to `unsigned long`) agree -/
theorem BITS_EQUAL_passes_iff (e a m : Int) (bc : Nat) :
    (BITS_EQUAL e a m bc).fails = false ↔
      ∀ i, i < 64 → (conv 64 m).getLsbD i = true → (conv 64 e).getLsbD i = (conv 64 a).getLsbD i := by
  rw [← masked_eq_iff]
  simp [BITS_EQUAL, assertBitsEqual, countThenFailIf]

theorem CHECK_EQUAL_C_BITS_passes_iff (e a m : Int) (bc : Nat) :
    (CHECK_EQUAL_C_BITS e a m bc).fails = false ↔
      ∀ i, i < 64 → ((conv 32 m).zeroExtend 64).getLsbD i = true →
        ((conv 32 e).zeroExtend 64).getLsbD i = ((conv 32 a).zeroExtend 64).getLsbD i := by
  rw [← masked_eq_iff]
  simp [CHECK_EQUAL_C_BITS, assertBitsEqual, countThenFailIf]

/-! ## 8. doubles -/

section Doubles
variable {F : Type}

/-- NaN equals nothing, and nothing is equal under a NaN tolerance -/
theorem doubles_equal_nan_never (o : FinOps F) (x y : D F) :
    doublesEqual o .nan x y = false ∧ doublesEqual o x .nan y = false ∧ doublesEqual o x y .nan = false := by
  refine ⟨?_, ?_, ?_⟩
  · simp [doublesEqual, D.isNan]
  · cases x <;> simp [doublesEqual, D.isNan]
  · cases x <;> cases y <;> simp [doublesEqual, D.isNan]

/-- the same infinity is equal to itself under every (non-NaN) tolerance, also a negative one -/
theorem doubles_equal_same_infinity (o : FinOps F) (n : Bool) (t : D F) (ht : t ≠ .nan) :
    doublesEqual o (.inf n) (.inf n) t = true := by
  cases t with
  | nan => exact absurd rfl ht
  | inf k => cases n <;> simp [doublesEqual, D.isNan, D.isInf, D.gt0]
  | fin x => cases n <;> simp [doublesEqual, D.isNan, D.isInf, D.gt0]

/-- opposite infinities differ by +inf: equal exactly under the tolerance +inf -/
theorem doubles_equal_opposite_infinities (o : FinOps F) (n : Bool) (t : D F) :
    doublesEqual o (.inf n) (.inf (!n)) t = true ↔ t = .inf false := by
  cases t with
  | nan => cases n <;> simp [doublesEqual, D.isNan]
  | inf k => cases n <;> cases k <;> simp [doublesEqual, D.isNan, D.isInf, D.gt0, D.sub, D.abs, D.le]
  | fin x => cases n <;> simp [doublesEqual, D.isNan, D.isInf, D.gt0, D.sub, D.abs, D.le]

/-- the specification: no NaN involved, and the same infinity or `|a − b| ≤ tol`
    (IEEE `-`, `fabs`, `<=` on the infinities as the standard defines them:
    `inf − (−inf) = inf`, `|±inf| = inf`, `inf ≤ inf`) -/
def DoublesSpec (o : FinOps F) (a b t : D F) : Prop :=
  a ≠ .nan ∧ b ≠ .nan ∧ t ≠ .nan ∧ (D.SameInf a b ∨ D.le o (D.abs o (D.sub o a b)) t = true)

/-- FULL STRENGTH: for all operands and all tolerances (finite of either sign, ±inf, NaN),
    `doubles_equal` holds exactly when no NaN is involved and the operands are the same
    infinity or differ by no more than the tolerance.  (On the pinned tree this was false at
    `(+inf, −inf, tol)` for every tol; after the first repair still at `(+inf, −inf, +inf)`;
    both witnesses are kept in corpus/C03.) -/
theorem doubles_equal_spec (o : FinOps F) (a b t : D F) :
    doublesEqual o a b t = true ↔ DoublesSpec o a b t := by
  unfold DoublesSpec
  cases a with
  | nan => simp [doublesEqual, D.isNan]
  | inf n =>
    cases b with
    | nan => simp [doublesEqual, D.isNan]
    | inf m =>
      cases t with
      | nan => simp [doublesEqual, D.isNan]
      | inf k =>
        cases n <;> cases m <;> cases k <;>
          simp [doublesEqual, D.isNan, D.isInf, D.gt0, D.SameInf, D.sub, D.abs, D.le]
      | fin x =>
        cases n <;> cases m <;>
          simp [doublesEqual, D.isNan, D.isInf, D.gt0, D.SameInf, D.sub, D.abs, D.le]
    | fin y =>
      cases t <;> simp [doublesEqual, D.isNan, D.isInf, D.SameInf, D.sub, D.abs, D.le]
  | fin x =>
    cases b with
    | nan => simp [doublesEqual, D.isNan]
    | inf m =>
      cases t <;> simp [doublesEqual, D.isNan, D.isInf, D.SameInf, D.sub, D.abs, D.le]
    | fin y =>
      cases t <;> simp [doublesEqual, D.isNan, D.isInf, D.SameInf]

/-- two finite operands: exactly the finite comparison `|x − y| ≤ tol` -/
theorem doubles_equal_finite (o : FinOps F) (x y : F) (t : D F) (ht : t ≠ .nan) :
    doublesEqual o (.fin x) (.fin y) t = D.le o (D.abs o (o.sub x y)) t := by
  cases t with
  | nan => exact absurd rfl ht
  | inf k => simp [doublesEqual, D.isNan, D.isInf, D.sub]
  | fin z => simp [doublesEqual, D.isNan, D.isInf, D.sub]

/-- the same finite value is equal to itself under a tolerance `tol` whenever the finite
    arithmetic says `|x − x| ≤ tol` (IEEE: `x − x = 0`, so for every `tol ≥ 0`) -/
theorem doubles_equal_same_finite (o : FinOps F) (x tol z : F)
    (hsub : o.sub x x = .fin z) (hle : o.le (o.abs z) tol = true) :
    doublesEqual o (.fin x) (.fin x) (.fin tol) = true := by
  rw [doubles_equal_finite o x x (.fin tol) (by simp), hsub]; simpa [D.abs, D.le] using hle

/-- an infinity against a finite number: they differ by +inf, equal exactly under the tolerance +inf -/
theorem doubles_equal_inf_fin (o : FinOps F) (n : Bool) (x : F) (t : D F) :
    (doublesEqual o (.inf n) (.fin x) t = true ↔ t = .inf false) ∧
    (doublesEqual o (.fin x) (.inf n) t = true ↔ t = .inf false) := by
  constructor <;> cases t with
  | nan => simp [doublesEqual, D.isNan]
  | inf k => cases k <;> simp [doublesEqual, D.isNan, D.isInf, D.sub, D.abs, D.le]
  | fin z => simp [doublesEqual, D.isNan, D.isInf, D.sub, D.abs, D.le]

theorem assertDoublesEqual_fails_iff (o : FinOps F) (e a t : D F) :
    (assertDoublesEqual o e a t).fails = true ↔ ¬ DoublesSpec o e a t := by
  rw [← doubles_equal_spec o e a t]
  simp [assertDoublesEqual, countThenFailIf]

end Doubles

/-! ## 9. remaining macros: CHECK_EQUAL_ZERO, CHECK_THROWS -/

theorem CHECK_EQUAL_ZERO_fails_iff (a : CInt) (ha : InRange a.ty a.val) :
    (CHECK_EQUAL_ZERO a).fails = true ↔ a.val ≠ 0 := by
  have h0 : InRange tyInt 0 := by decide
  unfold CHECK_EQUAL_ZERO
  by_cases hn : 0 ≤ a.val
  · rw [CHECK_EQUAL_int_fails_iff_math _ _ h0 ha (Or.inr ⟨by decide, hn⟩)]
    constructor <;> intro h <;> exact fun e => h e.symm
  · -- a negative operand has a signed type, and `int` is signed
    have hs : (promote a.ty).signed = true := by
      obtain ⟨⟨w, sg⟩, v⟩ := a
      cases sg
      · simp [InRange] at ha hn; omega
      · unfold promote; split <;> simp [tyInt]
    rw [CHECK_EQUAL_int_fails_iff_math _ _ h0 ha (Or.inl (by rw [hs]; decide))]
    constructor <;> intro h <;> exact fun e => h e.symm

theorem CHECK_EQUAL_ZERO_counts_one (a : CInt) : (CHECK_EQUAL_ZERO a).counted = 1 := CHECK_EQUAL_counts_one _

/-- `CHECK_THROWS` fails iff the expression did not throw the expected exception, and counts one
    check either way (through `fail` or through `countCheck`) -/
theorem CHECK_THROWS_fails_iff (t : Thrown) : (CHECK_THROWS t).fails = true ↔ t ≠ .expected := by
  cases t <;> simp [CHECK_THROWS, fail, countOnly, countThenFailIf]

theorem CHECK_THROWS_counts_one (t : Thrown) : (CHECK_THROWS t).counted = 1 := by
  cases t <;> rfl

/-! ## 10. a failing check ends the test body: one failure per failing check -/

def Stmt.stops : Stmt → Bool
  | .check o => o.fails
  | .exit => true

def Stmt.counted : Stmt → Nat
  | .check o => o.counted
  | .exit => 0

/-- at most one failure is recorded by a test body, however many failing checks it contains -/
theorem body_at_most_one_failure : ∀ b : List Stmt, (runBody b).failures ≤ 1
  | [] => by simp [runBody]
  | .exit :: _ => by simp [runBody]
  | .check o :: rest => by
    unfold runBody; split
    · simp
    · simpa [BodyResult.after] using body_at_most_one_failure rest

/-- nothing after the first failing check (or TEST_EXIT) is executed: the body behaves as its
    prefix up to and including that statement -/
theorem body_stops_at_first_failure (pre : List Stmt) (s : Stmt) (post : List Stmt)
    (hpre : ∀ x ∈ pre, x.stops = false) (hs : s.stops = true) :
    runBody (pre ++ s :: post) = runBody (pre ++ [s]) := by
  induction pre with
  | nil =>
    cases s with
    | exit => simp [runBody]
    | check o => simp [Stmt.stops] at hs; simp [runBody, hs]
  | cons x xs ih =>
    have hx := hpre x (by simp)
    have ih' := ih (fun y hy => hpre y (by simp [hy]))
    cases x with
    | exit => simp [Stmt.stops] at hx
    | check o =>
      simp [Stmt.stops] at hx
      simp [runBody, hx, ih']

/-- a body of passing checks only: no failure, every statement executed, the checks add up -/
theorem body_all_pass (b : List Stmt) (h : ∀ x ∈ b, x.stops = false) :
    (runBody b).failures = 0 ∧ (runBody b).executed = b.length ∧
    (runBody b).checks = (b.map Stmt.counted).sum := by
  induction b with
  | nil => simp [runBody]
  | cons x xs ih =>
    have hx := h x (by simp)
    have ih' := ih (fun y hy => h y (by simp [hy]))
    cases x with
    | exit => simp [Stmt.stops] at hx
    | check o =>
      simp [Stmt.stops] at hx
      simp [runBody, hx, BodyResult.after, ih', Stmt.counted]

/-- a failure is recorded iff some executed statement is a failing check; precisely: a passing
    prefix followed by a failing check records exactly one failure, started `pre.length + 1`
    statements and counted the prefix's checks plus the failing one -/
theorem body_first_failure (pre : List Stmt) (o : Outcome) (post : List Stmt)
    (hpre : ∀ x ∈ pre, x.stops = false) (ho : o.fails = true) :
    (runBody (pre ++ .check o :: post)).failures = 1 ∧
    (runBody (pre ++ .check o :: post)).executed = pre.length + 1 ∧
    (runBody (pre ++ .check o :: post)).checks = (pre.map Stmt.counted).sum + o.counted := by
  induction pre with
  | nil => simp [runBody, ho]
  | cons x xs ih =>
    have hx := hpre x (by simp)
    have ih' := ih (fun y hy => hpre y (by simp [hy]))
    cases x with
    | exit => simp [Stmt.stops] at hx
    | check p =>
      simp [Stmt.stops] at hx
      simp [runBody, hx, BodyResult.after, ih', Stmt.counted]
      omega

/-- `TEST_EXIT` after a passing prefix: no failure, nothing after it runs -/
theorem body_exit (pre : List Stmt) (post : List Stmt) (hpre : ∀ x ∈ pre, x.stops = false) :
    (runBody (pre ++ .exit :: post)).failures = 0 ∧
    (runBody (pre ++ .exit :: post)).executed = pre.length + 1 := by
  induction pre with
  | nil => simp [runBody]
  | cons x xs ih =>
    have hx := hpre x (by simp)
    have ih' := ih (fun y hy => hpre y (by simp [hy]))
    cases x with
    | exit => simp [Stmt.stops] at hx
    | check p =>
      simp [Stmt.stops] at hx
      simp [runBody, hx, BodyResult.after, ih']

/-- CONVERSE of `body_first_failure`: a test body records a failure exactly when it has a failing check that is reached,
    i.e. one preceded only by passing checks (no failing check and no TEST_EXIT in front of it) -/
theorem body_failure_iff (b : List Stmt) :
    (runBody b).failures = 1 ↔
      ∃ pre o post, b = pre ++ Stmt.check o :: post ∧ (∀ x ∈ pre, x.stops = false) ∧ o.fails = true := by
  constructor
  · intro h
    induction b with
    | nil => simp [runBody] at h
    | cons x xs ih =>
      cases x with
      | exit => simp [runBody] at h
      | check o =>
        by_cases ho : o.fails = true
        · exact ⟨[], o, xs, rfl, by simp, ho⟩
        · have ho' : o.fails = false := by simpa using ho
          simp [runBody, ho', BodyResult.after] at h
          obtain ⟨pre, o2, post, e, hp, h2⟩ := ih h
          refine ⟨Stmt.check o :: pre, o2, post, by simp [e], ?_, h2⟩
          intro y hy
          rcases List.mem_cons.mp hy with rfl | hy
          · simpa [Stmt.stops] using ho'
          · exact hp y hy
  · rintro ⟨pre, o, post, rfl, hp, ho⟩
    exact (body_first_failure pre o post hp ho).1

/-- the check count of a body never exceeds what its statements count together, and it is exact for the executed prefix -/
theorem body_checks_eq_prefix_sum (b : List Stmt) :
    (runBody b).checks = ((b.take (runBody b).executed).map Stmt.counted).sum := by
  induction b with
  | nil => simp [runBody]
  | cons x xs ih =>
    cases x with
    | exit => simp [runBody, Stmt.counted]
    | check o =>
      by_cases ho : o.fails = true
      · simp [runBody, ho, Stmt.counted]
      · have ho' : o.fails = false := by simpa using ho
        simp [runBody, ho', BodyResult.after, Stmt.counted, ih]

/-! ## 11. operands with side effects: what the macros do (observation about the code, stated and proved
    on the model; upstream documents that a failing CHECK_EQUAL re-evaluates its operands) -/

/-- the verdict and the count of `CHECK_EQUAL` depend on the FIRST evaluation of each operand only -/
theorem checkEqualRun_outcome (t : CTy) (e a : Nat → Int) :
    (checkEqualRun t e a).1 = CHECK_EQUAL_int ⟨t, e 0⟩ ⟨t, a 0⟩ := by
  unfold checkEqualRun CHECK_EQUAL_int CHECK_EQUAL
  split <;> rfl

/-- a passing `CHECK_EQUAL` evaluates each operand once; a failing one four times (comparison,
    the two self-comparisons that detect side effects, `StringFrom` for the message) -/
theorem checkEqualRun_evaluations (t : CTy) (e a : Nat → Int) :
    ((checkEqualRun t e a).1.fails = false → (checkEqualRun t e a).2.expected = 1 ∧ (checkEqualRun t e a).2.actual = 1) ∧
    ((checkEqualRun t e a).1.fails = true → (checkEqualRun t e a).2.expected = 4 ∧ (checkEqualRun t e a).2.actual = 4) := by
  unfold checkEqualRun
  split <;> simp [assertEquals, assertLongsEqual, countThenFailIf]

/-- pure operands (the same value at every evaluation) never produce the "evaluated multiple times" warning -/
theorem checkEqualRun_pure_no_warning (t : CTy) (x y : Int) :
    (checkEqualRun t (fun _ => x) (fun _ => y)).2.warnings = 0 := by
  have hself : ∀ v : Int, cppNe ⟨t, v⟩ ⟨t, v⟩ = false := by intro v; simp [cppNe]
  unfold checkEqualRun
  split <;> simp [hself, warnIf]

/-- a passing `CHECK_COMPARE` evaluates each operand once, a failing one twice; verdict from the first evaluation -/
theorem checkCompareRun_evaluations (op : RelOp) (t : CTy) (e a : Nat → Int) :
    (checkCompareRun op t e a).1 = CHECK_COMPARE_int op ⟨t, e 0⟩ ⟨t, a 0⟩ ∧
    ((checkCompareRun op t e a).1.fails = false → (checkCompareRun op t e a).2.expected = 1 ∧ (checkCompareRun op t e a).2.actual = 1) ∧
    ((checkCompareRun op t e a).1.fails = true → (checkCompareRun op t e a).2.expected = 2 ∧ (checkCompareRun op t e a).2.actual = 2) := by
  unfold checkCompareRun CHECK_COMPARE_int CHECK_COMPARE
  cases h : cppRel op ⟨t, e 0⟩ ⟨t, a 0⟩ <;> simp [assertCompare, countThenFailIf, nothing]

/-! ## 13. the regenerated functions ARE the model

`Gen/AssertFns.lean` is produced on every run from clang's typed AST of the current Utest.cpp: `doubles_equal` as an
executable function over the class model, every `UtestShell::assert*` body as its statement list in source order
(`countCheck()`, `if (c) return;`, `if (c) failWith(…)`), integer conversions as the cast nodes clang inserted.  Each is
proved equal to the hand-written model function for ALL operands, so every theorem above speaks about what the source
says at check time; the `gen_*` corollaries state the property directly on the regenerated definitions. -/

section GenEq
variable {F : Type}

theorem ite_outcome (b : Bool) :
    (if b = true then { fails := true, counted := 1 } else { fails := false, counted := 1 } : Outcome) =
      { fails := b, counted := 1 } := by
  cases b <;> rfl

theorem runAssert_count_failIf (c : Bool) : runAssert 0 [.count, .failIf c] = countThenFailIf c := by
  cases c <;> rfl

theorem gen_doubles_equal_eq (o : FinOps F) (a b t : D F) :
    Gen.AssertFns.doubles_equal o a b t = doublesEqual o a b t := by
  cases a <;> cases b <;> cases t <;> simp [Gen.AssertFns.doubles_equal, doublesEqual, D.isNan, D.isInf]

theorem gen_assertTrue_eq (c : Bool) : Gen.AssertFns.assertTrue c = assertTrue c := runAssert_count_failIf _
theorem gen_fail_eq : Gen.AssertFns.fail = fail := rfl
theorem gen_assertLongsEqual_eq (e a : BitVec 64) : Gen.AssertFns.assertLongsEqual e a = assertLongsEqual e a :=
  runAssert_count_failIf _
theorem gen_assertUnsignedLongsEqual_eq (e a : BitVec 64) :
    Gen.AssertFns.assertUnsignedLongsEqual e a = assertUnsignedLongsEqual e a := runAssert_count_failIf _
theorem gen_assertLongLongsEqual_eq (e a : BitVec 64) :
    Gen.AssertFns.assertLongLongsEqual e a = assertLongLongsEqual e a := runAssert_count_failIf _
theorem gen_assertUnsignedLongLongsEqual_eq (e a : BitVec 64) :
    Gen.AssertFns.assertUnsignedLongLongsEqual e a = assertUnsignedLongLongsEqual e a := runAssert_count_failIf _
theorem gen_assertSignedBytesEqual_eq (e a : BitVec 8) :
    Gen.AssertFns.assertSignedBytesEqual e a = assertSignedBytesEqual e a := runAssert_count_failIf _
theorem gen_assertPointersEqual_eq (e a : BitVec 64) :
    Gen.AssertFns.assertPointersEqual e a = assertPointersEqual e a := runAssert_count_failIf _
theorem gen_assertFunctionPointersEqual_eq (e a : BitVec 64) :
    Gen.AssertFns.assertFunctionPointersEqual e a = assertFunctionPointersEqual e a := runAssert_count_failIf _
theorem gen_assertBitsEqual_eq (e a m bc : BitVec 64) :
    Gen.AssertFns.assertBitsEqual e a m bc = assertBitsEqual e a m bc.toNat := runAssert_count_failIf _
theorem gen_assertEquals_eq (failed : Bool) :
    Gen.AssertFns.assertEquals failed = assertEquals failed := runAssert_count_failIf _
theorem gen_assertCompare_eq (c : Bool) : Gen.AssertFns.assertCompare c = assertCompare c := runAssert_count_failIf _

theorem gen_assertDoublesEqual_eq (o : FinOps F) (e a t : D F) :
    Gen.AssertFns.assertDoublesEqual o e a t = assertDoublesEqual o e a t := by
  unfold Gen.AssertFns.assertDoublesEqual assertDoublesEqual
  rw [runAssert_count_failIf, gen_doubles_equal_eq]

/-- the skeleton of the string / block bodies: two NULLs return, one NULL fails, then the comparison -/
theorem runAssert_cstr (e a : Option Bytes) (c : Bool) :
    runAssert 0 [.count, .retIf (a.isNone && e.isNone), .failIf (a.isNone || e.isNone), .failIf c] =
      match e, a with
      | none, none => { fails := false, counted := 1 }
      | some _, some _ => countThenFailIf c
      | _, _ => { fails := true, counted := 1 } := by
  cases e <;> cases a <;> cases c <;> rfl

theorem gen_assertCstrEqual_eq (e a : Option Bytes) : Gen.AssertFns.assertCstrEqual e a = assertCstrEqual e a := by
  unfold Gen.AssertFns.assertCstrEqual; rw [runAssert_cstr]
  cases e <;> cases a <;> rfl

theorem gen_assertCstrNEqual_eq (e a : Option Bytes) (n : BitVec 64) :
    Gen.AssertFns.assertCstrNEqual e a n = assertCstrNEqual e a n.toNat := by
  unfold Gen.AssertFns.assertCstrNEqual; rw [runAssert_cstr]
  cases e <;> cases a <;> rfl

theorem gen_assertCstrNoCaseEqual_eq (e a : Option Bytes) :
    Gen.AssertFns.assertCstrNoCaseEqual e a = assertCstrNoCaseEqual e a := by
  unfold Gen.AssertFns.assertCstrNoCaseEqual; rw [runAssert_cstr]
  cases e <;> cases a <;> rfl

theorem gen_assertCstrContains_eq (e a : Option Bytes) :
    Gen.AssertFns.assertCstrContains e a = assertCstrContains e a := by
  unfold Gen.AssertFns.assertCstrContains; rw [runAssert_cstr]
  cases e <;> cases a <;> rfl

theorem gen_assertCstrNoCaseContains_eq (e a : Option Bytes) :
    Gen.AssertFns.assertCstrNoCaseContains e a = assertCstrNoCaseContains e a := by
  unfold Gen.AssertFns.assertCstrNoCaseContains; rw [runAssert_cstr]
  cases e <;> cases a <;> rfl

theorem gen_assertBinaryEqual_eq (e a : Option Bytes) (n : BitVec 64) :
    Gen.AssertFns.assertBinaryEqual e a n = assertBinaryEqual e a n.toNat := by
  unfold Gen.AssertFns.assertBinaryEqual assertBinaryEqual
  by_cases h : n = 0#64
  · subst h; rfl
  · have h' : n.toNat ≠ 0 := fun hz => h (BitVec.eq_of_toNat_eq (by simpa using hz))
    have hb : (n == 0#64) = false := by simpa using h
    rw [if_neg h']
    show runAssert 1 [.retIf (n == 0#64), _, _, _] = _
    simp only [runAssert, hb]
    cases e <;> cases a <;> simp only [runAssert, cstrCheck, countThenFailIf, P.MemCmp, Option.isNone, Bool.and_self,
      Bool.or_self, Bool.and_false, Bool.false_and, Bool.or_true, Bool.true_or, Bool.or_false, if_true, if_false,
      Bool.false_eq_true]
    next x y => exact ite_outcome _

/-- the property, stated on the regenerated `doubles_equal` itself -/
theorem gen_doubles_equal_spec (o : FinOps F) (a b t : D F) :
    Gen.AssertFns.doubles_equal o a b t = true ↔ DoublesSpec o a b t := by
  rw [gen_doubles_equal_eq]; exact doubles_equal_spec o a b t

/-- every regenerated assert body counts exactly one check, whatever the operands -/
theorem gen_assert_family_counts_one :
    (∀ c, (Gen.AssertFns.assertTrue c).counted = 1) ∧ Gen.AssertFns.fail.counted = 1 ∧
    (∀ e a, (Gen.AssertFns.assertLongsEqual e a).counted = 1) ∧ (∀ e a, (Gen.AssertFns.assertUnsignedLongsEqual e a).counted = 1) ∧
    (∀ e a, (Gen.AssertFns.assertLongLongsEqual e a).counted = 1) ∧
    (∀ e a, (Gen.AssertFns.assertUnsignedLongLongsEqual e a).counted = 1) ∧
    (∀ e a, (Gen.AssertFns.assertSignedBytesEqual e a).counted = 1) ∧ (∀ e a, (Gen.AssertFns.assertPointersEqual e a).counted = 1) ∧
    (∀ e a, (Gen.AssertFns.assertFunctionPointersEqual e a).counted = 1) ∧
    (∀ e a m n, (Gen.AssertFns.assertBitsEqual e a m n).counted = 1) ∧
    (∀ f, (Gen.AssertFns.assertEquals f).counted = 1) ∧ (∀ c, (Gen.AssertFns.assertCompare c).counted = 1) ∧
    (∀ e a, (Gen.AssertFns.assertCstrEqual e a).counted = 1) ∧ (∀ e a n, (Gen.AssertFns.assertCstrNEqual e a n).counted = 1) ∧
    (∀ e a, (Gen.AssertFns.assertCstrNoCaseEqual e a).counted = 1) ∧ (∀ e a, (Gen.AssertFns.assertCstrContains e a).counted = 1) ∧
    (∀ e a, (Gen.AssertFns.assertCstrNoCaseContains e a).counted = 1) ∧
    (∀ e a n, (Gen.AssertFns.assertBinaryEqual e a n).counted = 1) ∧
    (∀ (o : FinOps F) e a t, (Gen.AssertFns.assertDoublesEqual o e a t).counted = 1) := by
  obtain ⟨h1, h2, h3, h4, h5, h6, h7, h8, h9, h10, h11, h12, h13, h14, h15, h16, h17, h18⟩ := assert_family_counts_one
  refine ⟨?_, ?_, ?_, ?_, ?_, ?_, ?_, ?_, ?_, ?_, ?_, ?_, ?_, ?_, ?_, ?_, ?_, ?_, ?_⟩
  · intro c; rw [gen_assertTrue_eq]; exact h1 c
  · rw [gen_fail_eq]; exact h2
  · intro e a; rw [gen_assertLongsEqual_eq]; exact h3 e a
  · intro e a; rw [gen_assertUnsignedLongsEqual_eq]; exact h4 e a
  · intro e a; rw [gen_assertLongLongsEqual_eq]; exact h5 e a
  · intro e a; rw [gen_assertUnsignedLongLongsEqual_eq]; exact h6 e a
  · intro e a; rw [gen_assertSignedBytesEqual_eq]; exact h7 e a
  · intro e a; rw [gen_assertPointersEqual_eq]; exact h8 e a
  · intro e a; rw [gen_assertFunctionPointersEqual_eq]; exact h9 e a
  · intro e a m n; rw [gen_assertBitsEqual_eq]; exact h10 e a m _
  · intro f; rw [gen_assertEquals_eq]; exact h11 f
  · intro c; rw [gen_assertCompare_eq]; exact h12 c
  · intro e a; rw [gen_assertCstrEqual_eq]; exact h13 e a
  · intro e a n; rw [gen_assertCstrNEqual_eq]; exact h14 e a _
  · intro e a; rw [gen_assertCstrNoCaseEqual_eq]; exact h15 e a
  · intro e a; rw [gen_assertCstrContains_eq]; exact h16 e a
  · intro e a; rw [gen_assertCstrNoCaseContains_eq]; exact h17 e a
  · intro e a n; rw [gen_assertBinaryEqual_eq]; exact h18 e a _
  · intro o e a t; rw [gen_assertDoublesEqual_eq]; rfl

/-- the verdicts of the regenerated string / block / double bodies, stated with the textbook predicates -/
theorem gen_string_checks_fail_iff (e a : Option Bytes) (n : BitVec 64) (he : NulFreeOpt e) (ha : NulFreeOpt a) :
    ((Gen.AssertFns.assertCstrEqual e a).fails = true ↔ ¬ NullOrRel (fun x y => x = y) e a) ∧
    ((Gen.AssertFns.assertCstrNEqual e a n).fails = true ↔ ¬ NullOrRel (fun x y => x.take n.toNat = y.take n.toNat) e a) ∧
    ((Gen.AssertFns.assertCstrNoCaseEqual e a).fails = true ↔ ¬ NullOrRel (fun x y => Text.lower x = Text.lower y) e a) ∧
    ((Gen.AssertFns.assertCstrContains e a).fails = true ↔ ¬ NullOrRel (fun x y => x <:+: y) e a) ∧
    ((Gen.AssertFns.assertCstrNoCaseContains e a).fails = true ↔ ¬ NullOrRel (fun x y => Text.lower x <:+: Text.lower y) e a) := by
  rw [gen_assertCstrEqual_eq, gen_assertCstrNEqual_eq, gen_assertCstrNoCaseEqual_eq, gen_assertCstrContains_eq,
    gen_assertCstrNoCaseContains_eq]
  exact ⟨assertCstrEqual_fails_iff e a he ha, assertCstrNEqual_fails_iff e a _ he ha, assertCstrNoCaseEqual_fails_iff e a,
    assertCstrContains_fails_iff e a, assertCstrNoCaseContains_fails_iff e a⟩

theorem gen_assertBinaryEqual_fails_iff (e a : Option Bytes) (n : BitVec 64)
    (he : ∀ x, e = some x → n.toNat ≤ x.length) (ha : ∀ x, a = some x → n.toNat ≤ x.length) :
    (Gen.AssertFns.assertBinaryEqual e a n).fails = true ↔
      n ≠ 0#64 ∧ ¬ NullOrRel (fun x y => x.take n.toNat = y.take n.toNat) e a := by
  rw [gen_assertBinaryEqual_eq]
  by_cases h : n = 0#64
  · subst h; simp [assertBinaryEqual]
  · have h' : n.toNat ≠ 0 := fun hz => h (BitVec.eq_of_toNat_eq (by simpa using hz))
    rw [assertBinaryEqual_fails_iff e a _ h' he ha]; simp [h]

theorem gen_assertDoublesEqual_fails_iff (o : FinOps F) (e a t : D F) :
    (Gen.AssertFns.assertDoublesEqual o e a t).fails = true ↔ ¬ DoublesSpec o e a t := by
  rw [gen_assertDoublesEqual_eq]; exact assertDoublesEqual_fails_iff o e a t

/-- the regenerated integer / pointer / bit bodies: failure iff the operands (masked) differ -/
theorem gen_integer_asserts_fail_iff (e a m bc : BitVec 64) (x y : BitVec 8) :
    ((Gen.AssertFns.assertLongsEqual e a).fails = true ↔ e.toInt ≠ a.toInt) ∧
    ((Gen.AssertFns.assertUnsignedLongsEqual e a).fails = true ↔ e.toNat ≠ a.toNat) ∧
    ((Gen.AssertFns.assertLongLongsEqual e a).fails = true ↔ e.toInt ≠ a.toInt) ∧
    ((Gen.AssertFns.assertUnsignedLongLongsEqual e a).fails = true ↔ e.toNat ≠ a.toNat) ∧
    ((Gen.AssertFns.assertSignedBytesEqual x y).fails = true ↔ x.toInt ≠ y.toInt) ∧
    ((Gen.AssertFns.assertPointersEqual e a).fails = true ↔ e ≠ a) ∧
    ((Gen.AssertFns.assertFunctionPointersEqual e a).fails = true ↔ e ≠ a) ∧
    ((Gen.AssertFns.assertBitsEqual e a m bc).fails = true ↔ (e &&& m) ≠ (a &&& m)) := by
  rw [gen_assertLongsEqual_eq, gen_assertUnsignedLongsEqual_eq, gen_assertLongLongsEqual_eq,
    gen_assertUnsignedLongLongsEqual_eq, gen_assertSignedBytesEqual_eq, gen_assertPointersEqual_eq,
    gen_assertFunctionPointersEqual_eq, gen_assertBitsEqual_eq]
  exact ⟨assertLongsEqual_fails_iff e a, assertUnsignedLongsEqual_fails_iff e a, assertLongLongsEqual_fails_iff e a,
    assertUnsignedLongLongsEqual_fails_iff e a, assertSignedBytesEqual_fails_iff x y, assertPointersEqual_fails_iff e a,
    assertFunctionPointersEqual_fails_iff e a, assertBitsEqual_fails_iff e a m _⟩

end GenEq

example : (Gen.AssertFns.assertBinaryEqual none (some [1, 2]) 2#64).fails = true := by decide
example : (Gen.AssertFns.assertBinaryEqual none (some [1, 2]) 0#64) = { fails := false, counted := 1 } := by decide
example : (Gen.AssertFns.assertCstrNEqual (some [97, 98, 99]) (some [97, 98, 100]) 2#64).fails = false := by decide
example : (Gen.AssertFns.assertSignedBytesEqual 0x80#8 0x7f#8).fails = true := by decide
example : runAssert 0 [.retIf true, .count] = { fails := false, counted := 0 } := rfl     -- the order of the statements matters

/-! ## 14. the macro layer: what the headers expand to, read back from clang's typed AST

`Gen/AssertMacros.lean` is regenerated on every run: a probe translation unit instantiates every check macro of
UtestMacros.h / TestHarness_c.h (plain and `_TEXT`) at every operand type (pair) the harness drives; the expansion is
read from the typed AST - callee, casts, the usual arithmetic conversions clang inserted for `CHECK_EQUAL` /
`CHECK_COMPARE`, the `& 0xff`, `sizeof(actual)`, the statement structure of the flow macros - and emitted as
`M_<macro>_<types> : BitVec … → Outcome`; the C entry points of TestHarness_c.cpp likewise (`C.<name>`).  Each is
proved equal to the hand-written model function on the operands' mathematical values (`valueAt signed bits`), for all
bit patterns: in particular the model's `promote` / `common` (integral promotion, usual arithmetic conversions) agree
with clang on all 64 operand type pairs. -/

/-- the simp set that evaluates a regenerated macro expansion and the model function on the same typed operands -/
macro "psimp" "[" ns:ident,* "]" : tactic =>
  `(tactic| simp (config := {failIfUnchanged := false}) [$[$ns:ident],*, -BitVec.toInt_setWidth, -BitVec.toNat_setWidth, -BitVec.toInt_and, -BitVec.toNat_and,
      Nat.max_def, signExtend_eq_iff, setWidth_eq_iff, LONGS_EQUAL, UNSIGNED_LONGS_EQUAL, LONGLONGS_EQUAL, UNSIGNED_LONGLONGS_EQUAL, BYTES_EQUAL,
      SIGNED_BYTES_EQUAL, andLit_w _ _ 32 true, andLit_w _ _ 32 false, andLit_w _ _ 64 true, andLit_w _ _ 64 false, Gen.AssertShapes.bytesMask, CHECK_EQUAL_C_BOOL, CHECK_EQUAL_C_INT, CHECK_EQUAL_C_UINT,
      CHECK_EQUAL_C_LONG, CHECK_EQUAL_C_ULONG, CHECK_EQUAL_C_LONGLONG, CHECK_EQUAL_C_ULONGLONG, CHECK_EQUAL_C_CHAR,
      CHECK_EQUAL_C_UBYTE, CHECK_EQUAL_C_SBYTE, CHECK_EQUAL_C_BITS, CHECK_C, CHECK, CHECK_FALSE, CHECK_EQUAL_ZERO,
      CHECK_EQUAL_int, CHECK_EQUAL, cppNe_w _ _ 32, cppNe_w _ _ 64, CHECK_COMPARE_int, CHECK_COMPARE, cppRel, ENUMS_EQUAL_TYPE, BITS_EQUAL,
      common, promote, commonPromoted, tyInt, valueAt, conv_toInt, conv_toNat, conv_zero, seqO_nothing_left, toInt_bne_zero,
      toNat_bne_zero, holds_lt_s, holds_lt_u, holds_le_s, holds_le_u, holds_gt_s, holds_gt_u, holds_ge_s, holds_ge_u,
      holds_eq_s, holds_eq_u, holds_ne_s, holds_ne_u,
      Gen.AssertMacros.C.CHECK_EQUAL_C_BOOL_LOCATION, Gen.AssertMacros.C.CHECK_EQUAL_C_INT_LOCATION,
      Gen.AssertMacros.C.CHECK_EQUAL_C_UINT_LOCATION, Gen.AssertMacros.C.CHECK_EQUAL_C_LONG_LOCATION,
      Gen.AssertMacros.C.CHECK_EQUAL_C_ULONG_LOCATION, Gen.AssertMacros.C.CHECK_EQUAL_C_LONGLONG_LOCATION,
      Gen.AssertMacros.C.CHECK_EQUAL_C_ULONGLONG_LOCATION, Gen.AssertMacros.C.CHECK_EQUAL_C_CHAR_LOCATION,
      Gen.AssertMacros.C.CHECK_EQUAL_C_UBYTE_LOCATION, Gen.AssertMacros.C.CHECK_EQUAL_C_SBYTE_LOCATION,
      Gen.AssertMacros.C.CHECK_EQUAL_C_BITS_LOCATION, Gen.AssertMacros.C.CHECK_C_LOCATION,
      gen_assertTrue_eq, gen_assertLongsEqual_eq, gen_assertUnsignedLongsEqual_eq, gen_assertLongLongsEqual_eq,
      gen_assertUnsignedLongLongsEqual_eq, gen_assertSignedBytesEqual_eq, gen_assertBitsEqual_eq, gen_assertEquals_eq,
      gen_assertCompare_eq] <;> (try simp [signExtend_eq_iff, setWidth_eq_iff]))

theorem gen_macro_LONGS_EQUAL :
    (∀ (e a : BitVec 8), Gen.AssertMacros.M_LONGS_EQUAL_i8 e a = LONGS_EQUAL (valueAt true e) (valueAt true a)) ∧
    (∀ (e a : BitVec 8), Gen.AssertMacros.M_LONGS_EQUAL_u8 e a = LONGS_EQUAL (valueAt false e) (valueAt false a)) ∧
    (∀ (e a : BitVec 16), Gen.AssertMacros.M_LONGS_EQUAL_i16 e a = LONGS_EQUAL (valueAt true e) (valueAt true a)) ∧
    (∀ (e a : BitVec 16), Gen.AssertMacros.M_LONGS_EQUAL_u16 e a = LONGS_EQUAL (valueAt false e) (valueAt false a)) ∧
    (∀ (e a : BitVec 32), Gen.AssertMacros.M_LONGS_EQUAL_i32 e a = LONGS_EQUAL (valueAt true e) (valueAt true a)) ∧
    (∀ (e a : BitVec 32), Gen.AssertMacros.M_LONGS_EQUAL_u32 e a = LONGS_EQUAL (valueAt false e) (valueAt false a)) ∧
    (∀ (e a : BitVec 64), Gen.AssertMacros.M_LONGS_EQUAL_i64 e a = LONGS_EQUAL (valueAt true e) (valueAt true a)) ∧
    (∀ (e a : BitVec 64), Gen.AssertMacros.M_LONGS_EQUAL_u64 e a = LONGS_EQUAL (valueAt false e) (valueAt false a)) ∧
    (∀ (e a : BitVec 32), Gen.AssertMacros.M_LONGS_EQUAL_TEXT_i32 e a = LONGS_EQUAL (valueAt true e) (valueAt true a)) := by
  refine ⟨?_, ?_, ?_, ?_, ?_, ?_, ?_, ?_, ?_⟩ <;> intros <;>
    psimp [Gen.AssertMacros.M_LONGS_EQUAL_i8, Gen.AssertMacros.M_LONGS_EQUAL_u8, Gen.AssertMacros.M_LONGS_EQUAL_i16, Gen.AssertMacros.M_LONGS_EQUAL_u16, Gen.AssertMacros.M_LONGS_EQUAL_i32, Gen.AssertMacros.M_LONGS_EQUAL_u32, Gen.AssertMacros.M_LONGS_EQUAL_i64, Gen.AssertMacros.M_LONGS_EQUAL_u64, Gen.AssertMacros.M_LONGS_EQUAL_TEXT_i32]

theorem gen_macro_UNSIGNED_LONGS_EQUAL :
    (∀ (e a : BitVec 8), Gen.AssertMacros.M_UNSIGNED_LONGS_EQUAL_i8 e a = UNSIGNED_LONGS_EQUAL (valueAt true e) (valueAt true a)) ∧
    (∀ (e a : BitVec 8), Gen.AssertMacros.M_UNSIGNED_LONGS_EQUAL_u8 e a = UNSIGNED_LONGS_EQUAL (valueAt false e) (valueAt false a)) ∧
    (∀ (e a : BitVec 16), Gen.AssertMacros.M_UNSIGNED_LONGS_EQUAL_i16 e a = UNSIGNED_LONGS_EQUAL (valueAt true e) (valueAt true a)) ∧
    (∀ (e a : BitVec 16), Gen.AssertMacros.M_UNSIGNED_LONGS_EQUAL_u16 e a = UNSIGNED_LONGS_EQUAL (valueAt false e) (valueAt false a)) ∧
    (∀ (e a : BitVec 32), Gen.AssertMacros.M_UNSIGNED_LONGS_EQUAL_i32 e a = UNSIGNED_LONGS_EQUAL (valueAt true e) (valueAt true a)) ∧
    (∀ (e a : BitVec 32), Gen.AssertMacros.M_UNSIGNED_LONGS_EQUAL_u32 e a = UNSIGNED_LONGS_EQUAL (valueAt false e) (valueAt false a)) ∧
    (∀ (e a : BitVec 64), Gen.AssertMacros.M_UNSIGNED_LONGS_EQUAL_i64 e a = UNSIGNED_LONGS_EQUAL (valueAt true e) (valueAt true a)) ∧
    (∀ (e a : BitVec 64), Gen.AssertMacros.M_UNSIGNED_LONGS_EQUAL_u64 e a = UNSIGNED_LONGS_EQUAL (valueAt false e) (valueAt false a)) ∧
    (∀ (e a : BitVec 32), Gen.AssertMacros.M_UNSIGNED_LONGS_EQUAL_TEXT_i32 e a = UNSIGNED_LONGS_EQUAL (valueAt true e) (valueAt true a)) := by
  refine ⟨?_, ?_, ?_, ?_, ?_, ?_, ?_, ?_, ?_⟩ <;> intros <;>
    psimp [Gen.AssertMacros.M_UNSIGNED_LONGS_EQUAL_i8, Gen.AssertMacros.M_UNSIGNED_LONGS_EQUAL_u8, Gen.AssertMacros.M_UNSIGNED_LONGS_EQUAL_i16, Gen.AssertMacros.M_UNSIGNED_LONGS_EQUAL_u16, Gen.AssertMacros.M_UNSIGNED_LONGS_EQUAL_i32, Gen.AssertMacros.M_UNSIGNED_LONGS_EQUAL_u32, Gen.AssertMacros.M_UNSIGNED_LONGS_EQUAL_i64, Gen.AssertMacros.M_UNSIGNED_LONGS_EQUAL_u64, Gen.AssertMacros.M_UNSIGNED_LONGS_EQUAL_TEXT_i32]

theorem gen_macro_LONGLONGS_EQUAL :
    (∀ (e a : BitVec 8), Gen.AssertMacros.M_LONGLONGS_EQUAL_i8 e a = LONGLONGS_EQUAL (valueAt true e) (valueAt true a)) ∧
    (∀ (e a : BitVec 8), Gen.AssertMacros.M_LONGLONGS_EQUAL_u8 e a = LONGLONGS_EQUAL (valueAt false e) (valueAt false a)) ∧
    (∀ (e a : BitVec 16), Gen.AssertMacros.M_LONGLONGS_EQUAL_i16 e a = LONGLONGS_EQUAL (valueAt true e) (valueAt true a)) ∧
    (∀ (e a : BitVec 16), Gen.AssertMacros.M_LONGLONGS_EQUAL_u16 e a = LONGLONGS_EQUAL (valueAt false e) (valueAt false a)) ∧
    (∀ (e a : BitVec 32), Gen.AssertMacros.M_LONGLONGS_EQUAL_i32 e a = LONGLONGS_EQUAL (valueAt true e) (valueAt true a)) ∧
    (∀ (e a : BitVec 32), Gen.AssertMacros.M_LONGLONGS_EQUAL_u32 e a = LONGLONGS_EQUAL (valueAt false e) (valueAt false a)) ∧
    (∀ (e a : BitVec 64), Gen.AssertMacros.M_LONGLONGS_EQUAL_i64 e a = LONGLONGS_EQUAL (valueAt true e) (valueAt true a)) ∧
    (∀ (e a : BitVec 64), Gen.AssertMacros.M_LONGLONGS_EQUAL_u64 e a = LONGLONGS_EQUAL (valueAt false e) (valueAt false a)) ∧
    (∀ (e a : BitVec 32), Gen.AssertMacros.M_LONGLONGS_EQUAL_TEXT_i32 e a = LONGLONGS_EQUAL (valueAt true e) (valueAt true a)) := by
  refine ⟨?_, ?_, ?_, ?_, ?_, ?_, ?_, ?_, ?_⟩ <;> intros <;>
    psimp [Gen.AssertMacros.M_LONGLONGS_EQUAL_i8, Gen.AssertMacros.M_LONGLONGS_EQUAL_u8, Gen.AssertMacros.M_LONGLONGS_EQUAL_i16, Gen.AssertMacros.M_LONGLONGS_EQUAL_u16, Gen.AssertMacros.M_LONGLONGS_EQUAL_i32, Gen.AssertMacros.M_LONGLONGS_EQUAL_u32, Gen.AssertMacros.M_LONGLONGS_EQUAL_i64, Gen.AssertMacros.M_LONGLONGS_EQUAL_u64, Gen.AssertMacros.M_LONGLONGS_EQUAL_TEXT_i32]

theorem gen_macro_UNSIGNED_LONGLONGS_EQUAL :
    (∀ (e a : BitVec 8), Gen.AssertMacros.M_UNSIGNED_LONGLONGS_EQUAL_i8 e a = UNSIGNED_LONGLONGS_EQUAL (valueAt true e) (valueAt true a)) ∧
    (∀ (e a : BitVec 8), Gen.AssertMacros.M_UNSIGNED_LONGLONGS_EQUAL_u8 e a = UNSIGNED_LONGLONGS_EQUAL (valueAt false e) (valueAt false a)) ∧
    (∀ (e a : BitVec 16), Gen.AssertMacros.M_UNSIGNED_LONGLONGS_EQUAL_i16 e a = UNSIGNED_LONGLONGS_EQUAL (valueAt true e) (valueAt true a)) ∧
    (∀ (e a : BitVec 16), Gen.AssertMacros.M_UNSIGNED_LONGLONGS_EQUAL_u16 e a = UNSIGNED_LONGLONGS_EQUAL (valueAt false e) (valueAt false a)) ∧
    (∀ (e a : BitVec 32), Gen.AssertMacros.M_UNSIGNED_LONGLONGS_EQUAL_i32 e a = UNSIGNED_LONGLONGS_EQUAL (valueAt true e) (valueAt true a)) ∧
    (∀ (e a : BitVec 32), Gen.AssertMacros.M_UNSIGNED_LONGLONGS_EQUAL_u32 e a = UNSIGNED_LONGLONGS_EQUAL (valueAt false e) (valueAt false a)) ∧
    (∀ (e a : BitVec 64), Gen.AssertMacros.M_UNSIGNED_LONGLONGS_EQUAL_i64 e a = UNSIGNED_LONGLONGS_EQUAL (valueAt true e) (valueAt true a)) ∧
    (∀ (e a : BitVec 64), Gen.AssertMacros.M_UNSIGNED_LONGLONGS_EQUAL_u64 e a = UNSIGNED_LONGLONGS_EQUAL (valueAt false e) (valueAt false a)) ∧
    (∀ (e a : BitVec 32), Gen.AssertMacros.M_UNSIGNED_LONGLONGS_EQUAL_TEXT_i32 e a = UNSIGNED_LONGLONGS_EQUAL (valueAt true e) (valueAt true a)) := by
  refine ⟨?_, ?_, ?_, ?_, ?_, ?_, ?_, ?_, ?_⟩ <;> intros <;>
    psimp [Gen.AssertMacros.M_UNSIGNED_LONGLONGS_EQUAL_i8, Gen.AssertMacros.M_UNSIGNED_LONGLONGS_EQUAL_u8, Gen.AssertMacros.M_UNSIGNED_LONGLONGS_EQUAL_i16, Gen.AssertMacros.M_UNSIGNED_LONGLONGS_EQUAL_u16, Gen.AssertMacros.M_UNSIGNED_LONGLONGS_EQUAL_i32, Gen.AssertMacros.M_UNSIGNED_LONGLONGS_EQUAL_u32, Gen.AssertMacros.M_UNSIGNED_LONGLONGS_EQUAL_i64, Gen.AssertMacros.M_UNSIGNED_LONGLONGS_EQUAL_u64, Gen.AssertMacros.M_UNSIGNED_LONGLONGS_EQUAL_TEXT_i32]

theorem gen_macro_BYTES_EQUAL :
    (∀ (e a : BitVec 8), Gen.AssertMacros.M_BYTES_EQUAL_i8 e a = BYTES_EQUAL ⟨⟨8, true⟩, valueAt true e⟩ ⟨⟨8, true⟩, valueAt true a⟩) ∧
    (∀ (e a : BitVec 8), Gen.AssertMacros.M_BYTES_EQUAL_u8 e a = BYTES_EQUAL ⟨⟨8, false⟩, valueAt false e⟩ ⟨⟨8, false⟩, valueAt false a⟩) ∧
    (∀ (e a : BitVec 16), Gen.AssertMacros.M_BYTES_EQUAL_i16 e a = BYTES_EQUAL ⟨⟨16, true⟩, valueAt true e⟩ ⟨⟨16, true⟩, valueAt true a⟩) ∧
    (∀ (e a : BitVec 16), Gen.AssertMacros.M_BYTES_EQUAL_u16 e a = BYTES_EQUAL ⟨⟨16, false⟩, valueAt false e⟩ ⟨⟨16, false⟩, valueAt false a⟩) ∧
    (∀ (e a : BitVec 32), Gen.AssertMacros.M_BYTES_EQUAL_i32 e a = BYTES_EQUAL ⟨⟨32, true⟩, valueAt true e⟩ ⟨⟨32, true⟩, valueAt true a⟩) ∧
    (∀ (e a : BitVec 32), Gen.AssertMacros.M_BYTES_EQUAL_u32 e a = BYTES_EQUAL ⟨⟨32, false⟩, valueAt false e⟩ ⟨⟨32, false⟩, valueAt false a⟩) ∧
    (∀ (e a : BitVec 64), Gen.AssertMacros.M_BYTES_EQUAL_i64 e a = BYTES_EQUAL ⟨⟨64, true⟩, valueAt true e⟩ ⟨⟨64, true⟩, valueAt true a⟩) ∧
    (∀ (e a : BitVec 64), Gen.AssertMacros.M_BYTES_EQUAL_u64 e a = BYTES_EQUAL ⟨⟨64, false⟩, valueAt false e⟩ ⟨⟨64, false⟩, valueAt false a⟩) ∧
    (∀ (e a : BitVec 32), Gen.AssertMacros.M_BYTES_EQUAL_TEXT_i32 e a = BYTES_EQUAL ⟨⟨32, true⟩, valueAt true e⟩ ⟨⟨32, true⟩, valueAt true a⟩) := by
  refine ⟨?_, ?_, ?_, ?_, ?_, ?_, ?_, ?_, ?_⟩ <;> intros <;>
    psimp [Gen.AssertMacros.M_BYTES_EQUAL_i8, Gen.AssertMacros.M_BYTES_EQUAL_u8, Gen.AssertMacros.M_BYTES_EQUAL_i16, Gen.AssertMacros.M_BYTES_EQUAL_u16, Gen.AssertMacros.M_BYTES_EQUAL_i32, Gen.AssertMacros.M_BYTES_EQUAL_u32, Gen.AssertMacros.M_BYTES_EQUAL_i64, Gen.AssertMacros.M_BYTES_EQUAL_u64, Gen.AssertMacros.M_BYTES_EQUAL_TEXT_i32]

theorem gen_macro_SIGNED_BYTES_EQUAL :
    (∀ (e a : BitVec 8), Gen.AssertMacros.M_SIGNED_BYTES_EQUAL_i8 e a = SIGNED_BYTES_EQUAL (valueAt true e) (valueAt true a)) ∧
    (∀ (e a : BitVec 8), Gen.AssertMacros.M_SIGNED_BYTES_EQUAL_u8 e a = SIGNED_BYTES_EQUAL (valueAt false e) (valueAt false a)) ∧
    (∀ (e a : BitVec 16), Gen.AssertMacros.M_SIGNED_BYTES_EQUAL_i16 e a = SIGNED_BYTES_EQUAL (valueAt true e) (valueAt true a)) ∧
    (∀ (e a : BitVec 16), Gen.AssertMacros.M_SIGNED_BYTES_EQUAL_u16 e a = SIGNED_BYTES_EQUAL (valueAt false e) (valueAt false a)) ∧
    (∀ (e a : BitVec 32), Gen.AssertMacros.M_SIGNED_BYTES_EQUAL_i32 e a = SIGNED_BYTES_EQUAL (valueAt true e) (valueAt true a)) ∧
    (∀ (e a : BitVec 32), Gen.AssertMacros.M_SIGNED_BYTES_EQUAL_u32 e a = SIGNED_BYTES_EQUAL (valueAt false e) (valueAt false a)) ∧
    (∀ (e a : BitVec 64), Gen.AssertMacros.M_SIGNED_BYTES_EQUAL_i64 e a = SIGNED_BYTES_EQUAL (valueAt true e) (valueAt true a)) ∧
    (∀ (e a : BitVec 64), Gen.AssertMacros.M_SIGNED_BYTES_EQUAL_u64 e a = SIGNED_BYTES_EQUAL (valueAt false e) (valueAt false a)) ∧
    (∀ (e a : BitVec 32), Gen.AssertMacros.M_SIGNED_BYTES_EQUAL_TEXT_i32 e a = SIGNED_BYTES_EQUAL (valueAt true e) (valueAt true a)) := by
  refine ⟨?_, ?_, ?_, ?_, ?_, ?_, ?_, ?_, ?_⟩ <;> intros <;>
    psimp [Gen.AssertMacros.M_SIGNED_BYTES_EQUAL_i8, Gen.AssertMacros.M_SIGNED_BYTES_EQUAL_u8, Gen.AssertMacros.M_SIGNED_BYTES_EQUAL_i16, Gen.AssertMacros.M_SIGNED_BYTES_EQUAL_u16, Gen.AssertMacros.M_SIGNED_BYTES_EQUAL_i32, Gen.AssertMacros.M_SIGNED_BYTES_EQUAL_u32, Gen.AssertMacros.M_SIGNED_BYTES_EQUAL_i64, Gen.AssertMacros.M_SIGNED_BYTES_EQUAL_u64, Gen.AssertMacros.M_SIGNED_BYTES_EQUAL_TEXT_i32]

theorem gen_macro_CHECK_EQUAL_C_BOOL :
    (∀ (e a : BitVec 8), Gen.AssertMacros.M_CHECK_EQUAL_C_BOOL_i8 e a = CHECK_EQUAL_C_BOOL (valueAt true e) (valueAt true a)) ∧
    (∀ (e a : BitVec 8), Gen.AssertMacros.M_CHECK_EQUAL_C_BOOL_u8 e a = CHECK_EQUAL_C_BOOL (valueAt false e) (valueAt false a)) ∧
    (∀ (e a : BitVec 16), Gen.AssertMacros.M_CHECK_EQUAL_C_BOOL_i16 e a = CHECK_EQUAL_C_BOOL (valueAt true e) (valueAt true a)) ∧
    (∀ (e a : BitVec 16), Gen.AssertMacros.M_CHECK_EQUAL_C_BOOL_u16 e a = CHECK_EQUAL_C_BOOL (valueAt false e) (valueAt false a)) ∧
    (∀ (e a : BitVec 32), Gen.AssertMacros.M_CHECK_EQUAL_C_BOOL_i32 e a = CHECK_EQUAL_C_BOOL (valueAt true e) (valueAt true a)) ∧
    (∀ (e a : BitVec 32), Gen.AssertMacros.M_CHECK_EQUAL_C_BOOL_u32 e a = CHECK_EQUAL_C_BOOL (valueAt false e) (valueAt false a)) ∧
    (∀ (e a : BitVec 64), Gen.AssertMacros.M_CHECK_EQUAL_C_BOOL_i64 e a = CHECK_EQUAL_C_BOOL (valueAt true e) (valueAt true a)) ∧
    (∀ (e a : BitVec 64), Gen.AssertMacros.M_CHECK_EQUAL_C_BOOL_u64 e a = CHECK_EQUAL_C_BOOL (valueAt false e) (valueAt false a)) ∧
    (∀ (e a : BitVec 32), Gen.AssertMacros.M_CHECK_EQUAL_C_BOOL_TEXT_i32 e a = CHECK_EQUAL_C_BOOL (valueAt true e) (valueAt true a)) := by
  refine ⟨?_, ?_, ?_, ?_, ?_, ?_, ?_, ?_, ?_⟩ <;> intros <;>
    psimp [Gen.AssertMacros.M_CHECK_EQUAL_C_BOOL_i8, Gen.AssertMacros.M_CHECK_EQUAL_C_BOOL_u8, Gen.AssertMacros.M_CHECK_EQUAL_C_BOOL_i16, Gen.AssertMacros.M_CHECK_EQUAL_C_BOOL_u16, Gen.AssertMacros.M_CHECK_EQUAL_C_BOOL_i32, Gen.AssertMacros.M_CHECK_EQUAL_C_BOOL_u32, Gen.AssertMacros.M_CHECK_EQUAL_C_BOOL_i64, Gen.AssertMacros.M_CHECK_EQUAL_C_BOOL_u64, Gen.AssertMacros.M_CHECK_EQUAL_C_BOOL_TEXT_i32]

theorem gen_macro_CHECK_EQUAL_C_INT :
    (∀ (e a : BitVec 8), Gen.AssertMacros.M_CHECK_EQUAL_C_INT_i8 e a = CHECK_EQUAL_C_INT (valueAt true e) (valueAt true a)) ∧
    (∀ (e a : BitVec 8), Gen.AssertMacros.M_CHECK_EQUAL_C_INT_u8 e a = CHECK_EQUAL_C_INT (valueAt false e) (valueAt false a)) ∧
    (∀ (e a : BitVec 16), Gen.AssertMacros.M_CHECK_EQUAL_C_INT_i16 e a = CHECK_EQUAL_C_INT (valueAt true e) (valueAt true a)) ∧
    (∀ (e a : BitVec 16), Gen.AssertMacros.M_CHECK_EQUAL_C_INT_u16 e a = CHECK_EQUAL_C_INT (valueAt false e) (valueAt false a)) ∧
    (∀ (e a : BitVec 32), Gen.AssertMacros.M_CHECK_EQUAL_C_INT_i32 e a = CHECK_EQUAL_C_INT (valueAt true e) (valueAt true a)) ∧
    (∀ (e a : BitVec 32), Gen.AssertMacros.M_CHECK_EQUAL_C_INT_u32 e a = CHECK_EQUAL_C_INT (valueAt false e) (valueAt false a)) ∧
    (∀ (e a : BitVec 64), Gen.AssertMacros.M_CHECK_EQUAL_C_INT_i64 e a = CHECK_EQUAL_C_INT (valueAt true e) (valueAt true a)) ∧
    (∀ (e a : BitVec 64), Gen.AssertMacros.M_CHECK_EQUAL_C_INT_u64 e a = CHECK_EQUAL_C_INT (valueAt false e) (valueAt false a)) ∧
    (∀ (e a : BitVec 32), Gen.AssertMacros.M_CHECK_EQUAL_C_INT_TEXT_i32 e a = CHECK_EQUAL_C_INT (valueAt true e) (valueAt true a)) := by
  refine ⟨?_, ?_, ?_, ?_, ?_, ?_, ?_, ?_, ?_⟩ <;> intros <;>
    psimp [Gen.AssertMacros.M_CHECK_EQUAL_C_INT_i8, Gen.AssertMacros.M_CHECK_EQUAL_C_INT_u8, Gen.AssertMacros.M_CHECK_EQUAL_C_INT_i16, Gen.AssertMacros.M_CHECK_EQUAL_C_INT_u16, Gen.AssertMacros.M_CHECK_EQUAL_C_INT_i32, Gen.AssertMacros.M_CHECK_EQUAL_C_INT_u32, Gen.AssertMacros.M_CHECK_EQUAL_C_INT_i64, Gen.AssertMacros.M_CHECK_EQUAL_C_INT_u64, Gen.AssertMacros.M_CHECK_EQUAL_C_INT_TEXT_i32]

theorem gen_macro_CHECK_EQUAL_C_UINT :
    (∀ (e a : BitVec 8), Gen.AssertMacros.M_CHECK_EQUAL_C_UINT_i8 e a = CHECK_EQUAL_C_UINT (valueAt true e) (valueAt true a)) ∧
    (∀ (e a : BitVec 8), Gen.AssertMacros.M_CHECK_EQUAL_C_UINT_u8 e a = CHECK_EQUAL_C_UINT (valueAt false e) (valueAt false a)) ∧
    (∀ (e a : BitVec 16), Gen.AssertMacros.M_CHECK_EQUAL_C_UINT_i16 e a = CHECK_EQUAL_C_UINT (valueAt true e) (valueAt true a)) ∧
    (∀ (e a : BitVec 16), Gen.AssertMacros.M_CHECK_EQUAL_C_UINT_u16 e a = CHECK_EQUAL_C_UINT (valueAt false e) (valueAt false a)) ∧
    (∀ (e a : BitVec 32), Gen.AssertMacros.M_CHECK_EQUAL_C_UINT_i32 e a = CHECK_EQUAL_C_UINT (valueAt true e) (valueAt true a)) ∧
    (∀ (e a : BitVec 32), Gen.AssertMacros.M_CHECK_EQUAL_C_UINT_u32 e a = CHECK_EQUAL_C_UINT (valueAt false e) (valueAt false a)) ∧
    (∀ (e a : BitVec 64), Gen.AssertMacros.M_CHECK_EQUAL_C_UINT_i64 e a = CHECK_EQUAL_C_UINT (valueAt true e) (valueAt true a)) ∧
    (∀ (e a : BitVec 64), Gen.AssertMacros.M_CHECK_EQUAL_C_UINT_u64 e a = CHECK_EQUAL_C_UINT (valueAt false e) (valueAt false a)) ∧
    (∀ (e a : BitVec 32), Gen.AssertMacros.M_CHECK_EQUAL_C_UINT_TEXT_i32 e a = CHECK_EQUAL_C_UINT (valueAt true e) (valueAt true a)) := by
  refine ⟨?_, ?_, ?_, ?_, ?_, ?_, ?_, ?_, ?_⟩ <;> intros <;>
    psimp [Gen.AssertMacros.M_CHECK_EQUAL_C_UINT_i8, Gen.AssertMacros.M_CHECK_EQUAL_C_UINT_u8, Gen.AssertMacros.M_CHECK_EQUAL_C_UINT_i16, Gen.AssertMacros.M_CHECK_EQUAL_C_UINT_u16, Gen.AssertMacros.M_CHECK_EQUAL_C_UINT_i32, Gen.AssertMacros.M_CHECK_EQUAL_C_UINT_u32, Gen.AssertMacros.M_CHECK_EQUAL_C_UINT_i64, Gen.AssertMacros.M_CHECK_EQUAL_C_UINT_u64, Gen.AssertMacros.M_CHECK_EQUAL_C_UINT_TEXT_i32]

theorem gen_macro_CHECK_EQUAL_C_LONG :
    (∀ (e a : BitVec 8), Gen.AssertMacros.M_CHECK_EQUAL_C_LONG_i8 e a = CHECK_EQUAL_C_LONG (valueAt true e) (valueAt true a)) ∧
    (∀ (e a : BitVec 8), Gen.AssertMacros.M_CHECK_EQUAL_C_LONG_u8 e a = CHECK_EQUAL_C_LONG (valueAt false e) (valueAt false a)) ∧
    (∀ (e a : BitVec 16), Gen.AssertMacros.M_CHECK_EQUAL_C_LONG_i16 e a = CHECK_EQUAL_C_LONG (valueAt true e) (valueAt true a)) ∧
    (∀ (e a : BitVec 16), Gen.AssertMacros.M_CHECK_EQUAL_C_LONG_u16 e a = CHECK_EQUAL_C_LONG (valueAt false e) (valueAt false a)) ∧
    (∀ (e a : BitVec 32), Gen.AssertMacros.M_CHECK_EQUAL_C_LONG_i32 e a = CHECK_EQUAL_C_LONG (valueAt true e) (valueAt true a)) ∧
    (∀ (e a : BitVec 32), Gen.AssertMacros.M_CHECK_EQUAL_C_LONG_u32 e a = CHECK_EQUAL_C_LONG (valueAt false e) (valueAt false a)) ∧
    (∀ (e a : BitVec 64), Gen.AssertMacros.M_CHECK_EQUAL_C_LONG_i64 e a = CHECK_EQUAL_C_LONG (valueAt true e) (valueAt true a)) ∧
    (∀ (e a : BitVec 64), Gen.AssertMacros.M_CHECK_EQUAL_C_LONG_u64 e a = CHECK_EQUAL_C_LONG (valueAt false e) (valueAt false a)) ∧
    (∀ (e a : BitVec 32), Gen.AssertMacros.M_CHECK_EQUAL_C_LONG_TEXT_i32 e a = CHECK_EQUAL_C_LONG (valueAt true e) (valueAt true a)) := by
  refine ⟨?_, ?_, ?_, ?_, ?_, ?_, ?_, ?_, ?_⟩ <;> intros <;>
    psimp [Gen.AssertMacros.M_CHECK_EQUAL_C_LONG_i8, Gen.AssertMacros.M_CHECK_EQUAL_C_LONG_u8, Gen.AssertMacros.M_CHECK_EQUAL_C_LONG_i16, Gen.AssertMacros.M_CHECK_EQUAL_C_LONG_u16, Gen.AssertMacros.M_CHECK_EQUAL_C_LONG_i32, Gen.AssertMacros.M_CHECK_EQUAL_C_LONG_u32, Gen.AssertMacros.M_CHECK_EQUAL_C_LONG_i64, Gen.AssertMacros.M_CHECK_EQUAL_C_LONG_u64, Gen.AssertMacros.M_CHECK_EQUAL_C_LONG_TEXT_i32]

theorem gen_macro_CHECK_EQUAL_C_ULONG :
    (∀ (e a : BitVec 8), Gen.AssertMacros.M_CHECK_EQUAL_C_ULONG_i8 e a = CHECK_EQUAL_C_ULONG (valueAt true e) (valueAt true a)) ∧
    (∀ (e a : BitVec 8), Gen.AssertMacros.M_CHECK_EQUAL_C_ULONG_u8 e a = CHECK_EQUAL_C_ULONG (valueAt false e) (valueAt false a)) ∧
    (∀ (e a : BitVec 16), Gen.AssertMacros.M_CHECK_EQUAL_C_ULONG_i16 e a = CHECK_EQUAL_C_ULONG (valueAt true e) (valueAt true a)) ∧
    (∀ (e a : BitVec 16), Gen.AssertMacros.M_CHECK_EQUAL_C_ULONG_u16 e a = CHECK_EQUAL_C_ULONG (valueAt false e) (valueAt false a)) ∧
    (∀ (e a : BitVec 32), Gen.AssertMacros.M_CHECK_EQUAL_C_ULONG_i32 e a = CHECK_EQUAL_C_ULONG (valueAt true e) (valueAt true a)) ∧
    (∀ (e a : BitVec 32), Gen.AssertMacros.M_CHECK_EQUAL_C_ULONG_u32 e a = CHECK_EQUAL_C_ULONG (valueAt false e) (valueAt false a)) ∧
    (∀ (e a : BitVec 64), Gen.AssertMacros.M_CHECK_EQUAL_C_ULONG_i64 e a = CHECK_EQUAL_C_ULONG (valueAt true e) (valueAt true a)) ∧
    (∀ (e a : BitVec 64), Gen.AssertMacros.M_CHECK_EQUAL_C_ULONG_u64 e a = CHECK_EQUAL_C_ULONG (valueAt false e) (valueAt false a)) ∧
    (∀ (e a : BitVec 32), Gen.AssertMacros.M_CHECK_EQUAL_C_ULONG_TEXT_i32 e a = CHECK_EQUAL_C_ULONG (valueAt true e) (valueAt true a)) := by
  refine ⟨?_, ?_, ?_, ?_, ?_, ?_, ?_, ?_, ?_⟩ <;> intros <;>
    psimp [Gen.AssertMacros.M_CHECK_EQUAL_C_ULONG_i8, Gen.AssertMacros.M_CHECK_EQUAL_C_ULONG_u8, Gen.AssertMacros.M_CHECK_EQUAL_C_ULONG_i16, Gen.AssertMacros.M_CHECK_EQUAL_C_ULONG_u16, Gen.AssertMacros.M_CHECK_EQUAL_C_ULONG_i32, Gen.AssertMacros.M_CHECK_EQUAL_C_ULONG_u32, Gen.AssertMacros.M_CHECK_EQUAL_C_ULONG_i64, Gen.AssertMacros.M_CHECK_EQUAL_C_ULONG_u64, Gen.AssertMacros.M_CHECK_EQUAL_C_ULONG_TEXT_i32]

theorem gen_macro_CHECK_EQUAL_C_LONGLONG :
    (∀ (e a : BitVec 8), Gen.AssertMacros.M_CHECK_EQUAL_C_LONGLONG_i8 e a = CHECK_EQUAL_C_LONGLONG (valueAt true e) (valueAt true a)) ∧
    (∀ (e a : BitVec 8), Gen.AssertMacros.M_CHECK_EQUAL_C_LONGLONG_u8 e a = CHECK_EQUAL_C_LONGLONG (valueAt false e) (valueAt false a)) ∧
    (∀ (e a : BitVec 16), Gen.AssertMacros.M_CHECK_EQUAL_C_LONGLONG_i16 e a = CHECK_EQUAL_C_LONGLONG (valueAt true e) (valueAt true a)) ∧
    (∀ (e a : BitVec 16), Gen.AssertMacros.M_CHECK_EQUAL_C_LONGLONG_u16 e a = CHECK_EQUAL_C_LONGLONG (valueAt false e) (valueAt false a)) ∧
    (∀ (e a : BitVec 32), Gen.AssertMacros.M_CHECK_EQUAL_C_LONGLONG_i32 e a = CHECK_EQUAL_C_LONGLONG (valueAt true e) (valueAt true a)) ∧
    (∀ (e a : BitVec 32), Gen.AssertMacros.M_CHECK_EQUAL_C_LONGLONG_u32 e a = CHECK_EQUAL_C_LONGLONG (valueAt false e) (valueAt false a)) ∧
    (∀ (e a : BitVec 64), Gen.AssertMacros.M_CHECK_EQUAL_C_LONGLONG_i64 e a = CHECK_EQUAL_C_LONGLONG (valueAt true e) (valueAt true a)) ∧
    (∀ (e a : BitVec 64), Gen.AssertMacros.M_CHECK_EQUAL_C_LONGLONG_u64 e a = CHECK_EQUAL_C_LONGLONG (valueAt false e) (valueAt false a)) ∧
    (∀ (e a : BitVec 32), Gen.AssertMacros.M_CHECK_EQUAL_C_LONGLONG_TEXT_i32 e a = CHECK_EQUAL_C_LONGLONG (valueAt true e) (valueAt true a)) := by
  refine ⟨?_, ?_, ?_, ?_, ?_, ?_, ?_, ?_, ?_⟩ <;> intros <;>
    psimp [Gen.AssertMacros.M_CHECK_EQUAL_C_LONGLONG_i8, Gen.AssertMacros.M_CHECK_EQUAL_C_LONGLONG_u8, Gen.AssertMacros.M_CHECK_EQUAL_C_LONGLONG_i16, Gen.AssertMacros.M_CHECK_EQUAL_C_LONGLONG_u16, Gen.AssertMacros.M_CHECK_EQUAL_C_LONGLONG_i32, Gen.AssertMacros.M_CHECK_EQUAL_C_LONGLONG_u32, Gen.AssertMacros.M_CHECK_EQUAL_C_LONGLONG_i64, Gen.AssertMacros.M_CHECK_EQUAL_C_LONGLONG_u64, Gen.AssertMacros.M_CHECK_EQUAL_C_LONGLONG_TEXT_i32]

theorem gen_macro_CHECK_EQUAL_C_ULONGLONG :
    (∀ (e a : BitVec 8), Gen.AssertMacros.M_CHECK_EQUAL_C_ULONGLONG_i8 e a = CHECK_EQUAL_C_ULONGLONG (valueAt true e) (valueAt true a)) ∧
    (∀ (e a : BitVec 8), Gen.AssertMacros.M_CHECK_EQUAL_C_ULONGLONG_u8 e a = CHECK_EQUAL_C_ULONGLONG (valueAt false e) (valueAt false a)) ∧
    (∀ (e a : BitVec 16), Gen.AssertMacros.M_CHECK_EQUAL_C_ULONGLONG_i16 e a = CHECK_EQUAL_C_ULONGLONG (valueAt true e) (valueAt true a)) ∧
    (∀ (e a : BitVec 16), Gen.AssertMacros.M_CHECK_EQUAL_C_ULONGLONG_u16 e a = CHECK_EQUAL_C_ULONGLONG (valueAt false e) (valueAt false a)) ∧
    (∀ (e a : BitVec 32), Gen.AssertMacros.M_CHECK_EQUAL_C_ULONGLONG_i32 e a = CHECK_EQUAL_C_ULONGLONG (valueAt true e) (valueAt true a)) ∧
    (∀ (e a : BitVec 32), Gen.AssertMacros.M_CHECK_EQUAL_C_ULONGLONG_u32 e a = CHECK_EQUAL_C_ULONGLONG (valueAt false e) (valueAt false a)) ∧
    (∀ (e a : BitVec 64), Gen.AssertMacros.M_CHECK_EQUAL_C_ULONGLONG_i64 e a = CHECK_EQUAL_C_ULONGLONG (valueAt true e) (valueAt true a)) ∧
    (∀ (e a : BitVec 64), Gen.AssertMacros.M_CHECK_EQUAL_C_ULONGLONG_u64 e a = CHECK_EQUAL_C_ULONGLONG (valueAt false e) (valueAt false a)) ∧
    (∀ (e a : BitVec 32), Gen.AssertMacros.M_CHECK_EQUAL_C_ULONGLONG_TEXT_i32 e a = CHECK_EQUAL_C_ULONGLONG (valueAt true e) (valueAt true a)) := by
  refine ⟨?_, ?_, ?_, ?_, ?_, ?_, ?_, ?_, ?_⟩ <;> intros <;>
    psimp [Gen.AssertMacros.M_CHECK_EQUAL_C_ULONGLONG_i8, Gen.AssertMacros.M_CHECK_EQUAL_C_ULONGLONG_u8, Gen.AssertMacros.M_CHECK_EQUAL_C_ULONGLONG_i16, Gen.AssertMacros.M_CHECK_EQUAL_C_ULONGLONG_u16, Gen.AssertMacros.M_CHECK_EQUAL_C_ULONGLONG_i32, Gen.AssertMacros.M_CHECK_EQUAL_C_ULONGLONG_u32, Gen.AssertMacros.M_CHECK_EQUAL_C_ULONGLONG_i64, Gen.AssertMacros.M_CHECK_EQUAL_C_ULONGLONG_u64, Gen.AssertMacros.M_CHECK_EQUAL_C_ULONGLONG_TEXT_i32]

theorem gen_macro_CHECK_EQUAL_C_CHAR :
    (∀ (e a : BitVec 8), Gen.AssertMacros.M_CHECK_EQUAL_C_CHAR_i8 e a = CHECK_EQUAL_C_CHAR (valueAt true e) (valueAt true a)) ∧
    (∀ (e a : BitVec 8), Gen.AssertMacros.M_CHECK_EQUAL_C_CHAR_u8 e a = CHECK_EQUAL_C_CHAR (valueAt false e) (valueAt false a)) ∧
    (∀ (e a : BitVec 16), Gen.AssertMacros.M_CHECK_EQUAL_C_CHAR_i16 e a = CHECK_EQUAL_C_CHAR (valueAt true e) (valueAt true a)) ∧
    (∀ (e a : BitVec 16), Gen.AssertMacros.M_CHECK_EQUAL_C_CHAR_u16 e a = CHECK_EQUAL_C_CHAR (valueAt false e) (valueAt false a)) ∧
    (∀ (e a : BitVec 32), Gen.AssertMacros.M_CHECK_EQUAL_C_CHAR_i32 e a = CHECK_EQUAL_C_CHAR (valueAt true e) (valueAt true a)) ∧
    (∀ (e a : BitVec 32), Gen.AssertMacros.M_CHECK_EQUAL_C_CHAR_u32 e a = CHECK_EQUAL_C_CHAR (valueAt false e) (valueAt false a)) ∧
    (∀ (e a : BitVec 64), Gen.AssertMacros.M_CHECK_EQUAL_C_CHAR_i64 e a = CHECK_EQUAL_C_CHAR (valueAt true e) (valueAt true a)) ∧
    (∀ (e a : BitVec 64), Gen.AssertMacros.M_CHECK_EQUAL_C_CHAR_u64 e a = CHECK_EQUAL_C_CHAR (valueAt false e) (valueAt false a)) ∧
    (∀ (e a : BitVec 32), Gen.AssertMacros.M_CHECK_EQUAL_C_CHAR_TEXT_i32 e a = CHECK_EQUAL_C_CHAR (valueAt true e) (valueAt true a)) := by
  refine ⟨?_, ?_, ?_, ?_, ?_, ?_, ?_, ?_, ?_⟩ <;> intros <;>
    psimp [Gen.AssertMacros.M_CHECK_EQUAL_C_CHAR_i8, Gen.AssertMacros.M_CHECK_EQUAL_C_CHAR_u8, Gen.AssertMacros.M_CHECK_EQUAL_C_CHAR_i16, Gen.AssertMacros.M_CHECK_EQUAL_C_CHAR_u16, Gen.AssertMacros.M_CHECK_EQUAL_C_CHAR_i32, Gen.AssertMacros.M_CHECK_EQUAL_C_CHAR_u32, Gen.AssertMacros.M_CHECK_EQUAL_C_CHAR_i64, Gen.AssertMacros.M_CHECK_EQUAL_C_CHAR_u64, Gen.AssertMacros.M_CHECK_EQUAL_C_CHAR_TEXT_i32]

theorem gen_macro_CHECK_EQUAL_C_UBYTE :
    (∀ (e a : BitVec 8), Gen.AssertMacros.M_CHECK_EQUAL_C_UBYTE_i8 e a = CHECK_EQUAL_C_UBYTE (valueAt true e) (valueAt true a)) ∧
    (∀ (e a : BitVec 8), Gen.AssertMacros.M_CHECK_EQUAL_C_UBYTE_u8 e a = CHECK_EQUAL_C_UBYTE (valueAt false e) (valueAt false a)) ∧
    (∀ (e a : BitVec 16), Gen.AssertMacros.M_CHECK_EQUAL_C_UBYTE_i16 e a = CHECK_EQUAL_C_UBYTE (valueAt true e) (valueAt true a)) ∧
    (∀ (e a : BitVec 16), Gen.AssertMacros.M_CHECK_EQUAL_C_UBYTE_u16 e a = CHECK_EQUAL_C_UBYTE (valueAt false e) (valueAt false a)) ∧
    (∀ (e a : BitVec 32), Gen.AssertMacros.M_CHECK_EQUAL_C_UBYTE_i32 e a = CHECK_EQUAL_C_UBYTE (valueAt true e) (valueAt true a)) ∧
    (∀ (e a : BitVec 32), Gen.AssertMacros.M_CHECK_EQUAL_C_UBYTE_u32 e a = CHECK_EQUAL_C_UBYTE (valueAt false e) (valueAt false a)) ∧
    (∀ (e a : BitVec 64), Gen.AssertMacros.M_CHECK_EQUAL_C_UBYTE_i64 e a = CHECK_EQUAL_C_UBYTE (valueAt true e) (valueAt true a)) ∧
    (∀ (e a : BitVec 64), Gen.AssertMacros.M_CHECK_EQUAL_C_UBYTE_u64 e a = CHECK_EQUAL_C_UBYTE (valueAt false e) (valueAt false a)) ∧
    (∀ (e a : BitVec 32), Gen.AssertMacros.M_CHECK_EQUAL_C_UBYTE_TEXT_i32 e a = CHECK_EQUAL_C_UBYTE (valueAt true e) (valueAt true a)) := by
  refine ⟨?_, ?_, ?_, ?_, ?_, ?_, ?_, ?_, ?_⟩ <;> intros <;>
    psimp [Gen.AssertMacros.M_CHECK_EQUAL_C_UBYTE_i8, Gen.AssertMacros.M_CHECK_EQUAL_C_UBYTE_u8, Gen.AssertMacros.M_CHECK_EQUAL_C_UBYTE_i16, Gen.AssertMacros.M_CHECK_EQUAL_C_UBYTE_u16, Gen.AssertMacros.M_CHECK_EQUAL_C_UBYTE_i32, Gen.AssertMacros.M_CHECK_EQUAL_C_UBYTE_u32, Gen.AssertMacros.M_CHECK_EQUAL_C_UBYTE_i64, Gen.AssertMacros.M_CHECK_EQUAL_C_UBYTE_u64, Gen.AssertMacros.M_CHECK_EQUAL_C_UBYTE_TEXT_i32]

theorem gen_macro_CHECK_EQUAL_C_SBYTE :
    (∀ (e a : BitVec 8), Gen.AssertMacros.M_CHECK_EQUAL_C_SBYTE_i8 e a = CHECK_EQUAL_C_SBYTE (valueAt true e) (valueAt true a)) ∧
    (∀ (e a : BitVec 8), Gen.AssertMacros.M_CHECK_EQUAL_C_SBYTE_u8 e a = CHECK_EQUAL_C_SBYTE (valueAt false e) (valueAt false a)) ∧
    (∀ (e a : BitVec 16), Gen.AssertMacros.M_CHECK_EQUAL_C_SBYTE_i16 e a = CHECK_EQUAL_C_SBYTE (valueAt true e) (valueAt true a)) ∧
    (∀ (e a : BitVec 16), Gen.AssertMacros.M_CHECK_EQUAL_C_SBYTE_u16 e a = CHECK_EQUAL_C_SBYTE (valueAt false e) (valueAt false a)) ∧
    (∀ (e a : BitVec 32), Gen.AssertMacros.M_CHECK_EQUAL_C_SBYTE_i32 e a = CHECK_EQUAL_C_SBYTE (valueAt true e) (valueAt true a)) ∧
    (∀ (e a : BitVec 32), Gen.AssertMacros.M_CHECK_EQUAL_C_SBYTE_u32 e a = CHECK_EQUAL_C_SBYTE (valueAt false e) (valueAt false a)) ∧
    (∀ (e a : BitVec 64), Gen.AssertMacros.M_CHECK_EQUAL_C_SBYTE_i64 e a = CHECK_EQUAL_C_SBYTE (valueAt true e) (valueAt true a)) ∧
    (∀ (e a : BitVec 64), Gen.AssertMacros.M_CHECK_EQUAL_C_SBYTE_u64 e a = CHECK_EQUAL_C_SBYTE (valueAt false e) (valueAt false a)) ∧
    (∀ (e a : BitVec 32), Gen.AssertMacros.M_CHECK_EQUAL_C_SBYTE_TEXT_i32 e a = CHECK_EQUAL_C_SBYTE (valueAt true e) (valueAt true a)) := by
  refine ⟨?_, ?_, ?_, ?_, ?_, ?_, ?_, ?_, ?_⟩ <;> intros <;>
    psimp [Gen.AssertMacros.M_CHECK_EQUAL_C_SBYTE_i8, Gen.AssertMacros.M_CHECK_EQUAL_C_SBYTE_u8, Gen.AssertMacros.M_CHECK_EQUAL_C_SBYTE_i16, Gen.AssertMacros.M_CHECK_EQUAL_C_SBYTE_u16, Gen.AssertMacros.M_CHECK_EQUAL_C_SBYTE_i32, Gen.AssertMacros.M_CHECK_EQUAL_C_SBYTE_u32, Gen.AssertMacros.M_CHECK_EQUAL_C_SBYTE_i64, Gen.AssertMacros.M_CHECK_EQUAL_C_SBYTE_u64, Gen.AssertMacros.M_CHECK_EQUAL_C_SBYTE_TEXT_i32]

theorem gen_macro_CHECK :
    (∀ (a : BitVec 8), Gen.AssertMacros.M_CHECK_i8 a = CHECK ((valueAt true a) != 0)) ∧
    (∀ (a : BitVec 8), Gen.AssertMacros.M_CHECK_u8 a = CHECK ((valueAt false a) != 0)) ∧
    (∀ (a : BitVec 16), Gen.AssertMacros.M_CHECK_i16 a = CHECK ((valueAt true a) != 0)) ∧
    (∀ (a : BitVec 16), Gen.AssertMacros.M_CHECK_u16 a = CHECK ((valueAt false a) != 0)) ∧
    (∀ (a : BitVec 32), Gen.AssertMacros.M_CHECK_i32 a = CHECK ((valueAt true a) != 0)) ∧
    (∀ (a : BitVec 32), Gen.AssertMacros.M_CHECK_u32 a = CHECK ((valueAt false a) != 0)) ∧
    (∀ (a : BitVec 64), Gen.AssertMacros.M_CHECK_i64 a = CHECK ((valueAt true a) != 0)) ∧
    (∀ (a : BitVec 64), Gen.AssertMacros.M_CHECK_u64 a = CHECK ((valueAt false a) != 0)) ∧
    (∀ (a : BitVec 32), Gen.AssertMacros.M_CHECK_TEXT_i32 a = CHECK ((valueAt true a) != 0)) := by
  refine ⟨?_, ?_, ?_, ?_, ?_, ?_, ?_, ?_, ?_⟩ <;> intros <;>
    psimp [Gen.AssertMacros.M_CHECK_i8, Gen.AssertMacros.M_CHECK_u8, Gen.AssertMacros.M_CHECK_i16, Gen.AssertMacros.M_CHECK_u16, Gen.AssertMacros.M_CHECK_i32, Gen.AssertMacros.M_CHECK_u32, Gen.AssertMacros.M_CHECK_i64, Gen.AssertMacros.M_CHECK_u64, Gen.AssertMacros.M_CHECK_TEXT_i32]

theorem gen_macro_CHECK_TRUE :
    (∀ (a : BitVec 8), Gen.AssertMacros.M_CHECK_TRUE_i8 a = CHECK ((valueAt true a) != 0)) ∧
    (∀ (a : BitVec 8), Gen.AssertMacros.M_CHECK_TRUE_u8 a = CHECK ((valueAt false a) != 0)) ∧
    (∀ (a : BitVec 16), Gen.AssertMacros.M_CHECK_TRUE_i16 a = CHECK ((valueAt true a) != 0)) ∧
    (∀ (a : BitVec 16), Gen.AssertMacros.M_CHECK_TRUE_u16 a = CHECK ((valueAt false a) != 0)) ∧
    (∀ (a : BitVec 32), Gen.AssertMacros.M_CHECK_TRUE_i32 a = CHECK ((valueAt true a) != 0)) ∧
    (∀ (a : BitVec 32), Gen.AssertMacros.M_CHECK_TRUE_u32 a = CHECK ((valueAt false a) != 0)) ∧
    (∀ (a : BitVec 64), Gen.AssertMacros.M_CHECK_TRUE_i64 a = CHECK ((valueAt true a) != 0)) ∧
    (∀ (a : BitVec 64), Gen.AssertMacros.M_CHECK_TRUE_u64 a = CHECK ((valueAt false a) != 0)) ∧
    (∀ (a : BitVec 32), Gen.AssertMacros.M_CHECK_TRUE_TEXT_i32 a = CHECK ((valueAt true a) != 0)) := by
  refine ⟨?_, ?_, ?_, ?_, ?_, ?_, ?_, ?_, ?_⟩ <;> intros <;>
    psimp [Gen.AssertMacros.M_CHECK_TRUE_i8, Gen.AssertMacros.M_CHECK_TRUE_u8, Gen.AssertMacros.M_CHECK_TRUE_i16, Gen.AssertMacros.M_CHECK_TRUE_u16, Gen.AssertMacros.M_CHECK_TRUE_i32, Gen.AssertMacros.M_CHECK_TRUE_u32, Gen.AssertMacros.M_CHECK_TRUE_i64, Gen.AssertMacros.M_CHECK_TRUE_u64, Gen.AssertMacros.M_CHECK_TRUE_TEXT_i32]

theorem gen_macro_CHECK_FALSE :
    (∀ (a : BitVec 8), Gen.AssertMacros.M_CHECK_FALSE_i8 a = CHECK_FALSE ((valueAt true a) != 0)) ∧
    (∀ (a : BitVec 8), Gen.AssertMacros.M_CHECK_FALSE_u8 a = CHECK_FALSE ((valueAt false a) != 0)) ∧
    (∀ (a : BitVec 16), Gen.AssertMacros.M_CHECK_FALSE_i16 a = CHECK_FALSE ((valueAt true a) != 0)) ∧
    (∀ (a : BitVec 16), Gen.AssertMacros.M_CHECK_FALSE_u16 a = CHECK_FALSE ((valueAt false a) != 0)) ∧
    (∀ (a : BitVec 32), Gen.AssertMacros.M_CHECK_FALSE_i32 a = CHECK_FALSE ((valueAt true a) != 0)) ∧
    (∀ (a : BitVec 32), Gen.AssertMacros.M_CHECK_FALSE_u32 a = CHECK_FALSE ((valueAt false a) != 0)) ∧
    (∀ (a : BitVec 64), Gen.AssertMacros.M_CHECK_FALSE_i64 a = CHECK_FALSE ((valueAt true a) != 0)) ∧
    (∀ (a : BitVec 64), Gen.AssertMacros.M_CHECK_FALSE_u64 a = CHECK_FALSE ((valueAt false a) != 0)) ∧
    (∀ (a : BitVec 32), Gen.AssertMacros.M_CHECK_FALSE_TEXT_i32 a = CHECK_FALSE ((valueAt true a) != 0)) := by
  refine ⟨?_, ?_, ?_, ?_, ?_, ?_, ?_, ?_, ?_⟩ <;> intros <;>
    psimp [Gen.AssertMacros.M_CHECK_FALSE_i8, Gen.AssertMacros.M_CHECK_FALSE_u8, Gen.AssertMacros.M_CHECK_FALSE_i16, Gen.AssertMacros.M_CHECK_FALSE_u16, Gen.AssertMacros.M_CHECK_FALSE_i32, Gen.AssertMacros.M_CHECK_FALSE_u32, Gen.AssertMacros.M_CHECK_FALSE_i64, Gen.AssertMacros.M_CHECK_FALSE_u64, Gen.AssertMacros.M_CHECK_FALSE_TEXT_i32]

/-- the regenerated expansions of CHECK / CHECK_TRUE / CHECK_FALSE (and `_TEXT`) applied to a COMPOUND argument
    (`e || a`, `e && a`, `e == a`, `e < a`): the macro's own operators (`!`, the `(bool)` cast) apply to the whole argument -
    the substitution of the macro parameter is parenthesised -/
theorem gen_macro_compound_conditions :
    (∀ (e a : BitVec 32), Gen.AssertMacros.M_CHECK_or_i32 e a = CHECK (CondOp.or.truth (valueAt true e) (valueAt true a))) ∧
    (∀ (e a : BitVec 32), Gen.AssertMacros.M_CHECK_and_i32 e a = CHECK (CondOp.and.truth (valueAt true e) (valueAt true a))) ∧
    (∀ (e a : BitVec 32), Gen.AssertMacros.M_CHECK_eq_i32 e a = CHECK (CondOp.eq.truth (valueAt true e) (valueAt true a))) ∧
    (∀ (e a : BitVec 32), Gen.AssertMacros.M_CHECK_lt_i32 e a = CHECK (CondOp.lt.truth (valueAt true e) (valueAt true a))) ∧
    (∀ (e a : BitVec 32), Gen.AssertMacros.M_CHECK_TEXT_or_i32 e a = CHECK (CondOp.or.truth (valueAt true e) (valueAt true a))) ∧
    (∀ (e a : BitVec 32), Gen.AssertMacros.M_CHECK_TRUE_or_i32 e a = CHECK (CondOp.or.truth (valueAt true e) (valueAt true a))) ∧
    (∀ (e a : BitVec 32), Gen.AssertMacros.M_CHECK_TRUE_and_i32 e a = CHECK (CondOp.and.truth (valueAt true e) (valueAt true a))) ∧
    (∀ (e a : BitVec 32), Gen.AssertMacros.M_CHECK_TRUE_eq_i32 e a = CHECK (CondOp.eq.truth (valueAt true e) (valueAt true a))) ∧
    (∀ (e a : BitVec 32), Gen.AssertMacros.M_CHECK_TRUE_lt_i32 e a = CHECK (CondOp.lt.truth (valueAt true e) (valueAt true a))) ∧
    (∀ (e a : BitVec 32), Gen.AssertMacros.M_CHECK_TRUE_TEXT_or_i32 e a = CHECK (CondOp.or.truth (valueAt true e) (valueAt true a))) ∧
    (∀ (e a : BitVec 32), Gen.AssertMacros.M_CHECK_FALSE_or_i32 e a = CHECK_FALSE (CondOp.or.truth (valueAt true e) (valueAt true a))) ∧
    (∀ (e a : BitVec 32), Gen.AssertMacros.M_CHECK_FALSE_and_i32 e a = CHECK_FALSE (CondOp.and.truth (valueAt true e) (valueAt true a))) ∧
    (∀ (e a : BitVec 32), Gen.AssertMacros.M_CHECK_FALSE_eq_i32 e a = CHECK_FALSE (CondOp.eq.truth (valueAt true e) (valueAt true a))) ∧
    (∀ (e a : BitVec 32), Gen.AssertMacros.M_CHECK_FALSE_lt_i32 e a = CHECK_FALSE (CondOp.lt.truth (valueAt true e) (valueAt true a))) ∧
    (∀ (e a : BitVec 32), Gen.AssertMacros.M_CHECK_FALSE_TEXT_or_i32 e a = CHECK_FALSE (CondOp.or.truth (valueAt true e) (valueAt true a))) := by
  refine ⟨?_, ?_, ?_, ?_, ?_, ?_, ?_, ?_, ?_, ?_, ?_, ?_, ?_, ?_, ?_⟩ <;> intros <;>
    simp [Gen.AssertMacros.M_CHECK_or_i32, Gen.AssertMacros.M_CHECK_and_i32, Gen.AssertMacros.M_CHECK_eq_i32, Gen.AssertMacros.M_CHECK_lt_i32, Gen.AssertMacros.M_CHECK_TEXT_or_i32, Gen.AssertMacros.M_CHECK_TRUE_or_i32, Gen.AssertMacros.M_CHECK_TRUE_and_i32, Gen.AssertMacros.M_CHECK_TRUE_eq_i32, Gen.AssertMacros.M_CHECK_TRUE_lt_i32, Gen.AssertMacros.M_CHECK_TRUE_TEXT_or_i32, Gen.AssertMacros.M_CHECK_FALSE_or_i32, Gen.AssertMacros.M_CHECK_FALSE_and_i32, Gen.AssertMacros.M_CHECK_FALSE_eq_i32, Gen.AssertMacros.M_CHECK_FALSE_lt_i32, Gen.AssertMacros.M_CHECK_FALSE_TEXT_or_i32, gen_assertTrue_eq, CHECK, CHECK_FALSE, CondOp.truth_or, CondOp.truth_and, CondOp.truth_eq, CondOp.truth_lt, valueAt, toInt_bne_zero, holds_eq_s, holds_lt_s]

theorem gen_macro_CHECK_C :
    (∀ (a : BitVec 8), Gen.AssertMacros.M_CHECK_C_i8 a = CHECK_C (valueAt true a)) ∧
    (∀ (a : BitVec 8), Gen.AssertMacros.M_CHECK_C_u8 a = CHECK_C (valueAt false a)) ∧
    (∀ (a : BitVec 16), Gen.AssertMacros.M_CHECK_C_i16 a = CHECK_C (valueAt true a)) ∧
    (∀ (a : BitVec 16), Gen.AssertMacros.M_CHECK_C_u16 a = CHECK_C (valueAt false a)) ∧
    (∀ (a : BitVec 32), Gen.AssertMacros.M_CHECK_C_i32 a = CHECK_C (valueAt true a)) ∧
    (∀ (a : BitVec 32), Gen.AssertMacros.M_CHECK_C_u32 a = CHECK_C (valueAt false a)) ∧
    (∀ (a : BitVec 64), Gen.AssertMacros.M_CHECK_C_i64 a = CHECK_C (valueAt true a)) ∧
    (∀ (a : BitVec 64), Gen.AssertMacros.M_CHECK_C_u64 a = CHECK_C (valueAt false a)) ∧
    (∀ (a : BitVec 32), Gen.AssertMacros.M_CHECK_C_TEXT_i32 a = CHECK_C (valueAt true a)) := by
  refine ⟨?_, ?_, ?_, ?_, ?_, ?_, ?_, ?_, ?_⟩ <;> intros <;>
    psimp [Gen.AssertMacros.M_CHECK_C_i8, Gen.AssertMacros.M_CHECK_C_u8, Gen.AssertMacros.M_CHECK_C_i16, Gen.AssertMacros.M_CHECK_C_u16, Gen.AssertMacros.M_CHECK_C_i32, Gen.AssertMacros.M_CHECK_C_u32, Gen.AssertMacros.M_CHECK_C_i64, Gen.AssertMacros.M_CHECK_C_u64, Gen.AssertMacros.M_CHECK_C_TEXT_i32]

theorem gen_macro_CHECK_EQUAL_ZERO :
    (∀ (a : BitVec 8), Gen.AssertMacros.M_CHECK_EQUAL_ZERO_i8 a = CHECK_EQUAL_ZERO ⟨⟨8, true⟩, valueAt true a⟩) ∧
    (∀ (a : BitVec 8), Gen.AssertMacros.M_CHECK_EQUAL_ZERO_u8 a = CHECK_EQUAL_ZERO ⟨⟨8, false⟩, valueAt false a⟩) ∧
    (∀ (a : BitVec 16), Gen.AssertMacros.M_CHECK_EQUAL_ZERO_i16 a = CHECK_EQUAL_ZERO ⟨⟨16, true⟩, valueAt true a⟩) ∧
    (∀ (a : BitVec 16), Gen.AssertMacros.M_CHECK_EQUAL_ZERO_u16 a = CHECK_EQUAL_ZERO ⟨⟨16, false⟩, valueAt false a⟩) ∧
    (∀ (a : BitVec 32), Gen.AssertMacros.M_CHECK_EQUAL_ZERO_i32 a = CHECK_EQUAL_ZERO ⟨⟨32, true⟩, valueAt true a⟩) ∧
    (∀ (a : BitVec 32), Gen.AssertMacros.M_CHECK_EQUAL_ZERO_u32 a = CHECK_EQUAL_ZERO ⟨⟨32, false⟩, valueAt false a⟩) ∧
    (∀ (a : BitVec 64), Gen.AssertMacros.M_CHECK_EQUAL_ZERO_i64 a = CHECK_EQUAL_ZERO ⟨⟨64, true⟩, valueAt true a⟩) ∧
    (∀ (a : BitVec 64), Gen.AssertMacros.M_CHECK_EQUAL_ZERO_u64 a = CHECK_EQUAL_ZERO ⟨⟨64, false⟩, valueAt false a⟩) ∧
    (∀ (a : BitVec 32), Gen.AssertMacros.M_CHECK_EQUAL_ZERO_TEXT_i32 a = CHECK_EQUAL_ZERO ⟨⟨32, true⟩, valueAt true a⟩) := by
  refine ⟨?_, ?_, ?_, ?_, ?_, ?_, ?_, ?_, ?_⟩ <;> intros <;>
    psimp [Gen.AssertMacros.M_CHECK_EQUAL_ZERO_i8, Gen.AssertMacros.M_CHECK_EQUAL_ZERO_u8, Gen.AssertMacros.M_CHECK_EQUAL_ZERO_i16, Gen.AssertMacros.M_CHECK_EQUAL_ZERO_u16, Gen.AssertMacros.M_CHECK_EQUAL_ZERO_i32, Gen.AssertMacros.M_CHECK_EQUAL_ZERO_u32, Gen.AssertMacros.M_CHECK_EQUAL_ZERO_i64, Gen.AssertMacros.M_CHECK_EQUAL_ZERO_u64, Gen.AssertMacros.M_CHECK_EQUAL_ZERO_TEXT_i32]

theorem gen_macro_CHECK_EQUAL :
    (∀ (e : BitVec 8) (a : BitVec 8), Gen.AssertMacros.M_CHECK_EQUAL_i8_i8 e a = CHECK_EQUAL_int ⟨⟨8, true⟩, valueAt true e⟩ ⟨⟨8, true⟩, valueAt true a⟩) ∧
    (∀ (e : BitVec 8) (a : BitVec 8), Gen.AssertMacros.M_CHECK_EQUAL_i8_u8 e a = CHECK_EQUAL_int ⟨⟨8, true⟩, valueAt true e⟩ ⟨⟨8, false⟩, valueAt false a⟩) ∧
    (∀ (e : BitVec 8) (a : BitVec 16), Gen.AssertMacros.M_CHECK_EQUAL_i8_i16 e a = CHECK_EQUAL_int ⟨⟨8, true⟩, valueAt true e⟩ ⟨⟨16, true⟩, valueAt true a⟩) ∧
    (∀ (e : BitVec 8) (a : BitVec 16), Gen.AssertMacros.M_CHECK_EQUAL_i8_u16 e a = CHECK_EQUAL_int ⟨⟨8, true⟩, valueAt true e⟩ ⟨⟨16, false⟩, valueAt false a⟩) ∧
    (∀ (e : BitVec 8) (a : BitVec 32), Gen.AssertMacros.M_CHECK_EQUAL_i8_i32 e a = CHECK_EQUAL_int ⟨⟨8, true⟩, valueAt true e⟩ ⟨⟨32, true⟩, valueAt true a⟩) ∧
    (∀ (e : BitVec 8) (a : BitVec 32), Gen.AssertMacros.M_CHECK_EQUAL_i8_u32 e a = CHECK_EQUAL_int ⟨⟨8, true⟩, valueAt true e⟩ ⟨⟨32, false⟩, valueAt false a⟩) ∧
    (∀ (e : BitVec 8) (a : BitVec 64), Gen.AssertMacros.M_CHECK_EQUAL_i8_i64 e a = CHECK_EQUAL_int ⟨⟨8, true⟩, valueAt true e⟩ ⟨⟨64, true⟩, valueAt true a⟩) ∧
    (∀ (e : BitVec 8) (a : BitVec 64), Gen.AssertMacros.M_CHECK_EQUAL_i8_u64 e a = CHECK_EQUAL_int ⟨⟨8, true⟩, valueAt true e⟩ ⟨⟨64, false⟩, valueAt false a⟩) ∧
    (∀ (e : BitVec 8) (a : BitVec 8), Gen.AssertMacros.M_CHECK_EQUAL_u8_i8 e a = CHECK_EQUAL_int ⟨⟨8, false⟩, valueAt false e⟩ ⟨⟨8, true⟩, valueAt true a⟩) ∧
    (∀ (e : BitVec 8) (a : BitVec 8), Gen.AssertMacros.M_CHECK_EQUAL_u8_u8 e a = CHECK_EQUAL_int ⟨⟨8, false⟩, valueAt false e⟩ ⟨⟨8, false⟩, valueAt false a⟩) ∧
    (∀ (e : BitVec 8) (a : BitVec 16), Gen.AssertMacros.M_CHECK_EQUAL_u8_i16 e a = CHECK_EQUAL_int ⟨⟨8, false⟩, valueAt false e⟩ ⟨⟨16, true⟩, valueAt true a⟩) ∧
    (∀ (e : BitVec 8) (a : BitVec 16), Gen.AssertMacros.M_CHECK_EQUAL_u8_u16 e a = CHECK_EQUAL_int ⟨⟨8, false⟩, valueAt false e⟩ ⟨⟨16, false⟩, valueAt false a⟩) ∧
    (∀ (e : BitVec 8) (a : BitVec 32), Gen.AssertMacros.M_CHECK_EQUAL_u8_i32 e a = CHECK_EQUAL_int ⟨⟨8, false⟩, valueAt false e⟩ ⟨⟨32, true⟩, valueAt true a⟩) ∧
    (∀ (e : BitVec 8) (a : BitVec 32), Gen.AssertMacros.M_CHECK_EQUAL_u8_u32 e a = CHECK_EQUAL_int ⟨⟨8, false⟩, valueAt false e⟩ ⟨⟨32, false⟩, valueAt false a⟩) ∧
    (∀ (e : BitVec 8) (a : BitVec 64), Gen.AssertMacros.M_CHECK_EQUAL_u8_i64 e a = CHECK_EQUAL_int ⟨⟨8, false⟩, valueAt false e⟩ ⟨⟨64, true⟩, valueAt true a⟩) ∧
    (∀ (e : BitVec 8) (a : BitVec 64), Gen.AssertMacros.M_CHECK_EQUAL_u8_u64 e a = CHECK_EQUAL_int ⟨⟨8, false⟩, valueAt false e⟩ ⟨⟨64, false⟩, valueAt false a⟩) ∧
    (∀ (e : BitVec 16) (a : BitVec 8), Gen.AssertMacros.M_CHECK_EQUAL_i16_i8 e a = CHECK_EQUAL_int ⟨⟨16, true⟩, valueAt true e⟩ ⟨⟨8, true⟩, valueAt true a⟩) ∧
    (∀ (e : BitVec 16) (a : BitVec 8), Gen.AssertMacros.M_CHECK_EQUAL_i16_u8 e a = CHECK_EQUAL_int ⟨⟨16, true⟩, valueAt true e⟩ ⟨⟨8, false⟩, valueAt false a⟩) ∧
    (∀ (e : BitVec 16) (a : BitVec 16), Gen.AssertMacros.M_CHECK_EQUAL_i16_i16 e a = CHECK_EQUAL_int ⟨⟨16, true⟩, valueAt true e⟩ ⟨⟨16, true⟩, valueAt true a⟩) ∧
    (∀ (e : BitVec 16) (a : BitVec 16), Gen.AssertMacros.M_CHECK_EQUAL_i16_u16 e a = CHECK_EQUAL_int ⟨⟨16, true⟩, valueAt true e⟩ ⟨⟨16, false⟩, valueAt false a⟩) ∧
    (∀ (e : BitVec 16) (a : BitVec 32), Gen.AssertMacros.M_CHECK_EQUAL_i16_i32 e a = CHECK_EQUAL_int ⟨⟨16, true⟩, valueAt true e⟩ ⟨⟨32, true⟩, valueAt true a⟩) ∧
    (∀ (e : BitVec 16) (a : BitVec 32), Gen.AssertMacros.M_CHECK_EQUAL_i16_u32 e a = CHECK_EQUAL_int ⟨⟨16, true⟩, valueAt true e⟩ ⟨⟨32, false⟩, valueAt false a⟩) ∧
    (∀ (e : BitVec 16) (a : BitVec 64), Gen.AssertMacros.M_CHECK_EQUAL_i16_i64 e a = CHECK_EQUAL_int ⟨⟨16, true⟩, valueAt true e⟩ ⟨⟨64, true⟩, valueAt true a⟩) ∧
    (∀ (e : BitVec 16) (a : BitVec 64), Gen.AssertMacros.M_CHECK_EQUAL_i16_u64 e a = CHECK_EQUAL_int ⟨⟨16, true⟩, valueAt true e⟩ ⟨⟨64, false⟩, valueAt false a⟩) ∧
    (∀ (e : BitVec 16) (a : BitVec 8), Gen.AssertMacros.M_CHECK_EQUAL_u16_i8 e a = CHECK_EQUAL_int ⟨⟨16, false⟩, valueAt false e⟩ ⟨⟨8, true⟩, valueAt true a⟩) ∧
    (∀ (e : BitVec 16) (a : BitVec 8), Gen.AssertMacros.M_CHECK_EQUAL_u16_u8 e a = CHECK_EQUAL_int ⟨⟨16, false⟩, valueAt false e⟩ ⟨⟨8, false⟩, valueAt false a⟩) ∧
    (∀ (e : BitVec 16) (a : BitVec 16), Gen.AssertMacros.M_CHECK_EQUAL_u16_i16 e a = CHECK_EQUAL_int ⟨⟨16, false⟩, valueAt false e⟩ ⟨⟨16, true⟩, valueAt true a⟩) ∧
    (∀ (e : BitVec 16) (a : BitVec 16), Gen.AssertMacros.M_CHECK_EQUAL_u16_u16 e a = CHECK_EQUAL_int ⟨⟨16, false⟩, valueAt false e⟩ ⟨⟨16, false⟩, valueAt false a⟩) ∧
    (∀ (e : BitVec 16) (a : BitVec 32), Gen.AssertMacros.M_CHECK_EQUAL_u16_i32 e a = CHECK_EQUAL_int ⟨⟨16, false⟩, valueAt false e⟩ ⟨⟨32, true⟩, valueAt true a⟩) ∧
    (∀ (e : BitVec 16) (a : BitVec 32), Gen.AssertMacros.M_CHECK_EQUAL_u16_u32 e a = CHECK_EQUAL_int ⟨⟨16, false⟩, valueAt false e⟩ ⟨⟨32, false⟩, valueAt false a⟩) ∧
    (∀ (e : BitVec 16) (a : BitVec 64), Gen.AssertMacros.M_CHECK_EQUAL_u16_i64 e a = CHECK_EQUAL_int ⟨⟨16, false⟩, valueAt false e⟩ ⟨⟨64, true⟩, valueAt true a⟩) ∧
    (∀ (e : BitVec 16) (a : BitVec 64), Gen.AssertMacros.M_CHECK_EQUAL_u16_u64 e a = CHECK_EQUAL_int ⟨⟨16, false⟩, valueAt false e⟩ ⟨⟨64, false⟩, valueAt false a⟩) ∧
    (∀ (e : BitVec 32) (a : BitVec 8), Gen.AssertMacros.M_CHECK_EQUAL_i32_i8 e a = CHECK_EQUAL_int ⟨⟨32, true⟩, valueAt true e⟩ ⟨⟨8, true⟩, valueAt true a⟩) ∧
    (∀ (e : BitVec 32) (a : BitVec 8), Gen.AssertMacros.M_CHECK_EQUAL_i32_u8 e a = CHECK_EQUAL_int ⟨⟨32, true⟩, valueAt true e⟩ ⟨⟨8, false⟩, valueAt false a⟩) ∧
    (∀ (e : BitVec 32) (a : BitVec 16), Gen.AssertMacros.M_CHECK_EQUAL_i32_i16 e a = CHECK_EQUAL_int ⟨⟨32, true⟩, valueAt true e⟩ ⟨⟨16, true⟩, valueAt true a⟩) ∧
    (∀ (e : BitVec 32) (a : BitVec 16), Gen.AssertMacros.M_CHECK_EQUAL_i32_u16 e a = CHECK_EQUAL_int ⟨⟨32, true⟩, valueAt true e⟩ ⟨⟨16, false⟩, valueAt false a⟩) ∧
    (∀ (e : BitVec 32) (a : BitVec 32), Gen.AssertMacros.M_CHECK_EQUAL_i32_i32 e a = CHECK_EQUAL_int ⟨⟨32, true⟩, valueAt true e⟩ ⟨⟨32, true⟩, valueAt true a⟩) ∧
    (∀ (e : BitVec 32) (a : BitVec 32), Gen.AssertMacros.M_CHECK_EQUAL_i32_u32 e a = CHECK_EQUAL_int ⟨⟨32, true⟩, valueAt true e⟩ ⟨⟨32, false⟩, valueAt false a⟩) ∧
    (∀ (e : BitVec 32) (a : BitVec 64), Gen.AssertMacros.M_CHECK_EQUAL_i32_i64 e a = CHECK_EQUAL_int ⟨⟨32, true⟩, valueAt true e⟩ ⟨⟨64, true⟩, valueAt true a⟩) ∧
    (∀ (e : BitVec 32) (a : BitVec 64), Gen.AssertMacros.M_CHECK_EQUAL_i32_u64 e a = CHECK_EQUAL_int ⟨⟨32, true⟩, valueAt true e⟩ ⟨⟨64, false⟩, valueAt false a⟩) ∧
    (∀ (e : BitVec 32) (a : BitVec 8), Gen.AssertMacros.M_CHECK_EQUAL_u32_i8 e a = CHECK_EQUAL_int ⟨⟨32, false⟩, valueAt false e⟩ ⟨⟨8, true⟩, valueAt true a⟩) ∧
    (∀ (e : BitVec 32) (a : BitVec 8), Gen.AssertMacros.M_CHECK_EQUAL_u32_u8 e a = CHECK_EQUAL_int ⟨⟨32, false⟩, valueAt false e⟩ ⟨⟨8, false⟩, valueAt false a⟩) ∧
    (∀ (e : BitVec 32) (a : BitVec 16), Gen.AssertMacros.M_CHECK_EQUAL_u32_i16 e a = CHECK_EQUAL_int ⟨⟨32, false⟩, valueAt false e⟩ ⟨⟨16, true⟩, valueAt true a⟩) ∧
    (∀ (e : BitVec 32) (a : BitVec 16), Gen.AssertMacros.M_CHECK_EQUAL_u32_u16 e a = CHECK_EQUAL_int ⟨⟨32, false⟩, valueAt false e⟩ ⟨⟨16, false⟩, valueAt false a⟩) ∧
    (∀ (e : BitVec 32) (a : BitVec 32), Gen.AssertMacros.M_CHECK_EQUAL_u32_i32 e a = CHECK_EQUAL_int ⟨⟨32, false⟩, valueAt false e⟩ ⟨⟨32, true⟩, valueAt true a⟩) ∧
    (∀ (e : BitVec 32) (a : BitVec 32), Gen.AssertMacros.M_CHECK_EQUAL_u32_u32 e a = CHECK_EQUAL_int ⟨⟨32, false⟩, valueAt false e⟩ ⟨⟨32, false⟩, valueAt false a⟩) ∧
    (∀ (e : BitVec 32) (a : BitVec 64), Gen.AssertMacros.M_CHECK_EQUAL_u32_i64 e a = CHECK_EQUAL_int ⟨⟨32, false⟩, valueAt false e⟩ ⟨⟨64, true⟩, valueAt true a⟩) ∧
    (∀ (e : BitVec 32) (a : BitVec 64), Gen.AssertMacros.M_CHECK_EQUAL_u32_u64 e a = CHECK_EQUAL_int ⟨⟨32, false⟩, valueAt false e⟩ ⟨⟨64, false⟩, valueAt false a⟩) ∧
    (∀ (e : BitVec 64) (a : BitVec 8), Gen.AssertMacros.M_CHECK_EQUAL_i64_i8 e a = CHECK_EQUAL_int ⟨⟨64, true⟩, valueAt true e⟩ ⟨⟨8, true⟩, valueAt true a⟩) ∧
    (∀ (e : BitVec 64) (a : BitVec 8), Gen.AssertMacros.M_CHECK_EQUAL_i64_u8 e a = CHECK_EQUAL_int ⟨⟨64, true⟩, valueAt true e⟩ ⟨⟨8, false⟩, valueAt false a⟩) ∧
    (∀ (e : BitVec 64) (a : BitVec 16), Gen.AssertMacros.M_CHECK_EQUAL_i64_i16 e a = CHECK_EQUAL_int ⟨⟨64, true⟩, valueAt true e⟩ ⟨⟨16, true⟩, valueAt true a⟩) ∧
    (∀ (e : BitVec 64) (a : BitVec 16), Gen.AssertMacros.M_CHECK_EQUAL_i64_u16 e a = CHECK_EQUAL_int ⟨⟨64, true⟩, valueAt true e⟩ ⟨⟨16, false⟩, valueAt false a⟩) ∧
    (∀ (e : BitVec 64) (a : BitVec 32), Gen.AssertMacros.M_CHECK_EQUAL_i64_i32 e a = CHECK_EQUAL_int ⟨⟨64, true⟩, valueAt true e⟩ ⟨⟨32, true⟩, valueAt true a⟩) ∧
    (∀ (e : BitVec 64) (a : BitVec 32), Gen.AssertMacros.M_CHECK_EQUAL_i64_u32 e a = CHECK_EQUAL_int ⟨⟨64, true⟩, valueAt true e⟩ ⟨⟨32, false⟩, valueAt false a⟩) ∧
    (∀ (e : BitVec 64) (a : BitVec 64), Gen.AssertMacros.M_CHECK_EQUAL_i64_i64 e a = CHECK_EQUAL_int ⟨⟨64, true⟩, valueAt true e⟩ ⟨⟨64, true⟩, valueAt true a⟩) ∧
    (∀ (e : BitVec 64) (a : BitVec 64), Gen.AssertMacros.M_CHECK_EQUAL_i64_u64 e a = CHECK_EQUAL_int ⟨⟨64, true⟩, valueAt true e⟩ ⟨⟨64, false⟩, valueAt false a⟩) ∧
    (∀ (e : BitVec 64) (a : BitVec 8), Gen.AssertMacros.M_CHECK_EQUAL_u64_i8 e a = CHECK_EQUAL_int ⟨⟨64, false⟩, valueAt false e⟩ ⟨⟨8, true⟩, valueAt true a⟩) ∧
    (∀ (e : BitVec 64) (a : BitVec 8), Gen.AssertMacros.M_CHECK_EQUAL_u64_u8 e a = CHECK_EQUAL_int ⟨⟨64, false⟩, valueAt false e⟩ ⟨⟨8, false⟩, valueAt false a⟩) ∧
    (∀ (e : BitVec 64) (a : BitVec 16), Gen.AssertMacros.M_CHECK_EQUAL_u64_i16 e a = CHECK_EQUAL_int ⟨⟨64, false⟩, valueAt false e⟩ ⟨⟨16, true⟩, valueAt true a⟩) ∧
    (∀ (e : BitVec 64) (a : BitVec 16), Gen.AssertMacros.M_CHECK_EQUAL_u64_u16 e a = CHECK_EQUAL_int ⟨⟨64, false⟩, valueAt false e⟩ ⟨⟨16, false⟩, valueAt false a⟩) ∧
    (∀ (e : BitVec 64) (a : BitVec 32), Gen.AssertMacros.M_CHECK_EQUAL_u64_i32 e a = CHECK_EQUAL_int ⟨⟨64, false⟩, valueAt false e⟩ ⟨⟨32, true⟩, valueAt true a⟩) ∧
    (∀ (e : BitVec 64) (a : BitVec 32), Gen.AssertMacros.M_CHECK_EQUAL_u64_u32 e a = CHECK_EQUAL_int ⟨⟨64, false⟩, valueAt false e⟩ ⟨⟨32, false⟩, valueAt false a⟩) ∧
    (∀ (e : BitVec 64) (a : BitVec 64), Gen.AssertMacros.M_CHECK_EQUAL_u64_i64 e a = CHECK_EQUAL_int ⟨⟨64, false⟩, valueAt false e⟩ ⟨⟨64, true⟩, valueAt true a⟩) ∧
    (∀ (e : BitVec 64) (a : BitVec 64), Gen.AssertMacros.M_CHECK_EQUAL_u64_u64 e a = CHECK_EQUAL_int ⟨⟨64, false⟩, valueAt false e⟩ ⟨⟨64, false⟩, valueAt false a⟩) ∧
    (∀ (e a : BitVec 32), Gen.AssertMacros.M_CHECK_EQUAL_TEXT_i32 e a = CHECK_EQUAL_int ⟨⟨32, true⟩, valueAt true e⟩ ⟨⟨32, true⟩, valueAt true a⟩) := by
  refine ⟨?_, ?_, ?_, ?_, ?_, ?_, ?_, ?_, ?_, ?_, ?_, ?_, ?_, ?_, ?_, ?_, ?_, ?_, ?_, ?_, ?_, ?_, ?_, ?_, ?_, ?_, ?_, ?_, ?_, ?_, ?_, ?_, ?_, ?_, ?_, ?_, ?_, ?_, ?_, ?_, ?_, ?_, ?_, ?_, ?_, ?_, ?_, ?_, ?_, ?_, ?_, ?_, ?_, ?_, ?_, ?_, ?_, ?_, ?_, ?_, ?_, ?_, ?_, ?_, ?_⟩ <;> intros <;>
    psimp [Gen.AssertMacros.M_CHECK_EQUAL_i8_i8, Gen.AssertMacros.M_CHECK_EQUAL_i8_u8, Gen.AssertMacros.M_CHECK_EQUAL_i8_i16, Gen.AssertMacros.M_CHECK_EQUAL_i8_u16, Gen.AssertMacros.M_CHECK_EQUAL_i8_i32, Gen.AssertMacros.M_CHECK_EQUAL_i8_u32, Gen.AssertMacros.M_CHECK_EQUAL_i8_i64, Gen.AssertMacros.M_CHECK_EQUAL_i8_u64, Gen.AssertMacros.M_CHECK_EQUAL_u8_i8, Gen.AssertMacros.M_CHECK_EQUAL_u8_u8, Gen.AssertMacros.M_CHECK_EQUAL_u8_i16, Gen.AssertMacros.M_CHECK_EQUAL_u8_u16, Gen.AssertMacros.M_CHECK_EQUAL_u8_i32, Gen.AssertMacros.M_CHECK_EQUAL_u8_u32, Gen.AssertMacros.M_CHECK_EQUAL_u8_i64, Gen.AssertMacros.M_CHECK_EQUAL_u8_u64, Gen.AssertMacros.M_CHECK_EQUAL_i16_i8, Gen.AssertMacros.M_CHECK_EQUAL_i16_u8, Gen.AssertMacros.M_CHECK_EQUAL_i16_i16, Gen.AssertMacros.M_CHECK_EQUAL_i16_u16, Gen.AssertMacros.M_CHECK_EQUAL_i16_i32, Gen.AssertMacros.M_CHECK_EQUAL_i16_u32, Gen.AssertMacros.M_CHECK_EQUAL_i16_i64, Gen.AssertMacros.M_CHECK_EQUAL_i16_u64, Gen.AssertMacros.M_CHECK_EQUAL_u16_i8, Gen.AssertMacros.M_CHECK_EQUAL_u16_u8, Gen.AssertMacros.M_CHECK_EQUAL_u16_i16, Gen.AssertMacros.M_CHECK_EQUAL_u16_u16, Gen.AssertMacros.M_CHECK_EQUAL_u16_i32, Gen.AssertMacros.M_CHECK_EQUAL_u16_u32, Gen.AssertMacros.M_CHECK_EQUAL_u16_i64, Gen.AssertMacros.M_CHECK_EQUAL_u16_u64, Gen.AssertMacros.M_CHECK_EQUAL_i32_i8, Gen.AssertMacros.M_CHECK_EQUAL_i32_u8, Gen.AssertMacros.M_CHECK_EQUAL_i32_i16, Gen.AssertMacros.M_CHECK_EQUAL_i32_u16, Gen.AssertMacros.M_CHECK_EQUAL_i32_i32, Gen.AssertMacros.M_CHECK_EQUAL_i32_u32, Gen.AssertMacros.M_CHECK_EQUAL_i32_i64, Gen.AssertMacros.M_CHECK_EQUAL_i32_u64, Gen.AssertMacros.M_CHECK_EQUAL_u32_i8, Gen.AssertMacros.M_CHECK_EQUAL_u32_u8, Gen.AssertMacros.M_CHECK_EQUAL_u32_i16, Gen.AssertMacros.M_CHECK_EQUAL_u32_u16, Gen.AssertMacros.M_CHECK_EQUAL_u32_i32, Gen.AssertMacros.M_CHECK_EQUAL_u32_u32, Gen.AssertMacros.M_CHECK_EQUAL_u32_i64, Gen.AssertMacros.M_CHECK_EQUAL_u32_u64, Gen.AssertMacros.M_CHECK_EQUAL_i64_i8, Gen.AssertMacros.M_CHECK_EQUAL_i64_u8, Gen.AssertMacros.M_CHECK_EQUAL_i64_i16, Gen.AssertMacros.M_CHECK_EQUAL_i64_u16, Gen.AssertMacros.M_CHECK_EQUAL_i64_i32, Gen.AssertMacros.M_CHECK_EQUAL_i64_u32, Gen.AssertMacros.M_CHECK_EQUAL_i64_i64, Gen.AssertMacros.M_CHECK_EQUAL_i64_u64, Gen.AssertMacros.M_CHECK_EQUAL_u64_i8, Gen.AssertMacros.M_CHECK_EQUAL_u64_u8, Gen.AssertMacros.M_CHECK_EQUAL_u64_i16, Gen.AssertMacros.M_CHECK_EQUAL_u64_u16, Gen.AssertMacros.M_CHECK_EQUAL_u64_i32, Gen.AssertMacros.M_CHECK_EQUAL_u64_u32, Gen.AssertMacros.M_CHECK_EQUAL_u64_i64, Gen.AssertMacros.M_CHECK_EQUAL_u64_u64, Gen.AssertMacros.M_CHECK_EQUAL_TEXT_i32]

theorem gen_macro_CHECK_COMPARE_lt :
    (∀ (e : BitVec 8) (a : BitVec 8), Gen.AssertMacros.M_CHECK_COMPARE_lt_i8_i8 e a = CHECK_COMPARE_int .lt ⟨⟨8, true⟩, valueAt true e⟩ ⟨⟨8, true⟩, valueAt true a⟩) ∧
    (∀ (e : BitVec 8) (a : BitVec 8), Gen.AssertMacros.M_CHECK_COMPARE_lt_i8_u8 e a = CHECK_COMPARE_int .lt ⟨⟨8, true⟩, valueAt true e⟩ ⟨⟨8, false⟩, valueAt false a⟩) ∧
    (∀ (e : BitVec 8) (a : BitVec 16), Gen.AssertMacros.M_CHECK_COMPARE_lt_i8_i16 e a = CHECK_COMPARE_int .lt ⟨⟨8, true⟩, valueAt true e⟩ ⟨⟨16, true⟩, valueAt true a⟩) ∧
    (∀ (e : BitVec 8) (a : BitVec 16), Gen.AssertMacros.M_CHECK_COMPARE_lt_i8_u16 e a = CHECK_COMPARE_int .lt ⟨⟨8, true⟩, valueAt true e⟩ ⟨⟨16, false⟩, valueAt false a⟩) ∧
    (∀ (e : BitVec 8) (a : BitVec 32), Gen.AssertMacros.M_CHECK_COMPARE_lt_i8_i32 e a = CHECK_COMPARE_int .lt ⟨⟨8, true⟩, valueAt true e⟩ ⟨⟨32, true⟩, valueAt true a⟩) ∧
    (∀ (e : BitVec 8) (a : BitVec 32), Gen.AssertMacros.M_CHECK_COMPARE_lt_i8_u32 e a = CHECK_COMPARE_int .lt ⟨⟨8, true⟩, valueAt true e⟩ ⟨⟨32, false⟩, valueAt false a⟩) ∧
    (∀ (e : BitVec 8) (a : BitVec 64), Gen.AssertMacros.M_CHECK_COMPARE_lt_i8_i64 e a = CHECK_COMPARE_int .lt ⟨⟨8, true⟩, valueAt true e⟩ ⟨⟨64, true⟩, valueAt true a⟩) ∧
    (∀ (e : BitVec 8) (a : BitVec 64), Gen.AssertMacros.M_CHECK_COMPARE_lt_i8_u64 e a = CHECK_COMPARE_int .lt ⟨⟨8, true⟩, valueAt true e⟩ ⟨⟨64, false⟩, valueAt false a⟩) ∧
    (∀ (e : BitVec 8) (a : BitVec 8), Gen.AssertMacros.M_CHECK_COMPARE_lt_u8_i8 e a = CHECK_COMPARE_int .lt ⟨⟨8, false⟩, valueAt false e⟩ ⟨⟨8, true⟩, valueAt true a⟩) ∧
    (∀ (e : BitVec 8) (a : BitVec 8), Gen.AssertMacros.M_CHECK_COMPARE_lt_u8_u8 e a = CHECK_COMPARE_int .lt ⟨⟨8, false⟩, valueAt false e⟩ ⟨⟨8, false⟩, valueAt false a⟩) ∧
    (∀ (e : BitVec 8) (a : BitVec 16), Gen.AssertMacros.M_CHECK_COMPARE_lt_u8_i16 e a = CHECK_COMPARE_int .lt ⟨⟨8, false⟩, valueAt false e⟩ ⟨⟨16, true⟩, valueAt true a⟩) ∧
    (∀ (e : BitVec 8) (a : BitVec 16), Gen.AssertMacros.M_CHECK_COMPARE_lt_u8_u16 e a = CHECK_COMPARE_int .lt ⟨⟨8, false⟩, valueAt false e⟩ ⟨⟨16, false⟩, valueAt false a⟩) ∧
    (∀ (e : BitVec 8) (a : BitVec 32), Gen.AssertMacros.M_CHECK_COMPARE_lt_u8_i32 e a = CHECK_COMPARE_int .lt ⟨⟨8, false⟩, valueAt false e⟩ ⟨⟨32, true⟩, valueAt true a⟩) ∧
    (∀ (e : BitVec 8) (a : BitVec 32), Gen.AssertMacros.M_CHECK_COMPARE_lt_u8_u32 e a = CHECK_COMPARE_int .lt ⟨⟨8, false⟩, valueAt false e⟩ ⟨⟨32, false⟩, valueAt false a⟩) ∧
    (∀ (e : BitVec 8) (a : BitVec 64), Gen.AssertMacros.M_CHECK_COMPARE_lt_u8_i64 e a = CHECK_COMPARE_int .lt ⟨⟨8, false⟩, valueAt false e⟩ ⟨⟨64, true⟩, valueAt true a⟩) ∧
    (∀ (e : BitVec 8) (a : BitVec 64), Gen.AssertMacros.M_CHECK_COMPARE_lt_u8_u64 e a = CHECK_COMPARE_int .lt ⟨⟨8, false⟩, valueAt false e⟩ ⟨⟨64, false⟩, valueAt false a⟩) ∧
    (∀ (e : BitVec 16) (a : BitVec 8), Gen.AssertMacros.M_CHECK_COMPARE_lt_i16_i8 e a = CHECK_COMPARE_int .lt ⟨⟨16, true⟩, valueAt true e⟩ ⟨⟨8, true⟩, valueAt true a⟩) ∧
    (∀ (e : BitVec 16) (a : BitVec 8), Gen.AssertMacros.M_CHECK_COMPARE_lt_i16_u8 e a = CHECK_COMPARE_int .lt ⟨⟨16, true⟩, valueAt true e⟩ ⟨⟨8, false⟩, valueAt false a⟩) ∧
    (∀ (e : BitVec 16) (a : BitVec 16), Gen.AssertMacros.M_CHECK_COMPARE_lt_i16_i16 e a = CHECK_COMPARE_int .lt ⟨⟨16, true⟩, valueAt true e⟩ ⟨⟨16, true⟩, valueAt true a⟩) ∧
    (∀ (e : BitVec 16) (a : BitVec 16), Gen.AssertMacros.M_CHECK_COMPARE_lt_i16_u16 e a = CHECK_COMPARE_int .lt ⟨⟨16, true⟩, valueAt true e⟩ ⟨⟨16, false⟩, valueAt false a⟩) ∧
    (∀ (e : BitVec 16) (a : BitVec 32), Gen.AssertMacros.M_CHECK_COMPARE_lt_i16_i32 e a = CHECK_COMPARE_int .lt ⟨⟨16, true⟩, valueAt true e⟩ ⟨⟨32, true⟩, valueAt true a⟩) ∧
    (∀ (e : BitVec 16) (a : BitVec 32), Gen.AssertMacros.M_CHECK_COMPARE_lt_i16_u32 e a = CHECK_COMPARE_int .lt ⟨⟨16, true⟩, valueAt true e⟩ ⟨⟨32, false⟩, valueAt false a⟩) ∧
    (∀ (e : BitVec 16) (a : BitVec 64), Gen.AssertMacros.M_CHECK_COMPARE_lt_i16_i64 e a = CHECK_COMPARE_int .lt ⟨⟨16, true⟩, valueAt true e⟩ ⟨⟨64, true⟩, valueAt true a⟩) ∧
    (∀ (e : BitVec 16) (a : BitVec 64), Gen.AssertMacros.M_CHECK_COMPARE_lt_i16_u64 e a = CHECK_COMPARE_int .lt ⟨⟨16, true⟩, valueAt true e⟩ ⟨⟨64, false⟩, valueAt false a⟩) ∧
    (∀ (e : BitVec 16) (a : BitVec 8), Gen.AssertMacros.M_CHECK_COMPARE_lt_u16_i8 e a = CHECK_COMPARE_int .lt ⟨⟨16, false⟩, valueAt false e⟩ ⟨⟨8, true⟩, valueAt true a⟩) ∧
    (∀ (e : BitVec 16) (a : BitVec 8), Gen.AssertMacros.M_CHECK_COMPARE_lt_u16_u8 e a = CHECK_COMPARE_int .lt ⟨⟨16, false⟩, valueAt false e⟩ ⟨⟨8, false⟩, valueAt false a⟩) ∧
    (∀ (e : BitVec 16) (a : BitVec 16), Gen.AssertMacros.M_CHECK_COMPARE_lt_u16_i16 e a = CHECK_COMPARE_int .lt ⟨⟨16, false⟩, valueAt false e⟩ ⟨⟨16, true⟩, valueAt true a⟩) ∧
    (∀ (e : BitVec 16) (a : BitVec 16), Gen.AssertMacros.M_CHECK_COMPARE_lt_u16_u16 e a = CHECK_COMPARE_int .lt ⟨⟨16, false⟩, valueAt false e⟩ ⟨⟨16, false⟩, valueAt false a⟩) ∧
    (∀ (e : BitVec 16) (a : BitVec 32), Gen.AssertMacros.M_CHECK_COMPARE_lt_u16_i32 e a = CHECK_COMPARE_int .lt ⟨⟨16, false⟩, valueAt false e⟩ ⟨⟨32, true⟩, valueAt true a⟩) ∧
    (∀ (e : BitVec 16) (a : BitVec 32), Gen.AssertMacros.M_CHECK_COMPARE_lt_u16_u32 e a = CHECK_COMPARE_int .lt ⟨⟨16, false⟩, valueAt false e⟩ ⟨⟨32, false⟩, valueAt false a⟩) ∧
    (∀ (e : BitVec 16) (a : BitVec 64), Gen.AssertMacros.M_CHECK_COMPARE_lt_u16_i64 e a = CHECK_COMPARE_int .lt ⟨⟨16, false⟩, valueAt false e⟩ ⟨⟨64, true⟩, valueAt true a⟩) ∧
    (∀ (e : BitVec 16) (a : BitVec 64), Gen.AssertMacros.M_CHECK_COMPARE_lt_u16_u64 e a = CHECK_COMPARE_int .lt ⟨⟨16, false⟩, valueAt false e⟩ ⟨⟨64, false⟩, valueAt false a⟩) ∧
    (∀ (e : BitVec 32) (a : BitVec 8), Gen.AssertMacros.M_CHECK_COMPARE_lt_i32_i8 e a = CHECK_COMPARE_int .lt ⟨⟨32, true⟩, valueAt true e⟩ ⟨⟨8, true⟩, valueAt true a⟩) ∧
    (∀ (e : BitVec 32) (a : BitVec 8), Gen.AssertMacros.M_CHECK_COMPARE_lt_i32_u8 e a = CHECK_COMPARE_int .lt ⟨⟨32, true⟩, valueAt true e⟩ ⟨⟨8, false⟩, valueAt false a⟩) ∧
    (∀ (e : BitVec 32) (a : BitVec 16), Gen.AssertMacros.M_CHECK_COMPARE_lt_i32_i16 e a = CHECK_COMPARE_int .lt ⟨⟨32, true⟩, valueAt true e⟩ ⟨⟨16, true⟩, valueAt true a⟩) ∧
    (∀ (e : BitVec 32) (a : BitVec 16), Gen.AssertMacros.M_CHECK_COMPARE_lt_i32_u16 e a = CHECK_COMPARE_int .lt ⟨⟨32, true⟩, valueAt true e⟩ ⟨⟨16, false⟩, valueAt false a⟩) ∧
    (∀ (e : BitVec 32) (a : BitVec 32), Gen.AssertMacros.M_CHECK_COMPARE_lt_i32_i32 e a = CHECK_COMPARE_int .lt ⟨⟨32, true⟩, valueAt true e⟩ ⟨⟨32, true⟩, valueAt true a⟩) ∧
    (∀ (e : BitVec 32) (a : BitVec 32), Gen.AssertMacros.M_CHECK_COMPARE_lt_i32_u32 e a = CHECK_COMPARE_int .lt ⟨⟨32, true⟩, valueAt true e⟩ ⟨⟨32, false⟩, valueAt false a⟩) ∧
    (∀ (e : BitVec 32) (a : BitVec 64), Gen.AssertMacros.M_CHECK_COMPARE_lt_i32_i64 e a = CHECK_COMPARE_int .lt ⟨⟨32, true⟩, valueAt true e⟩ ⟨⟨64, true⟩, valueAt true a⟩) ∧
    (∀ (e : BitVec 32) (a : BitVec 64), Gen.AssertMacros.M_CHECK_COMPARE_lt_i32_u64 e a = CHECK_COMPARE_int .lt ⟨⟨32, true⟩, valueAt true e⟩ ⟨⟨64, false⟩, valueAt false a⟩) ∧
    (∀ (e : BitVec 32) (a : BitVec 8), Gen.AssertMacros.M_CHECK_COMPARE_lt_u32_i8 e a = CHECK_COMPARE_int .lt ⟨⟨32, false⟩, valueAt false e⟩ ⟨⟨8, true⟩, valueAt true a⟩) ∧
    (∀ (e : BitVec 32) (a : BitVec 8), Gen.AssertMacros.M_CHECK_COMPARE_lt_u32_u8 e a = CHECK_COMPARE_int .lt ⟨⟨32, false⟩, valueAt false e⟩ ⟨⟨8, false⟩, valueAt false a⟩) ∧
    (∀ (e : BitVec 32) (a : BitVec 16), Gen.AssertMacros.M_CHECK_COMPARE_lt_u32_i16 e a = CHECK_COMPARE_int .lt ⟨⟨32, false⟩, valueAt false e⟩ ⟨⟨16, true⟩, valueAt true a⟩) ∧
    (∀ (e : BitVec 32) (a : BitVec 16), Gen.AssertMacros.M_CHECK_COMPARE_lt_u32_u16 e a = CHECK_COMPARE_int .lt ⟨⟨32, false⟩, valueAt false e⟩ ⟨⟨16, false⟩, valueAt false a⟩) ∧
    (∀ (e : BitVec 32) (a : BitVec 32), Gen.AssertMacros.M_CHECK_COMPARE_lt_u32_i32 e a = CHECK_COMPARE_int .lt ⟨⟨32, false⟩, valueAt false e⟩ ⟨⟨32, true⟩, valueAt true a⟩) ∧
    (∀ (e : BitVec 32) (a : BitVec 32), Gen.AssertMacros.M_CHECK_COMPARE_lt_u32_u32 e a = CHECK_COMPARE_int .lt ⟨⟨32, false⟩, valueAt false e⟩ ⟨⟨32, false⟩, valueAt false a⟩) ∧
    (∀ (e : BitVec 32) (a : BitVec 64), Gen.AssertMacros.M_CHECK_COMPARE_lt_u32_i64 e a = CHECK_COMPARE_int .lt ⟨⟨32, false⟩, valueAt false e⟩ ⟨⟨64, true⟩, valueAt true a⟩) ∧
    (∀ (e : BitVec 32) (a : BitVec 64), Gen.AssertMacros.M_CHECK_COMPARE_lt_u32_u64 e a = CHECK_COMPARE_int .lt ⟨⟨32, false⟩, valueAt false e⟩ ⟨⟨64, false⟩, valueAt false a⟩) ∧
    (∀ (e : BitVec 64) (a : BitVec 8), Gen.AssertMacros.M_CHECK_COMPARE_lt_i64_i8 e a = CHECK_COMPARE_int .lt ⟨⟨64, true⟩, valueAt true e⟩ ⟨⟨8, true⟩, valueAt true a⟩) ∧
    (∀ (e : BitVec 64) (a : BitVec 8), Gen.AssertMacros.M_CHECK_COMPARE_lt_i64_u8 e a = CHECK_COMPARE_int .lt ⟨⟨64, true⟩, valueAt true e⟩ ⟨⟨8, false⟩, valueAt false a⟩) ∧
    (∀ (e : BitVec 64) (a : BitVec 16), Gen.AssertMacros.M_CHECK_COMPARE_lt_i64_i16 e a = CHECK_COMPARE_int .lt ⟨⟨64, true⟩, valueAt true e⟩ ⟨⟨16, true⟩, valueAt true a⟩) ∧
    (∀ (e : BitVec 64) (a : BitVec 16), Gen.AssertMacros.M_CHECK_COMPARE_lt_i64_u16 e a = CHECK_COMPARE_int .lt ⟨⟨64, true⟩, valueAt true e⟩ ⟨⟨16, false⟩, valueAt false a⟩) ∧
    (∀ (e : BitVec 64) (a : BitVec 32), Gen.AssertMacros.M_CHECK_COMPARE_lt_i64_i32 e a = CHECK_COMPARE_int .lt ⟨⟨64, true⟩, valueAt true e⟩ ⟨⟨32, true⟩, valueAt true a⟩) ∧
    (∀ (e : BitVec 64) (a : BitVec 32), Gen.AssertMacros.M_CHECK_COMPARE_lt_i64_u32 e a = CHECK_COMPARE_int .lt ⟨⟨64, true⟩, valueAt true e⟩ ⟨⟨32, false⟩, valueAt false a⟩) ∧
    (∀ (e : BitVec 64) (a : BitVec 64), Gen.AssertMacros.M_CHECK_COMPARE_lt_i64_i64 e a = CHECK_COMPARE_int .lt ⟨⟨64, true⟩, valueAt true e⟩ ⟨⟨64, true⟩, valueAt true a⟩) ∧
    (∀ (e : BitVec 64) (a : BitVec 64), Gen.AssertMacros.M_CHECK_COMPARE_lt_i64_u64 e a = CHECK_COMPARE_int .lt ⟨⟨64, true⟩, valueAt true e⟩ ⟨⟨64, false⟩, valueAt false a⟩) ∧
    (∀ (e : BitVec 64) (a : BitVec 8), Gen.AssertMacros.M_CHECK_COMPARE_lt_u64_i8 e a = CHECK_COMPARE_int .lt ⟨⟨64, false⟩, valueAt false e⟩ ⟨⟨8, true⟩, valueAt true a⟩) ∧
    (∀ (e : BitVec 64) (a : BitVec 8), Gen.AssertMacros.M_CHECK_COMPARE_lt_u64_u8 e a = CHECK_COMPARE_int .lt ⟨⟨64, false⟩, valueAt false e⟩ ⟨⟨8, false⟩, valueAt false a⟩) ∧
    (∀ (e : BitVec 64) (a : BitVec 16), Gen.AssertMacros.M_CHECK_COMPARE_lt_u64_i16 e a = CHECK_COMPARE_int .lt ⟨⟨64, false⟩, valueAt false e⟩ ⟨⟨16, true⟩, valueAt true a⟩) ∧
    (∀ (e : BitVec 64) (a : BitVec 16), Gen.AssertMacros.M_CHECK_COMPARE_lt_u64_u16 e a = CHECK_COMPARE_int .lt ⟨⟨64, false⟩, valueAt false e⟩ ⟨⟨16, false⟩, valueAt false a⟩) ∧
    (∀ (e : BitVec 64) (a : BitVec 32), Gen.AssertMacros.M_CHECK_COMPARE_lt_u64_i32 e a = CHECK_COMPARE_int .lt ⟨⟨64, false⟩, valueAt false e⟩ ⟨⟨32, true⟩, valueAt true a⟩) ∧
    (∀ (e : BitVec 64) (a : BitVec 32), Gen.AssertMacros.M_CHECK_COMPARE_lt_u64_u32 e a = CHECK_COMPARE_int .lt ⟨⟨64, false⟩, valueAt false e⟩ ⟨⟨32, false⟩, valueAt false a⟩) ∧
    (∀ (e : BitVec 64) (a : BitVec 64), Gen.AssertMacros.M_CHECK_COMPARE_lt_u64_i64 e a = CHECK_COMPARE_int .lt ⟨⟨64, false⟩, valueAt false e⟩ ⟨⟨64, true⟩, valueAt true a⟩) ∧
    (∀ (e : BitVec 64) (a : BitVec 64), Gen.AssertMacros.M_CHECK_COMPARE_lt_u64_u64 e a = CHECK_COMPARE_int .lt ⟨⟨64, false⟩, valueAt false e⟩ ⟨⟨64, false⟩, valueAt false a⟩) ∧
    (∀ (e a : BitVec 32), Gen.AssertMacros.M_CHECK_COMPARE_TEXT_lt_i32_i32 e a = CHECK_COMPARE_int .lt ⟨⟨32, true⟩, valueAt true e⟩ ⟨⟨32, true⟩, valueAt true a⟩) := by
  refine ⟨?_, ?_, ?_, ?_, ?_, ?_, ?_, ?_, ?_, ?_, ?_, ?_, ?_, ?_, ?_, ?_, ?_, ?_, ?_, ?_, ?_, ?_, ?_, ?_, ?_, ?_, ?_, ?_, ?_, ?_, ?_, ?_, ?_, ?_, ?_, ?_, ?_, ?_, ?_, ?_, ?_, ?_, ?_, ?_, ?_, ?_, ?_, ?_, ?_, ?_, ?_, ?_, ?_, ?_, ?_, ?_, ?_, ?_, ?_, ?_, ?_, ?_, ?_, ?_, ?_⟩ <;> intros <;>
    psimp [Gen.AssertMacros.M_CHECK_COMPARE_lt_i8_i8, Gen.AssertMacros.M_CHECK_COMPARE_lt_i8_u8, Gen.AssertMacros.M_CHECK_COMPARE_lt_i8_i16, Gen.AssertMacros.M_CHECK_COMPARE_lt_i8_u16, Gen.AssertMacros.M_CHECK_COMPARE_lt_i8_i32, Gen.AssertMacros.M_CHECK_COMPARE_lt_i8_u32, Gen.AssertMacros.M_CHECK_COMPARE_lt_i8_i64, Gen.AssertMacros.M_CHECK_COMPARE_lt_i8_u64, Gen.AssertMacros.M_CHECK_COMPARE_lt_u8_i8, Gen.AssertMacros.M_CHECK_COMPARE_lt_u8_u8, Gen.AssertMacros.M_CHECK_COMPARE_lt_u8_i16, Gen.AssertMacros.M_CHECK_COMPARE_lt_u8_u16, Gen.AssertMacros.M_CHECK_COMPARE_lt_u8_i32, Gen.AssertMacros.M_CHECK_COMPARE_lt_u8_u32, Gen.AssertMacros.M_CHECK_COMPARE_lt_u8_i64, Gen.AssertMacros.M_CHECK_COMPARE_lt_u8_u64, Gen.AssertMacros.M_CHECK_COMPARE_lt_i16_i8, Gen.AssertMacros.M_CHECK_COMPARE_lt_i16_u8, Gen.AssertMacros.M_CHECK_COMPARE_lt_i16_i16, Gen.AssertMacros.M_CHECK_COMPARE_lt_i16_u16, Gen.AssertMacros.M_CHECK_COMPARE_lt_i16_i32, Gen.AssertMacros.M_CHECK_COMPARE_lt_i16_u32, Gen.AssertMacros.M_CHECK_COMPARE_lt_i16_i64, Gen.AssertMacros.M_CHECK_COMPARE_lt_i16_u64, Gen.AssertMacros.M_CHECK_COMPARE_lt_u16_i8, Gen.AssertMacros.M_CHECK_COMPARE_lt_u16_u8, Gen.AssertMacros.M_CHECK_COMPARE_lt_u16_i16, Gen.AssertMacros.M_CHECK_COMPARE_lt_u16_u16, Gen.AssertMacros.M_CHECK_COMPARE_lt_u16_i32, Gen.AssertMacros.M_CHECK_COMPARE_lt_u16_u32, Gen.AssertMacros.M_CHECK_COMPARE_lt_u16_i64, Gen.AssertMacros.M_CHECK_COMPARE_lt_u16_u64, Gen.AssertMacros.M_CHECK_COMPARE_lt_i32_i8, Gen.AssertMacros.M_CHECK_COMPARE_lt_i32_u8, Gen.AssertMacros.M_CHECK_COMPARE_lt_i32_i16, Gen.AssertMacros.M_CHECK_COMPARE_lt_i32_u16, Gen.AssertMacros.M_CHECK_COMPARE_lt_i32_i32, Gen.AssertMacros.M_CHECK_COMPARE_lt_i32_u32, Gen.AssertMacros.M_CHECK_COMPARE_lt_i32_i64, Gen.AssertMacros.M_CHECK_COMPARE_lt_i32_u64, Gen.AssertMacros.M_CHECK_COMPARE_lt_u32_i8, Gen.AssertMacros.M_CHECK_COMPARE_lt_u32_u8, Gen.AssertMacros.M_CHECK_COMPARE_lt_u32_i16, Gen.AssertMacros.M_CHECK_COMPARE_lt_u32_u16, Gen.AssertMacros.M_CHECK_COMPARE_lt_u32_i32, Gen.AssertMacros.M_CHECK_COMPARE_lt_u32_u32, Gen.AssertMacros.M_CHECK_COMPARE_lt_u32_i64, Gen.AssertMacros.M_CHECK_COMPARE_lt_u32_u64, Gen.AssertMacros.M_CHECK_COMPARE_lt_i64_i8, Gen.AssertMacros.M_CHECK_COMPARE_lt_i64_u8, Gen.AssertMacros.M_CHECK_COMPARE_lt_i64_i16, Gen.AssertMacros.M_CHECK_COMPARE_lt_i64_u16, Gen.AssertMacros.M_CHECK_COMPARE_lt_i64_i32, Gen.AssertMacros.M_CHECK_COMPARE_lt_i64_u32, Gen.AssertMacros.M_CHECK_COMPARE_lt_i64_i64, Gen.AssertMacros.M_CHECK_COMPARE_lt_i64_u64, Gen.AssertMacros.M_CHECK_COMPARE_lt_u64_i8, Gen.AssertMacros.M_CHECK_COMPARE_lt_u64_u8, Gen.AssertMacros.M_CHECK_COMPARE_lt_u64_i16, Gen.AssertMacros.M_CHECK_COMPARE_lt_u64_u16, Gen.AssertMacros.M_CHECK_COMPARE_lt_u64_i32, Gen.AssertMacros.M_CHECK_COMPARE_lt_u64_u32, Gen.AssertMacros.M_CHECK_COMPARE_lt_u64_i64, Gen.AssertMacros.M_CHECK_COMPARE_lt_u64_u64, Gen.AssertMacros.M_CHECK_COMPARE_TEXT_lt_i32_i32]

theorem gen_macro_CHECK_COMPARE_le :
    (∀ (e : BitVec 8) (a : BitVec 8), Gen.AssertMacros.M_CHECK_COMPARE_le_i8_i8 e a = CHECK_COMPARE_int .le ⟨⟨8, true⟩, valueAt true e⟩ ⟨⟨8, true⟩, valueAt true a⟩) ∧
    (∀ (e : BitVec 8) (a : BitVec 8), Gen.AssertMacros.M_CHECK_COMPARE_le_u8_u8 e a = CHECK_COMPARE_int .le ⟨⟨8, false⟩, valueAt false e⟩ ⟨⟨8, false⟩, valueAt false a⟩) ∧
    (∀ (e : BitVec 16) (a : BitVec 16), Gen.AssertMacros.M_CHECK_COMPARE_le_i16_i16 e a = CHECK_COMPARE_int .le ⟨⟨16, true⟩, valueAt true e⟩ ⟨⟨16, true⟩, valueAt true a⟩) ∧
    (∀ (e : BitVec 16) (a : BitVec 16), Gen.AssertMacros.M_CHECK_COMPARE_le_u16_u16 e a = CHECK_COMPARE_int .le ⟨⟨16, false⟩, valueAt false e⟩ ⟨⟨16, false⟩, valueAt false a⟩) ∧
    (∀ (e : BitVec 32) (a : BitVec 32), Gen.AssertMacros.M_CHECK_COMPARE_le_i32_i32 e a = CHECK_COMPARE_int .le ⟨⟨32, true⟩, valueAt true e⟩ ⟨⟨32, true⟩, valueAt true a⟩) ∧
    (∀ (e : BitVec 32) (a : BitVec 32), Gen.AssertMacros.M_CHECK_COMPARE_le_u32_u32 e a = CHECK_COMPARE_int .le ⟨⟨32, false⟩, valueAt false e⟩ ⟨⟨32, false⟩, valueAt false a⟩) ∧
    (∀ (e : BitVec 64) (a : BitVec 64), Gen.AssertMacros.M_CHECK_COMPARE_le_i64_i64 e a = CHECK_COMPARE_int .le ⟨⟨64, true⟩, valueAt true e⟩ ⟨⟨64, true⟩, valueAt true a⟩) ∧
    (∀ (e : BitVec 64) (a : BitVec 64), Gen.AssertMacros.M_CHECK_COMPARE_le_u64_u64 e a = CHECK_COMPARE_int .le ⟨⟨64, false⟩, valueAt false e⟩ ⟨⟨64, false⟩, valueAt false a⟩) := by
  refine ⟨?_, ?_, ?_, ?_, ?_, ?_, ?_, ?_⟩ <;> intros <;>
    psimp [Gen.AssertMacros.M_CHECK_COMPARE_le_i8_i8, Gen.AssertMacros.M_CHECK_COMPARE_le_u8_u8, Gen.AssertMacros.M_CHECK_COMPARE_le_i16_i16, Gen.AssertMacros.M_CHECK_COMPARE_le_u16_u16, Gen.AssertMacros.M_CHECK_COMPARE_le_i32_i32, Gen.AssertMacros.M_CHECK_COMPARE_le_u32_u32, Gen.AssertMacros.M_CHECK_COMPARE_le_i64_i64, Gen.AssertMacros.M_CHECK_COMPARE_le_u64_u64]

theorem gen_macro_CHECK_COMPARE_gt :
    (∀ (e : BitVec 8) (a : BitVec 8), Gen.AssertMacros.M_CHECK_COMPARE_gt_i8_i8 e a = CHECK_COMPARE_int .gt ⟨⟨8, true⟩, valueAt true e⟩ ⟨⟨8, true⟩, valueAt true a⟩) ∧
    (∀ (e : BitVec 8) (a : BitVec 8), Gen.AssertMacros.M_CHECK_COMPARE_gt_u8_u8 e a = CHECK_COMPARE_int .gt ⟨⟨8, false⟩, valueAt false e⟩ ⟨⟨8, false⟩, valueAt false a⟩) ∧
    (∀ (e : BitVec 16) (a : BitVec 16), Gen.AssertMacros.M_CHECK_COMPARE_gt_i16_i16 e a = CHECK_COMPARE_int .gt ⟨⟨16, true⟩, valueAt true e⟩ ⟨⟨16, true⟩, valueAt true a⟩) ∧
    (∀ (e : BitVec 16) (a : BitVec 16), Gen.AssertMacros.M_CHECK_COMPARE_gt_u16_u16 e a = CHECK_COMPARE_int .gt ⟨⟨16, false⟩, valueAt false e⟩ ⟨⟨16, false⟩, valueAt false a⟩) ∧
    (∀ (e : BitVec 32) (a : BitVec 32), Gen.AssertMacros.M_CHECK_COMPARE_gt_i32_i32 e a = CHECK_COMPARE_int .gt ⟨⟨32, true⟩, valueAt true e⟩ ⟨⟨32, true⟩, valueAt true a⟩) ∧
    (∀ (e : BitVec 32) (a : BitVec 32), Gen.AssertMacros.M_CHECK_COMPARE_gt_u32_u32 e a = CHECK_COMPARE_int .gt ⟨⟨32, false⟩, valueAt false e⟩ ⟨⟨32, false⟩, valueAt false a⟩) ∧
    (∀ (e : BitVec 64) (a : BitVec 64), Gen.AssertMacros.M_CHECK_COMPARE_gt_i64_i64 e a = CHECK_COMPARE_int .gt ⟨⟨64, true⟩, valueAt true e⟩ ⟨⟨64, true⟩, valueAt true a⟩) ∧
    (∀ (e : BitVec 64) (a : BitVec 64), Gen.AssertMacros.M_CHECK_COMPARE_gt_u64_u64 e a = CHECK_COMPARE_int .gt ⟨⟨64, false⟩, valueAt false e⟩ ⟨⟨64, false⟩, valueAt false a⟩) := by
  refine ⟨?_, ?_, ?_, ?_, ?_, ?_, ?_, ?_⟩ <;> intros <;>
    psimp [Gen.AssertMacros.M_CHECK_COMPARE_gt_i8_i8, Gen.AssertMacros.M_CHECK_COMPARE_gt_u8_u8, Gen.AssertMacros.M_CHECK_COMPARE_gt_i16_i16, Gen.AssertMacros.M_CHECK_COMPARE_gt_u16_u16, Gen.AssertMacros.M_CHECK_COMPARE_gt_i32_i32, Gen.AssertMacros.M_CHECK_COMPARE_gt_u32_u32, Gen.AssertMacros.M_CHECK_COMPARE_gt_i64_i64, Gen.AssertMacros.M_CHECK_COMPARE_gt_u64_u64]

theorem gen_macro_CHECK_COMPARE_ge :
    (∀ (e : BitVec 8) (a : BitVec 8), Gen.AssertMacros.M_CHECK_COMPARE_ge_i8_i8 e a = CHECK_COMPARE_int .ge ⟨⟨8, true⟩, valueAt true e⟩ ⟨⟨8, true⟩, valueAt true a⟩) ∧
    (∀ (e : BitVec 8) (a : BitVec 8), Gen.AssertMacros.M_CHECK_COMPARE_ge_i8_u8 e a = CHECK_COMPARE_int .ge ⟨⟨8, true⟩, valueAt true e⟩ ⟨⟨8, false⟩, valueAt false a⟩) ∧
    (∀ (e : BitVec 8) (a : BitVec 16), Gen.AssertMacros.M_CHECK_COMPARE_ge_i8_i16 e a = CHECK_COMPARE_int .ge ⟨⟨8, true⟩, valueAt true e⟩ ⟨⟨16, true⟩, valueAt true a⟩) ∧
    (∀ (e : BitVec 8) (a : BitVec 16), Gen.AssertMacros.M_CHECK_COMPARE_ge_i8_u16 e a = CHECK_COMPARE_int .ge ⟨⟨8, true⟩, valueAt true e⟩ ⟨⟨16, false⟩, valueAt false a⟩) ∧
    (∀ (e : BitVec 8) (a : BitVec 32), Gen.AssertMacros.M_CHECK_COMPARE_ge_i8_i32 e a = CHECK_COMPARE_int .ge ⟨⟨8, true⟩, valueAt true e⟩ ⟨⟨32, true⟩, valueAt true a⟩) ∧
    (∀ (e : BitVec 8) (a : BitVec 32), Gen.AssertMacros.M_CHECK_COMPARE_ge_i8_u32 e a = CHECK_COMPARE_int .ge ⟨⟨8, true⟩, valueAt true e⟩ ⟨⟨32, false⟩, valueAt false a⟩) ∧
    (∀ (e : BitVec 8) (a : BitVec 64), Gen.AssertMacros.M_CHECK_COMPARE_ge_i8_i64 e a = CHECK_COMPARE_int .ge ⟨⟨8, true⟩, valueAt true e⟩ ⟨⟨64, true⟩, valueAt true a⟩) ∧
    (∀ (e : BitVec 8) (a : BitVec 64), Gen.AssertMacros.M_CHECK_COMPARE_ge_i8_u64 e a = CHECK_COMPARE_int .ge ⟨⟨8, true⟩, valueAt true e⟩ ⟨⟨64, false⟩, valueAt false a⟩) ∧
    (∀ (e : BitVec 8) (a : BitVec 8), Gen.AssertMacros.M_CHECK_COMPARE_ge_u8_i8 e a = CHECK_COMPARE_int .ge ⟨⟨8, false⟩, valueAt false e⟩ ⟨⟨8, true⟩, valueAt true a⟩) ∧
    (∀ (e : BitVec 8) (a : BitVec 8), Gen.AssertMacros.M_CHECK_COMPARE_ge_u8_u8 e a = CHECK_COMPARE_int .ge ⟨⟨8, false⟩, valueAt false e⟩ ⟨⟨8, false⟩, valueAt false a⟩) ∧
    (∀ (e : BitVec 8) (a : BitVec 16), Gen.AssertMacros.M_CHECK_COMPARE_ge_u8_i16 e a = CHECK_COMPARE_int .ge ⟨⟨8, false⟩, valueAt false e⟩ ⟨⟨16, true⟩, valueAt true a⟩) ∧
    (∀ (e : BitVec 8) (a : BitVec 16), Gen.AssertMacros.M_CHECK_COMPARE_ge_u8_u16 e a = CHECK_COMPARE_int .ge ⟨⟨8, false⟩, valueAt false e⟩ ⟨⟨16, false⟩, valueAt false a⟩) ∧
    (∀ (e : BitVec 8) (a : BitVec 32), Gen.AssertMacros.M_CHECK_COMPARE_ge_u8_i32 e a = CHECK_COMPARE_int .ge ⟨⟨8, false⟩, valueAt false e⟩ ⟨⟨32, true⟩, valueAt true a⟩) ∧
    (∀ (e : BitVec 8) (a : BitVec 32), Gen.AssertMacros.M_CHECK_COMPARE_ge_u8_u32 e a = CHECK_COMPARE_int .ge ⟨⟨8, false⟩, valueAt false e⟩ ⟨⟨32, false⟩, valueAt false a⟩) ∧
    (∀ (e : BitVec 8) (a : BitVec 64), Gen.AssertMacros.M_CHECK_COMPARE_ge_u8_i64 e a = CHECK_COMPARE_int .ge ⟨⟨8, false⟩, valueAt false e⟩ ⟨⟨64, true⟩, valueAt true a⟩) ∧
    (∀ (e : BitVec 8) (a : BitVec 64), Gen.AssertMacros.M_CHECK_COMPARE_ge_u8_u64 e a = CHECK_COMPARE_int .ge ⟨⟨8, false⟩, valueAt false e⟩ ⟨⟨64, false⟩, valueAt false a⟩) ∧
    (∀ (e : BitVec 16) (a : BitVec 8), Gen.AssertMacros.M_CHECK_COMPARE_ge_i16_i8 e a = CHECK_COMPARE_int .ge ⟨⟨16, true⟩, valueAt true e⟩ ⟨⟨8, true⟩, valueAt true a⟩) ∧
    (∀ (e : BitVec 16) (a : BitVec 8), Gen.AssertMacros.M_CHECK_COMPARE_ge_i16_u8 e a = CHECK_COMPARE_int .ge ⟨⟨16, true⟩, valueAt true e⟩ ⟨⟨8, false⟩, valueAt false a⟩) ∧
    (∀ (e : BitVec 16) (a : BitVec 16), Gen.AssertMacros.M_CHECK_COMPARE_ge_i16_i16 e a = CHECK_COMPARE_int .ge ⟨⟨16, true⟩, valueAt true e⟩ ⟨⟨16, true⟩, valueAt true a⟩) ∧
    (∀ (e : BitVec 16) (a : BitVec 16), Gen.AssertMacros.M_CHECK_COMPARE_ge_i16_u16 e a = CHECK_COMPARE_int .ge ⟨⟨16, true⟩, valueAt true e⟩ ⟨⟨16, false⟩, valueAt false a⟩) ∧
    (∀ (e : BitVec 16) (a : BitVec 32), Gen.AssertMacros.M_CHECK_COMPARE_ge_i16_i32 e a = CHECK_COMPARE_int .ge ⟨⟨16, true⟩, valueAt true e⟩ ⟨⟨32, true⟩, valueAt true a⟩) ∧
    (∀ (e : BitVec 16) (a : BitVec 32), Gen.AssertMacros.M_CHECK_COMPARE_ge_i16_u32 e a = CHECK_COMPARE_int .ge ⟨⟨16, true⟩, valueAt true e⟩ ⟨⟨32, false⟩, valueAt false a⟩) ∧
    (∀ (e : BitVec 16) (a : BitVec 64), Gen.AssertMacros.M_CHECK_COMPARE_ge_i16_i64 e a = CHECK_COMPARE_int .ge ⟨⟨16, true⟩, valueAt true e⟩ ⟨⟨64, true⟩, valueAt true a⟩) ∧
    (∀ (e : BitVec 16) (a : BitVec 64), Gen.AssertMacros.M_CHECK_COMPARE_ge_i16_u64 e a = CHECK_COMPARE_int .ge ⟨⟨16, true⟩, valueAt true e⟩ ⟨⟨64, false⟩, valueAt false a⟩) ∧
    (∀ (e : BitVec 16) (a : BitVec 8), Gen.AssertMacros.M_CHECK_COMPARE_ge_u16_i8 e a = CHECK_COMPARE_int .ge ⟨⟨16, false⟩, valueAt false e⟩ ⟨⟨8, true⟩, valueAt true a⟩) ∧
    (∀ (e : BitVec 16) (a : BitVec 8), Gen.AssertMacros.M_CHECK_COMPARE_ge_u16_u8 e a = CHECK_COMPARE_int .ge ⟨⟨16, false⟩, valueAt false e⟩ ⟨⟨8, false⟩, valueAt false a⟩) ∧
    (∀ (e : BitVec 16) (a : BitVec 16), Gen.AssertMacros.M_CHECK_COMPARE_ge_u16_i16 e a = CHECK_COMPARE_int .ge ⟨⟨16, false⟩, valueAt false e⟩ ⟨⟨16, true⟩, valueAt true a⟩) ∧
    (∀ (e : BitVec 16) (a : BitVec 16), Gen.AssertMacros.M_CHECK_COMPARE_ge_u16_u16 e a = CHECK_COMPARE_int .ge ⟨⟨16, false⟩, valueAt false e⟩ ⟨⟨16, false⟩, valueAt false a⟩) ∧
    (∀ (e : BitVec 16) (a : BitVec 32), Gen.AssertMacros.M_CHECK_COMPARE_ge_u16_i32 e a = CHECK_COMPARE_int .ge ⟨⟨16, false⟩, valueAt false e⟩ ⟨⟨32, true⟩, valueAt true a⟩) ∧
    (∀ (e : BitVec 16) (a : BitVec 32), Gen.AssertMacros.M_CHECK_COMPARE_ge_u16_u32 e a = CHECK_COMPARE_int .ge ⟨⟨16, false⟩, valueAt false e⟩ ⟨⟨32, false⟩, valueAt false a⟩) ∧
    (∀ (e : BitVec 16) (a : BitVec 64), Gen.AssertMacros.M_CHECK_COMPARE_ge_u16_i64 e a = CHECK_COMPARE_int .ge ⟨⟨16, false⟩, valueAt false e⟩ ⟨⟨64, true⟩, valueAt true a⟩) ∧
    (∀ (e : BitVec 16) (a : BitVec 64), Gen.AssertMacros.M_CHECK_COMPARE_ge_u16_u64 e a = CHECK_COMPARE_int .ge ⟨⟨16, false⟩, valueAt false e⟩ ⟨⟨64, false⟩, valueAt false a⟩) ∧
    (∀ (e : BitVec 32) (a : BitVec 8), Gen.AssertMacros.M_CHECK_COMPARE_ge_i32_i8 e a = CHECK_COMPARE_int .ge ⟨⟨32, true⟩, valueAt true e⟩ ⟨⟨8, true⟩, valueAt true a⟩) ∧
    (∀ (e : BitVec 32) (a : BitVec 8), Gen.AssertMacros.M_CHECK_COMPARE_ge_i32_u8 e a = CHECK_COMPARE_int .ge ⟨⟨32, true⟩, valueAt true e⟩ ⟨⟨8, false⟩, valueAt false a⟩) ∧
    (∀ (e : BitVec 32) (a : BitVec 16), Gen.AssertMacros.M_CHECK_COMPARE_ge_i32_i16 e a = CHECK_COMPARE_int .ge ⟨⟨32, true⟩, valueAt true e⟩ ⟨⟨16, true⟩, valueAt true a⟩) ∧
    (∀ (e : BitVec 32) (a : BitVec 16), Gen.AssertMacros.M_CHECK_COMPARE_ge_i32_u16 e a = CHECK_COMPARE_int .ge ⟨⟨32, true⟩, valueAt true e⟩ ⟨⟨16, false⟩, valueAt false a⟩) ∧
    (∀ (e : BitVec 32) (a : BitVec 32), Gen.AssertMacros.M_CHECK_COMPARE_ge_i32_i32 e a = CHECK_COMPARE_int .ge ⟨⟨32, true⟩, valueAt true e⟩ ⟨⟨32, true⟩, valueAt true a⟩) ∧
    (∀ (e : BitVec 32) (a : BitVec 32), Gen.AssertMacros.M_CHECK_COMPARE_ge_i32_u32 e a = CHECK_COMPARE_int .ge ⟨⟨32, true⟩, valueAt true e⟩ ⟨⟨32, false⟩, valueAt false a⟩) ∧
    (∀ (e : BitVec 32) (a : BitVec 64), Gen.AssertMacros.M_CHECK_COMPARE_ge_i32_i64 e a = CHECK_COMPARE_int .ge ⟨⟨32, true⟩, valueAt true e⟩ ⟨⟨64, true⟩, valueAt true a⟩) ∧
    (∀ (e : BitVec 32) (a : BitVec 64), Gen.AssertMacros.M_CHECK_COMPARE_ge_i32_u64 e a = CHECK_COMPARE_int .ge ⟨⟨32, true⟩, valueAt true e⟩ ⟨⟨64, false⟩, valueAt false a⟩) ∧
    (∀ (e : BitVec 32) (a : BitVec 8), Gen.AssertMacros.M_CHECK_COMPARE_ge_u32_i8 e a = CHECK_COMPARE_int .ge ⟨⟨32, false⟩, valueAt false e⟩ ⟨⟨8, true⟩, valueAt true a⟩) ∧
    (∀ (e : BitVec 32) (a : BitVec 8), Gen.AssertMacros.M_CHECK_COMPARE_ge_u32_u8 e a = CHECK_COMPARE_int .ge ⟨⟨32, false⟩, valueAt false e⟩ ⟨⟨8, false⟩, valueAt false a⟩) ∧
    (∀ (e : BitVec 32) (a : BitVec 16), Gen.AssertMacros.M_CHECK_COMPARE_ge_u32_i16 e a = CHECK_COMPARE_int .ge ⟨⟨32, false⟩, valueAt false e⟩ ⟨⟨16, true⟩, valueAt true a⟩) ∧
    (∀ (e : BitVec 32) (a : BitVec 16), Gen.AssertMacros.M_CHECK_COMPARE_ge_u32_u16 e a = CHECK_COMPARE_int .ge ⟨⟨32, false⟩, valueAt false e⟩ ⟨⟨16, false⟩, valueAt false a⟩) ∧
    (∀ (e : BitVec 32) (a : BitVec 32), Gen.AssertMacros.M_CHECK_COMPARE_ge_u32_i32 e a = CHECK_COMPARE_int .ge ⟨⟨32, false⟩, valueAt false e⟩ ⟨⟨32, true⟩, valueAt true a⟩) ∧
    (∀ (e : BitVec 32) (a : BitVec 32), Gen.AssertMacros.M_CHECK_COMPARE_ge_u32_u32 e a = CHECK_COMPARE_int .ge ⟨⟨32, false⟩, valueAt false e⟩ ⟨⟨32, false⟩, valueAt false a⟩) ∧
    (∀ (e : BitVec 32) (a : BitVec 64), Gen.AssertMacros.M_CHECK_COMPARE_ge_u32_i64 e a = CHECK_COMPARE_int .ge ⟨⟨32, false⟩, valueAt false e⟩ ⟨⟨64, true⟩, valueAt true a⟩) ∧
    (∀ (e : BitVec 32) (a : BitVec 64), Gen.AssertMacros.M_CHECK_COMPARE_ge_u32_u64 e a = CHECK_COMPARE_int .ge ⟨⟨32, false⟩, valueAt false e⟩ ⟨⟨64, false⟩, valueAt false a⟩) ∧
    (∀ (e : BitVec 64) (a : BitVec 8), Gen.AssertMacros.M_CHECK_COMPARE_ge_i64_i8 e a = CHECK_COMPARE_int .ge ⟨⟨64, true⟩, valueAt true e⟩ ⟨⟨8, true⟩, valueAt true a⟩) ∧
    (∀ (e : BitVec 64) (a : BitVec 8), Gen.AssertMacros.M_CHECK_COMPARE_ge_i64_u8 e a = CHECK_COMPARE_int .ge ⟨⟨64, true⟩, valueAt true e⟩ ⟨⟨8, false⟩, valueAt false a⟩) ∧
    (∀ (e : BitVec 64) (a : BitVec 16), Gen.AssertMacros.M_CHECK_COMPARE_ge_i64_i16 e a = CHECK_COMPARE_int .ge ⟨⟨64, true⟩, valueAt true e⟩ ⟨⟨16, true⟩, valueAt true a⟩) ∧
    (∀ (e : BitVec 64) (a : BitVec 16), Gen.AssertMacros.M_CHECK_COMPARE_ge_i64_u16 e a = CHECK_COMPARE_int .ge ⟨⟨64, true⟩, valueAt true e⟩ ⟨⟨16, false⟩, valueAt false a⟩) ∧
    (∀ (e : BitVec 64) (a : BitVec 32), Gen.AssertMacros.M_CHECK_COMPARE_ge_i64_i32 e a = CHECK_COMPARE_int .ge ⟨⟨64, true⟩, valueAt true e⟩ ⟨⟨32, true⟩, valueAt true a⟩) ∧
    (∀ (e : BitVec 64) (a : BitVec 32), Gen.AssertMacros.M_CHECK_COMPARE_ge_i64_u32 e a = CHECK_COMPARE_int .ge ⟨⟨64, true⟩, valueAt true e⟩ ⟨⟨32, false⟩, valueAt false a⟩) ∧
    (∀ (e : BitVec 64) (a : BitVec 64), Gen.AssertMacros.M_CHECK_COMPARE_ge_i64_i64 e a = CHECK_COMPARE_int .ge ⟨⟨64, true⟩, valueAt true e⟩ ⟨⟨64, true⟩, valueAt true a⟩) ∧
    (∀ (e : BitVec 64) (a : BitVec 64), Gen.AssertMacros.M_CHECK_COMPARE_ge_i64_u64 e a = CHECK_COMPARE_int .ge ⟨⟨64, true⟩, valueAt true e⟩ ⟨⟨64, false⟩, valueAt false a⟩) ∧
    (∀ (e : BitVec 64) (a : BitVec 8), Gen.AssertMacros.M_CHECK_COMPARE_ge_u64_i8 e a = CHECK_COMPARE_int .ge ⟨⟨64, false⟩, valueAt false e⟩ ⟨⟨8, true⟩, valueAt true a⟩) ∧
    (∀ (e : BitVec 64) (a : BitVec 8), Gen.AssertMacros.M_CHECK_COMPARE_ge_u64_u8 e a = CHECK_COMPARE_int .ge ⟨⟨64, false⟩, valueAt false e⟩ ⟨⟨8, false⟩, valueAt false a⟩) ∧
    (∀ (e : BitVec 64) (a : BitVec 16), Gen.AssertMacros.M_CHECK_COMPARE_ge_u64_i16 e a = CHECK_COMPARE_int .ge ⟨⟨64, false⟩, valueAt false e⟩ ⟨⟨16, true⟩, valueAt true a⟩) ∧
    (∀ (e : BitVec 64) (a : BitVec 16), Gen.AssertMacros.M_CHECK_COMPARE_ge_u64_u16 e a = CHECK_COMPARE_int .ge ⟨⟨64, false⟩, valueAt false e⟩ ⟨⟨16, false⟩, valueAt false a⟩) ∧
    (∀ (e : BitVec 64) (a : BitVec 32), Gen.AssertMacros.M_CHECK_COMPARE_ge_u64_i32 e a = CHECK_COMPARE_int .ge ⟨⟨64, false⟩, valueAt false e⟩ ⟨⟨32, true⟩, valueAt true a⟩) ∧
    (∀ (e : BitVec 64) (a : BitVec 32), Gen.AssertMacros.M_CHECK_COMPARE_ge_u64_u32 e a = CHECK_COMPARE_int .ge ⟨⟨64, false⟩, valueAt false e⟩ ⟨⟨32, false⟩, valueAt false a⟩) ∧
    (∀ (e : BitVec 64) (a : BitVec 64), Gen.AssertMacros.M_CHECK_COMPARE_ge_u64_i64 e a = CHECK_COMPARE_int .ge ⟨⟨64, false⟩, valueAt false e⟩ ⟨⟨64, true⟩, valueAt true a⟩) ∧
    (∀ (e : BitVec 64) (a : BitVec 64), Gen.AssertMacros.M_CHECK_COMPARE_ge_u64_u64 e a = CHECK_COMPARE_int .ge ⟨⟨64, false⟩, valueAt false e⟩ ⟨⟨64, false⟩, valueAt false a⟩) := by
  refine ⟨?_, ?_, ?_, ?_, ?_, ?_, ?_, ?_, ?_, ?_, ?_, ?_, ?_, ?_, ?_, ?_, ?_, ?_, ?_, ?_, ?_, ?_, ?_, ?_, ?_, ?_, ?_, ?_, ?_, ?_, ?_, ?_, ?_, ?_, ?_, ?_, ?_, ?_, ?_, ?_, ?_, ?_, ?_, ?_, ?_, ?_, ?_, ?_, ?_, ?_, ?_, ?_, ?_, ?_, ?_, ?_, ?_, ?_, ?_, ?_, ?_, ?_, ?_, ?_⟩ <;> intros <;>
    psimp [Gen.AssertMacros.M_CHECK_COMPARE_ge_i8_i8, Gen.AssertMacros.M_CHECK_COMPARE_ge_i8_u8, Gen.AssertMacros.M_CHECK_COMPARE_ge_i8_i16, Gen.AssertMacros.M_CHECK_COMPARE_ge_i8_u16, Gen.AssertMacros.M_CHECK_COMPARE_ge_i8_i32, Gen.AssertMacros.M_CHECK_COMPARE_ge_i8_u32, Gen.AssertMacros.M_CHECK_COMPARE_ge_i8_i64, Gen.AssertMacros.M_CHECK_COMPARE_ge_i8_u64, Gen.AssertMacros.M_CHECK_COMPARE_ge_u8_i8, Gen.AssertMacros.M_CHECK_COMPARE_ge_u8_u8, Gen.AssertMacros.M_CHECK_COMPARE_ge_u8_i16, Gen.AssertMacros.M_CHECK_COMPARE_ge_u8_u16, Gen.AssertMacros.M_CHECK_COMPARE_ge_u8_i32, Gen.AssertMacros.M_CHECK_COMPARE_ge_u8_u32, Gen.AssertMacros.M_CHECK_COMPARE_ge_u8_i64, Gen.AssertMacros.M_CHECK_COMPARE_ge_u8_u64, Gen.AssertMacros.M_CHECK_COMPARE_ge_i16_i8, Gen.AssertMacros.M_CHECK_COMPARE_ge_i16_u8, Gen.AssertMacros.M_CHECK_COMPARE_ge_i16_i16, Gen.AssertMacros.M_CHECK_COMPARE_ge_i16_u16, Gen.AssertMacros.M_CHECK_COMPARE_ge_i16_i32, Gen.AssertMacros.M_CHECK_COMPARE_ge_i16_u32, Gen.AssertMacros.M_CHECK_COMPARE_ge_i16_i64, Gen.AssertMacros.M_CHECK_COMPARE_ge_i16_u64, Gen.AssertMacros.M_CHECK_COMPARE_ge_u16_i8, Gen.AssertMacros.M_CHECK_COMPARE_ge_u16_u8, Gen.AssertMacros.M_CHECK_COMPARE_ge_u16_i16, Gen.AssertMacros.M_CHECK_COMPARE_ge_u16_u16, Gen.AssertMacros.M_CHECK_COMPARE_ge_u16_i32, Gen.AssertMacros.M_CHECK_COMPARE_ge_u16_u32, Gen.AssertMacros.M_CHECK_COMPARE_ge_u16_i64, Gen.AssertMacros.M_CHECK_COMPARE_ge_u16_u64, Gen.AssertMacros.M_CHECK_COMPARE_ge_i32_i8, Gen.AssertMacros.M_CHECK_COMPARE_ge_i32_u8, Gen.AssertMacros.M_CHECK_COMPARE_ge_i32_i16, Gen.AssertMacros.M_CHECK_COMPARE_ge_i32_u16, Gen.AssertMacros.M_CHECK_COMPARE_ge_i32_i32, Gen.AssertMacros.M_CHECK_COMPARE_ge_i32_u32, Gen.AssertMacros.M_CHECK_COMPARE_ge_i32_i64, Gen.AssertMacros.M_CHECK_COMPARE_ge_i32_u64, Gen.AssertMacros.M_CHECK_COMPARE_ge_u32_i8, Gen.AssertMacros.M_CHECK_COMPARE_ge_u32_u8, Gen.AssertMacros.M_CHECK_COMPARE_ge_u32_i16, Gen.AssertMacros.M_CHECK_COMPARE_ge_u32_u16, Gen.AssertMacros.M_CHECK_COMPARE_ge_u32_i32, Gen.AssertMacros.M_CHECK_COMPARE_ge_u32_u32, Gen.AssertMacros.M_CHECK_COMPARE_ge_u32_i64, Gen.AssertMacros.M_CHECK_COMPARE_ge_u32_u64, Gen.AssertMacros.M_CHECK_COMPARE_ge_i64_i8, Gen.AssertMacros.M_CHECK_COMPARE_ge_i64_u8, Gen.AssertMacros.M_CHECK_COMPARE_ge_i64_i16, Gen.AssertMacros.M_CHECK_COMPARE_ge_i64_u16, Gen.AssertMacros.M_CHECK_COMPARE_ge_i64_i32, Gen.AssertMacros.M_CHECK_COMPARE_ge_i64_u32, Gen.AssertMacros.M_CHECK_COMPARE_ge_i64_i64, Gen.AssertMacros.M_CHECK_COMPARE_ge_i64_u64, Gen.AssertMacros.M_CHECK_COMPARE_ge_u64_i8, Gen.AssertMacros.M_CHECK_COMPARE_ge_u64_u8, Gen.AssertMacros.M_CHECK_COMPARE_ge_u64_i16, Gen.AssertMacros.M_CHECK_COMPARE_ge_u64_u16, Gen.AssertMacros.M_CHECK_COMPARE_ge_u64_i32, Gen.AssertMacros.M_CHECK_COMPARE_ge_u64_u32, Gen.AssertMacros.M_CHECK_COMPARE_ge_u64_i64, Gen.AssertMacros.M_CHECK_COMPARE_ge_u64_u64]

theorem gen_macro_CHECK_COMPARE_eq :
    (∀ (e : BitVec 8) (a : BitVec 8), Gen.AssertMacros.M_CHECK_COMPARE_eq_i8_i8 e a = CHECK_COMPARE_int .eq ⟨⟨8, true⟩, valueAt true e⟩ ⟨⟨8, true⟩, valueAt true a⟩) ∧
    (∀ (e : BitVec 8) (a : BitVec 8), Gen.AssertMacros.M_CHECK_COMPARE_eq_u8_u8 e a = CHECK_COMPARE_int .eq ⟨⟨8, false⟩, valueAt false e⟩ ⟨⟨8, false⟩, valueAt false a⟩) ∧
    (∀ (e : BitVec 16) (a : BitVec 16), Gen.AssertMacros.M_CHECK_COMPARE_eq_i16_i16 e a = CHECK_COMPARE_int .eq ⟨⟨16, true⟩, valueAt true e⟩ ⟨⟨16, true⟩, valueAt true a⟩) ∧
    (∀ (e : BitVec 16) (a : BitVec 16), Gen.AssertMacros.M_CHECK_COMPARE_eq_u16_u16 e a = CHECK_COMPARE_int .eq ⟨⟨16, false⟩, valueAt false e⟩ ⟨⟨16, false⟩, valueAt false a⟩) ∧
    (∀ (e : BitVec 32) (a : BitVec 32), Gen.AssertMacros.M_CHECK_COMPARE_eq_i32_i32 e a = CHECK_COMPARE_int .eq ⟨⟨32, true⟩, valueAt true e⟩ ⟨⟨32, true⟩, valueAt true a⟩) ∧
    (∀ (e : BitVec 32) (a : BitVec 32), Gen.AssertMacros.M_CHECK_COMPARE_eq_u32_u32 e a = CHECK_COMPARE_int .eq ⟨⟨32, false⟩, valueAt false e⟩ ⟨⟨32, false⟩, valueAt false a⟩) ∧
    (∀ (e : BitVec 64) (a : BitVec 64), Gen.AssertMacros.M_CHECK_COMPARE_eq_i64_i64 e a = CHECK_COMPARE_int .eq ⟨⟨64, true⟩, valueAt true e⟩ ⟨⟨64, true⟩, valueAt true a⟩) ∧
    (∀ (e : BitVec 64) (a : BitVec 64), Gen.AssertMacros.M_CHECK_COMPARE_eq_u64_u64 e a = CHECK_COMPARE_int .eq ⟨⟨64, false⟩, valueAt false e⟩ ⟨⟨64, false⟩, valueAt false a⟩) := by
  refine ⟨?_, ?_, ?_, ?_, ?_, ?_, ?_, ?_⟩ <;> intros <;>
    psimp [Gen.AssertMacros.M_CHECK_COMPARE_eq_i8_i8, Gen.AssertMacros.M_CHECK_COMPARE_eq_u8_u8, Gen.AssertMacros.M_CHECK_COMPARE_eq_i16_i16, Gen.AssertMacros.M_CHECK_COMPARE_eq_u16_u16, Gen.AssertMacros.M_CHECK_COMPARE_eq_i32_i32, Gen.AssertMacros.M_CHECK_COMPARE_eq_u32_u32, Gen.AssertMacros.M_CHECK_COMPARE_eq_i64_i64, Gen.AssertMacros.M_CHECK_COMPARE_eq_u64_u64]

theorem gen_macro_CHECK_COMPARE_ne :
    (∀ (e : BitVec 8) (a : BitVec 8), Gen.AssertMacros.M_CHECK_COMPARE_ne_i8_i8 e a = CHECK_COMPARE_int .ne ⟨⟨8, true⟩, valueAt true e⟩ ⟨⟨8, true⟩, valueAt true a⟩) ∧
    (∀ (e : BitVec 8) (a : BitVec 8), Gen.AssertMacros.M_CHECK_COMPARE_ne_u8_u8 e a = CHECK_COMPARE_int .ne ⟨⟨8, false⟩, valueAt false e⟩ ⟨⟨8, false⟩, valueAt false a⟩) ∧
    (∀ (e : BitVec 16) (a : BitVec 16), Gen.AssertMacros.M_CHECK_COMPARE_ne_i16_i16 e a = CHECK_COMPARE_int .ne ⟨⟨16, true⟩, valueAt true e⟩ ⟨⟨16, true⟩, valueAt true a⟩) ∧
    (∀ (e : BitVec 16) (a : BitVec 16), Gen.AssertMacros.M_CHECK_COMPARE_ne_u16_u16 e a = CHECK_COMPARE_int .ne ⟨⟨16, false⟩, valueAt false e⟩ ⟨⟨16, false⟩, valueAt false a⟩) ∧
    (∀ (e : BitVec 32) (a : BitVec 32), Gen.AssertMacros.M_CHECK_COMPARE_ne_i32_i32 e a = CHECK_COMPARE_int .ne ⟨⟨32, true⟩, valueAt true e⟩ ⟨⟨32, true⟩, valueAt true a⟩) ∧
    (∀ (e : BitVec 32) (a : BitVec 32), Gen.AssertMacros.M_CHECK_COMPARE_ne_u32_u32 e a = CHECK_COMPARE_int .ne ⟨⟨32, false⟩, valueAt false e⟩ ⟨⟨32, false⟩, valueAt false a⟩) ∧
    (∀ (e : BitVec 64) (a : BitVec 64), Gen.AssertMacros.M_CHECK_COMPARE_ne_i64_i64 e a = CHECK_COMPARE_int .ne ⟨⟨64, true⟩, valueAt true e⟩ ⟨⟨64, true⟩, valueAt true a⟩) ∧
    (∀ (e : BitVec 64) (a : BitVec 64), Gen.AssertMacros.M_CHECK_COMPARE_ne_u64_u64 e a = CHECK_COMPARE_int .ne ⟨⟨64, false⟩, valueAt false e⟩ ⟨⟨64, false⟩, valueAt false a⟩) := by
  refine ⟨?_, ?_, ?_, ?_, ?_, ?_, ?_, ?_⟩ <;> intros <;>
    psimp [Gen.AssertMacros.M_CHECK_COMPARE_ne_i8_i8, Gen.AssertMacros.M_CHECK_COMPARE_ne_u8_u8, Gen.AssertMacros.M_CHECK_COMPARE_ne_i16_i16, Gen.AssertMacros.M_CHECK_COMPARE_ne_u16_u16, Gen.AssertMacros.M_CHECK_COMPARE_ne_i32_i32, Gen.AssertMacros.M_CHECK_COMPARE_ne_u32_u32, Gen.AssertMacros.M_CHECK_COMPARE_ne_i64_i64, Gen.AssertMacros.M_CHECK_COMPARE_ne_u64_u64]

theorem gen_macro_ENUMS_EQUAL_TYPE :
    (∀ (e a : BitVec 8), Gen.AssertMacros.M_ENUMS_EQUAL_TYPE_i8_i8 e a = ENUMS_EQUAL_TYPE 8 (valueAt true e) (valueAt true a)) ∧
    (∀ (e a : BitVec 8), Gen.AssertMacros.M_ENUMS_EQUAL_TYPE_i8_u8 e a = ENUMS_EQUAL_TYPE 8 (valueAt false e) (valueAt false a)) ∧
    (∀ (e a : BitVec 16), Gen.AssertMacros.M_ENUMS_EQUAL_TYPE_i8_i16 e a = ENUMS_EQUAL_TYPE 8 (valueAt true e) (valueAt true a)) ∧
    (∀ (e a : BitVec 16), Gen.AssertMacros.M_ENUMS_EQUAL_TYPE_i8_u16 e a = ENUMS_EQUAL_TYPE 8 (valueAt false e) (valueAt false a)) ∧
    (∀ (e a : BitVec 32), Gen.AssertMacros.M_ENUMS_EQUAL_TYPE_i8_i32 e a = ENUMS_EQUAL_TYPE 8 (valueAt true e) (valueAt true a)) ∧
    (∀ (e a : BitVec 32), Gen.AssertMacros.M_ENUMS_EQUAL_TYPE_i8_u32 e a = ENUMS_EQUAL_TYPE 8 (valueAt false e) (valueAt false a)) ∧
    (∀ (e a : BitVec 64), Gen.AssertMacros.M_ENUMS_EQUAL_TYPE_i8_i64 e a = ENUMS_EQUAL_TYPE 8 (valueAt true e) (valueAt true a)) ∧
    (∀ (e a : BitVec 64), Gen.AssertMacros.M_ENUMS_EQUAL_TYPE_i8_u64 e a = ENUMS_EQUAL_TYPE 8 (valueAt false e) (valueAt false a)) ∧
    (∀ (e a : BitVec 8), Gen.AssertMacros.M_ENUMS_EQUAL_TYPE_u8_i8 e a = ENUMS_EQUAL_TYPE 8 (valueAt true e) (valueAt true a)) ∧
    (∀ (e a : BitVec 8), Gen.AssertMacros.M_ENUMS_EQUAL_TYPE_u8_u8 e a = ENUMS_EQUAL_TYPE 8 (valueAt false e) (valueAt false a)) ∧
    (∀ (e a : BitVec 16), Gen.AssertMacros.M_ENUMS_EQUAL_TYPE_u8_i16 e a = ENUMS_EQUAL_TYPE 8 (valueAt true e) (valueAt true a)) ∧
    (∀ (e a : BitVec 16), Gen.AssertMacros.M_ENUMS_EQUAL_TYPE_u8_u16 e a = ENUMS_EQUAL_TYPE 8 (valueAt false e) (valueAt false a)) ∧
    (∀ (e a : BitVec 32), Gen.AssertMacros.M_ENUMS_EQUAL_TYPE_u8_i32 e a = ENUMS_EQUAL_TYPE 8 (valueAt true e) (valueAt true a)) ∧
    (∀ (e a : BitVec 32), Gen.AssertMacros.M_ENUMS_EQUAL_TYPE_u8_u32 e a = ENUMS_EQUAL_TYPE 8 (valueAt false e) (valueAt false a)) ∧
    (∀ (e a : BitVec 64), Gen.AssertMacros.M_ENUMS_EQUAL_TYPE_u8_i64 e a = ENUMS_EQUAL_TYPE 8 (valueAt true e) (valueAt true a)) ∧
    (∀ (e a : BitVec 64), Gen.AssertMacros.M_ENUMS_EQUAL_TYPE_u8_u64 e a = ENUMS_EQUAL_TYPE 8 (valueAt false e) (valueAt false a)) ∧
    (∀ (e a : BitVec 8), Gen.AssertMacros.M_ENUMS_EQUAL_TYPE_i16_i8 e a = ENUMS_EQUAL_TYPE 16 (valueAt true e) (valueAt true a)) ∧
    (∀ (e a : BitVec 8), Gen.AssertMacros.M_ENUMS_EQUAL_TYPE_i16_u8 e a = ENUMS_EQUAL_TYPE 16 (valueAt false e) (valueAt false a)) ∧
    (∀ (e a : BitVec 16), Gen.AssertMacros.M_ENUMS_EQUAL_TYPE_i16_i16 e a = ENUMS_EQUAL_TYPE 16 (valueAt true e) (valueAt true a)) ∧
    (∀ (e a : BitVec 16), Gen.AssertMacros.M_ENUMS_EQUAL_TYPE_i16_u16 e a = ENUMS_EQUAL_TYPE 16 (valueAt false e) (valueAt false a)) ∧
    (∀ (e a : BitVec 32), Gen.AssertMacros.M_ENUMS_EQUAL_TYPE_i16_i32 e a = ENUMS_EQUAL_TYPE 16 (valueAt true e) (valueAt true a)) ∧
    (∀ (e a : BitVec 32), Gen.AssertMacros.M_ENUMS_EQUAL_TYPE_i16_u32 e a = ENUMS_EQUAL_TYPE 16 (valueAt false e) (valueAt false a)) ∧
    (∀ (e a : BitVec 64), Gen.AssertMacros.M_ENUMS_EQUAL_TYPE_i16_i64 e a = ENUMS_EQUAL_TYPE 16 (valueAt true e) (valueAt true a)) ∧
    (∀ (e a : BitVec 64), Gen.AssertMacros.M_ENUMS_EQUAL_TYPE_i16_u64 e a = ENUMS_EQUAL_TYPE 16 (valueAt false e) (valueAt false a)) ∧
    (∀ (e a : BitVec 8), Gen.AssertMacros.M_ENUMS_EQUAL_TYPE_u16_i8 e a = ENUMS_EQUAL_TYPE 16 (valueAt true e) (valueAt true a)) ∧
    (∀ (e a : BitVec 8), Gen.AssertMacros.M_ENUMS_EQUAL_TYPE_u16_u8 e a = ENUMS_EQUAL_TYPE 16 (valueAt false e) (valueAt false a)) ∧
    (∀ (e a : BitVec 16), Gen.AssertMacros.M_ENUMS_EQUAL_TYPE_u16_i16 e a = ENUMS_EQUAL_TYPE 16 (valueAt true e) (valueAt true a)) ∧
    (∀ (e a : BitVec 16), Gen.AssertMacros.M_ENUMS_EQUAL_TYPE_u16_u16 e a = ENUMS_EQUAL_TYPE 16 (valueAt false e) (valueAt false a)) ∧
    (∀ (e a : BitVec 32), Gen.AssertMacros.M_ENUMS_EQUAL_TYPE_u16_i32 e a = ENUMS_EQUAL_TYPE 16 (valueAt true e) (valueAt true a)) ∧
    (∀ (e a : BitVec 32), Gen.AssertMacros.M_ENUMS_EQUAL_TYPE_u16_u32 e a = ENUMS_EQUAL_TYPE 16 (valueAt false e) (valueAt false a)) ∧
    (∀ (e a : BitVec 64), Gen.AssertMacros.M_ENUMS_EQUAL_TYPE_u16_i64 e a = ENUMS_EQUAL_TYPE 16 (valueAt true e) (valueAt true a)) ∧
    (∀ (e a : BitVec 64), Gen.AssertMacros.M_ENUMS_EQUAL_TYPE_u16_u64 e a = ENUMS_EQUAL_TYPE 16 (valueAt false e) (valueAt false a)) ∧
    (∀ (e a : BitVec 8), Gen.AssertMacros.M_ENUMS_EQUAL_TYPE_i32_i8 e a = ENUMS_EQUAL_TYPE 32 (valueAt true e) (valueAt true a)) ∧
    (∀ (e a : BitVec 8), Gen.AssertMacros.M_ENUMS_EQUAL_TYPE_i32_u8 e a = ENUMS_EQUAL_TYPE 32 (valueAt false e) (valueAt false a)) ∧
    (∀ (e a : BitVec 16), Gen.AssertMacros.M_ENUMS_EQUAL_TYPE_i32_i16 e a = ENUMS_EQUAL_TYPE 32 (valueAt true e) (valueAt true a)) ∧
    (∀ (e a : BitVec 16), Gen.AssertMacros.M_ENUMS_EQUAL_TYPE_i32_u16 e a = ENUMS_EQUAL_TYPE 32 (valueAt false e) (valueAt false a)) ∧
    (∀ (e a : BitVec 32), Gen.AssertMacros.M_ENUMS_EQUAL_TYPE_i32_i32 e a = ENUMS_EQUAL_TYPE 32 (valueAt true e) (valueAt true a)) ∧
    (∀ (e a : BitVec 32), Gen.AssertMacros.M_ENUMS_EQUAL_TYPE_i32_u32 e a = ENUMS_EQUAL_TYPE 32 (valueAt false e) (valueAt false a)) ∧
    (∀ (e a : BitVec 64), Gen.AssertMacros.M_ENUMS_EQUAL_TYPE_i32_i64 e a = ENUMS_EQUAL_TYPE 32 (valueAt true e) (valueAt true a)) ∧
    (∀ (e a : BitVec 64), Gen.AssertMacros.M_ENUMS_EQUAL_TYPE_i32_u64 e a = ENUMS_EQUAL_TYPE 32 (valueAt false e) (valueAt false a)) ∧
    (∀ (e a : BitVec 8), Gen.AssertMacros.M_ENUMS_EQUAL_TYPE_u32_i8 e a = ENUMS_EQUAL_TYPE 32 (valueAt true e) (valueAt true a)) ∧
    (∀ (e a : BitVec 8), Gen.AssertMacros.M_ENUMS_EQUAL_TYPE_u32_u8 e a = ENUMS_EQUAL_TYPE 32 (valueAt false e) (valueAt false a)) ∧
    (∀ (e a : BitVec 16), Gen.AssertMacros.M_ENUMS_EQUAL_TYPE_u32_i16 e a = ENUMS_EQUAL_TYPE 32 (valueAt true e) (valueAt true a)) ∧
    (∀ (e a : BitVec 16), Gen.AssertMacros.M_ENUMS_EQUAL_TYPE_u32_u16 e a = ENUMS_EQUAL_TYPE 32 (valueAt false e) (valueAt false a)) ∧
    (∀ (e a : BitVec 32), Gen.AssertMacros.M_ENUMS_EQUAL_TYPE_u32_i32 e a = ENUMS_EQUAL_TYPE 32 (valueAt true e) (valueAt true a)) ∧
    (∀ (e a : BitVec 32), Gen.AssertMacros.M_ENUMS_EQUAL_TYPE_u32_u32 e a = ENUMS_EQUAL_TYPE 32 (valueAt false e) (valueAt false a)) ∧
    (∀ (e a : BitVec 64), Gen.AssertMacros.M_ENUMS_EQUAL_TYPE_u32_i64 e a = ENUMS_EQUAL_TYPE 32 (valueAt true e) (valueAt true a)) ∧
    (∀ (e a : BitVec 64), Gen.AssertMacros.M_ENUMS_EQUAL_TYPE_u32_u64 e a = ENUMS_EQUAL_TYPE 32 (valueAt false e) (valueAt false a)) ∧
    (∀ (e a : BitVec 8), Gen.AssertMacros.M_ENUMS_EQUAL_TYPE_i64_i8 e a = ENUMS_EQUAL_TYPE 64 (valueAt true e) (valueAt true a)) ∧
    (∀ (e a : BitVec 8), Gen.AssertMacros.M_ENUMS_EQUAL_TYPE_i64_u8 e a = ENUMS_EQUAL_TYPE 64 (valueAt false e) (valueAt false a)) ∧
    (∀ (e a : BitVec 16), Gen.AssertMacros.M_ENUMS_EQUAL_TYPE_i64_i16 e a = ENUMS_EQUAL_TYPE 64 (valueAt true e) (valueAt true a)) ∧
    (∀ (e a : BitVec 16), Gen.AssertMacros.M_ENUMS_EQUAL_TYPE_i64_u16 e a = ENUMS_EQUAL_TYPE 64 (valueAt false e) (valueAt false a)) ∧
    (∀ (e a : BitVec 32), Gen.AssertMacros.M_ENUMS_EQUAL_TYPE_i64_i32 e a = ENUMS_EQUAL_TYPE 64 (valueAt true e) (valueAt true a)) ∧
    (∀ (e a : BitVec 32), Gen.AssertMacros.M_ENUMS_EQUAL_TYPE_i64_u32 e a = ENUMS_EQUAL_TYPE 64 (valueAt false e) (valueAt false a)) ∧
    (∀ (e a : BitVec 64), Gen.AssertMacros.M_ENUMS_EQUAL_TYPE_i64_i64 e a = ENUMS_EQUAL_TYPE 64 (valueAt true e) (valueAt true a)) ∧
    (∀ (e a : BitVec 64), Gen.AssertMacros.M_ENUMS_EQUAL_TYPE_i64_u64 e a = ENUMS_EQUAL_TYPE 64 (valueAt false e) (valueAt false a)) ∧
    (∀ (e a : BitVec 8), Gen.AssertMacros.M_ENUMS_EQUAL_TYPE_u64_i8 e a = ENUMS_EQUAL_TYPE 64 (valueAt true e) (valueAt true a)) ∧
    (∀ (e a : BitVec 8), Gen.AssertMacros.M_ENUMS_EQUAL_TYPE_u64_u8 e a = ENUMS_EQUAL_TYPE 64 (valueAt false e) (valueAt false a)) ∧
    (∀ (e a : BitVec 16), Gen.AssertMacros.M_ENUMS_EQUAL_TYPE_u64_i16 e a = ENUMS_EQUAL_TYPE 64 (valueAt true e) (valueAt true a)) ∧
    (∀ (e a : BitVec 16), Gen.AssertMacros.M_ENUMS_EQUAL_TYPE_u64_u16 e a = ENUMS_EQUAL_TYPE 64 (valueAt false e) (valueAt false a)) ∧
    (∀ (e a : BitVec 32), Gen.AssertMacros.M_ENUMS_EQUAL_TYPE_u64_i32 e a = ENUMS_EQUAL_TYPE 64 (valueAt true e) (valueAt true a)) ∧
    (∀ (e a : BitVec 32), Gen.AssertMacros.M_ENUMS_EQUAL_TYPE_u64_u32 e a = ENUMS_EQUAL_TYPE 64 (valueAt false e) (valueAt false a)) ∧
    (∀ (e a : BitVec 64), Gen.AssertMacros.M_ENUMS_EQUAL_TYPE_u64_i64 e a = ENUMS_EQUAL_TYPE 64 (valueAt true e) (valueAt true a)) ∧
    (∀ (e a : BitVec 64), Gen.AssertMacros.M_ENUMS_EQUAL_TYPE_u64_u64 e a = ENUMS_EQUAL_TYPE 64 (valueAt false e) (valueAt false a)) ∧
    (∀ (e a : BitVec 32), Gen.AssertMacros.M_ENUMS_EQUAL_TYPE_TEXT_u16_i32 e a = ENUMS_EQUAL_TYPE 16 (valueAt true e) (valueAt true a)) := by
  refine ⟨?_, ?_, ?_, ?_, ?_, ?_, ?_, ?_, ?_, ?_, ?_, ?_, ?_, ?_, ?_, ?_, ?_, ?_, ?_, ?_, ?_, ?_, ?_, ?_, ?_, ?_, ?_, ?_, ?_, ?_, ?_, ?_, ?_, ?_, ?_, ?_, ?_, ?_, ?_, ?_, ?_, ?_, ?_, ?_, ?_, ?_, ?_, ?_, ?_, ?_, ?_, ?_, ?_, ?_, ?_, ?_, ?_, ?_, ?_, ?_, ?_, ?_, ?_, ?_, ?_⟩ <;> intros <;>
    psimp [Gen.AssertMacros.M_ENUMS_EQUAL_TYPE_i8_i8, Gen.AssertMacros.M_ENUMS_EQUAL_TYPE_i8_u8, Gen.AssertMacros.M_ENUMS_EQUAL_TYPE_i8_i16, Gen.AssertMacros.M_ENUMS_EQUAL_TYPE_i8_u16, Gen.AssertMacros.M_ENUMS_EQUAL_TYPE_i8_i32, Gen.AssertMacros.M_ENUMS_EQUAL_TYPE_i8_u32, Gen.AssertMacros.M_ENUMS_EQUAL_TYPE_i8_i64, Gen.AssertMacros.M_ENUMS_EQUAL_TYPE_i8_u64, Gen.AssertMacros.M_ENUMS_EQUAL_TYPE_u8_i8, Gen.AssertMacros.M_ENUMS_EQUAL_TYPE_u8_u8, Gen.AssertMacros.M_ENUMS_EQUAL_TYPE_u8_i16, Gen.AssertMacros.M_ENUMS_EQUAL_TYPE_u8_u16, Gen.AssertMacros.M_ENUMS_EQUAL_TYPE_u8_i32, Gen.AssertMacros.M_ENUMS_EQUAL_TYPE_u8_u32, Gen.AssertMacros.M_ENUMS_EQUAL_TYPE_u8_i64, Gen.AssertMacros.M_ENUMS_EQUAL_TYPE_u8_u64, Gen.AssertMacros.M_ENUMS_EQUAL_TYPE_i16_i8, Gen.AssertMacros.M_ENUMS_EQUAL_TYPE_i16_u8, Gen.AssertMacros.M_ENUMS_EQUAL_TYPE_i16_i16, Gen.AssertMacros.M_ENUMS_EQUAL_TYPE_i16_u16, Gen.AssertMacros.M_ENUMS_EQUAL_TYPE_i16_i32, Gen.AssertMacros.M_ENUMS_EQUAL_TYPE_i16_u32, Gen.AssertMacros.M_ENUMS_EQUAL_TYPE_i16_i64, Gen.AssertMacros.M_ENUMS_EQUAL_TYPE_i16_u64, Gen.AssertMacros.M_ENUMS_EQUAL_TYPE_u16_i8, Gen.AssertMacros.M_ENUMS_EQUAL_TYPE_u16_u8, Gen.AssertMacros.M_ENUMS_EQUAL_TYPE_u16_i16, Gen.AssertMacros.M_ENUMS_EQUAL_TYPE_u16_u16, Gen.AssertMacros.M_ENUMS_EQUAL_TYPE_u16_i32, Gen.AssertMacros.M_ENUMS_EQUAL_TYPE_u16_u32, Gen.AssertMacros.M_ENUMS_EQUAL_TYPE_u16_i64, Gen.AssertMacros.M_ENUMS_EQUAL_TYPE_u16_u64, Gen.AssertMacros.M_ENUMS_EQUAL_TYPE_i32_i8, Gen.AssertMacros.M_ENUMS_EQUAL_TYPE_i32_u8, Gen.AssertMacros.M_ENUMS_EQUAL_TYPE_i32_i16, Gen.AssertMacros.M_ENUMS_EQUAL_TYPE_i32_u16, Gen.AssertMacros.M_ENUMS_EQUAL_TYPE_i32_i32, Gen.AssertMacros.M_ENUMS_EQUAL_TYPE_i32_u32, Gen.AssertMacros.M_ENUMS_EQUAL_TYPE_i32_i64, Gen.AssertMacros.M_ENUMS_EQUAL_TYPE_i32_u64, Gen.AssertMacros.M_ENUMS_EQUAL_TYPE_u32_i8, Gen.AssertMacros.M_ENUMS_EQUAL_TYPE_u32_u8, Gen.AssertMacros.M_ENUMS_EQUAL_TYPE_u32_i16, Gen.AssertMacros.M_ENUMS_EQUAL_TYPE_u32_u16, Gen.AssertMacros.M_ENUMS_EQUAL_TYPE_u32_i32, Gen.AssertMacros.M_ENUMS_EQUAL_TYPE_u32_u32, Gen.AssertMacros.M_ENUMS_EQUAL_TYPE_u32_i64, Gen.AssertMacros.M_ENUMS_EQUAL_TYPE_u32_u64, Gen.AssertMacros.M_ENUMS_EQUAL_TYPE_i64_i8, Gen.AssertMacros.M_ENUMS_EQUAL_TYPE_i64_u8, Gen.AssertMacros.M_ENUMS_EQUAL_TYPE_i64_i16, Gen.AssertMacros.M_ENUMS_EQUAL_TYPE_i64_u16, Gen.AssertMacros.M_ENUMS_EQUAL_TYPE_i64_i32, Gen.AssertMacros.M_ENUMS_EQUAL_TYPE_i64_u32, Gen.AssertMacros.M_ENUMS_EQUAL_TYPE_i64_i64, Gen.AssertMacros.M_ENUMS_EQUAL_TYPE_i64_u64, Gen.AssertMacros.M_ENUMS_EQUAL_TYPE_u64_i8, Gen.AssertMacros.M_ENUMS_EQUAL_TYPE_u64_u8, Gen.AssertMacros.M_ENUMS_EQUAL_TYPE_u64_i16, Gen.AssertMacros.M_ENUMS_EQUAL_TYPE_u64_u16, Gen.AssertMacros.M_ENUMS_EQUAL_TYPE_u64_i32, Gen.AssertMacros.M_ENUMS_EQUAL_TYPE_u64_u32, Gen.AssertMacros.M_ENUMS_EQUAL_TYPE_u64_i64, Gen.AssertMacros.M_ENUMS_EQUAL_TYPE_u64_u64, Gen.AssertMacros.M_ENUMS_EQUAL_TYPE_TEXT_u16_i32]

theorem gen_macro_ENUMS_EQUAL_INT :
    (∀ (e a : BitVec 8), Gen.AssertMacros.M_ENUMS_EQUAL_INT_i8 e a = ENUMS_EQUAL_TYPE 32 (valueAt true e) (valueAt true a)) ∧
    (∀ (e a : BitVec 8), Gen.AssertMacros.M_ENUMS_EQUAL_INT_u8 e a = ENUMS_EQUAL_TYPE 32 (valueAt false e) (valueAt false a)) ∧
    (∀ (e a : BitVec 16), Gen.AssertMacros.M_ENUMS_EQUAL_INT_i16 e a = ENUMS_EQUAL_TYPE 32 (valueAt true e) (valueAt true a)) ∧
    (∀ (e a : BitVec 16), Gen.AssertMacros.M_ENUMS_EQUAL_INT_u16 e a = ENUMS_EQUAL_TYPE 32 (valueAt false e) (valueAt false a)) ∧
    (∀ (e a : BitVec 32), Gen.AssertMacros.M_ENUMS_EQUAL_INT_i32 e a = ENUMS_EQUAL_TYPE 32 (valueAt true e) (valueAt true a)) ∧
    (∀ (e a : BitVec 32), Gen.AssertMacros.M_ENUMS_EQUAL_INT_u32 e a = ENUMS_EQUAL_TYPE 32 (valueAt false e) (valueAt false a)) ∧
    (∀ (e a : BitVec 64), Gen.AssertMacros.M_ENUMS_EQUAL_INT_i64 e a = ENUMS_EQUAL_TYPE 32 (valueAt true e) (valueAt true a)) ∧
    (∀ (e a : BitVec 64), Gen.AssertMacros.M_ENUMS_EQUAL_INT_u64 e a = ENUMS_EQUAL_TYPE 32 (valueAt false e) (valueAt false a)) ∧
    (∀ (e a : BitVec 32), Gen.AssertMacros.M_ENUMS_EQUAL_INT_TEXT_i32 e a = ENUMS_EQUAL_TYPE 32 (valueAt true e) (valueAt true a)) := by
  refine ⟨?_, ?_, ?_, ?_, ?_, ?_, ?_, ?_, ?_⟩ <;> intros <;>
    psimp [Gen.AssertMacros.M_ENUMS_EQUAL_INT_i8, Gen.AssertMacros.M_ENUMS_EQUAL_INT_u8, Gen.AssertMacros.M_ENUMS_EQUAL_INT_i16, Gen.AssertMacros.M_ENUMS_EQUAL_INT_u16, Gen.AssertMacros.M_ENUMS_EQUAL_INT_i32, Gen.AssertMacros.M_ENUMS_EQUAL_INT_u32, Gen.AssertMacros.M_ENUMS_EQUAL_INT_i64, Gen.AssertMacros.M_ENUMS_EQUAL_INT_u64, Gen.AssertMacros.M_ENUMS_EQUAL_INT_TEXT_i32]

theorem gen_macro_BITS_EQUAL :
    (∀ (e a : BitVec 8) (m : BitVec 32), Gen.AssertMacros.M_BITS_EQUAL_i8_i32 e a m = BITS_EQUAL (valueAt true e) (valueAt true a) (valueAt true m) 1) ∧
    (∀ (e a : BitVec 8) (m : BitVec 8), Gen.AssertMacros.M_BITS_EQUAL_i8_u8 e a m = BITS_EQUAL (valueAt true e) (valueAt true a) (valueAt false m) 1) ∧
    (∀ (e a : BitVec 8) (m : BitVec 64), Gen.AssertMacros.M_BITS_EQUAL_i8_u64 e a m = BITS_EQUAL (valueAt true e) (valueAt true a) (valueAt false m) 1) ∧
    (∀ (e a : BitVec 8) (m : BitVec 32), Gen.AssertMacros.M_BITS_EQUAL_u8_i32 e a m = BITS_EQUAL (valueAt false e) (valueAt false a) (valueAt true m) 1) ∧
    (∀ (e a : BitVec 8) (m : BitVec 8), Gen.AssertMacros.M_BITS_EQUAL_u8_u8 e a m = BITS_EQUAL (valueAt false e) (valueAt false a) (valueAt false m) 1) ∧
    (∀ (e a : BitVec 8) (m : BitVec 64), Gen.AssertMacros.M_BITS_EQUAL_u8_u64 e a m = BITS_EQUAL (valueAt false e) (valueAt false a) (valueAt false m) 1) ∧
    (∀ (e a : BitVec 16) (m : BitVec 32), Gen.AssertMacros.M_BITS_EQUAL_i16_i32 e a m = BITS_EQUAL (valueAt true e) (valueAt true a) (valueAt true m) 2) ∧
    (∀ (e a : BitVec 16) (m : BitVec 8), Gen.AssertMacros.M_BITS_EQUAL_i16_u8 e a m = BITS_EQUAL (valueAt true e) (valueAt true a) (valueAt false m) 2) ∧
    (∀ (e a : BitVec 16) (m : BitVec 64), Gen.AssertMacros.M_BITS_EQUAL_i16_u64 e a m = BITS_EQUAL (valueAt true e) (valueAt true a) (valueAt false m) 2) ∧
    (∀ (e a : BitVec 16) (m : BitVec 32), Gen.AssertMacros.M_BITS_EQUAL_u16_i32 e a m = BITS_EQUAL (valueAt false e) (valueAt false a) (valueAt true m) 2) ∧
    (∀ (e a : BitVec 16) (m : BitVec 8), Gen.AssertMacros.M_BITS_EQUAL_u16_u8 e a m = BITS_EQUAL (valueAt false e) (valueAt false a) (valueAt false m) 2) ∧
    (∀ (e a : BitVec 16) (m : BitVec 64), Gen.AssertMacros.M_BITS_EQUAL_u16_u64 e a m = BITS_EQUAL (valueAt false e) (valueAt false a) (valueAt false m) 2) ∧
    (∀ (e a : BitVec 32) (m : BitVec 32), Gen.AssertMacros.M_BITS_EQUAL_i32_i32 e a m = BITS_EQUAL (valueAt true e) (valueAt true a) (valueAt true m) 4) ∧
    (∀ (e a : BitVec 32) (m : BitVec 8), Gen.AssertMacros.M_BITS_EQUAL_i32_u8 e a m = BITS_EQUAL (valueAt true e) (valueAt true a) (valueAt false m) 4) ∧
    (∀ (e a : BitVec 32) (m : BitVec 64), Gen.AssertMacros.M_BITS_EQUAL_i32_u64 e a m = BITS_EQUAL (valueAt true e) (valueAt true a) (valueAt false m) 4) ∧
    (∀ (e a : BitVec 32) (m : BitVec 32), Gen.AssertMacros.M_BITS_EQUAL_u32_i32 e a m = BITS_EQUAL (valueAt false e) (valueAt false a) (valueAt true m) 4) ∧
    (∀ (e a : BitVec 32) (m : BitVec 8), Gen.AssertMacros.M_BITS_EQUAL_u32_u8 e a m = BITS_EQUAL (valueAt false e) (valueAt false a) (valueAt false m) 4) ∧
    (∀ (e a : BitVec 32) (m : BitVec 64), Gen.AssertMacros.M_BITS_EQUAL_u32_u64 e a m = BITS_EQUAL (valueAt false e) (valueAt false a) (valueAt false m) 4) ∧
    (∀ (e a : BitVec 64) (m : BitVec 32), Gen.AssertMacros.M_BITS_EQUAL_i64_i32 e a m = BITS_EQUAL (valueAt true e) (valueAt true a) (valueAt true m) 8) ∧
    (∀ (e a : BitVec 64) (m : BitVec 8), Gen.AssertMacros.M_BITS_EQUAL_i64_u8 e a m = BITS_EQUAL (valueAt true e) (valueAt true a) (valueAt false m) 8) ∧
    (∀ (e a : BitVec 64) (m : BitVec 64), Gen.AssertMacros.M_BITS_EQUAL_i64_u64 e a m = BITS_EQUAL (valueAt true e) (valueAt true a) (valueAt false m) 8) ∧
    (∀ (e a : BitVec 64) (m : BitVec 32), Gen.AssertMacros.M_BITS_EQUAL_u64_i32 e a m = BITS_EQUAL (valueAt false e) (valueAt false a) (valueAt true m) 8) ∧
    (∀ (e a : BitVec 64) (m : BitVec 8), Gen.AssertMacros.M_BITS_EQUAL_u64_u8 e a m = BITS_EQUAL (valueAt false e) (valueAt false a) (valueAt false m) 8) ∧
    (∀ (e a : BitVec 64) (m : BitVec 64), Gen.AssertMacros.M_BITS_EQUAL_u64_u64 e a m = BITS_EQUAL (valueAt false e) (valueAt false a) (valueAt false m) 8) ∧
    (∀ (e a m : BitVec 32), Gen.AssertMacros.M_BITS_EQUAL_TEXT_i32_i32 e a m = BITS_EQUAL (valueAt true e) (valueAt true a) (valueAt true m) 4) := by
  refine ⟨?_, ?_, ?_, ?_, ?_, ?_, ?_, ?_, ?_, ?_, ?_, ?_, ?_, ?_, ?_, ?_, ?_, ?_, ?_, ?_, ?_, ?_, ?_, ?_, ?_⟩ <;> intros <;>
    psimp [Gen.AssertMacros.M_BITS_EQUAL_i8_i32, Gen.AssertMacros.M_BITS_EQUAL_i8_u8, Gen.AssertMacros.M_BITS_EQUAL_i8_u64, Gen.AssertMacros.M_BITS_EQUAL_u8_i32, Gen.AssertMacros.M_BITS_EQUAL_u8_u8, Gen.AssertMacros.M_BITS_EQUAL_u8_u64, Gen.AssertMacros.M_BITS_EQUAL_i16_i32, Gen.AssertMacros.M_BITS_EQUAL_i16_u8, Gen.AssertMacros.M_BITS_EQUAL_i16_u64, Gen.AssertMacros.M_BITS_EQUAL_u16_i32, Gen.AssertMacros.M_BITS_EQUAL_u16_u8, Gen.AssertMacros.M_BITS_EQUAL_u16_u64, Gen.AssertMacros.M_BITS_EQUAL_i32_i32, Gen.AssertMacros.M_BITS_EQUAL_i32_u8, Gen.AssertMacros.M_BITS_EQUAL_i32_u64, Gen.AssertMacros.M_BITS_EQUAL_u32_i32, Gen.AssertMacros.M_BITS_EQUAL_u32_u8, Gen.AssertMacros.M_BITS_EQUAL_u32_u64, Gen.AssertMacros.M_BITS_EQUAL_i64_i32, Gen.AssertMacros.M_BITS_EQUAL_i64_u8, Gen.AssertMacros.M_BITS_EQUAL_i64_u64, Gen.AssertMacros.M_BITS_EQUAL_u64_i32, Gen.AssertMacros.M_BITS_EQUAL_u64_u8, Gen.AssertMacros.M_BITS_EQUAL_u64_u64, Gen.AssertMacros.M_BITS_EQUAL_TEXT_i32_i32]

theorem gen_macro_CHECK_EQUAL_C_BITS :
    (∀ (e a : BitVec 8) (m : BitVec 32), Gen.AssertMacros.M_CHECK_EQUAL_C_BITS_i8_i32 e a m = CHECK_EQUAL_C_BITS (valueAt true e) (valueAt true a) (valueAt true m) 1) ∧
    (∀ (e a : BitVec 8) (m : BitVec 8), Gen.AssertMacros.M_CHECK_EQUAL_C_BITS_i8_u8 e a m = CHECK_EQUAL_C_BITS (valueAt true e) (valueAt true a) (valueAt false m) 1) ∧
    (∀ (e a : BitVec 8) (m : BitVec 64), Gen.AssertMacros.M_CHECK_EQUAL_C_BITS_i8_u64 e a m = CHECK_EQUAL_C_BITS (valueAt true e) (valueAt true a) (valueAt false m) 1) ∧
    (∀ (e a : BitVec 8) (m : BitVec 32), Gen.AssertMacros.M_CHECK_EQUAL_C_BITS_u8_i32 e a m = CHECK_EQUAL_C_BITS (valueAt false e) (valueAt false a) (valueAt true m) 1) ∧
    (∀ (e a : BitVec 8) (m : BitVec 8), Gen.AssertMacros.M_CHECK_EQUAL_C_BITS_u8_u8 e a m = CHECK_EQUAL_C_BITS (valueAt false e) (valueAt false a) (valueAt false m) 1) ∧
    (∀ (e a : BitVec 8) (m : BitVec 64), Gen.AssertMacros.M_CHECK_EQUAL_C_BITS_u8_u64 e a m = CHECK_EQUAL_C_BITS (valueAt false e) (valueAt false a) (valueAt false m) 1) ∧
    (∀ (e a : BitVec 16) (m : BitVec 32), Gen.AssertMacros.M_CHECK_EQUAL_C_BITS_i16_i32 e a m = CHECK_EQUAL_C_BITS (valueAt true e) (valueAt true a) (valueAt true m) 2) ∧
    (∀ (e a : BitVec 16) (m : BitVec 8), Gen.AssertMacros.M_CHECK_EQUAL_C_BITS_i16_u8 e a m = CHECK_EQUAL_C_BITS (valueAt true e) (valueAt true a) (valueAt false m) 2) ∧
    (∀ (e a : BitVec 16) (m : BitVec 64), Gen.AssertMacros.M_CHECK_EQUAL_C_BITS_i16_u64 e a m = CHECK_EQUAL_C_BITS (valueAt true e) (valueAt true a) (valueAt false m) 2) ∧
    (∀ (e a : BitVec 16) (m : BitVec 32), Gen.AssertMacros.M_CHECK_EQUAL_C_BITS_u16_i32 e a m = CHECK_EQUAL_C_BITS (valueAt false e) (valueAt false a) (valueAt true m) 2) ∧
    (∀ (e a : BitVec 16) (m : BitVec 8), Gen.AssertMacros.M_CHECK_EQUAL_C_BITS_u16_u8 e a m = CHECK_EQUAL_C_BITS (valueAt false e) (valueAt false a) (valueAt false m) 2) ∧
    (∀ (e a : BitVec 16) (m : BitVec 64), Gen.AssertMacros.M_CHECK_EQUAL_C_BITS_u16_u64 e a m = CHECK_EQUAL_C_BITS (valueAt false e) (valueAt false a) (valueAt false m) 2) ∧
    (∀ (e a : BitVec 32) (m : BitVec 32), Gen.AssertMacros.M_CHECK_EQUAL_C_BITS_i32_i32 e a m = CHECK_EQUAL_C_BITS (valueAt true e) (valueAt true a) (valueAt true m) 4) ∧
    (∀ (e a : BitVec 32) (m : BitVec 8), Gen.AssertMacros.M_CHECK_EQUAL_C_BITS_i32_u8 e a m = CHECK_EQUAL_C_BITS (valueAt true e) (valueAt true a) (valueAt false m) 4) ∧
    (∀ (e a : BitVec 32) (m : BitVec 64), Gen.AssertMacros.M_CHECK_EQUAL_C_BITS_i32_u64 e a m = CHECK_EQUAL_C_BITS (valueAt true e) (valueAt true a) (valueAt false m) 4) ∧
    (∀ (e a : BitVec 32) (m : BitVec 32), Gen.AssertMacros.M_CHECK_EQUAL_C_BITS_u32_i32 e a m = CHECK_EQUAL_C_BITS (valueAt false e) (valueAt false a) (valueAt true m) 4) ∧
    (∀ (e a : BitVec 32) (m : BitVec 8), Gen.AssertMacros.M_CHECK_EQUAL_C_BITS_u32_u8 e a m = CHECK_EQUAL_C_BITS (valueAt false e) (valueAt false a) (valueAt false m) 4) ∧
    (∀ (e a : BitVec 32) (m : BitVec 64), Gen.AssertMacros.M_CHECK_EQUAL_C_BITS_u32_u64 e a m = CHECK_EQUAL_C_BITS (valueAt false e) (valueAt false a) (valueAt false m) 4) ∧
    (∀ (e a : BitVec 64) (m : BitVec 32), Gen.AssertMacros.M_CHECK_EQUAL_C_BITS_i64_i32 e a m = CHECK_EQUAL_C_BITS (valueAt true e) (valueAt true a) (valueAt true m) 8) ∧
    (∀ (e a : BitVec 64) (m : BitVec 8), Gen.AssertMacros.M_CHECK_EQUAL_C_BITS_i64_u8 e a m = CHECK_EQUAL_C_BITS (valueAt true e) (valueAt true a) (valueAt false m) 8) ∧
    (∀ (e a : BitVec 64) (m : BitVec 64), Gen.AssertMacros.M_CHECK_EQUAL_C_BITS_i64_u64 e a m = CHECK_EQUAL_C_BITS (valueAt true e) (valueAt true a) (valueAt false m) 8) ∧
    (∀ (e a : BitVec 64) (m : BitVec 32), Gen.AssertMacros.M_CHECK_EQUAL_C_BITS_u64_i32 e a m = CHECK_EQUAL_C_BITS (valueAt false e) (valueAt false a) (valueAt true m) 8) ∧
    (∀ (e a : BitVec 64) (m : BitVec 8), Gen.AssertMacros.M_CHECK_EQUAL_C_BITS_u64_u8 e a m = CHECK_EQUAL_C_BITS (valueAt false e) (valueAt false a) (valueAt false m) 8) ∧
    (∀ (e a : BitVec 64) (m : BitVec 64), Gen.AssertMacros.M_CHECK_EQUAL_C_BITS_u64_u64 e a m = CHECK_EQUAL_C_BITS (valueAt false e) (valueAt false a) (valueAt false m) 8) ∧
    (∀ (e a m : BitVec 32), Gen.AssertMacros.M_CHECK_EQUAL_C_BITS_TEXT_i32_i32 e a m = CHECK_EQUAL_C_BITS (valueAt true e) (valueAt true a) (valueAt true m) 4) := by
  refine ⟨?_, ?_, ?_, ?_, ?_, ?_, ?_, ?_, ?_, ?_, ?_, ?_, ?_, ?_, ?_, ?_, ?_, ?_, ?_, ?_, ?_, ?_, ?_, ?_, ?_⟩ <;> intros <;>
    psimp [Gen.AssertMacros.M_CHECK_EQUAL_C_BITS_i8_i32, Gen.AssertMacros.M_CHECK_EQUAL_C_BITS_i8_u8, Gen.AssertMacros.M_CHECK_EQUAL_C_BITS_i8_u64, Gen.AssertMacros.M_CHECK_EQUAL_C_BITS_u8_i32, Gen.AssertMacros.M_CHECK_EQUAL_C_BITS_u8_u8, Gen.AssertMacros.M_CHECK_EQUAL_C_BITS_u8_u64, Gen.AssertMacros.M_CHECK_EQUAL_C_BITS_i16_i32, Gen.AssertMacros.M_CHECK_EQUAL_C_BITS_i16_u8, Gen.AssertMacros.M_CHECK_EQUAL_C_BITS_i16_u64, Gen.AssertMacros.M_CHECK_EQUAL_C_BITS_u16_i32, Gen.AssertMacros.M_CHECK_EQUAL_C_BITS_u16_u8, Gen.AssertMacros.M_CHECK_EQUAL_C_BITS_u16_u64, Gen.AssertMacros.M_CHECK_EQUAL_C_BITS_i32_i32, Gen.AssertMacros.M_CHECK_EQUAL_C_BITS_i32_u8, Gen.AssertMacros.M_CHECK_EQUAL_C_BITS_i32_u64, Gen.AssertMacros.M_CHECK_EQUAL_C_BITS_u32_i32, Gen.AssertMacros.M_CHECK_EQUAL_C_BITS_u32_u8, Gen.AssertMacros.M_CHECK_EQUAL_C_BITS_u32_u64, Gen.AssertMacros.M_CHECK_EQUAL_C_BITS_i64_i32, Gen.AssertMacros.M_CHECK_EQUAL_C_BITS_i64_u8, Gen.AssertMacros.M_CHECK_EQUAL_C_BITS_i64_u64, Gen.AssertMacros.M_CHECK_EQUAL_C_BITS_u64_i32, Gen.AssertMacros.M_CHECK_EQUAL_C_BITS_u64_u8, Gen.AssertMacros.M_CHECK_EQUAL_C_BITS_u64_u64, Gen.AssertMacros.M_CHECK_EQUAL_C_BITS_TEXT_i32_i32]

/-- the C entry points of TestHarness_c.cpp (regenerated from the typed AST of their bodies) are the model's -/
theorem gen_c_entries {F : Type} (o : FinOps F) :
    (∀ e a : BitVec 32, Gen.AssertMacros.C.CHECK_EQUAL_C_BOOL_LOCATION e a = CHECK_EQUAL_C_BOOL e.toInt a.toInt) ∧
    (∀ e a : BitVec 32, Gen.AssertMacros.C.CHECK_EQUAL_C_INT_LOCATION e a = CHECK_EQUAL_C_INT e.toInt a.toInt) ∧
    (∀ e a : BitVec 32, Gen.AssertMacros.C.CHECK_EQUAL_C_UINT_LOCATION e a = CHECK_EQUAL_C_UINT e.toNat a.toNat) ∧
    (∀ e a : BitVec 64, Gen.AssertMacros.C.CHECK_EQUAL_C_LONG_LOCATION e a = CHECK_EQUAL_C_LONG e.toInt a.toInt) ∧
    (∀ e a : BitVec 64, Gen.AssertMacros.C.CHECK_EQUAL_C_ULONG_LOCATION e a = CHECK_EQUAL_C_ULONG e.toNat a.toNat) ∧
    (∀ e a : BitVec 64, Gen.AssertMacros.C.CHECK_EQUAL_C_LONGLONG_LOCATION e a = CHECK_EQUAL_C_LONGLONG e.toInt a.toInt) ∧
    (∀ e a : BitVec 64, Gen.AssertMacros.C.CHECK_EQUAL_C_ULONGLONG_LOCATION e a = CHECK_EQUAL_C_ULONGLONG e.toNat a.toNat) ∧
    (∀ e a t : D F, Gen.AssertMacros.C.CHECK_EQUAL_C_REAL_LOCATION o e a t = CHECK_EQUAL_C_REAL o e a t) ∧
    (∀ e a : BitVec 8, Gen.AssertMacros.C.CHECK_EQUAL_C_CHAR_LOCATION e a = CHECK_EQUAL_C_CHAR e.toInt a.toInt) ∧
    (∀ e a : BitVec 8, Gen.AssertMacros.C.CHECK_EQUAL_C_UBYTE_LOCATION e a = CHECK_EQUAL_C_UBYTE e.toNat a.toNat) ∧
    (∀ e a : BitVec 8, Gen.AssertMacros.C.CHECK_EQUAL_C_SBYTE_LOCATION e a = CHECK_EQUAL_C_SBYTE e.toInt a.toInt) ∧
    (∀ e a : Option Bytes, Gen.AssertMacros.C.CHECK_EQUAL_C_STRING_LOCATION e a = CHECK_EQUAL_C_STRING e a) ∧
    (∀ e a : BitVec 64, Gen.AssertMacros.C.CHECK_EQUAL_C_POINTER_LOCATION e a = CHECK_EQUAL_C_POINTER e a) ∧
    (∀ (e a : Option Bytes) (n : BitVec 64), Gen.AssertMacros.C.CHECK_EQUAL_C_MEMCMP_LOCATION e a n = CHECK_EQUAL_C_MEMCMP e a n.toNat) ∧
    (∀ (e a m : BitVec 32) (sz : BitVec 64), Gen.AssertMacros.C.CHECK_EQUAL_C_BITS_LOCATION e a m sz =
      CHECK_EQUAL_C_BITS e.toNat a.toNat m.toNat sz.toNat) ∧
    Gen.AssertMacros.C.FAIL_TEXT_C_LOCATION = FAIL_C ∧ Gen.AssertMacros.C.FAIL_C_LOCATION = FAIL_C ∧
    (∀ c : BitVec 32, Gen.AssertMacros.C.CHECK_C_LOCATION c = CHECK_C c.toInt) := by
  refine ⟨?_, ?_, ?_, ?_, ?_, ?_, ?_, ?_, ?_, ?_, ?_, ?_, ?_, ?_, ?_, ?_, ?_, ?_⟩ <;> intros <;>
    psimp [Gen.AssertMacros.C.CHECK_EQUAL_C_REAL_LOCATION, Gen.AssertMacros.C.CHECK_EQUAL_C_STRING_LOCATION,
      Gen.AssertMacros.C.CHECK_EQUAL_C_POINTER_LOCATION, Gen.AssertMacros.C.CHECK_EQUAL_C_MEMCMP_LOCATION,
      Gen.AssertMacros.C.FAIL_TEXT_C_LOCATION, Gen.AssertMacros.C.FAIL_C_LOCATION, CHECK_EQUAL_C_REAL, CHECK_EQUAL_C_STRING,
      CHECK_EQUAL_C_POINTER, CHECK_EQUAL_C_MEMCMP, FAIL_C, gen_assertDoublesEqual_eq, gen_assertCstrEqual_eq,
      gen_assertPointersEqual_eq, gen_assertBinaryEqual_eq, gen_fail_eq]

/-- the macros on strings, blocks, pointers, doubles and the operand-less ones, plain and `_TEXT`, C++ and C -/
theorem gen_macro_others {F : Type} (o : FinOps F) (e a : Option Bytes) (n x y : BitVec 64) (d1 d2 t : D F) :
    Gen.AssertMacros.M_STRCMP_EQUAL e a = STRCMP_EQUAL e a ∧ Gen.AssertMacros.M_STRCMP_EQUAL_TEXT e a = STRCMP_EQUAL e a ∧
    Gen.AssertMacros.M_STRNCMP_EQUAL e a n = STRNCMP_EQUAL e a n.toNat ∧
    Gen.AssertMacros.M_STRNCMP_EQUAL_TEXT e a n = STRNCMP_EQUAL e a n.toNat ∧
    Gen.AssertMacros.M_STRCMP_NOCASE_EQUAL e a = STRCMP_NOCASE_EQUAL e a ∧
    Gen.AssertMacros.M_STRCMP_NOCASE_EQUAL_TEXT e a = STRCMP_NOCASE_EQUAL e a ∧
    Gen.AssertMacros.M_STRCMP_CONTAINS e a = STRCMP_CONTAINS e a ∧ Gen.AssertMacros.M_STRCMP_CONTAINS_TEXT e a = STRCMP_CONTAINS e a ∧
    Gen.AssertMacros.M_STRCMP_NOCASE_CONTAINS e a = STRCMP_NOCASE_CONTAINS e a ∧
    Gen.AssertMacros.M_STRCMP_NOCASE_CONTAINS_TEXT e a = STRCMP_NOCASE_CONTAINS e a ∧
    Gen.AssertMacros.M_CHECK_EQUAL_C_STRING e a = CHECK_EQUAL_C_STRING e a ∧
    Gen.AssertMacros.M_CHECK_EQUAL_C_STRING_TEXT e a = CHECK_EQUAL_C_STRING e a ∧
    Gen.AssertMacros.M_MEMCMP_EQUAL e a n = MEMCMP_EQUAL e a n.toNat ∧ Gen.AssertMacros.M_MEMCMP_EQUAL_TEXT e a n = MEMCMP_EQUAL e a n.toNat ∧
    Gen.AssertMacros.M_CHECK_EQUAL_C_MEMCMP e a n = CHECK_EQUAL_C_MEMCMP e a n.toNat ∧
    Gen.AssertMacros.M_CHECK_EQUAL_C_MEMCMP_TEXT e a n = CHECK_EQUAL_C_MEMCMP e a n.toNat ∧
    Gen.AssertMacros.M_POINTERS_EQUAL x y = POINTERS_EQUAL x y ∧ Gen.AssertMacros.M_POINTERS_EQUAL_TEXT x y = POINTERS_EQUAL x y ∧
    Gen.AssertMacros.M_FUNCTIONPOINTERS_EQUAL x y = FUNCTIONPOINTERS_EQUAL x y ∧
    Gen.AssertMacros.M_FUNCTIONPOINTERS_EQUAL_TEXT x y = FUNCTIONPOINTERS_EQUAL x y ∧
    Gen.AssertMacros.M_CHECK_EQUAL_C_POINTER x y = CHECK_EQUAL_C_POINTER x y ∧
    Gen.AssertMacros.M_CHECK_EQUAL_C_POINTER_TEXT x y = CHECK_EQUAL_C_POINTER x y ∧
    Gen.AssertMacros.M_DOUBLES_EQUAL o d1 d2 t = DOUBLES_EQUAL o d1 d2 t ∧ Gen.AssertMacros.M_DOUBLES_EQUAL_TEXT o d1 d2 t = DOUBLES_EQUAL o d1 d2 t ∧
    Gen.AssertMacros.M_CHECK_EQUAL_C_REAL o d1 d2 t = CHECK_EQUAL_C_REAL o d1 d2 t ∧
    Gen.AssertMacros.M_CHECK_EQUAL_C_REAL_TEXT o d1 d2 t = CHECK_EQUAL_C_REAL o d1 d2 t ∧
    Gen.AssertMacros.M_FAIL = FAIL ∧ Gen.AssertMacros.M_FAIL_TEST = FAIL ∧ Gen.AssertMacros.M_FAIL_C = FAIL_C ∧
    Gen.AssertMacros.M_FAIL_TEXT_C = FAIL_C := by
  refine ⟨?_, ?_, ?_, ?_, ?_, ?_, ?_, ?_, ?_, ?_, ?_, ?_, ?_, ?_, ?_, ?_, ?_, ?_, ?_, ?_, ?_, ?_, ?_, ?_, ?_, ?_, ?_, ?_, ?_, ?_⟩ <;>
    psimp [Gen.AssertMacros.M_STRCMP_EQUAL, Gen.AssertMacros.M_STRCMP_EQUAL_TEXT, Gen.AssertMacros.M_STRNCMP_EQUAL,
      Gen.AssertMacros.M_STRNCMP_EQUAL_TEXT, Gen.AssertMacros.M_STRCMP_NOCASE_EQUAL, Gen.AssertMacros.M_STRCMP_NOCASE_EQUAL_TEXT,
      Gen.AssertMacros.M_STRCMP_CONTAINS, Gen.AssertMacros.M_STRCMP_CONTAINS_TEXT, Gen.AssertMacros.M_STRCMP_NOCASE_CONTAINS,
      Gen.AssertMacros.M_STRCMP_NOCASE_CONTAINS_TEXT, Gen.AssertMacros.M_CHECK_EQUAL_C_STRING, Gen.AssertMacros.M_CHECK_EQUAL_C_STRING_TEXT,
      Gen.AssertMacros.M_MEMCMP_EQUAL, Gen.AssertMacros.M_MEMCMP_EQUAL_TEXT, Gen.AssertMacros.M_CHECK_EQUAL_C_MEMCMP,
      Gen.AssertMacros.M_CHECK_EQUAL_C_MEMCMP_TEXT, Gen.AssertMacros.M_POINTERS_EQUAL, Gen.AssertMacros.M_POINTERS_EQUAL_TEXT,
      Gen.AssertMacros.M_FUNCTIONPOINTERS_EQUAL, Gen.AssertMacros.M_FUNCTIONPOINTERS_EQUAL_TEXT, Gen.AssertMacros.M_CHECK_EQUAL_C_POINTER,
      Gen.AssertMacros.M_CHECK_EQUAL_C_POINTER_TEXT, Gen.AssertMacros.M_DOUBLES_EQUAL, Gen.AssertMacros.M_DOUBLES_EQUAL_TEXT,
      Gen.AssertMacros.M_CHECK_EQUAL_C_REAL, Gen.AssertMacros.M_CHECK_EQUAL_C_REAL_TEXT, Gen.AssertMacros.M_FAIL, Gen.AssertMacros.M_FAIL_TEST,
      Gen.AssertMacros.M_FAIL_C, Gen.AssertMacros.M_FAIL_TEXT_C,
      Gen.AssertMacros.C.CHECK_EQUAL_C_REAL_LOCATION, Gen.AssertMacros.C.CHECK_EQUAL_C_STRING_LOCATION,
      Gen.AssertMacros.C.CHECK_EQUAL_C_POINTER_LOCATION, Gen.AssertMacros.C.CHECK_EQUAL_C_MEMCMP_LOCATION,
      Gen.AssertMacros.C.FAIL_TEXT_C_LOCATION, Gen.AssertMacros.C.FAIL_C_LOCATION, CHECK_EQUAL_C_REAL, CHECK_EQUAL_C_STRING,
      CHECK_EQUAL_C_POINTER, CHECK_EQUAL_C_MEMCMP, FAIL_C, FAIL, STRCMP_EQUAL, STRNCMP_EQUAL, STRCMP_NOCASE_EQUAL, STRCMP_CONTAINS,
      STRCMP_NOCASE_CONTAINS, MEMCMP_EQUAL, POINTERS_EQUAL, FUNCTIONPOINTERS_EQUAL, DOUBLES_EQUAL,
      gen_assertDoublesEqual_eq, gen_assertCstrEqual_eq, gen_assertCstrNEqual_eq, gen_assertCstrNoCaseEqual_eq,
      gen_assertCstrContains_eq, gen_assertCstrNoCaseContains_eq, gen_assertPointersEqual_eq, gen_assertFunctionPointersEqual_eq,
      gen_assertBinaryEqual_eq, gen_fail_eq]

/-! ### end-to-end corollaries: the property stated on the regenerated expansions themselves -/

/-- a value read from an `n` bit pattern at a type is representable in that type -/
theorem inRange_valueAt (w : Nat) (hw : 0 < w) (s : Bool) (x : BitVec w) : InRange ⟨w, s⟩ (valueAt s x) := by
  cases s
  · simp only [InRange, valueAt]
    have := x.isLt
    constructor
    · exact Int.natCast_nonneg _
    · have h : ((x.toNat : Nat) : Int) < ((2 ^ w : Nat) : Int) := Int.ofNat_lt.mpr this
      rwa [natCast_two_pow] at h
  · simp only [InRange, valueAt]
    have h1 := @BitVec.le_toInt w x
    have h2 := @BitVec.toInt_lt w x
    have e1 : ((2 ^ (w - 1) : Nat) : Int) = (2 : Int) ^ (w - 1) := natCast_two_pow _
    constructor
    · simpa [e1] using h1
    · simpa [e1] using h2

/-- `LONGS_EQUAL(e, a)` / `UNSIGNED_LONGS_EQUAL(e, a)` as the header expands them today, on two operands of the SAME
    integer type - any of the eight - fail exactly when the operands differ (the casts to (unsigned) long are injective
    on every operand type, including `unsigned long` → `long`) -/
theorem gen_LONGS_EQUAL_same_type_fails_iff :
    (∀ e a : BitVec 8, (Gen.AssertMacros.M_LONGS_EQUAL_i8 e a).fails = true ↔ e ≠ a) ∧
    (∀ e a : BitVec 8, (Gen.AssertMacros.M_LONGS_EQUAL_u8 e a).fails = true ↔ e ≠ a) ∧
    (∀ e a : BitVec 16, (Gen.AssertMacros.M_LONGS_EQUAL_i16 e a).fails = true ↔ e ≠ a) ∧
    (∀ e a : BitVec 16, (Gen.AssertMacros.M_LONGS_EQUAL_u16 e a).fails = true ↔ e ≠ a) ∧
    (∀ e a : BitVec 32, (Gen.AssertMacros.M_LONGS_EQUAL_i32 e a).fails = true ↔ e ≠ a) ∧
    (∀ e a : BitVec 32, (Gen.AssertMacros.M_LONGS_EQUAL_u32 e a).fails = true ↔ e ≠ a) ∧
    (∀ e a : BitVec 64, (Gen.AssertMacros.M_LONGS_EQUAL_i64 e a).fails = true ↔ e ≠ a) ∧
    (∀ e a : BitVec 64, (Gen.AssertMacros.M_LONGS_EQUAL_u64 e a).fails = true ↔ e ≠ a) ∧
    (∀ e a : BitVec 8, (Gen.AssertMacros.M_UNSIGNED_LONGS_EQUAL_i8 e a).fails = true ↔ e ≠ a) ∧
    (∀ e a : BitVec 32, (Gen.AssertMacros.M_UNSIGNED_LONGS_EQUAL_i32 e a).fails = true ↔ e ≠ a) ∧
    (∀ e a : BitVec 64, (Gen.AssertMacros.M_UNSIGNED_LONGS_EQUAL_i64 e a).fails = true ↔ e ≠ a) ∧
    (∀ e a : BitVec 64, (Gen.AssertMacros.M_UNSIGNED_LONGS_EQUAL_u64 e a).fails = true ↔ e ≠ a) := by
  refine ⟨?_, ?_, ?_, ?_, ?_, ?_, ?_, ?_, ?_, ?_, ?_, ?_⟩ <;> intros <;>
    simp [Gen.AssertMacros.M_LONGS_EQUAL_i8, Gen.AssertMacros.M_LONGS_EQUAL_u8, Gen.AssertMacros.M_LONGS_EQUAL_i16,
      Gen.AssertMacros.M_LONGS_EQUAL_u16, Gen.AssertMacros.M_LONGS_EQUAL_i32, Gen.AssertMacros.M_LONGS_EQUAL_u32,
      Gen.AssertMacros.M_LONGS_EQUAL_i64, Gen.AssertMacros.M_LONGS_EQUAL_u64, Gen.AssertMacros.M_UNSIGNED_LONGS_EQUAL_i8,
      Gen.AssertMacros.M_UNSIGNED_LONGS_EQUAL_i32, Gen.AssertMacros.M_UNSIGNED_LONGS_EQUAL_i64,
      Gen.AssertMacros.M_UNSIGNED_LONGS_EQUAL_u64, gen_assertLongsEqual_eq, gen_assertUnsignedLongsEqual_eq, assertLongsEqual,
      assertUnsignedLongsEqual, countThenFailIf, signExtend_eq_iff, setWidth_eq_iff]

/-- `CHECK_EQUAL` on a `signed char` and an `unsigned short` operand (both promote to `int`): fails exactly when the
    mathematical values differ -/
theorem gen_CHECK_EQUAL_i8_u16_fails_iff (e : BitVec 8) (a : BitVec 16) :
    (Gen.AssertMacros.M_CHECK_EQUAL_i8_u16 e a).fails = true ↔ e.toInt ≠ (a.toNat : Int) := by
  rw [gen_macro_CHECK_EQUAL.2.2.2.1 e a]
  exact CHECK_EQUAL_int_fails_iff_math _ _ (inRange_valueAt 8 (by decide) true e) (inRange_valueAt 16 (by decide) false a)
    (Or.inl rfl)

/-- `CHECK_EQUAL` on an `int` and an `unsigned int` operand: the language converts the `int` to unsigned before the
    macro sees it; mathematical equality is decided whenever the `int` is not negative … -/
theorem gen_CHECK_EQUAL_i32_u32_fails_iff (e a : BitVec 32) (h : 0 ≤ e.toInt) :
    (Gen.AssertMacros.M_CHECK_EQUAL_i32_u32 e a).fails = true ↔ e.toInt ≠ (a.toNat : Int) := by
  have hm := gen_macro_CHECK_EQUAL
  rw [hm.2.2.2.2.2.2.2.2.2.2.2.2.2.2.2.2.2.2.2.2.2.2.2.2.2.2.2.2.2.2.2.2.2.2.2.2.2.1 e a]
  exact CHECK_EQUAL_int_fails_iff_math _ _ (inRange_valueAt 32 (by decide) true e) (inRange_valueAt 32 (by decide) false a)
    (Or.inr ⟨h, Int.natCast_nonneg _⟩)

/-- … and only then: `CHECK_EQUAL(-1, 4294967295u)` passes (an observation about C++, reproduced by the typed AST) -/
theorem gen_CHECK_EQUAL_i32_u32_negative_witness :
    (Gen.AssertMacros.M_CHECK_EQUAL_i32_u32 (-1) 4294967295).fails = false := by decide

/-- `CHECK_COMPARE(e, <, a)` on two `int` operands: fails iff `e < a` is false, counted iff it fails -/
theorem gen_CHECK_COMPARE_lt_i32_i32 (e a : BitVec 32) :
    ((Gen.AssertMacros.M_CHECK_COMPARE_lt_i32_i32 e a).fails = true ↔ ¬ e.toInt < a.toInt) ∧
    (Gen.AssertMacros.M_CHECK_COMPARE_lt_i32_i32 e a).counted = if e.toInt < a.toInt then 0 else 1 := by
  simp only [Gen.AssertMacros.M_CHECK_COMPARE_lt_i32_i32, gen_assertCompare_eq, BitVec.slt]
  by_cases h : e.toInt < a.toInt <;> simp [h, assertCompare, countThenFailIf, nothing]

example : (Gen.AssertMacros.M_BYTES_EQUAL_i8 (-1) 0xff#8).fails = false := by decide
example : (Gen.AssertMacros.M_BYTES_EQUAL_i32 256 0).fails = false ∧ (Gen.AssertMacros.M_BYTES_EQUAL_i32 255 0).fails = true := by decide
example : (Gen.AssertMacros.M_CHECK_COMPARE_lt_i8_u32 (-1) 1).counted = 1 := by decide       -- -1 converts to 4294967295u
example : (Gen.AssertMacros.M_CHECK_COMPARE_lt_i8_u16 (-1) 1) = nothing := by decide          -- both promote to int
example : (Gen.AssertMacros.M_ENUMS_EQUAL_TYPE_u8_i32 256 0).fails = false := by decide       -- cast to the underlying type
example : (Gen.AssertMacros.M_CHECK_EQUAL_C_INT_i64 (2 ^ 32) 0).fails = false := by decide    -- converted to the int parameter
example : (Gen.AssertMacros.M_CHECK_C_i64 (2 ^ 32)).fails = true := by decide
example : (Gen.AssertMacros.M_BITS_EQUAL_i8_u64 (-1) 127 256).fails = true := by decide

/-! ## 12. non-vacuity: concrete operands on both sides of each rule -/

example : (LONGS_EQUAL (-1) (2 ^ 64 - 1)).fails = false := by decide      -- equal modulo 2^64 only
example : (LONGS_EQUAL (-1) (2 ^ 63 - 1)).fails = true := by decide
example : InRange tyLong (-(2 : Int) ^ 63) ∧ ¬ InRange tyLong ((2 : Int) ^ 63) := by decide
example : (BYTES_EQUAL ⟨⟨32, true⟩, -1⟩ ⟨⟨64, false⟩, 255⟩).fails = false := by decide
example : (BYTES_EQUAL ⟨⟨8, true⟩, -128⟩ ⟨⟨16, false⟩, 129⟩).fails = true := by decide
example : (CHECK_EQUAL_int ⟨⟨32, true⟩, -1⟩ ⟨⟨32, false⟩, 4294967295⟩).fails = false := by decide
example : ¬ InRange (common ⟨32, true⟩ ⟨32, false⟩) (-1) := by decide
example : (CHECK_EQUAL_int ⟨⟨32, true⟩, -1⟩ ⟨⟨64, true⟩, 4294967295⟩).fails = true := by decide
example : (CHECK_COMPARE_int .lt ⟨⟨8, true⟩, -1⟩ ⟨⟨16, false⟩, 1⟩).counted = 0 := by decide
example : (CHECK_COMPARE_int .lt ⟨⟨32, true⟩, -1⟩ ⟨⟨32, false⟩, 1⟩).counted = 1 := by decide
example : (CHECK_EQUAL_C_BOOL 5 1).fails = false ∧ (CHECK_EQUAL_C_BOOL 0 (2 ^ 32)).fails = false := by decide
example : (CHECK_C (2 ^ 32)).fails = true := by decide
example : (assertCstrEqual (some [97, 98]) (some [97, 98])).fails = false := by decide
example : (assertCstrEqual (some []) none).fails = true := by decide
example : NulFree [97, 98] ∧ ¬ NulFree [97, 0] := by decide
example : (assertCstrNEqual (some [97, 98, 99]) (some [97, 98, 100]) 2).fails = false := by decide
example : (assertCstrNEqual (some [97, 98, 99]) (some [97, 98, 100]) 3).fails = true := by decide
example : (assertCstrNoCaseEqual (some [65, 91]) (some [97, 91])).fails = false := by decide
example : (assertCstrNoCaseEqual (some [64]) (some [96])).fails = true := by decide     -- '@' vs '`'
example : (assertCstrContains (some [98]) (some [97, 98, 99])).fails = false := by decide
example : (assertCstrContains (some [97, 99]) (some [97, 98, 99])).fails = true := by decide
example : (assertBinaryEqual none (some [1, 2]) 2).fails = true := by decide
example : (assertBinaryEqual (some [1, 0, 3]) (some [1, 0, 4]) 2).fails = false := by decide
example : (BITS_EQUAL (-1) 127 128 1).fails = true ∧ (BITS_EQUAL (-1) 127 127 1).fails = false := by decide
example : (BITS_EQUAL (-1) 127 256 1).fails = true := by decide    -- sign extension is visible above the operand's width

/-- an interpretation of the finite arithmetic (integers) for the examples -/
def intOps : FinOps Int :=
  { sub := fun x y => .fin (x - y), abs := fun x => if x < 0 then -x else x, le := fun x y => decide (x ≤ y),
    pos := fun x => decide (0 < x) }

example : doublesEqual intOps (.fin 3) (.fin 5) (.fin 2) = true := by decide
example : doublesEqual intOps (.fin 3) (.fin 5) (.fin 1) = false := by decide
example : doublesEqual intOps (.inf false) (.inf false) (.fin 0) = true := by decide
example : doublesEqual intOps (.inf false) (.inf true) (.fin 1) = false := by decide
example : doublesEqual intOps (.inf false) (.fin 5) (.inf false) = true := by decide
example : doublesEqual intOps (.inf false) (.inf true) (.inf false) = true := by decide
example : doublesEqual intOps (.inf true) (.inf true) (.fin (-1)) = true := by decide

example : runBody [.check (LONGS_EQUAL 1 1), .check (CHECK_EQUAL_C_INT 1 2), .check (LONGS_EQUAL 1 2), .check FAIL] =
    { failures := 1, checks := 2, executed := 2 } := by decide
example : runBody [.check (CHECK_COMPARE_int .lt ⟨tyInt, 1⟩ ⟨tyInt, 2⟩), .exit, .check FAIL] =
    { failures := 0, checks := 0, executed := 2 } := by decide
example : (checkEqualRun tyInt (fun k => 5 + k) (fun _ => 6)).2 = { expected := 4, actual := 4, warnings := 1 } := by decide
example : (checkEqualRun tyInt (fun k => 5 + k) (fun k => 5 + k)).2 = { expected := 1, actual := 1, warnings := 0 } := by decide
example : (CHECK_THROWS .other).fails = true ∧ (CHECK_THROWS .expected).fails = false := by decide
example : (CHECK_EQUAL_ZERO ⟨⟨64, false⟩, 0⟩).fails = false ∧ (CHECK_EQUAL_ZERO ⟨⟨8, true⟩, -1⟩).fails = true := by decide

end Asserts
