import CppUModel.Proofs.ComposeThreadSafe
import CppUModel.Props.C04
import CppUModel.Props.C06
import CppUModel.Props.C10
/-!
# C10x — the outstanding-set detector of the C10 model is an abstraction of the C04 finite map and table

Composition theorems.  They connect

* `Model/ThreadSafe.lean` (C10): `ThreadSafe.Det` — the list of outstanding `(id, family)` pairs — with
  `ThreadSafe.body` (`alloc`, `free`, `realloc`; outcome `normal` / `misuse`), and
* `Spec/LeakDetector.lean` (C04): the finite map `address ⇀ record` with `Spec.step`, and through C04's
  `run_refines` / `inv_run` the table model `Model/LeakDetector.lean` with its reports (`Ev.fail`).

An operation of the C10 model is one *wrapper* of MemoryLeakWarningPlugin.cpp; on the table it is
`acquire` (`operator new` / `new[]` / `malloc`), `release` (`invalidateMemory` then `deallocMemory`) or
`reallocMemory` with the malloc allocator (`toOps`, `toOps_are_the_wrappers`).

`RS c m d` (`Proofs/ComposeThreadSafe.lean`): the map `m` has a record at an address iff `d` lists the id, the
record's allocator is the current allocator of the listed family, ids are distinct, type checking is on.
`R10 c s d`: the table state `s` satisfies `Inv` and `RS c (abs s) d`.

Two places where the two models do NOT agree are stated with witnesses (`…_differs`): a `realloc` whose
release check reports (the C10 model stops at the report as the `longjmp` does, the table model returns from the
report and stores the new block), and id `0` (the table model's `NULL`).
-/
namespace Compose.C10x
open LeakDetector Compose.TS
open ThreadSafe (Det DetOp Kind Outcome)

/-- what the table model additionally needs to know about a call -/
structure Env where
  size   : Nat
  file   : String
  line   : Nat
  nodeOk : Bool
  fill   : UInt8
deriving Repr, Inhabited

/-- `operator delete` / `delete[]` pass no location, `free` does -/
def relFile (e : Env) : Kind → String
  | .malloc => e.file
  | _ => "<unknown>"

def relLine (e : Env) : Kind → Nat
  | .malloc => e.line
  | _ => 0

/-- the table operations one wrapper performs -/
def toOps (c : Current) (e : Env) : DetOp → List Op
  | .alloc id k => [.alloc (c.of (famOf k)) e.size e.file e.line (sepOf k) id e.nodeOk e.fill]
  | .free id k _ => [.invalidate id, .dealloc (c.of (famOf k)) id (relFile e k) (relLine e k) (sepOf k)]
  | .realloc old new _ => [.realloc c.mallocA old e.size e.file e.line true new e.fill]

/-- `toOps` are exactly the wrapper functions of the table model (`acquire`, `release`, `realloc` with the malloc
    allocator).  Connects the C10 operation alphabet with `Model/LeakDetector.lean`. -/
theorem toOps_are_the_wrappers (c : Current) (e : Env) (s : State) :
    (∀ id k, run s (toOps c e (.alloc id k)) = acquire c (famOf k) s e.size e.file e.line id e.nodeOk e.fill) ∧
    (∀ id k b, run s (toOps c e (.free id k b)) = release c (famOf k) s id e.file e.line) ∧
    (∀ old new b, run s (toOps c e (.realloc old new b)) = realloc s c.mallocA old e.size e.file e.line true new e.fill) := by
  refine ⟨?_, ?_, ?_⟩
  · intro id k
    cases k <;> simp [toOps, run, step, acquire, prependEvs, famOf, sepOf, Current.of]
  · intro id k b
    cases k <;> simp [toOps, run, step, release, prependEvs, famOf, sepOf, Current.of, relFile, relLine]
  · intro old new b
    simp [toOps, run, step, prependEvs]

/-- The relation between a table state and the C10 detector. -/
structure R10 (c : Current) (s : State) (d : Det) : Prop where
  inv : s.Inv
  rs : RS c (abs s) d

/-- When a C10 operation is the image of table operations (the part that does not look at memory contents):
    ids are addresses (not `NULL`), the allocation succeeded with an address that is not outstanding. -/
def PreS (e : Env) (d : Det) : DetOp → Prop
  | .alloc id k => id ≠ 0 ∧ id ∉ ThreadSafe.ids d ∧ sizeOverflows e.size = false ∧ (sepOf k = true → e.nodeOk = true)
  | .free id _ _ => id ≠ 0
  | .realloc old new _ =>
    old ≠ 0 ∧ new ≠ 0 ∧ (new = old ∨ new ∉ ThreadSafe.ids d) ∧ sizeOverflows e.size = false

/-- the `corrupt` flag of a release says whether the guard bytes behind the block have been overwritten -/
def GuardFlag (s : State) : DetOp → Prop
  | .alloc _ _ => True
  | .free id _ b => ∀ n, s.table.retrieveNode id = some n → b = !validGuard n
  | .realloc old _ b => ∀ n, s.table.retrieveNode old = some n → b = !validGuard n

def Pre (e : Env) (s : State) (d : Det) (op : DetOp) : Prop := PreS e d op ∧ GuardFlag s op

/-- a `realloc` whose release check (allocator mismatch / guard bytes) reports -/
def ReallocCheckFails (d : Det) : DetOp → Prop
  | .realloc old _ b => ∃ st, ThreadSafe.lookup d old = some st ∧ ThreadSafe.checkRelease st .malloc b = .misuse
  | _ => False

/-! ## what `body` does to the set -/

theorem body_free_fst (d : Det) (id : Nat) (k : Kind) (b : Bool) : (ThreadSafe.body (.free id k b) d).1 = ThreadSafe.remove d id := by
  simp only [ThreadSafe.body]
  cases hl : ThreadSafe.lookup d id with
  | none => simp [ThreadSafe.freeFound, remove_absent hl]
  | some st => simp [ThreadSafe.freeFound]

theorem not_mem_ids_iff (d : Det) (id : Nat) : id ∉ ThreadSafe.ids d ↔ ThreadSafe.lookup d id = none := by
  rw [← ThreadSafe.lookup_isSome_iff_mem]
  cases ThreadSafe.lookup d id <;> simp

/-! ## simulation on the finite map (no table involved) -/

/-- **Forward simulation on the finite-map specification.**  Connects `ThreadSafe.body` (C10) with
    `LeakDetector.Spec.step` (C04's specification): alloc inserts, free erases, realloc erases and inserts. -/
theorem spec_simulates (c : Current) (e : Env) {m : Spec.State} {d : Det} (h : RS c m d) (op : DetOp)
    (hp0 : PreS e d op) (hnf : ¬ ReallocCheckFails d op) :
    RS c (Spec.run m (toOps c e op)) (ThreadSafe.body op d).1 := by
  cases op with
  | alloc id k =>
    obtain ⟨hz, hfresh, hsz, hn⟩ := hp0
    exact h.alloc id k e.size e.file e.line e.nodeOk e.fill hz hfresh hsz hn
  | free id k b =>
    rw [body_free_fst]
    show RS c (Spec.step { m with map := m.map.update id poison }
      (.dealloc (c.of (famOf k)) id (relFile e k) (relLine e k) (sepOf k))) _
    exact (h.update id poison (fun _ => rfl)).erase (c.of (famOf k)) id (relFile e k) (relLine e k) (sepOf k) hp0
  | realloc old new b =>
    obtain ⟨hoz, hz, hfresh, hsz⟩ := hp0
    simp only [ThreadSafe.body, toOps, Spec.run]
    cases hl : ThreadSafe.lookup d old with
    | none =>
      rw [h.realloc_unknown _ old new e.size e.file e.line true e.fill hoz hl hsz]
      exact h
    | some st =>
      cases hcr : ThreadSafe.checkRelease st .malloc b with
      | misuse => exact absurd ⟨st, hl, hcr⟩ hnf
      | normal =>
        simp only [ThreadSafe.reallocFound, hcr, ThreadSafe.reallocChecked]
        exact h.realloc old new e.size e.file e.line e.fill hz hoz (by rw [hl]; simp) hfresh hsz

/-! ## simulation on the table -/

theorem R10.dead_iff {c : Current} {s : State} {d : Det} (h : R10 c s d) (a : Nat) :
    isLive s a = false ↔ a ∉ ThreadSafe.ids d := by
  rw [not_mem_ids_iff, ← h.rs.live_iff a]
  show isLive s a = false ↔ s.table.retrieveNode a = none
  rw [isLive_false_iff, retrieve_none_iff h.inv]

theorem fresh_of_pre {c : Current} (e : Env) {s : State} {d : Det} (h : R10 c s d) (op : DetOp) (hp : Pre e s d op) :
    FreshAll s (toOps c e op) := by
  cases op with
  | alloc id k => exact ⟨Or.inr ((h.dead_iff id).mpr hp.1.2.1), trivial⟩
  | free id k b => exact ⟨trivial, trivial, trivial⟩
  | realloc old new b =>
    refine ⟨?_, trivial⟩
    rcases hp.1.2.2.1 with hq | hq
    · exact Or.inr (Or.inl hq)
    · exact Or.inr (Or.inr ((h.dead_iff new).mpr hq))

/-- **Forward simulation on the table.**  Connects `ThreadSafe.body` (C10) with `LeakDetector.run` (C04) over the
    wrapper's table operations, through C04's `run_refines` and `inv_run`; the C04 environment hypothesis
    `FreshAll` follows from `Pre`. -/
theorem table_simulates (c : Current) (e : Env) {s : State} {d : Det} (h : R10 c s d) (op : DetOp)
    (hp : Pre e s d op) (hnf : ¬ ReallocCheckFails d op) :
    FreshAll s (toOps c e op) ∧ R10 c (run s (toOps c e op)).1 (ThreadSafe.body op d).1 := by
  have hf := fresh_of_pre (c := c) e h op hp
  refine ⟨hf, { inv := inv_run _ s h.inv hf, rs := ?_ }⟩
  rw [run_refines _ s h.inv hf]
  exact spec_simulates c e h.rs op hp.1 hnf

/-! ## reports: misuse in the C10 model ⇔ a failure event of the table model -/

/-- the category the C10 model's release check stands for -/
def expectedReport (d : Det) (id : Nat) (used : Kind) (b : Bool) : Option FailKind :=
  match ThreadSafe.lookup d id with
  | none => some .nonAllocated
  | some st => if st ≠ used then some .mismatch else if b then some .corruption else none

theorem verdict_eq {c : Current} (hc : Distinct c) {s : State} {d : Det} (h : R10 c s d) (id : Nat) (k : Kind) (b : Bool)
    (hz : id ≠ 0) (hb : ∀ n, s.table.retrieveNode id = some n → b = !validGuard n) :
    verdict s (c.of (famOf k)) id = expectedReport d id k b := by
  unfold verdict expectedReport
  simp only [hz, if_false]
  have hlook := h.rs.look id
  have htc : s.typeChecking = true := h.rs.tc
  cases hr : s.table.retrieveNode id with
  | none =>
    have : (abs s).map id = none := hr
    rw [(h.rs.live_iff id).mp this]
  | some n =>
    have hm : (abs s).map id = some n := hr
    rw [hm] at hlook
    cases hl : ThreadSafe.lookup d id with
    | none => rw [hl] at hlook; cases hlook
    | some st =>
      rw [hl] at hlook
      have ha : n.allocator = c.of (famOf st) := by simpa using hlook
      simp only [htc, ha, matching_of_distinct hc, hb n hr]
      by_cases hk : st = k
      · simp [hk]
      · simp [hk]

/-- **Misuse of a release.**  Connects `ThreadSafe.body (.free …)` (C10) with the failure events of
    `LeakDetector.release` (C04/C06): the C10 model ends in `misuse` exactly when the table model reports, and the
    category is the one the C10 check stands for — in particular "free of a non-outstanding id" is C04/C06's
    `free_non_allocated_iff` / `non_allocated_iff` case. -/
theorem free_misuse_iff (c : Current) (hc : Distinct c) (e : Env) {s : State} {d : Det} (h : R10 c s d)
    (id : Nat) (k : Kind) (b : Bool) (hp : Pre e s d (.free id k b)) :
    firstFail (run s (toOps c e (.free id k b))).2 = expectedReport d id k b ∧
    ((ThreadSafe.body (.free id k b) d).2 = .misuse ↔ firstFail (run s (toOps c e (.free id k b))).2 ≠ none) ∧
    (firstFail (run s (toOps c e (.free id k b))).2 = some .nonAllocated ↔ id ∉ ThreadSafe.ids d) := by
  have hev : firstFail (run s (toOps c e (.free id k b))).2 = expectedReport d id k b := by
    rw [(toOps_are_the_wrappers c e s).2.1 id k b, release_reports_like_dealloc c (famOf k) s h.inv, firstFail_dealloc]
    exact verdict_eq hc h id k b hp.1 hp.2
  refine ⟨hev, ?_, ?_⟩
  · rw [hev]
    unfold expectedReport
    simp only [ThreadSafe.body]
    cases hl : ThreadSafe.lookup d id with
    | none => simp [ThreadSafe.freeFound]
    | some st =>
      simp only [ThreadSafe.freeFound, ThreadSafe.checkRelease]
      by_cases hk : st = k
      · cases b <;> simp [hk]
      · simp [hk]
  · rw [hev, not_mem_ids_iff]
    unfold expectedReport
    cases hl : ThreadSafe.lookup d id with
    | none => simp
    | some st =>
      by_cases hk : st = k
      · cases b <;> simp [hk]
      · simp [hk]

/-- An allocation never reports, in either model. -/
theorem alloc_never_misuse (c : Current) (e : Env) (s : State) (d : Det) (id : Nat) (k : Kind) :
    (ThreadSafe.body (.alloc id k) d).2 = .normal ∧ firstFail (run s (toOps c e (.alloc id k))).2 = none := by
  refine ⟨rfl, ?_⟩
  simp only [toOps, run, step, prependEvs, LeakDetector.alloc]
  split
  · rfl
  · split
    · rfl
    · split
      · rfl
      · cases sepOf k <;> rfl

/-- **Misuse of a realloc.**  Connects `ThreadSafe.body (.realloc …)` with the failure events of
    `LeakDetector.realloc`: reported in the C10 model iff reported by the table model, with the same category. -/
theorem realloc_misuse_iff (c : Current) (hc : Distinct c) (e : Env) {s : State} {d : Det} (h : R10 c s d)
    (old new : Nat) (b : Bool) (hp : Pre e s d (.realloc old new b)) :
    firstFail (run s (toOps c e (.realloc old new b))).2 = expectedReport d old .malloc b ∧
    ((ThreadSafe.body (.realloc old new b) d).2 = .misuse ↔
      firstFail (run s (toOps c e (.realloc old new b))).2 ≠ none) := by
  obtain ⟨⟨hoz, hz, _, hsz⟩, hb⟩ := hp
  have hv := verdict_eq hc h old .malloc b hoz hb
  have hev : firstFail (run s (toOps c e (.realloc old new b))).2 = expectedReport d old .malloc b := by
    rw [(toOps_are_the_wrappers c e s).2.2 old new b, ← hv]
    unfold LeakDetector.realloc verdict
    simp only [hsz, Bool.false_eq_true, if_false, hoz]
    cases hr : s.table.retrieveNode old with
    | none => simp [firstFail, nonAllocatedEv]
    | some n =>
      simp only [prependEvs, reallocTail, hz, if_false]
      show firstFail (checkForCorruption s.typeChecking n e.file e.line c.mallocA true ++
        ([.urealloc old (requestSize e.size true)] ++ nodeAllocEvs true ++ [.ret new])) = _
      rw [firstFail_check _ _ _ _ _ _ _ (by simp [nodeAllocEvs, firstFail])]
      rfl
  refine ⟨hev, ?_⟩
  rw [hev]
  unfold expectedReport
  simp only [ThreadSafe.body]
  cases hl : ThreadSafe.lookup d old with
  | none => simp [ThreadSafe.reallocFound]
  | some st =>
    simp only [ThreadSafe.reallocFound, ThreadSafe.checkRelease]
    by_cases hk : st = .malloc
    · cases b <;> simp [hk, ThreadSafe.reallocChecked]
    · simp [hk, ThreadSafe.reallocChecked]

/-! ## histories -/

def allOps (c : Current) (xs : List (Env × DetOp)) : List Op := xs.flatMap (fun x => toOps c x.1 x.2)

/-- the preconditions along a history (the table state is needed for the guard-byte flags) -/
def PreAll (c : Current) : State → Det → List (Env × DetOp) → Prop
  | _, _, [] => True
  | s, d, x :: xs =>
    Pre x.1 s d x.2 ∧ ¬ ReallocCheckFails d x.2 ∧
      PreAll c (run s (toOps c x.1 x.2)).1 (ThreadSafe.body x.2 d).1 xs

theorem run_append_fst : ∀ (a b : List Op) (s : State), (run s (a ++ b)).1 = (run (run s a).1 b).1
  | [], _, _ => rfl
  | x :: a, b, s => by
    show (run (step s x).1 (a ++ b)).1 = (run (run (step s x).1 a).1 b).1
    exact run_append_fst a b _

theorem freshAll_append : ∀ (a b : List Op) (s : State), FreshAll s a → FreshAll (run s a).1 b → FreshAll s (a ++ b)
  | [], _, _, _, h => h
  | x :: a, b, s, h1, h2 => ⟨h1.1, freshAll_append a b _ h1.2 h2⟩

/-- **Forward simulation, every history.**  Connects `ThreadSafe.runDet` (the C10 schedule semantics: a schedule is
    a sequence of whole wrappers) with `LeakDetector.run`: the table after the wrappers' operations is related to
    the C10 detector after the schedule, and satisfies the C04 environment hypothesis — so C04's theorems
    (`run_totals_exact`, `inv_run`, …) apply to the table every C10 schedule produces. -/
theorem run_simulates (c : Current) : ∀ (xs : List (Env × DetOp)) {s : State} {d : Det}, R10 c s d → PreAll c s d xs →
    FreshAll s (allOps c xs) ∧ R10 c (run s (allOps c xs)).1 (ThreadSafe.runDet (xs.map (·.2)) d)
  | [], _, _, h, _ => ⟨trivial, h⟩
  | x :: xs, s, d, h, hp => by
    have h1 := table_simulates c x.1 h x.2 hp.1 hp.2.1
    have h2 := run_simulates c xs h1.2 hp.2.2
    refine ⟨?_, ?_⟩
    · show FreshAll s (toOps c x.1 x.2 ++ allOps c xs)
      exact freshAll_append _ _ _ h1.1 h2.1
    · show R10 c (run s (toOps c x.1 x.2 ++ allOps c xs)).1 _
      rw [run_append_fst]
      exact h2.2

/-- the empty detectors are related (any table size > 0, type checking on as the constructor leaves it) -/
theorem init_related (c : Current) (hp : Nat) (h : 0 < hp) : R10 c (State.init hp) [] :=
  { inv := inv_init hp h,
    rs := { look := fun id => by
              have : (abs (State.init hp)).map id = none := by
                show (State.init hp).table.retrieveNode id = none
                rw [retrieve_none_iff (inv_init hp h)]
                intro n hn
                have : (State.init hp).nodes = [] := by simp [State.nodes, Table.flat, State.init, Table.empty]
                rw [this] at hn; cases hn
              rw [this]; rfl
            nodup := List.nodup_nil
            tc := rfl } }

/-- The outstanding blocks agree: the table's records are exactly the ids of the C10 detector (each once). -/
theorem outstanding_agree {c : Current} {s : State} {d : Det} (h : R10 c s d) :
    (s.nodes.map (·.addr)).Perm (ThreadSafe.ids d) := by
  apply ListLemmas.perm_of_count
  intro x
  have h1 : List.count x (s.nodes.map (·.addr)) ≤ 1 := List.nodup_iff_count.mp h.inv.distinct x
  have h2 := List.nodup_iff_count.mp h.rs.nodup x
  by_cases hx : x ∈ ThreadSafe.ids d
  · have hx' : x ∈ s.nodes.map (·.addr) := by
      have : ¬ isLive s x = false := fun e => (h.dead_iff x).mp e hx
      have : isLive s x = true := by simpa using this
      unfold isLive at this
      simp only [List.any_eq_true, beq_iff_eq] at this
      obtain ⟨n, hn, rfl⟩ := this
      exact List.mem_map_of_mem hn
    have := List.count_pos_iff.mpr hx
    have := List.count_pos_iff.mpr hx'
    omega
  · have hx' : x ∉ s.nodes.map (·.addr) := by
      intro hm
      obtain ⟨n, hn, rfl⟩ := List.mem_map.mp hm
      have := (isLive_false_iff n.addr).mp ((h.dead_iff n.addr).mpr hx) n hn
      exact this rfl
    rw [List.count_eq_zero_of_not_mem hx, List.count_eq_zero_of_not_mem hx']

/-! ## where the two models differ (findings, with witnesses) -/

def exC : Current :=
  { newA := .plain 1 "Standard New Allocator" "new" "delete",
    newArrayA := .plain 2 "Standard New [] Allocator" "new []" "delete []",
    mallocA := .plain 3 "Standard Malloc Allocator" "malloc" "free" }

theorem exC_distinct : Distinct exC := by
  intro f g hfg
  cases f <;> cases g <;> first | exact absurd rfl hfg | (constructor <;> decide)

def exEnv : Env := { size := 8, file := "t.c", line := 3, nodeOk := true, fill := 0xA5 }

def guardFlagB (s : State) : DetOp → Bool
  | .alloc _ _ => true
  | .free id _ b => match s.table.retrieveNode id with | none => true | some n => b == !validGuard n
  | .realloc old _ b => match s.table.retrieveNode old with | none => true | some n => b == !validGuard n

theorem guardFlag_iff (s : State) (op : DetOp) : GuardFlag s op ↔ guardFlagB s op = true := by
  cases op with
  | alloc id k => simp [GuardFlag, guardFlagB]
  | free id k b =>
    simp only [GuardFlag, guardFlagB]
    cases s.table.retrieveNode id <;> simp
  | realloc old new b =>
    simp only [GuardFlag, guardFlagB]
    cases s.table.retrieveNode old <;> simp

instance (s : State) (op : DetOp) : Decidable (GuardFlag s op) := decidable_of_iff _ (guardFlag_iff s op).symm

instance (e : Env) (d : Det) (op : DetOp) : Decidable (PreS e d op) := by
  cases op <;> unfold PreS <;> infer_instance

instance (e : Env) (s : State) (d : Det) (op : DetOp) : Decidable (Pre e s d op) := by
  unfold Pre; infer_instance

def reallocCheckFailsB (d : Det) : DetOp → Bool
  | .realloc old _ b =>
    match ThreadSafe.lookup d old with
    | none => false
    | some st => ThreadSafe.checkRelease st .malloc b == .misuse
  | _ => false

theorem reallocCheckFails_iff (d : Det) (op : DetOp) : ReallocCheckFails d op ↔ reallocCheckFailsB d op = true := by
  cases op with
  | alloc id k => simp [ReallocCheckFails, reallocCheckFailsB]
  | free id k b => simp [ReallocCheckFails, reallocCheckFailsB]
  | realloc old new b =>
    simp only [ReallocCheckFails, reallocCheckFailsB]
    cases ThreadSafe.lookup d old <;> simp

instance (d : Det) (op : DetOp) : Decidable (ReallocCheckFails d op) :=
  decidable_of_iff _ (reallocCheckFails_iff d op).symm

instance decPreAll (c : Current) : ∀ (s : State) (d : Det) (xs : List (Env × DetOp)), Decidable (PreAll c s d xs)
  | _, _, [] => isTrue trivial
  | s, d, x :: xs => by
    unfold PreAll
    have := decPreAll c (run s (toOps c x.1 x.2)).1 (ThreadSafe.body x.2 d).1 xs
    infer_instance

/-- a `new` block at address 5 -/
def exHist1 : List (Env × DetOp) := [(exEnv, .alloc 5 .new)]

theorem ex1_related : R10 exC (run (State.init 73) (allOps exC exHist1)).1 [(5, .new)] :=
  (run_simulates exC exHist1 (init_related exC 73 (by decide)) (by decide)).2

/-- **Finding (model divergence), with witness.**  A `realloc` whose release check reports (here: a block
    obtained with `operator new` is passed to `realloc`, an allocator mismatch): the C10 model stops at the report
    (the reporter leaves by `longjmp`; the new block is never stored, `reallocChecked`), the table model returns
    from the report and stores the new block.  The simulation therefore excludes `ReallocCheckFails`. -/
theorem realloc_check_failure_differs :
    ∃ (s : State) (d : Det) (op : DetOp), R10 exC s d ∧ Pre exEnv s d op ∧ ReallocCheckFails d op ∧
      (ThreadSafe.body op d).2 = .misuse ∧ firstFail (run s (toOps exC exEnv op)).2 = some .mismatch ∧
      ¬ R10 exC (run s (toOps exC exEnv op)).1 (ThreadSafe.body op d).1 := by
  refine ⟨_, _, .realloc 5 6 false, ex1_related, by decide, by decide, by decide, by decide, ?_⟩
  intro h
  have := (h.dead_iff 6).mpr (by decide)
  revert this
  decide

/-- **Finding (id convention), with witness.**  Id `0` is an ordinary id in the C10 model (releasing it when it is
    not outstanding is a misuse) but `NULL` in the table model (`deallocMemory(NULL)` is silent).  The simulation
    therefore requires non-zero ids. -/
theorem free_null_differs (c : Current) (e : Env) (s : State) (k : Kind) (b : Bool) :
    (ThreadSafe.body (.free 0 k b) []).2 = .misuse ∧ firstFail (run s (toOps c e (.free 0 k b))).2 = none := by
  refine ⟨rfl, ?_⟩
  rw [(toOps_are_the_wrappers c e s).2.1 0 k b]
  cases k <;> simp [release, famOf, dealloc, firstFail]

/-! ## non-vacuity -/

/-- a `new` block and a `malloc` block in one bucket, a clean release, a moving realloc, a release of an unknown
    address (misuse), a release through the wrong family (misuse) -/
def exHist : List (Env × DetOp) :=
  [ (exEnv, .alloc 1168 .new), (exEnv, .alloc 1241 .malloc), (exEnv, .free 1168 .new false),
    (exEnv, .realloc 1241 1314 false), (exEnv, .free 999 .malloc false), (exEnv, .alloc 7 .newArray),
    (exEnv, .free 1314 .new false) ]

example : PreAll exC (State.init 73) [] exHist := by decide

/-- a concrete non-trivial related pair -/
example : R10 exC (run (State.init 73) (allOps exC exHist)).1 (ThreadSafe.runDet (exHist.map (·.2)) []) :=
  (run_simulates exC exHist (init_related exC 73 (by decide)) (by decide)).2

example : ThreadSafe.runDet (exHist.map (·.2)) [] = [(7, .newArray)] := by decide
example : (run (State.init 73) (allOps exC exHist)).1.nodes.map (·.addr) = [7] := by decide
example : ThreadSafe.runDet ((exHist.take 4).map (·.2)) [] = [(1314, .malloc)] := by decide
example : (ThreadSafe.body (.free 999 .malloc false) [(1314, .malloc)]).2 = .misuse := by decide
example : (ThreadSafe.body (.free 1314 .new false) [(7, .newArray), (1314, .malloc)]).2 = .misuse := by decide

end Compose.C10x
