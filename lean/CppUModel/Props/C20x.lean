import CppUModel.Props.C16x
import CppUModel.Props.C20
/-!
# C20x — TeamCity suites and tests are the C02 model's group blocks and selected tests

Composition theorems.  They connect

* `Model/TeamCity.lean` (C20): the message list `TeamCity.messages evs` of the writer folded over the runner's output
  events, with
* `Model/Registry.lean` (C02) through `Props/C16x.lean` (`skeleton_agrees`, `group_placement`, `tests_started_agree`):
  the group blocks and the selected tests of the registry loop.

For every registry content and name filter: the `testSuiteStarted` messages name, in order, the group of the first
test of each C02 group block; the `testStarted` messages name, in order, exactly the tests C02's `shouldRun` selects.
-/
namespace Compose.C20x
open OutEv (Script TestInfo)
open TeamCity Compose.C16x

def suiteStarts (ms : List Msg) : List Text.Bytes :=
  ms.filterMap (fun m => match m with | .suiteStarted g => some g | _ => none)

def testStarts (ms : List Msg) : List Text.Bytes :=
  ms.filterMap (fun m => match m with | .testStarted n => some n | _ => none)

theorem suiteStarts_append (a b : List Msg) : suiteStarts (a ++ b) = suiteStarts a ++ suiteStarts b := by
  simp [suiteStarts, List.filterMap_append]

theorem testStarts_append (a b : List Msg) : testStarts (a ++ b) = testStarts a ++ testStarts b := by
  simp [testStarts, List.filterMap_append]

/-- what the writer says about suites and tests depends only on the `groupStarted` / `testStarted` callbacks -/
theorem starts_of_messages : ∀ (evs : List OutEv.Ev) (s : St),
    suiteStarts (msgsFrom s evs) = (groupStartedInfos evs).map (·.group) ∧
    testStarts (msgsFrom s evs) = (testStartedInfos evs).map (·.name)
  | [], _ => ⟨rfl, rfl⟩
  | e :: es, s => by
    have ih := starts_of_messages es (step s e).1
    rw [msgsFrom_cons, suiteStarts_append, testStarts_append, ih.1, ih.2]
    cases e with
    | testRun i n =>
      simp only [msgsOf]
      by_cases h : n > 1 <;> simp only [h, if_true, if_false] <;> exact ⟨rfl, rfl⟩
    | testsStarted => exact ⟨rfl, rfl⟩
    | groupStarted t => exact ⟨rfl, rfl⟩
    | testStarted t =>
      constructor
      · simp only [msgsOf, suiteStarts, groupStartedInfos, List.filterMap_cons]
        cases t.willRun <;> rfl
      · simp only [msgsOf, testStarts, testStartedInfos, List.filterMap_cons]
        cases t.willRun <;> rfl
    | print x => exact ⟨rfl, rfl⟩
    | failure f => exact ⟨rfl, rfl⟩
    | veryVerbose x =>
      simp only [msgsOf]
      cases s.veryVerbose <;> exact ⟨rfl, rfl⟩
    | testEnded ms c =>
      simp only [msgsOf]
      cases s.currTest <;> exact ⟨rfl, rfl⟩
    | groupEnded ms =>
      simp only [msgsOf]
      cases (s.currGroup == []) <;> exact ⟨rfl, rfl⟩
    | testsEnded sm => exact ⟨rfl, rfl⟩

/-- **Suites follow the C02 group blocks.**  Connects `TeamCity.messages` (C20) with `Registry.groupBlocks` (C02):
    one `testSuiteStarted` per block, naming the block's group, in order. -/
theorem suites_are_registry_blocks (flt : Option OutEv.Filter) (ss : List Script) :
    suiteStarts (messages (OutEv.runAll flt ss)) =
      (Registry.blockHeads (Registry.groupBlocks (toTests ss))).map (fun i => (infoAt ss i).group) := by
  show suiteStarts (msgsFrom {} (OutEv.runAll flt ss)) = _
  rw [(starts_of_messages _ _).1, (group_placement flt ss).1, List.map_map]
  rfl

/-- **Tests follow the C02 selection.**  Connects `TeamCity.messages` with `Registry.shouldRun`: one `testStarted`
    per selected test (ignored ones included), naming it, in list order. -/
theorem tests_are_registry_selection (flt : Option OutEv.Filter) (ss : List Script) :
    testStarts (messages (OutEv.runAll flt ss)) =
      ((toTests ss).filter (Registry.shouldRun (cfgOf flt))).map (fun t => (infoAt ss t.id).name) := by
  show testStarts (msgsFrom {} (OutEv.runAll flt ss)) = _
  rw [(starts_of_messages _ _).2, tests_started_agree flt ss, List.map_map]
  rfl

/-! ## non-vacuity -/

example : suiteStarts (messages (OutEv.runAll (some ⟨OutEv.lit "skip", false, true⟩) exScripts)) =
    [OutEv.lit "A", OutEv.lit "B", OutEv.lit "A"] := by decide

example : testStarts (messages (OutEv.runAll (some ⟨OutEv.lit "skip", false, true⟩) exScripts)) =
    [OutEv.lit "t1", OutEv.lit "t2", OutEv.lit "t3"] := by decide

end Compose.C20x
