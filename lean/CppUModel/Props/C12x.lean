import CppUModel.Props.C12
import CppUModel.Props.C13
/-!
# C12x — the command-line parser's string operations executed on the C13 string objects

Composition theorems.  They connect

* `Model/CommandLine.lean` (C12): the parser over textbook byte strings — `Entry.hits` (`==` / `startsWith`),
  `dispatch` (the `if / else if` chain), `getParameterField`, `addGroupDotName` (`split(".")`, `subString`),
  `addTestForm` (`subStringFromTill`, `subString(2)`, `at(0)`), with
* `Model/SimpleString.lean` (C13): `equals`, `startsWith`, `size`, `ctorCStr`, `split` into a collection, `collGet`,
  `subString`, `subStringFromTill`, `subString1`, `assign`, `at_`.

Each `…M` / `…Obj` function below is the C++ body on C pointers / objects.  For all NUL-free arguments (shorter than
`SIZE_MAX`) it returns `.ok` — no access outside a buffer — and its result objects hold exactly the strings the C12
model computes.  Two paths are carried end to end: `-t group.name` (and `-st`, `-xt`, `-xst`, attached or detached
value) and `"TEST(group, name)"` / `"IGNORE_TEST(group, name)"`.  (Allocator pairing of these sequences is C13's
subject and is not re-stated here; the destructors at the end of the C++ scopes are left out.)
-/
namespace Compose.C12x
open CStr SStr Text
open CommandLine (Entry Handler)

/-- a non-NULL `const char*`: an allocation and an offset into it -/
structure CPtr where
  buf : Buf
  off : Nat

/-! ## the dispatch chain -/

/-- one condition of the chain: `argument == "lit"` or `argument.startsWith("lit")` -/
def hitsObj (exact : Bool) (arg lit : Obj) : Except Err Bool :=
  if exact then equals arg lit else startsWith arg lit

/-- the `if / else if` chain of `CommandLineArguments::parse`: first branch whose condition holds -/
def dispatchObj (arg : Obj) : List (Obj × Bool × Handler) → Except Err (Option Handler)
  | [] => .ok none
  | (lit, exact, h) :: rest =>
    match hitsObj exact arg lit with
    | .error e => .error e
    | .ok true => .ok (some h)
    | .ok false => dispatchObj arg rest

/-- the literal objects represent the entries of the table -/
def RepTable : List (Obj × Bool × Handler) → List Entry → Prop
  | [], [] => True
  | (lit, exact, h) :: os, e :: es => Holds lit e.lit ∧ exact = e.exact ∧ h = e.h ∧ RepTable os es
  | _, _ => False

theorem beq_bytes (a b : Bytes) : (a == b) = decide (a = b) := by
  by_cases h : a = b <;> simp [h]

/-- **One branch condition.**  Connects `CommandLine.Entry.hits` (C12) with `SStr.equals` / `SStr.startsWith` (C13). -/
theorem hits_on_objects (e : Entry) {arg lit : Obj} {a : Bytes} (ha : Holds arg a) (hl : Holds lit e.lit) :
    hitsObj e.exact arg lit = .ok (e.hits a) := by
  unfold hitsObj Entry.hits
  cases e.exact with
  | true => simp only [if_true]; rw [C13.eq_eq ha hl, beq_bytes]
  | false => simp only [Bool.false_eq_true, if_false]; exact C13.startsWith_eq ha hl

/-- **The whole chain.**  Connects `CommandLine.dispatch` (first entry of the regenerated table that hits) with the
    chain evaluated on objects, for every NUL-free argument and any table. -/
theorem dispatch_on_objects {arg : Obj} {a : Bytes} (ha : Holds arg a) :
    ∀ {objs : List (Obj × Bool × Handler)} {tbl : List Entry}, RepTable objs tbl →
      dispatchObj arg objs = .ok ((tbl.find? (·.hits a)).map (·.h))
  | [], [], _ => rfl
  | (lit, exact, h) :: os, e :: es, hr => by
    obtain ⟨hl, he, hh, hrest⟩ := hr
    simp only [dispatchObj, he, hits_on_objects e ha hl, List.find?_cons]
    cases e.hits a with
    | true => simp [hh]
    | false => exact dispatch_on_objects ha hrest
  | [], _ :: _, h => h.elim
  | _ :: _, [], h => h.elim

/-- the table's literals as exact-size objects -/
def tableObjs : List (Obj × Bool × Handler) := CommandLine.table.map (fun e => (mkObj 0 e.lit, e.exact, e.h))

theorem rep_map : ∀ (tbl : List Entry), (∀ e ∈ tbl, TextExt.NulFree e.lit) →
    RepTable (tbl.map (fun e => (mkObj 0 e.lit, e.exact, e.h))) tbl
  | [], _ => trivial
  | e :: es, h =>
    ⟨holds_mkObj (h e (List.mem_cons_self ..)), rfl, rfl, rep_map es (fun x hx => h x (List.mem_cons_of_mem _ hx))⟩

theorem tableObjs_rep : RepTable tableObjs CommandLine.table := rep_map _ (by decide)

/-- `CommandLine.dispatch` itself, on the real 32-entry table -/
theorem dispatch_table_on_objects {arg : Obj} {a : Bytes} (ha : Holds arg a) :
    dispatchObj arg tableObjs = .ok (CommandLine.dispatch a) :=
  dispatch_on_objects ha tableObjs_rep

/-! ## getParameterField -/

def RepNext : Option CPtr → Option Bytes → Prop
  | none, none => True
  | some p, some s => CAt p.buf p.off s
  | _, _ => False

/-- `getParameterField(ac, av, i, parameterName)`:
```
size_t parameterLength = parameterName.size();
SimpleString parameter(av[i]);
if (parameter.size() > parameterLength) return av[i] + parameterLength;
else if (i + 1 < ac) return av[++i];
return "";
```
returns the field and whether `i` was advanced -/
def getParameterFieldM (arg : CPtr) (next : Option CPtr) (pname : Obj) : M (Obj × Bool) := do
  let plen ← liftE (size pname)
  let p ← ctorCStr arg.buf arg.off
  let n ← liftE (size p)
  if n > plen then do
    let r ← ctorCStr arg.buf (arg.off + plen)
    dtor p
    pure (r, false)
  else
    match next with
    | some nx => do
      let r ← ctorCStr nx.buf nx.off
      dtor p
      pure (r, true)
    | none => do
      let r ← ctorCStr emptyLit 0
      dtor p
      pure (r, false)

/-- **`getParameterField`.**  Connects `CommandLine.getParameterField` (C12: `drop`, next argument, or `""`) with the
    pointer arithmetic `av[i] + parameterLength` on the C13 buffers: the offset stays inside the argument. -/
theorem getParameterField_on_objects {arg : CPtr} {next : Option CPtr} {pname : Obj} {a lit : Bytes} {nx : Option Bytes}
    (ha : CAt arg.buf arg.off a) (hn : RepNext next nx) (hl : Holds pname lit) (w : World) :
    ∃ r w', getParameterFieldM arg next pname w =
        .ok ((r, (CommandLine.getParameterField lit.length a nx).consumed), w') ∧
      Holds r (CommandLine.getParameterField lit.length a nx).val := by
  unfold getParameterFieldM CommandLine.getParameterField
  simp only [bind_run, size_ok hl, liftE_ok, ctorCStr_ok ha w, size_ok (holds_mkObj (i := w.next) ha.nulFree)]
  by_cases hlen : a.length > lit.length
  · simp only [hlen, if_true]
    have hd := ha.drop lit.length (Nat.le_of_lt hlen)
    simp only [bind_run, ctorCStr_ok hd, dtor_run, pure_run]
    exact ⟨_, _, rfl, holds_mkObj hd.nulFree⟩
  · simp only [hlen, if_false]
    match next, nx, hn with
    | none, none, _ =>
      simp only [bind_run, ctorEmpty_ok, dtor_run, pure_run]
      exact ⟨_, _, rfl, holds_mkObj (by intro c hc; cases hc)⟩
    | some p, some s, hp =>
      simp only [bind_run, ctorCStr_ok hp, dtor_run, pure_run]
      exact ⟨_, _, rfl, holds_mkObj hp.nulFree⟩

/-! ## `-t group.name` -/

def dotLit : Buf := [46, 0]

/-- `addGroupDotNameFilter` up to the two `new TestFilter(…)`:
```
SimpleString groupDotName = getParameterField(ac, av, i, parameterName);
SimpleStringCollection collection;
groupDotName.split(".", collection);
if (collection.size() != 2) return false;
… collection[0].subString(0, collection[0].size()-1) …  collection[1] …
```
`size()-1` is `size_t` arithmetic (`npos` for an empty token) -/
def addGroupDotNameM (arg : CPtr) (next : Option CPtr) (pname : Obj) : M (Option (Obj × Obj) × Bool) := do
  let fc ← getParameterFieldM arg next pname
  let col0 ← collCtor
  let d ← ctorCStr dotLit 0
  let col ← split fc.1 d col0
  dtor d
  if col.items.length ≠ 2 then pure (none, fc.2)
  else do
    let g0 ← collGet col 0
    let n0 ← liftE (size g0.2)
    let g ← subString g0.2 0 (if n0 = 0 then npos else n0 - 1)
    let n1 ← collGet g0.1 1
    let nm ← ctorCopy n1.2
    pure (some (g, nm), fc.2)

theorem split_eq_splitCode (a : Bytes) : TextExt.split a [46] = CommandLine.splitCode a [46] := by
  unfold CommandLine.splitCode
  cases a with
  | nil => decide
  | cons x t =>
    simp only [List.isEmpty_cons, Bool.false_eq_true, if_false]
    exact C13.split_spec_eq_text_split (by simp) (by simp)

theorem subString_npos_nil : Text.subString [] 0 npos = [] := by simp [Text.subString]

/-- **The `-t` / `-st` / `-xt` / `-xst` path, end to end.**  Connects `CommandLine.addGroupDotName`'s token
    computation (`splitCode field "."`, then `subString g 0 (|g|-1)` and the second token) with the C13 objects:
    `split` into a collection, `collection[0]`, `size()`, `subString`, `collection[1]`.  The handler returns `false`
    exactly when the C12 model's `dotNameFilters` is `none` (not exactly two tokens). -/
theorem dotName_on_objects {arg : CPtr} {next : Option CPtr} {pname : Obj} {a lit : Bytes} {nx : Option Bytes}
    (ha : CAt arg.buf arg.off a) (hn : RepNext next nx) (hl : Holds pname lit) (w : World) :
    ∃ r w', addGroupDotNameM arg next pname w =
        .ok ((r, (CommandLine.getParameterField lit.length a nx).consumed), w') ∧
      match CommandLine.splitCode (CommandLine.getParameterField lit.length a nx).val [46] with
      | [g, n] => ∃ go no, r = some (go, no) ∧ Holds go (Text.subString g 0 (g.length - 1)) ∧ Holds no n
      | _ => r = none := by
  obtain ⟨f, w1, hf, hfh⟩ := getParameterField_on_objects ha hn hl w
  have hdot : CAt dotLit 0 [46] := ⟨by decide, [], rfl⟩
  have hcol : collCtor w1 = .ok (⟨[], mkObj w1.next []⟩, w1.alloc 1) := by
    simp only [collCtor, bind_run, ctorEmpty_ok, pure_run]
  obtain ⟨items, w3, hs, hall, _⟩ := split_ok hfh (holds_mkObj (i := (w1.alloc 1).next) hdot.nulFree) (mkObj w1.next [])
    ((w1.alloc 1).alloc 2)
  rw [split_eq_splitCode] at hall
  unfold addGroupDotNameM
  simp only [alloc_next, List.length_cons, List.length_nil, Nat.zero_add, Nat.reduceAdd] at hs
  simp only [bind_run, hf, hcol, ctorCStr_ok hdot, alloc_next, List.length_cons, List.length_nil, Nat.zero_add,
    Nat.reduceAdd, hs, dtor_run]
  generalize CommandLine.splitCode (CommandLine.getParameterField lit.length a nx).val [46] = toks at hall ⊢
  have hlen := holdAll_length hall
  match items, toks, hall with
  | [o0, o1], [g, n], hall =>
    obtain ⟨h0, _, h1, _, _⟩ := hall
    simp only [List.length_cons, List.length_nil, ne_eq, not_true_eq_false, if_false, bind_run, collGet,
      List.getElem?_cons_zero, List.getElem?_cons_succ, pure_run, size_ok h0, liftE_ok]
    have hamount : Text.subString g 0 (if g.length = 0 then npos else g.length - 1) = Text.subString g 0 (g.length - 1) := by
      by_cases hg : g.length = 0
      · have : g = [] := List.length_eq_zero_iff.mp hg
        subst this
        simp [Text.subString]
      · simp [hg]
    obtain ⟨go, w5, hsub, hgo, _, _⟩ := C13.subString_eq h0 0 (if g.length = 0 then npos else g.length - 1)
      (w3.free (w1.next + 1) (([46] : Bytes).length + 1))
    rw [hamount] at hgo
    simp only [mkObj_id, mkObj_size] at hsub ⊢
    simp only [hsub, bind_run, ctorCopy_ok h1, pure_run]
    exact ⟨_, _, rfl, go, _, rfl, hgo, holds_mkObj h1.nulFree⟩
  | [], [], _ => simp
  | [o0], [t0], _ => simp
  | o0 :: o1 :: o2 :: os, t0 :: t1 :: t2 :: ts, _ => simp
  | [], _ :: _, hall => simp at hlen
  | _ :: _, [], hall => simp at hlen
  | [_], _ :: _ :: _, hall => simp at hlen
  | _ :: _ :: _, [_], hall => simp at hlen
  | [_, _], _ :: _ :: _ :: _, hall => simp at hlen
  | _ :: _ :: _ :: _, [_, _], hall => simp at hlen

/-! ## `"TEST(group, name)"` -/

/-- `addTestToRunBasedOnVerboseOutput` up to the two `new TestFilter(…)`:
```
SimpleString wholename = getParameterField(ac, av, index, parameterName);
SimpleString testname = wholename.subStringFromTill(',', ')');
testname = testname.subString(2);
… wholename.subStringFromTill(wholename.at(0), ',') …
``` -/
def addTestFormM (arg : CPtr) (next : Option CPtr) (pname : Obj) : M ((Obj × Obj) × Bool) := do
  let fc ← getParameterFieldM arg next pname
  let t1 ← subStringFromTill fc.1 44 41
  let t2 ← subString1 t1 2
  let nm ← assign t1 t2
  dtor t2
  let c0 ← liftE (at_ fc.1 0)
  let g ← subStringFromTill fc.1 c0 44
  pure ((g, nm), fc.2)

theorem subStringFromTill_length_le (a : Bytes) (s e : UInt8) : (Text.subStringFromTill a s e).length ≤ a.length := by
  unfold Text.subStringFromTill
  split
  · simp
  · split
    · simp
    · simp only [List.length_take, List.length_drop]; omega

/-- **The `TEST(` / `IGNORE_TEST(` path, end to end.**  Connects `CommandLine.testFormGroup` / `testFormName` (C12)
    with `subStringFromTill`, `subString(2)`, `operator=` and `at(0)` on the C13 objects, for every NUL-free
    argument (the repaired `subString` of an empty string included). -/
theorem testForm_on_objects {arg : CPtr} {next : Option CPtr} {pname : Obj} {a lit : Bytes} {nx : Option Bytes}
    (ha : CAt arg.buf arg.off a) (hn : RepNext next nx) (hl : Holds pname lit) (w : World)
    (hfit : (CommandLine.getParameterField lit.length a nx).val.length < npos) :
    ∃ go no w', addTestFormM arg next pname w =
        .ok (((go, no), (CommandLine.getParameterField lit.length a nx).consumed), w') ∧
      Holds go (CommandLine.testFormGroup (CommandLine.getParameterField lit.length a nx).val) ∧
      Holds no (CommandLine.testFormName (CommandLine.getParameterField lit.length a nx).val) := by
  obtain ⟨f, w1, hf, hfh⟩ := getParameterField_on_objects ha hn hl w
  generalize (CommandLine.getParameterField lit.length a nx).val = v at hfh hfit ⊢
  obtain ⟨t1, w2, h1, ht1, _, _⟩ := C13.subStringFromTill_eq hfh hfit 44 41 w1
  have hfit1 : (Text.subStringFromTill v 44 41).length < npos :=
    Nat.lt_of_le_of_lt (subStringFromTill_length_le v 44 41) hfit
  obtain ⟨t2, w3, h2, ht2, _, _⟩ := C13.subStringFrom_eq ht1 hfit1 2 w2
  have h3 := C13.assign_eq t1 ht2 w3
  have hat := C13.at_eq hfh 0 (Nat.zero_le _)
  obtain ⟨go, w5, h5, hgo, _, _⟩ := C13.subStringFromTill_eq hfh hfit ((TextExt.cz v).getD 0 0) 44
    (((w3.free t1.id t1.size).alloc ((Text.subStringFrom (Text.subStringFromTill v 44 41) 2).length + 1)).free t2.id t2.size)
  refine ⟨go, mkObj w3.next (Text.subStringFrom (Text.subStringFromTill v 44 41) 2), w5, ?_, ?_, ?_⟩
  · unfold addTestFormM
    simp only [bind_run, hf, h1, h2, h3, dtor_run, hat, liftE_ok, h5, pure_run]
  · cases v with
    | nil =>
      have : Text.subStringFromTill [] ((TextExt.cz []).getD 0 0) 44 = [] := by decide
      rw [this] at hgo
      exact hgo
    | cons c t =>
      have : (TextExt.cz (c :: t)).getD 0 0 = c := rfl
      rw [this] at hgo
      exact hgo
  · exact holds_mkObj ht2.nulFree

/-! ## non-vacuity -/

def okVal {α} : Except Err α → Option α | .ok a => some a | .error _ => none

/-- `-tGrp.nm` (attached value) -/
def exArgT : CPtr := ⟨[45, 116, 71, 114, 112, 46, 110, 109, 0], 0⟩
/-- `TEST(Grp, nm)` inside `argv` memory with junk behind it -/
def exArgTest : CPtr := ⟨[84, 69, 83, 84, 40, 71, 114, 112, 44, 32, 110, 109, 41, 0, 9, 9], 0⟩

theorem exArgT_at : CAt exArgT.buf exArgT.off [45, 116, 71, 114, 112, 46, 110, 109] := ⟨by decide, [], rfl⟩
theorem exArgTest_at : CAt exArgTest.buf exArgTest.off [84, 69, 83, 84, 40, 71, 114, 112, 44, 32, 110, 109, 41] :=
  ⟨by decide, [9, 9], rfl⟩

example : okVal (dispatchObj (mkObj 7 [45, 116, 71, 114, 112, 46, 110, 109]) tableObjs) =
    some (some (.dotName [45, 116] false false)) := by decide
example : okVal (dispatchObj (mkObj 7 [45, 118, 118]) tableObjs) = some (some .veryVerbose) := by decide
example : okVal (dispatchObj (mkObj 7 [45, 122]) tableObjs) = some none := by decide

/-- the `-t` theorem applied to `-tGrp.nm`: the handler accepts, the filters are "Grp" and "nm" -/
example : ∃ go no w', addGroupDotNameM exArgT none (mkObj 0 [45, 116]) {} = .ok ((some (go, no), false), w') ∧
    Holds go [71, 114, 112] ∧ Holds no [110, 109] := by
  obtain ⟨r, w', h, hm⟩ := dotName_on_objects (next := none) (lit := [45, 116]) (nx := none) exArgT_at trivial
    (holds_mkObj (i := 0) (by decide)) {}
  have e1 : (CommandLine.getParameterField ([45, 116] : Bytes).length [45, 116, 71, 114, 112, 46, 110, 109] none).consumed = false := by decide
  have e2 : CommandLine.splitCode (CommandLine.getParameterField ([45, 116] : Bytes).length [45, 116, 71, 114, 112, 46, 110, 109] none).val [46] =
      [[71, 114, 112, 46], [110, 109]] := by decide
  rw [e2] at hm
  rw [e1] at h
  obtain ⟨go, no, rfl, hg, hn⟩ := hm
  exact ⟨go, no, w', h, hg, hn⟩

/-- `-t` with a detached value without a dot: the handler rejects (and has consumed the next argument) -/
example : ∃ w', addGroupDotNameM ⟨[45, 116, 0], 0⟩ (some ⟨[71, 0], 0⟩) (mkObj 0 [45, 116]) {} = .ok ((none, true), w') := by
  obtain ⟨r, w', h, hm⟩ := dotName_on_objects (arg := ⟨[45, 116, 0], 0⟩) (next := some ⟨[71, 0], 0⟩) (a := [45, 116])
    (lit := [45, 116]) (nx := some [71]) ⟨by decide, [], rfl⟩ ⟨by decide, [], rfl⟩ (holds_mkObj (i := 0) (by decide)) {}
  have e1 : (CommandLine.getParameterField ([45, 116] : Bytes).length [45, 116] (some [71])).consumed = true := by decide
  have e2 : CommandLine.splitCode (CommandLine.getParameterField ([45, 116] : Bytes).length [45, 116] (some [71])).val [46] = [[71]] := by decide
  rw [e2] at hm
  rw [e1, hm] at h
  exact ⟨w', h⟩

/-- the `TEST(` theorem applied to `TEST(Grp, nm)` -/
example : ∃ go no w', addTestFormM exArgTest none (mkObj 0 CommandLine.litTEST) {} = .ok (((go, no), false), w') ∧
    Holds go [71, 114, 112] ∧ Holds no [110, 109] := by
  obtain ⟨go, no, w', h, hg, hn⟩ := testForm_on_objects (next := none) (lit := CommandLine.litTEST) (nx := none) exArgTest_at trivial
    (holds_mkObj (i := 0) (by decide)) {} (by decide)
  exact ⟨go, no, w', h, hg, hn⟩

end Compose.C12x
