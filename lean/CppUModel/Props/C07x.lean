import CppUModel.Proofs.ComposeLeak
import CppUModel.Props.C04
import CppUModel.Props.C07
/-!
# C07x — the abstract detector of the C07 model is an abstraction of the C04 table model

Composition theorems.  They connect

* `Model/LeakPlugin.lean` (C07): `LeakPlugin.Detector` — a list of records (id, period stamp, allocation
  number, size), current period, next allocation number — with the operations the plugin / the scripted
  tests perform on it, and
* `Model/LeakDetector.lean` + `Spec/LeakDetector.lean` (C04/C06): the hash table of
  `MemoryLeakDetectorNode`s with `step`, the invariant `Inv`, `totalMemoryLeaks`, `reportedLeaks`.

`Compose.Leak.R s d` (defined in `Proofs/ComposeLeak.lean`): the table state `s` satisfies `Inv`, the
abstract records `d.recs` are a permutation of the table's records read through `recOf`
(address ↦ id, period, number, size), `d.cur` is `s.period`, `d.seq` is `s.seq`.

Every operation of the abstract detector is simulated by ONE `LeakDetector.step` (forward simulation),
the totals and report entries agree (entries up to permutation: the table reports in bucket order), and
whole scripted test runs of the C07 model are simulated by table histories.  Block ids of the C07 model are
the addresses of the table model; the table model treats address 0 as `NULL` and refuses sizes whose
bookkeeping overflows `size_t`, so scripted commands are required to use non-zero ids and non-overflowing
sizes (`CmdOk`), which the C07 harness does.
-/
namespace Compose.C07x
open LeakDetector Compose.Leak
open LeakPlugin (Detector Rec World Cmd PStep Test)

/-! ## operations of the abstract detector, as data -/

/-- The operations `Model/LeakPlugin.lean` performs on its detector (the guards of `doAlloc` / `doRealloc`
    are the preconditions `Pre`). -/
inductive DOp
  | startChecking | stopChecking | enable
  | alloc (id size : Nat)
  | free (id : Nat)
  | realloc (id newId size : Nat)      -- platform realloc succeeded with block `newId`
  | reallocFail (id size : Nat)        -- platform realloc returned NULL
  | demote                             -- markCheckingPeriodLeaksAsNonCheckingPeriod
deriving DecidableEq, Repr

/-- the abstract detector's reaction (exactly the functions of `Model/LeakPlugin.lean`) -/
def applyD (d : Detector) : DOp → Detector
  | .startChecking => d.startChecking
  | .stopChecking => d.stopChecking
  | .enable => d.enable
  | .alloc id size => d.alloc id size
  | .free id => d.free id
  | .realloc id newId size => (d.free id).alloc newId size
  | .reallocFail id size => d.reallocFail id size
  | .demote => d.demote

/-- what the table model additionally needs to know about a call: the allocator object, the call site, the
    bookkeeping layout, whether the separate accounting node could be allocated, the client's fill byte -/
structure Env where
  a      : Allocator
  file   : String
  line   : Nat
  sep    : Bool
  nodeOk : Bool
  fill   : UInt8
deriving Repr, Inhabited

/-- the `LeakDetector.Op` that corresponds to an abstract operation -/
def toOp (e : Env) : DOp → Op
  | .startChecking => .startChecking
  | .stopChecking => .stopChecking
  | .enable => .enable
  | .alloc id size => .alloc e.a size e.file e.line e.sep id e.nodeOk e.fill
  | .free id => .dealloc e.a id e.file e.line e.sep
  | .realloc id newId size => .realloc e.a id size e.file e.line e.sep newId e.fill
  | .reallocFail id size => .realloc e.a id size e.file e.line e.sep 0 e.fill
  | .demote => .markChecking

/-- When the abstract operation is the image of a table operation: the allocation succeeded (non-NULL
    result, no size overflow, accounting node available) with an address that is not outstanding — these
    are the guards of `doAlloc` / `doRealloc` in the C07 model plus the table model's failure cases. -/
def Pre (e : Env) (d : Detector) : DOp → Prop
  | .alloc id size => id ≠ 0 ∧ d.isLive id = false ∧ sizeOverflows size = false ∧ (e.sep = true → e.nodeOk = true)
  | .realloc id newId size =>
    newId ≠ 0 ∧ d.isLive id = true ∧ (newId = id ∨ d.isLive newId = false) ∧ sizeOverflows size = false
  | _ => True

/-! ## one step -/

theorem sim_switch {s : State} {d : Detector} (h : R s d) (p : DPeriod) (d' : Detector)
    (hr : d'.recs = d.recs) (hs : d'.seq = d.seq) (hc : d'.cur = toPP p) :
    R { s with period := p } d' :=
  { inv := h.inv, recs := by rw [hr]; exact h.recs, cur := hc.symm, seq := by rw [hs]; exact h.seq }

theorem sim_alloc {s : State} {d : Detector} (h : R s d) (e : Env) (id size : Nat)
    (hp : Pre e d (.alloc id size)) :
    FreshAddr s (toOp e (.alloc id size)) ∧ R (step s (toOp e (.alloc id size))).1 (d.alloc id size) ∧
      (step s (toOp e (.alloc id size))).2.getLast? = some (.ret id) := by
  obtain ⟨hz, hl, hsz, hn⟩ := hp
  have hl' : LeakDetector.isLive s id = false := by rw [← h.isLive_eq]; exact hl
  have hf : FreshAddr s (toOp e (.alloc id size)) := Or.inr hl'
  have hn' : (e.sep && !e.nodeOk) = false := by
    cases hs : e.sep <;> simp
    exact hn hs
  have hstep : step s (toOp e (.alloc id size)) =
      (storeLeakInformation s id size e.a e.file e.line e.sep e.fill,
        [.ualloc (requestSize size e.sep)] ++ nodeAllocEvs e.sep ++ [.ret id]) := by
    simp [toOp, step, LeakDetector.alloc, hsz, hz, hn']
  refine ⟨hf, ?_, ?_⟩
  · rw [hstep]
    refine { inv := ?_, recs := ?_, cur := h.cur, seq := ?_ }
    · exact store_inv h.inv _ _ _ _ _ _ _ hz ((isLive_false_iff id).mp hl')
    · have hp := (nodes_store h.inv id size e.a e.file e.line e.sep e.fill).map recOf
      refine hp.trans ?_
      rw [List.map_cons, recOf_newNode, h.cur, h.seq]
      exact List.Perm.cons _ h.recs
    · show s.seq + 1 = d.seq + 1
      rw [h.seq]
  · rw [hstep]; cases e.sep <;> simp [nodeAllocEvs]

theorem sim_free {s : State} {d : Detector} (h : R s d) (e : Env) (id : Nat) :
    R (step s (toOp e (.free id))).1 (d.free id) := by
  show R (dealloc s e.a id e.file e.line e.sep).1 (d.free id)
  have hsc := dealloc_scalars s e.a id e.file e.line e.sep
  refine { inv := dealloc_inv h.inv _ _ _ _ _, recs := ?_, cur := by rw [hsc.1]; exact h.cur,
           seq := by rw [hsc.2]; exact h.seq }
  rw [nodes_dealloc h.inv, map_recOf_filter_ne]
  exact h.recs.filter _

theorem sim_realloc {s : State} {d : Detector} (h : R s d) (e : Env) (id newId size : Nat)
    (hp : Pre e d (.realloc id newId size)) :
    FreshAddr s (toOp e (.realloc id newId size)) ∧
      R (step s (toOp e (.realloc id newId size))).1 ((d.free id).alloc newId size) ∧
      (step s (toOp e (.realloc id newId size))).2.getLast? = some (.ret newId) := by
  obtain ⟨hz, hl, hnew, hsz⟩ := hp
  have hl' : LeakDetector.isLive s id = true := by rw [← h.isLive_eq]; exact hl
  have hf : FreshAddr s (toOp e (.realloc id newId size)) := by
    rcases hnew with hq | hq
    · exact Or.inr (Or.inl hq)
    · exact Or.inr (Or.inr (by rw [← h.isLive_eq]; exact hq))
  obtain ⟨n, hn⟩ := (isLive_iff h.inv id).mp hl'
  have hmem := (retrieve_some_iff h.inv).mp hn
  have hidz : id ≠ 0 := by rw [← hmem.2]; exact h.inv.nonnull n hmem.1
  have hstep : step s (toOp e (.realloc id newId size)) =
      prependEvs (checkForCorruption s.typeChecking n e.file e.line e.a e.sep)
        (storeLeakInformation { s with table := s.table.unlinkNode id } newId size e.a e.file e.line e.sep e.fill,
          [.urealloc id (requestSize size e.sep)] ++ nodeAllocEvs e.sep ++ [.ret newId]) := by
    simp [toOp, step, LeakDetector.realloc, hsz, hidz, hn, reallocTail, hz]
  have inv1 : State.Inv { s with table := s.table.unlinkNode id } := Table.Inv.unlink h.inv id
  have hinv : (step s (toOp e (.realloc id newId size))).1.Inv := step_inv h.inv _ hf
  refine ⟨hf, ?_, ?_⟩
  · refine { inv := hinv, recs := ?_, cur := ?_, seq := ?_ }
    · rw [hstep]
      show (State.nodes (storeLeakInformation _ newId size e.a e.file e.line e.sep e.fill)).map recOf |>.Perm _
      have hp := (nodes_store inv1 newId size e.a e.file e.line e.sep e.fill).map recOf
      refine hp.trans ?_
      rw [List.map_cons, recOf_newNode]
      show List.Perm ({ id := newId, period := toPP s.period, num := s.seq, size := size } ::
        (State.nodes { s with table := s.table.unlinkNode id }).map recOf) _
      rw [nodes_unlink h.inv id, nodes_eraseP_eq_filter h.inv, map_recOf_filter_ne, h.cur, h.seq]
      exact List.Perm.cons _ (h.recs.filter _)
    · rw [hstep]; exact h.cur
    · rw [hstep]; show s.seq + 1 = d.seq + 1; rw [h.seq]
  · rw [hstep]; cases e.sep <;> simp [prependEvs, nodeAllocEvs]

/-- A failing platform realloc: whatever the arguments (block outstanding or not, NULL, overflowing size),
    the table keeps its records and so does the abstract detector.  (Rests on the regenerated field sources
    of `reallocMemory`'s failure branch being `oldNode.…`.) -/
theorem sim_reallocFail {s : State} {d : Detector} (h : R s d) (e : Env) (id size : Nat) :
    FreshAddr s (toOp e (.reallocFail id size)) ∧
      R (step s (toOp e (.reallocFail id size))).1 (d.reallocFail id size) ∧
      (step s (toOp e (.reallocFail id size))).2.getLast? = some (.ret 0) := by
  have hf : FreshAddr s (toOp e (.reallocFail id size)) := Or.inl rfl
  rw [LeakPlugin.reallocFail_eq]
  have hinv : (step s (toOp e (.reallocFail id size))).1.Inv := step_inv h.inv _ hf
  refine ⟨hf, ?_⟩
  show R (LeakDetector.realloc s e.a id size e.file e.line e.sep 0 e.fill).1 d ∧
    (LeakDetector.realloc s e.a id size e.file e.line e.sep 0 e.fill).2.getLast? = some (.ret 0)
  have hinv' : (LeakDetector.realloc s e.a id size e.file e.line e.sep 0 e.fill).1.Inv := hinv
  unfold LeakDetector.realloc at hinv' ⊢
  by_cases hsz : sizeOverflows size = true
  · simp only [hsz, if_true]; exact ⟨h, rfl⟩
  · simp only [hsz, Bool.false_eq_true, if_false] at hinv' ⊢
    by_cases hz : id = 0
    · simp only [hz, if_true, reallocTail]; exact ⟨h, rfl⟩
    · simp only [hz, if_false] at hinv' ⊢
      cases hr : s.table.retrieveNode id with
      | none => exact ⟨h, rfl⟩
      | some n =>
        rw [hr] at hinv'
        have hmem := (retrieve_some_iff h.inv).mp hr
        have inv1 : State.Inv { s with table := s.table.unlinkNode id } := Table.Inv.unlink h.inv id
        simp only [reallocTail, if_true, prependEvs] at hinv' ⊢
        refine ⟨{ inv := hinv', recs := ?_, cur := h.cur, seq := h.seq }, by cases e.sep <;> simp [nodeAllocEvs]⟩
        show (((s.table.unlinkNode id).addNewNode { n with sepNode := e.sep }).flat.map recOf).Perm d.recs
        have hp := (Table.Inv.flat_add_perm inv1 { n with sepNode := e.sep }).map recOf
        refine hp.trans ?_
        rw [List.map_cons]
        show List.Perm (recOf n :: (State.nodes { s with table := s.table.unlinkNode id }).map recOf) _
        rw [nodes_unlink h.inv id, ← hmem.2, ← List.map_cons]
        exact ((cons_eraseP_perm h.inv.distinct hmem.1).map recOf).trans h.recs

theorem sim_demote {s : State} {d : Detector} (h : R s d) : R (markChecking s) d.demote := by
  have hm := markChecking_nodes h.inv
  refine { inv := hm.2, recs := ?_, cur := h.cur, seq := h.seq }
  rw [hm.1, List.map_map]
  have : (recOf ∘ demote) = (Detector.demoteRec ∘ recOf) := by
    funext n; exact recOf_demote n
  rw [this, ← List.map_map]
  exact h.recs.map _

/-- **Forward simulation, one step.**  Connects `LeakPlugin.Detector` (C07) with `LeakDetector.step` (C04):
    every operation of the abstract detector whose precondition holds is matched by the corresponding table
    operation; the environment hypothesis of the C04 theorems (`FreshAddr`) follows from the precondition. -/
theorem step_simulates (e : Env) {s : State} {d : Detector} (h : R s d) (op : DOp) (hp : Pre e d op) :
    FreshAddr s (toOp e op) ∧ R (step s (toOp e op)).1 (applyD d op) := by
  cases op with
  | startChecking => exact ⟨trivial, sim_switch h .checking _ rfl rfl rfl⟩
  | stopChecking => exact ⟨trivial, sim_switch h .enabled _ rfl rfl rfl⟩
  | enable => exact ⟨trivial, sim_switch h .enabled _ rfl rfl rfl⟩
  | alloc id size => exact ⟨(sim_alloc h e id size hp).1, (sim_alloc h e id size hp).2.1⟩
  | free id => exact ⟨trivial, sim_free h e id⟩
  | realloc id newId size => exact ⟨(sim_realloc h e id newId size hp).1, (sim_realloc h e id newId size hp).2.1⟩
  | reallocFail id size => exact ⟨(sim_reallocFail h e id size).1, (sim_reallocFail h e id size).2.1⟩
  | demote => exact ⟨trivial, sim_demote h⟩

/-! ## histories -/

def applyAll (d : Detector) (ops : List (Env × DOp)) : Detector := ops.foldl (fun d x => applyD d x.2) d

def toOps (ops : List (Env × DOp)) : List Op := ops.map (fun x => toOp x.1 x.2)

/-- the preconditions along an abstract history -/
def PreAll : Detector → List (Env × DOp) → Prop
  | _, [] => True
  | d, x :: xs => Pre x.1 d x.2 ∧ PreAll (applyD d x.2) xs

/-- **Forward simulation, every history.**  Connects `LeakPlugin.Detector` with `LeakDetector.run`: the
    table run over the corresponding history ends in a related state, and the history satisfies the
    hypothesis `FreshAll` of the C04 theorems. -/
theorem run_simulates : ∀ (ops : List (Env × DOp)) {s : State} {d : Detector}, R s d → PreAll d ops →
    FreshAll s (toOps ops) ∧ R (run s (toOps ops)).1 (applyAll d ops)
  | [], _, _, h, _ => ⟨trivial, h⟩
  | x :: xs, s, d, h, hp => by
    have h1 := step_simulates x.1 h x.2 hp.1
    have h2 := run_simulates xs h1.2 hp.2
    exact ⟨⟨h1.1, h2.1⟩, h2.2⟩

/-- The empty detectors are related: the C07 model's constructor state and the table of any size > 0. -/
theorem init_related (hp : Nat) (h : 0 < hp) : R (State.init hp) Detector.init :=
  { inv := inv_init hp h,
    recs := by
      have : (State.init hp).nodes = [] := by
        simp [State.nodes, Table.flat, State.init, Table.empty]
      rw [this]; exact List.Perm.refl _
    cur := rfl, seq := rfl }

/-! ## observables -/

/-- `totalMemoryLeaks(period)` of the abstract detector is the table's.  Connects
    `LeakPlugin.Detector.totalMemoryLeaks` with `LeakDetector.totalMemoryLeaks` (hence, by C04's
    `total_eq_card`, with the number of in-period records of the finite map). -/
theorem total_agrees {s : State} {d : Detector} (h : R s d) (p : PPeriod) :
    d.totalMemoryLeaks p = totalMemoryLeaks s (ofPP p) := by
  unfold Detector.totalMemoryLeaks Detector.leaksIn totalMemoryLeaks
  rw [Table.total_eq_countP, ← List.countP_eq_length_filter, ← h.recs.countP_eq, List.countP_map]
  congr 1
  funext n
  exact isInPeriod_recOf n p

/-- The entries a report adds are the records the table's `getFirstLeak/getNextLeak` walk visits, up to
    order.  Connects `LeakPlugin.Detector.report/leaksIn` with `LeakDetector.reportedLeaks`. -/
theorem report_agrees {s : State} {d : Detector} (h : R s d) (p : PPeriod) :
    (d.report p).out = d.out ++ d.leaksIn p ∧
    ((reportedLeaks s (ofPP p)).map recOf).Perm (d.leaksIn p) ∧
    (reportedLeaks s (ofPP p)).length = d.totalMemoryLeaks p ∧
    R s (d.report p) := by
  refine ⟨rfl, ?_, ?_, ⟨h.inv, h.recs, h.cur, h.seq⟩⟩
  · rw [reportedLeaks_eq h.inv]
    unfold Detector.leaksIn
    have : LeakDetector.isInPeriod (ofPP p) = ((fun r : Rec => Gen.LeakCode.isInPeriod r.period p) ∘ recOf) := by
      funext n; exact (isInPeriod_recOf n p).symm
    rw [this, ← List.filter_map]
    exact h.recs.filter _
  · rw [total_agrees h p]
    exact (report_entries_eq s h.inv (ofPP p)).2.1

/-- "is this block outstanding" agrees.  Connects `LeakPlugin.Detector.isLive` with `LeakDetector.isLive`. -/
theorem isLive_agrees {s : State} {d : Detector} (h : R s d) (id : Nat) :
    d.isLive id = LeakDetector.isLive s id := h.isLive_eq id

/-- A release is reported as "Deallocating non-allocated memory" by the table model exactly when the
    abstract detector does not hold the id (C04/C06 `free_non_allocated_iff` read through `R`). -/
theorem free_misuse_iff {s : State} {d : Detector} (h : R s d) (e : Env) (id : Nat) :
    firstFail (step s (toOp e (.free id))).2 = some .nonAllocated ↔ id ≠ 0 ∧ d.isLive id = false := by
  rw [h.isLive_eq]
  exact free_non_allocated_iff s h.inv e.a id e.file e.line e.sep

/-! ## the environment's allocations (`Detector.bump`) -/

/-- `k` tracked allocations of a block at address `x`, each released again (the test object the runner
    creates and destroys, …) -/
def churn (e : Env) (x size : Nat) : Nat → List (Env × DOp)
  | 0 => []
  | k + 1 => (e, .alloc x size) :: (e, .free x) :: churn e x size k

theorem alloc_free_eq (d : Detector) (x size : Nat) (hl : d.isLive x = false) :
    (d.alloc x size).free x = { d with seq := d.seq + 1 } := by
  unfold Detector.alloc Detector.free
  have : (({ id := x, period := d.cur, num := d.seq, size := size } : Rec) :: d.recs).filter (fun r => r.id != x) = d.recs := by
    rw [List.filter_cons_of_neg (by simp), List.filter_eq_self]
    intro r hr
    unfold Detector.isLive at hl
    rw [List.any_eq_false] at hl
    simpa using hl r hr
  simp only [this]

theorem applyAll_churn (e : Env) (x size : Nat) : ∀ (k : Nat) (d : Detector), d.isLive x = false →
    applyAll d (churn e x size k) = { d with seq := d.seq + k }
  | 0, d, _ => rfl
  | k + 1, d, hl => by
    show applyAll ((d.alloc x size).free x) (churn e x size k) = _
    have hl2 : ({ d with seq := d.seq + 1 } : Detector).isLive x = false := hl
    rw [alloc_free_eq d x size hl, applyAll_churn e x size k _ hl2]
    show ({ d with seq := d.seq + 1 + k } : Detector) = _
    rw [Nat.add_assoc, Nat.add_comm 1 k]

theorem preAll_churn (e : Env) (x size : Nat) (hx : x ≠ 0) (hsz : sizeOverflows size = false)
    (hn : e.sep = true → e.nodeOk = true) : ∀ (k : Nat) (d : Detector), d.isLive x = false →
    PreAll d (churn e x size k)
  | 0, _, _ => trivial
  | k + 1, d, hl => by
    refine ⟨⟨hx, hl, hsz, hn⟩, trivial, ?_⟩
    show PreAll ((d.alloc x size).free x) (churn e x size k)
    rw [alloc_free_eq d x size hl]
    exact preAll_churn e x size hx hsz hn k _ hl

/-- `Detector.bump n` ("the allocation number has moved on to `n`") is simulated by `n - seq` tracked
    allocate/release pairs of any block that is not outstanding.  Connects the C07 model's environment
    step with real table operations. -/
theorem bump_simulated {s : State} {d : Detector} (h : R s d) (e : Env) (x size n : Nat) (hx : x ≠ 0)
    (hl : d.isLive x = false) (hsz : sizeOverflows size = false) (hn : e.sep = true → e.nodeOk = true) :
    FreshAll s (toOps (churn e x size (n - d.seq))) ∧
      R (run s (toOps (churn e x size (n - d.seq)))).1 (d.bump n) := by
  have hr := run_simulates (churn e x size (n - d.seq)) h (preAll_churn e x size hx hsz hn _ d hl)
  rw [applyAll_churn e x size _ d hl] at hr
  have : ({ d with seq := d.seq + (n - d.seq) } : Detector) = d.bump n := by
    unfold Detector.bump
    congr 1
    omega
  rw [this] at hr
  exact hr

/-! ## whole scripted runs of the C07 model are simulated by table histories -/

/-- some table history (satisfying the C04 environment hypothesis) leads from `s` to a state related to `d` -/
def Reach (s : State) (d : Detector) : Prop := ∃ ops, FreshAll s ops ∧ R (run s ops).1 d

theorem run_append_fst : ∀ (a b : List Op) (s : State), (run s (a ++ b)).1 = (run (run s a).1 b).1
  | [], _, _ => rfl
  | x :: a, b, s => by
    show (run (step s x).1 (a ++ b)).1 = (run (run (step s x).1 a).1 b).1
    exact run_append_fst a b _

theorem freshAll_append : ∀ (a b : List Op) (s : State), FreshAll s a → FreshAll (run s a).1 b → FreshAll s (a ++ b)
  | [], _, _, _, h => h
  | x :: a, b, s, h1, h2 => ⟨h1.1, freshAll_append a b _ h1.2 h2⟩

theorem Reach.refl {s : State} {d : Detector} (h : R s d) : Reach s d := ⟨[], trivial, h⟩

theorem Reach.trans {s : State} {d d' : Detector} (h1 : Reach s d) (h2 : ∀ s', R s' d → Reach s' d') : Reach s d' := by
  obtain ⟨ops1, f1, r1⟩ := h1
  obtain ⟨ops2, f2, r2⟩ := h2 _ r1
  exact ⟨ops1 ++ ops2, freshAll_append _ _ _ f1 f2, by rw [run_append_fst]; exact r2⟩

theorem reach_op (e : Env) {s : State} {d : Detector} (h : R s d) (op : DOp) (hp : Pre e d op) :
    Reach s (applyD d op) :=
  ⟨[toOp e op], ⟨(step_simulates e h op hp).1, trivial⟩, (step_simulates e h op hp).2⟩

/-- scripted commands the table model can follow: block ids are addresses (not `NULL`), requested sizes do
    not overflow `size_t` once the bookkeeping is added -/
def CmdOk : Cmd → Prop
  | .alloc id size => id ≠ 0 ∧ sizeOverflows size = false
  | .realloc _ newId size => newId ≠ 0 ∧ sizeOverflows size = false
  | _ => True

def TestOk (t : Test) : Prop := ∀ c ∈ t.before ++ t.setup ++ t.body ++ t.teardown, CmdOk c

/-- the call environment is one in which allocations succeed: a separately kept accounting node is available -/
def Env.Good (e : Env) : Prop := e.sep = true → e.nodeOk = true

def idBound : List Rec → Nat
  | [] => 0
  | r :: rs => max r.id (idBound rs)

theorem le_idBound : ∀ (l : List Rec) (r : Rec), r ∈ l → r.id ≤ idBound l
  | x :: xs, r, h => by
    rcases List.mem_cons.mp h with rfl | h
    · exact Nat.le_max_left _ _
    · exact Nat.le_trans (le_idBound xs r h) (Nat.le_max_right _ _)

theorem exists_fresh (d : Detector) : ∃ x, x ≠ 0 ∧ d.isLive x = false := by
  refine ⟨idBound d.recs + 1, by omega, ?_⟩
  unfold Detector.isLive
  rw [List.any_eq_false]
  intro r hr
  have := le_idBound d.recs r hr
  simp only [beq_iff_eq]
  omega

theorem execCmd_reach (e : Env) (he : e.Good) {s : State} (w : World) (h : R s w.det) (c : Cmd) (hok : CmdOk c) :
    Reach s (LeakPlugin.execCmd w c).det := by
  cases c with
  | alloc id size =>
    show Reach s (LeakPlugin.doAlloc w id size).det
    unfold LeakPlugin.doAlloc
    split
    · exact Reach.refl h
    · rename_i hl
      exact reach_op e h (.alloc id size) ⟨hok.1, by simpa using hl, hok.2, he⟩
  | free id => exact reach_op e h (.free id) trivial
  | realloc id newId size =>
    show Reach s (LeakPlugin.doRealloc w id newId size).det
    unfold LeakPlugin.doRealloc
    split
    · exact Reach.refl h
    · rename_i h1
      split
      · exact Reach.refl h
      · rename_i h2
        have hl : w.det.isLive id = true := by simpa using h1
        have hn : newId = id ∨ w.det.isLive newId = false := by
          by_cases hq : newId = id
          · exact Or.inl hq
          · right
            have : (newId != id) = true := by simpa using hq
            simpa [this] using h2
        have hlive' : (LeakPlugin.doFree w id).det.isLive newId = false := by
          show (w.det.free id).isLive newId = false
          unfold Detector.isLive Detector.free
          rw [List.any_eq_false]
          intro r hr
          rw [List.mem_filter] at hr
          rcases hn with hq | hq
          · subst hq; simpa using hr.2
          · unfold Detector.isLive at hq
            rw [List.any_eq_false] at hq
            exact hq r hr.1
        have : (LeakPlugin.doAlloc (LeakPlugin.doFree w id) newId size).det = (w.det.free id).alloc newId size := by
          unfold LeakPlugin.doAlloc
          rw [if_neg (by simp [hlive'])]
          rfl
        rw [this]
        exact reach_op e h (.realloc id newId size) ⟨hok.1, hl, hn, hok.2⟩
  | reallocFail id size => exact reach_op e h (.reallocFail id size) trivial
  | expectLeaks n => exact Reach.refl h
  | ignoreLeaks => exact Reach.refl h
  | fail => exact Reach.refl h
  | envSeq n =>
    obtain ⟨x, hx, hl⟩ := exists_fresh w.det
    have hs : sizeOverflows 1 = false := by decide
    exact ⟨_, bump_simulated h e x 1 n hx hl hs he⟩

theorem reach_foldl {α : Type} (f : World → α → World) (P : α → Prop)
    (hstep : ∀ (s : State) (w : World) (x : α), P x → R s w.det → Reach s (f w x).det) :
    ∀ (xs : List α) (s : State) (w : World), (∀ x ∈ xs, P x) → R s w.det → Reach s (xs.foldl f w).det
  | [], _, _, _, h => Reach.refl h
  | x :: xs, s, w, hp, h =>
    (hstep s w x (hp x (List.mem_cons_self ..)) h).trans
      (fun s' h' => reach_foldl f P hstep xs s' (f w x) (fun y hy => hp y (List.mem_cons_of_mem _ hy)) h')

theorem runCmds_reach (e : Env) (he : e.Good) {s : State} (w : World) (h : R s w.det) (cs : List Cmd)
    (hok : ∀ c ∈ cs, CmdOk c) : Reach s (LeakPlugin.runCmds w cs).det :=
  reach_foldl LeakPlugin.stepCmd CmdOk (fun s w c hc h => by
    unfold LeakPlugin.stepCmd
    split
    · exact Reach.refl h
    · exact execCmd_reach e he w h c hc) cs s w hok h

theorem runPhase_reach (e : Env) (he : e.Good) {s : State} (w : World) (h : R s w.det) (ph : LeakPlugin.Phase)
    (cs : List Cmd) (hok : ∀ c ∈ cs, CmdOk c) : Reach s (LeakPlugin.runPhase w ph cs).det := by
  unfold LeakPlugin.runPhase
  apply runCmds_reach e he _ _ cs hok
  cases ph <;> exact h

theorem runOutside_reach (e : Env) (he : e.Good) {s : State} (w : World) (h : R s w.det) (cs : List Cmd)
    (hok : ∀ c ∈ cs, CmdOk c) : Reach s (LeakPlugin.runOutside w cs).det :=
  reach_foldl LeakPlugin.execOutside CmdOk (fun s w c hc h => by
    cases c with
    | alloc id size => exact execCmd_reach e he w h _ hc
    | free id => exact execCmd_reach e he w h _ hc
    | envSeq n => exact execCmd_reach e he w h _ hc
    | realloc _ _ _ => exact Reach.refl h
    | reallocFail _ _ => exact Reach.refl h
    | expectLeaks _ => exact Reach.refl h
    | ignoreLeaks => exact Reach.refl h
    | fail => exact Reach.refl h) cs s w hok h

theorem verdictStep_det (w : World) (p : PPeriod) :
    (LeakPlugin.verdictStep w p).det.recs = w.det.recs ∧ (LeakPlugin.verdictStep w p).det.cur = w.det.cur ∧
      (LeakPlugin.verdictStep w p).det.seq = w.det.seq :=
  ⟨LeakPlugin.verdictStep_recs w p, LeakPlugin.verdictStep_cur w p, LeakPlugin.verdictStep_seq w p⟩

/-- every statement of the plugin's pre/post action is followed by the table: connects `LeakPlugin.pstep`
    (interpreter of the regenerated statement lists) with `LeakDetector.step` -/
theorem pstep_reach (e : Env) {s : State} (w : World) (h : R s w.det) (st : PStep) :
    Reach s (LeakPlugin.pstep w st).det := by
  cases st with
  | startChecking => exact reach_op e h .startChecking trivial
  | stopChecking => exact reach_op e h .stopChecking trivial
  | saveFailureCount => exact Reach.refl h
  | countLeaks p => exact Reach.refl h
  | verdict p =>
    have hv := verdictStep_det w p
    exact Reach.refl (h.congr hv.1 hv.2.1 hv.2.2)
  | demote => exact reach_op e h .demote trivial
  | setIgnore b => exact Reach.refl h
  | setExpected n => exact Reach.refl h

theorem psteps_reach (e : Env) {s : State} (w : World) (h : R s w.det) (l : List PStep) :
    Reach s (l.foldl LeakPlugin.pstep w).det :=
  reach_foldl LeakPlugin.pstep (fun _ => True) (fun s w st _ h => pstep_reach e w h st) l s w (fun _ _ => trivial) h

theorem mem_ok {t : Test} (hok : TestOk t) :
    (∀ c ∈ t.before, CmdOk c) ∧ (∀ c ∈ t.setup, CmdOk c) ∧ (∀ c ∈ t.body, CmdOk c) ∧ (∀ c ∈ t.teardown, CmdOk c) := by
  unfold TestOk at hok
  refine ⟨fun c hc => hok c ?_, fun c hc => hok c ?_, fun c hc => hok c ?_, fun c hc => hok c ?_⟩ <;> simp [hc]

theorem runBody_reach (e : Env) (he : e.Good) {s : State} (w : World) (h : R s w.det) (t : Test) (hok : TestOk t) :
    Reach s (LeakPlugin.runBody w t).det := by
  obtain ⟨_, h1, h2, h3⟩ := mem_ok hok
  unfold LeakPlugin.runBody
  exact ((runPhase_reach e he w h .setup t.setup h1).trans
    (fun s' h' => runPhase_reach e he _ h' .body t.body h2)).trans
    (fun s' h' => runPhase_reach e he _ h' .teardown t.teardown h3)

/-- the state just before the post action (`LeakPlugin.atTeardownEnd`) is reached by a table history -/
theorem atTeardownEnd_reach (e : Env) (he : e.Good) {s : State} (w : World) (h : R s w.det) (t : Test) (hok : TestOk t) :
    Reach s (LeakPlugin.atTeardownEnd w t).det := by
  unfold LeakPlugin.atTeardownEnd LeakPlugin.atStart
  have h0 : R s (LeakPlugin.clearObs w).det := h
  exact ((runOutside_reach e he _ h0 t.before (mem_ok hok).1).trans
    (fun s' h' => psteps_reach e _ h' Gen.LeakCode.preSteps)).trans
    (fun s' h' => runBody_reach e he _ h' t hok)

/-- the post action on related states: the table does `stopChecking` then
    `markCheckingPeriodLeaksAsNonCheckingPeriod`, and the result is related to the C07 model's detector
    after the post action -/
theorem post_related {s : State} (w : World) (h : R s w.det) :
    R (markChecking (stopChecking s)) (LeakPlugin.postTestAction w).det := by
  have h1 : R (stopChecking s) w.det.stopChecking := sim_switch h .enabled _ rfl rfl rfl
  have h2 := sim_demote h1
  refine h2.congr ?_ ?_ ?_
  · rw [LeakPlugin.post_recs]; rfl
  · rw [LeakPlugin.post_cur]; rfl
  · rw [LeakPlugin.post_seq]; rfl

/-- **One scripted test.**  Connects `LeakPlugin.runTest` (C07) with `LeakDetector.run` (C04): there is a
    table history `ops` (with the C04 environment hypothesis) that leads to the moment of the post action;
    there
    * the number the plugin compares with the expected count is the REAL table's
      `totalMemoryLeaks(mem_leak_period_checking)` (after `stopChecking`),
    * the test gets a leak failure iff it passed its own checks, did not ignore leaks, and that table total
      differs from the declared number,
    * the failure's report lists (up to the table's bucket order) exactly the records the table's
      `getFirstLeak/getNextLeak` walk yields for the checking period, and states the table's total,
    * after the post action the detector of the C07 model is again related to the table
      (`markChecking (stopChecking …)`).
    So in the C07 theorems the abstract detector can be replaced by the real table. -/
theorem runTest_on_real_table (e : Env) (he : e.Good) {s : State} (w : World) (hc : LeakPlugin.Clean w)
    (h : R s w.det) (t : Test) (hok : TestOk t) :
    ∃ ops, FreshAll s ops ∧
      R (run s ops).1 (LeakPlugin.atTeardownEnd w t).det ∧
      R (markChecking (stopChecking (run s ops).1)) (LeakPlugin.runTest w t).det ∧
      totalMemoryLeaks (stopChecking (run s ops).1) .checking = (LeakPlugin.Hist.blocksOf w.liveIds t).length ∧
      ((LeakPlugin.runTest w t).leakFail.isSome = true ↔
        (w.overloads = true ∧ LeakPlugin.Hist.ownFailures w.liveIds t = 0 ∧ LeakPlugin.Hist.ignores w.liveIds t = false ∧
          totalMemoryLeaks (stopChecking (run s ops).1) .checking ≠ LeakPlugin.Hist.expected w.liveIds t)) ∧
      ∀ r, (LeakPlugin.runTest w t).leakFail = some r →
        r.total = totalMemoryLeaks (stopChecking (run s ops).1) .checking ∧
        r.entries.Perm ((reportedLeaks (stopChecking (run s ops).1) .checking).map recOf) := by
  obtain ⟨ops, hf, hr⟩ := atTeardownEnd_reach e he w h t hok
  have h1 : R (stopChecking (run s ops).1) (LeakPlugin.atTeardownEnd w t).det.stopChecking :=
    sim_switch hr .enabled _ rfl rfl rfl
  have htot : totalMemoryLeaks (stopChecking (run s ops).1) .checking = (LeakPlugin.Hist.blocksOf w.liveIds t).length := by
    have := total_agrees h1 .checking
    rw [show ofPP .checking = Gen.LeakDetector.Period.checking from rfl] at this
    rw [← this, LeakPlugin.totalMemoryLeaks_checking]
    exact LeakPlugin.leak_count_is_own_blocks w hc t
  refine ⟨ops, hf, hr, post_related _ hr, htot, ?_, ?_⟩
  · rw [htot, LeakPlugin.leakFail_runTest hc t]
    cases hov : w.overloads <;> simp [LeakPlugin.Hist.shouldFail, and_assoc]
  · intro r hrep
    rw [LeakPlugin.leakFail_runTest hc t] at hrep
    split at hrep
    · cases hrep
      refine ⟨htot.symm, ?_⟩
      have hp := (report_agrees h1 .checking).2.1
      rw [LeakPlugin.leaksIn_checking] at hp
      exact hp.symm
    · cases hrep

theorem runTest_reach (e : Env) (he : e.Good) {s : State} (w : World) (hc : LeakPlugin.Clean w) (h : R s w.det)
    (t : Test) (hok : TestOk t) : Reach s (LeakPlugin.runTest w t).det := by
  obtain ⟨ops, hf, _, hr, _⟩ := runTest_on_real_table e he w hc h t hok
  refine ⟨ops ++ [.stopChecking, .markChecking], freshAll_append _ _ _ hf
    (show FreshAll _ [Op.stopChecking, Op.markChecking] from ⟨trivial, trivial, trivial⟩), ?_⟩
  rw [run_append_fst]
  exact hr

/-- **Every sequence of scripted tests.**  Connects `LeakPlugin.runTests` with `LeakDetector.run`: the
    detector of the C07 model after any number of tests is the abstraction (`R`) of the table after some
    history that satisfies the C04 environment hypothesis — so every C04/C06 theorem (`run_refines`,
    `inv_run`, `run_totals_exact`, …) applies to it. -/
theorem runTests_reach (e : Env) (he : e.Good) : ∀ (ts : List Test) {s : State} (w : World), LeakPlugin.Clean w →
    R s w.det → (∀ t ∈ ts, TestOk t) → Reach s (LeakPlugin.runTests w ts).1.det
  | [], _, _, _, h, _ => Reach.refl h
  | t :: ts, s, w, hc, h, hok =>
    (runTest_reach e he w hc h t (hok t (List.mem_cons_self ..))).trans
      (fun s' h' => runTests_reach e he ts (LeakPlugin.runTest w t) (LeakPlugin.clean_runTest hc t) h'
        (fun t' ht' => hok t' (List.mem_cons_of_mem _ ht')))

/-- the C07 model's initial world (plugin constructor ran) is related to the enabled empty table -/
theorem init_world_related (ov : Bool) (hp : Nat) (h : 0 < hp) :
    R (step (State.init hp) .enable).1 (World.init ov).det :=
  (step_simulates default (init_related hp h) .enable trivial).2

/-- from the real initial table (`hash_prime` buckets, regenerated) -/
theorem runTests_from_init (e : Env) (he : e.Good) (ov : Bool) (ts : List Test) (hok : ∀ t ∈ ts, TestOk t) :
    ∃ ops, FreshAll (State.init Gen.LeakDetector.hashPrime) ops ∧
      R (run (State.init Gen.LeakDetector.hashPrime) ops).1 (LeakPlugin.runTests (World.init ov) ts).1.det := by
  obtain ⟨ops, hf, hr⟩ := runTests_reach e he ts (World.init ov) (LeakPlugin.init_clean ov)
    (init_world_related ov Gen.LeakDetector.hashPrime (by decide)) hok
  exact ⟨.enable :: ops, ⟨trivial, hf⟩, hr⟩

/-! ## non-vacuity -/

def exEnv : Env := { a := LeakDetector.exA, file := "t.c", line := 7, sep := true, nodeOk := true, fill := 0xA5 }

/-- two blocks in one bucket (1168 and 1168+73), a release, a moving realloc, a failing realloc, demotion -/
def exDOps : List (Env × DOp) :=
  [ (exEnv, .enable), (exEnv, .alloc 1168 4), (exEnv, .startChecking), (exEnv, .alloc 1241 8), (exEnv, .alloc 5 1),
    (exEnv, .free 1168), (exEnv, .free 999), (exEnv, .realloc 1241 1314 20), (exEnv, .reallocFail 1314 100000),
    (exEnv, .stopChecking), (exEnv, .demote), (exEnv, .startChecking), (exEnv, .alloc 1168 2), (exEnv, .alloc 2 1) ]

example : PreAll Detector.init exDOps := by
  simp only [exDOps, PreAll, Pre, applyD]
  decide

/-- a concrete non-trivial related pair: the table after the history and the abstract detector after the same history -/
example : R (run (State.init 73) (toOps exDOps)).1 (applyAll Detector.init exDOps) :=
  (run_simulates exDOps (init_related 73 (by decide)) (by simp only [exDOps, PreAll, Pre, applyD]; decide)).2

example : (applyAll Detector.init exDOps).recs.map (fun r => (r.id, r.num, r.size, r.period)) =
    [(2, 6, 1, .checking), (1168, 5, 2, .checking), (1314, 4, 20, .enabled), (5, 3, 1, .enabled)] := by decide

example : ((run (State.init 73) (toOps exDOps)).1.nodes.map recOf).map (fun r => (r.id, r.num, r.size, r.period)) =
    [(1168, 5, 2, .checking), (1314, 4, 20, .enabled), (2, 6, 1, .checking), (5, 3, 1, .enabled)] := by decide

example : totalMemoryLeaks (run (State.init 73) (toOps exDOps)).1 .checking = 2 ∧
    (applyAll Detector.init exDOps).totalMemoryLeaks .checking = 2 ∧
    (applyAll Detector.init exDOps).totalMemoryLeaks .enabled = 4 := by decide

/-- the scripted tests of `Props/C07.lean` meet the hypotheses of `runTests_from_init` -/
example : ∀ t ∈ LeakPlugin.exampleTests ++ LeakPlugin.reallocTests, TestOk t := by
  intro t ht c hc
  simp only [LeakPlugin.exampleTests, LeakPlugin.reallocTests, List.mem_append, List.mem_cons, List.not_mem_nil, or_false] at ht
  rcases ht with (rfl | rfl | rfl | rfl | rfl | rfl) | (rfl | rfl | rfl | rfl) <;>
    simp at hc <;> (try rcases hc with rfl | rfl | rfl | rfl | rfl | rfl | rfl) <;>
    first | trivial | (constructor <;> decide)

example : exEnv.Good := fun _ => rfl

end Compose.C07x
