import CppUModel.Proofs.TeamCityRun
import CppUModel.Proofs.TeamCityParse
import CppUModel.Proofs.TeamCityStream
import CppUModel.Proofs.TeamCityLoop
import CppUModel.Proofs.TeamCitySeparate
import CppUModel.Model.TeamCityMock
/-!
# C20 — TeamCity output is a balanced, correctly escaped service-message stream

Property theorems only.  Model: `Model/TeamCity.lean` (from `src/CppUTest/TeamCityTestOutput.cpp`)
over the runner events of `Model/OutputEvents.lean` (from `TestRegistry::runAllTests`);
vocabulary: `Spec/TeamCity.lean` (the TeamCity rules, written independently of the code).
`printEscaped` follows the branch table regenerated from the source on every run
(`Gen/EscapeTables.lean`); `escape_table_is_teamcity_rule` is the obligation over that table.
-/
namespace TeamCity
open Text (Bytes)
open OutEv

/-- The regenerated branch chain of `printEscaped` is exactly the TeamCity escaping rule
    (`|` before `' | [ ]`, `|r` for CR, `|n` for LF, everything else unchanged), for every byte. -/
theorem escape_table_is_teamcity_rule : ∀ c : UInt8, escByte c = escRef c := escByte_eq_ref

/-! ## the writer is what the source says (regenerated statement lists) -/

/-- OBLIGATION over `Gen/TeamCityWriters.lean` (regenerated from TeamCityTestOutput.cpp / TestOutput.cpp on every run): for
    every writer state and every callback, executing the SOURCE's statement list — every literal, which field goes through
    `printEscaped`, the order of the pieces, the early-return guards, where `currtest_` and `currGroup_` are assigned —
    produces exactly the bytes and the next state of the hand-written writer.  All theorems of this file are about `step`,
    i.e. about the interpreter of the regenerated lists. -/
theorem writers_are_the_source (s : St) (e : Ev) : step s e = stepHand s e := step_eq_hand s e

/-- … hence for whole runs: the stream of ANY event list, from any state. -/
theorem stream_is_hand_stream : ∀ (evs : List Ev) (s : St), foldEvents step s evs = foldEvents stepHand s evs
  | [], _ => rfl
  | e :: es, s => by
    simp only [foldEvents, step_eq_hand, stream_is_hand_stream es]

/-- Every callback, executed from its regenerated statement list in any state, writes exactly the rendering
    (`Msg.render`: every value escaped by the TeamCity rules, nothing else between the quotes) of the messages it stands
    for — the per-callback form of `all_values_escaped`. -/
theorem callbacks_render_messages (s : St) (e : Ev) : (step s e).2 = renderAll (msgsOf s e) := step_renders s e

open Gen.TeamCityWriters in
/-- no statement of a writer prints a text field with `print` (only with `printEscaped`) -/
def escapedOnly : List Stmt → Bool
  | [] => true
  | .out (.raw _) :: _ => false
  | .cond _ body :: rest => body.all (fun a => match a with | .raw _ => false | _ => true) && escapedOnly rest
  | _ :: rest => escapedOnly rest

/-- Directly on the regenerated lists: in all five overridden callbacks every name, file name and message goes through
    `printEscaped` — no `print(<text>.asCharString())` anywhere. -/
theorem every_text_field_is_escaped :
    escapedOnly Gen.TeamCityWriters.printCurrentTestStarted = true ∧ escapedOnly Gen.TeamCityWriters.printCurrentTestEnded = true ∧
    escapedOnly Gen.TeamCityWriters.printCurrentGroupStarted = true ∧ escapedOnly Gen.TeamCityWriters.printCurrentGroupEnded = true ∧
    escapedOnly Gen.TeamCityWriters.printFailure = true ∧ escapedOnly Gen.TeamCityWriters.printTestRun = true := by decide

/-- What each callback does to the writer's state, for all states: a suite start names the NEW group (assigned before it is
    printed) and remembers it; a test start remembers the test; nothing else changes `currtest_` / `currGroup_`. -/
theorem callback_state_effects (s : St) :
    (∀ t, step s (.groupStarted t) = ({ s with currGroup := t.group }, renderAll [.suiteStarted t.group])) ∧
    (∀ t, (step s (.testStarted t)).1 = { s with currTest := some t.name }) ∧
    (∀ f, (step s (.failure f)).1 = s) ∧ (∀ ms c, (step s (.testEnded ms c)).1 = s) ∧ (∀ ms, (step s (.groupEnded ms)).1 = s) ∧
    (∀ i n, (step s (.testRun i n)).1 = s) := by
  refine ⟨fun t => ?_, fun t => ?_, fun f => ?_, fun ms c => ?_, fun ms => ?_, fun i n => ?_⟩
  · rw [Prod.ext_iff]; exact ⟨by simp [step_eq_hand, stepHand], by rw [step_renders]; rfl⟩
  all_goals simp [step_eq_hand, stepHand]

/-! ## a TeamCity output inside a `CompositeTestOutput` -/

theorem both_sink_right : ∀ (evs : List Ev) (s : St) (n : Nat),
    (foldEvents (both step sinkStep) (s, n) evs).2 = (foldEvents step s evs).2
  | [], _, _ => rfl
  | e :: es, s, n => by
    simp only [foldEvents, both, sinkStep, List.append_nil]
    rw [both_sink_right es]

theorem both_sink_left : ∀ (evs : List Ev) (s : St) (n : Nat),
    (foldEvents (both sinkStep step) (n, s) evs).2 = (foldEvents step s evs).2
  | [], _, _ => rfl
  | e :: es, s, n => by
    simp only [foldEvents, both, sinkStep, List.nil_append]
    rw [both_sink_left es]

/-- Used as either output of a `CompositeTestOutput` whose other output writes elsewhere, the TeamCity output produces, for
    ANY event list, exactly the stream it produces when used directly — so every theorem about `streamV` (escaping,
    balance, decoding) holds for that configuration too. -/
theorem composite_stream_is_teamcity_stream (position : Nat) (vv : Bool) (evs : List Ev) :
    streamComposite position vv evs = streamV vv evs := by
  unfold streamComposite streamV
  split
  · exact both_sink_right evs _ _
  · exact both_sink_left evs _ _

/-- OBLIGATION over the regenerated method table of `CompositeTestOutput`: every callback through which the runner, a test
    or the base class reaches an output (the six run callbacks, printFailure, the three print overloads, printVeryVerbose,
    verbose, printBuffer, flush) is forwarded to `outputOne_` and to `outputTwo_`. -/
theorem composite_forwards_every_callback : compositeForwardsAll = true := by decide

/-- Decoding an escaped value by the TeamCity rules returns the original, for all byte strings. -/
theorem decode_escape (s : Bytes) : decodeTC (printEscaped s) = s := by
  have := decodeAux_escapeRef s []
  simpa [decodeTC, printEscaped_eq_ref, decodeAux] using this

/-- Every `'` and every `]` in an escaped value is preceded by an odd run of `|` (scanner form). -/
theorem no_unescaped_quote (s : Bytes) : oddRunOk false (printEscaped s) = true := by
  have := oddRunOk_escapeRef s []
  simpa [printEscaped_eq_ref, oddRunOk] using this

/-- The same, position by position: wherever a `'` or `]` occurs in an escaped value, the run of
    `|` immediately before it has odd length. -/
theorem quote_preceded_by_odd_run (s pre post : Bytes) (c : UInt8) (hc : c = 39 ∨ c = 93)
    (h : printEscaped s = pre ++ c :: post) : trailingBars pre % 2 = 1 := by
  have h1 := no_unescaped_quote s
  rw [h] at h1
  have h2 := oddRunOk_split pre post c hc false h1
  rw [parityAfter_eq_trailing] at h2
  simpa using h2

/-- No value can end a message early: a TeamCity reader that starts after the opening quote and
    stops at the first quote that is not escaped reads exactly the original value, and continues
    exactly after the closing quote — whatever the value and whatever follows. -/
theorem value_ends_at_its_quote (v rest : Bytes) :
    scanValue false (printEscaped v ++ 39 :: rest) [] = some (v, rest) := by
  rw [printEscaped_eq_ref, scanValue_escapeRef]; simp

/-- Every variable field of every message goes through the escape: the byte stream of ANY event
    list is the rendering of its message list (`Msg.render` escapes every name, location and
    message value; durations are digits).  In particular the failure location
    `TEST failed (file:line): file:line` is the escape of the plain location text. -/
theorem all_values_escaped (vv : Bool) (evs : List Ev) : streamV vv evs = renderAll (messagesV vv evs) :=
  (fold_renders evs _).1

/-- The messages of every run pair up: each suite start has its finish, each test start inside
    a suite has its finish, ignored and failed messages name the open test, nothing stays open —
    for every registry (any number of groups and tests, any pass/fail/ignore pattern, any name
    filter) in which no group name is empty. -/
theorem messages_balanced (vv : Bool) (flt : Option Filter) (tests : List Script)
    (hne : ∀ t ∈ tests, t.info.group ≠ []) : balanced (messagesV vv (runAll flt tests)) = true := by
  have h := loop_balanced flt tests true 0 {} { veryVerbose := vv } .idle hne (Or.inl ⟨rfl, rfl⟩)
  simp only [runB] at h
  simp [balanced, messagesV, runAll, foldEvents, msgStep, msgsOf, step_eq_hand, stepHand, msgsFrom] at h ⊢
  exact h

/-- Each failure message is emitted while a test is open and carries that test's name — for every
    registry, without any condition on the names, in the default and in the very verbose mode. -/
theorem failure_belongs_to_open_test (vv : Bool) (flt : Option Filter) (tests : List Script) :
    failuresInOpenTest none (messagesV vv (runAll flt tests)) = true := by
  have h := loop_failures_open flt tests true 0 {} { veryVerbose := vv } none
  simpa [messagesV, runAll, foldEvents, msgStep, msgsOf, step_eq_hand, stepHand, msgsFrom] using h

/-! ## repeated runs (`-r<n>`): one output object, its state carried from run to run -/

/-- one repetition, from ANY state of the writer (whatever `currGroup_` / `currtest_` the previous
    repetition left behind — they are never cleared), leaves nothing open -/
theorem repetition_balanced (flt : Option Filter) (tests : List Script) (hne : ∀ t ∈ tests, t.info.group ≠ [])
    (i n : Nat) (s : St) : runB .idle s (.testRun i n :: runAll flt tests) = some .idle := by
  have h := loop_balanced flt tests true 0 {} s .idle hne (Or.inl ⟨rfl, rfl⟩)
  simp only [runB] at h ⊢
  by_cases hn : n > 1 <;>
    simpa [runAll, msgsFrom_cons, msgsOf, step_eq_hand, stepHand, hn, balRun, balStep] using h

theorem repetitions_balanced (flt : Option Filter) (tests : List Script) (hne : ∀ t ∈ tests, t.info.group ≠ [])
    (n : Nat) : ∀ (k : Nat) (s : St),
      runB .idle s ((List.range k).flatMap fun i => Ev.testRun (i + 1) n :: runAll flt tests) = some .idle
  | 0, s => rfl
  | k + 1, s => by
    rw [List.range_succ, List.flatMap_append, runB_append, repetitions_balanced flt tests hne n k s, Option.bind_some]
    simpa using repetition_balanced flt tests hne (k + 1) n _

/-- The messages of ANY number of consecutive runs on one output object pair up (`-r<n>`, default and
    very verbose mode): every suite start has exactly one matching finish in every repetition, although the
    writer's `currGroup_` still names the last suite of the previous repetition when the next one starts. -/
theorem messages_balanced_repeated (vv : Bool) (n : Nat) (flt : Option Filter) (tests : List Script)
    (hne : ∀ t ∈ tests, t.info.group ≠ []) : balanced (messagesV vv (runRepeated n flt tests)) = true := by
  have h := repetitions_balanced flt tests hne n n { veryVerbose := vv }
  simp only [runB] at h
  simp only [balanced, messagesV, runRepeated]
  rw [show (foldEvents msgStep { veryVerbose := vv } ((List.range n).flatMap fun i => Ev.testRun (i + 1) n :: runAll flt tests)).2 =
    msgsFrom { veryVerbose := vv } ((List.range n).flatMap fun i => Ev.testRun (i + 1) n :: runAll flt tests) from rfl, h]
  rfl

theorem repetitions_failures_open (flt : Option Filter) (tests : List Script) (n : Nat) : ∀ (k : Nat) (s : St) (cur : Option Bytes),
    failuresInOpenTest cur (msgsFrom s ((List.range k).flatMap fun i => Ev.testRun (i + 1) n :: runAll flt tests)) = true
  | 0, s, cur => by simp [msgsFrom_nil, failuresInOpenTest]
  | k + 1, s, cur => by
    rw [List.range_succ, List.flatMap_append, msgsFrom_append, failuresInOpenTest_append, repetitions_failures_open flt tests n k]
    have h := fun s' c => loop_failures_open flt tests true 0 {} s' c
    simp only [List.flatMap_cons, List.flatMap_nil, List.append_nil, Bool.true_and]
    by_cases hn : n > 1 <;>
      simp [runAll, msgsFrom_cons, msgsOf, step_eq_hand, stepHand, hn, failuresInOpenTest, h]

/-- … and every failure message of every repetition belongs to the test that is open. -/
theorem failure_belongs_to_open_test_repeated (vv : Bool) (n : Nat) (flt : Option Filter) (tests : List Script) :
    failuresInOpenTest none (messagesV vv (runRepeated n flt tests)) = true :=
  repetitions_failures_open flt tests n n { veryVerbose := vv } none

/-- An ignored test is flagged: its messages are exactly started, ignored, finished. -/
theorem ignored_flagged (t : Script) (r : R) (s : St) (h : t.info.willRun = false) :
    msgsFrom s (testEvs t r) =
      [.testStarted t.info.name, .testIgnored t.info.name, .testFinished t.info.name 0] := by
  simp [testEvs, h, msgsFrom_cons, msgsFrom_nil, msgsOf, step_eq_hand, stepHand]

theorem inner_not_flagged (t : TestInfo) : ∀ (l : List Ev) (s : St) (x : Bytes), InnerOK t l →
    Msg.testIgnored x ∉ msgsFrom s l
  | [], s, x, _ => by simp [msgsFrom_nil]
  | e :: es, s, x, h => by
    have he : okEv t e := h e (List.mem_cons_self ..)
    have ih := fun s' => inner_not_flagged t es s' x (fun y hy => h y (List.mem_cons_of_mem _ hy))
    rw [msgsFrom_cons]
    simp only [List.mem_append, not_or]
    refine ⟨?_, ih _⟩
    cases e with
    | print y => simp [msgsOf]
    | veryVerbose y => cases hv : s.veryVerbose <;> simp [msgsOf, hv]
    | failure f => simp [msgsOf]
    | testRun _ _ => exact absurd he (by simp [okEv])
    | testsStarted => exact absurd he (by simp [okEv])
    | groupStarted _ => exact absurd he (by simp [okEv])
    | testStarted _ => exact absurd he (by simp [okEv])
    | testEnded _ _ => exact absurd he (by simp [okEv])
    | groupEnded _ => exact absurd he (by simp [okEv])
    | testsEnded _ => exact absurd he (by simp [okEv])

/-- A test that runs is never flagged as ignored. -/
theorem running_test_not_flagged (t : Script) (r : R) (s : St) (h : t.info.willRun = true) (x : Bytes) :
    Msg.testIgnored x ∉ msgsFrom s (testEvs t r) := by
  simp only [testEvs, h, if_true]
  show Msg.testIgnored x ∉ msgsFrom s ([Ev.testStarted t.info] ++ (testInner t.info t.acts ++ [Ev.testEnded _ _]))
  rw [msgsFrom_append, msgsFrom_append]
  simp only [List.mem_append, not_or]
  refine ⟨by simp [msgsFrom_cons, msgsFrom_nil, msgsOf, h], inner_not_flagged _ _ _ _ (InnerOK_testInner _ _), ?_⟩
  generalize stAfter _ (testInner t.info t.acts) = s'
  cases hc : s'.currTest <;> simp [msgsFrom_cons, msgsFrom_nil, msgsOf, hc]

/-! ## which test a failure names, whoever constructs it -/

/-- Obligation over the regenerated member-initialiser lists of src/CppUTest/TestFailure.cpp: every
    `TestFailure` constructor — with file, line and message; with a message only (leak plugin, mock
    failures, separate-process failures, plugins); with file and line only; and `FailFailure` — gives
    the failure the NAME of the test (what `testStarted` announced), the test's own file and line as
    test location, and the given location or, when none is given, the test's. -/
theorem failure_names_its_test (t : TestInfo) (f : Bytes) (l : Nat) (m : Bytes) :
    (locMsgFailure t f l m).testName = t.name ∧ (msgFailure t m).testName = t.name ∧
    (locFailure t f l).testName = t.name ∧ (exitFailure t f l m).testName = t.name ∧
    (msgFailure t m).file = t.file ∧ (msgFailure t m).line = t.line ∧
    (locMsgFailure t f l m).file = f ∧ (locMsgFailure t f l m).line = l ∧
    (locMsgFailure t f l m).testFile = t.file ∧ (locMsgFailure t f l m).testLine = t.line :=
  ⟨locMsgFailure_testName t f l m, msgFailure_testName t m, locFailure_testName t f l, exitFailure_testName t f l m,
   msgFailure_file t m, msgFailure_line t m, locMsgFailure_file t f l m, locMsgFailure_line t f l m,
   locMsgFailure_testFile t f l m, locMsgFailure_testLine t f l m⟩

/-- A failure without a location is located at the test itself, so it never gets the
    `TEST failed (file:line): ` prefix; a located one gets it exactly when it lies in another file
    or above the test's line. -/
theorem location_prefix_cases (t : TestInfo) (f : Bytes) (l : Nat) (m : Bytes) :
    failurePrefix (msgFailure t m) = [] ∧
    (failurePrefix (locMsgFailure t f l m) = [] ↔ (f = t.file ∧ t.line ≤ l)) := by
  constructor
  · simp [failurePrefix, Failure.isOutsideTestFile, Failure.isInHelperFunction, msgFailure_file, msgFailure_line,
      msgFailure_testFile, msgFailure_testLine]
  · simp only [failurePrefix, Failure.isOutsideTestFile, Failure.isInHelperFunction, locMsgFailure_file,
      locMsgFailure_line, locMsgFailure_testFile, locMsgFailure_testLine]
    constructor
    · intro h
      split at h
      · simp [lit] at h
        exact ⟨h.1.symm, Nat.not_lt.mp (of_decide_eq_false h.2)⟩
      · rename_i hc
        simp only [Bool.or_eq_true, bne_iff_ne, ne_eq, not_or, Decidable.not_not] at hc
        exact ⟨hc.1.symm, Nat.not_lt.mp (fun hlt => hc.2 (decide_eq_true hlt))⟩
    · rintro ⟨rfl, h2⟩
      simp [Nat.not_lt.mpr h2]

/-! ## failures found by the mock plugin's post-test action (`Model/TeamCityMock.lean`)

`MockSupportPlugin::postTestAction` runs after `runOneTestInCurrentProcess` has put the saved current test back, so
`UtestShell::getCurrent()` is no longer the test the failure is about; `MockSupportPluginReporter::getTestToFail` returns
the plugin's own `test` argument.  The failure is a post-action failure of the open test. -/

section MockPlugin
open TeamCityMock

theorem postEvs_append (t : TestInfo) : ∀ (a b : List Act), postEvs t (a ++ b) = postEvs t a ++ postEvs t b
  | [], b => rfl
  | .postFail m :: as, b => by simp [postEvs, postEvs_append t as b]
  | .print _ _ _ :: as, b => by simp [postEvs, postEvs_append t as b]
  | .fail _ _ _ :: as, b => by simp [postEvs, postEvs_append t as b]
  | .failExit _ _ _ :: as, b => by simp [postEvs, postEvs_append t as b]
  | .failMsg _ :: as, b => by simp [postEvs, postEvs_append t as b]
  | .failLoc _ _ :: as, b => by simp [postEvs, postEvs_append t as b]
  | .checks _ :: as, b => by simp [postEvs, postEvs_append t as b]
  | .tick _ :: as, b => by simp [postEvs, postEvs_append t as b]

theorem actEvs_append_postFail (t : TestInfo) (m : Bytes) : ∀ a : List Act, actEvs t (a ++ [.postFail m]) = actEvs t a
  | [] => rfl
  | .postFail _ :: as => by simp [actEvs, actEvs_append_postFail t m as]
  | .print _ _ _ :: as => by simp [actEvs, actEvs_append_postFail t m as]
  | .fail _ _ _ :: as => by simp [actEvs, actEvs_append_postFail t m as]
  | .failExit _ _ _ :: as => by simp [actEvs]
  | .failMsg _ :: as => by simp [actEvs, actEvs_append_postFail t m as]
  | .failLoc _ _ :: as => by simp [actEvs, actEvs_append_postFail t m as]
  | .checks _ :: as => by simp [actEvs, actEvs_append_postFail t m as]
  | .tick _ :: as => by simp [actEvs, actEvs_append_postFail t m as]

/-- The failure the mock plugin's post-test action reports is built for the test the PLUGIN was called for — whatever
    `UtestShell::getCurrent()` is by then (`c.current` is arbitrary) — and the writer renders it as a `testFailed`
    message with that test's name, located at that test, the mock framework's text as details. -/
theorem mock_plugin_failure_names_the_plugins_test (c : PostCall) (name : Bytes) (s : St) (h : c.hasFailed = false) :
    postTestAction c (some name) = [.failure (msgFailure c.test (mockMessage name))] ∧
    msgsFrom s (postTestAction c (some name)) =
      [.testFailed c.test.name (c.test.file ++ lit ":" ++ dec c.test.line) (mockMessage name)] := by
  have h1 : postTestAction c (some name) = [.failure (msgFailure c.test (mockMessage name))] := by
    simp [postTestAction, h, testToFail]
  refine ⟨h1, ?_⟩
  rw [h1]
  simp [msgsFrom_cons, msgsFrom_nil, msgsOf, failureLocation, Failure.isOutsideTestFile, Failure.isInHelperFunction,
    msgFailure_file, msgFailure_line, msgFailure_testFile, msgFailure_testLine, msgFailure_testName, msgFailure_message]

/-- a test that has failed already is not checked (`if (!test.hasFailed())`), and no expectation = no failure -/
theorem mock_plugin_silent (c : PostCall) (name : Bytes) (h : c.hasFailed = true) :
    postTestAction c (some name) = [] ∧ postTestAction c none = [] := by
  simp [postTestAction, h]

/-- The scripted form used by the run model (`withMock`) is exactly that post-test action, appended to the other
    plugins' post-action failures (the mock plugin is installed last); the body's events and the test's identity
    are unchanged. -/
theorem mock_scenario_is_the_plugins_post_action (t : Script) (left : Option Bytes) (cur : TestInfo) :
    postEvs t.info (withMock left t).acts =
      postEvs t.info t.acts ++ postTestAction { test := t.info, current := cur, hasFailed := bodyHasFailed t.acts } left ∧
    actEvs t.info (withMock left t).acts = actEvs t.info t.acts ∧ (withMock left t).info = t.info := by
  cases left with
  | none => simp [withMock, postTestAction]
  | some name =>
    cases hb : bodyHasFailed t.acts <;>
      simp [withMock, postTestAction, hb, postEvs, actEvs, postEvs_append, actEvs_append_postFail, testToFail]

theorem withMock_info (left : Option Bytes) (t : Script) : (withMock left t).info = t.info :=
  (mock_scenario_is_the_plugins_post_action t left t.info).2.2

theorem applyMocks_groups (tests : List Script) (mocks : List (Nat × Bytes)) (hne : ∀ t ∈ tests, t.info.group ≠ []) :
    ∀ t ∈ applyMocks tests mocks, t.info.group ≠ [] := by
  intro t ht
  simp only [applyMocks, List.mem_map] at ht
  obtain ⟨p, hp, rfl⟩ := ht
  rw [withMock_info]
  exact hne p.1 (List.of_mem_zip (a := p.1) (b := p.2) hp).1

/-- A failure added by the mock plugin's post-test action lies inside the started/finished block of its test and names
    it: in every run (any registry, filter, number of repetitions, verbosity) in which any tests leave a mock expectation
    unfulfilled, every `testFailed` names the open test, and all messages pair up. -/
theorem mock_post_action_failure_belongs_to_open_test (vv : Bool) (n : Nat) (flt : Option Filter) (tests : List Script)
    (mocks : List (Nat × Bytes)) :
    failuresInOpenTest none (messagesV vv (runRepeated n flt (applyMocks tests mocks))) = true ∧
    ((∀ t ∈ tests, t.info.group ≠ []) → balanced (messagesV vv (runRepeated n flt (applyMocks tests mocks))) = true) :=
  ⟨failure_belongs_to_open_test_repeated vv n flt _,
   fun hne => messages_balanced_repeated vv n flt _ (applyMocks_groups tests mocks hne)⟩

/-- non-vacuity: a test that only leaves the expectation `f'1` unfulfilled; the current test at post-action time is the
    placeholder, not the test -/
def mockDemo : List Script :=
  [{ info := { group := lit "grp", name := lit "leaves|one", file := lit "t.cpp", line := 7, willRun := true }, acts := [] },
   { info := { group := lit "grp", name := lit "fails_itself", file := lit "t.cpp", line := 9, willRun := true },
     acts := [.failMsg (lit "own")] }]

def placeholder : TestInfo := { group := lit "\n\t NoGroup", name := lit "\n\t NoName", file := lit "unknown file", line := 0, willRun := true }

example : (postTestAction { test := (mockDemo.headD default).info, current := placeholder, hasFailed := false } (some (lit "f'1"))).length = 1 := by decide
example : ∀ t ∈ mockDemo, t.info.group ≠ [] := by decide
set_option maxRecDepth 8192 in
example : messages (runAll none (applyMocks mockDemo [(0, lit "f'1"), (1, lit "g")])) =
    [.suiteStarted (lit "grp"), .testStarted (lit "leaves|one"),
     .testFailed (lit "leaves|one") (lit "t.cpp:7") (mockMessage (lit "f'1")), .testFinished (lit "leaves|one") 0,
     .testStarted (lit "fails_itself"), .testFailed (lit "fails_itself") (lit "t.cpp:9") (lit "own"),
     .testFinished (lit "fails_itself") 0, .suiteFinished (lit "grp"),
     .text (summaryOut (R.summary { tests := 2, runs := 2, checks := 2, failures := 2 }))] := by decide

end MockPlugin

/-! ## decoding the whole stream -/

/-- The statement formerly left open: the specification's own stream parser reads the rendering of any
    list of service messages (values arbitrary byte strings) back into exactly that list. -/
def stream_parse_roundtrip_full : Prop :=
  ∀ ms : List Msg, (∀ m ∈ ms, ∀ raw, m ≠ .text raw) → TeamCity.parse (renderAll ms) = .ok ms

theorem stream_parse_roundtrip : stream_parse_roundtrip_full := by
  intro ms h
  have hno : ∀ m ∈ ms, isTextMsg m = false := by
    intro m hm
    cases m <;> simp [isTextMsg]
    exact absurd rfl (h _ hm _)
  have htxt : textsNoHash ms := by
    intro m hm raw hraw
    exact absurd hraw (h m hm raw)
  rw [parse_renderAll ms htxt, normFrom_no_text ms hno]

/-- With text between the messages (test prints, progress trace, summary): as long as that text
    contains no `#`, the parser returns the same messages with the same values; all it does to the
    text is what any reader does — adjacent pieces are one piece, empty pieces are not there. -/
theorem stream_parse_roundtrip_with_text (ms : List Msg) (h : textsNoHash ms) :
    TeamCity.parse (renderAll ms) = .ok (normFrom [] ms) := parse_renderAll ms h

/-- Decoding the real writer's output: for ANY event list whose raw text (test prints, -vv trace)
    contains no `#`, in the default and the very verbose mode, parsing the byte stream yields the
    message list of the run — every name, location and details value equal to the original, no
    value ending early or late, nothing invented and nothing lost. -/
theorem stream_decodes (vv : Bool) (evs : List Ev) (h : RawTextNoHash evs) :
    TeamCity.parse (streamV vv evs) = .ok (normFrom [] (messagesV vv evs)) := by
  rw [all_values_escaped]
  exact parse_renderAll _ (texts_of_msgsFrom evs _ h)

/-- The same for every run of the registry whose tests print no `#` (the progress trace and the
    summary never contain one). -/
theorem registry_stream_decodes (vv : Bool) (flt : Option Filter) (tests : List Script)
    (h : ∀ sc ∈ tests, PrintsNoHash sc) :
    TeamCity.parse (streamV vv (runAll flt tests)) = .ok (normFrom [] (messagesV vv (runAll flt tests))) :=
  stream_decodes vv _ (raw_runAll flt tests h)

/-- the attribute level of the same fact, kept from the earlier round -/
theorem stream_parse_roundtrip_partial (key : String) (v rest : Bytes) :
    ∃ head, attr key v ++ rest = head ++ 39 :: (escapeRef v ++ 39 :: rest) ∧
      scanValue false (escapeRef v ++ 39 :: rest) [] = some (v, rest) := by
  refine ⟨[32] ++ lit key ++ [61], by simp [attr], ?_⟩
  rw [scanValue_escapeRef]; simp

/-! ## the registry loop is what the source says (regenerated statement list of `TestRegistry::runAllTests`) -/

/-- OBLIGATION over `Gen/RunAllTestsLoop.lean` (regenerated from TestRegistry.cpp on every run): `runAllTests`, executed
    statement by statement from the source's loop body — group-start block, `countTest`, the `testShouldRun` block with
    `currentTestStarted / runOneTest / currentTestEnded`, the `endOfGroup` block, in that order, `groupStart` initialised as
    in the source — sends the output exactly the callbacks of the hand-written loop the balance theorems are proved about,
    for every registry content and name filter; likewise under the repeat loop. -/
theorem registry_loop_is_the_source (n : Nat) (flt : Option Filter) (tests : List Script) :
    RunLoop.runAllGen flt tests = runAll flt tests ∧ RunLoop.runRepeatedGen n flt tests = runRepeated n flt tests :=
  ⟨RunLoop.runAllGen_eq flt tests, RunLoop.runRepeatedGen_eq n flt tests⟩

/-- END TO END over both regenerated parts (the loop of `runAllTests` and the statement lists of the five callbacks): for
    every registry without an empty group name, every name filter, any number of repetitions on one output object, default
    and very verbose mode, the messages pair up and every failure message belongs to the open test. -/
theorem source_run_balanced (vv : Bool) (n : Nat) (flt : Option Filter) (tests : List Script)
    (hne : ∀ t ∈ tests, t.info.group ≠ []) :
    balanced (messagesV vv (RunLoop.runRepeatedGen n flt tests)) = true ∧
    failuresInOpenTest none (messagesV vv (RunLoop.runRepeatedGen n flt tests)) = true := by
  rw [RunLoop.runRepeatedGen_eq]
  exact ⟨messages_balanced_repeated vv n flt tests hne, failure_belongs_to_open_test_repeated vv n flt tests⟩

/-- … and the byte stream of such a run, read by the specification's parser, is that message list with every value equal to
    the original (tests print no `#`). -/
theorem source_run_decodes (vv : Bool) (flt : Option Filter) (tests : List Script) (h : ∀ sc ∈ tests, PrintsNoHash sc) :
    TeamCity.parse (streamV vv (RunLoop.runAllGen flt tests)) = .ok (normFrom [] (messagesV vv (RunLoop.runAllGen flt tests))) := by
  rw [RunLoop.runAllGen_eq]
  exact registry_stream_decodes vv flt tests h

/-! ## tests run in separate processes (`-p`): where the child's output lands

Model: `Model/TeamCitySeparate.lean`.  The parent writes `testStarted`, then waits (`SepProc.parentLoop`, C11's model of the
`do … while` loop of `GccPlatformSpecificRunTestInASeperateProcess`) reporting what `waitpid` says as failures of the test,
then writes `testFinished`; the forked child writes the events of the test body to the same stdout.  `mid` is ANY
interleaving of the two; `late` are child events arriving after the parent has left the loop.  The parent leaves the loop
with `LoopEnd.childGone` only when the last status says exited or signaled — then the child writes nothing any more and
`late = []`. -/

/-- The parent waits until the child is gone (`late = []`): whatever the wait results (stops and continues, EINTR, exit,
    signal) and however the two processes' writes interleave, the test's block keeps the suite open, closes the test, and
    every failure message — the child's own and the parent's "Stopped … / Failed in separate process" — lies between the
    `testStarted` and the `testFinished` of that test and names it. -/
theorem separate_process_block_ok (t : Script) (hw : t.info.willRun = true) (outs : List SepProc.WaitOutcome) (mid : List Ev)
    (h : Interleave (testInner t.info t.acts) (parentEvs t.info (SepProc.parentLoop 0 outs)) mid) (ms c : Nat) (s : St)
    (g : Bytes) (cur : Option Bytes) :
    runB (.inSuite g) s (sepTestEvs t.info mid ms c []) = some (.inSuite g) ∧
    failuresInOpenTest cur (msgsFrom s (sepTestEvs t.info mid ms c [])) = true := by
  have hm := InnerOK_interleave h (InnerOK_testInner _ _) (InnerOK_parentEvs _ _)
  exact ⟨(block_keeps_suite t.info hw mid hm ms c s g).1, block_failures_open t.info hw mid hm ms c s cur⟩

/-- The stream of such a test is the parent's `testStarted … testFinished` with, spliced in between, an interleaving of the
    child's messages (in the child's order) and the parent's wait-loop failures (in the parent's order) — nothing else,
    nothing lost. -/
theorem separate_process_stream_is_spliced (t : Script) (hw : t.info.willRun = true) (outs : List SepProc.WaitOutcome)
    (mid : List Ev) (h : Interleave (testInner t.info t.acts) (parentEvs t.info (SepProc.parentLoop 0 outs)) mid)
    (ms c : Nat) (s : St) :
    ∃ between, msgsFrom s (sepTestEvs t.info mid ms c []) = [.testStarted t.info.name] ++ (between ++ [.testFinished t.info.name ms]) ∧
      Interleave (msgsFrom { s with currTest := some t.info.name } (testInner t.info t.acts))
        (msgsFrom { s with currTest := some t.info.name } (parentEvs t.info (SepProc.parentLoop 0 outs))) between := by
  have hm := InnerOK_interleave h (InnerOK_testInner _ _) (InnerOK_parentEvs _ _)
  refine ⟨msgsFrom { s with currTest := some t.info.name } mid, ?_, msgs_interleave t.info _ h (InnerOK_testInner _ _) (InnerOK_parentEvs _ _)⟩
  rw [block_msgs t.info hw mid hm]
  simp [msgsFrom_nil]

/-- WHOLE `-p` RUN: for every registry without an empty group name, every name filter, and every run in which the parent
    always waits until the child is gone (whatever the wait results of each test and however parent and child output
    interleave, test by test), the message stream pairs up: each suite start has its finish, each test start its finish. -/
theorem separate_process_run_balanced (w : WaitingRun) (vv : Bool) (flt : Option Filter) (tests : List Script)
    (hne : ∀ t ∈ tests, t.info.group ≠ []) : balanced (messagesV vv (sepRunAll w.blk flt tests)) = true := by
  have h := sepLoop_balanced w.blk flt (fun t r s g hg => w.keeps t r s g hg) tests true 0 {} { veryVerbose := vv } .idle hne
    (Or.inl ⟨rfl, rfl⟩)
  simp only [runB] at h
  simp [balanced, messagesV, sepRunAll, foldEvents, msgStep, msgsOf, step_eq_hand, stepHand, msgsFrom] at h ⊢
  exact h

/-- The hypothesis cannot be dropped: if the parent leaves the wait loop while the child is still running (seeded change
    C20_8: the loop no longer goes round after a stop was reported), a failure the child reports afterwards is a
    `testFailed` AFTER its test was finished — outside any open test, whatever else follows. -/
theorem separate_process_late_failure_breaks_property (t : Script) (hw : t.info.willRun = true) (mid : List Ev)
    (hm : InnerOK t.info mid) (ms c : Nat) (s : St) (cur : Option Bytes) (f : Failure) (rest : List Ev) :
    failuresInOpenTest cur (msgsFrom s (sepTestEvs t.info mid ms c (Ev.failure f :: rest))) = false :=
  block_late_failure t.info hw mid hm ms c s cur f rest

/-- C11's wait loop on "stopped, then exited with status 1": the parent reports the stop, continues the child once, reports
    the failed exit and leaves the loop because the child is gone. -/
example : (SepProc.parentLoop 0 [.status 0x137f#32, .status 0x100#32]).ended = .childGone ∧
    ((SepProc.parentLoop 0 [.status 0x137f#32, .status 0x100#32]).failures.map (·.text)) =
      ["Stopped in separate process - continuing", "Failed in separate process"] ∧
    (SepProc.parentLoop 0 [.status 0x137f#32, .status 0x100#32]).conts = 1 := by decide

/-! ## text printed by tests (UT_PRINT) and the verbose modes

`TestOutput::print` hands test-printed text to `printBuffer` as it is.  Every service message is
written by ONE callback (`printCurrentTestStarted`, `printFailure`, …) in one go, and tests run
between callbacks, so printed text, the `-vv` progress trace and the summary always lie BETWEEN
messages, never inside one (`all_values_escaped`: the stream is a concatenation of whole items) — a
`'` or `]` in printed text cannot close or corrupt a message.  `-v` changes nothing (the overridden
callbacks ignore the verbosity).  What printed text CAN do is contain a complete service message of
its own: -/

def injectingRun : List Script :=
  [{ info := { group := lit "g", name := lit "t", file := lit "f", line := 1, willRun := true },
     acts := [.print (lit "f") 2 (lit "\n##teamcity[testFinished name='t' duration='0']\n")] }]

/-- OBSERVATION (outside the quantifier of the property, which ranges over names, paths and failure
    messages — not over text the test itself prints): a test that prints a line looking like a service
    message puts that message into the stream; here the reader sees `testFinished` twice. -/
theorem printed_text_can_inject_a_message :
    (match TeamCity.parse (stream (runAll none injectingRun)) with
     | .ok ms => balanced ms
     | .error _ => true) = false := by
  set_option maxRecDepth 1000000 in decide

/-! ## observation outside the quantifier: the empty group name -/

def emptyGroupRun : List Script :=
  [{ info := { group := [], name := [116], file := [102], line := 1, willRun := true }, acts := [] }]

/-- A group whose name is the empty string gets a suite start but no finish
    (`printCurrentGroupEnded` returns early on `currGroup_ == ""`): the hypothesis of
    `messages_balanced` cannot be dropped. -/
theorem empty_group_suite_not_finished : balanced (messages (runAll none emptyGroupRun)) = false := by
  decide

/-! ## non-vacuity -/

example : (step { currGroup := lit "old" } (.groupStarted { group := lit "g'1", name := [], file := [], line := 0, willRun := true })).2 =
    lit "##teamcity[testSuiteStarted name='g|'1']\n" := by decide
example : Gen.TeamCityWriters.printFailure.length = 10 := by decide

/-- a registry with two groups, a passing test, a test failing four times (in another file, without location, from a plugin, leaving the test), an
    ignored test, and names containing every special character -/
def demo : List Script :=
  [ { info := { group := lit "g'1", name := lit "a|b", file := lit "it's[here].cpp", line := 10, willRun := true },
      acts := [.tick 5, .fail (lit "other]file.cpp") 3 (lit "x\ny"), .failMsg (lit "no location"), .postFail (lit "from a plugin"),
               .failExit (lit "it's[here].cpp") 12 (lit "boom\r")] },
    { info := { group := lit "g'1", name := lit "ign", file := lit "it's[here].cpp", line := 20, willRun := false }, acts := [] },
    { info := { group := lit "G[2]", name := lit "ok", file := lit "f.cpp", line := 1, willRun := true }, acts := [.checks 2] } ]

example : ∀ t ∈ demo, t.info.group ≠ [] := by decide
example : balanced (messages (runAll none demo)) = true := by decide
example : (messages (runAll none demo)).length = 16 := by decide
example : decodeTC (printEscaped (lit "it's[here]|x\r\n")) = lit "it's[here]|x\r\n" := by decide
example : printEscaped (lit "a'b") = lit "a|'b" := by decide
/-- the independent stream parser of the specification reads the model's stream back into the very message list -/
example : (match TeamCity.parse (stream (runAll none demo)) with
    | .ok ms => decide (ms = messages (runAll none demo))
    | .error _ => false) = true := by
  set_option maxRecDepth 200000 in decide

/-- the first demo test -/
def demoT : Script := demo.headD default
def demoParent : List Ev := parentEvs demoT.info (SepProc.parentLoop 0 [.status 0x137f#32, .status 0x100#32])

/-- non-vacuity of the `-p` theorems: the first demo test, its child stopped once and then exiting with status 1; here the
    parent's two reports arrive first, then everything the child writes -/
example : Interleave (testInner demoT.info demoT.acts) demoParent (demoParent ++ testInner demoT.info demoT.acts) :=
  by simpa using Interleave.prepend_right demoParent (Interleave.all_left (testInner demoT.info demoT.acts))
example : demoT.info.willRun = true ∧ demoParent.length = 2 ∧ (testInner demoT.info demoT.acts).length = 19 := by decide

/-- a whole `-p` run in which every child is stopped once, continued, and exits with status 1, the parent's reports arriving
    before the child's output: an instance of `WaitingRun` -/
def demoWaiting : WaitingRun where
  blk t r := if t.info.willRun then
      sepTestEvs t.info (parentEvs t.info (SepProc.parentLoop 0 [.status 0x137f#32, .status 0x100#32]) ++ testInner t.info t.acts)
        (actTicks t.acts) r.checks []
    else testEvs t r
  outs _ _ := [.status 0x137f#32, .status 0x100#32]
  mid t _ := parentEvs t.info (SepProc.parentLoop 0 [.status 0x137f#32, .status 0x100#32]) ++ testInner t.info t.acts
  ms t _ := actTicks t.acts
  chk _ r := r.checks
  inter t _ := by
    have h := Interleave.prepend_right (parentEvs t.info (SepProc.parentLoop 0 [.status 0x137f#32, .status 0x100#32]))
      (Interleave.all_left (testInner t.info t.acts))
    rw [List.append_nil] at h
    exact h
  run t r h := by simp only [h, if_true]
  ign t r h := by simp only [h, Bool.false_eq_true, if_false]

example : balanced (messages (sepRunAll demoWaiting.blk none demo)) = true :=
  separate_process_run_balanced demoWaiting false none demo (by decide)
example : (messages (sepRunAll demoWaiting.blk none demo)).length = 20 := by decide

example : streamComposite 2 true (runRepeated 2 none demo) = streamV true (runRepeated 2 none demo) := composite_stream_is_teamcity_stream _ _ _
example : (streamComposite 1 false (runAll none demo)).length = 913 := by
  set_option maxRecDepth 200000 in decide

end TeamCity
