import CppUModel.Proofs.TeamCityRun
import CppUModel.Proofs.TeamCityParse
import CppUModel.Proofs.TeamCityStream
/-!
# C20 — TeamCity output is a balanced, correctly escaped service-message stream

Property theorems only.  Model: `Model/TeamCity.lean` (from `src/CppUTest/TeamCityTestOutput.cpp`)
over the runner events of `Model/OutputEvents.lean` (from `TestRegistry::runAllTests`);
vocabulary: `Spec/TeamCity.lean` (the TeamCity rules, written independently of the code).
`printEscaped` follows the branch table regenerated from the source on every run
(`Gen/EscapeTables.lean`); `escape_table_is_teamcity_rule` is the obligation over that table.
-/
namespace TeamCity
open Text (Bytes)
open OutEv

/-- The regenerated branch chain of `printEscaped` is exactly the TeamCity escaping rule
    (`|` before `' | [ ]`, `|r` for CR, `|n` for LF, everything else unchanged), for every byte. -/
theorem escape_table_is_teamcity_rule : ∀ c : UInt8, escByte c = escRef c := escByte_eq_ref

/-- Decoding an escaped value by the TeamCity rules returns the original, for all byte strings. -/
theorem decode_escape (s : Bytes) : decodeTC (printEscaped s) = s := by
  have := decodeAux_escapeRef s []
  simpa [decodeTC, printEscaped_eq_ref, decodeAux] using this

/-- Every `'` and every `]` in an escaped value is preceded by an odd run of `|` (scanner form). -/
theorem no_unescaped_quote (s : Bytes) : oddRunOk false (printEscaped s) = true := by
  have := oddRunOk_escapeRef s []
  simpa [printEscaped_eq_ref, oddRunOk] using this

/-- The same, position by position: wherever a `'` or `]` occurs in an escaped value, the run of
    `|` immediately before it has odd length. -/
theorem quote_preceded_by_odd_run (s pre post : Bytes) (c : UInt8) (hc : c = 39 ∨ c = 93)
    (h : printEscaped s = pre ++ c :: post) : trailingBars pre % 2 = 1 := by
  have h1 := no_unescaped_quote s
  rw [h] at h1
  have h2 := oddRunOk_split pre post c hc false h1
  rw [parityAfter_eq_trailing] at h2
  simpa using h2

/-- No value can end a message early: a TeamCity reader that starts after the opening quote and
    stops at the first quote that is not escaped reads exactly the original value, and continues
    exactly after the closing quote — whatever the value and whatever follows. -/
theorem value_ends_at_its_quote (v rest : Bytes) :
    scanValue false (printEscaped v ++ 39 :: rest) [] = some (v, rest) := by
  rw [printEscaped_eq_ref, scanValue_escapeRef]; simp

/-- Every variable field of every message goes through the escape: the byte stream of ANY event
    list is the rendering of its message list (`Msg.render` escapes every name, location and
    message value; durations are digits).  In particular the failure location
    `TEST failed (file:line): file:line` is the escape of the plain location text. -/
theorem all_values_escaped (vv : Bool) (evs : List Ev) : streamV vv evs = renderAll (messagesV vv evs) :=
  (fold_renders evs _).1

/-- The messages of every run pair up: each suite start has its finish, each test start inside
    a suite has its finish, ignored and failed messages name the open test, nothing stays open —
    for every registry (any number of groups and tests, any pass/fail/ignore pattern, any name
    filter) in which no group name is empty. -/
theorem messages_balanced (vv : Bool) (flt : Option Filter) (tests : List Script)
    (hne : ∀ t ∈ tests, t.info.group ≠ []) : balanced (messagesV vv (runAll flt tests)) = true := by
  have h := loop_balanced flt tests true 0 {} { veryVerbose := vv } .idle hne (Or.inl ⟨rfl, rfl⟩)
  simp only [runB] at h
  simp [balanced, messagesV, runAll, foldEvents, msgStep, msgsOf, step, msgsFrom] at h ⊢
  exact h

/-- Each failure message is emitted while a test is open and carries that test's name — for every
    registry, without any condition on the names, in the default and in the very verbose mode. -/
theorem failure_belongs_to_open_test (vv : Bool) (flt : Option Filter) (tests : List Script) :
    failuresInOpenTest none (messagesV vv (runAll flt tests)) = true := by
  have h := loop_failures_open flt tests true 0 {} { veryVerbose := vv } none
  simpa [messagesV, runAll, foldEvents, msgStep, msgsOf, step, msgsFrom] using h

/-! ## repeated runs (`-r<n>`): one output object, its state carried from run to run -/

/-- one repetition, from ANY state of the writer (whatever `currGroup_` / `currtest_` the previous
    repetition left behind — they are never cleared), leaves nothing open -/
theorem repetition_balanced (flt : Option Filter) (tests : List Script) (hne : ∀ t ∈ tests, t.info.group ≠ [])
    (i n : Nat) (s : St) : runB .idle s (.testRun i n :: runAll flt tests) = some .idle := by
  have h := loop_balanced flt tests true 0 {} s .idle hne (Or.inl ⟨rfl, rfl⟩)
  simp only [runB] at h ⊢
  by_cases hn : n > 1 <;>
    simpa [runAll, msgsFrom_cons, msgsOf, step, hn, balRun, balStep] using h

theorem repetitions_balanced (flt : Option Filter) (tests : List Script) (hne : ∀ t ∈ tests, t.info.group ≠ [])
    (n : Nat) : ∀ (k : Nat) (s : St),
      runB .idle s ((List.range k).flatMap fun i => Ev.testRun (i + 1) n :: runAll flt tests) = some .idle
  | 0, s => rfl
  | k + 1, s => by
    rw [List.range_succ, List.flatMap_append, runB_append, repetitions_balanced flt tests hne n k s, Option.bind_some]
    simpa using repetition_balanced flt tests hne (k + 1) n _

/-- The messages of ANY number of consecutive runs on one output object pair up (`-r<n>`, default and
    very verbose mode): every suite start has exactly one matching finish in every repetition, although the
    writer's `currGroup_` still names the last suite of the previous repetition when the next one starts. -/
theorem messages_balanced_repeated (vv : Bool) (n : Nat) (flt : Option Filter) (tests : List Script)
    (hne : ∀ t ∈ tests, t.info.group ≠ []) : balanced (messagesV vv (runRepeated n flt tests)) = true := by
  have h := repetitions_balanced flt tests hne n n { veryVerbose := vv }
  simp only [runB] at h
  simp only [balanced, messagesV, runRepeated]
  rw [show (foldEvents msgStep { veryVerbose := vv } ((List.range n).flatMap fun i => Ev.testRun (i + 1) n :: runAll flt tests)).2 =
    msgsFrom { veryVerbose := vv } ((List.range n).flatMap fun i => Ev.testRun (i + 1) n :: runAll flt tests) from rfl, h]
  rfl

theorem repetitions_failures_open (flt : Option Filter) (tests : List Script) (n : Nat) : ∀ (k : Nat) (s : St) (cur : Option Bytes),
    failuresInOpenTest cur (msgsFrom s ((List.range k).flatMap fun i => Ev.testRun (i + 1) n :: runAll flt tests)) = true
  | 0, s, cur => by simp [msgsFrom_nil, failuresInOpenTest]
  | k + 1, s, cur => by
    rw [List.range_succ, List.flatMap_append, msgsFrom_append, failuresInOpenTest_append, repetitions_failures_open flt tests n k]
    have h := fun s' c => loop_failures_open flt tests true 0 {} s' c
    simp only [List.flatMap_cons, List.flatMap_nil, List.append_nil, Bool.true_and]
    by_cases hn : n > 1 <;>
      simp [runAll, msgsFrom_cons, msgsOf, step, hn, failuresInOpenTest, h]

/-- … and every failure message of every repetition belongs to the test that is open. -/
theorem failure_belongs_to_open_test_repeated (vv : Bool) (n : Nat) (flt : Option Filter) (tests : List Script) :
    failuresInOpenTest none (messagesV vv (runRepeated n flt tests)) = true :=
  repetitions_failures_open flt tests n n { veryVerbose := vv } none

/-- An ignored test is flagged: its messages are exactly started, ignored, finished. -/
theorem ignored_flagged (t : Script) (r : R) (s : St) (h : t.info.willRun = false) :
    msgsFrom s (testEvs t r) =
      [.testStarted t.info.name, .testIgnored t.info.name, .testFinished t.info.name 0] := by
  simp [testEvs, h, msgsFrom_cons, msgsFrom_nil, msgsOf, step]

theorem inner_not_flagged (t : TestInfo) : ∀ (l : List Ev) (s : St) (x : Bytes), InnerOK t l →
    Msg.testIgnored x ∉ msgsFrom s l
  | [], s, x, _ => by simp [msgsFrom_nil]
  | e :: es, s, x, h => by
    have he : okEv t e := h e (List.mem_cons_self ..)
    have ih := fun s' => inner_not_flagged t es s' x (fun y hy => h y (List.mem_cons_of_mem _ hy))
    rw [msgsFrom_cons]
    simp only [List.mem_append, not_or]
    refine ⟨?_, ih _⟩
    cases e with
    | print y => simp [msgsOf]
    | veryVerbose y => cases hv : s.veryVerbose <;> simp [msgsOf, hv]
    | failure f => simp [msgsOf]
    | testRun _ _ => exact absurd he (by simp [okEv])
    | testsStarted => exact absurd he (by simp [okEv])
    | groupStarted _ => exact absurd he (by simp [okEv])
    | testStarted _ => exact absurd he (by simp [okEv])
    | testEnded _ _ => exact absurd he (by simp [okEv])
    | groupEnded _ => exact absurd he (by simp [okEv])
    | testsEnded _ => exact absurd he (by simp [okEv])

/-- A test that runs is never flagged as ignored. -/
theorem running_test_not_flagged (t : Script) (r : R) (s : St) (h : t.info.willRun = true) (x : Bytes) :
    Msg.testIgnored x ∉ msgsFrom s (testEvs t r) := by
  simp only [testEvs, h, if_true]
  show Msg.testIgnored x ∉ msgsFrom s ([Ev.testStarted t.info] ++ (testInner t.info t.acts ++ [Ev.testEnded _ _]))
  rw [msgsFrom_append, msgsFrom_append]
  simp only [List.mem_append, not_or]
  refine ⟨by simp [msgsFrom_cons, msgsFrom_nil, msgsOf, h], inner_not_flagged _ _ _ _ (InnerOK_testInner _ _), ?_⟩
  generalize stAfter _ (testInner t.info t.acts) = s'
  cases hc : s'.currTest <;> simp [msgsFrom_cons, msgsFrom_nil, msgsOf, hc]

/-! ## which test a failure names, whoever constructs it -/

/-- Obligation over the regenerated member-initialiser lists of src/CppUTest/TestFailure.cpp: every
    `TestFailure` constructor — with file, line and message; with a message only (leak plugin, mock
    failures, separate-process failures, plugins); with file and line only; and `FailFailure` — gives
    the failure the NAME of the test (what `testStarted` announced), the test's own file and line as
    test location, and the given location or, when none is given, the test's. -/
theorem failure_names_its_test (t : TestInfo) (f : Bytes) (l : Nat) (m : Bytes) :
    (locMsgFailure t f l m).testName = t.name ∧ (msgFailure t m).testName = t.name ∧
    (locFailure t f l).testName = t.name ∧ (exitFailure t f l m).testName = t.name ∧
    (msgFailure t m).file = t.file ∧ (msgFailure t m).line = t.line ∧
    (locMsgFailure t f l m).file = f ∧ (locMsgFailure t f l m).line = l ∧
    (locMsgFailure t f l m).testFile = t.file ∧ (locMsgFailure t f l m).testLine = t.line :=
  ⟨locMsgFailure_testName t f l m, msgFailure_testName t m, locFailure_testName t f l, exitFailure_testName t f l m,
   msgFailure_file t m, msgFailure_line t m, locMsgFailure_file t f l m, locMsgFailure_line t f l m,
   locMsgFailure_testFile t f l m, locMsgFailure_testLine t f l m⟩

/-- A failure without a location is located at the test itself, so it never gets the
    `TEST failed (file:line): ` prefix; a located one gets it exactly when it lies in another file
    or above the test's line. -/
theorem location_prefix_cases (t : TestInfo) (f : Bytes) (l : Nat) (m : Bytes) :
    failurePrefix (msgFailure t m) = [] ∧
    (failurePrefix (locMsgFailure t f l m) = [] ↔ (f = t.file ∧ t.line ≤ l)) := by
  constructor
  · simp [failurePrefix, Failure.isOutsideTestFile, Failure.isInHelperFunction, msgFailure_file, msgFailure_line,
      msgFailure_testFile, msgFailure_testLine]
  · simp only [failurePrefix, Failure.isOutsideTestFile, Failure.isInHelperFunction, locMsgFailure_file,
      locMsgFailure_line, locMsgFailure_testFile, locMsgFailure_testLine]
    constructor
    · intro h
      split at h
      · simp [lit] at h
        exact ⟨h.1.symm, Nat.not_lt.mp (of_decide_eq_false h.2)⟩
      · rename_i hc
        simp only [Bool.or_eq_true, bne_iff_ne, ne_eq, not_or, Decidable.not_not] at hc
        exact ⟨hc.1.symm, Nat.not_lt.mp (fun hlt => hc.2 (decide_eq_true hlt))⟩
    · rintro ⟨rfl, h2⟩
      simp [Nat.not_lt.mpr h2]

/-! ## decoding the whole stream -/

/-- The statement formerly left open: the specification's own stream parser reads the rendering of any
    list of service messages (values arbitrary byte strings) back into exactly that list. -/
def stream_parse_roundtrip_full : Prop :=
  ∀ ms : List Msg, (∀ m ∈ ms, ∀ raw, m ≠ .text raw) → TeamCity.parse (renderAll ms) = .ok ms

theorem stream_parse_roundtrip : stream_parse_roundtrip_full := by
  intro ms h
  have hno : ∀ m ∈ ms, isTextMsg m = false := by
    intro m hm
    cases m <;> simp [isTextMsg]
    exact absurd rfl (h _ hm _)
  have htxt : textsNoHash ms := by
    intro m hm raw hraw
    exact absurd hraw (h m hm raw)
  rw [parse_renderAll ms htxt, normFrom_no_text ms hno]

/-- With text between the messages (test prints, progress trace, summary): as long as that text
    contains no `#`, the parser returns the same messages with the same values; all it does to the
    text is what any reader does — adjacent pieces are one piece, empty pieces are not there. -/
theorem stream_parse_roundtrip_with_text (ms : List Msg) (h : textsNoHash ms) :
    TeamCity.parse (renderAll ms) = .ok (normFrom [] ms) := parse_renderAll ms h

/-- Decoding the real writer's output: for ANY event list whose raw text (test prints, -vv trace)
    contains no `#`, in the default and the very verbose mode, parsing the byte stream yields the
    message list of the run — every name, location and details value equal to the original, no
    value ending early or late, nothing invented and nothing lost. -/
theorem stream_decodes (vv : Bool) (evs : List Ev) (h : RawTextNoHash evs) :
    TeamCity.parse (streamV vv evs) = .ok (normFrom [] (messagesV vv evs)) := by
  rw [all_values_escaped]
  exact parse_renderAll _ (texts_of_msgsFrom evs _ h)

/-- The same for every run of the registry whose tests print no `#` (the progress trace and the
    summary never contain one). -/
theorem registry_stream_decodes (vv : Bool) (flt : Option Filter) (tests : List Script)
    (h : ∀ sc ∈ tests, PrintsNoHash sc) :
    TeamCity.parse (streamV vv (runAll flt tests)) = .ok (normFrom [] (messagesV vv (runAll flt tests))) :=
  stream_decodes vv _ (raw_runAll flt tests h)

/-- the attribute level of the same fact, kept from the earlier round -/
theorem stream_parse_roundtrip_partial (key : String) (v rest : Bytes) :
    ∃ head, attr key v ++ rest = head ++ 39 :: (escapeRef v ++ 39 :: rest) ∧
      scanValue false (escapeRef v ++ 39 :: rest) [] = some (v, rest) := by
  refine ⟨[32] ++ lit key ++ [61], by simp [attr], ?_⟩
  rw [scanValue_escapeRef]; simp

/-! ## text printed by tests (UT_PRINT) and the verbose modes

`TestOutput::print` hands test-printed text to `printBuffer` as it is.  Every service message is
written by ONE callback (`printCurrentTestStarted`, `printFailure`, …) in one go, and tests run
between callbacks, so printed text, the `-vv` progress trace and the summary always lie BETWEEN
messages, never inside one (`all_values_escaped`: the stream is a concatenation of whole items) — a
`'` or `]` in printed text cannot close or corrupt a message.  `-v` changes nothing (the overridden
callbacks ignore the verbosity).  What printed text CAN do is contain a complete service message of
its own: -/

def injectingRun : List Script :=
  [{ info := { group := lit "g", name := lit "t", file := lit "f", line := 1, willRun := true },
     acts := [.print (lit "f") 2 (lit "\n##teamcity[testFinished name='t' duration='0']\n")] }]

/-- OBSERVATION (outside the quantifier of the property, which ranges over names, paths and failure
    messages — not over text the test itself prints): a test that prints a line looking like a service
    message puts that message into the stream; here the reader sees `testFinished` twice. -/
theorem printed_text_can_inject_a_message :
    (match TeamCity.parse (stream (runAll none injectingRun)) with
     | .ok ms => balanced ms
     | .error _ => true) = false := by
  set_option maxRecDepth 1000000 in decide

/-! ## observation outside the quantifier: the empty group name -/

def emptyGroupRun : List Script :=
  [{ info := { group := [], name := [116], file := [102], line := 1, willRun := true }, acts := [] }]

/-- A group whose name is the empty string gets a suite start but no finish
    (`printCurrentGroupEnded` returns early on `currGroup_ == ""`): the hypothesis of
    `messages_balanced` cannot be dropped. -/
theorem empty_group_suite_not_finished : balanced (messages (runAll none emptyGroupRun)) = false := by
  decide

/-! ## non-vacuity -/

/-- a registry with two groups, a passing test, a test failing four times (in another file, without location, from a plugin, leaving the test), an
    ignored test, and names containing every special character -/
def demo : List Script :=
  [ { info := { group := lit "g'1", name := lit "a|b", file := lit "it's[here].cpp", line := 10, willRun := true },
      acts := [.tick 5, .fail (lit "other]file.cpp") 3 (lit "x\ny"), .failMsg (lit "no location"), .postFail (lit "from a plugin"),
               .failExit (lit "it's[here].cpp") 12 (lit "boom\r")] },
    { info := { group := lit "g'1", name := lit "ign", file := lit "it's[here].cpp", line := 20, willRun := false }, acts := [] },
    { info := { group := lit "G[2]", name := lit "ok", file := lit "f.cpp", line := 1, willRun := true }, acts := [.checks 2] } ]

example : ∀ t ∈ demo, t.info.group ≠ [] := by decide
example : balanced (messages (runAll none demo)) = true := by decide
example : (messages (runAll none demo)).length = 16 := by decide
example : decodeTC (printEscaped (lit "it's[here]|x\r\n")) = lit "it's[here]|x\r\n" := by decide
example : printEscaped (lit "a'b") = lit "a|'b" := by decide
/-- the independent stream parser of the specification reads the model's stream back into the very message list -/
example : (match TeamCity.parse (stream (runAll none demo)) with
    | .ok ms => decide (ms = messages (runAll none demo))
    | .error _ => false) = true := by
  set_option maxRecDepth 200000 in decide

end TeamCity
