import CppUModel.Proofs.TeamCityRun
/-!
# C20 — TeamCity output is a balanced, correctly escaped service-message stream

Property theorems only.  Model: `Model/TeamCity.lean` (from `src/CppUTest/TeamCityTestOutput.cpp`)
over the runner events of `Model/OutputEvents.lean` (from `TestRegistry::runAllTests`);
vocabulary: `Spec/TeamCity.lean` (the TeamCity rules, written independently of the code).
`printEscaped` follows the branch table regenerated from the source on every run
(`Gen/EscapeTables.lean`); `escape_table_is_teamcity_rule` is the obligation over that table.
-/
namespace TeamCity
open Text (Bytes)
open OutEv

/-- The regenerated branch chain of `printEscaped` is exactly the TeamCity escaping rule
    (`|` before `' | [ ]`, `|r` for CR, `|n` for LF, everything else unchanged), for every byte. -/
theorem escape_table_is_teamcity_rule : ∀ c : UInt8, escByte c = escRef c := escByte_eq_ref

/-- Decoding an escaped value by the TeamCity rules returns the original, for all byte strings. -/
theorem decode_escape (s : Bytes) : decodeTC (printEscaped s) = s := by
  have := decodeAux_escapeRef s []
  simpa [decodeTC, printEscaped_eq_ref, decodeAux] using this

/-- Every `'` and every `]` in an escaped value is preceded by an odd run of `|` (scanner form). -/
theorem no_unescaped_quote (s : Bytes) : oddRunOk false (printEscaped s) = true := by
  have := oddRunOk_escapeRef s []
  simpa [printEscaped_eq_ref, oddRunOk] using this

/-- The same, position by position: wherever a `'` or `]` occurs in an escaped value, the run of
    `|` immediately before it has odd length. -/
theorem quote_preceded_by_odd_run (s pre post : Bytes) (c : UInt8) (hc : c = 39 ∨ c = 93)
    (h : printEscaped s = pre ++ c :: post) : trailingBars pre % 2 = 1 := by
  have h1 := no_unescaped_quote s
  rw [h] at h1
  have h2 := oddRunOk_split pre post c hc false h1
  rw [parityAfter_eq_trailing] at h2
  simpa using h2

/-- No value can end a message early: a TeamCity reader that starts after the opening quote and
    stops at the first quote that is not escaped reads exactly the original value, and continues
    exactly after the closing quote — whatever the value and whatever follows. -/
theorem value_ends_at_its_quote (v rest : Bytes) :
    scanValue false (printEscaped v ++ 39 :: rest) [] = some (v, rest) := by
  rw [printEscaped_eq_ref, scanValue_escapeRef]; simp

/-- Every variable field of every message goes through the escape: the byte stream of ANY event
    list is the rendering of its message list (`Msg.render` escapes every name, location and
    message value; durations are digits).  In particular the failure location
    `TEST failed (file:line): file:line` is the escape of the plain location text. -/
theorem all_values_escaped (evs : List Ev) : stream evs = renderAll (messages evs) :=
  (fold_renders evs {}).1

/-- The messages of every run pair up: each suite start has its finish, each test start inside
    a suite has its finish, ignored and failed messages name the open test, nothing stays open —
    for every registry (any number of groups and tests, any pass/fail/ignore pattern, any name
    filter) in which no group name is empty. -/
theorem messages_balanced (flt : Option Filter) (tests : List Script)
    (hne : ∀ t ∈ tests, t.info.group ≠ []) : balanced (messages (runAll flt tests)) = true := by
  have h := loop_balanced flt tests true 0 {} {} .idle hne (Or.inl ⟨rfl, rfl⟩)
  simp only [runB] at h
  simp [balanced, messages, runAll, foldEvents, msgStep, msgsOf, step, msgsFrom] at h ⊢
  exact h

/-- Each failure message is emitted while a test is open and carries that test's name — for every
    registry, without any condition on the names. -/
theorem failure_belongs_to_open_test (flt : Option Filter) (tests : List Script) :
    failuresInOpenTest none (messages (runAll flt tests)) = true := by
  have h := loop_failures_open flt tests true 0 {} {} none
  simpa [messages, runAll, foldEvents, msgStep, msgsOf, step, msgsFrom] using h

/-- An ignored test is flagged: its messages are exactly started, ignored, finished. -/
theorem ignored_flagged (t : Script) (r : R) (s : St) (h : t.info.willRun = false) :
    msgsFrom s (testEvs t r) =
      [.testStarted t.info.name, .testIgnored t.info.name, .testFinished t.info.name 0] := by
  simp [testEvs, h, msgsFrom_cons, msgsFrom_nil, msgsOf, step]

theorem acts_not_flagged (t : TestInfo) : ∀ (acts : List Act) (s : St) (x : Bytes),
    Msg.testIgnored x ∉ msgsFrom s (actEvs t acts)
  | [], s, x => by simp [actEvs, msgsFrom_nil]
  | .print f l y :: as, s, x => by
    simpa [actEvs, msgsFrom_cons, msgsOf, step] using acts_not_flagged t as s x
  | .fail f l m :: as, s, x => by
    simpa [actEvs, msgsFrom_cons, msgsOf, step] using acts_not_flagged t as s x
  | .failMsg m :: as, s, x => by
    simpa [actEvs, msgsFrom_cons, msgsOf, step] using acts_not_flagged t as s x
  | .failLoc f l :: as, s, x => by
    simpa [actEvs, msgsFrom_cons, msgsOf, step] using acts_not_flagged t as s x
  | .failExit f l m :: _, s, x => by simp [actEvs, msgsFrom_cons, msgsFrom_nil, msgsOf]
  | .postFail _ :: as, s, x => by simpa [actEvs] using acts_not_flagged t as s x
  | .checks _ :: as, s, x => by simpa [actEvs] using acts_not_flagged t as s x
  | .tick _ :: as, s, x => by simpa [actEvs] using acts_not_flagged t as s x

theorem post_not_flagged (t : TestInfo) : ∀ (acts : List Act) (s : St) (x : Bytes),
    Msg.testIgnored x ∉ msgsFrom s (postEvs t acts)
  | [], s, x => by simp [postEvs, msgsFrom_nil]
  | .postFail m :: as, s, x => by
    simpa [postEvs, msgsFrom_cons, msgsOf, step] using post_not_flagged t as s x
  | .print _ _ _ :: as, s, x => by simpa [postEvs] using post_not_flagged t as s x
  | .fail _ _ _ :: as, s, x => by simpa [postEvs] using post_not_flagged t as s x
  | .failExit _ _ _ :: as, s, x => by simpa [postEvs] using post_not_flagged t as s x
  | .failMsg _ :: as, s, x => by simpa [postEvs] using post_not_flagged t as s x
  | .failLoc _ _ :: as, s, x => by simpa [postEvs] using post_not_flagged t as s x
  | .checks _ :: as, s, x => by simpa [postEvs] using post_not_flagged t as s x
  | .tick _ :: as, s, x => by simpa [postEvs] using post_not_flagged t as s x

/-- A test that runs is never flagged as ignored. -/
theorem running_test_not_flagged (t : Script) (r : R) (s : St) (h : t.info.willRun = true) (x : Bytes) :
    Msg.testIgnored x ∉ msgsFrom s (testEvs t r) := by
  simp only [testEvs, h, if_true]
  show Msg.testIgnored x ∉ msgsFrom s ([Ev.testStarted t.info] ++ (actEvs t.info t.acts ++ (postEvs t.info t.acts ++ [Ev.testEnded _ _])))
  rw [msgsFrom_append, msgsFrom_append, msgsFrom_append]
  simp only [List.mem_append, not_or]
  refine ⟨by simp [msgsFrom_cons, msgsFrom_nil, msgsOf, h], acts_not_flagged _ _ _ _, post_not_flagged _ _ _ _, ?_⟩
  generalize stAfter (stAfter _ (actEvs t.info t.acts)) (postEvs t.info t.acts) = s'
  cases hc : s'.currTest <;> simp [msgsFrom_cons, msgsFrom_nil, msgsOf, hc]

/-! ## which test a failure names, whoever constructs it -/

/-- Obligation over the regenerated member-initialiser lists of src/CppUTest/TestFailure.cpp: every
    `TestFailure` constructor — with file, line and message; with a message only (leak plugin, mock
    failures, separate-process failures, plugins); with file and line only; and `FailFailure` — gives
    the failure the NAME of the test (what `testStarted` announced), the test's own file and line as
    test location, and the given location or, when none is given, the test's. -/
theorem failure_names_its_test (t : TestInfo) (f : Bytes) (l : Nat) (m : Bytes) :
    (locMsgFailure t f l m).testName = t.name ∧ (msgFailure t m).testName = t.name ∧
    (locFailure t f l).testName = t.name ∧ (exitFailure t f l m).testName = t.name ∧
    (msgFailure t m).file = t.file ∧ (msgFailure t m).line = t.line ∧
    (locMsgFailure t f l m).file = f ∧ (locMsgFailure t f l m).line = l ∧
    (locMsgFailure t f l m).testFile = t.file ∧ (locMsgFailure t f l m).testLine = t.line :=
  ⟨locMsgFailure_testName t f l m, msgFailure_testName t m, locFailure_testName t f l, exitFailure_testName t f l m,
   msgFailure_file t m, msgFailure_line t m, locMsgFailure_file t f l m, locMsgFailure_line t f l m,
   locMsgFailure_testFile t f l m, locMsgFailure_testLine t f l m⟩

/-- A failure without a location is located at the test itself, so it never gets the
    `TEST failed (file:line): ` prefix; a located one gets it exactly when it lies in another file
    or above the test's line. -/
theorem location_prefix_cases (t : TestInfo) (f : Bytes) (l : Nat) (m : Bytes) :
    failurePrefix (msgFailure t m) = [] ∧
    (failurePrefix (locMsgFailure t f l m) = [] ↔ (f = t.file ∧ t.line ≤ l)) := by
  constructor
  · simp [failurePrefix, Failure.isOutsideTestFile, Failure.isInHelperFunction, msgFailure_file, msgFailure_line,
      msgFailure_testFile, msgFailure_testLine]
  · simp only [failurePrefix, Failure.isOutsideTestFile, Failure.isInHelperFunction, locMsgFailure_file,
      locMsgFailure_line, locMsgFailure_testFile, locMsgFailure_testLine]
    constructor
    · intro h
      split at h
      · simp [lit] at h
        exact ⟨h.1.symm, Nat.not_lt.mp (of_decide_eq_false h.2)⟩
      · rename_i hc
        simp only [Bool.or_eq_true, bne_iff_ne, ne_eq, not_or, Decidable.not_not] at hc
        exact ⟨hc.1.symm, Nat.not_lt.mp (fun hlt => hc.2 (decide_eq_true hlt))⟩
    · rintro ⟨rfl, h2⟩
      simp [Nat.not_lt.mpr h2]

/-! ## what is NOT proved -/

/-- FULL statement, not proved: the specification's own stream parser reads the rendering of any list
    of service messages back into that list.  What is proved instead is the value level
    (`value_ends_at_its_quote`: a reader can never leave a value early or late) and that the stream is
    such a rendering (`all_values_escaped`); the parser itself (and a second one in Python) is run on
    every stream the real code produces in the check. -/
def stream_parse_roundtrip_full : Prop :=
  ∀ ms : List Msg, (∀ m ∈ ms, ∀ raw, m ≠ .text raw) → TeamCity.parse (renderAll ms) = .ok ms

/-- the proved part, per message: after the opening quote of ANY attribute of ANY rendered message a
    reader gets the original value and continues right behind the closing quote -/
theorem stream_parse_roundtrip_partial (key : String) (v rest : Bytes) :
    ∃ head, attr key v ++ rest = head ++ 39 :: (escapeRef v ++ 39 :: rest) ∧
      scanValue false (escapeRef v ++ 39 :: rest) [] = some (v, rest) := by
  refine ⟨[32] ++ lit key ++ [61], by simp [attr], ?_⟩
  rw [scanValue_escapeRef]; simp

/-! ## observation outside the quantifier: the empty group name -/

def emptyGroupRun : List Script :=
  [{ info := { group := [], name := [116], file := [102], line := 1, willRun := true }, acts := [] }]

/-- A group whose name is the empty string gets a suite start but no finish
    (`printCurrentGroupEnded` returns early on `currGroup_ == ""`): the hypothesis of
    `messages_balanced` cannot be dropped. -/
theorem empty_group_suite_not_finished : balanced (messages (runAll none emptyGroupRun)) = false := by
  decide

/-! ## non-vacuity -/

/-- a registry with two groups, a passing test, a test failing four times (in another file, without location, from a plugin, leaving the test), an
    ignored test, and names containing every special character -/
def demo : List Script :=
  [ { info := { group := lit "g'1", name := lit "a|b", file := lit "it's[here].cpp", line := 10, willRun := true },
      acts := [.tick 5, .fail (lit "other]file.cpp") 3 (lit "x\ny"), .failMsg (lit "no location"), .postFail (lit "from a plugin"),
               .failExit (lit "it's[here].cpp") 12 (lit "boom\r")] },
    { info := { group := lit "g'1", name := lit "ign", file := lit "it's[here].cpp", line := 20, willRun := false }, acts := [] },
    { info := { group := lit "G[2]", name := lit "ok", file := lit "f.cpp", line := 1, willRun := true }, acts := [.checks 2] } ]

example : ∀ t ∈ demo, t.info.group ≠ [] := by decide
example : balanced (messages (runAll none demo)) = true := by decide
example : (messages (runAll none demo)).length = 16 := by decide
example : decodeTC (printEscaped (lit "it's[here]|x\r\n")) = lit "it's[here]|x\r\n" := by decide
example : printEscaped (lit "a'b") = lit "a|'b" := by decide
/-- the independent stream parser of the specification reads the model's stream back into the very message list -/
example : (match TeamCity.parse (stream (runAll none demo)) with
    | .ok ms => decide (ms = messages (runAll none demo))
    | .error _ => false) = true := by
  set_option maxRecDepth 200000 in decide

end TeamCity
