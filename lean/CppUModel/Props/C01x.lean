import CppUModel.Props.C01
import CppUModel.Props.C07
import CppUModel.Props.C17x
/-!
# C01x — failures added by plugin actions are recorded once, in the order of the chain; the C07 verdict is counted once

Composition theorems.  They connect

* `Model/Runner.lean` (C01): `runAllPost`, `runOneTest`, `runAllTests`, C01's `failures_recorded_once`
  (`Spec/Runner.lean`: `postFailures`, `testFailures`, `expectedFailures`), with
* `Model/Plugins.lean` (C17) through `Props/C17x.lean`: the order of the post actions, and with
* `Model/LeakPlugin.lean` (C07): `runTest` of the per-test leak verdict, whose `failures_recorded` counts
  "own failing checks + at most one leak failure".

A post action's failure is the event `Ev.failure` that follows that plugin's `Ev.plug name true` event; the closed
form `post_events_closed_form` shows every applicable error of every enabled plugin exactly once, grouped by plugin,
the groups in `Plugins.runAllPost` order.  Over a whole run each expected failure record occurs exactly as often as
the property demands (`failure_count_formula`), so a record that one plugin error produces for one test occurs once
per repetition.  Finally a scripted C07 test, translated to a runner test with the leak plugin's verdict as its post
error, is charged by the runner model with exactly the number of failures the C07 model computes.
-/
namespace Compose.C01x
open Runner Compose.C17x

/-! ## the post actions in closed form -/

/-- what one enabled plugin's post action emits: its `plug` event and one failure per applicable error -/
def postSegment (cfg : Cfg) (t : Test) (d : Int) (p : Runner.Plugin) : List Ev :=
  .plug p.name true d :: (pluginErrs cfg t p.post).map Ev.failure

theorem runAllPost_depth (cfg : Cfg) (t : Test) (ps : List Runner.Plugin) (st : TSt) :
    (Runner.runAllPost cfg t ps st).st.depth = st.depth := by
  rw [(runAllPost_spec cfg t ps st).1]

/-- **Post actions, closed form.**  Connects `Runner.runAllPost` (C01) with the reverse-chain order of C17: the
    events are the segments of the enabled plugins, last plugin of the chain first; each applicable error of each
    enabled plugin is reported exactly once, right after that plugin's action starts. -/
theorem post_events_closed_form (cfg : Cfg) (t : Test) : ∀ (ps : List Runner.Plugin) (st : TSt),
    (Runner.runAllPost cfg t ps st).evs = (ps.reverse.filter (·.enabled)).flatMap (postSegment cfg t st.depth)
  | [], _ => rfl
  | p :: rest, st => by
    have ih := post_events_closed_form cfg t rest st
    unfold Runner.runAllPost
    cases h : p.enabled with
    | false => simp [h, ih, List.filter_append]
    | true =>
      simp only [if_true, List.reverse_cons, List.filter_append, List.flatMap_append, ih]
      rw [(reportErrs_spec cfg t p.post _).2, runAllPost_depth]
      simp [List.filter_cons, h, postSegment]

/-- the names of the plugins in that closed form are `Plugins.runAllPost` of the chain (C17x) -/
theorem post_segments_in_chain_order (ps : List Runner.Plugin) :
    (ps.reverse.filter (·.enabled)).map (·.name) = Plugins.runAllPost (toChain ps) := by
  rw [Plugins.post_order_is_reverse_of_pre, Plugins.pre_order_is_chain_order]
  have key : ∀ (ps : List Runner.Plugin) (i : Nat),
      ((toChainFrom i ps).filter (·.enabled)).map (·.name) = (ps.filter (·.enabled)).map (·.name) := by
    intro ps
    induction ps with
    | nil => intro i; rfl
    | cons p rest ih =>
      intro i
      unfold toChainFrom
      cases h : p.enabled <;> simp [h, ih (i + 1)]
  unfold toChain
  rw [key ps 0, List.filter_reverse, List.map_reverse]

/-! ## a whole run -/

theorem count_flatten_replicate {α} [DecidableEq α] (x : α) (L : List α) :
    ∀ n, ((List.replicate n L).flatten).count x = n * L.count x
  | 0 => by simp
  | n + 1 => by
    rw [List.replicate_succ, List.flatten_cons, List.count_append, count_flatten_replicate x L n, Nat.succ_mul]
    omega

/-- **Every failure record the right number of times.**  From C01's `failures_recorded_once`: in a run of `n`
    repetitions every record occurs `n` times its multiplicity among the failing events of one repetition. -/
theorem failure_count_formula (cfg : Cfg) (plugins : List Runner.Plugin) (ts : List Test) (n : Nat)
    (hr : cfg.rethrow = false) :
    ∃ o, runAllTests cfg plugins ts n 0 = .ok o ∧
      ∀ r, (failuresOf o.evs).count r = n * (expectedFailures cfg plugins ts).count r := by
  obtain ⟨o, ho, hf, _⟩ := failures_recorded_once cfg plugins ts n hr
  exact ⟨o, ho, fun r => by rw [hf]; exact count_flatten_replicate r _ n⟩

/-- a post action's error for a test that runs is among the failing events of the repetition -/
theorem post_error_expected (cfg : Cfg) (plugins : List Runner.Plugin) (ts : List Test) (t : Test)
    (p : Runner.Plugin) (e : PErr) (ht : t ∈ running cfg ts) (hp : p ∈ plugins) (hen : p.enabled = true)
    (he : e ∈ p.post) (ha : e.applies t = true) :
    mkRec cfg t e.loc e.msg ∈ expectedFailures cfg plugins ts := by
  unfold expectedFailures
  rw [List.mem_flatMap]
  refine ⟨t, ht, ?_⟩
  unfold testFailures
  apply List.mem_append_right
  unfold postFailures
  rw [List.mem_flatMap]
  refine ⟨p, ?_, ?_⟩
  · rw [List.mem_filter]; exact ⟨List.mem_reverse.mpr hp, hen⟩
  · unfold pluginErrs
    rw [List.mem_map]
    exact ⟨e, List.mem_filter.mpr ⟨he, ha⟩, rfl⟩

/-- **A failure added by a plugin's post action is recorded exactly once** (per repetition): if the record stems from
    one failing event of the repetition only, it is printed exactly `n` times in a run of `n` repetitions, and at
    least once per repetition in any case. -/
theorem post_failure_recorded_once (cfg : Cfg) (plugins : List Runner.Plugin) (ts : List Test) (n : Nat)
    (hr : cfg.rethrow = false) (t : Test) (p : Runner.Plugin) (e : PErr) (ht : t ∈ running cfg ts) (hp : p ∈ plugins)
    (hen : p.enabled = true) (he : e ∈ p.post) (ha : e.applies t = true) :
    ∃ o, runAllTests cfg plugins ts n 0 = .ok o ∧
      n ≤ (failuresOf o.evs).count (mkRec cfg t e.loc e.msg) ∧
      ((expectedFailures cfg plugins ts).count (mkRec cfg t e.loc e.msg) = 1 →
        (failuresOf o.evs).count (mkRec cfg t e.loc e.msg) = n) := by
  obtain ⟨o, ho, hc⟩ := failure_count_formula cfg plugins ts n hr
  refine ⟨o, ho, ?_, ?_⟩
  · rw [hc]
    have := List.count_pos_iff.mpr (post_error_expected cfg plugins ts t p e ht hp hen he ha)
    calc n = n * 1 := (Nat.mul_one n).symm
      _ ≤ n * _ := Nat.mul_le_mul_left n this
  · intro h1; rw [hc, h1, Nat.mul_one]

/-! ## the C07 verdict in the runner model -/

def leakLoc : Loc := ⟨"MemoryLeakWarningPlugin", 0⟩

/-- a scripted command of the C07 model as a runner statement: `FAIL` is a failing check, everything else is an
    observable side effect that does not end the phase -/
def toStmt : LeakPlugin.Cmd → Stmt
  | .fail => .failCpp ⟨"test.cpp", 1⟩ "FAIL"
  | _ => .mark 0

/-- a scripted C07 test as a runner test -/
def toTest (t : LeakPlugin.Test) : Test :=
  { group := "G", name := "t", file := "test.cpp", line := 1, ignored := false,
    setup := t.setup.map toStmt, body := t.body.map toStmt, teardown := t.teardown.map toStmt }

/-- the leak plugin as the runner model sees it for one test: it reports one error in its post action iff the C07
    model's verdict has a leak failure -/
def leakPluginFor (v : LeakPlugin.Verdict) : Runner.Plugin :=
  { name := "MemoryLeakPlugin", enabled := true, pre := [],
    post := if v.leakFail.isSome then [⟨none, leakLoc, "Memory leak(s) found."⟩] else [] }

def hasFail (cs : List LeakPlugin.Cmd) : Bool := cs.any (· == .fail)

theorem hexec_keeps (h : LeakPlugin.Hist.HState) (c : LeakPlugin.Cmd) (hc : c ≠ .fail) :
    (LeakPlugin.Hist.hexec h c).own = h.own ∧ (LeakPlugin.Hist.hexec h c).aborted = h.aborted := by
  cases c with
  | alloc id size => simp only [LeakPlugin.Hist.hexec, LeakPlugin.Hist.hAlloc]; split <;> exact ⟨rfl, rfl⟩
  | free id => exact ⟨rfl, rfl⟩
  | realloc id newId size =>
    simp only [LeakPlugin.Hist.hexec]
    split
    · exact ⟨rfl, rfl⟩
    · split
      · exact ⟨rfl, rfl⟩
      · simp only [LeakPlugin.Hist.hAlloc]; split <;> exact ⟨rfl, rfl⟩
  | reallocFail id size => exact ⟨rfl, rfl⟩
  | expectLeaks n => exact ⟨rfl, rfl⟩
  | ignoreLeaks => exact ⟨rfl, rfl⟩
  | fail => exact absurd rfl hc
  | envSeq n => exact ⟨rfl, rfl⟩

theorem hrun_own : ∀ (cs : List LeakPlugin.Cmd) (h : LeakPlugin.Hist.HState),
    (LeakPlugin.Hist.hrun h cs).own = h.own + (if !h.aborted && hasFail cs then 1 else 0) ∧
    (LeakPlugin.Hist.hrun h cs).aborted = (h.aborted || hasFail cs)
  | [], h => by simp [LeakPlugin.Hist.hrun, hasFail]
  | c :: cs, h => by
    have ih := hrun_own cs
    show (LeakPlugin.Hist.hrun (LeakPlugin.Hist.hstep h c) cs).own = _ ∧
      (LeakPlugin.Hist.hrun (LeakPlugin.Hist.hstep h c) cs).aborted = _
    unfold LeakPlugin.Hist.hstep
    cases hab : h.aborted with
    | true =>
      simp only [if_true]
      rw [(ih h).1, (ih h).2, hab]
      simp
    | false =>
      simp only [Bool.false_eq_true, if_false]
      by_cases hc : c = .fail
      · subst hc
        rw [(ih _).1, (ih _).2]
        simp [LeakPlugin.Hist.hexec, hasFail]
      · have hk := hexec_keeps h c hc
        rw [(ih _).1, (ih _).2, hk.1, hk.2, hab]
        have : (c == LeakPlugin.Cmd.fail) = false := by simpa using hc
        simp [hasFail, this]

/-- the own failing checks the C07 history counts: one per phase that runs and contains a `FAIL` -/
theorem ownFailures_formula (live : List Nat) (t : LeakPlugin.Test) :
    LeakPlugin.Hist.ownFailures live t =
      (if hasFail t.setup then 1 else 0) + (if !hasFail t.setup && hasFail t.body then 1 else 0) +
        (if hasFail t.teardown then 1 else 0) := by
  unfold LeakPlugin.Hist.ownFailures LeakPlugin.Hist.atEnd LeakPlugin.Hist.hPhase
  rw [(hrun_own t.teardown _).1]
  simp only [LeakPlugin.Hist.hEnter, Bool.not_false, Bool.true_and]
  rw [(hrun_own t.body _).1, (hrun_own t.setup _).2, (hrun_own t.setup _).1]
  simp [LeakPlugin.Hist.hEnter, LeakPlugin.Hist.start]

theorem completes_map (exc : Bool) (cs : List LeakPlugin.Cmd) : completes exc (cs.map toStmt) = !hasFail cs := by
  unfold completes hasFail
  congr 1
  induction cs with
  | nil => rfl
  | cons c cs ih =>
    simp only [List.map_cons, List.any_cons, ih]
    congr 1
    cases c <;> rfl

theorem phaseFailures_map (cfg : Cfg) (T : Test) (cs : List LeakPlugin.Cmd) :
    (phaseFailures cfg T (cs.map toStmt)).length = if hasFail cs then 1 else 0 := by
  unfold phaseFailures
  induction cs with
  | nil => simp [hasFail]
  | cons c cs ih =>
    by_cases hc : c = .fail
    · subst hc
      simp [toStmt, hasFail, Stmt.failure]
    · have h1 : toStmt c = .mark 0 := by cases c <;> first | rfl | exact absurd rfl hc
      have h2 : (c == LeakPlugin.Cmd.fail) = false := by simpa using hc
      have : hasFail (c :: cs) = hasFail cs := by simp [hasFail, h2]
      rw [this, ← ih]
      simp only [List.map_cons, h1, executed_mark, List.filterMap_cons, Stmt.failure]

/-- **Own failures agree.**  Connects `LeakPlugin.Hist.ownFailures` (C07's history semantics: a failing check ends
    its phase, the body runs only if the setup completed, the teardown always) with `Runner.testPhaseFailures` (C01's
    textbook reading of `Utest::run`) on the translated test. -/
theorem own_failures_agree (cfg : Cfg) (live : List Nat) (t : LeakPlugin.Test) :
    (testPhaseFailures cfg (toTest t)).length = LeakPlugin.Hist.ownFailures live t := by
  rw [ownFailures_formula]
  unfold testPhaseFailures phasesRun
  have hs : completes cfg.exceptions (toTest t).setup = !hasFail t.setup := completes_map _ _
  rw [hs]
  cases hfs : hasFail t.setup <;>
    simp [stmtsOf, toTest, phaseFailures_map, hfs]

/-- **The C07 verdict is counted once by the runner model.**  Connects `LeakPlugin.runTest` / `verdictOf` (C07:
    failures recorded for a scripted test = own failing checks + at most one leak failure) with `Runner.testFailures`
    (C01: every failing event of one test), the leak plugin reporting its verdict in its post action: the numbers are
    equal for every scripted test from every clean state. -/
theorem leak_verdict_counted_once (cfg : Cfg) (w : LeakPlugin.World) (hc : LeakPlugin.Clean w) (t : LeakPlugin.Test) :
    (testFailures cfg [leakPluginFor (LeakPlugin.verdictOf w (LeakPlugin.runTest w t))] (toTest t)).length =
      (LeakPlugin.verdictOf w (LeakPlugin.runTest w t)).failures := by
  rw [LeakPlugin.failures_recorded w hc t]
  have hv : (LeakPlugin.verdictOf w (LeakPlugin.runTest w t)).leakFail.isSome =
      (w.overloads && LeakPlugin.Hist.shouldFail w.liveIds t) := by
    show (LeakPlugin.runTest w t).leakFail.isSome = _
    rw [LeakPlugin.leakFail_runTest hc t]
    cases (w.overloads && LeakPlugin.Hist.shouldFail w.liveIds t) <;> rfl
  have hpre : preFailures cfg [leakPluginFor (LeakPlugin.verdictOf w (LeakPlugin.runTest w t))] (toTest t) = [] := by
    simp [preFailures, leakPluginFor, pluginErrs]
  have hpost : (postFailures cfg [leakPluginFor (LeakPlugin.verdictOf w (LeakPlugin.runTest w t))] (toTest t)).length =
      if (w.overloads && LeakPlugin.Hist.shouldFail w.liveIds t) = true then 1 else 0 := by
    unfold postFailures leakPluginFor
    rw [hv]
    cases (w.overloads && LeakPlugin.Hist.shouldFail w.liveIds t) <;> simp [pluginErrs, PErr.applies]
  unfold testFailures
  rw [hpre, List.nil_append, List.length_append, hpost, own_failures_agree cfg w.liveIds t]

/-! ## non-vacuity -/

example : (Runner.runAllPost exCfg exT exPlugins ⟨{}, false, 0, none⟩).evs =
    [.plug "b" true 0, .plug "a" true 0, .failure (mkRec exCfg exT ⟨"h.c", 7⟩ "leak")] := by decide

example : (expectedFailures exCfg exPlugins [exT]).count (mkRec exCfg exT ⟨"h.c", 7⟩ "leak") = 1 := by decide

/-- a C07 test that fails its own check in the setup and leaks in the teardown: one own failure, no leak failure -/
example : LeakPlugin.Hist.ownFailures [] { setup := [.alloc 4 1, .fail, .alloc 5 1], body := [.fail], teardown := [.alloc 7 1] } = 1 ∧
    (testPhaseFailures exCfg (toTest { setup := [.alloc 4 1, .fail, .alloc 5 1], body := [.fail], teardown := [.alloc 7 1] })).length = 1 := by
  decide

end Compose.C01x
