import CppUModel.Proofs.Registry
import CppUModel.Proofs.RegistryGen
import CppUModel.Proofs.OrderedTest
/-!
# C02 — every selected test runs exactly once per repetition; selection follows filters

Property theorems only.  Model: `CppUModel/Model/Registry.lean` (from `TestRegistry.cpp`,
`Utest.cpp`, `TestFilter.cpp`, `TestResult.cpp`; the loop-free decision functions are the
regenerated `Gen/RegistryShape.lean`); vocabulary: `CppUModel/Spec/Registry.lean`.

All statements quantify over every test list (any length, any group/name bytes, normal and
ignored shells mixed), every filter list, run-ignored on/off, every random stream.
A repetition is one `runAllTests` on the registry as it is (`Reg.run` is a function of the
registry, so every repetition of an unchanged registry gives the same result).
-/
namespace Registry
open Text (Bytes)

/-! ## accounting -/

/-- run + ignored + filtered-out = number of registered tests, and every test is counted. -/
theorem counts_partition (cfg : Cfg) (ts : List Test) :
    (runAllTests cfg ts).1.runCount + (runAllTests cfg ts).1.ignoredCount +
      (runAllTests cfg ts).1.filteredOutCount = ts.length ∧
    (runAllTests cfg ts).1.testCount = ts.length := by
  have h := runLoop_counts cfg ts true {}
  have hp : ∀ l : List Test,
      (l.filter (fun t => shouldRun cfg t && willRun cfg t)).length +
      (l.filter (fun t => shouldRun cfg t && !willRun cfg t)).length +
      (l.filter (fun t => !shouldRun cfg t)).length = l.length := by
    intro l
    induction l with
    | nil => rfl
    | cons t l ih =>
      cases hs : shouldRun cfg t <;> cases hw : willRun cfg t <;>
        simp [hs, hw] at ih ⊢ <;> omega
  have := hp ts
  obtain ⟨h1, h2, h3, h4⟩ := h
  have z1 : ({} : Counters).testCount = 0 := rfl
  have z2 : ({} : Counters).runCount = 0 := rfl
  have z3 : ({} : Counters).ignoredCount = 0 := rfl
  have z4 : ({} : Counters).filteredOutCount = 0 := rfl
  rw [z1] at h1; rw [z2] at h2; rw [z3] at h3; rw [z4] at h4
  simp only [runAllTests]
  omega

/-- each counter says exactly what it is documented to say -/
theorem counts_exact (cfg : Cfg) (ts : List Test) :
    (runAllTests cfg ts).1.runCount =
      (ts.filter (fun t => shouldRun cfg t && willRun cfg t)).length ∧
    (runAllTests cfg ts).1.ignoredCount =
      (ts.filter (fun t => shouldRun cfg t && !willRun cfg t)).length ∧
    (runAllTests cfg ts).1.filteredOutCount = (ts.filter (fun t => !shouldRun cfg t)).length := by
  obtain ⟨_, h2, h3, h4⟩ := runLoop_counts cfg ts true {}
  have z2 : ({} : Counters).runCount = 0 := rfl
  have z3 : ({} : Counters).ignoredCount = 0 := rfl
  have z4 : ({} : Counters).filteredOutCount = 0 := rfl
  rw [z2] at h2; rw [z3] at h3; rw [z4] at h4
  simp only [runAllTests]
  omega

/-! ## selection -/

/-- The implementation's decision (`UtestShell::shouldRun`) is the documented one: the group is
    accepted by at least one group filter (when any are given) AND the name by at least one name
    filter (when any are given); a filter accepts by substring (`<:+:`), by exact match, or by
    the negation of either. -/
theorem selected_iff (cfg : Cfg) (t : Test) : shouldRun cfg t = true ↔ Selected cfg t :=
  shouldRun_iff cfg t

/-- an empty filter list accepts everything -/
theorem empty_filter_list_accepts (s : Bytes) : kindAccepts [] s := Or.inl rfl

/-- the four kinds of filter, spelled out -/
theorem accepts_kinds (text s : Bytes) :
    (Filter.accepts ⟨text, false, false⟩ s ↔ text <:+: s) ∧
    (Filter.accepts ⟨text, true, false⟩ s ↔ s = text) ∧
    (Filter.accepts ⟨text, false, true⟩ s ↔ ¬ text <:+: s) ∧
    (Filter.accepts ⟨text, true, true⟩ s ↔ s ≠ text) := by
  simp [Filter.accepts, Filter.hit]

/-- a single filter of the implementation (`TestFilter::match`) has that meaning -/
theorem filter_match_iff (f : Filter) (s : Bytes) : f.matches s = true ↔ f.accepts s :=
  matches_iff f s

/-- the order in which filters of a kind were given does not matter -/
theorem filter_order_irrelevant (s : Bytes) (fs fs' : List Filter) (h : fs.Perm fs') :
    matchFilters s fs = matchFilters s fs' := by
  have key : kindAccepts fs s ↔ kindAccepts fs' s := by
    unfold kindAccepts
    constructor
    · rintro (rfl | ⟨f, hf, ha⟩)
      · exact Or.inl h.symm.eq_nil
      · exact Or.inr ⟨f, h.subset hf, ha⟩
    · rintro (rfl | ⟨f, hf, ha⟩)
      · exact Or.inl h.eq_nil
      · exact Or.inr ⟨f, h.symm.subset hf, ha⟩
  rw [← matchFilters_iff, ← matchFilters_iff] at key
  cases h1 : matchFilters s fs <;> cases h2 : matchFilters s fs' <;> simp_all

instance (cfg : Cfg) (t : Test) : Decidable (Selected cfg t) :=
  decidable_of_iff _ (selected_iff cfg t)

/-! ## every selected test exactly once, in order -/

/-- The tests announced as started are exactly the selected tests, as lists: nothing lost,
    nothing duplicated, list order kept; the same for ended; and the bodies executed are exactly
    those of the selected tests that are not ignored (or all selected, with run-ignored). -/
theorem each_selected_once (cfg : Cfg) (ts : List Test) :
    started (runAllTests cfg ts).2 = (ts.filter (shouldRun cfg)).map (·.id) ∧
    ended (runAllTests cfg ts).2 = (ts.filter (shouldRun cfg)).map (·.id) ∧
    executed (runAllTests cfg ts).2 =
      (ts.filter (fun t => shouldRun cfg t && willRun cfg t)).map (·.id) := by
  simp only [runAllTests, started_append, ended_append, executed_append,
    runLoop_started, runLoop_ended, runLoop_executed]
  simp [started, ended, executed]

/-- the same, stated with the documented meaning of "selected" -/
theorem each_selected_once_documented (cfg : Cfg) (ts : List Test) :
    started (runAllTests cfg ts).2 = (ts.filter (fun t => decide (Selected cfg t))).map (·.id) := by
  rw [(each_selected_once cfg ts).1]
  congr 1
  apply List.filter_congr
  intro t _
  cases h : shouldRun cfg t
  · have : ¬ Selected cfg t := fun hs => by rw [(selected_iff cfg t).mpr hs] at h; cases h
    simp [this]
  · have : Selected cfg t := (selected_iff cfg t).mp h
    simp [this]

/-- with distinct shells no body is executed twice -/
theorem executed_nodup (cfg : Cfg) (ts : List Test) (h : (ts.map (·.id)).Nodup) :
    (executed (runAllTests cfg ts).2).Nodup := by
  rw [(each_selected_once cfg ts).2.2]
  exact List.Nodup.sublist (List.Sublist.map _ (List.filter_sublist)) h

/-- a test's body is executed iff it is selected (documented meaning) and will run -/
theorem executed_iff (cfg : Cfg) (ts : List Test) (t : Test) (ht : t ∈ ts)
    (hinj : ∀ a ∈ ts, ∀ b ∈ ts, a.id = b.id → a = b) :
    t.id ∈ executed (runAllTests cfg ts).2 ↔ (Selected cfg t ∧ willRun cfg t = true) := by
  rw [(each_selected_once cfg ts).2.2, ← selected_iff]
  simp only [List.mem_map, List.mem_filter, Bool.and_eq_true]
  constructor
  · rintro ⟨a, ⟨ha, h1, h2⟩, hid⟩
    have := hinj a ha t ht hid
    subst this
    exact ⟨h1, h2⟩
  · rintro ⟨h1, h2⟩
    exact ⟨t, ⟨ht, h1, h2⟩, rfl⟩

/-- The flag `IgnoredUtestShell::runOneTest` reads is the registry's run-ignored flag: the
    shell's flag can only have been set (in an earlier iteration or repetition) while the
    registry's flag was on, and the registry's flag is never switched off. -/
theorem ignored_flag_is_registry_flag (registryFlag shellFlagBefore : Bool)
    (h : shellFlagBefore = true → registryFlag = true) :
    shellFlagAtUse registryFlag shellFlagBefore = registryFlag := by
  cases registryFlag <;> cases shellFlagBefore <;> simp_all [shellFlagAtUse]

/-- and the invariant `shell flag → registry flag` is kept by an iteration -/
theorem ignored_flag_invariant (registryFlag shellFlagBefore : Bool)
    (h : shellFlagBefore = true → registryFlag = true) :
    shellFlagAtUse registryFlag shellFlagBefore = true → registryFlag = true := by
  cases registryFlag <;> cases shellFlagBefore <;> simp_all [shellFlagAtUse]

/-! ## group notifications -/

/-- For every order of the tests (registration order, reversed, or any shuffled order, including
    orders that split a group) the callback stream reads
    `testsStarted (groupStart (testStart exec? testEnd)* groupEnd)* testsEnded`. -/
theorem groups_balanced (cfg : Cfg) (ts : List Test) : Balanced (runAllTests cfg ts).2 :=
  balanced_runAllTests cfg ts

/-- Group start is announced for the first test and group end for the last test of every block;
    the blocks partition the list in order, none is empty, and all tests of a block carry the
    same group name. -/
theorem group_notifications_at_block_boundaries (cfg : Cfg) (ts : List Test) :
    groupStarts (runAllTests cfg ts).2 = blockHeads (groupBlocks ts) ∧
    groupEnds (runAllTests cfg ts).2 = blockLasts (groupBlocks ts) ∧
    (groupBlocks ts).flatten = ts ∧
    (∀ b ∈ groupBlocks ts, b ≠ []) ∧
    (∀ b ∈ groupBlocks ts, ∀ t ∈ b, ∀ t' ∈ b, t.group = t'.group) := by
  refine ⟨?_, ?_, groupBlocks_flatten ts, groupBlocks_block_ne_nil ts, groupBlocks_same_group ts⟩
  · simp only [runAllTests, groupStarts_append, runLoop_groupStarts]
    simp [groupStarts]
  · simp only [runAllTests, groupEnds_append, runLoop_groupEnds]
    simp [groupEnds]

/-! ## the pointer array: shuffle, reverse, relink -/

/-- Fisher–Yates exactly as in `UtestShellPointerArray::shuffle` is a permutation for every
    random stream (any values, any length, also too short). -/
theorem shuffle_perm (rs : List Nat) (a : Array Nat) : (shuffleArr rs a).toList.Perm a.toList :=
  shuffleArr_perm rs a

/-- the shuffle only swaps inside the array: `1 ≤ i ≤ count-1`, `j ≤ i` (the C++ `swap` has no
    bounds check); with `count-1` random numbers it makes `count-1` swaps -/
theorem shuffle_in_bounds (rs : List Nat) (a : Array Nat) :
    (∀ p ∈ shuffleSwaps (a.size - 1) rs, 1 ≤ p.1 ∧ p.1 < a.size ∧ p.2 ≤ p.1) ∧
    (a.size ≠ 0 → shuffleArr rs a =
      (shuffleSwaps (a.size - 1) rs).foldl (fun b p => swap b p.1 p.2) a) ∧
    (randsNeeded a.size ≤ rs.length → (shuffleSwaps (a.size - 1) rs).length = a.size - 1) := by
  refine ⟨?_, ?_, ?_⟩
  · intro p hp
    have := shuffleSwaps_bounds _ _ p hp
    omega
  · intro h
    simp [shuffleArr, h, shuffleLoop_eq_foldl]
  · intro h
    exact shuffleSwaps_length _ _ h

/-- `reverse()` produces the exact reverse -/
theorem reverse_eq_reverse (a : Array Nat) : (reverseArr a).toList = a.toList.reverse :=
  reverseArr_toList a

/-- array → `relinkTestsInOrder` → following `next_` from `getFirstTest()`: exactly the array's
    elements in the array's order, ending in NULL — provided the array holds distinct shells
    (which `shuffle_perm`/`reverse_eq_reverse` preserve). -/
theorem relink_roundtrip (a : Array Nat) (nx : Next) (h : a.toList.Nodup) :
    Linked (relink a nx) (firstOf a) a.toList ∧
    ∀ fuel, a.size ≤ fuel → walk (relink a nx) fuel (firstOf a) = a.toList := by
  have hl := relink_linked a nx h
  exact ⟨hl, fun f hf => walk_of_linked hl f (by simpa using hf)⟩

/-- the constructor copies exactly the linked list into the array -/
theorem array_of_list (nx : Next) (h : Option Nat) (l : List Nat) (hl : Linked nx h l)
    (fuel : Nat) (hf : l.length ≤ fuel + 1) : (mkArray nx fuel h).toList = l :=
  mkArray_of_linked hl fuel hf


/-! ## the REGENERATED pointer-array methods (translated from the clang AST on every run)

`Gen/PointerArray.lean` holds `UtestShellPointerArray::{swap, shuffle, reverse, relinkTestsInOrder}`
as the current source has them.  They are proved EQUAL to the hand-written array model, so
`shuffle_perm`, `shuffle_in_bounds`, `reverse_eq_reverse`, `relink_roundtrip`, `wf_history`,
`shuffle_run`, `reverse_run`, `runner_every_repetition` speak about the loops of the source at
check time. -/

open PA in
/-- `swap(i, j)` of the source, inside the array, exchanges exactly the two elements -/
theorem gen_swap_eq (s : St) (i j : Nat) (hi : i < s.arr.size) (hj : j < s.arr.size) :
    Gen.PointerArray.swap s i j = .go { s with arr := swap s.arr i j } := gen_swap s i j hi hj

open PA in
/-- `relinkTestsInOrder()` of the source is the model's relink loop (and touches nothing else) -/
theorem gen_relink_eq (s : St) (hc : s.count = s.arr.size) :
    ∃ s', Gen.PointerArray.relinkTestsInOrder s = .go s' ∧ s'.next = relink s.arr s.next ∧
      s'.arr = s.arr ∧ s'.count = s.count ∧ s'.rands = s.rands ∧ s'.srands = s.srands :=
  gen_relink s hc

open PA in
/-- `reverse()` of the source: never runs out of fuel, leaves the exact reverse in the array and
    the relinked `next_` fields; `PlatformSpecificRand/Srand` are not touched -/
theorem gen_reverse_eq (s : St) (hc : s.count = s.arr.size) :
    ∃ s', (Gen.PointerArray.reverse s).state? = some s' ∧ s'.arr.toList = s.arr.toList.reverse ∧
      s'.next = (if s.arr.size = 0 then s.next else relink (reverseArr s.arr) s.next) ∧
      s'.rands = s.rands ∧ s'.srands = s.srands := by
  obtain ⟨s', h1, h2, h3, h4, h5⟩ := gen_reverse s hc
  exact ⟨s', h1, by rw [h2, reverseArr_toList], h3, h4, h5⟩

open PA in
/-- `shuffle(seed)` of the source, for EVERY random stream long enough (`count_ - 1` numbers):
    never runs out of fuel, seeds exactly once with `(unsigned int) seed` (not at all for an empty
    array), consumes exactly `count_ - 1` numbers, leaves a PERMUTATION of the array (the one
    `shuffleArr` computes) and its relinked `next_` fields. -/
theorem gen_shuffle_eq (s : St) (seed : Nat) (hc : s.count = s.arr.size)
    (hr : randsNeeded s.arr.size ≤ s.rands.length) :
    ∃ s', (Gen.PointerArray.shuffle s seed).state? = some s' ∧ s'.arr = shuffleArr s.rands s.arr ∧
      s'.arr.toList.Perm s.arr.toList ∧
      s'.next = (if s.arr.size = 0 then s.next else relink s'.arr s.next) ∧
      s'.rands = (if s.arr.size = 0 then s.rands else s.rands.drop (randsNeeded s.arr.size)) ∧
      s'.srands = (if s.arr.size = 0 then s.srands else s.srands ++ [seed % 4294967296]) := by
  obtain ⟨s', h1, h2, h3, h4, h5⟩ := gen_shuffle s seed hc hr
  exact ⟨s', h1, h2, by rw [h2]; exact shuffle_perm _ _, by rw [h2]; exact h3, h4, h5⟩

/-- `TestRegistry::reverseTests` executed through the regenerated `reverse` IS the model's
    `Reg.reverseTests` (no hypothesis: the constructor makes `count_` the array's size). -/
theorem gen_reverseTests_eq (r : Reg) :
    ∃ g, r.reverseTestsGen = some g ∧ g.reg = r.reverseTests ∧ g.srands = [] ∧ g.rest = [] := by
  obtain ⟨s', h1, h2, h3, h4, h5⟩ := gen_reverse (r.pointerArray []) rfl
  refine ⟨{ reg := r.afterArray s', srands := s'.srands, rest := s'.rands }, ?_, ?_, h5, h4⟩
  · simp only [Reg.reverseTestsGen, h1]
  · simp only [Reg.afterArray, Reg.reverseTests, h2, h3, Reg.pointerArray]
    rfl

/-- `TestRegistry::shuffleTests(seed)` executed through the regenerated `shuffle` IS the model's
    `Reg.shuffleTests` on the numbers drawn; it draws `n - 1` numbers for `n` registered tests. -/
theorem gen_shuffleTests_eq (r : Reg) (seed : Nat) (rs : List Nat)
    (hr : randsNeeded (mkArray r.next r.objs.size r.head).size ≤ rs.length) :
    ∃ g, r.shuffleTestsGen seed rs = some g ∧ g.reg = r.shuffleTests rs ∧
      g.srands = (if (mkArray r.next r.objs.size r.head).size = 0 then [] else [seed % 4294967296]) ∧
      g.rest = (if (mkArray r.next r.objs.size r.head).size = 0 then rs
                else rs.drop (randsNeeded (mkArray r.next r.objs.size r.head).size)) := by
  obtain ⟨s', h1, h2, h3, h4, h5⟩ := gen_shuffle (r.pointerArray rs) seed rfl hr
  refine ⟨{ reg := r.afterArray s', srands := s'.srands, rest := s'.rands }, ?_, ?_, ?_, h4⟩
  · simp only [Reg.shuffleTestsGen, h1]
  · simp only [Reg.afterArray, Reg.shuffleTests, h2, h3, Reg.pointerArray]
    rfl
  · rw [h5]; simp [Reg.pointerArray]

/-- End to end on the regenerated code: after `shuffleTests(seed)` as the source has it, for any
    seed and any random stream, the registry is well formed and its list is a permutation of the
    list before — no test lost, none duplicated. -/
theorem gen_shuffleTests_perm {r : Reg} (h : r.WF) (seed : Nat) (rs : List Nat)
    (hr : randsNeeded r.order.length ≤ rs.length) :
    ∃ g, r.shuffleTestsGen seed rs = some g ∧ g.reg.WF ∧ g.reg.order.Perm r.order ∧
      g.rest.length + randsNeeded r.order.length = rs.length := by
  have hsz : (mkArray r.next r.objs.size r.head).size = r.order.length := by
    rw [← Array.length_toList, h.mkArray_toList]
  obtain ⟨g, h1, h2, _, h4⟩ := gen_shuffleTests_eq r seed rs (by rw [hsz]; exact hr)
  refine ⟨g, h1, by rw [h2]; exact (wf_shuffleTests h rs).1, by rw [h2]; exact (wf_shuffleTests h rs).2, ?_⟩
  rw [h4, hsz]
  split
  · rename_i h0; simp [h0, randsNeeded]
  · simp only [List.length_drop]; omega

/-- ... and after `reverseTests()` as the source has it the list is the exact reverse. -/
theorem gen_reverseTests_order {r : Reg} (h : r.WF) :
    ∃ g, r.reverseTestsGen = some g ∧ g.reg.WF ∧ g.reg.order = r.order.reverse := by
  obtain ⟨g, h1, h2, _, _⟩ := gen_reverseTests_eq r
  exact ⟨g, h1, by rw [h2]; exact (wf_reverseTests h).1, by rw [h2]; exact (wf_reverseTests h).2⟩


/-! ## the registry: no test is ever lost or duplicated -/

inductive RegOp
  | addTest (group name : Bytes) (ignored : Bool)
  | groupFilter (f : Filter)
  | nameFilter (f : Filter)
  | runIgnored
  | reverse
  | shuffle (rs : List Nat)
  | undoLastAdd
  | shellRunIgnored (i : Nat)      -- `shell->setRunIgnored()` called directly on shell `i`
  | ran                            -- a `runAllTests` happened (its effect on the shells' flags)

def Reg.apply (r : Reg) : RegOp → Reg
  | .addTest g n ig => r.addTest g n ig
  | .groupFilter f => { r with groupFilters := f :: r.groupFilters }
  | .nameFilter f => { r with nameFilters := f :: r.nameFilters }
  | .runIgnored => { r with runIgnored := true }
  | .reverse => r.reverseTests
  | .shuffle rs => r.shuffleTests rs
  | .undoLastAdd => r.unDoLastAddTest
  | .shellRunIgnored i => r.shellSetRunIgnored i
  | .ran => r.afterRun

theorem wf_apply {r : Reg} (h : r.WF) (op : RegOp) : (r.apply op).WF := by
  cases op with
  | addTest g n ig => exact (wf_addTest h g n ig).1
  | groupFilter f => exact ⟨h.linked, h.nodup, h.bound, h.ids⟩
  | nameFilter f => exact ⟨h.linked, h.nodup, h.bound, h.ids⟩
  | runIgnored => exact ⟨h.linked, h.nodup, h.bound, h.ids⟩
  | reverse => exact (wf_reverseTests h).1
  | shuffle rs => exact (wf_shuffleTests h rs).1
  | undoLastAdd => exact (wf_unDoLastAddTest h).1
  | shellRunIgnored i => exact (wf_shellSetRunIgnored h i).1
  | ran => exact (wf_afterRun h).1

/-- After any history of registrations, filter settings, reversals, shuffles (any random
    streams), un-registrations, direct `setRunIgnored` calls and runs, the list is a proper
    NULL-terminated list of distinct shells. -/
theorem wf_history (ops : List RegOp) : (ops.foldl Reg.apply Reg.empty).WF := by
  suffices ∀ r : Reg, r.WF → (ops.foldl Reg.apply r).WF from this _ wf_empty
  induction ops with
  | nil => intro r h; exact h
  | cons op ops ih => intro r h; exact ih _ (wf_apply h op)

theorem complete_history_from (ops : List RegOp) : ∀ r : Reg, r.WF → r.Complete →
    (∀ op ∈ ops, op ≠ RegOp.undoLastAdd) → (ops.foldl Reg.apply r).Complete := by
  induction ops with
  | nil => intro r _ hc _; exact hc
  | cons op ops ih =>
    intro r h hc hno
    apply ih _ (wf_apply h op) _ (fun o ho => hno o (by simp [ho]))
    have hop := hno op (by simp)
    cases op with
    | addTest g n ig => exact complete_addTest h hc g n ig
    | groupFilter f => exact hc
    | nameFilter f => exact hc
    | runIgnored => exact hc
    | reverse =>
      unfold Reg.Complete
      simp only [Reg.apply]
      rw [(wf_reverseTests h).2]
      exact (List.reverse_perm _).trans hc
    | shuffle rs =>
      unfold Reg.Complete
      exact ((wf_shuffleTests h rs).2).trans hc
    | undoLastAdd => exact absurd rfl hop
    | shellRunIgnored i =>
      unfold Reg.Complete
      simp only [Reg.apply]
      rw [(wf_shellSetRunIgnored h i).2]
      have hc' : r.order.Perm (List.range r.objs.size) := hc
      simpa [Reg.shellSetRunIgnored] using hc'
    | ran =>
      unfold Reg.Complete
      simp only [Reg.apply]
      rw [(wf_afterRun h).2]
      have hc' : r.order.Perm (List.range r.objs.size) := hc
      simpa [Reg.afterRun, markRunIgnored] using hc'

/-- Without `unDoLastAddTest` the list moreover holds EVERY shell ever registered. -/
theorem complete_history (ops : List RegOp) (hno : ∀ op ∈ ops, op ≠ RegOp.undoLastAdd) :
    (ops.foldl Reg.apply Reg.empty).Complete :=
  complete_history_from ops _ wf_empty complete_empty hno

theorem addTest_order {r : Reg} (h : r.WF) (g n : Bytes) (ig : Bool) :
    (r.addTest g n ig).order = r.objs.size :: r.order := (wf_addTest h g n ig).2

theorem reverseTests_order {r : Reg} (h : r.WF) : r.reverseTests.order = r.order.reverse :=
  (wf_reverseTests h).2

theorem shuffleTests_perm {r : Reg} (h : r.WF) (rs : List Nat) :
    (r.shuffleTests rs).order.Perm r.order := (wf_shuffleTests h rs).2

/-- `unDoLastAddTest` removes exactly the first shell of the list (the shell registered last,
    unless the list was reordered since) -/
theorem unDoLastAddTest_order {r : Reg} (h : r.WF) : r.unDoLastAddTest.order = r.order.drop 1 :=
  (wf_unDoLastAddTest h).2

/-- registering and un-registering gives the registry's list back -/
theorem unDo_addTest {r : Reg} (h : r.WF) (g n : Bytes) (ig : Bool) :
    (r.addTest g n ig).unDoLastAddTest.order = r.order := by
  rw [unDoLastAddTest_order (wf_addTest h g n ig).1, addTest_order h]
  rfl

/-- In a repetition every registered test is run, or counted as ignored, or counted as filtered
    out: the three counters sum to the number of registered shells, whatever reversals and
    shuffles happened before. -/
theorem run_counts_registered {r : Reg} (h : r.WF) :
    r.run.1.runCount + r.run.1.ignoredCount + r.run.1.filteredOutCount = r.order.length ∧
    r.run.1.testCount = r.order.length := by
  have := counts_partition r.cfg r.tests
  rw [tests_length h] at this
  exact this

/-- ... which, as long as nothing was un-registered, is the number of shells ever registered -/
theorem run_counts_all_registered {r : Reg} (h : r.WF) (hc : r.Complete) :
    r.run.1.runCount + r.run.1.ignoredCount + r.run.1.filteredOutCount = r.objs.size := by
  rw [(run_counts_registered h).1, complete_length hc]

/-- Reversing only reverses the order in which the same tests start. -/
theorem reverse_run {r : Reg} (h : r.WF) :
    started r.reverseTests.run.2 = (started r.run.2).reverse ∧
    executed r.reverseTests.run.2 = (executed r.run.2).reverse ∧
    r.reverseTests.run.1 = r.run.1 := by
  have ht : r.reverseTests.tests = r.tests.reverse := by
    unfold Reg.tests
    rw [reverseTests_order h, List.filterMap_reverse]
    rfl
  have hc : r.reverseTests.cfg = r.cfg := rfl
  unfold Reg.run
  rw [hc, ht]
  have e1 := each_selected_once r.cfg r.tests.reverse
  have e2 := each_selected_once r.cfg r.tests
  refine ⟨?_, ?_, ?_⟩
  · rw [e1.1, e2.1, List.filter_reverse, List.map_reverse]
  · rw [e1.2.2, e2.2.2, List.filter_reverse, List.map_reverse]
  · have c1 := counts_exact r.cfg r.tests.reverse
    have c2 := counts_exact r.cfg r.tests
    have p1 := counts_partition r.cfg r.tests.reverse
    have p2 := counts_partition r.cfg r.tests
    simp only [List.filter_reverse, List.length_reverse] at c1 p1
    cases hx : (runAllTests r.cfg r.tests.reverse).1
    cases hy : (runAllTests r.cfg r.tests).1
    simp only [hx, hy] at c1 c2 p1 p2
    simp only [Counters.mk.injEq]
    omega

/-- Shuffling with any random stream only permutes: the same tests start, the same bodies are
    executed (as multisets), and every counter is unchanged. -/
theorem shuffle_run {r : Reg} (h : r.WF) (rs : List Nat) :
    (started (r.shuffleTests rs).run.2).Perm (started r.run.2) ∧
    (executed (r.shuffleTests rs).run.2).Perm (executed r.run.2) ∧
    (r.shuffleTests rs).run.1 = r.run.1 := by
  have ht : (r.shuffleTests rs).tests.Perm r.tests := by
    unfold Reg.tests
    exact (shuffleTests_perm h rs).filterMap _
  have hc : (r.shuffleTests rs).cfg = r.cfg := rfl
  unfold Reg.run
  rw [hc]
  have e1 := each_selected_once r.cfg (r.shuffleTests rs).tests
  have e2 := each_selected_once r.cfg r.tests
  refine ⟨?_, ?_, ?_⟩
  · rw [e1.1, e2.1]; exact (ht.filter _).map _
  · rw [e1.2.2, e2.2.2]; exact (ht.filter _).map _
  · have c1 := counts_exact r.cfg (r.shuffleTests rs).tests
    have c2 := counts_exact r.cfg r.tests
    have p1 := counts_partition r.cfg (r.shuffleTests rs).tests
    have p2 := counts_partition r.cfg r.tests
    rw [(ht.filter _).length_eq] at c1
    rw [(ht.filter _).length_eq, (ht.filter _).length_eq] at c1
    rw [ht.length_eq] at p1
    cases hx : (runAllTests r.cfg (r.shuffleTests rs).tests).1
    cases hy : (runAllTests r.cfg r.tests).1
    simp only [hx, hy] at c1 c2 p1 p2
    simp only [Counters.mk.injEq]
    omega

/-! ## TEST_ORDERED (src/CppUTestExt/OrderedTest.cpp): ordered tests are registered like any other

The installer links an ordered shell into the registry's `next_` list AND into the level-sorted
`_nextOrderedTest` list.  For every sequence of registrations (plain, ignored and ordered tests
in any order, any levels) the registry's list holds every shell exactly once, the plain tests
stand in front (newest first, as without ordered tests) and the ordered tests behind them in the
order of their levels, equal levels in registration order.  Every theorem above that needs
`Reg.WF` / `Reg.Complete` therefore applies to registries with ordered tests. -/

/-- one static registration -/
inductive InstOp
  | test (group name : Bytes) (ignored : Bool)          -- TEST / IGNORE_TEST
  | ordered (lvl : Int) (group name : Bytes)            -- TEST_ORDERED(group, name, lvl)

def OReg.applyInst (o : OReg) : InstOp → OReg
  | .test g n ig => o.addTest g n ig
  | .ordered lvl g n => o.install lvl g n [] 0

/-- ids (registration indices, from `k`) of the plain / ignored registrations -/
def plainOf : List InstOp → Nat → List Nat
  | [], _ => []
  | .test _ _ _ :: ops, k => k :: plainOf ops (k + 1)
  | .ordered _ _ _ :: ops, k => plainOf ops (k + 1)

/-- ids and levels of the ordered registrations -/
def orderedOf : List InstOp → Nat → List (Nat × Int)
  | [], _ => []
  | .test _ _ _ :: ops, k => orderedOf ops (k + 1)
  | .ordered lvl _ _ :: ops, k => (k, lvl) :: orderedOf ops (k + 1)

/-- sorted by level, equal levels by registration index -/
def LevelSorted (level : Nat → Int) (chain : List Nat) : Prop :=
  chain.Pairwise (fun a b => level a < level b ∨ (level a = level b ∧ a < b))

theorem insLvl_levelSorted (level : Nat → Int) (lvl : Int) (i : Nat) : ∀ chain : List Nat,
    LevelSorted level chain → (∀ c ∈ chain, c < i) →
    LevelSorted (fun k => if k = i then lvl else level k) (insLvl level lvl i chain)
  | [], _, _ => by simp [insLvl, LevelSorted]
  | c :: chain, hs, hlt => by
    have hs' := List.pairwise_cons.mp hs
    have hci : c ≠ i := by have := hlt c (by simp); omega
    have hlt' : ∀ x ∈ chain, x < i := fun x hx => hlt x (by simp [hx])
    have hne : ∀ x ∈ chain, x ≠ i := fun x hx => by have := hlt' x hx; omega
    by_cases hc : level c ≤ lvl
    · have e : insLvl level lvl i (c :: chain) = c :: insLvl level lvl i chain := by
        simp [insLvl, List.takeWhile, List.dropWhile, hc]
      rw [e]
      apply List.pairwise_cons.mpr
      refine ⟨?_, insLvl_levelSorted level lvl i chain hs'.2 hlt'⟩
      intro b hb
      have hb' := (insLvl_perm level lvl i chain).subset hb
      simp only [hci, if_false]
      simp only [List.mem_cons] at hb'
      rcases hb' with rfl | hb'
      · have := hlt c (by simp)
        simp only [if_true]
        omega
      · simp only [hne b hb', if_false]
        exact hs'.1 b hb'
    · have e : insLvl level lvl i (c :: chain) = i :: c :: chain := by
        simp [insLvl, List.takeWhile, List.dropWhile, hc]
      rw [e]
      apply List.pairwise_cons.mpr
      constructor
      · intro b hb
        have hbi : b ≠ i := by
          simp only [List.mem_cons] at hb
          rcases hb with rfl | hb
          · exact hci
          · exact hne b hb
        simp only [if_true, hbi, if_false]
        simp only [List.mem_cons] at hb
        rcases hb with rfl | hb
        · left; omega
        · rcases hs'.1 b hb with h1 | h1
          · left; omega
          · left; omega
      · apply List.Pairwise.imp_of_mem _ hs
        intro a b ha hb hab
        have hai : a ≠ i := by have := hlt a ha; omega
        have hbi : b ≠ i := by have := hlt b hb; omega
        simpa [hai, hbi] using hab

/-- the state reached by registrations: invariant of OrderedTest.cpp plus what is where -/
structure InstState (o : OReg) (pre chain : List Nat) : Prop where
  inv     : OInv o pre chain
  lex     : LevelSorted o.level chain
  bound   : ∀ c ∈ pre ++ chain, c < o.reg.objs.size
  all     : (pre ++ chain).Perm (List.range o.reg.objs.size)

theorem instState_step {o : OReg} {pre chain : List Nat} (h : InstState o pre chain) (op : InstOp) :
    ∃ pre' chain', InstState (o.applyInst op) pre' chain' ∧
      (o.applyInst op).reg.objs.size = o.reg.objs.size + 1 ∧
      (match op with
       | .test _ _ _ => pre' = o.reg.objs.size :: pre ∧ chain' = chain ∧ (o.applyInst op).level = o.level
       | .ordered lvl _ _ => pre' = pre ∧ chain' = insLvl o.level lvl o.reg.objs.size chain ∧
           (o.applyInst op).level o.reg.objs.size = lvl ∧
           ∀ c, c ≠ o.reg.objs.size → (o.applyInst op).level c = o.level c) := by
  cases op with
  | test g n ig =>
    refine ⟨o.reg.objs.size :: pre, chain, ?_, by simp [OReg.applyInst, OReg.addTest, Reg.addTest], rfl, rfl, rfl⟩
    have hsz : (o.addTest g n ig).reg.objs.size = o.reg.objs.size + 1 := by simp [OReg.addTest, Reg.addTest]
    refine { inv := oinv_addTest h.inv g n ig [] 0, lex := h.lex, bound := ?_, all := ?_ }
    · intro c hc
      show c < (o.addTest g n ig).reg.objs.size
      rw [hsz]
      simp only [List.cons_append, List.mem_cons] at hc
      rcases hc with rfl | hc
      · omega
      · have := h.bound c hc; omega
    · show (o.reg.objs.size :: pre ++ chain).Perm (List.range (o.addTest g n ig).reg.objs.size)
      rw [hsz, List.range_succ]
      exact (List.Perm.cons _ h.all).trans (List.perm_append_singleton _ _).symm
  | ordered lvl g n =>
    obtain ⟨hinv, hsz, hlev⟩ := oinv_install h.inv lvl g n [] 0
    have hlt : ∀ c ∈ chain, c < o.reg.objs.size := fun c hc => h.bound c (by simp [hc])
    refine ⟨pre, insLvl o.level lvl o.reg.objs.size chain, ?_, hsz, rfl, rfl, by simp [OReg.applyInst, hlev], ?_⟩
    · refine { inv := hinv, lex := ?_, bound := ?_, all := ?_ }
      · show LevelSorted (o.install lvl g n [] 0).level _
        rw [hlev]
        exact insLvl_levelSorted o.level lvl o.reg.objs.size chain h.lex hlt
      · intro c hc
        show c < (o.install lvl g n [] 0).reg.objs.size
        rw [hsz]
        simp only [List.mem_append] at hc
        rcases hc with hc | hc
        · have := h.bound c (by simp [hc]); omega
        · have := (insLvl_perm o.level lvl o.reg.objs.size chain).subset hc
          simp only [List.mem_cons] at this
          rcases this with rfl | hc'
          · omega
          · have := hlt c hc'; omega
      · show (pre ++ insLvl o.level lvl o.reg.objs.size chain).Perm (List.range (o.install lvl g n [] 0).reg.objs.size)
        rw [hsz, List.range_succ]
        have p1 : (pre ++ insLvl o.level lvl o.reg.objs.size chain).Perm (pre ++ (o.reg.objs.size :: chain)) :=
          List.Perm.append_left _ (insLvl_perm _ _ _ _)
        have p2 : (pre ++ (o.reg.objs.size :: chain)).Perm (o.reg.objs.size :: (pre ++ chain)) := List.perm_middle
        exact (p1.trans p2).trans ((List.Perm.cons _ h.all).trans (List.perm_append_singleton _ _).symm)
    · intro c hc
      simp [OReg.applyInst, hlev, hc]

theorem instState_history (ops : List InstOp) : ∀ (o : OReg) (pre chain : List Nat), InstState o pre chain →
    ∃ pre' chain', InstState (ops.foldl OReg.applyInst o) pre' chain' ∧
      (ops.foldl OReg.applyInst o).reg.objs.size = o.reg.objs.size + ops.length ∧
      pre' = (plainOf ops o.reg.objs.size).reverse ++ pre ∧
      chain'.Perm ((orderedOf ops o.reg.objs.size).map (·.1) ++ chain) ∧
      (∀ p ∈ orderedOf ops o.reg.objs.size, (ops.foldl OReg.applyInst o).level p.1 = p.2) ∧
      (∀ c, c < o.reg.objs.size → (ops.foldl OReg.applyInst o).level c = o.level c) := by
  induction ops with
  | nil => intro o pre chain h; exact ⟨pre, chain, h, rfl, by simp [plainOf], by simp [orderedOf], by simp [orderedOf], fun _ _ => rfl⟩
  | cons op ops ih =>
    intro o pre chain h
    obtain ⟨pre1, chain1, h1, hsz1, hop⟩ := instState_step h op
    obtain ⟨pre', chain', h2, hsz2, hp, hc, hl, hk⟩ := ih _ pre1 chain1 h1
    refine ⟨pre', chain', h2, by simp only [List.foldl_cons, List.length_cons]; rw [hsz2, hsz1]; omega, ?_, ?_, ?_, ?_⟩
    · cases op with
      | test g n ig =>
        obtain ⟨e1, _, _⟩ := hop
        rw [hp, hsz1, e1]; simp [plainOf]
      | ordered lvl g n =>
        obtain ⟨e1, _, _⟩ := hop
        rw [hp, hsz1, e1]; simp [plainOf]
    · cases op with
      | test g n ig =>
        obtain ⟨_, e2, _⟩ := hop
        rw [hsz1, e2] at hc; simpa [orderedOf] using hc
      | ordered lvl g n =>
        obtain ⟨_, e2, _⟩ := hop
        rw [hsz1, e2] at hc
        simp only [orderedOf, List.map_cons, List.cons_append]
        refine hc.trans ?_
        have := insLvl_perm o.level lvl o.reg.objs.size chain
        exact (List.Perm.append_left _ this).trans List.perm_middle
    · intro p hpm
      simp only [List.foldl_cons]
      cases op with
      | test g n ig =>
        simp only [orderedOf] at hpm
        exact hl p (by rw [hsz1]; exact hpm)
      | ordered lvl g n =>
        obtain ⟨_, _, e3, _⟩ := hop
        simp only [orderedOf, List.mem_cons] at hpm
        rcases hpm with rfl | hpm
        · rw [hk _ (by rw [hsz1]; omega)]; exact e3
        · exact hl p (by rw [hsz1]; exact hpm)
    · intro c hcl
      simp only [List.foldl_cons]
      rw [hk c (by rw [hsz1]; omega)]
      cases op with
      | test g n ig => obtain ⟨_, _, e3⟩ := hop; rw [e3]
      | ordered lvl g n => obtain ⟨_, _, _, e4⟩ := hop; exact e4 c (by omega)

theorem instState_empty : InstState {} [] [] :=
  { inv := oinv_empty, lex := List.Pairwise.nil, bound := by simp,
    all := by simp [Reg.empty] }

/-- **Registrations with TEST_ORDERED.**  After ANY sequence of static registrations — plain,
    ignored and ordered tests in any order, any levels (ties, negative, INT_MIN/INT_MAX) — the
    registry's list is a proper NULL-terminated list that holds every registered shell exactly
    once (`WF`, `Complete`); it reads: the plain/ignored tests, newest first, followed by the
    ordered tests; the ordered tests are exactly the `_nextOrderedTest` chain and stand in the
    order of their levels, equal levels in registration order. -/
theorem ordered_history (ops : List InstOp) :
    (ops.foldl OReg.applyInst {}).reg.WF ∧ (ops.foldl OReg.applyInst {}).reg.Complete ∧
    (ops.foldl OReg.applyInst {}).reg.objs.size = ops.length ∧
    ∃ chain, (ops.foldl OReg.applyInst {}).reg.order = (plainOf ops 0).reverse ++ chain ∧
      (ops.foldl OReg.applyInst {}).chain = chain ∧
      chain.Perm ((orderedOf ops 0).map (·.1)) ∧
      (∀ p ∈ orderedOf ops 0, (ops.foldl OReg.applyInst {}).level p.1 = p.2) ∧
      LevelSorted (ops.foldl OReg.applyInst {}).level chain := by
  obtain ⟨pre', chain', h, hsz, hp, hc, hl, _⟩ := instState_history ops {} [] [] instState_empty
  have hsz0 : ({} : OReg).reg.objs.size = 0 := rfl
  rw [hsz0] at hsz hp hc hl
  have hord := h.inv.order
  refine ⟨h.inv.wf, ?_, by simpa using hsz, chain', ?_, ?_, by simpa using hc, hl, h.lex⟩
  · unfold Reg.Complete; rw [hord]; exact h.all
  · rw [hord, hp]; simp
  · unfold OReg.chain
    apply walk_of_linked h.inv.olink
    have hsub : chain'.length ≤ (pre' ++ chain').length := by simp
    have := h.inv.wf.order_length_le
    rw [hord] at this
    omega

/-- ... hence in a repetition every registration — ordered or not — is run, or counted as
    ignored, or counted as filtered out: the three counters sum to the number of registrations,
    whatever filters are set afterwards. -/
theorem ordered_every_registration_counted (ops : List InstOp) (gf nf : List Filter) (ri : Bool) :
    ({ (ops.foldl OReg.applyInst {}).reg with groupFilters := gf, nameFilters := nf, runIgnored := ri } : Reg).run.1.runCount +
    ({ (ops.foldl OReg.applyInst {}).reg with groupFilters := gf, nameFilters := nf, runIgnored := ri } : Reg).run.1.ignoredCount +
    ({ (ops.foldl OReg.applyInst {}).reg with groupFilters := gf, nameFilters := nf, runIgnored := ri } : Reg).run.1.filteredOutCount
      = ops.length := by
  obtain ⟨hw, hc, hsz, _⟩ := ordered_history ops
  have hw' : ({ (ops.foldl OReg.applyInst {}).reg with groupFilters := gf, nameFilters := nf, runIgnored := ri } : Reg).WF :=
    ⟨hw.linked, hw.nodup, hw.bound, hw.ids⟩
  have := run_counts_all_registered hw' hc
  rw [this]
  exact hsz

/-- `reg->getTestWithNext(head)` in `addOrderedTestToHead`: the id-level loop of the installer's
    model is the registry query `getTestWithNext` proved in `getTestWithNext_spec` -/
theorem ordered_uses_getTestWithNext {r : Reg} (h : r.WF) (target : Option Nat) :
    prevId target r.order = getTestWithNext target r.tests := prevId_order h target

/-- the single installer step, on any state the registrations can reach: only an insertion -/
theorem ordered_install_inserts {o : OReg} {pre chain : List Nat} (h : OInv o pre chain) (lvl : Int)
    (g n f : Bytes) (line : Nat) :
    (o.install lvl g n f line).reg.WF ∧
    (o.install lvl g n f line).reg.order = pre ++ insLvl o.level lvl o.reg.objs.size chain ∧
    ((o.install lvl g n f line).reg.order.filter (· ≠ o.reg.objs.size)) = o.reg.order := by
  obtain ⟨hinv, _, _⟩ := oinv_install h lvl g n f line
  refine ⟨hinv.wf, hinv.order, ?_⟩
  rw [hinv.order, h.order]
  have hnot : ∀ c ∈ pre ++ chain, c ≠ o.reg.objs.size := by
    intro c hc e
    have := h.wf.bound c (h.order ▸ hc)
    omega
  have hf : ∀ l : List Nat, (∀ c ∈ l, c ≠ o.reg.objs.size) → l.filter (· ≠ o.reg.objs.size) = l := by
    intro l hl
    apply List.filter_eq_self.mpr
    intro c hc; simpa using hl c hc
  have hch : ∀ c ∈ chain, c ≠ o.reg.objs.size := fun c hc => hnot c (by simp [hc])
  have hins : (insLvl o.level lvl o.reg.objs.size chain).filter (· ≠ o.reg.objs.size) = chain := by
    unfold insLvl
    rw [List.filter_append, List.filter_cons_of_neg (by simp), ← List.filter_append,
      List.takeWhile_append_dropWhile]
    exact hf chain hch
  rw [List.filter_append, hf pre (fun c hc => hnot c (by simp [hc])), hins]

/-! ## run-ignored per shell: `shouldRun` × `willRun` -/

/-- Whether a selected test's body runs: it is a plain test, or the registry runs ignored
    tests, or this very shell was told to (`shell->setRunIgnored()`); this is what
    `IgnoredUtestShell::runOneTest` decides on (see `executed_iff`). -/
theorem willRun_eq (cfg : Cfg) (t : Test) :
    willRun cfg t = (!t.ignored || cfg.runIgnored || t.flag) := rfl

/-- after a run the shell's own `willRun()` answers what the run did with it -/
theorem shell_willRun_after_run (cfg : Cfg) (t : Test) :
    (if cfg.runIgnored then t.setRunIgnored else t).willRun = willRun cfg t := by
  obtain ⟨id, g, n, ig, fl, f, l⟩ := t
  cases hri : cfg.runIgnored <;> cases ig <;> cases fl <;>
    simp [Test.willRun, Test.setRunIgnored, willRun, hri]

/-- a direct `setRunIgnored()` makes exactly an ignored shell willing; a plain shell always is -/
theorem shell_willRun_after_set (t : Test) : t.setRunIgnored.willRun = true := by
  obtain ⟨id, g, n, ig, fl, f, l⟩ := t
  cases ig <;> simp [Test.willRun, Test.setRunIgnored]

theorem shell_willRun_fresh (t : Test) (h : t.flag = false) : t.willRun = !t.ignored := by
  obtain ⟨id, g, n, ig, fl, f, l⟩ := t
  simp only at h
  subst h
  cases ig <;> simp [Test.willRun]

/-- As long as nobody calls `setRunIgnored()` on a shell directly, a shell's flag implies the
    registry's flag, so the decision is the registry's: `willRun = ¬ignored ∨ registry flag`. -/
theorem flags_follow_registry (ops : List RegOp)
    (hno : ∀ op ∈ ops, ∀ i, op ≠ RegOp.shellRunIgnored i) :
    ∀ t ∈ (ops.foldl Reg.apply Reg.empty).objs.toList,
      t.flag = true → (ops.foldl Reg.apply Reg.empty).runIgnored = true := by
  suffices ∀ (ops : List RegOp) (r : Reg), (∀ op ∈ ops, ∀ i, op ≠ RegOp.shellRunIgnored i) →
      (∀ t ∈ r.objs.toList, t.flag = true → r.runIgnored = true) →
      ∀ t ∈ (ops.foldl Reg.apply r).objs.toList, t.flag = true → (ops.foldl Reg.apply r).runIgnored = true from
    this ops _ hno (by simp [Reg.empty])
  intro ops
  induction ops with
  | nil => intro r _ h; exact h
  | cons op ops ih =>
    intro r hno h
    apply ih _ (fun o ho => hno o (by simp [ho]))
    have hop := hno op (by simp)
    cases op with
    | addTest g n ig =>
      intro t ht hf
      simp only [Reg.apply, Reg.addTest, Array.toList_push, List.mem_append, List.mem_singleton] at ht
      rcases ht with ht | rfl
      · exact h t ht hf
      · simp at hf
    | groupFilter f => exact h
    | nameFilter f => exact h
    | runIgnored => intro t _ _; rfl
    | reverse => exact h
    | shuffle rs => exact h
    | undoLastAdd => exact h
    | shellRunIgnored i => exact absurd rfl (hop i)
    | ran =>
      intro t ht hf
      simp only [Reg.apply, Reg.afterRun, markRunIgnored, Array.toList_map, List.mem_map] at ht
      obtain ⟨u, hu, rfl⟩ := ht
      show r.runIgnored = true
      cases hri : r.runIgnored
      · simp only [hri, Bool.false_and, Bool.false_eq_true, if_false] at hf
        have := h u hu hf
        rw [hri] at this; exact this
      · rfl

/-! ## queries on the list -/

/-- `findTestWithName` / `findTestWithGroup`: the first shell in list order with that name / group -/
theorem findTestWithName_first (name : Bytes) (ts : List Test) :
    findTestWithName name ts = (ts.find? (fun t => t.name == name)).map (·.id) :=
  findTestWithName_eq name ts

theorem findTestWithGroup_first (group : Bytes) (ts : List Test) :
    findTestWithGroup group ts = (ts.find? (fun t => t.group == group)).map (·.id) :=
  findTestWithGroup_eq group ts

/-- `countTests()` is the length of the list: for a well-formed registry the number of
    registered shells -/
theorem countTests_registered {r : Reg} (h : r.WF) : countTestsList r.tests = r.order.length := by
  rw [countTestsList_eq, tests_length h]

/-- `getTestWithNext(x)` is the predecessor of `x`; for the head, or for a shell that is not in
    the list, NULL; for NULL, the last shell. -/
theorem getTestWithNext_spec (ts : List Test) (hn : (ts.map (·.id)).Nodup) :
    (∀ pre p x post, ts = pre ++ p :: x :: post → getTestWithNext (some x.id) ts = some p.id) ∧
    (∀ x rest, ts = x :: rest → getTestWithNext (some x.id) ts = none) ∧
    (∀ i, i ∉ ts.map (·.id) → getTestWithNext (some i) ts = none) ∧
    getTestWithNext none ts = ts.getLast?.map (·.id) := by
  refine ⟨?_, ?_, ?_, getTestWithNext_null ts⟩
  · intro pre p x post e
    subst e
    exact getTestWithNext_pred p x post pre hn
  · intro x rest e
    subst e
    apply getTestWithNext_not_in_tail
    simp only [List.map_cons, List.nodup_cons] at hn
    simpa using hn.1
  · intro i hi
    apply getTestWithNext_not_in_tail
    intro hm
    apply hi
    have : (ts.drop 1).Sublist ts := List.drop_sublist _ _
    exact (this.map _).subset hm

/-! ## list modes: nothing runs, what is listed follows the filters -/

/-- `-ln` looks at the filters exactly like a run does: the listed entries are those of the
    selected tests (documented meaning, `selected_iff`), and the others are counted as filtered
    out; no other counter moves and no test is started. -/
theorem list_names_follows_filters (cfg : Cfg) (ts : List Test) :
    (listTestGroupAndCaseNames cfg ts).1 =
      listFinish (accLoop ((ts.filter (shouldRun cfg)).map groupDotName) []) ∧
    (listTestGroupAndCaseNames cfg ts).2 =
      { testCount := 0, runCount := 0, ignoredCount := 0,
        filteredOutCount := (ts.filter (fun t => !shouldRun cfg t)).length } := by
  have h := lnLoop_eq cfg ts [] {}
  refine ⟨by simp only [listTestGroupAndCaseNames, h.1], ?_⟩
  simp only [listTestGroupAndCaseNames, h.2]
  simp

/-- `-lg` does not look at the filters: all groups of the list -/
theorem list_groups_all (ts : List Test) :
    listTestGroupNames ts = listFinish (accLoop (ts.map groupEntry) []) := by
  simp [listTestGroupNames, lgLoop_eq_accLoop]

/-- What the accumulation of `-lg` / `-ln` holds before the `#` are removed: the entries of a
    duplicate-free sublist (list order kept) of the given entries, and every given entry occurs
    in it — nothing invented, nothing reordered, nothing listed twice, nothing missing. -/
theorem list_accumulation (es : List Bytes) :
    (∃ ds : List Bytes, ds.Sublist es ∧ accLoop es [] = encEntries ds ∧ ds.Nodup) ∧
    ∀ e ∈ es, Text.isInfix (accLoop es []) e = true := by
  obtain ⟨ds, h1, h2, h3, _⟩ := accLoop_structure es []
  exact ⟨⟨ds, h1, by simpa using h2, h3⟩, (accLoop_complete es []).2⟩

/-- NOT PROVED (checked on the implementation's output by the specification oracle of every
    run instead): when no entry contains `#` and none is the single space, the accumulated
    entries are exactly the first occurrences, i.e. the printed text is the distinct names joined
    by single spaces.  The missing step is the delimiter argument "an occurrence of `#g#` in
    `#d1# #d2# …` lies between two consecutive `#`". -/
def list_accumulation_full : Prop :=
  ∀ es : List Bytes, (∀ e ∈ es, ∃ g, e = [hash] ++ g ++ [hash] ∧ hash ∉ g ∧ g ≠ [space]) →
    accLoop es [] = encEntries es.eraseDups

/-- `-ll` lists every shell of the list, in list order, one line each (no filter is consulted) -/
theorem list_locations_all (ts : List Test) :
    listTestLocations ts =
      (ts.map (fun t => t.group ++ [dot] ++ t.name ++ [dot] ++ t.file ++ [dot] ++ decimal t.line ++ [10])).flatten := by
  induction ts with
  | nil => rfl
  | cons t rest ih => simp only [listTestLocations, List.map_cons, List.flatten_cons, ih]

/-- in a list mode the runner starts no test: its output holds no run at all -/
theorem list_modes_run_nothing (a : RunnerArgs) (r : Reg) (rs : List Nat) (h : a.listMode ≠ .none) :
    runsOf (runnerRunAllTests a r rs).2.1 = [] ∧ (runnerRunAllTests a r rs).2.2 = 0 := by
  unfold runnerRunAllTests
  cases hm : a.listMode with
  | none => exact absurd hm h
  | groups => simp [runsOf]
  | names => simp [runsOf]
  | locations => simp [runsOf]

/-! ## the repeat loop of `CommandLineTestRunner` -/

/-- The registry the repetitions start from: filters and run-ignored of the command line,
    reversed once with -b. -/
def runnerStart (a : RunnerArgs) (r : Reg) : Reg :=
  if a.reversing then (initializeTestRun a r).reverseTests else initializeTestRun a r

theorem wf_initializeTestRun {a : RunnerArgs} {r : Reg} (h : r.WF) : (initializeTestRun a r).WF :=
  ⟨h.linked, h.nodup, h.bound, h.ids⟩

theorem wf_runnerStart {a : RunnerArgs} {r : Reg} (h : r.WF) : (runnerStart a r).WF := by
  unfold runnerStart
  split
  · exact (wf_reverseTests (wf_initializeTestRun h)).1
  · exact wf_initializeTestRun h

def runnerBanner (a : RunnerArgs) : List ROut :=
  match a.shuffleSeed with
  | some seed => [ROut.text (ofAscii "Test order shuffling enabled with seed: " ++ decimal seed ++ [10])]
  | none => []

theorem runner_none_eq (a : RunnerArgs) (r : Reg) (rs : List Nat) (hm : a.listMode = .none) :
    runnerRunAllTests a r rs =
      ((repeatLoop a.shuffleSeed.isSome a.repeatCount a.repeatCount 1 (runnerStart a r) rs).reg,
       runnerBanner a ++ (repeatLoop a.shuffleSeed.isSome a.repeatCount a.repeatCount 1 (runnerStart a r) rs).out,
       (repeatLoop a.shuffleSeed.isSome a.repeatCount a.repeatCount 1 (runnerStart a r) rs).failed) := by
  unfold runnerRunAllTests
  rw [hm]
  rfl

theorem runsOf_banner (a : RunnerArgs) : runsOf (runnerBanner a) = [] := by
  unfold runnerBanner; cases a.shuffleSeed <;> simp [runsOf]

/-- **Every repetition runs every selected test exactly once.**  With `-r N` there are exactly
    `N` runs; in each of them (whatever the shuffle seed and the random numbers, which are drawn
    afresh — `srand(seed)` again — in every repetition and applied to the order the previous
    repetition left) the started tests are the selected tests and the executed bodies are the
    selected, willing ones, each exactly once; the counters are the same in every repetition;
    notifications are balanced; afterwards the list still holds the same shells. -/
theorem runner_every_repetition (a : RunnerArgs) (r : Reg) (rs : List Nat) (h : r.WF)
    (hm : a.listMode = .none) :
    (runsOf (runnerRunAllTests a r rs).2.1).length = a.repeatCount ∧
    (∀ ce ∈ runsOf (runnerRunAllTests a r rs).2.1,
        RunOf (runnerStart a r).keys ce ∧ (executed ce.2).Nodup ∧ (started ce.2).Nodup) ∧
    (runnerRunAllTests a r rs).1.WF ∧
    (runnerRunAllTests a r rs).1.order.Perm (runnerStart a r).order := by
  have hw := wf_runnerStart (a := a) h
  have key := repeatLoop_spec a.shuffleSeed.isSome a.repeatCount a.repeatCount 1 (runnerStart a r) rs hw
  obtain ⟨k1, k2, k3, k4, _⟩ := key
  rw [runner_none_eq a r rs hm]
  simp only [runsOf_append, runsOf_banner, List.nil_append]
  refine ⟨k3, ?_, k1, k2⟩
  intro ce hce
  have hr := k4 ce hce
  have hidn : ((runnerStart a r).tests.map (·.id)).Nodup := by rw [tests_ids hw]; exact hw.nodup
  have hsub : ∀ p : Key → Bool, (((runnerStart a r).keys.filter p).map (·.1)).Nodup := by
    intro p
    have : ((runnerStart a r).keys.map (·.1)) = (runnerStart a r).tests.map (·.id) := by
      simp [Reg.keys, Test.key, Function.comp_def]
    exact List.Nodup.sublist ((List.filter_sublist).map _) (this ▸ hidn)
  exact ⟨hr, hr.2.1.nodup_iff.mpr (hsub _), hr.2.2.1.nodup_iff.mpr (hsub _)⟩

/-- what `RunOf` says, spelled out for the executed bodies: a shell's body ran in the
    repetition iff it is in the list, selected (documented meaning) and willing to run -/
theorem runOf_executed_iff (r : Reg) (ce : Counters × List Ev) (hr : RunOf r.keys ce) (i : Nat) :
    i ∈ executed ce.2 ↔ ∃ t ∈ r.tests, t.id = i ∧ Selected r.cfg t ∧ willRun r.cfg t = true := by
  rw [hr.2.1.mem_iff]
  simp only [execOfKeys, Reg.keys, List.mem_map, List.mem_filter, Test.key, Bool.and_eq_true,
    Prod.exists, ← selected_iff]
  constructor
  · rintro ⟨a, b, c, ⟨⟨t, ht, e⟩, hb, hc⟩, rfl⟩
    cases e
    exact ⟨t, ht, rfl, hb, hc⟩
  · rintro ⟨t, ht, rfl, hb, hc⟩
    exact ⟨_, _, _, ⟨⟨t, ht, rfl⟩, hb, hc⟩, rfl⟩

/-- the runner's return value when no check fails: the number of repetitions that ran nothing
    (every repetition, or none) -/
theorem runner_return (a : RunnerArgs) (r : Reg) (rs : List Nat) (h : r.WF) (hm : a.listMode = .none) :
    (runnerRunAllTests a r rs).2.2 =
      if ranNothing (countersOfKeys (runnerStart a r).keys) then a.repeatCount else 0 := by
  have hw := wf_runnerStart (a := a) h
  have key := repeatLoop_spec a.shuffleSeed.isSome a.repeatCount a.repeatCount 1 (runnerStart a r) rs hw
  rw [runner_none_eq a r rs hm]
  exact key.2.2.2.2

/-- **Ordered tests and the command-line runner.**  Registrations (plain / ignored / ordered, any
    order) followed by `CommandLineTestRunner::runAllTests` with any filters, -ri, -b, -s SEED
    (any random stream), -r N: exactly N repetitions, and in each of them every selected
    registration — ordered or not — starts exactly once and every selected, willing body runs
    exactly once, with the same counters; afterwards the list still holds every shell once. -/
theorem ordered_runner_every_repetition (ops : List InstOp) (a : RunnerArgs) (rs : List Nat)
    (hm : a.listMode = .none) :
    (runsOf (runnerRunAllTests a (ops.foldl OReg.applyInst {}).reg rs).2.1).length = a.repeatCount ∧
    (∀ ce ∈ runsOf (runnerRunAllTests a (ops.foldl OReg.applyInst {}).reg rs).2.1,
        RunOf (runnerStart a (ops.foldl OReg.applyInst {}).reg).keys ce ∧ (executed ce.2).Nodup ∧ (started ce.2).Nodup ∧
        ce.1.runCount + ce.1.ignoredCount + ce.1.filteredOutCount = ops.length) ∧
    (runnerRunAllTests a (ops.foldl OReg.applyInst {}).reg rs).1.WF ∧
    (runnerRunAllTests a (ops.foldl OReg.applyInst {}).reg rs).1.order.Perm (List.range ops.length) := by
  obtain ⟨hw, hc, hsz, _⟩ := ordered_history ops
  obtain ⟨k1, k2, k3, k4⟩ := runner_every_repetition a _ rs hw hm
  have hstart : (runnerStart a (ops.foldl OReg.applyInst {}).reg).order.Perm (List.range ops.length) := by
    have hc' : (ops.foldl OReg.applyInst {}).reg.order.Perm (List.range ops.length) := by
      have := hc; unfold Reg.Complete at this; rwa [hsz] at this
    unfold runnerStart
    split
    · rw [(wf_reverseTests (wf_initializeTestRun hw)).2]
      exact (List.reverse_perm _).trans hc'
    · exact hc'
  refine ⟨k1, ?_, k3, k4.trans hstart⟩
  intro ce hce
  obtain ⟨r1, r2, r3⟩ := k2 ce hce
  refine ⟨r1, r2, r3, ?_⟩
  have hcnt := r1.1
  rw [hcnt]
  have hlen : (runnerStart a (ops.foldl OReg.applyInst {}).reg).keys.length = ops.length := by
    simp only [Reg.keys, List.length_map]
    rw [tests_length (wf_runnerStart hw), hstart.length_eq]
    simp
  simp only [countersOfKeys]
  have hp : ∀ K : List Key, (K.filter (fun k => k.2.1 && k.2.2)).length + (K.filter (fun k => k.2.1 && !k.2.2)).length +
      (K.filter (fun k => !k.2.1)).length = K.length := by
    intro K
    induction K with
    | nil => rfl
    | cons k K ih =>
      obtain ⟨i, b1, b2⟩ := k
      cases b1 <;> cases b2 <;> simp at ih ⊢ <;> omega
  rw [hp, hlen]

/-! ## non-vacuity: concrete, non-trivial instances -/

-- byte strings over the letters a (97), b (98), A (65)
private def b (s : List Nat) : Bytes := s.map UInt8.ofNat

/-- five shells: group `ab` split by a shell of group `b`, one ignored, equal names, an empty name -/
def sampleReg : Reg :=
  [RegOp.addTest (b [97, 98]) (b [97]) false, .addTest (b [97, 98]) (b [98, 97]) true, .addTest (b [98]) (b []) false,
   .addTest (b [97, 98]) (b [97]) false, .addTest (b [65]) (b [97, 98, 97]) false,
   .groupFilter ⟨b [98], false, false⟩, .nameFilter ⟨b [97], true, true⟩, .nameFilter ⟨b [], true, false⟩].foldl
    Reg.apply Reg.empty

example : sampleReg.WF := wf_history _
example : sampleReg.order = [4, 3, 2, 1, 0] := by decide
-- group filter "b" (substring) rejects group "A"; name filters: (≠ "a") OR (= ""): rejects 3 and 0
example : started sampleReg.run.2 = [2, 1] := by decide
example : executed sampleReg.run.2 = [2] := by decide            -- shell 1 is an ignored test
example : sampleReg.run.1 = { testCount := 5, runCount := 1, ignoredCount := 1, filteredOutCount := 3 } := by
  decide
example : (sampleReg.apply .runIgnored).run.1.runCount = 2 := by decide
example : sampleReg.reverseTests.order = [0, 1, 2, 3, 4] := by decide
-- a shuffle that splits group "ab" three ways; notifications stay balanced and at block boundaries
example : (sampleReg.shuffleTests [6, 4, 3, 2]).order = [0, 2, 1, 4, 3] := by decide
example : groupStarts (sampleReg.shuffleTests [6, 4, 3, 2]).run.2 = [0, 2, 1, 4, 3] := by decide
example : Balanced (sampleReg.shuffleTests [6, 4, 3, 2]).run.2 := groups_balanced _ _
example : groupStarts sampleReg.run.2 = [4, 3, 2, 1] := by decide
example : Selected sampleReg.cfg { id := 2, group := b [98], name := b [], ignored := false } :=
  (selected_iff _ _).mp (by decide)
example : ¬ Selected sampleReg.cfg { id := 0, group := b [97, 98], name := b [97], ignored := false } :=
  fun h => absurd ((selected_iff _ _).mpr h) (by decide)
-- queries, un-registration, per-shell run-ignored
example : findTestWithName (b [97]) sampleReg.tests = some 3 := by decide       -- first in LIST order
example : findTestWithGroup (b [65, 65]) sampleReg.tests = none := by decide
example : countTestsList sampleReg.tests = 5 := by decide
example : getTestWithNext (some 2) sampleReg.tests = some 3 ∧ getTestWithNext (some 4) sampleReg.tests = none ∧
    getTestWithNext none sampleReg.tests = some 0 := by decide
example : sampleReg.unDoLastAddTest.order = [3, 2, 1, 0] := by decide
example : (sampleReg.apply .undoLastAdd).run.1.testCount = 4 := by decide
example : sampleReg.objs.toList.map Test.willRun = [true, false, true, true, true] := by decide
example : executed (sampleReg.shellSetRunIgnored 1).run.2 = [2, 1] := by decide  -- shell 1 told to run
example : (sampleReg.apply .runIgnored).afterRun.objs.toList.map Test.willRun = [true, true, true, true, true] := by
  decide
-- list modes: -lg lists every group once, -ln only the selected tests, -ll every shell
example : listTestGroupNames sampleReg.tests = b [65, 32, 97, 98, 32, 98] := by decide           -- "A ab b"
example : (listTestGroupAndCaseNames sampleReg.cfg sampleReg.tests).1 = b [98, 46, 32, 97, 98, 46, 98, 97] := by
  decide                                                                                         -- "b. ab.ba"
example : (listTestGroupAndCaseNames sampleReg.cfg sampleReg.tests).2.filteredOutCount = 3 := by decide
-- the runner: -r3 -s5 -b runs the two selected tests in each of three repetitions
def sampleArgs : RunnerArgs :=
  { groupFilters := sampleReg.groupFilters, nameFilters := sampleReg.nameFilters, runIgnored := false,
    reversing := true, shuffleSeed := some 5, repeatCount := 3, listMode := .none }
example : (runsOf (runnerRunAllTests sampleArgs sampleReg [1, 2, 0, 1, 3, 0, 2, 1, 0, 0, 1, 1]).2.1).map
    (fun ce => (executed ce.2, ce.1.runCount, ce.1.ignoredCount, ce.1.filteredOutCount)) =
    [([2], 1, 1, 3), ([2], 1, 1, 3), ([2], 1, 1, 3)] := by decide
example : (runnerRunAllTests sampleArgs sampleReg [1, 2, 0, 1, 3, 0, 2, 1, 0, 0, 1, 1]).1.order = [3, 0, 4, 2, 1] := by
  decide
example : (runnerRunAllTests { sampleArgs with listMode := .names } sampleReg []).2.1.length = 1 := by decide
-- TEST_ORDERED: plain tests 0 and 3, ordered tests 1 (level 5), 2 (level 1), 4 (level 5), 5 (level -2)
def sampleInst : List InstOp :=
  [.test (b [97]) (b [97]) false, .ordered 5 (b [98]) (b [97]), .ordered 1 (b [98]) (b [98]), .test (b [97]) (b [98]) true,
   .ordered 5 (b [65]) (b [97]), .ordered (-2) (b [65]) (b [98])]
example : (sampleInst.foldl OReg.applyInst {}).reg.order = [3, 0, 5, 2, 1, 4] := by decide
example : (sampleInst.foldl OReg.applyInst {}).chain = [5, 2, 1, 4] := by decide     -- levels -2, 1, 5, 5 (tie: 1 before 4)
example : plainOf sampleInst 0 = [0, 3] ∧ orderedOf sampleInst 0 = [(1, 5), (2, 1), (4, 5), (5, -2)] := by decide
example : (sampleInst.foldl OReg.applyInst {}).reg.run.1 =
    { testCount := 6, runCount := 5, ignoredCount := 1, filteredOutCount := 0 } := by decide
example : executed (sampleInst.foldl OReg.applyInst {}).reg.run.2 = [0, 5, 2, 1, 4] := by decide
-- an ordered test registered first of all goes to the END of the list once plain tests follow
example : ([InstOp.ordered 0 [] [], .test [] [] false].foldl OReg.applyInst {}).reg.order = [1, 0] := by decide
-- the runner on a registry with ordered tests: -r2 -b, every repetition runs all six registrations
example : (runsOf (runnerRunAllTests { sampleArgs with groupFilters := [], nameFilters := [], shuffleSeed := none, repeatCount := 2 }
    (sampleInst.foldl OReg.applyInst {}).reg []).2.1).map (fun ce => (executed ce.2, ce.1.runCount, ce.1.ignoredCount)) =
    [([4, 1, 2, 5, 0], 5, 1), ([4, 1, 2, 5, 0], 5, 1)] := by decide
-- OUTSIDE the quantifier (model evaluation): an installer that runs AFTER a reordering follows the stale
-- `_nextOrderedTest` links and drops plain test 0 from the list — installers run during static initialisation
example : ((({} : OReg).addTest [] [] false).install 1 [] [] [] 0).reg.order = [0, 1] ∧
    (let o := (({} : OReg).addTest [] [] false).install 1 [] [] [] 0
     ({ o with reg := o.reg.reverseTests }.install 2 [] [] [] 0).reg.order) = [1, 2] := by decide
-- the regenerated pointer-array methods on concrete objects
example : ((Gen.PointerArray.shuffle { arr := #[10, 11, 12, 13], count := 4, next := fun _ => none, rands := [6, 4, 3] } 7).state?.map
    (fun s => (s.arr, s.rands, s.srands, walk s.next 9 (some 10)))) = some (#[10, 13, 11, 12], [], [7], [10, 13, 11, 12]) := by decide
example : ((Gen.PointerArray.reverse { arr := #[10, 11, 12], count := 3, next := fun _ => none }).state?.map
    (fun s => (s.arr, walk s.next 9 (some 12)))) = some (#[12, 11, 10], [12, 11, 10]) := by decide
example : (sampleReg.shuffleTestsGen 5 [6, 4, 3, 2]).map (fun g => (g.reg.order, g.srands, g.rest)) =
    some ([0, 2, 1, 4, 3], [5], []) := by decide
example : sampleReg.reverseTestsGen.map (fun g => g.reg.order) = some [0, 1, 2, 3, 4] := by decide
-- the relink hypothesis is needed: with a duplicated shell the links form a cycle (the C++ loop
-- over the list would never reach NULL)
example : walk (relink #[0, 1, 0] (fun _ => none)) 7 (firstOf #[0, 1, 0]) = [0, 1, 0, 1, 0, 1, 0] := by
  decide

end Registry
