import CppUModel.Proofs.Registry
/-!
# C02 — every selected test runs exactly once per repetition; selection follows filters

Property theorems only.  Model: `CppUModel/Model/Registry.lean` (from `TestRegistry.cpp`,
`Utest.cpp`, `TestFilter.cpp`, `TestResult.cpp`; the loop-free decision functions are the
regenerated `Gen/RegistryShape.lean`); vocabulary: `CppUModel/Spec/Registry.lean`.

All statements quantify over every test list (any length, any group/name bytes, normal and
ignored shells mixed), every filter list, run-ignored on/off, every random stream.
A repetition is one `runAllTests` on the registry as it is (`Reg.run` is a function of the
registry, so every repetition of an unchanged registry gives the same result).
-/
namespace Registry
open Text (Bytes)

/-! ## accounting -/

/-- run + ignored + filtered-out = number of registered tests, and every test is counted. -/
theorem counts_partition (cfg : Cfg) (ts : List Test) :
    (runAllTests cfg ts).1.runCount + (runAllTests cfg ts).1.ignoredCount +
      (runAllTests cfg ts).1.filteredOutCount = ts.length ∧
    (runAllTests cfg ts).1.testCount = ts.length := by
  have h := runLoop_counts cfg ts true {}
  have hp : ∀ l : List Test,
      (l.filter (fun t => shouldRun cfg t && willRun cfg t)).length +
      (l.filter (fun t => shouldRun cfg t && !willRun cfg t)).length +
      (l.filter (fun t => !shouldRun cfg t)).length = l.length := by
    intro l
    induction l with
    | nil => rfl
    | cons t l ih =>
      cases hs : shouldRun cfg t <;> cases hw : willRun cfg t <;>
        simp [hs, hw] at ih ⊢ <;> omega
  have := hp ts
  obtain ⟨h1, h2, h3, h4⟩ := h
  have z1 : ({} : Counters).testCount = 0 := rfl
  have z2 : ({} : Counters).runCount = 0 := rfl
  have z3 : ({} : Counters).ignoredCount = 0 := rfl
  have z4 : ({} : Counters).filteredOutCount = 0 := rfl
  rw [z1] at h1; rw [z2] at h2; rw [z3] at h3; rw [z4] at h4
  simp only [runAllTests]
  omega

/-- each counter says exactly what it is documented to say -/
theorem counts_exact (cfg : Cfg) (ts : List Test) :
    (runAllTests cfg ts).1.runCount =
      (ts.filter (fun t => shouldRun cfg t && willRun cfg t)).length ∧
    (runAllTests cfg ts).1.ignoredCount =
      (ts.filter (fun t => shouldRun cfg t && !willRun cfg t)).length ∧
    (runAllTests cfg ts).1.filteredOutCount = (ts.filter (fun t => !shouldRun cfg t)).length := by
  obtain ⟨_, h2, h3, h4⟩ := runLoop_counts cfg ts true {}
  have z2 : ({} : Counters).runCount = 0 := rfl
  have z3 : ({} : Counters).ignoredCount = 0 := rfl
  have z4 : ({} : Counters).filteredOutCount = 0 := rfl
  rw [z2] at h2; rw [z3] at h3; rw [z4] at h4
  simp only [runAllTests]
  omega

/-! ## selection -/

/-- The implementation's decision (`UtestShell::shouldRun`) is the documented one: the group is
    accepted by at least one group filter (when any are given) AND the name by at least one name
    filter (when any are given); a filter accepts by substring (`<:+:`), by exact match, or by
    the negation of either. -/
theorem selected_iff (cfg : Cfg) (t : Test) : shouldRun cfg t = true ↔ Selected cfg t :=
  shouldRun_iff cfg t

/-- an empty filter list accepts everything -/
theorem empty_filter_list_accepts (s : Bytes) : kindAccepts [] s := Or.inl rfl

/-- the four kinds of filter, spelled out -/
theorem accepts_kinds (text s : Bytes) :
    (Filter.accepts ⟨text, false, false⟩ s ↔ text <:+: s) ∧
    (Filter.accepts ⟨text, true, false⟩ s ↔ s = text) ∧
    (Filter.accepts ⟨text, false, true⟩ s ↔ ¬ text <:+: s) ∧
    (Filter.accepts ⟨text, true, true⟩ s ↔ s ≠ text) := by
  simp [Filter.accepts, Filter.hit]

/-- a single filter of the implementation (`TestFilter::match`) has that meaning -/
theorem filter_match_iff (f : Filter) (s : Bytes) : f.matches s = true ↔ f.accepts s :=
  matches_iff f s

/-- the order in which filters of a kind were given does not matter -/
theorem filter_order_irrelevant (s : Bytes) (fs fs' : List Filter) (h : fs.Perm fs') :
    matchFilters s fs = matchFilters s fs' := by
  have key : kindAccepts fs s ↔ kindAccepts fs' s := by
    unfold kindAccepts
    constructor
    · rintro (rfl | ⟨f, hf, ha⟩)
      · exact Or.inl h.symm.eq_nil
      · exact Or.inr ⟨f, h.subset hf, ha⟩
    · rintro (rfl | ⟨f, hf, ha⟩)
      · exact Or.inl h.eq_nil
      · exact Or.inr ⟨f, h.symm.subset hf, ha⟩
  rw [← matchFilters_iff, ← matchFilters_iff] at key
  cases h1 : matchFilters s fs <;> cases h2 : matchFilters s fs' <;> simp_all

instance (cfg : Cfg) (t : Test) : Decidable (Selected cfg t) :=
  decidable_of_iff _ (selected_iff cfg t)

/-! ## every selected test exactly once, in order -/

/-- The tests announced as started are exactly the selected tests, as lists: nothing lost,
    nothing duplicated, list order kept; the same for ended; and the bodies executed are exactly
    those of the selected tests that are not ignored (or all selected, with run-ignored). -/
theorem each_selected_once (cfg : Cfg) (ts : List Test) :
    started (runAllTests cfg ts).2 = (ts.filter (shouldRun cfg)).map (·.id) ∧
    ended (runAllTests cfg ts).2 = (ts.filter (shouldRun cfg)).map (·.id) ∧
    executed (runAllTests cfg ts).2 =
      (ts.filter (fun t => shouldRun cfg t && willRun cfg t)).map (·.id) := by
  simp only [runAllTests, started_append, ended_append, executed_append,
    runLoop_started, runLoop_ended, runLoop_executed]
  simp [started, ended, executed]

/-- the same, stated with the documented meaning of "selected" -/
theorem each_selected_once_documented (cfg : Cfg) (ts : List Test) :
    started (runAllTests cfg ts).2 = (ts.filter (fun t => decide (Selected cfg t))).map (·.id) := by
  rw [(each_selected_once cfg ts).1]
  congr 1
  apply List.filter_congr
  intro t _
  cases h : shouldRun cfg t
  · have : ¬ Selected cfg t := fun hs => by rw [(selected_iff cfg t).mpr hs] at h; cases h
    simp [this]
  · have : Selected cfg t := (selected_iff cfg t).mp h
    simp [this]

/-- with distinct shells no body is executed twice -/
theorem executed_nodup (cfg : Cfg) (ts : List Test) (h : (ts.map (·.id)).Nodup) :
    (executed (runAllTests cfg ts).2).Nodup := by
  rw [(each_selected_once cfg ts).2.2]
  exact List.Nodup.sublist (List.Sublist.map _ (List.filter_sublist)) h

/-- a test's body is executed iff it is selected (documented meaning) and will run -/
theorem executed_iff (cfg : Cfg) (ts : List Test) (t : Test) (ht : t ∈ ts)
    (hinj : ∀ a ∈ ts, ∀ b ∈ ts, a.id = b.id → a = b) :
    t.id ∈ executed (runAllTests cfg ts).2 ↔ (Selected cfg t ∧ willRun cfg t = true) := by
  rw [(each_selected_once cfg ts).2.2, ← selected_iff]
  simp only [List.mem_map, List.mem_filter, Bool.and_eq_true]
  constructor
  · rintro ⟨a, ⟨ha, h1, h2⟩, hid⟩
    have := hinj a ha t ht hid
    subst this
    exact ⟨h1, h2⟩
  · rintro ⟨h1, h2⟩
    exact ⟨t, ⟨ht, h1, h2⟩, rfl⟩

/-- The flag `IgnoredUtestShell::runOneTest` reads is the registry's run-ignored flag: the
    shell's flag can only have been set (in an earlier iteration or repetition) while the
    registry's flag was on, and the registry's flag is never switched off. -/
theorem ignored_flag_is_registry_flag (registryFlag shellFlagBefore : Bool)
    (h : shellFlagBefore = true → registryFlag = true) :
    shellFlagAtUse registryFlag shellFlagBefore = registryFlag := by
  cases registryFlag <;> cases shellFlagBefore <;> simp_all [shellFlagAtUse]

/-- and the invariant `shell flag → registry flag` is kept by an iteration -/
theorem ignored_flag_invariant (registryFlag shellFlagBefore : Bool)
    (h : shellFlagBefore = true → registryFlag = true) :
    shellFlagAtUse registryFlag shellFlagBefore = true → registryFlag = true := by
  cases registryFlag <;> cases shellFlagBefore <;> simp_all [shellFlagAtUse]

/-! ## group notifications -/

/-- For every order of the tests (registration order, reversed, or any shuffled order, including
    orders that split a group) the callback stream reads
    `testsStarted (groupStart (testStart exec? testEnd)* groupEnd)* testsEnded`. -/
theorem groups_balanced (cfg : Cfg) (ts : List Test) : Balanced (runAllTests cfg ts).2 :=
  balanced_runAllTests cfg ts

/-- Group start is announced for the first test and group end for the last test of every block;
    the blocks partition the list in order, none is empty, and all tests of a block carry the
    same group name. -/
theorem group_notifications_at_block_boundaries (cfg : Cfg) (ts : List Test) :
    groupStarts (runAllTests cfg ts).2 = blockHeads (groupBlocks ts) ∧
    groupEnds (runAllTests cfg ts).2 = blockLasts (groupBlocks ts) ∧
    (groupBlocks ts).flatten = ts ∧
    (∀ b ∈ groupBlocks ts, b ≠ []) ∧
    (∀ b ∈ groupBlocks ts, ∀ t ∈ b, ∀ t' ∈ b, t.group = t'.group) := by
  refine ⟨?_, ?_, groupBlocks_flatten ts, groupBlocks_block_ne_nil ts, groupBlocks_same_group ts⟩
  · simp only [runAllTests, groupStarts_append, runLoop_groupStarts]
    simp [groupStarts]
  · simp only [runAllTests, groupEnds_append, runLoop_groupEnds]
    simp [groupEnds]

/-! ## the pointer array: shuffle, reverse, relink -/

/-- Fisher–Yates exactly as in `UtestShellPointerArray::shuffle` is a permutation for every
    random stream (any values, any length, also too short). -/
theorem shuffle_perm (rs : List Nat) (a : Array Nat) : (shuffleArr rs a).toList.Perm a.toList :=
  shuffleArr_perm rs a

/-- the shuffle only swaps inside the array: `1 ≤ i ≤ count-1`, `j ≤ i` (the C++ `swap` has no
    bounds check); with `count-1` random numbers it makes `count-1` swaps -/
theorem shuffle_in_bounds (rs : List Nat) (a : Array Nat) :
    (∀ p ∈ shuffleSwaps (a.size - 1) rs, 1 ≤ p.1 ∧ p.1 < a.size ∧ p.2 ≤ p.1) ∧
    (a.size ≠ 0 → shuffleArr rs a =
      (shuffleSwaps (a.size - 1) rs).foldl (fun b p => swap b p.1 p.2) a) ∧
    (randsNeeded a.size ≤ rs.length → (shuffleSwaps (a.size - 1) rs).length = a.size - 1) := by
  refine ⟨?_, ?_, ?_⟩
  · intro p hp
    have := shuffleSwaps_bounds _ _ p hp
    omega
  · intro h
    simp [shuffleArr, h, shuffleLoop_eq_foldl]
  · intro h
    exact shuffleSwaps_length _ _ h

/-- `reverse()` produces the exact reverse -/
theorem reverse_eq_reverse (a : Array Nat) : (reverseArr a).toList = a.toList.reverse :=
  reverseArr_toList a

/-- array → `relinkTestsInOrder` → following `next_` from `getFirstTest()`: exactly the array's
    elements in the array's order, ending in NULL — provided the array holds distinct shells
    (which `shuffle_perm`/`reverse_eq_reverse` preserve). -/
theorem relink_roundtrip (a : Array Nat) (nx : Next) (h : a.toList.Nodup) :
    Linked (relink a nx) (firstOf a) a.toList ∧
    ∀ fuel, a.size ≤ fuel → walk (relink a nx) fuel (firstOf a) = a.toList := by
  have hl := relink_linked a nx h
  exact ⟨hl, fun f hf => walk_of_linked hl f (by simpa using hf)⟩

/-- the constructor copies exactly the linked list into the array -/
theorem array_of_list (nx : Next) (h : Option Nat) (l : List Nat) (hl : Linked nx h l)
    (fuel : Nat) (hf : l.length ≤ fuel + 1) : (mkArray nx fuel h).toList = l :=
  mkArray_of_linked hl fuel hf

/-! ## the registry: no test is ever lost or duplicated -/

inductive RegOp
  | addTest (group name : Bytes) (ignored : Bool)
  | groupFilter (f : Filter)
  | nameFilter (f : Filter)
  | runIgnored
  | reverse
  | shuffle (rs : List Nat)

def Reg.apply (r : Reg) : RegOp → Reg
  | .addTest g n ig => r.addTest g n ig
  | .groupFilter f => { r with groupFilters := f :: r.groupFilters }
  | .nameFilter f => { r with nameFilters := f :: r.nameFilters }
  | .runIgnored => { r with runIgnored := true }
  | .reverse => r.reverseTests
  | .shuffle rs => r.shuffleTests rs

theorem wf_apply {r : Reg} (h : r.WF) (op : RegOp) : (r.apply op).WF := by
  cases op with
  | addTest g n ig => exact (wf_addTest h g n ig).1
  | groupFilter f => exact ⟨h.linked, h.perm, h.ids⟩
  | nameFilter f => exact ⟨h.linked, h.perm, h.ids⟩
  | runIgnored => exact ⟨h.linked, h.perm, h.ids⟩
  | reverse => exact (wf_reverseTests h).1
  | shuffle rs => exact (wf_shuffleTests h rs).1

/-- After any history of registrations, filter settings, reversals and shuffles (any random
    streams) the list holds every registered shell exactly once and ends in NULL. -/
theorem wf_history (ops : List RegOp) : (ops.foldl Reg.apply Reg.empty).WF := by
  suffices ∀ r : Reg, r.WF → (ops.foldl Reg.apply r).WF from this _ wf_empty
  induction ops with
  | nil => intro r h; exact h
  | cons op ops ih => intro r h; exact ih _ (wf_apply h op)

theorem addTest_order {r : Reg} (h : r.WF) (g n : Bytes) (ig : Bool) :
    (r.addTest g n ig).order = r.objs.size :: r.order := (wf_addTest h g n ig).2

theorem reverseTests_order {r : Reg} (h : r.WF) : r.reverseTests.order = r.order.reverse :=
  (wf_reverseTests h).2

theorem shuffleTests_perm {r : Reg} (h : r.WF) (rs : List Nat) :
    (r.shuffleTests rs).order.Perm r.order := (wf_shuffleTests h rs).2

/-- the shells the run loop visits are the registered ones, each exactly once -/
theorem tests_ids {r : Reg} (h : r.WF) : r.tests.map (·.id) = r.order := by
  unfold Reg.tests
  have hb : ∀ i ∈ r.order, i < r.objs.size := by
    intro i hi
    have := h.perm.subset hi
    simpa using this
  generalize r.order = l at hb
  induction l with
  | nil => rfl
  | cons i l ih =>
    have hi : i < r.objs.size := hb i (by simp)
    have hget : r.objs[i]? = some r.objs[i] := by simp [hi]
    simp only [List.filterMap_cons, hget, List.map_cons]
    rw [h.ids i _ hget, ih (fun j hj => hb j (by simp [hj]))]

theorem tests_length {r : Reg} (h : r.WF) : r.tests.length = r.objs.size := by
  have := congrArg List.length (tests_ids h)
  simpa [h.order_length] using this

/-- In a repetition every registered test is run, or counted as ignored, or counted as filtered
    out: the three counters sum to the number of registered shells, whatever reversals and
    shuffles happened before. -/
theorem run_counts_registered {r : Reg} (h : r.WF) :
    r.run.1.runCount + r.run.1.ignoredCount + r.run.1.filteredOutCount = r.objs.size ∧
    r.run.1.testCount = r.objs.size := by
  have := counts_partition r.cfg r.tests
  rw [tests_length h] at this
  exact this

/-- Reversing only reverses the order in which the same tests start. -/
theorem reverse_run {r : Reg} (h : r.WF) :
    started r.reverseTests.run.2 = (started r.run.2).reverse ∧
    executed r.reverseTests.run.2 = (executed r.run.2).reverse ∧
    r.reverseTests.run.1 = r.run.1 := by
  have ht : r.reverseTests.tests = r.tests.reverse := by
    unfold Reg.tests
    rw [reverseTests_order h, List.filterMap_reverse]
    rfl
  have hc : r.reverseTests.cfg = r.cfg := rfl
  unfold Reg.run
  rw [hc, ht]
  have e1 := each_selected_once r.cfg r.tests.reverse
  have e2 := each_selected_once r.cfg r.tests
  refine ⟨?_, ?_, ?_⟩
  · rw [e1.1, e2.1, List.filter_reverse, List.map_reverse]
  · rw [e1.2.2, e2.2.2, List.filter_reverse, List.map_reverse]
  · have c1 := counts_exact r.cfg r.tests.reverse
    have c2 := counts_exact r.cfg r.tests
    have p1 := counts_partition r.cfg r.tests.reverse
    have p2 := counts_partition r.cfg r.tests
    simp only [List.filter_reverse, List.length_reverse] at c1 p1
    cases hx : (runAllTests r.cfg r.tests.reverse).1
    cases hy : (runAllTests r.cfg r.tests).1
    simp only [hx, hy] at c1 c2 p1 p2
    simp only [Counters.mk.injEq]
    omega

/-- Shuffling with any random stream only permutes: the same tests start, the same bodies are
    executed (as multisets), and every counter is unchanged. -/
theorem shuffle_run {r : Reg} (h : r.WF) (rs : List Nat) :
    (started (r.shuffleTests rs).run.2).Perm (started r.run.2) ∧
    (executed (r.shuffleTests rs).run.2).Perm (executed r.run.2) ∧
    (r.shuffleTests rs).run.1 = r.run.1 := by
  have ht : (r.shuffleTests rs).tests.Perm r.tests := by
    unfold Reg.tests
    exact (shuffleTests_perm h rs).filterMap _
  have hc : (r.shuffleTests rs).cfg = r.cfg := rfl
  unfold Reg.run
  rw [hc]
  have e1 := each_selected_once r.cfg (r.shuffleTests rs).tests
  have e2 := each_selected_once r.cfg r.tests
  refine ⟨?_, ?_, ?_⟩
  · rw [e1.1, e2.1]; exact (ht.filter _).map _
  · rw [e1.2.2, e2.2.2]; exact (ht.filter _).map _
  · have c1 := counts_exact r.cfg (r.shuffleTests rs).tests
    have c2 := counts_exact r.cfg r.tests
    have p1 := counts_partition r.cfg (r.shuffleTests rs).tests
    have p2 := counts_partition r.cfg r.tests
    rw [(ht.filter _).length_eq] at c1
    rw [(ht.filter _).length_eq, (ht.filter _).length_eq] at c1
    rw [ht.length_eq] at p1
    cases hx : (runAllTests r.cfg (r.shuffleTests rs).tests).1
    cases hy : (runAllTests r.cfg r.tests).1
    simp only [hx, hy] at c1 c2 p1 p2
    simp only [Counters.mk.injEq]
    omega

/-! ## non-vacuity: concrete, non-trivial instances -/

-- byte strings over the letters a (97), b (98), A (65)
private def b (s : List Nat) : Bytes := s.map UInt8.ofNat

/-- five shells: group `ab` split by a shell of group `b`, one ignored, equal names, an empty name -/
def sampleReg : Reg :=
  [RegOp.addTest (b [97, 98]) (b [97]) false, .addTest (b [97, 98]) (b [98, 97]) true, .addTest (b [98]) (b []) false,
   .addTest (b [97, 98]) (b [97]) false, .addTest (b [65]) (b [97, 98, 97]) false,
   .groupFilter ⟨b [98], false, false⟩, .nameFilter ⟨b [97], true, true⟩, .nameFilter ⟨b [], true, false⟩].foldl
    Reg.apply Reg.empty

example : sampleReg.WF := wf_history _
example : sampleReg.order = [4, 3, 2, 1, 0] := by decide
-- group filter "b" (substring) rejects group "A"; name filters: (≠ "a") OR (= ""): rejects 3 and 0
example : started sampleReg.run.2 = [2, 1] := by decide
example : executed sampleReg.run.2 = [2] := by decide            -- shell 1 is an ignored test
example : sampleReg.run.1 = { testCount := 5, runCount := 1, ignoredCount := 1, filteredOutCount := 3 } := by
  decide
example : (sampleReg.apply .runIgnored).run.1.runCount = 2 := by decide
example : sampleReg.reverseTests.order = [0, 1, 2, 3, 4] := by decide
-- a shuffle that splits group "ab" three ways; notifications stay balanced and at block boundaries
example : (sampleReg.shuffleTests [6, 4, 3, 2]).order = [0, 2, 1, 4, 3] := by decide
example : groupStarts (sampleReg.shuffleTests [6, 4, 3, 2]).run.2 = [0, 2, 1, 4, 3] := by decide
example : Balanced (sampleReg.shuffleTests [6, 4, 3, 2]).run.2 := groups_balanced _ _
example : groupStarts sampleReg.run.2 = [4, 3, 2, 1] := by decide
example : Selected sampleReg.cfg ⟨2, b [98], b [], false⟩ :=
  (selected_iff _ _).mp (by decide)
example : ¬ Selected sampleReg.cfg ⟨0, b [97, 98], b [97], false⟩ :=
  fun h => absurd ((selected_iff _ _).mpr h) (by decide)
-- the relink hypothesis is needed: with a duplicated shell the links form a cycle (the C++ loop
-- over the list would never reach NULL)
example : walk (relink #[0, 1, 0] (fun _ => none)) 7 (firstOf #[0, 1, 0]) = [0, 1, 0, 1, 0, 1, 0] := by
  decide

end Registry
