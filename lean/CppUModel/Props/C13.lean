import CppUModel.Proofs.SimpleStringOps
import CppUModel.Proofs.StringPrims
/-!
# C13 — string operations equal their textbook meaning and are memory-safe

Property theorems only.  Models: `Base/CString.lean` (C-like primitives over bounded buffers),
`Model/SimpleString.lean` (objects, allocator event log; from `src/CppUTest/SimpleString.cpp`).
Vocabulary: `Spec/Text.lean`, `Spec/TextExt.lean` (plain list definitions, no buffers).

Reading guide.  `CAt b p a`: the NUL-free byte string `a`, terminated, sits at offset `p` of
buffer `b` (anything may precede and follow).  `Holds o a`: the object's buffer holds `a`.
A conclusion `f … = .ok v` says three things at once: the bounded-buffer model never reads or
writes outside a buffer (no `.error .oob`), it terminates (no `.error .fuel`), and the value is
the textbook one.  Worlds record the allocator events: `w.alloc n` is `w` after a buffer of `n`
bytes was requested (its id is `w.next`), `w.free i n` after buffer `i` was released as `n` bytes.
`Owns w L`: replaying the log of `w` never releases a buffer that is not outstanding with exactly
that size, and the outstanding buffers are `L`.
-/
namespace C13
open CStr SStr Text TextExt

/-! ## the C-library-like primitives -/

theorem strlen_eq {b : Buf} {p : Nat} {a : Bytes} (h : CAt b p a) : StrLen b p = .ok a.length := StrLen_ok h

theorem strcmp_eq {b1 b2 : Buf} {p1 p2 : Nat} {a1 a2 : Bytes} (h1 : CAt b1 p1 a1) (h2 : CAt b2 p2 a2) :
    StrCmp b1 p1 b2 p2 = .ok (Text.cmp a1 a2) := StrCmp_ok h1 h2

theorem strcmp_zero_iff_eq {b1 b2 : Buf} {p1 p2 : Nat} {a1 a2 : Bytes} (h1 : CAt b1 p1 a1) (h2 : CAt b2 p2 a2) :
    StrCmp b1 p1 b2 p2 = .ok 0 ↔ a1 = a2 := StrCmp_zero_iff_eq h1 h2

theorem strncmp_eq {b1 b2 : Buf} {p1 p2 : Nat} {a1 a2 : Bytes} (n : Nat) (h1 : CAt b1 p1 a1) (h2 : CAt b2 p2 a2) :
    StrNCmp b1 p1 b2 p2 n = .ok (Text.ncmp n a1 a2) := StrNCmp_ok n a1 a2 b1 b2 p1 p2 h1 h2

/-- `StrNCmp` gives 0 exactly when the first `n` bytes agree -/
theorem strncmp_zero_iff {a b : Bytes} (n : Nat) (ha : NulFree a) (hb : NulFree b) :
    Text.ncmp n a b = 0 ↔ a.take n = b.take n := ncmp_eq_zero_iff n ha hb

/-- `StrNCpy`: `(src ++ [0]).take n` over the destination from `dp`, nothing else touched, no padding -/
theorem strncpy_eq {dst src : Buf} {dp sp n : Nat} {a : Bytes} (h : CAt src sp a)
    (hfit : dp + min n (a.length + 1) ≤ dst.length) :
    StrNCpy dst dp src sp n = .ok (dst.take dp ++ (cz a).take n ++ dst.drop (dp + min n (a.length + 1))) :=
  StrNCpy_ok h hfit

theorem strstr_eq {b1 b2 : Buf} {p1 p2 : Nat} {a1 a2 : Bytes} (h1 : CAt b1 p1 a1) (h2 : CAt b2 p2 a2) :
    StrStr b1 p1 b2 p2 = .ok ((TextExt.strStr a1 a2).map (· + p1)) := StrStr_ok h1 h2

/-- what `StrStr` returns is the first position at which the pattern occurs -/
theorem strstr_first_occurrence (a b : Bytes) (i : Nat) :
    TextExt.strStr a b = some i ↔
      (i ≤ a.length ∧ b.isPrefixOf (a.drop i) = true ∧ ∀ j < i, b.isPrefixOf (a.drop j) = false) :=
  strStr_some_iff a b i

theorem strstr_found_iff_isInfix (a b : Bytes) : (TextExt.strStr a b).isSome = Text.isInfix a b :=
  strStr_isSome_eq_isInfix a b

theorem memcmp_eq (n : Nat) (b1 b2 : Buf) (p1 p2 : Nat) (h1 : n ≤ (b1.drop p1).length) (h2 : n ≤ (b2.drop p2).length) :
    MemCmp b1 p1 b2 p2 n = .ok (TextExt.memCmp n (b1.drop p1) (b2.drop p2)) := MemCmp_ok n b1 b2 p1 p2 h1 h2

theorem atou_eq {b : Buf} {p : Nat} {a : Bytes} (h : CAt b p a) : AtoU b p = .ok (TextExt.atou a) := AtoU_ok h

theorem atoi_eq {b : Buf} {p : Nat} {a : Bytes} (h : CAt b p a) (hfit : TextExt.atoiMagnitude a ≤ 2147483647) :
    AtoI b p = .ok (TextExt.atoi a) := AtoI_ok h hfit

/-- **AtoI, general form** (no enumeration): for EVERY C string of the shape
    `blanks ++ sign ++ digits ++ rest` — any number of blanks (0x20, 9…13), at most one sign, any
    number of decimal digits, a rest that does not start with a digit — whose digit value fits
    `int`, `AtoI` returns that value with the sign.  `digitsVal` is the positional value
    (`digitsVal_horner`). -/
theorem atoi_parts_eq {b : Buf} {p : Nat} (blanks sign digits rest : Bytes)
    (h : CAt b p (blanks ++ sign ++ digits ++ rest))
    (hb : ∀ c ∈ blanks, TextExt.isBlank c = true) (hs : sign = [] ∨ sign = [43] ∨ sign = [45])
    (hd : ∀ c ∈ digits, TextExt.isDigit c = true)
    (hr : ∀ c, rest.head? = some c → TextExt.isDigit c = false)
    (hfirst : sign = [] → ∀ c, (digits ++ rest).head? = some c → TextExt.isBlank c = false ∧ c ≠ 43 ∧ c ≠ 45)
    (hfit : TextExt.digitsVal 0 digits ≤ 2147483647) :
    AtoI b p = .ok (if sign = [45] then - (TextExt.digitsVal 0 digits : Int) else (TextExt.digitsVal 0 digits : Int)) :=
  AtoI_parts blanks sign digits rest h hb hs hd hr hfirst hfit

theorem digitsVal_horner (acc : Nat) (ds : Bytes) (d : UInt8) :
    TextExt.digitsVal acc (ds ++ [d]) = TextExt.digitsVal acc ds * 10 + (d.toNat - 48) := digitsVal_append acc ds d

/-- a successful `StrLen` means there IS a terminated string there (inversion) -/
theorem strlen_ok_only_on_strings {b : Buf} {p n : Nat} (h : StrLen b p = .ok n) : ∃ a, CAt b p a ∧ a.length = n :=
  StrLen_inv h

theorem tolower_eq (c : UInt8) : ToLower c = Text.lowerByte c := ToLower_eq_lowerByte c

/-! ## constructors, assignment, concatenation -/

theorem ctor_eq {src : Buf} {sp : Nat} {a : Bytes} (h : CAt src sp a) (w : World) :
    ctorCStr src sp w = .ok (mkObj w.next a, w.alloc (a.length + 1)) := ctorCStr_ok h w

theorem ctor_null_eq (w : World) : ctorNull w = .ok (mkObj w.next [], w.alloc 1) := ctorNull_ok w

theorem ctor_repeat_eq {src : Buf} {sp : Nat} {a : Bytes} (h : CAt src sp a) (k : Nat) (w : World) :
    ctorRepeat src sp k w = .ok (⟨w.next, repeatStr a k ++ [0], a.length * k + 1⟩, w.alloc (a.length * k + 1)) :=
  ctorRepeat_ok h k w

theorem copy_eq {o : Obj} {a : Bytes} (h : Holds o a) (w : World) :
    ctorCopy o w = .ok (mkObj w.next a, w.alloc (a.length + 1)) := ctorCopy_ok h w

theorem assign_eq {other : Obj} {a : Bytes} (self : Obj) (h : Holds other a) (w : World) :
    assign self other w = .ok (mkObj w.next a, (w.free self.id self.size).alloc (a.length + 1)) := assign_ok self h w

theorem append_eq {self : Obj} {a : Bytes} {rhs : Buf} {rp : Nat} {r : Bytes} (h : Holds self a) (hr : CAt rhs rp r)
    (w : World) :
    appendC self rhs rp w =
      .ok (⟨w.next, a ++ r ++ [0], a.length + (r.length + 1)⟩, (w.alloc (a.length + (r.length + 1))).free self.id self.size) :=
  appendC_ok h hr w

theorem plus_eq {self rhs : Obj} {a b : Bytes} (h : Holds self a) (hb : Holds rhs b) (w : World) :
    plus self rhs w =
      .ok (⟨w.next + 1, a ++ b ++ [0], a.length + (b.length + 1)⟩,
           ((w.alloc (a.length + 1)).alloc (a.length + (b.length + 1))).free w.next (a.length + 1)) := plus_ok h hb w

/-! ## comparisons and searches -/

theorem size_eq {o : Obj} {a : Bytes} (h : Holds o a) : size o = .ok a.length := size_ok h

theorem eq_eq {l r : Obj} {a b : Bytes} (hl : Holds l a) (hr : Holds r b) : equals l r = .ok (decide (a = b)) :=
  equals_ok hl hr

theorem contains_iff_isInfix {self other : Obj} {a b : Bytes} (h : Holds self a) (hb : Holds other b) :
    contains self other = .ok (Text.isInfix a b) := contains_ok h hb

theorem startsWith_eq {self other : Obj} {a b : Bytes} (h : Holds self a) (hb : Holds other b) :
    startsWith self other = .ok (Text.startsWith a b) := startsWith_ok h hb

theorem endsWith_eq {self other : Obj} {a b : Bytes} (h : Holds self a) (hb : Holds other b) :
    endsWith self other = .ok (Text.endsWith a b) := endsWith_ok h hb

theorem count_eq {self substr : Obj} {a b : Bytes} (h : Holds self a) (hb : Holds substr b) :
    count self substr = .ok (Text.count a b) := count_ok h hb

theorem findFrom_eq {self : Obj} {a : Bytes} (h : Holds self a) (start : Nat) (ch : UInt8) :
    findFrom self start ch = .ok ((Text.findFrom a start ch).getD npos) := findFrom_ok h start ch

theorem find_eq {self : Obj} {a : Bytes} (h : Holds self a) (ch : UInt8) :
    find self ch = .ok ((Text.find a ch).getD npos) := find_ok h ch

theorem at_eq {self : Obj} {a : Bytes} (h : Holds self a) (pos : Nat) (hp : pos ≤ a.length) :
    at_ self pos = .ok ((cz a).getD pos 0) := at_ok h pos hp

theorem equalsNoCase_eq {self str : Obj} {a b : Bytes} (h : Holds self a) (hb : Holds str b) (w : World) :
    equalsNoCase self str w =
      .ok (Text.equalsNoCase a b,
           (((w.alloc (b.length + 1)).alloc (a.length + 1)).free (w.next + 1) (a.length + 1)).free w.next (b.length + 1)) :=
  equalsNoCase_ok h hb w

theorem containsNoCase_eq {self other : Obj} {a b : Bytes} (h : Holds self a) (hb : Holds other b) (w : World) :
    containsNoCase self other w =
      .ok (Text.containsNoCase a b,
           (((w.alloc (a.length + 1)).alloc (b.length + 1)).free (w.next + 1) (b.length + 1)).free w.next (a.length + 1)) :=
  containsNoCase_ok h hb w

/-! ## derived strings and in-place changes -/

theorem subString_eq {self : Obj} {a : Bytes} (h : Holds self a) (beginPos amount : Nat) (w : World) :
    Creates (subString self beginPos amount) w (fun r => Holds r (Text.subString a beginPos amount)) :=
  subString_creates h beginPos amount w

theorem subStringFrom_eq {self : Obj} {a : Bytes} (h : Holds self a) (hfit : a.length < npos) (beginPos : Nat) (w : World) :
    Creates (subString1 self beginPos) w (fun r => Holds r (Text.subStringFrom a beginPos)) :=
  subString1_creates h hfit beginPos w

theorem subStringFromTill_eq {self : Obj} {a : Bytes} (h : Holds self a) (hfit : a.length < npos) (s e : UInt8) (w : World) :
    Creates (subStringFromTill self s e) w (fun r => Holds r (Text.subStringFromTill a s e)) :=
  subStringFromTill_creates h hfit s e w

theorem lowerCase_eq {self : Obj} {a : Bytes} (h : Holds self a) (w : World) :
    lowerCase self w = .ok (mkObj w.next (Text.lower a), w.alloc (a.length + 1)) := lowerCase_ok h w

/-- `replace(char, char)`: in place, same buffer, same recorded size -/
theorem replaceChar_eq {self : Obj} {a : Bytes} (h : Holds self a) (to w : UInt8) (hw : w ≠ 0) :
    ∃ r, replaceChar self to w = .ok r ∧ Holds r (Text.replaceByte a to w) ∧ r.id = self.id ∧ r.size = self.size ∧
      r.buf.length = self.buf.length := replaceChar_holds h to w hw

/-- `replace(char, char)` for ANY replacement byte: a NUL replacement cuts the string there -/
theorem replaceChar_any_eq {self : Obj} {a : Bytes} (h : Holds self a) (to w : UInt8) :
    ∃ r, replaceChar self to w = .ok r ∧ Holds r (cut (Text.replaceByte a to w)) ∧ r.id = self.id ∧
      r.size = self.size ∧ r.buf.length = self.buf.length := replaceChar_any h to w

/-- `replace(to, with)` = leftmost, non-overlapping replace-all (an empty pattern changes nothing);
    the old buffer is released under its recorded size iff a new one was requested -/
theorem replaceAll_eq {self : Obj} {a pat rep : Bytes} {to wb : Buf} {tp wp : Nat}
    (h : Holds self a) (hs : Sized self) (hto : CAt to tp pat) (hw : CAt wb wp rep) (w : World) :
    Replaces (replaceStr self to tp wb wp) w self (fun r => Holds r (Text.replaceAll a pat rep)) :=
  replaceStr_replaces h hs hto hw w

theorem pad_eq {str1 str2 : Obj} {a b : Bytes} (h1 : Holds str1 a) (h2 : Holds str2 b)
    (hs1 : Sized str1) (hs2 : Sized str2) (c : UInt8) (w : World) :
    ∃ r1 r2 w', padStringsToSameLength str1 str2 c w = .ok ((r1, r2), w') ∧
      Holds r1 (TextExt.padToSameLength a b c).1 ∧ Holds r2 (TextExt.padToSameLength a b c).2 ∧ Sized r1 ∧ Sized r2 ∧
      ∀ L, Owns w ((str1.id, str1.size) :: (str2.id, str2.size) :: L) →
        Owns w' ((r1.id, r1.size) :: (r2.id, r2.size) :: L) :=
  padStringsToSameLength_ok h1 h2 hs1 hs2 c w

theorem copyToBuffer_eq {self : Obj} {a : Bytes} (h : Holds self a) (dst : Buf) :
    copyToBuffer self (some dst) dst.length = .ok (some (TextExt.copyOut a dst)) := copyToBuffer_ok h dst

theorem copyToBuffer_null (self : Obj) (n : Nat) : copyToBuffer self none n = .ok none := rfl

/-! ## split, printable -/

/-- `split`: the collection's elements hold exactly the textbook tokens; the buffers of all
    temporaries are released (`HoldAll` pairs elements with tokens, each element `Sized`) -/
theorem split_eq {self delim : Obj} {a d : Bytes} (h : Holds self a) (hd : Holds delim d) (e : Obj) (w : World) :
    ∃ items w', split self delim ⟨[], e⟩ w = .ok (⟨items, e⟩, w') ∧ HoldAll items (TextExt.split a d) ∧
      ∀ L, Owns w L → Owns w' (ownedObjs items ++ L) := split_ok h hd e w

/-- the first-occurrence form used above is the shared definition `Text.split` whenever string and
    delimiter are non-empty (the corners: `"".split(d) = [""]`, `"".split("") = []`, one token per
    byte for the empty delimiter, are `TextExt.split`'s) -/
theorem split_spec_eq_text_split {a d : Bytes} (ha : a ≠ []) (hd : d ≠ []) : TextExt.split a d = Text.split a d :=
  split_eq_text_split ha hd

/-- `printable()` — given that libc printed the hex escapes (`HexEnv`) -/
theorem printable_eq {self : Obj} {a : Bytes} (h : Holds self a) (w : World) (vs rest : List VsnRes)
    (henv : HexEnv a vs) (hv : w.vsn = vs ++ rest) :
    ∃ r w', printable self w = .ok (r, w') ∧ Holds r (TextExt.printable a) ∧ Sized r ∧ w'.vsn = rest ∧
      ∀ L, Owns w L → Owns w' ((r.id, r.size) :: L) := printable_creates h w vs rest henv hv

/-- the size pre-computation is exact: it is the length of the escaped text -/
theorem printable_size_eq {self : Obj} {a : Bytes} (h : Holds self a) :
    getPrintableSize self = .ok (TextExt.printable a).length := getPrintableSize_ok h

/-! ## SimpleStringCollection -/

/-- `allocate(n)`: the old elements are destroyed (their buffers released), `size()` is `n`, every
    element is the empty string, `empty_` is untouched -/
theorem collection_allocate (col : Coll) (n : Nat) (w : World) :
    ∃ items w', collAllocate col n w = .ok (⟨items, col.empty⟩, w') ∧ items.length = n ∧
      (∀ o ∈ items, Holds o [] ∧ Sized o) ∧
      ∀ L, Owns w (ownedObjs col.items ++ L) → Owns w' (ownedObjs items ++ L) := collAllocate_ok col n w

theorem collection_get_in_range {col : Coll} {i : Nat} {o : Obj} (h : col.items[i]? = some o) (w : World) :
    collGet col i w = .ok ((col, o), w) := collGet_in_range h w

/-- an index past the end reads as the empty string (whatever was stored through such an index) -/
theorem collection_get_out_of_range {col : Coll} {i : Nat} (h : col.items[i]? = none) (w : World) :
    collGet col i w =
      .ok ((⟨col.items, mkObj (w.next + 1) []⟩, mkObj (w.next + 1) []),
           (((w.alloc 1).free col.empty.id col.empty.size).alloc 1).free w.next 1) := collGet_out_of_range h w

theorem collection_assign_in_range {col : Coll} {i : Nat} {o value : Obj} {v : Bytes} (h : col.items[i]? = some o)
    (hv : Holds value v) (w : World) :
    collAssign col i value w =
      .ok (⟨col.items.set i (mkObj w.next v), col.empty⟩, (w.free o.id o.size).alloc (v.length + 1)) :=
  collAssign_in_range h hv w

/-- a store through an index past the end leaves every element as it is -/
theorem collection_assign_out_of_range {col : Coll} {i : Nat} {value : Obj} {v : Bytes} (h : col.items[i]? = none)
    (hv : Holds value v) (w : World) :
    collAssign col i value w =
      .ok (⟨col.items, mkObj (w.next + 2) v⟩,
           (((((w.alloc 1).free col.empty.id col.empty.size).alloc 1).free w.next 1).free (w.next + 1) 1).alloc
             (v.length + 1)) := collAssign_out_of_range h hv w

/-- any sequence of collection actions keeps the collection well-formed and its buffers paired -/
theorem collection_actions_pair {st : Store} {w0 : World} (hg : Good st w0) (acts : List CollAct) (col : Coll)
    (w : World) (col' : Coll) (w' : World) (hc : CollGood col) (h : runColl st acts col w = .ok (col', w')) :
    CollGood col' ∧ ∀ L, Owns w (collOwned col ++ L) → Owns w' (collOwned col' ++ L) :=
  runColl_pc hg acts col w col' w' hc h

/-! ## formatted construction: the glue around `vsnprintf` (whose results are inputs) -/

/-- a formatted length below 100: the stack buffer is used, no buffer is requested for the text -/
theorem format_fast_path {w : World} {r : VsnRes} {rest : List VsnRes} (hv : w.vsn = r :: rest)
    (hret : r.ret < sizeOfdefaultBuffer) (hlen : r.text.length < sizeOfdefaultBuffer) (hnf : NulFree r.text) :
    vStringFromFormat w =
      .ok (mkObj (w.next + 2) r.text,
           (((((w.alloc 1).vsnCall sizeOfdefaultBuffer r).alloc (r.text.length + 1)).free w.next 1).alloc
              (r.text.length + 1)).free (w.next + 1) (r.text.length + 1)) :=
  vStringFromFormat_fast hv hret hlen hnf

/-- a formatted length of 100 or more: exactly `length + 1` bytes are requested, filled by a second
    `vsnprintf` call, and released as `length + 1` bytes -/
theorem format_slow_path {w : World} {r r2 : VsnRes} {rest : List VsnRes} (hv : w.vsn = r :: r2 :: rest)
    (hret : ¬ r.ret < sizeOfdefaultBuffer) (hlen : r.text.length < sizeOfdefaultBuffer)
    (hlen2 : r2.text.length < r.ret + 1) (hnf : NulFree r2.text) :
    vStringFromFormat w =
      .ok (mkObj (w.next + 3) r2.text,
           (((((((((w.alloc 1).vsnCall sizeOfdefaultBuffer r).alloc (r.ret + 1)).vsnCall (r.ret + 1) r2).alloc
              (r2.text.length + 1)).free w.next 1).alloc (r2.text.length + 1)).free (w.next + 2)
              (r2.text.length + 1)).free (w.next + 1) (r.ret + 1))) :=
  vStringFromFormat_slow hv hret hlen hlen2 hnf

/-- the threshold is the regenerated size of the stack buffer -/
theorem format_threshold : sizeOfdefaultBuffer = Gen.Str.sizeOfdefaultBuffer := rfl

theorem stringFromFormat_fast_path {w : World} {r : VsnRes} {rest : List VsnRes} (hv : w.vsn = r :: rest)
    (hret : r.ret < sizeOfdefaultBuffer) (hlen : r.text.length < sizeOfdefaultBuffer) (hnf : NulFree r.text) :
    ∃ w', stringFromFormat w = .ok (mkObj (w.next + 4) r.text, w') ∧ w'.vsn = rest ∧ w'.junk = w.junk ∧
      w'.next = w.next + 5 ∧ ∀ L, Owns w L → Owns w' ((w.next + 4, r.text.length + 1) :: L) :=
  stringFromFormat_fast hv hret hlen hnf

/-- `StringFromBinary` = two upper-case hex digits per byte joined by single blanks — given that
    libc printed each `"%02X "` (`BinEnv`); all temporaries released -/
theorem binary_eq (x : Bytes) (w : World) (vs rest : List VsnRes) (henv : BinEnv x vs) (hv : w.vsn = vs ++ rest) :
    ∃ r w', stringFromBinary x.length w = .ok (r, w') ∧ Holds r (TextExt.binary x) ∧ Sized r ∧ w'.vsn = rest ∧
      ∀ L, Owns w L → Owns w' ((r.id, r.size) :: L) := stringFromBinary_creates x w vs rest henv hv

/-- `StringFromMaskedBits` (`byteCount ≥ 1`, 64-bit `unsigned long`) = the textbook rendering -/
theorem maskedBits_eq (v m k : Nat) (w : World) :
    Creates (stringFromMaskedBits v m k) w (fun r => Holds r (TextExt.maskedBits v m k)) :=
  stringFromMaskedBits_creates v m k w

/-- formatted construction pairs its buffers whatever `vsnprintf` answers (fast path, slow path,
    texts with embedded NULs, wrong lengths — a contract violation makes the model fail instead) -/
theorem format_pairs_always : PC vStringFromFormat ∧ PC stringFromFormat :=
  ⟨pc_vStringFromFormat, pc_stringFromFormat⟩

/-- `HexStringFrom(signed char)`: non-negative → what `printf("%x")` printed; negative → its last
    two characters (the two-digit cut) -/
theorem hexStringFromSignedChar_eq {w : World} {r : VsnRes} {rest : List VsnRes} (neg : Bool)
    (hv : w.vsn = r :: rest) (hret : r.ret < sizeOfdefaultBuffer) (hlen : r.text.length < sizeOfdefaultBuffer)
    (hnf : NulFree r.text) (h2 : 2 ≤ r.text.length) :
    Creates (hexStringFromSignedChar neg) w
      (fun o => Holds o (if neg then r.text.drop (r.text.length - 2) else r.text)) :=
  hexStringFromSignedChar_creates neg hv hret hlen hnf h2

/-- `BracketsFormattedHexString(h)` = `"(0x" ++ h ++ ")"` (no environment involved) -/
theorem brackets_eq {hexString : Obj} {a : Bytes} (h : Holds hexString a) (w : World) :
    Creates (bracketsFormattedHexString hexString) w (fun r => Holds r ([40, 48, 120] ++ a ++ [41])) :=
  bracketsFormattedHexString_creates h w

/-- `BracketsFormattedHexStringFrom(v)` = `"(0x" ++ <what printf printed> ++ ")"` -/
theorem bracketsFromFormat_eq {w : World} {r : VsnRes} {rest : List VsnRes}
    (hv : w.vsn = r :: rest) (hret : r.ret < sizeOfdefaultBuffer) (hlen : r.text.length < sizeOfdefaultBuffer)
    (hnf : NulFree r.text) :
    Creates (do let h ← stringFromFormat; let o ← bracketsFormattedHexString h; dtor h; pure o) w
      (fun o => Holds o ([40, 48, 120] ++ r.text ++ [41])) := bracketsFromFormat_creates hv hret hlen hnf

/-- `StringFrom(const void*)` / `StringFrom(void (*)())` = `"0x" ++ <what printf printed>` -/
theorem stringFromPointer_eq {w : World} {r : VsnRes} {rest : List VsnRes}
    (hv : w.vsn = r :: rest) (hret : r.ret < sizeOfdefaultBuffer) (hlen : r.text.length < sizeOfdefaultBuffer)
    (hnf : NulFree r.text) :
    Creates stringFromPointer w (fun o => Holds o ([48, 120] ++ r.text)) := stringFromPointer_creates hv hret hlen hnf

/-- `StringFrom(bool)` is exactly what `printf("%s", "true"/"false")` printed -/
theorem stringFromBool_eq {w : World} {r : VsnRes} {rest : List VsnRes} (b : Bool)
    (hv : w.vsn = r :: rest) (hret : r.ret < sizeOfdefaultBuffer)
    (htext : r.text = if b then [116, 114, 117, 101] else [102, 97, 108, 115, 101]) :
    Creates stringFromFormat w (fun o => Holds o (if b then [116, 114, 117, 101] else [102, 97, 108, 115, 101])) :=
  stringFromBool_creates b hv hret htext

/-- `StringFromBinaryWithSize`: the header libc printed, the first `min n 128` bytes as hex pairs,
    `" ..."` exactly when `n > 128` -/
theorem binaryWithSize_eq (x : Bytes) (w : World) (hdr : VsnRes) (vs rest : List VsnRes)
    (hv : w.vsn = hdr :: (vs ++ rest)) (hret : hdr.ret < sizeOfdefaultBuffer)
    (hlen : hdr.text.length < sizeOfdefaultBuffer) (hnf : NulFree hdr.text) (henv : BinEnv (x.take 128) vs) :
    Creates (stringFromBinaryWithSize false x.length) w
      (fun o => Holds o (hdr.text ++ TextExt.binary (x.take 128) ++ (if x.length > 128 then [32, 46, 46, 46] else []))) :=
  stringFromBinaryWithSize_creates x w hdr vs rest hv hret hlen hnf henv

/-- … which is `TextExt.binaryWithSize x` when the header is `"Size = <n> | HexContents = "` -/
theorem binaryWithSize_textbook (x : Bytes) {hdr : VsnRes} (h : hdr.text = TextExt.sizeHeader x.length) :
    hdr.text ++ TextExt.binary (x.take 128) ++ (if x.length > 128 then [32, 46, 46, 46] else []) =
      TextExt.binaryWithSize x := stringFromBinaryWithSize_textbook x h

/-- the suffix `StringFromOrdinalNumber` hands to `printf` (over the regenerated rule constants) -/
theorem ordinal_suffix_eq (n : Nat) : SStr.ordinalSuffix n = TextExt.ordinalSuffix n := ordinalSuffix_eq n

/-! ## allocator pairing over operation sequences -/

/-- replaying a log: `none` as soon as a buffer is released that is not outstanding with exactly
    that size, or a live id is handed out again -/
theorem replay_append (l1 l2 : List Ev) (L : List (Nat × Nat)) :
    liveAfter (l1 ++ l2) L = (liveAfter l1 L).bind (liveAfter l2) := liveAfter_append l1 l2 L

/-- **FULL STRENGTH.** One operation of the scripts — ANY operation: object-level operations,
    `replace(c, '\0')`, the whole formatted-construction family (`Op.fmt`: StringFromFormat /
    VStringFromFormat fast and slow path, StringFrom(…), HexStringFrom, BracketsFormatted…,
    StringFromBinary(+WithSize, OrNull), StringFromMaskedBits, StringFromOrdinalNumber, pointer forms),
    `printable`, `split` — keeps the invariant `Good`, whatever `vsnprintf` answered (an answer
    that breaks the libc contract makes the model fail, never mis-pair): each live object owns
    exactly one outstanding buffer under its recorded size (= the buffer's size = the size it was
    requested with); every temporary buffer of the operation was released exactly once with its
    size.  No hypothesis on operands or environment besides success and `size_t` range. -/
theorem step_keeps_pairing_full {st st' : Store} {w w' : World} {op : Op} (hg : Good st w)
    (hs : step st op w = .ok (st', w')) (hfit : Fits st') : Good st' w' := step_good hg hs hfit

/-- every successful script, of any length and of any operations, from the empty state -/
theorem script_keeps_pairing {ops : List Op} {st' : Store} {w' : World} (hr : Run [] {} ops st' w') :
    Good st' w' := run_good hr Good.init

/-- … hence its log replays without a mismatch and the outstanding buffers are the live objects' -/
theorem each_buffer_released_once_same_size {ops : List Op} {st' : Store} {w' : World} (hr : Run [] {} ops st' w') :
    ∃ L, liveAfter w'.log [] = some L ∧ L.Perm (owned st') := by
  obtain ⟨L0, h1, h2, _⟩ := (run_good hr Good.init).owns
  exact ⟨L0, h1, h2⟩

/-- … and a script that ends by destroying all objects has released every buffer it ever
    requested, exactly once, with the requested size -/
theorem script_then_delall_releases_everything {ops : List Op} {st' : Store} {w' : World}
    (hr : Run [] {} (ops ++ [.delall]) st' w') : liveAfter w'.log [] = some [] ∧ st' = [] := by
  have key : ∀ {st w ops st1 w1}, Run st w ops st1 w1 → ops ≠ [] → ops.getLast? = some Op.delall → st1 = [] := by
    intro st w ops st1 w1 h
    induction h with
    | nil => intro h; exact absurd rfl h
    | @cons st w op ops st1 w1 st2 w2 vs hs hfit hrest ih =>
      intro _ hl
      cases ops with
      | nil =>
        cases hrest
        simp at hl; subst hl
        simp only [step, bind_run] at hs
        cases hd : delAll (List.mergeSort st fun a b => decide (a.1 ≤ b.1)) { w with vsn := vs } with
        | error e => simp [hd] at hs
        | ok p => simp [hd] at hs; exact hs.1
      | cons o os => exact ih (by simp) (by simpa using hl)
  have hst : st' = [] := key hr (by simp) (by simp)
  obtain ⟨L0, h1, h2, _⟩ := (run_good hr Good.init).owns
  rw [hst] at h2
  simp only [owned, List.map_nil, List.perm_nil] at h2
  exact ⟨by rw [h1, h2], hst⟩

/-! ## non-vacuity -/

/-- "ab" inside a larger buffer with junk before and after -/
example : CAt [7, 7, 97, 98, 0, 9, 9] 2 [97, 98] := ⟨by decide, [9, 9], rfl⟩
example : StrLen [7, 7, 97, 98, 0, 9, 9] 2 = .ok 2 := rfl
/-- an unterminated buffer is an out-of-bounds read in the model -/
example : StrLen [97, 98] 0 = .error .oob := rfl
example : Holds (mkObj 5 [97, 97, 97]) [97, 97, 97] := holds_mkObj (by decide)
/-- the old defect witnesses, on the model of the repaired code -/
example : Text.replaceAll [97, 97, 97] [97, 97] [98] = [98, 97] := by decide
example : Text.subString [] 5 2 = [] := by decide
example : TextExt.split [97, 45, 45, 98] [45, 45] = [[97, 45, 45], [98]] := by decide
example : TextExt.split [] [45] = [[]] ∧ TextExt.split [] [] = [] ∧ TextExt.split [97, 98] [] = [[97], [98]] := by decide
example : TextExt.printable [128, 10, 65] = [92, 120, 56, 48, 92, 110, 65] := by decide
example : HexEnv [128, 10, 65] [⟨5, [92, 120, 56, 48, 32]⟩] := ⟨by decide, by decide⟩
/-- " -12x": two blanks, a sign, two digits, a rest -/
example : TextExt.atoi ([32, 9] ++ [45] ++ [49, 50] ++ [120]) = -12 := by decide
example : TextExt.digitsVal 0 [49, 50] = 12 := by decide
/-- the collection read past its end, on the model: `empty_` comes back as "" -/
example : ∃ e w', collGet ⟨[], mkObj 7 [97]⟩ 3 {} = .ok ((⟨[], e⟩, e), w') ∧ Holds e [] :=
  ⟨_, _, collGet_out_of_range (by rfl) {}, holds_mkObj (by decide)⟩
example : CollGood ⟨[mkObj 1 [97]], mkObj 2 []⟩ :=
  ⟨by intro o ho; simp at ho; subst ho; exact ⟨hasStr_mk _ (by decide), sized_mkObj _ _⟩,
   hasStr_mk _ (by decide), sized_mkObj _ _⟩
example : TextExt.binaryWithSize [0, 255] = TextExt.sizeHeader 2 ++ [48, 48, 32, 70, 70] := by decide

/-- a concrete script: `a = "ab"; b = a + a; b.replace("ba", "x"); delete a; delete b` -/
def exOps : List Op :=
  [.new "a" [97, 98, 0], .plus "b" "a" "a", .repl "b" [98, 97, 0] [120, 0], .del "a", .del "b"]

def exState : Nat → Store × World
  | 0 => ([], {})
  | n + 1 =>
    match exOps[n]? with
    | some op =>
      match step (exState n).1 op (exState n).2 with
      | .ok p => p
      | .error _ => ([], {})
    | none => ([], {})

theorem exStep1 : step (exState 0).1 (.new "a" [97, 98, 0]) { (exState 0).2 with vsn := [] } = .ok (exState 1) := rfl
theorem exStep2 : step (exState 1).1 (.plus "b" "a" "a") { (exState 1).2 with vsn := [] } = .ok (exState 2) := rfl
theorem exStep3 : step (exState 2).1 (.repl "b" [98, 97, 0] [120, 0]) { (exState 2).2 with vsn := [] } = .ok (exState 3) := rfl
theorem exStep4 : step (exState 3).1 (.del "a") { (exState 3).2 with vsn := [] } = .ok (exState 4) := rfl
theorem exStep5 : step (exState 4).1 (.del "b") { (exState 4).2 with vsn := [] } = .ok (exState 5) := rfl

theorem exFits (n : Nat) (h : n ≤ 5) : Fits (exState n).1 := by
  unfold Fits
  match n, h with
  | 0, _ | 1, _ | 2, _ | 3, _ | 4, _ | 5, _ => decide

theorem exRun : Run [] {} exOps (exState 5).1 (exState 5).2 :=
  Run.cons [] exStep1 (exFits 1 (by decide))
    (Run.cons [] exStep2 (exFits 2 (by decide))
      (Run.cons [] exStep3 (exFits 3 (by decide))
        (Run.cons [] exStep4 (exFits 4 (by decide))
          (Run.cons [] exStep5 (exFits 5 (by decide)) (Run.nil _ _)))))

example : (exState 3).1.map (fun p => (p.1, cview p.2.buf)) = [("a", [97, 98]), ("b", [97, 120, 98])] := by decide
/-- the pairing theorem applies to it: nothing is outstanding at the end -/
example : liveAfter (exState 5).2.log [] = some [] := by
  obtain ⟨L, h1, h2⟩ := each_buffer_released_once_same_size exRun
  have : (exState 5).1 = [] := by decide
  rw [this] at h2
  simp only [owned, List.map_nil, List.perm_nil] at h2
  rw [h1, h2]

/-! ## the primitives as REGENERATED from `SimpleString.cpp` on this run (`Gen/StringPrims.lean`)

`translate/extract_string_prims.py` turns clang's typed AST of the fourteen primitives into the Lean
functions `Gen.StrPrims.*` (loops = recursion on a fuel argument, `*p` = bounded read `rd`, `char` signed,
`size_t` modulo 2^64, `int` range-checked).  The theorems below are about THOSE definitions, so they are
re-checked against what the source says at check time.  Two forms for each primitive:
`…_is_model`: the regenerated function equals the hand-written model of `Base/CString.lean` on EVERY
input (error outcomes included) — hence every theorem of this file and of C02x/C03x/C12x/C14 that goes
through the hand model speaks about the code; `gen_…_eq`: for C strings and enough fuel (stated bound:
more than the string/count, at most 2^64) it returns the textbook value, i.e. no out-of-bounds access
(`Err.oob`), no exhausted fuel (termination), no signed overflow. -/

open Gen.StrPrims in
theorem gen_charclass_is_model (c : UInt8) :
    Gen.StrPrims.isDigit c = CStr.isDigit c ∧ Gen.StrPrims.isSpace c = CStr.isSpace c ∧
    Gen.StrPrims.isUpper c = CStr.isUpper c ∧ Gen.StrPrims.isControl c = CStr.isControl c ∧
    Gen.StrPrims.isControlWithShortEscapeSequence c = CStr.isControlWithShortEscapeSequence c :=
  ⟨GenPrims.isDigit_eq c, GenPrims.isSpace_eq c, GenPrims.isUpper_eq c, GenPrims.isControl_eq c,
   GenPrims.isControlWithShortEscapeSequence_eq c⟩

/-- the regenerated character classes have their textbook meaning (`char` is signed: bytes ≥ 0x80 are control) -/
theorem gen_charclass_textbook (c : UInt8) :
    (Gen.StrPrims.isDigit c = true ↔ 48 ≤ c.toNat ∧ c.toNat ≤ 57) ∧
    (Gen.StrPrims.isSpace c = TextExt.isBlank c) ∧
    (Gen.StrPrims.isUpper c = true ↔ 65 ≤ c.toNat ∧ c.toNat ≤ 90) ∧
    (Gen.StrPrims.isControl c = true ↔ c.toNat < 32 ∨ c.toNat = 127 ∨ 128 ≤ c.toNat) ∧
    (Gen.StrPrims.isControlWithShortEscapeSequence c = true ↔ 7 ≤ c.toNat ∧ c.toNat ≤ 13) := by
  revert c
  exact GenPrims.forall_uint8 _ (by decide +kernel)

theorem gen_tolower_is_model (c : UInt8) : Gen.StrPrims.ToLower c = CStr.ToLower c := GenPrims.ToLower_eq c
theorem gen_tolower_eq (c : UInt8) : Gen.StrPrims.ToLower c = Text.lowerByte c := by
  rw [GenPrims.ToLower_eq]; exact ToLower_eq_lowerByte c

theorem gen_strlen_is_model (b : Buf) (p : Nat) (hb : b.length + 1 < 18446744073709551616) :
    Gen.StrPrims.StrLen (b.length + 1) b p = CStr.StrLen b p := GenPrims.StrLen_eq b p hb
theorem gen_strlen_eq {b : Buf} {p : Nat} {a : Bytes} (h : CAt b p a) (fuel : Nat) (hf : a.length < fuel)
    (hm : fuel < 18446744073709551616) : Gen.StrPrims.StrLen fuel b p = .ok a.length := GenPrims.StrLen_ok h fuel hf hm

theorem gen_strcmp_is_model (b1 b2 : Buf) (p1 p2 : Nat) :
    Gen.StrPrims.StrCmp (b1.length + 1) b1 p1 b2 p2 = CStr.StrCmp b1 p1 b2 p2 := GenPrims.StrCmp_eq b1 b2 p1 p2
theorem gen_strcmp_eq {b1 b2 : Buf} {p1 p2 : Nat} {a1 a2 : Bytes} (h1 : CAt b1 p1 a1) (h2 : CAt b2 p2 a2)
    (fuel : Nat) (hf : a1.length < fuel) : Gen.StrPrims.StrCmp fuel b1 p1 b2 p2 = .ok (Text.cmp a1 a2) :=
  GenPrims.StrCmp_ok h1 h2 fuel hf
theorem gen_strcmp_zero_iff_eq {b1 b2 : Buf} {p1 p2 : Nat} {a1 a2 : Bytes} (h1 : CAt b1 p1 a1) (h2 : CAt b2 p2 a2)
    (fuel : Nat) (hf : a1.length < fuel) : Gen.StrPrims.StrCmp fuel b1 p1 b2 p2 = .ok 0 ↔ a1 = a2 := by
  rw [GenPrims.StrCmp_ok h1 h2 fuel hf]
  constructor
  · intro h; injection h with h; exact (cmp_eq_zero_iff h1.nulFree h2.nulFree).mp h
  · intro h; rw [(cmp_eq_zero_iff h1.nulFree h2.nulFree).mpr h]

theorem gen_strncmp_is_model (fuel : Nat) (b1 b2 : Buf) (p1 p2 n : Nat) (hf : n < fuel) (hn : n < 18446744073709551616) :
    Gen.StrPrims.StrNCmp fuel b1 p1 b2 p2 n = CStr.StrNCmp b1 p1 b2 p2 n := GenPrims.StrNCmp_eq fuel b1 b2 p1 p2 n hf hn
theorem gen_strncmp_eq {b1 b2 : Buf} {p1 p2 : Nat} {a1 a2 : Bytes} (h1 : CAt b1 p1 a1) (h2 : CAt b2 p2 a2)
    (fuel n : Nat) (hf : n < fuel) (hn : n < 18446744073709551616) :
    Gen.StrPrims.StrNCmp fuel b1 p1 b2 p2 n = .ok (Text.ncmp n a1 a2) := GenPrims.StrNCmp_ok h1 h2 fuel n hf hn

theorem gen_memcmp_is_model (fuel : Nat) (b1 b2 : Buf) (p1 p2 n : Nat) (hf : n < fuel) (hn : n < 18446744073709551616) :
    Gen.StrPrims.MemCmp fuel b1 p1 b2 p2 n = CStr.MemCmp b1 p1 b2 p2 n := GenPrims.MemCmp_eq fuel b1 b2 p1 p2 n hf hn
theorem gen_memcmp_eq (fuel n : Nat) (b1 b2 : Buf) (p1 p2 : Nat) (h1 : n ≤ (b1.drop p1).length)
    (h2 : n ≤ (b2.drop p2).length) (hf : n < fuel) (hn : n < 18446744073709551616) :
    Gen.StrPrims.MemCmp fuel b1 p1 b2 p2 n = .ok (TextExt.memCmp n (b1.drop p1) (b2.drop p2)) := by
  rw [GenPrims.MemCmp_eq fuel b1 b2 p1 p2 n hf hn, MemCmp_ok n b1 b2 p1 p2 h1 h2]

/-- non-NULL destination: the buffer the hand model computes, and the destination pointer is returned -/
theorem gen_strncpy_is_model (fuel : Nat) (dst src : Buf) (dp sp n : Nat) (hf : n ≤ fuel) (hn : n < 18446744073709551616) :
    Gen.StrPrims.StrNCpy fuel false dst dp src sp n = GenPrims.withPtr dp (CStr.StrNCpy dst dp src sp n) :=
  GenPrims.StrNCpy_eq fuel dst src dp sp n hf hn
theorem gen_strncpy_eq {dst src : Buf} {dp sp n : Nat} {a : Bytes} (h : CAt src sp a)
    (hfit : dp + min n (a.length + 1) ≤ dst.length) (fuel : Nat) (hf : n ≤ fuel) (hn : n < 18446744073709551616) :
    Gen.StrPrims.StrNCpy fuel false dst dp src sp n =
      .ok (some dp, dst.take dp ++ (cz a).take n ++ dst.drop (dp + min n (a.length + 1))) :=
  GenPrims.StrNCpy_ok h hfit fuel hf hn
/-- `StrNCpy(NULL, …)` and `StrNCpy(…, 0)` touch nothing (the guard of the code, regenerated) -/
theorem gen_strncpy_null_or_zero (fuel : Nat) (nl : Bool) (dst src : Buf) (dp sp n : Nat) (h : nl = true ∨ n = 0) :
    Gen.StrPrims.StrNCpy fuel nl dst dp src sp n = .ok ((if nl then none else some dp), dst) := by
  rcases h with h | h
  · subst h; exact GenPrims.StrNCpy_null fuel dst src dp sp n
  · subst h; exact GenPrims.StrNCpy_zero fuel nl dst src dp sp

theorem gen_strstr_is_model (b1 b2 : Buf) (p1 p2 : Nat) {a2 : Bytes} (h2 : CAt b2 p2 a2) (hf : a2.length < b1.length + 1)
    (hm : b1.length + 1 < 18446744073709551616) :
    Gen.StrPrims.StrStr (b1.length + 1) b1 p1 b2 p2 = CStr.StrStr b1 p1 b2 p2 := GenPrims.StrStr_eq b1 b2 p1 p2 h2 hf hm
theorem gen_strstr_eq {b1 b2 : Buf} {p1 p2 : Nat} {a1 a2 : Bytes} (h1 : CAt b1 p1 a1) (h2 : CAt b2 p2 a2) (fuel : Nat)
    (hf1 : a1.length < fuel) (hf2 : a2.length < fuel) (hm : fuel < 18446744073709551616) :
    Gen.StrPrims.StrStr fuel b1 p1 b2 p2 = .ok ((TextExt.strStr a1 a2).map (· + p1)) :=
  GenPrims.StrStr_ok h1 h2 fuel hf1 hf2 hm

theorem gen_atou_is_model (b : Buf) (p : Nat) : Gen.StrPrims.AtoU (b.length + 1) b p = CStr.AtoU b p := GenPrims.AtoU_eq b p
theorem gen_atou_eq {b : Buf} {p : Nat} {a : Bytes} (h : CAt b p a) :
    Gen.StrPrims.AtoU (b.length + 1) b p = .ok (TextExt.atou a) := GenPrims.AtoU_ok h

/-- `AtoI` as regenerated, on every input: also the overflow outcome (`Err.overflow` = undefined behaviour of
    `result *= 10` / `result += …` on `int`) is the hand model's -/
theorem gen_atoi_is_model (b : Buf) (p : Nat) : Gen.StrPrims.AtoI (b.length + 1) b p = CStr.AtoI b p := GenPrims.AtoI_eq b p
theorem gen_atoi_eq {b : Buf} {p : Nat} {a : Bytes} (h : CAt b p a) (hfit : TextExt.atoiMagnitude a ≤ 2147483647) :
    Gen.StrPrims.AtoI (b.length + 1) b p = .ok (TextExt.atoi a) := GenPrims.AtoI_ok h hfit

/-! non-vacuity: the regenerated functions run on concrete buffers -/
example : Gen.StrPrims.StrLen 8 [7, 7, 97, 98, 0, 9, 9] 2 = .ok 2 := rfl
/-- an unterminated buffer: the regenerated code reads out of bounds exactly like the model -/
example : Gen.StrPrims.StrLen 3 [97, 98] 0 = .error .oob := rfl
/-- too little fuel is reported, never a wrong value -/
example : Gen.StrPrims.StrLen 2 [97, 98, 0] 0 = .error .fuel := rfl
example : Gen.StrPrims.StrCmp 4 [97, 98, 0] 0 [97, 200, 0] 0 = .ok (-102) := rfl
example : Gen.StrPrims.StrNCmp 4 [97, 98, 0] 0 [97, 99, 0] 0 1 = .ok 0 := rfl
example : Gen.StrPrims.MemCmp 4 [0, 1, 2] 0 [0, 1, 3] 0 3 = .ok (-1) := rfl
example : Gen.StrPrims.StrNCpy 9 false [238, 238, 238, 238] 1 [97, 0] 0 5 = .ok (some 1, [238, 97, 0, 238]) := rfl
example : Gen.StrPrims.StrStr 5 [97, 97, 98, 0] 0 [97, 98, 0] 0 = .ok (some 1) := rfl
example : Gen.StrPrims.AtoU 6 [32, 52, 50, 120, 0] 0 = .ok 42 := rfl
example : Gen.StrPrims.AtoI 6 [9, 45, 49, 50, 0] 0 = .ok (-12) := rfl
/-- 2147483648 does not fit `int`: the regenerated code reports the signed overflow -/
example : Gen.StrPrims.AtoI 12 [50, 49, 52, 55, 52, 56, 51, 54, 52, 56, 0] 0 = .error .overflow := rfl
example : Gen.StrPrims.ToLower 65 = 97 ∧ Gen.StrPrims.ToLower 193 = 193 ∧ Gen.StrPrims.isControl 200 = true := by decide +kernel

/-! ## the allocation-free methods as REGENERATED (`Gen.StrPrims.m_*`: compositions of the regenerated primitives)

`size`, `isEmpty`, `at`, `contains`, `startsWith`, `endsWith`, `findFrom`, `find` are translated from the clang AST
too (`getBuffer()` = offset 0 of the object's buffer; pointer comparisons and `getBuffer() + length - other_length`
as offsets).  For objects holding C strings and any fuel above both lengths (below 2^64) they return the textbook
value — so the links used by C02 (`contains` = `Text.isInfix`), C03 and C12 speak about the source as it is. -/

theorem gen_size_eq {o : Obj} {a : Bytes} (h : Holds o a) (fuel : Nat) (hf : a.length < fuel) (hm : fuel < 18446744073709551616) :
    Gen.StrPrims.m_size fuel o.buf = .ok a.length := GenPrims.m_size_ok h fuel hf hm
theorem gen_isEmpty_eq {o : Obj} {a : Bytes} (h : Holds o a) (fuel : Nat) (hf : a.length < fuel) (hm : fuel < 18446744073709551616) :
    Gen.StrPrims.m_isEmpty fuel o.buf = .ok a.isEmpty := GenPrims.m_isEmpty_ok h fuel hf hm
theorem gen_at_eq {self : Obj} {a : Bytes} (h : Holds self a) (fuel pos : Nat) (hp : pos ≤ a.length) :
    Gen.StrPrims.m_at fuel self.buf pos = .ok ((cz a).getD pos 0) := by
  rw [GenPrims.m_at_eq]; exact at_ok h pos hp
theorem gen_contains_iff_isInfix {self other : Obj} {a b : Bytes} (h : Holds self a) (hb : Holds other b) (fuel : Nat)
    (hf1 : a.length < fuel) (hf2 : b.length < fuel) (hm : fuel < 18446744073709551616) :
    Gen.StrPrims.m_contains fuel self.buf other.buf = .ok (Text.isInfix a b) := GenPrims.m_contains_ok h hb fuel hf1 hf2 hm
theorem gen_startsWith_eq {self other : Obj} {a b : Bytes} (h : Holds self a) (hb : Holds other b) (fuel : Nat)
    (hf1 : a.length < fuel) (hf2 : b.length < fuel) (hm : fuel < 18446744073709551616) :
    Gen.StrPrims.m_startsWith fuel self.buf other.buf = .ok (Text.startsWith a b) := by
  rw [GenPrims.m_startsWith_eq h hb fuel hf1 hf2 hm]; exact startsWith_ok h hb
theorem gen_endsWith_eq {self other : Obj} {a b : Bytes} (h : Holds self a) (hb : Holds other b) (fuel : Nat)
    (hf1 : a.length < fuel) (hf2 : b.length < fuel) (hm : fuel < 18446744073709551616) :
    Gen.StrPrims.m_endsWith fuel self.buf other.buf = .ok (Text.endsWith a b) := by
  rw [GenPrims.m_endsWith_eq h hb fuel hf1 hf2 hm]; exact endsWith_ok h hb
theorem gen_findFrom_eq {self : Obj} {a : Bytes} (h : Holds self a) (fuel : Nat) (hf : a.length < fuel)
    (hm : fuel < 18446744073709551616) (start : Nat) (ch : UInt8) :
    Gen.StrPrims.m_findFrom fuel self.buf start ch = .ok ((Text.findFrom a start ch).getD npos) := by
  rw [GenPrims.m_findFrom_eq h fuel hf hm]; exact findFrom_ok h start ch
theorem gen_find_eq {self : Obj} {a : Bytes} (h : Holds self a) (fuel : Nat) (hf : a.length < fuel)
    (hm : fuel < 18446744073709551616) (ch : UInt8) :
    Gen.StrPrims.m_find fuel self.buf ch = .ok ((Text.find a ch).getD npos) := by
  rw [GenPrims.m_find_eq h fuel hf hm]; exact find_ok h ch

example : Gen.StrPrims.m_endsWith 5 [97, 98, 99, 0] [98, 99, 0] = .ok true := rfl
example : Gen.StrPrims.m_startsWith 5 [97, 98, 99, 0] [98, 0] = .ok false := rfl
example : Gen.StrPrims.m_contains 5 [0] [0] = .ok true := rfl
example : Gen.StrPrims.m_findFrom 5 [97, 98, 97, 0] 1 97 = .ok 2 := rfl
example : Gen.StrPrims.m_findFrom 5 [97, 98, 97, 0] 7 97 = .ok 18446744073709551615 := rfl

end C13
