import CppUModel.Proofs.Diagnostics
import CppUModel.Model.DiagnosticsCode
/-!
# C14 — diagnostics are safe to build, bounded, and say what happened

Property theorems only.  Model: `CppUModel/Model/Diagnostics.lean` (from `src/CppUTest/TestFailure.cpp`
and the `SimpleStringBuffer` / `MemoryLeakOutputStringBuffer` part of `src/CppUTest/MemoryLeakDetector.cpp`);
vocabulary: `CppUModel/Spec/Diagnostics.lean`; formats, macro texts and sizes:
`CppUModel/Gen/DiagnosticsConstants.lean` (regenerated from the sources on every run).
-/
namespace Diag
open Fmt Gen.Diag DiagSpec

/-! ## (B) the fixed report buffer -/

/-- the write limit while leaks are listed -/
def listLimit : Nat := bufferLen - footerSizeWithMallocWarning

set_option maxRecDepth 100000 in
/-- The reserve computed in `startMemoryLeakReporting` does not wrap around and leaves a proper limit. -/
theorem reserve_no_wrap : footerSizeWithMallocWarning ≤ bufferLen ∧ listLimitArg = listLimit ∧ listLimit ≤ cap := by
  decide

set_option maxRecDepth 100000 in
theorem tooMuchText_eq : tooMuchText = tooMuch := by decide
set_option maxRecDepth 100000 in
theorem mallocWarningText_eq : mallocWarningText = mallocWarning := by decide

theorem footerLine_eq (n : Nat) (h : n < 2147483648) : footerLine n = footerText ++ [32] ++ decNat n ++ [10] := by
  have h1 : n % 4294967296 = n := Nat.mod_eq_of_lt (by omega)
  have hc : castInt32 n = (n : Int) := by simp [castInt32, h1, h]
  have hd : decInt (n : Int) = decNat n := by
    have : ¬ ((n : Int) < 0) := by omega
    simp [decInt, this]
  simp [footerLine, footerFmt, render, renderOne, hc, hd]

theorem footerLine_length_le (n : Nat) (h : n < 2147483648) : (footerLine n).length ≤ footerText.length + 12 := by
  rw [footerLine_eq n h]
  have := decNat_length_le n 10 (by omega) (by omega)
  simp; omega

set_option maxRecDepth 100000 in
/-- `footer_fits`: the space reserved while leaks are listed is enough for the too-many notice, the
    total line (any total below 2^31) and the malloc note together, computed from the regenerated
    macro texts.  (It is exactly enough: one more character would not fit.) -/
theorem footer_fits (n : Nat) (hn : n < 2147483648) :
    listLimit + tooMuchText.length + (footerLine n).length + mallocWarningText.length ≤ cap := by
  have h := footerLine_length_le n hn
  have hc : listLimit + tooMuchText.length + (footerText.length + 12) + mallocWarningText.length ≤ cap := by decide
  omega

set_option maxRecDepth 100000 in
/-- the reserve is tight: an 11-character total would not fit any more -/
theorem footer_reserve_tight :
    listLimit + tooMuchText.length + (footerText.length + 12) + mallocWarningText.length = cap := by decide

/-- `add_never_writes_past_limit`: `add` only appends, and only the part of the formatted text that
    stays below the write limit; a buffer that is already at or above its limit is left alone. -/
theorem add_never_writes_past_limit (b : Buf) (s : Bytes) (h : b.WF) :
    (b.add s).text = b.text ++ s.take (b.limit - b.filled)
    ∧ (b.add s).text.length ≤ max b.filled b.limit
    ∧ (b.filled ≥ b.limit → b.add s = b) := by
  obtain ⟨_, _, h3⟩ := h
  refine ⟨Buf.add_text b s, ?_, ?_⟩
  · rw [Buf.add_text, List.length_append, List.length_take, h3]; omega
  · intro hge; unfold Buf.add; simp [hge]

theorem wf_reportLeak (o : OutBuf) (l : Leak) (h : o.buf.WF) : (o.reportLeak l).buf.WF := by
  rw [reportLeak_buf]; exact Buf.wf_add _ _ h

theorem wf_stop (o : OutBuf) (h : o.buf.WF) : o.stop.buf.WF := by
  unfold OutBuf.stop
  split
  · exact Buf.wf_add _ _ h
  · simp only [stopTail, stopFooter]
    have hr := Buf.wf_resetWriteLimit _ h
    split <;> split <;> (repeat (first | exact hr | apply Buf.wf_add))

theorem wf_step (o : OutBuf) (op : Op) (h : o.buf.WF) : (o.step op).buf.WF := by
  cases op with
  | clear => exact Buf.wf_clear _ h
  | start => exact Buf.wf_setWriteLimit _ _ h
  | leak l => exact wf_reportLeak o l h
  | stop => exact wf_stop o h
  | misuse m => exact Buf.wf_add _ _ (Buf.wf_add _ _ (Buf.wf_add _ _ h))

theorem wf_run (ops : List Op) : ∀ (o : OutBuf), o.buf.WF → (o.run ops).buf.WF := by
  induction ops with
  | nil => intro o h; exact h
  | cons op ops ih => intro o h; exact ih (o.step op) (wf_step o op h)

/-- `buffer_invariant`: for EVERY history of clears, report starts, leak entries (any number, size,
    content, file-name length), report stops and misuse messages — in any order, also orders the
    detector never produces — the fill position and the write limit stay at most 4095 and the text has
    exactly `filled` bytes, so it never exceeds the 4096-byte array (terminator included). -/
theorem buffer_invariant (ops : List Op) :
    (OutBuf.init.run ops).buf.filled ≤ bufferLen - 1
    ∧ (OutBuf.init.run ops).buf.limit ≤ bufferLen - 1
    ∧ (OutBuf.init.run ops).buf.text.length = (OutBuf.init.run ops).buf.filled :=
  wf_run ops OutBuf.init Buf.wf_init

/-- the detector's `report()` is the run `start, leak…, stop` -/
theorem report_is_run (o : OutBuf) (leaks : List Leak) :
    o.report leaks = o.run ([Op.start] ++ leaks.map Op.leak ++ [Op.stop]) := by
  simp [OutBuf.report, OutBuf.run, OutBuf.step, List.foldl_map]

/-- The statement of DESIGN.md as first planned (`filled ≤ limit` at all times) is false for the
    repaired code: `add` returns early when the limit was lowered below the fill position, it does
    not move the fill position back. -/
def filled_le_limit_full : Prop := ∀ ops : List Op, (OutBuf.init.run ops).buf.filled ≤ (OutBuf.init.run ops).buf.limit

def longName : Bytes := List.replicate 3800 97

set_option maxRecDepth 100000 in
theorem filled_le_limit_full_fails_known : ¬ filled_le_limit_full := by
  intro h
  have := h [Op.misuse { message := longName, allocFile := [], allocLine := 0, allocSize := 0, allocName := [],
                         freeFile := [], freeLine := 0, freeName := [] }, Op.start]
  revert this
  decide

/-- what holds instead: outside a listing phase (limit = 4095) the fill position is below the limit,
    and a lowered limit never lets the text grow beyond `max filled limit` (`add_never_writes_past_limit`) -/
theorem filled_le_limit_partial (ops : List Op) (h : (OutBuf.init.run ops).buf.limit = cap) :
    (OutBuf.init.run ops).buf.filled ≤ (OutBuf.init.run ops).buf.limit := by
  rw [h]; exact (buffer_invariant ops).1

/-- after a report WITH leaks the write limit is back at 4095 … -/
theorem stop_resets_limit (o : OutBuf) (h : o.total ≠ 0) : o.stop.buf.limit = cap := by
  unfold OutBuf.stop
  simp only [h, if_false, stopTail, stopFooter]
  split <;> split <;> simp [Buf.add_limit, Buf.resetWriteLimit]

/-- … but a report WITHOUT leaks returns before `resetWriteLimit`: the lowered limit stays in force for
    later misuse messages until the next report with leaks (harmless for the bounds, recorded here
    because the model mirrors it and the correspondence check observes it through hook H2) -/
theorem stop_without_leaks_keeps_limit (o : OutBuf) (h : o.total = 0) : o.stop.buf.limit = o.buf.limit := by
  unfold OutBuf.stop
  simp [h, Buf.add_limit]

/-! ### the report text -/

def noLeaksText : Bytes := render noLeaksFmt []

/-- the text of a report begun on a cleared buffer -/
def reportText (leaks : List Leak) : Bytes :=
  if leaks = [] then noLeaksText
  else (fullListing leaks).take listLimit
       ++ (if listLimit ≤ (fullListing leaks).length then tooMuchText else [])
       ++ footerLine leaks.length
       ++ (if anyMalloc leaks then mallocWarningText else [])

set_option maxRecDepth 100000 in
theorem noLeaks_fits : noLeaksText.length ≤ listLimit := by decide

set_option maxRecDepth 100000 in
/-- `report_total_true_when_cleared`: a report begun on a cleared buffer (as after `startChecking`),
    for ANY list of leaks (fewer than 2^31), is: the listing cut at the lowered limit, the too-many
    notice exactly when the listing reached the limit, then the COMPLETE line with the true total, then
    the complete malloc note when a `malloc` leak was seen — nothing of the footer is ever cut. -/
theorem report_total_true_when_cleared (o : OutBuf) (leaks : List Leak)
    (hf : o.buf.filled = 0) (ht : o.buf.text = []) (hn : leaks.length < 2147483648) :
    (o.report leaks).buf.text = reportText leaks := by
  obtain ⟨_, hla, hlc⟩ := reserve_no_wrap
  obtain ⟨h1, h2, h3⟩ := foldl_reportLeak leaks o.start
  have hs_f : o.start.buf.filled = 0 := by simp [OutBuf.start, Buf.setWriteLimit, hf]
  have hs_t : o.start.buf.text = [] := by simp [OutBuf.start, Buf.setWriteLimit, ht]
  have hs_l : o.start.buf.limit = listLimit := by
    have : ¬ (listLimit > cap) := by omega
    simp [OutBuf.start, Buf.setWriteLimit, hla, this]
  have hs_total : o.start.total = 0 := rfl
  have hs_warn : o.start.mallocWarn = false := rfl
  unfold OutBuf.report OutBuf.stop
  rw [h2, hs_total]
  cases leaks with
  | nil =>
    simp only [List.length_nil, Nat.add_zero, if_true]
    rw [h1]
    simp only [hs_total, listingFrom, List.flatMap_nil, List.append_nil]
    have e0 : (if (True ∧ ([] : List Leak) ≠ []) then headerText else ([] : Bytes)) = [] := by simp
    rw [e0, Buf.add_nil]
    have := (Buf.add_fits o.start.buf noLeaksText (by rw [hs_f, hs_l]; have := noLeaks_fits; omega)).1
    show (o.start.buf.add noLeaksText).text = _
    rw [this, hs_t]; simp [reportText]
  | cons l ls =>
    have hne : (0 + (l :: ls).length = 0) = False := by simp
    simp only [hne, if_false]
    rw [h1, h3, hs_total, hs_warn, listingFrom_zero_cons]
    generalize hfull : fullListing (l :: ls) = full
    -- after the listing
    have hb2_t : (o.start.buf.add full).text = full.take listLimit := by
      rw [Buf.add_text, hs_t, hs_l, hs_f]; simp
    have hb2_l : (o.start.buf.add full).limit = listLimit := by rw [Buf.add_limit, hs_l]
    have hb2_f : (o.start.buf.add full).filled = if full.length > listLimit then listLimit else full.length := by
      rw [Buf.add_filled, hs_f, hs_l]
      have hpos : ¬ (0 ≥ listLimit) := by decide
      simp [hpos]
    have hreach : (o.start.buf.add full).reached = decide (listLimit ≤ full.length) := by
      simp only [Buf.reached, hb2_l, hb2_f]
      by_cases hc : full.length > listLimit
      · simp [hc] <;> omega
      · simp [hc]
    have hfoot := footer_fits (l :: ls).length hn
    have hfilled_le : (o.start.buf.add full).filled ≤ listLimit := by rw [hb2_f]; split <;> omega
    simp only [stopTail, stopFooter, hreach, Bool.false_or, Nat.zero_add]
    -- the buffer after resetWriteLimit
    have hr_t : (o.start.buf.add full).resetWriteLimit.text = full.take listLimit := by simp [Buf.resetWriteLimit, hb2_t]
    have hr_f : (o.start.buf.add full).resetWriteLimit.filled = (o.start.buf.add full).filled := rfl
    have hr_l : (o.start.buf.add full).resetWriteLimit.limit = cap := rfl
    by_cases hcap : listLimit ≤ full.length
    · simp only [hcap, decide_true, if_true]
      obtain ⟨a1, a2, a3⟩ := Buf.add_fits (o.start.buf.add full).resetWriteLimit tooMuchText (by rw [hr_f, hr_l]; omega)
      obtain ⟨c1, c2, c3⟩ := Buf.add_fits ((o.start.buf.add full).resetWriteLimit.add tooMuchText) (footerLine (l :: ls).length)
        (by rw [a2, a3, hr_f, hr_l]; omega)
      by_cases hw : anyMalloc (l :: ls) = true
      · simp only [hw, if_true]
        obtain ⟨d1, _, _⟩ := Buf.add_fits (((o.start.buf.add full).resetWriteLimit.add tooMuchText).add (footerLine (l :: ls).length))
          mallocWarningText (by rw [c2, c3, a2, a3, hr_f, hr_l]; omega)
        rw [d1, c1, a1, hr_t]
        simp [reportText, hfull, hcap, hw]
      · have hw' : anyMalloc (l :: ls) = false := by simpa using hw
        simp only [hw', if_false, Bool.false_eq_true]
        rw [c1, a1, hr_t]
        simp [reportText, hfull, hcap, hw']
    · simp only [hcap, decide_false, if_false, Bool.false_eq_true]
      obtain ⟨c1, c2, c3⟩ := Buf.add_fits (o.start.buf.add full).resetWriteLimit (footerLine (l :: ls).length)
        (by rw [hr_f, hr_l]; omega)
      by_cases hw : anyMalloc (l :: ls) = true
      · simp only [hw, if_true]
        obtain ⟨d1, _, _⟩ := Buf.add_fits ((o.start.buf.add full).resetWriteLimit.add (footerLine (l :: ls).length))
          mallocWarningText (by rw [c2, c3, hr_f, hr_l]; omega)
        rw [d1, c1, hr_t]
        simp [reportText, hfull, hcap, hw]
      · have hw' : anyMalloc (l :: ls) = false := by simpa using hw
        simp only [hw', if_false, Bool.false_eq_true]
        rw [c1, hr_t]
        simp [reportText, hfull, hcap, hw']

/-- `notice_iff_entries_dropped`: in a report begun on a cleared buffer the too-many notice follows
    the listing exactly when the listing reached the limit; whenever anything of the listing was
    dropped the notice is there; a notice without a dropped byte happens only when the complete
    listing has exactly `listLimit` bytes. -/
theorem notice_iff_entries_dropped (o : OutBuf) (leaks : List Leak) (hne : leaks ≠ [])
    (hf : o.buf.filled = 0) (ht : o.buf.text = []) (hn : leaks.length < 2147483648) :
    (o.report leaks).buf.text =
        (fullListing leaks).take listLimit
        ++ (if listLimit ≤ (fullListing leaks).length then tooMuchText else [])
        ++ footerLine leaks.length ++ (if anyMalloc leaks then mallocWarningText else [])
    ∧ ((fullListing leaks).take listLimit ≠ fullListing leaks → listLimit ≤ (fullListing leaks).length)
    ∧ (listLimit ≤ (fullListing leaks).length →
        (fullListing leaks).take listLimit ≠ fullListing leaks ∨ (fullListing leaks).length = listLimit) := by
  refine ⟨?_, ?_, ?_⟩
  · rw [report_total_true_when_cleared o leaks hf ht hn]; simp [reportText, hne]
  · intro hd
    rcases Nat.lt_or_ge (fullListing leaks).length listLimit with h | h
    · exact absurd (List.take_of_length_le (by omega)) hd
    · exact h
  · intro hle
    rcases Nat.lt_or_ge listLimit (fullListing leaks).length with h | h
    · left; intro heq
      have := congrArg List.length heq
      rw [List.length_take] at this; omega
    · right; omega

/-- converse of the truncation in `add_never_writes_past_limit`: a formatted piece that fits below the write limit is
    appended COMPLETELY and the fill position advances by its whole length (nothing is cut unless it has to be) -/
theorem add_complete_when_it_fits (b : Buf) (s : Bytes) (h : b.filled + s.length ≤ b.limit) :
    (b.add s).text = b.text ++ s ∧ (b.add s).filled = b.filled + s.length := by
  unfold Buf.add
  by_cases hge : b.filled ≥ b.limit
  · have : s = [] := List.eq_nil_of_length_eq_zero (by omega)
    subst this; simp [hge]
  · have h1 : ¬ (b.filled + s.length > b.limit) := by omega
    have h2 : s.take (b.limit - b.filled) = s := List.take_of_length_le (by omega)
    simp [hge, h1, h2]

/-- converse of `notice_iff_entries_dropped`: when the complete listing is shorter than the lowered limit, the report
    begun on a cleared buffer lists EVERY leak completely, carries no too-many notice, and ends with the true total
    (and the malloc note when due) -/
theorem report_complete_when_listing_fits (o : OutBuf) (leaks : List Leak) (hne : leaks ≠ [])
    (hf : o.buf.filled = 0) (ht : o.buf.text = []) (hn : leaks.length < 2147483648)
    (hfit : (fullListing leaks).length < listLimit) :
    (o.report leaks).buf.text =
      fullListing leaks ++ footerLine leaks.length ++ (if anyMalloc leaks then mallocWarningText else []) := by
  rw [report_total_true_when_cleared o leaks hf ht hn]
  have h1 : ¬ (listLimit ≤ (fullListing leaks).length) := by omega
  have h2 : (fullListing leaks).take listLimit = fullListing leaks := List.take_of_length_le (by omega)
  simp [reportText, hne, h1, h2]

/-! ### the real array: terminated, canary untouched -/

theorem mem_run_refines (ops : List BOp) : ∀ (mb : MemBuf), mb.WF →
    (ops.foldl MemBuf.step mb).WF ∧ (ops.foldl MemBuf.step mb).abs = ops.foldl Buf.step mb.abs := by
  induction ops with
  | nil => intro mb h; exact ⟨h, rfl⟩
  | cons op ops ih =>
    intro mb h
    obtain ⟨h1, h2⟩ := MemBuf.step_refines mb op h
    have := ih (mb.step op) h1
    simp only [List.foldl_cons]
    rw [← h2]; exact this

/-- `text_terminated`: for every sequence of `add` (any formatted text of any length),
    `setWriteLimit` (any value), `resetWriteLimit` and `clear` on a freshly constructed buffer (whatever
    bytes the array held before), in the model of the real 4096-byte array followed by the canary of
    hook H2: the byte at the fill position is NUL (the text stays terminated inside the array), the
    canary is untouched, no store went outside the array, and the visible text is the abstract text. -/
theorem text_terminated (garbage : Bytes) (ops : List BOp) :
    (ops.foldl MemBuf.step (MemBuf.init garbage)).mem[(ops.foldl MemBuf.step (MemBuf.init garbage)).filled]? = some 0
    ∧ (ops.foldl MemBuf.step (MemBuf.init garbage)).filled < bufferLen
    ∧ (ops.foldl MemBuf.step (MemBuf.init garbage)).mem.drop bufferLen = canary
    ∧ (ops.foldl MemBuf.step (MemBuf.init garbage)).overrun = false
    ∧ (ops.foldl MemBuf.step (MemBuf.init garbage)).abs = ops.foldl Buf.step Buf.init := by
  obtain ⟨hw, ha⟩ := MemBuf.init_wf garbage
  obtain ⟨⟨h1, _, _, h4, h5, h6⟩, h7⟩ := mem_run_refines ops (MemBuf.init garbage) hw
  have hc := cap_succ
  refine ⟨h4, by omega, h5, h6, ?_⟩
  rw [h7, ha]

/-- the `SimpleStringBuffer` calls one `MemoryLeakOutputStringBuffer` operation makes -/
def Op.bops (o : OutBuf) : Op → List BOp
  | .clear => [.clear]
  | .start => [.setLimit listLimitArg]
  | .leak l => (if o.total = 0 then [.add headerText] else []) ++ [.add (leakText l)]
               ++ (dumpPieces l.content.length 0 l.content).map .add
  | .stop =>
    if o.total = 0 then [.add (render noLeaksFmt [])]
    else [.resetLimit] ++ (if o.buf.reached then [.add tooMuchText] else []) ++ [.add (footerLine o.total)]
         ++ (if o.mallocWarn then [.add mallocWarningText] else [])
  | .misuse m => [.add m.message, .add (allocLocationText m.allocFile m.allocLine m.allocSize m.allocName),
                  .add (deallocLocationText m.freeFile m.freeLine m.freeName)]

theorem step_buf_eq (o : OutBuf) (op : Op) : (o.step op).buf = (Op.bops o op).foldl Buf.step o.buf := by
  cases op with
  | clear => rfl
  | start => rfl
  | misuse m => rfl
  | leak l =>
    simp only [OutBuf.step, OutBuf.reportLeak, Op.bops, List.foldl_append, List.foldl_map, Buf.addMemoryDump]
    split <;> rfl
  | stop =>
    simp only [OutBuf.step, OutBuf.stop, Op.bops]
    split
    · rfl
    · simp only [stopTail, stopFooter, List.foldl_append]
      cases o.buf.reached <;> cases o.mallocWarn <;> rfl

/-- The same for the report builder: after EVERY history of clears, report starts, leak entries,
    report stops and misuse messages the real array is terminated at the fill position, the canary
    behind it is untouched and no store went outside the array. -/
theorem history_memory_safe (garbage : Bytes) (ops : List Op) :
    ∃ mb : MemBuf, mb.abs = (OutBuf.init.run ops).buf ∧ mb.mem[mb.filled]? = some 0 ∧ mb.filled < bufferLen
      ∧ mb.mem.drop bufferLen = canary ∧ mb.overrun = false := by
  have key : ∀ (ops : List Op) (o : OutBuf) (mb : MemBuf), mb.WF → mb.abs = o.buf →
      ∃ mb' : MemBuf, mb'.WF ∧ mb'.abs = (o.run ops).buf := by
    intro ops
    induction ops with
    | nil => intro o mb hw ha; exact ⟨mb, hw, ha⟩
    | cons op ops ih =>
      intro o mb hw ha
      obtain ⟨h1, h2⟩ := mem_run_refines (Op.bops o op) mb hw
      apply ih (o.step op) _ h1
      rw [h2, ha, step_buf_eq]
  obtain ⟨hw, ha⟩ := MemBuf.init_wf garbage
  obtain ⟨mb, ⟨h1, _, _, h4, h5, h6⟩, h7⟩ := key ops OutBuf.init (MemBuf.init garbage) hw ha
  have hc := cap_succ
  exact ⟨mb, h7, h4, by omega, h5, h6⟩

/-! ## (A) failure messages -/

theorem toLower_eq_lowerByte : toLower = Text.lowerByte := rfl

/-- `position_is_first_difference` (vocabulary): `firstDiff a e` really is the first index at which
    the two strings differ — all earlier positions agree, it is inside both strings (or at the end
    of the shorter one), and if the strings differ at all they differ there. -/
theorem firstDiff_is_first_difference (a e : Bytes) :
    (∀ j, j < firstDiff a e → a[j]? = e[j]?)
    ∧ firstDiff a e ≤ a.length ∧ firstDiff a e ≤ e.length
    ∧ (a ≠ e → a[firstDiff a e]? ≠ e[firstDiff a e]?) := by
  rw [firstDiff_eq_by]
  refine ⟨?_, (firstDiffBy_le id a e).1, (firstDiffBy_le id a e).2, ?_⟩
  · intro j hj; simpa using firstDiffBy_agree id a e j hj
  · intro h; simpa using firstDiffBy_differs id a e (by simpa using h)

/-- the same for the comparison that ignores ASCII case -/
theorem firstDiffNoCase_is_first_difference (a e : Bytes) :
    (∀ j, j < firstDiffBy Text.lowerByte a e → (a[j]?).map Text.lowerByte = (e[j]?).map Text.lowerByte)
    ∧ firstDiffBy Text.lowerByte a e ≤ a.length ∧ firstDiffBy Text.lowerByte a e ≤ e.length
    ∧ (Text.lower a ≠ Text.lower e →
        (a[firstDiffBy Text.lowerByte a e]?).map Text.lowerByte ≠ (e[firstDiffBy Text.lowerByte a e]?).map Text.lowerByte) :=
  ⟨firstDiffBy_agree _ a e, (firstDiffBy_le _ a e).1, (firstDiffBy_le _ a e).2, firstDiffBy_differs _ a e⟩

/-- the same for two byte arrays of `n` bytes -/
theorem firstDiffBin_is_first_difference (n : Nat) (a e : Bytes) (ha : n ≤ a.length) (he : n ≤ e.length) :
    (∀ j, j < firstDiffBin n a e → a[j]? = e[j]?) ∧ firstDiffBin n a e ≤ n
    ∧ (a.take n ≠ e.take n → firstDiffBin n a e < n ∧ a[firstDiffBin n a e]? ≠ e[firstDiffBin n a e]?) :=
  ⟨firstDiffBin_agree n a e, firstDiffBin_le n a e, firstDiffBin_differs n a e ha he⟩

/-- `scan_in_bounds` + `position_is_first_difference` for the string classes: for ALL operand pairs
    (equal ones and ones whose printable forms coincide included; `actual` a C string, i.e. NUL-free)
    both scans of `CheckEqualFailure` / `StringEqualFailure` stay inside the operands' buffers (no
    `.error .oob`) and return the first differing index of the raw operands and of the printable forms. -/
theorem scan_in_bounds_strings (e a : Bytes) (ha : NulFree a) :
    stringScans id e a = .ok (firstDiff a e, firstDiff (DiagSpec.printable a) (DiagSpec.printable e)) := by
  rw [stringScans_spec id id_nz e a ha, firstDiff_eq_by, firstDiff_eq_by, printable_eq, printable_eq]

/-- the same for `StringEqualNoCaseFailure` -/
theorem scan_in_bounds_strings_nocase (e a : Bytes) (ha : NulFree a) :
    stringScans toLower e a =
      .ok (firstDiffBy Text.lowerByte a e, firstDiffBy Text.lowerByte (DiagSpec.printable a) (DiagSpec.printable e)) := by
  rw [stringScans_spec toLower toLower_nz e a ha, printable_eq, printable_eq, toLower_eq_lowerByte]

/-- `scan_in_bounds` + position for `BinaryEqualFailure`: operands of at least `size` bytes, ALL
    contents (equal arrays included): the scan stops at `size` at the latest. -/
theorem scan_in_bounds_binary (size : Nat) (e a : Bytes) (ha : size ≤ a.length) (he : size ≤ e.length) :
    scanBin (size + 1) size a e 0 = .ok (firstDiffBin size a e) := by
  have := scanBin_spec size a e [] [] (size + 1) rfl ha he (by omega)
  simpa using this

theorem diffAtPos_eq (actual : Bytes) (offset reported : Nat) :
    diffAtPos actual offset reported =
      [10, 9] ++ differentString reported ++ Text.subString (paddedActual actual) offset window ++ [62, 10, 9]
      ++ repeatStr markerPadByte ((differentString reported).length + halfWindow) ++ [94] := by
  simp [diffAtPos, diffLead, diffLine1Fmt, diffLine2Fmt, render, renderOne]

set_option maxRecDepth 100000 in
theorem differentString_eq (k : Nat) :
    differentString k = [100, 105, 102, 102, 101, 114, 101, 110, 99, 101, 32, 115, 116, 97, 114, 116, 115, 32, 97, 116, 32, 112, 111, 115, 105, 116, 105, 111, 110, 32]
      ++ decNat k ++ [32, 97, 116, 58, 32, 60] := by
  simp [differentString, differenceFmt, render, renderOne]

/-- the complete message of the string classes for two non-NULL operands: for ALL operand pairs the
    builder succeeds, and the position it prints is the first differing index of the RAW operands
    (also when the printable forms differ in length or coincide) -/
theorem position_is_first_difference_strequal (e a text : Bytes) (ha : NulFree a) :
    stringEqualFailure (some e) (some a) text =
      .ok (userText text ++ butWas (DiagSpec.printable e) (DiagSpec.printable a)
           ++ diffAtPos (DiagSpec.printable a) (firstDiff (DiagSpec.printable a) (DiagSpec.printable e)) (firstDiff a e)) := by
  simp only [stringEqualFailure, stringEqualFailureBy, stringDiffPart]
  rw [scan_in_bounds_strings e a ha]
  simp [printable_eq]

theorem position_is_first_difference_strnocase (e a text : Bytes) (ha : NulFree a) :
    stringEqualNoCaseFailure (some e) (some a) text =
      .ok (userText text ++ butWas (DiagSpec.printable e) (DiagSpec.printable a)
           ++ diffAtPos (DiagSpec.printable a) (firstDiffBy Text.lowerByte (DiagSpec.printable a) (DiagSpec.printable e))
                (firstDiffBy Text.lowerByte a e)) := by
  simp only [stringEqualNoCaseFailure, stringEqualFailureBy, stringDiffPart]
  rw [scan_in_bounds_strings_nocase e a ha]
  simp [printable_eq]

theorem position_is_first_difference_checkequal (e a text : Bytes) (ha : NulFree a) :
    checkEqualFailure e a text =
      .ok (userText text ++ butWas (DiagSpec.printable e) (DiagSpec.printable a)
           ++ diffAtPos (DiagSpec.printable a) (firstDiff (DiagSpec.printable a) (DiagSpec.printable e)) (firstDiff a e)) := by
  simp only [checkEqualFailure, stringDiffPart]
  rw [scan_in_bounds_strings e a ha]
  simp [printable_eq]

/-- a NULL operand: no scan at all -/
theorem strequal_null (f : UInt8 → UInt8) (e a : Option Bytes) (text : Bytes) (h : e = none ∨ a = none) :
    stringEqualFailureBy f e a text = .ok (userText text ++ butWas (printableOrNull e) (printableOrNull a)) := by
  rcases h with h | h
  · subst h; cases a <;> rfl
  · subst h; cases e <;> rfl

/-- `scan_in_bounds`, all string-class operand pairs at once: NULL, empty, equal, equal printable
    forms, any length, any bytes — building the message never reads outside the operands. -/
theorem scan_in_bounds (f : UInt8 → UInt8) (hf : f = id ∨ f = toLower) (e a : Option Bytes) (text : Bytes)
    (ha : ∀ x, a = some x → NulFree x) : ∃ msg, stringEqualFailureBy f e a text = .ok msg := by
  cases e with
  | none => exact ⟨_, strequal_null f none a text (Or.inl rfl)⟩
  | some e =>
    cases a with
    | none => exact ⟨_, strequal_null f (some e) none text (Or.inr rfl)⟩
    | some a =>
      have hnf := ha a rfl
      rcases hf with h | h <;> subst h
      · exact ⟨_, position_is_first_difference_strequal e a text hnf⟩
      · exact ⟨_, position_is_first_difference_strnocase e a text hnf⟩

theorem infix_app_left {r m : Bytes} (x : Bytes) (h : r <:+: m) : r <:+: x ++ m := by
  obtain ⟨s, t, rfl⟩ := h; exact ⟨x ++ s, t, by simp⟩
theorem infix_app_right {r m : Bytes} (x : Bytes) (h : r <:+: m) : r <:+: m ++ x := by
  obtain ⟨s, t, rfl⟩ := h; exact ⟨s, t ++ x, by simp⟩

/-- the printed position: the text `difference starts at position <k> at: <` is in the marker part -/
theorem position_printed (actual : Bytes) (offset k : Nat) :
    ([112, 111, 115, 105, 116, 105, 111, 110, 32] ++ decNat k ++ [32, 97, 116, 58, 32, 60]) <:+: diffAtPos actual offset k := by
  rw [diffAtPos_eq, differentString_eq]
  refine ⟨[10, 9] ++ [100, 105, 102, 102, 101, 114, 101, 110, 99, 101, 32, 115, 116, 97, 114, 116, 115, 32, 97, 116, 32], ?_, ?_⟩
  rotate_left
  · simp only [List.append_assoc, List.cons_append, List.nil_append]
    rfl

set_option maxRecDepth 100000 in
theorem pad_length : (repeatStr padByte halfWindow).length = halfWindow ∧ halfWindow + halfWindow = window := by decide

theorem paddedActual_length (x : Bytes) : (paddedActual x).length = x.length + window := by
  have := pad_length
  simp only [paddedActual, List.length_append, this.1]; omega

/-- `window_in_bounds` (string classes): the offset handed to `subString` is at most the length of
    the printable form, so the 20-byte window lies entirely inside the copy padded by 10 blanks on each
    side, and the window has exactly 20 bytes. -/
theorem window_in_bounds_strings (f : UInt8 → UInt8) (pa pe : Bytes) :
    firstDiffBy f pa pe + window ≤ (paddedActual pa).length
    ∧ (Text.subString (paddedActual pa) (firstDiffBy f pa pe) window).length = window := by
  have h1 := (firstDiffBy_le f pa pe).1
  have h2 := paddedActual_length pa
  have hw : window = 20 := by decide
  refine ⟨by omega, ?_⟩
  unfold Text.subString
  have : ¬ (firstDiffBy f pa pe ≥ (paddedActual pa).length) := by omega
  simp only [this, if_false, List.length_take, List.length_drop]
  omega

set_option maxRecDepth 100000 in
theorem hexByte_len_aux : ∀ n, n < 256 → (render [.X02, .lit [32]] [.nat n]).length = 3 := by decide

theorem binFlat_length (bs : Bytes) :
    (bs.flatMap fun b => render [.X02, .lit [32]] [.nat b.toNat]).length = 3 * bs.length := by
  induction bs with
  | nil => rfl
  | cons b bs ih =>
    simp only [List.flatMap_cons, List.length_append, ih, hexByte_len_aux b.toNat (UInt8.toNat_lt b), List.length_cons]
    omega

theorem stringFromBinary_length (bs : Bytes) : (stringFromBinary bs).length = 3 * bs.length - 1 := by
  unfold stringFromBinary Text.subString
  split
  · rename_i h; rw [binFlat_length] at h; simp at h; simp [h]
  · simp only [List.drop_zero, List.length_take, binFlat_length]; omega

/-- `window_in_bounds` (binary): the offset `failStart * 3 + 1` is inside the padded copy of the hex
    rendering for every `failStart ≤ size`, equal arrays (`failStart = size`) and `size = 0` included -/
theorem window_in_bounds_binary (bs : Bytes) (k : Nat) (hk : k ≤ bs.length) :
    k * 3 + 1 < (paddedActual (stringFromBinary bs)).length := by
  rw [paddedActual_length, stringFromBinary_length]
  have hw : window = 20 := by decide
  omega

/-- the complete message of `BinaryEqualFailure` for two non-NULL arrays of at least `size` bytes:
    never out of bounds, position = first differing index (or `size` when the arrays are equal) -/
theorem position_is_first_difference_binary (e a : Bytes) (size : Nat) (text : Bytes)
    (ha : size ≤ a.length) (he : size ≤ e.length) :
    binaryEqualFailure (some e) (some a) size text =
      .ok (userText text ++ butWas (stringFromBinary (e.take size)) (stringFromBinary (a.take size))
           ++ diffAtPos (stringFromBinary (a.take size)) (firstDiffBin size a e * 3 + 1) (firstDiffBin size a e)) := by
  simp only [binaryEqualFailure, binaryOrNull, readN, ha, he, if_true]
  rw [scan_in_bounds_binary size e a ha he]

/-- a NULL array: no scan, `(null)` is shown -/
theorem binary_null (e a : Option Bytes) (size : Nat) (text : Bytes) (h : e = none ∨ a = none)
    (ha : ∀ x, a = some x → size ≤ x.length) (he : ∀ x, e = some x → size ≤ x.length) :
    ∃ msg, binaryEqualFailure e a size text = .ok msg := by
  rcases h with h | h
  · subst h
    cases a with
    | none => exact ⟨_, rfl⟩
    | some a => have := ha a rfl; simp [binaryEqualFailure, binaryOrNull, readN, this]
  · subst h
    cases e with
    | none => exact ⟨_, rfl⟩
    | some e => have := he e rfl; simp [binaryEqualFailure, binaryOrNull, readN, this]

/-! ### `message_contains_both_operands`, class by class -/

/-- an operand as the messages show it: between `<` and `>` -/
def angle (r : Bytes) : Bytes := [60] ++ r ++ [62]

set_option maxRecDepth 100000 in
theorem butWas_eq (e a : Bytes) :
    butWas e a = [101, 120, 112, 101, 99, 116, 101, 100, 32] ++ angle e ++ [10, 9, 98, 117, 116, 32, 119, 97, 115, 32, 32] ++ angle a := by
  simp [butWas, butWasFmt, render, renderOne, angle]

theorem butWas_shows (e a : Bytes) : angle e <:+: butWas e a ∧ angle a <:+: butWas e a := by
  rw [butWas_eq]
  exact ⟨⟨[101, 120, 112, 101, 99, 116, 101, 100, 32], [10, 9, 98, 117, 116, 32, 119, 97, 115, 32, 32] ++ angle a, by simp only [List.append_assoc]⟩,
         ⟨[101, 120, 112, 101, 99, 116, 101, 100, 32] ++ angle e ++ [10, 9, 98, 117, 116, 32, 119, 97, 115, 32, 32], [], by simp only [List.append_nil]⟩⟩

theorem shows_in (u rest E A : Bytes) : angle E <:+: u ++ butWas E A ++ rest ∧ angle A <:+: u ++ butWas E A ++ rest :=
  ⟨infix_app_right _ (infix_app_left _ (butWas_shows E A).1), infix_app_right _ (infix_app_left _ (butWas_shows E A).2)⟩

theorem shows_in' (u E A : Bytes) : angle E <:+: u ++ butWas E A ∧ angle A <:+: u ++ butWas E A :=
  ⟨infix_app_left _ (butWas_shows E A).1, infix_app_left _ (butWas_shows E A).2⟩

/-- `EqualsFailure(const char*, const char*)`: both texts as given, `(null)` for NULL -/
theorem equals_shows_both (e a : Option Bytes) (text : Bytes) :
    angle (strOrNull e) <:+: equalsFailure e a text ∧ angle (strOrNull a) <:+: equalsFailure e a text :=
  shows_in' _ _ _

theorem equalsSS_shows_both (e a text : Bytes) :
    angle e <:+: equalsFailureSS e a text ∧ angle a <:+: equalsFailureSS e a text :=
  shows_in' _ _ _

/-- `DoublesEqualFailure`: the renderings of expected, actual and threshold -/
theorem doubles_shows_all (es as ts : Bytes) (nan : Bool) (text : Bytes) :
    angle es <:+: doublesEqualFailure es as ts nan text ∧ angle as <:+: doublesEqualFailure es as ts nan text
    ∧ angle ts <:+: doublesEqualFailure es as ts nan text := by
  unfold doublesEqualFailure
  refine ⟨?_, ?_, ?_⟩
  · exact infix_app_right _ (infix_app_right _ (infix_app_right _ (infix_app_right _ (shows_in' _ es as).1)))
  · exact infix_app_right _ (infix_app_right _ (infix_app_right _ (infix_app_right _ (shows_in' _ es as).2)))
  · refine infix_app_right _ ⟨userText text ++ butWas es as ++ [32, 116, 104, 114, 101, 115, 104, 111, 108, 100, 32, 117, 115, 101, 100, 32, 119, 97, 115, 32], [], ?_⟩
    simp [angle]

/-- the string-equality and CHECK_EQUAL classes show the PRINTABLE forms (`\n`, `\x01`, … escaped),
    `(null)` for a NULL operand — for every operand pair -/
theorem strings_show_both_printable (f : UInt8 → UInt8) (hf : f = id ∨ f = toLower) (e a : Option Bytes) (text msg : Bytes)
    (ha : ∀ x, a = some x → NulFree x) (h : stringEqualFailureBy f e a text = .ok msg) :
    angle (match e with | some x => DiagSpec.printable x | none => nullText) <:+: msg
    ∧ angle (match a with | some x => DiagSpec.printable x | none => nullText) <:+: msg := by
  cases e with
  | none =>
    rw [strequal_null f none a text (Or.inl rfl)] at h
    injection h with h; subst h
    cases a <;> simp only [printableOrNull, ← printable_eq] <;> exact shows_in' _ _ _
  | some e =>
    cases a with
    | none =>
      rw [strequal_null f (some e) none text (Or.inr rfl)] at h
      injection h with h; subst h
      simp only [printableOrNull, ← printable_eq]; exact shows_in' _ _ _
    | some a =>
      have hnf := ha a rfl
      rcases hf with hf | hf <;> subst hf
      · have h2 := position_is_first_difference_strequal e a text hnf
        simp only [stringEqualFailure] at h2
        rw [h2] at h; injection h with h; subst h
        exact shows_in _ _ _ _
      · have h2 := position_is_first_difference_strnocase e a text hnf
        simp only [stringEqualNoCaseFailure] at h2
        rw [h2] at h; injection h with h; subst h
        exact shows_in _ _ _ _

theorem checkEqual_shows_both_printable (e a text : Bytes) (ha : NulFree a) :
    ∃ msg, checkEqualFailure e a text = .ok msg ∧ angle (DiagSpec.printable e) <:+: msg ∧ angle (DiagSpec.printable a) <:+: msg :=
  ⟨_, position_is_first_difference_checkequal e a text ha, shows_in _ _ _ _⟩

/-- `ComparisonFailure` / `CheckFailure`: the check name and the condition text -/
theorem check_shows_both (c d text : Bytes) : c <:+: checkFailure c d text ∧ d <:+: checkFailure c d text := by
  unfold checkFailure
  exact ⟨⟨userText text, [40] ++ d ++ [41, 32, 102, 97, 105, 108, 101, 100], by simp⟩,
         ⟨userText text ++ c ++ [40], [41, 32, 102, 97, 105, 108, 101, 100], by simp⟩⟩

set_option maxRecDepth 100000 in
theorem contains_eq (e a text : Bytes) :
    containsFailure e a text = userText text ++ [97, 99, 116, 117, 97, 108, 32] ++ angle (printable a)
      ++ [10, 9, 100, 105, 100, 32, 110, 111, 116, 32, 99, 111, 110, 116, 97, 105, 110, 32, 32] ++ angle (printable e) := by
  simp [containsFailure, containsFmt, render, renderOne, angle]

/-- `ContainsFailure` shows both operands in their PRINTABLE forms, for every operand pair (this is
    DESIGN.md section 6 item 21, repaired in the code; the old witness `STRCMP_CONTAINS("\x01", "abc")`
    stays in corpus/C14/contains_raw_operand.ops) -/
theorem contains_shows_both_printable (e a text : Bytes) :
    angle (DiagSpec.printable e) <:+: containsFailure e a text ∧ angle (DiagSpec.printable a) <:+: containsFailure e a text := by
  rw [contains_eq, printable_eq, printable_eq]
  exact ⟨⟨userText text ++ [97, 99, 116, 117, 97, 108, 32] ++ angle (DiagSpec.printable a) ++ [10, 9, 100, 105, 100, 32, 110, 111, 116, 32, 99, 111, 110, 116, 97, 105, 110, 32, 32], [],
          by simp only [List.append_nil]⟩,
         ⟨userText text ++ [97, 99, 116, 117, 97, 108, 32], [10, 9, 100, 105, 100, 32, 110, 111, 116, 32, 99, 111, 110, 116, 97, 105, 110, 32, 32] ++ angle (DiagSpec.printable e),
          by simp only [List.append_assoc]⟩⟩

/-- the oracle's decidable "occurs in" is the infix relation the theorems use -/
theorem isInfix_iff (m r : Bytes) : Text.isInfix m r = true ↔ r <:+: m := by
  induction m with
  | nil => cases r <;> simp [Text.isInfix]
  | cons x t ih => simp [Text.isInfix, List.infix_cons_iff, ih]

instance (r m : Bytes) : Decidable (r <:+: m) := decidable_of_iff _ (isInfix_iff m r)

theorem pad_keeps (s1 s2 : Bytes) :
    (∃ sp, (padStringsToSameLength s1 s2).1 = sp ++ s1) ∧ (∃ sp, (padStringsToSameLength s1 s2).2 = sp ++ s2) := by
  unfold padStringsToSameLength
  split
  · exact ⟨⟨[], rfl⟩, ⟨_, rfl⟩⟩
  · exact ⟨⟨_, rfl⟩, ⟨[], rfl⟩⟩

/-- the integer classes: decimal rendering followed by the bracketed hex rendering, for both values -/
theorem integers_show_both (eDec aDec eHex aHex text : Bytes) :
    (eDec ++ [32] ++ bracketsHex eHex ++ [62]) <:+: integersEqual eDec aDec eHex aHex text
    ∧ (aDec ++ [32] ++ bracketsHex aHex ++ [62]) <:+: integersEqual eDec aDec eHex aHex text := by
  obtain ⟨⟨spa, ha⟩, ⟨spe, he⟩⟩ := pad_keeps aDec eDec
  unfold integersEqual
  rw [ha, he]
  constructor
  · refine infix_app_left _ ?_
    have := (butWas_shows (spe ++ eDec ++ [32] ++ bracketsHex eHex) (spa ++ aDec ++ [32] ++ bracketsHex aHex)).1
    obtain ⟨s, t, hst⟩ := this
    exact ⟨s ++ [60] ++ spe, t, by rw [← hst]; simp [angle]⟩
  · refine infix_app_left _ ?_
    have := (butWas_shows (spe ++ eDec ++ [32] ++ bracketsHex eHex) (spa ++ aDec ++ [32] ++ bracketsHex aHex)).2
    obtain ⟨s, t, hst⟩ := this
    exact ⟨s ++ [60] ++ spa, t, by rw [← hst]; simp [angle]⟩

/-- `LongsEqualFailure` / `LongLongsEqualFailure`: signed decimal and 64-bit two's-complement hex -/
theorem longs_show_both (e a : Int) (text : Bytes) :
    (decInt e ++ [32] ++ bracketsHex (hexLower (toUnsigned 64 e)) ++ [62]) <:+: longsEqualFailure e a text
    ∧ (decInt a ++ [32] ++ bracketsHex (hexLower (toUnsigned 64 a)) ++ [62]) <:+: longsEqualFailure e a text :=
  integers_show_both _ _ _ _ _

theorem unsignedLongs_show_both (e a : Nat) (text : Bytes) :
    (decNat e ++ [32] ++ bracketsHex (hexLower e) ++ [62]) <:+: unsignedLongsEqualFailure e a text
    ∧ (decNat a ++ [32] ++ bracketsHex (hexLower a) ++ [62]) <:+: unsignedLongsEqualFailure e a text :=
  integers_show_both _ _ _ _ _

theorem signedBytes_show_both (e a : Int) (text : Bytes) :
    (decInt e ++ [32] ++ bracketsHex (hexSignedChar e) ++ [62]) <:+: signedBytesEqualFailure e a text
    ∧ (decInt a ++ [32] ++ bracketsHex (hexSignedChar a) ++ [62]) <:+: signedBytesEqualFailure e a text :=
  integers_show_both _ _ _ _ _

/-- `BinaryEqualFailure`: the hex dumps of both arrays -/
theorem binary_shows_both (e a : Bytes) (size : Nat) (text : Bytes) (ha : size ≤ a.length) (he : size ≤ e.length) :
    ∃ msg, binaryEqualFailure (some e) (some a) size text = .ok msg
      ∧ angle (stringFromBinary (e.take size)) <:+: msg ∧ angle (stringFromBinary (a.take size)) <:+: msg :=
  ⟨_, position_is_first_difference_binary e a size text ha he, shows_in _ _ _ _⟩

/-- `BitsEqualFailure`: the masked-bit renderings of both values -/
theorem bits_show_both (e a mask byteCount : Nat) (text : Bytes) :
    angle (maskedBits e mask byteCount) <:+: bitsEqualFailure e a mask byteCount text
    ∧ angle (maskedBits a mask byteCount) <:+: bitsEqualFailure e a mask byteCount text :=
  shows_in' _ _ _

set_option maxRecDepth 100000 in
theorem feature_shows_name (name text : Bytes) : name <:+: featureUnsupportedFailure name text := by
  unfold featureUnsupportedFailure
  refine infix_app_left _ ?_
  simp only [featureFmt, render, renderOne, List.append_nil]
  exact ⟨_, _, by rw [List.append_assoc]⟩

theorem fail_shows_message (m : Bytes) : failFailure m = m := rfl

set_option maxRecDepth 100000 in
theorem hexByte_aux : ∀ n, n < 256 → render [.X02, .lit [32]] [.nat n] = [hexDigitU (n / 16), hexDigitU n, 32] := by decide

theorem binFlat_eq (b : UInt8) (bs : Bytes) :
    ((b :: bs).flatMap fun b => render [.X02, .lit [32]] [.nat b.toNat]) = DiagSpec.hexDump (b :: bs) ++ [32] := by
  induction bs generalizing b with
  | nil => simp [hexByte_aux b.toNat (UInt8.toNat_lt b), DiagSpec.hexDump]
  | cons c cs ih =>
    rw [List.flatMap_cons, ih c, hexByte_aux b.toNat (UInt8.toNat_lt b)]
    simp [DiagSpec.hexDump]

/-- the model's `StringFromBinary` is the textbook hex dump (`AB CD EF`) -/
theorem stringFromBinary_eq_hexDump (bs : Bytes) : stringFromBinary bs = DiagSpec.hexDump bs := by
  cases bs with
  | nil => rfl
  | cons b bs =>
    unfold stringFromBinary Text.subString
    rw [binFlat_eq]
    have hne : ¬ (0 ≥ (DiagSpec.hexDump (b :: bs) ++ [32]).length) := by simp
    simp only [List.drop_zero, List.length_append, List.length_cons, List.length_nil]
    rw [List.take_append_of_le_length (by omega)]
    exact List.take_of_length_le (by omega)

/-! ### the user text, and the classes without operands -/

theorem userText_empty : userText [] = [] := rfl

/-- `createUserText`: nothing for an empty text; otherwise `Message: ` (not when the text starts with
    `LONGS_EQUAL`), the text as given (any bytes, several lines), then `\n\t` -/
theorem userText_spec (text : Bytes) (h : text ≠ []) :
    userText text = (if userTextException.isPrefixOf text then [] else userTextPrefix) ++ text ++ userTextSeparator := by
  cases text with
  | nil => exact absurd rfl h
  | cons x xs => simp [userText]

theorem userText_literals :
    userTextPrefix = [77, 101, 115, 115, 97, 103, 101, 58, 32] ∧ userTextSeparator = [10, 9]
    ∧ userTextException = [76, 79, 78, 71, 83, 95, 69, 81, 85, 65, 76] := by decide

theorem userText_shows_text (text : Bytes) : text <:+: userText text := by
  cases text with
  | nil => exact ⟨[], [], rfl⟩
  | cons x xs => rw [userText_spec _ (by simp)]; exact ⟨_, _, rfl⟩

/-- every class that takes a user text starts its message with `createUserText(text)` -/
theorem classes_start_with_user_text (text : Bytes) :
    (∀ e a, userText text <+: equalsFailure e a text)
    ∧ (∀ e a, userText text <+: equalsFailureSS e a text)
    ∧ (∀ es as ts nan, userText text <+: doublesEqualFailure es as ts nan text)
    ∧ (∀ c d, userText text <+: checkFailure c d text)
    ∧ (∀ e a, userText text <+: containsFailure e a text)
    ∧ (∀ n, userText text <+: featureUnsupportedFailure n text)
    ∧ (∀ e a, userText text <+: longsEqualFailure e a text)
    ∧ (∀ e a, userText text <+: unsignedLongsEqualFailure e a text)
    ∧ (∀ e a, userText text <+: signedBytesEqualFailure e a text)
    ∧ (∀ e a m bc, userText text <+: bitsEqualFailure e a m bc text) := by
  refine ⟨?_, ?_, ?_, ?_, ?_, ?_, ?_, ?_, ?_, ?_⟩ <;> intros
  · exact ⟨_, rfl⟩
  · exact ⟨_, rfl⟩
  · unfold doublesEqualFailure; simp only [List.append_assoc]; exact List.prefix_append _ _
  · unfold checkFailure; simp only [List.append_assoc]; exact List.prefix_append _ _
  · exact ⟨_, rfl⟩
  · exact ⟨_, rfl⟩
  · exact ⟨_, rfl⟩
  · exact ⟨_, rfl⟩
  · exact ⟨_, rfl⟩
  · exact ⟨_, rfl⟩

/-- the same for the classes whose builder scans the operands -/
theorem scanning_classes_start_with_user_text (text msg : Bytes) :
    (∀ f e a, stringEqualFailureBy f e a text = .ok msg → userText text <+: msg)
    ∧ (∀ e a, checkEqualFailure e a text = .ok msg → userText text <+: msg)
    ∧ (∀ e a size, binaryEqualFailure e a size text = .ok msg → userText text <+: msg) := by
  refine ⟨?_, ?_, ?_⟩
  · intro f e a h
    unfold stringEqualFailureBy at h
    split at h
    · split at h
      · exact absurd h (by simp)
      · injection h with h; subst h; simp only [List.append_assoc]; exact List.prefix_append _ _
    · injection h with h; subst h; exact ⟨_, rfl⟩
  · intro e a h
    unfold checkEqualFailure at h
    split at h
    · exact absurd h (by simp)
    · injection h with h; subst h; simp only [List.append_assoc]; exact List.prefix_append _ _
  · intro e a size h
    unfold binaryEqualFailure at h
    split at h
    · split at h
      · split at h
        · injection h with h; subst h; simp only [List.append_assoc]; exact List.prefix_append _ _
        · exact absurd h (by simp)
      · injection h with h; subst h; exact ⟨_, rfl⟩
    · exact absurd h (by simp)
    · exact absurd h (by simp)

set_option maxRecDepth 100000 in
/-- `ComparisonFailure` / `CheckFailure` with a user text: exact message -/
theorem check_message_eq (c d text : Bytes) :
    checkFailure c d text = userText text ++ c ++ [40] ++ d ++ [41, 32, 102, 97, 105, 108, 101, 100] := rfl

set_option maxRecDepth 100000 in
/-- `FeatureUnsupportedFailure`: exact message -/
theorem feature_message_eq (name text : Bytes) :
    featureUnsupportedFailure name text = userText text
      ++ [84, 104, 101, 32, 102, 101, 97, 116, 117, 114, 101, 32, 34] ++ name
      ++ (render featureFmt [.str []]).drop 13 := by
  simp [featureUnsupportedFailure, featureFmt, render, renderOne]

set_option maxRecDepth 100000 in
/-- `UnexpectedExceptionFailure(test, e)`: `Unexpected exception of type '<type>' was thrown: <what()>`
    — shows the type name and the exception's text, both as given (inputs of the model) -/
theorem unexpectedException_shows_both (typeName what : Bytes) :
    unexpectedException typeName what =
      [85, 110, 101, 120, 112, 101, 99, 116, 101, 100, 32, 101, 120, 99, 101, 112, 116, 105, 111, 110, 32, 111, 102, 32, 116, 121, 112, 101, 32, 39]
      ++ typeName ++ [39, 32, 119, 97, 115, 32, 116, 104, 114, 111, 119, 110, 58, 32] ++ what
    ∧ typeName <:+: unexpectedException typeName what ∧ what <:+: unexpectedException typeName what := by
  have h : unexpectedException typeName what =
      [85, 110, 101, 120, 112, 101, 99, 116, 101, 100, 32, 101, 120, 99, 101, 112, 116, 105, 111, 110, 32, 111, 102, 32, 116, 121, 112, 101, 32, 39]
      ++ typeName ++ [39, 32, 119, 97, 115, 32, 116, 104, 114, 111, 119, 110, 58, 32] ++ what := by
    simp [unexpectedException, excFmt, render, renderOne]
  refine ⟨h, ?_, ?_⟩
  · rw [h]; exact ⟨[85, 110, 101, 120, 112, 101, 99, 116, 101, 100, 32, 101, 120, 99, 101, 112, 116, 105, 111, 110, 32, 111, 102, 32, 116, 121, 112, 101, 32, 39],
      [39, 32, 119, 97, 115, 32, 116, 104, 114, 111, 119, 110, 58, 32] ++ what, by simp only [List.append_assoc]⟩
  · rw [h]; exact ⟨[85, 110, 101, 120, 112, 101, 99, 116, 101, 100, 32, 101, 120, 99, 101, 112, 116, 105, 111, 110, 32, 111, 102, 32, 116, 121, 112, 101, 32, 39]
      ++ typeName ++ [39, 32, 119, 97, 115, 32, 116, 104, 114, 111, 119, 110, 58, 32], [], by simp only [List.append_nil]⟩

set_option maxRecDepth 100000 in
/-- `UnexpectedExceptionFailure(test)` and the message-less `TestFailure`: fixed texts -/
theorem fixed_messages :
    unexpectedExceptionUnknown = [85, 110, 101, 120, 112, 101, 99, 116, 101, 100, 32, 101, 120, 99, 101, 112, 116, 105, 111, 110, 32, 111, 102, 32, 117, 110, 107, 110, 111, 119, 110, 32, 116, 121, 112, 101, 32, 119, 97, 115, 32, 116, 104, 114, 111, 119, 110, 46] ∧
    baseFailureNoMessage = [110, 111, 32, 109, 101, 115, 115, 97, 103, 101] := by
  decide

theorem baseFailure_shows_message (m : Bytes) : baseFailure m = m := rfl

/-! ### the three misuse messages -/

/-- the complete text one misuse report tries to append -/
def misuseText (m : Misuse) : Bytes :=
  m.message ++ allocLocationText m.allocFile m.allocLine m.allocSize m.allocName
  ++ deallocLocationText m.freeFile m.freeLine m.freeName

/-- `reportAllocationDeallocationMismatchFailure` -/
def mismatchMisuse (allocFile : Bytes) (allocLine allocSize : Nat) (allocName freeFile : Bytes) (freeLine : Nat) (freeName : Bytes) : Misuse :=
  { message := msgMismatch, allocFile := allocFile, allocLine := allocLine, allocSize := allocSize, allocName := allocName,
    freeFile := freeFile, freeLine := freeLine, freeName := freeName }

/-- `reportMemoryCorruptionFailure` -/
def corruptionMisuse (allocFile : Bytes) (allocLine allocSize : Nat) (allocName freeFile : Bytes) (freeLine : Nat) (freeName : Bytes) : Misuse :=
  { mismatchMisuse allocFile allocLine allocSize allocName freeFile freeLine freeName with message := msgCorruption }

set_option maxRecDepth 100000 in
/-- exact rendering of a misuse message as a function of (message, allocation file/line/size/allocator
    name, release file/line/allocator name): line numbers go through `(int)` (see `castInt32_*`),
    the size through `%lu`, names and files through `%s` as they are -/
theorem misuseText_eq (m : Misuse) :
    misuseText m = m.message
      ++ [32, 32, 32, 97, 108, 108, 111, 99, 97, 116, 101, 100, 32, 97, 116, 32, 102, 105, 108, 101, 58, 32] ++ m.allocFile
      ++ [32, 108, 105, 110, 101, 58, 32] ++ decInt (castInt32 m.allocLine)
      ++ [32, 115, 105, 122, 101, 58, 32] ++ decNat m.allocSize
      ++ [32, 116, 121, 112, 101, 58, 32] ++ m.allocName ++ [10]
      ++ [32, 32, 32, 100, 101, 97, 108, 108, 111, 99, 97, 116, 101, 100, 32, 97, 116, 32, 102, 105, 108, 101, 58, 32] ++ m.freeFile
      ++ [32, 108, 105, 110, 101, 58, 32] ++ decInt (castInt32 m.freeLine)
      ++ [32, 116, 121, 112, 101, 58, 32] ++ m.freeName ++ [10] := by
  simp [misuseText, allocLocationText, deallocLocationText, allocLocationFmt, deallocLocationFmt, render, renderOne]

set_option maxRecDepth 100000 in
/-- the three kinds: their message lines, and what "non-allocated" reports as the allocation
    (`<unknown>`, line 0, size 0, the null allocator's name) -/
theorem misuse_kinds :
    msgNonAllocated = [68, 101, 97, 108, 108, 111, 99, 97, 116, 105, 110, 103, 32, 110, 111, 110, 45, 97, 108, 108, 111, 99, 97, 116, 101, 100, 32, 109, 101, 109, 111, 114, 121, 10]
    ∧ msgMismatch = [65, 108, 108, 111, 99, 97, 116, 105, 111, 110, 47, 100, 101, 97, 108, 108, 111, 99, 97, 116, 105, 111, 110, 32, 116, 121, 112, 101, 32, 109, 105, 115, 109, 97, 116, 99, 104, 10]
    ∧ msgCorruption = [77, 101, 109, 111, 114, 121, 32, 99, 111, 114, 114, 117, 112, 116, 105, 111, 110, 32, 40, 119, 114, 105, 116, 116, 101, 110, 32, 111, 117, 116, 32, 111, 102, 32, 98, 111, 117, 110, 100, 115, 63, 41, 10]
    ∧ nonAllocatedFile = [60, 117, 110, 107, 110, 111, 119, 110, 62] ∧ nonAllocatedLine = 0 ∧ nonAllocatedSize = 0
    ∧ noLocation = ([60, 117, 110, 107, 110, 111, 119, 110, 62], 0) := by
  decide

/-- `(int) line`: a line number below 2^31 is printed as it is … -/
theorem castInt32_small (n : Nat) (h : n < 2147483648) : castInt32 n = (n : Int) := by
  have h1 : n % 4294967296 = n := Nat.mod_eq_of_lt (by omega)
  simp [castInt32, h1, h]

/-- … one in [2^31, 2^32) comes out negative (`n - 2^32`) … -/
theorem castInt32_wrap (n : Nat) (h1 : 2147483648 ≤ n) (h2 : n < 4294967296) : castInt32 n = (n : Int) - 4294967296 := by
  have hm : n % 4294967296 = n := Nat.mod_eq_of_lt h2
  have : ¬ (n < 2147483648) := by omega
  simp [castInt32, hm, this]

/-- … and only the low 32 bits count (observation about the code, outside the property) -/
theorem castInt32_periodic (n : Nat) : castInt32 (n + 4294967296) = castInt32 n := by
  simp [castInt32, Nat.add_mod_right]

/-- one misuse report appends the part of its text that fits below the write limit — whatever the
    length of the file names — and leaves the buffer invariant intact -/
theorem misuse_bounded (o : OutBuf) (m : Misuse) (h : o.buf.WF) :
    (o.reportFailure m).buf.text = o.buf.text ++ (misuseText m).take (o.buf.limit - o.buf.filled)
    ∧ (o.reportFailure m).buf.WF
    ∧ (o.reportFailure m).buf.text.length ≤ bufferLen - 1 := by
  have e : (o.reportFailure m).buf = o.buf.add (misuseText m) := by
    simp only [OutBuf.reportFailure, misuseText, Buf.add_add, List.append_assoc]
  have hw : (o.reportFailure m).buf.WF := by rw [e]; exact Buf.wf_add _ _ h
  refine ⟨by rw [e, Buf.add_text], hw, ?_⟩
  obtain ⟨h1, _, h3⟩ := hw
  rw [h3]; exact h1

/-- a misuse report on a fresh or cleared buffer whose text fits: the reporter gets the complete text -/
theorem misuse_complete_when_it_fits (o : OutBuf) (m : Misuse) (hf : o.buf.filled = 0) (ht : o.buf.text = [])
    (hfit : (misuseText m).length ≤ o.buf.limit) : (o.reportFailure m).buf.text = misuseText m := by
  have e : (o.reportFailure m).buf = o.buf.add (misuseText m) := by
    simp only [OutBuf.reportFailure, misuseText, Buf.add_add, List.append_assoc]
  rw [e, (Buf.add_fits o.buf (misuseText m) (by omega)).1, ht]; rfl

/-! ### the memory dump and the reads of leaked memory -/

/-- `addMemoryDump` for ANY size and content: the dump is cut at the write limit (and the buffer
    invariant holds; termination in the real array is `history_memory_safe` / `dump_memory_safe`) -/
theorem dump_cut_at_limit (b : Buf) (content : Bytes) (h : b.WF) :
    (b.addMemoryDump content).text = b.text ++ (dumpText content).take (b.limit - b.filled)
    ∧ (b.addMemoryDump content).WF := by
  rw [Buf.addMemoryDump_eq]; exact ⟨Buf.add_text _ _, Buf.wf_add _ _ h⟩

/-- the same on the real array: after the `add` calls of a dump of any size the text is terminated
    at the fill position, the canary is untouched, nothing was stored outside the array -/
theorem dump_memory_safe (mb : MemBuf) (content : Bytes) (h : mb.WF) :
    (((dumpPieces content.length 0 content).map BOp.add).foldl MemBuf.step mb).WF
    ∧ (((dumpPieces content.length 0 content).map BOp.add).foldl MemBuf.step mb).abs = mb.abs.addMemoryDump content := by
  obtain ⟨h1, h2⟩ := mem_run_refines ((dumpPieces content.length 0 content).map BOp.add) mb h
  refine ⟨h1, ?_⟩
  rw [h2, List.foldl_map]; rfl

/-- `addMemoryDump(memory, size)` reads `memory[i]` only for `i < size`: on a block of EXACTLY `size`
    bytes no read is out of bounds, and the pieces are those of the `size` bytes -/
theorem dump_reads_in_bounds (mem : Bytes) :
    dumpPiecesRd mem.length mem.length mem 0 = .ok (dumpPieces mem.length 0 mem) := by
  have := dumpPiecesRd_spec mem.length mem (Nat.le_refl _) mem.length 0
  simpa using this

/-- `report()` is memory-safe under the caller-side contract that every block in the table is
    still allocated (at least `size_` readable bytes): no read outside a block, and the result is the
    abstract report over the blocks' first `size_` bytes -/
theorem report_memory_safe (o : OutBuf) (leaks : List LeakRef) (h : ∀ l ∈ leaks, l.Live) :
    o.reportRd leaks = .ok (o.report (leaks.map LeakRef.toLeak)) := by
  unfold OutBuf.reportRd OutBuf.report
  rw [reportLeaksRd_spec leaks o.start h]

/-- the contract is needed: a block freed behind the detector's back is read by the dump -/
example : (OutBuf.init.reportRd [{ number := 1, size := 1, file := [], line := 0, allocName := [], ptr := [], block := none }]) = .error .oob := by
  rfl

/-! ### after a report without leaks (the lowered limit stays in force) -/

theorem reportFailure_buf (o : OutBuf) (m : Misuse) : (o.reportFailure m).buf = o.buf.add (misuseText m) := by
  simp only [OutBuf.reportFailure, misuseText, Buf.add_add, List.append_assoc]

theorem setWriteLimit_filled (b : Buf) (n : Nat) : (b.setWriteLimit n).filled = b.filled := rfl
theorem setWriteLimit_text (b : Buf) (n : Nat) : (b.setWriteLimit n).text = b.text := rfl

theorem add_two_on_cleared (b : Buf) (s t : Bytes) (L : Nat) (hf : b.filled = 0) (ht : b.text = []) (hl : b.limit = L)
    (hfit : s.length ≤ L) : ((b.add s).add t).text = s ++ t.take (L - s.length) := by
  obtain ⟨a1, a2, a3⟩ := Buf.add_fits b s (by omega)
  rw [Buf.add_text, a1, a2, a3, ht, hf, hl]
  simp only [List.nil_append, Nat.zero_add]

set_option maxRecDepth 100000 in
theorem report_empty_buf (o : OutBuf) : (o.report []).buf = (o.buf.setWriteLimit listLimitArg).add noLeaksText := by
  unfold OutBuf.report OutBuf.stop
  simp only [List.foldl_nil]
  have h0 : o.start.total = 0 := rfl
  simp only [h0, if_true]
  simp only [OutBuf.start, noLeaksText]

set_option maxRecDepth 100000 in
theorem setWriteLimit_listLimit (b : Buf) : (b.setWriteLimit listLimitArg).limit = listLimit := by
  obtain ⟨_, hla, hlc⟩ := reserve_no_wrap
  have : ¬ (listLimit > cap) := by omega
  simp [Buf.setWriteLimit, hla, this]

/-- a misuse message after a zero-leak report on a cleared buffer: it is appended behind the
    no-leaks message, completely if it fits below the (still lowered) listing limit, cut there otherwise -/
theorem misuse_after_empty_report (o : OutBuf) (m : Misuse) (hf : o.buf.filled = 0) (ht : o.buf.text = []) :
    ((o.report []).reportFailure m).buf.text = noLeaksText ++ (misuseText m).take (listLimit - noLeaksText.length)
    ∧ (noLeaksText.length + (misuseText m).length ≤ listLimit →
        ((o.report []).reportFailure m).buf.text = noLeaksText ++ misuseText m) := by
  have key : ((o.report []).reportFailure m).buf.text = noLeaksText ++ (misuseText m).take (listLimit - noLeaksText.length) := by
    rw [reportFailure_buf, report_empty_buf]
    exact add_two_on_cleared _ _ _ _ (by rw [setWriteLimit_filled]; exact hf) (by rw [setWriteLimit_text]; exact ht)
      (setWriteLimit_listLimit _) noLeaks_fits
  refine ⟨key, ?_⟩
  intro hle
  rw [key]
  generalize listLimit = L at hle ⊢
  generalize noLeaksText = s at hle ⊢
  rw [List.take_of_length_le (by omega)]

/-- a report begun on a cleared buffer is the same whatever happened before — in particular after
    a zero-leak report that left the limit lowered, and after misuse messages written under that limit -/
theorem report_after_empty_report (o : OutBuf) (ms : List Misuse) (leaks : List Leak) (hn : leaks.length < 2147483648) :
    ((ms.foldl OutBuf.reportFailure (o.report [])).clear.report leaks).buf.text = reportText leaks :=
  report_total_true_when_cleared _ leaks rfl rfl hn

/-! ## non-vacuity: concrete states that meet the hypotheses -/

/-- the old overrun witness `STRCMP_EQUAL("\\n", "\n")` (equal printable forms): both scans end in bounds -/
example : stringScans id [92, 110] [10] = .ok (0, 2) := by rfl
/-- equal operands: the scans stop at the terminator -/
example : stringScans id [97, 98, 99] [97, 98, 99] = .ok (3, 3) := by rfl
example : NulFree [10] ∧ NulFree [97, 98, 99] := by decide
example : scanBin 4 3 [1, 2, 3] [1, 2, 3] 0 = .ok 3 := by rfl

def sampleLeak : Leak :=
  { number := 7, size := 3, file := [97, 46, 99], line := 12, allocName := [109, 97, 108, 108, 111, 99],
    ptr := [48, 120, 49], content := [1, 2, 3] }

/-- a report begun on a cleared buffer with one `malloc` leak: hypotheses of
    `report_total_true_when_cleared` hold and the text is the complete one -/
example : (OutBuf.init.report [sampleLeak]).buf.text = reportText [sampleLeak] :=
  report_total_true_when_cleared OutBuf.init [sampleLeak] rfl rfl (by decide)

set_option maxRecDepth 100000 in
example : anyMalloc [sampleLeak] = true ∧ (fullListing [sampleLeak]).length < listLimit := by decide

def bigLeak : Leak := { sampleLeak with file := List.replicate 3700 97 }

set_option maxRecDepth 1000000 in
/-- a listing that does not fit: entries are dropped, the notice is due -/
example : listLimit ≤ (fullListing [bigLeak]).length := by decide

/-- a history in which the limit is below the fill position (the state the repaired `add` must survive) -/
example : (OutBuf.init.run [Op.misuse { message := longName, allocFile := [], allocLine := 0, allocSize := 0, allocName := [],
                                        freeFile := [], freeLine := 0, freeName := [] }, Op.start]).buf.WF :=
  wf_run _ _ Buf.wf_init


/-! ## (T) the regenerated code

`Gen/DiagnosticsBuffer.lean` is produced on every run by `translate/extract_diagbuf.py` from the clang AST of
`src/CppUTest/MemoryLeakDetector.cpp`.  The theorems of this section state that the regenerated definitions ARE
the hand-written model the theorems above speak about, and re-prove the buffer bounds directly on the regenerated
`size_t` / `int` arithmetic (for every value `vsnprintf` can return and every 64-bit limit). -/

section Regenerated
open Gen.DiagBuf Diag.Code

/-- the two counters of a model buffer as the `size_t` members -/
def Buf.toSt (b : Buf) : St := { filled := BitVec.ofNat 64 b.filled, limit := BitVec.ofNat 64 b.limit }

theorem bv_ule (a b : Nat) (ha : a < 2 ^ 64) (hb : b < 2 ^ 64) :
    BitVec.ule (BitVec.ofNat 64 a) (BitVec.ofNat 64 b) = decide (a ≤ b) := by
  simp [BitVec.ule, BitVec.toNat_ofNat, Nat.mod_eq_of_lt ha, Nat.mod_eq_of_lt hb]

theorem bv_ult (a b : Nat) (ha : a < 2 ^ 64) (hb : b < 2 ^ 64) :
    BitVec.ult (BitVec.ofNat 64 a) (BitVec.ofNat 64 b) = decide (a < b) := by
  simp [BitVec.ult, BitVec.toNat_ofNat, Nat.mod_eq_of_lt ha, Nat.mod_eq_of_lt hb]

theorem bv_sub (a b : Nat) (h : b ≤ a) (ha : a < 2 ^ 64) :
    BitVec.ofNat 64 a - BitVec.ofNat 64 b = BitVec.ofNat 64 (a - b) := by
  apply BitVec.eq_of_toNat_eq
  simp only [BitVec.toNat_sub, BitVec.toNat_ofNat]
  rw [Nat.mod_eq_of_lt ha, Nat.mod_eq_of_lt (show b < 2 ^ 64 by omega), Nat.mod_eq_of_lt (show a - b < 2 ^ 64 by omega)]
  omega

theorem bv_add (a b : Nat) : BitVec.ofNat 64 a + BitVec.ofNat 64 b = BitVec.ofNat 64 (a + b) := by
  apply BitVec.eq_of_toNat_eq
  simp [BitVec.toNat_add, BitVec.toNat_ofNat]

theorem bv_count_ext (n : Nat) (h : n < 2 ^ 31) : (BitVec.ofNat 32 n).signExtend 64 = BitVec.ofNat 64 n := by
  have hm : (BitVec.ofNat 32 n).msb = false := by
    simp [BitVec.msb_eq_decide, BitVec.toNat_ofNat]; omega
  rw [BitVec.signExtend_eq_setWidth_of_msb_false hm]
  apply BitVec.eq_of_toNat_eq
  simp [BitVec.toNat_setWidth, BitVec.toNat_ofNat]; omega

theorem bv_count_pos (n : Nat) (h : n < 2 ^ 31) : BitVec.slt (0#32) (BitVec.ofNat 32 n) = decide (0 < n) := by
  have h2 : (BitVec.ofNat 32 n).toInt = (n : Int) := by
    rw [BitVec.toInt_eq_toNat_of_lt] <;> simp [BitVec.toNat_ofNat] <;> omega
  simp [BitVec.slt_eq_decide, h2]

/-- `SIMPLE_STRING_BUFFER_LEN-1` as the code computes it (`int` arithmetic, converted to `size_t`) -/
theorem capBV : (((BitVec.ofNat 32 bufferLen) - (1#32)).signExtend 64) = BitVec.ofNat 64 cap := by decide

theorem one_ext : ((1#32).signExtend 64) = 1#64 := by decide

/-- the regenerated constructor: counters `(0, 4095)`, `buffer_[0] = 0`, canary initialised -/
theorem gen_ctor_eq_model :
    ctor = (Buf.init.toSt, [Eff.storeBuf (0#32) (0#8), Eff.call "verifInitCanary"]) := by decide

/-- the regenerated `clear` is `Buf.clear` on the counters and stores the terminator at index 0 -/
theorem gen_clear_eq_model (b : Buf) : Gen.DiagBuf.clear b.toSt = (b.clear.toSt, [Eff.storeBuf (0#32) (0#8)]) := by
  have : ((0#32).signExtend 64) = BitVec.ofNat 64 0 := by decide
  simp [Gen.DiagBuf.clear, Buf.toSt, Buf.clear, this]

/-- the regenerated `resetWriteLimit` is `Buf.resetWriteLimit` -/
theorem gen_resetWriteLimit_eq_model (b : Buf) : resetWriteLimit b.toSt = (b.resetWriteLimit.toSt, []) := by
  simp [resetWriteLimit, Buf.toSt, Buf.resetWriteLimit, capBV]

/-- the regenerated `setWriteLimit` is `Buf.setWriteLimit`, for every `size_t` argument -/
theorem gen_setWriteLimit_eq_model (b : Buf) (n : Nat) (hn : n < 2 ^ 64) :
    setWriteLimit b.toSt (BitVec.ofNat 64 n) = ((b.setWriteLimit n).toSt, []) := by
  simp only [setWriteLimit, Buf.toSt, Buf.setWriteLimit, capBV]
  have hc : cap = 4095 := by decide
  have hlt : (BitVec.ofNat 64 cap).ult (BitVec.ofNat 64 n) = decide (n > cap) := by
    simp [BitVec.ult, BitVec.toNat_ofNat, hc, Nat.mod_eq_of_lt hn]
  rw [hlt]
  by_cases h : n > cap <;> simp [h]

/-- the regenerated `reachedItsCapacity` is `Buf.reached` -/
theorem gen_reached_eq_model (b : Buf) (hf : b.filled < 2 ^ 64) (hl : b.limit < 2 ^ 64) :
    reachedItsCapacity b.toSt = b.reached := by
  simp [reachedItsCapacity, Buf.toSt, Buf.reached, bv_ule _ _ hl hf]

/-- The regenerated `add` is `Buf.add` on the counters when `vsnprintf` returns the length of the formatted text,
    and it calls `vsnprintf(buffer_ + filled, limit - filled + 1, …)` — the call `MemBuf.add` models — exactly when
    the fill position is below the limit. -/
theorem gen_add_eq_model (b : Buf) (s : Bytes) (hf : b.filled < 2 ^ 63) (hl : b.limit < 2 ^ 63) (hs : s.length < 2 ^ 31) :
    Gen.DiagBuf.add b.toSt (BitVec.ofNat 32 s.length) =
      ((b.add s).toSt, if b.filled ≥ b.limit then []
                       else [Eff.vsnprintf (BitVec.ofNat 64 b.filled) (BitVec.ofNat 64 (b.limit - b.filled + 1))]) := by
  have e1 : ((1#32).signExtend 64) = BitVec.ofNat 64 1 := by decide
  simp only [Gen.DiagBuf.add, Buf.toSt, Buf.add, e1, bv_count_ext _ hs, bv_count_pos _ hs, bv_add]
  rw [bv_ule _ _ (by omega) (by omega)]
  by_cases h : b.filled ≥ b.limit
  · simp [h]
  · have h' : ¬ b.limit ≤ b.filled := h
    simp only [h', decide_false, Bool.false_eq_true, if_false]
    rw [bv_sub _ _ (by omega) (by omega), bv_add]
    by_cases h0 : 0 < s.length
    · simp only [h0, decide_true, if_true]
      rw [bv_ult _ _ (by omega) (by omega)]
      by_cases h2 : b.filled + s.length > b.limit
      · simp [h2]
      · simp [h2]
    · have : s.length = 0 := by omega
      simp only [this, Nat.lt_irrefl, decide_false, Bool.false_eq_true, if_false, Nat.add_zero]
      rw [bv_ult _ _ (by omega) (by omega)]
      have h3 : ¬ b.limit < b.filled := by omega
      simp [h3]

/-- `gen_add_safe`: the bounds of `add`, proved on the regenerated arithmetic itself, for EVERY `int` that
    `vsnprintf` may return (negative = error, or up to 2^31-1) and every state with both counters at most 4095:
    the limit is unchanged, the fill position never decreases, never passes `max filled limit`, stays at most 4095,
    is unchanged when the result is not positive; and the one `vsnprintf` call gets `buffer_ + filled` and a size
    with `filled + size ≤ 4096`, so whatever it writes (at most `size` bytes) stays inside `buffer_`. -/
theorem gen_add_safe (st : St) (count : BitVec 32) (hf : st.filled.toNat ≤ cap) (hl : st.limit.toNat ≤ cap) :
    (Gen.DiagBuf.add st count).1.limit = st.limit
    ∧ (Gen.DiagBuf.add st count).1.filled.toNat ≤ cap
    ∧ st.filled.toNat ≤ (Gen.DiagBuf.add st count).1.filled.toNat
    ∧ (Gen.DiagBuf.add st count).1.filled.toNat ≤ max st.filled.toNat st.limit.toNat
    ∧ (BitVec.sle count 0#32 → (Gen.DiagBuf.add st count).1.filled = st.filled)
    ∧ ∀ off size, Eff.vsnprintf off size ∈ (Gen.DiagBuf.add st count).2 →
        off = st.filled ∧ st.filled.toNat < st.limit.toNat ∧ size.toNat = st.limit.toNat - st.filled.toNat + 1
        ∧ off.toNat + size.toNat ≤ bufferLen := by
  have hc : cap = 4095 := by decide
  have hb : bufferLen = 4096 := by decide
  rw [hc] at hf hl
  obtain ⟨f, l⟩ := st
  simp only at hf hl
  simp only [Gen.DiagBuf.add, one_ext]
  by_cases h1 : BitVec.ule l f
  · simp only [h1, if_true]
    have : l.toNat ≤ f.toNat := by simpa [BitVec.ule] using h1
    simp; omega
  · simp only [h1, Bool.false_eq_true, if_false]
    have h1' : f.toNat < l.toNat := by
      have : ¬ l.toNat ≤ f.toNat := by simpa [BitVec.ule] using h1
      omega
    have hsub : (l - f).toNat = l.toNat - f.toNat := by
      rw [BitVec.toNat_sub]; omega
    by_cases h2 : BitVec.slt (0#32) count
    · have hpos : 0 < count.toInt := by simpa [BitVec.slt_eq_decide] using h2
      have hmsb : count.msb = false := by
        rcases hm : count.msb with _ | _
        · rfl
        · have := BitVec.toInt_neg_of_msb_true hm; omega
      have hext : (count.signExtend 64).toNat = count.toNat := by
        rw [BitVec.signExtend_eq_setWidth_of_msb_false hmsb]; simp [BitVec.toNat_setWidth]; omega
      have hcn : count.toNat < 2 ^ 31 := by
        have := BitVec.msb_eq_decide count; simp [hmsb] at this; omega
      have hadd : (f + count.signExtend 64).toNat = f.toNat + count.toNat := by
        rw [BitVec.toNat_add, hext]; omega
      have hsle : ¬ (BitVec.sle count 0#32) := by
        simp [BitVec.sle_eq_decide]; omega
      simp only [h2, if_true]
      by_cases h3 : BitVec.ult l (f + count.signExtend 64)
      · simp only [h3, if_true]
        refine ⟨trivial, by omega, by omega, by omega, fun h => absurd h hsle, ?_⟩
        intro off size hmem
        simp only [List.mem_singleton, Eff.vsnprintf.injEq] at hmem
        obtain ⟨rfl, rfl⟩ := hmem
        refine ⟨rfl, h1', ?_, ?_⟩ <;> rw [BitVec.toNat_add, hsub] <;> simp <;> omega
      · have h3' : ¬ l.toNat < f.toNat + count.toNat := by
          have : ¬ l.toNat < (f + count.signExtend 64).toNat := by simpa [BitVec.ult] using h3
          rwa [hadd] at this
        simp only [h3, Bool.false_eq_true, if_false]
        refine ⟨trivial, by omega, by omega, by omega, fun h => absurd h hsle, ?_⟩
        intro off size hmem
        simp only [List.mem_singleton, Eff.vsnprintf.injEq] at hmem
        obtain ⟨rfl, rfl⟩ := hmem
        refine ⟨rfl, h1', ?_, ?_⟩ <;> rw [BitVec.toNat_add, hsub] <;> simp <;> omega
    · simp only [h2, Bool.false_eq_true, if_false]
      have h3 : ¬ BitVec.ult l f := by simp [BitVec.ult]; omega
      simp only [h3, Bool.false_eq_true, if_false]
      refine ⟨trivial, by omega, by omega, by omega, fun _ => trivial, ?_⟩
      intro off size hmem
      simp only [List.mem_singleton, Eff.vsnprintf.injEq] at hmem
      obtain ⟨rfl, rfl⟩ := hmem
      refine ⟨rfl, h1', ?_, ?_⟩ <;> rw [BitVec.toNat_add, hsub] <;> simp <;> omega

/-- an operation on a standalone buffer with the raw machine values: the `int` that `vsnprintf` returned, the
    `size_t` limit -/
inductive GOp where
  | add (count : BitVec 32)
  | setLimit (n : BitVec 64)
  | resetLimit
  | clear
deriving Repr, DecidableEq

/-- one operation executed by the regenerated functions; the effects are accumulated -/
def gstep (r : St × List Eff) : GOp → St × List Eff
  | .add c => ((Gen.DiagBuf.add r.1 c).1, r.2 ++ (Gen.DiagBuf.add r.1 c).2)
  | .setLimit n => ((setWriteLimit r.1 n).1, r.2 ++ (setWriteLimit r.1 n).2)
  | .resetLimit => ((resetWriteLimit r.1).1, r.2 ++ (resetWriteLimit r.1).2)
  | .clear => ((Gen.DiagBuf.clear r.1).1, r.2 ++ (Gen.DiagBuf.clear r.1).2)

/-- every store and every `vsnprintf` window recorded so far lies inside `buffer_` -/
def EffsInside (es : List Eff) : Prop :=
  ∀ e ∈ es, match e with
    | .vsnprintf off size => off.toNat + size.toNat ≤ bufferLen
    | .storeBuf idx _ => idx.toNat < bufferLen
    | .call _ => True

theorem gstep_safe (r : St × List Eff) (op : GOp)
    (h : r.1.filled.toNat ≤ cap ∧ r.1.limit.toNat ≤ cap ∧ EffsInside r.2) :
    (gstep r op).1.filled.toNat ≤ cap ∧ (gstep r op).1.limit.toNat ≤ cap ∧ EffsInside (gstep r op).2 := by
  obtain ⟨hf, hl, he⟩ := h
  have hc : cap = 4095 := by decide
  have hb : bufferLen = 4096 := by decide
  cases op with
  | add c =>
    obtain ⟨g1, g2, _, _, _, g6⟩ := gen_add_safe r.1 c hf hl
    refine ⟨g2, by simp only [gstep]; rw [g1]; exact hl, ?_⟩
    intro e hmem
    simp only [gstep, List.mem_append] at hmem
    rcases hmem with hmem | hmem
    · exact he e hmem
    · cases e with
      | vsnprintf off size => exact (g6 off size hmem).2.2.2
      | storeBuf idx v =>
        exfalso
        simp only [Gen.DiagBuf.add] at hmem
        split at hmem <;> simp at hmem
      | call _ => trivial
  | setLimit n =>
    refine ⟨by simpa [gstep, setWriteLimit] using hf, ?_, ?_⟩
    · simp only [gstep, setWriteLimit, capBV]
      split
      · simp [BitVec.toNat_ofNat, hc]
      · rename_i hlt
        have : ¬ (BitVec.ofNat 64 cap).toNat < n.toNat := by simpa [BitVec.ult] using hlt
        simp [BitVec.toNat_ofNat, hc] at this; omega
    · intro e hmem; simp only [gstep, setWriteLimit, List.append_nil] at hmem; exact he e hmem
  | resetLimit =>
    refine ⟨by simpa [gstep, resetWriteLimit] using hf, ?_, ?_⟩
    · simp [gstep, resetWriteLimit, capBV, BitVec.toNat_ofNat, hc]
    · intro e hmem; simp only [gstep, resetWriteLimit, List.append_nil] at hmem; exact he e hmem
  | clear =>
    refine ⟨by simp [gstep, Gen.DiagBuf.clear], by simpa [gstep, Gen.DiagBuf.clear] using hl, ?_⟩
    intro e hmem
    simp only [gstep, Gen.DiagBuf.clear, List.mem_append, List.mem_singleton] at hmem
    rcases hmem with hmem | hmem
    · exact he e hmem
    · subst hmem; simp [hb]

/-- `regenerated_history_memory_safe`: for EVERY history of `add` (any `int` result of `vsnprintf`),
    `setWriteLimit` (any 64-bit value), `resetWriteLimit` and `clear` on a freshly constructed buffer, executed by
    the functions regenerated from the source: both counters stay at most 4095, and every store to `buffer_` and
    every window handed to `vsnprintf` lies inside the 4096-byte array. -/
theorem regenerated_history_memory_safe (ops : List GOp) :
    (ops.foldl gstep ctor).1.filled.toNat ≤ cap ∧ (ops.foldl gstep ctor).1.limit.toNat ≤ cap
    ∧ EffsInside (ops.foldl gstep ctor).2 := by
  have key : ∀ (ops : List GOp) (r : St × List Eff),
      (r.1.filled.toNat ≤ cap ∧ r.1.limit.toNat ≤ cap ∧ EffsInside r.2) →
      ((ops.foldl gstep r).1.filled.toNat ≤ cap ∧ (ops.foldl gstep r).1.limit.toNat ≤ cap ∧ EffsInside (ops.foldl gstep r).2) := by
    intro ops
    induction ops with
    | nil => intro r h; exact h
    | cons op ops ih => intro r h; exact ih (gstep r op) (gstep_safe r op h)
  apply key
  rw [gen_ctor_eq_model]
  refine ⟨by decide, by decide, ?_⟩
  intro e hmem
  simp only [List.mem_cons, List.mem_nil_iff, or_false] at hmem
  rcases hmem with rfl | rfl
  · decide
  · trivial

/-- the machine-level operation a model operation stands for -/
def BOp.toG : BOp → GOp
  | .add s => .add (BitVec.ofNat 32 s.length)
  | .setLimit n => .setLimit (BitVec.ofNat 64 n)
  | .resetLimit => .resetLimit
  | .clear => .clear

/-- formatted pieces shorter than 2^31 bytes, limits that are `size_t` values -/
def BOp.Small : BOp → Prop
  | .add s => s.length < 2 ^ 31
  | .setLimit n => n < 2 ^ 64
  | _ => True

theorem Buf.wf_step (b : Buf) (op : BOp) (h : b.WF) : (b.step op).WF := by
  cases op with
  | add s => exact Buf.wf_add b s h
  | setLimit n => exact Buf.wf_setWriteLimit b n h
  | resetLimit => exact Buf.wf_resetWriteLimit b h
  | clear => exact Buf.wf_clear b h

theorem gstep_tracks_model (b : Buf) (es : List Eff) (op : BOp) (h : b.WF) (hs : op.Small) :
    (gstep (b.toSt, es) op.toG).1 = (b.step op).toSt := by
  have hc : cap = 4095 := by decide
  obtain ⟨h1, h2, _⟩ := h
  cases op with
  | add s => simp only [gstep, BOp.toG, Buf.step]; rw [gen_add_eq_model b s (by omega) (by omega) hs]
  | setLimit n => simp only [gstep, BOp.toG, Buf.step]; rw [gen_setWriteLimit_eq_model b n hs]
  | resetLimit => simp only [gstep, BOp.toG, Buf.step]; rw [gen_resetWriteLimit_eq_model]
  | clear => simp only [gstep, BOp.toG, Buf.step]; rw [gen_clear_eq_model]

/-- `regenerated_counters_track_model`: along every history the counters computed by the regenerated functions are
    the counters of the hand-written buffer model (`Buf.step`), i.e. the model the theorems of section (B) are about
    is what the source says at check time. -/
theorem regenerated_counters_track_model (ops : List BOp) (hs : ∀ op ∈ ops, op.Small) :
    ((ops.map BOp.toG).foldl gstep ctor).1 = (ops.foldl Buf.step Buf.init).toSt := by
  have key : ∀ (ops : List BOp) (b : Buf) (es : List Eff), b.WF → (∀ op ∈ ops, op.Small) →
      ((ops.map BOp.toG).foldl gstep (b.toSt, es)).1 = (ops.foldl Buf.step b).toSt := by
    intro ops
    induction ops with
    | nil => intro b es _ _; rfl
    | cons op ops ih =>
      intro b es hw hsm
      simp only [List.map_cons, List.foldl_cons]
      have h1 := gstep_tracks_model b es op hw (hsm op (by simp))
      have : gstep (b.toSt, es) op.toG = ((b.step op).toSt, (gstep (b.toSt, es) op.toG).2) := by
        rw [← h1]
      rw [this]
      exact ih (b.step op) _ (Buf.wf_step b op hw) (fun o ho => hsm o (by simp [ho]))
  rw [gen_ctor_eq_model]
  exact key ops Buf.init _ Buf.wf_init hs

/-! ### the report builder's bodies -/

set_option maxRecDepth 100000 in
/-- the limit argument computed by the regenerated `size_t` arithmetic of `startMemoryLeakReporting` (with the
    `sizeof`s clang computed) is the one the model derives from the regenerated macro texts, does not wrap, and leaves
    exactly the footer reserve -/
theorem startLimitArg_eq : startLimitArg.toNat = listLimitArg ∧ startLimitArg.toNat = bufferLen - footerSizeWithMallocWarning := by
  decide

set_option maxRecDepth 100000 in
/-- the three misuse entry points forward their message and exactly these arguments to `reportFailure` -/
theorem misuse_forwarding :
    nonAllocatedArgs = (msgNonAllocated, ["lit:<unknown>", "(unsigned long)int:0", "(unsigned long)int:0", "defaultAllocator()",
                                          "freeFile", "freeLine", "freeAllocator", "reporter"])
    ∧ mismatchArgs = (msgMismatch, ["node.file_", "node.line_", "node.size_", "node.allocator_",
                                    "freeFile", "freeLineNumber", "freeAllocator", "reporter"])
    ∧ corruptionArgs = (msgCorruption, ["node.file_", "node.line_", "node.size_", "node.allocator_",
                                        "freeFile", "freeLineNumber", "freeAllocator", "reporter"]) := by
  refine ⟨rfl, rfl, rfl⟩

set_option maxRecDepth 100000
/-- running the regenerated body of `stopMemoryLeakReporting` IS `OutBuf.stop` (proved by executing the regenerated
    list, whatever the order of its independent statements) -/
theorem gen_stop_eq_model (env : Env) (o : OutBuf) : (run env o stopMemoryLeakReporting).o = o.stop := by
  unfold OutBuf.stop stopTail stopFooter
  by_cases h0 : o.total = 0
  · simp [stopMemoryLeakReporting, run, runStmt, stepSimple, runSimple, evalCond, call, h0, noLeaksFmt]
  · by_cases hr : o.buf.reached <;> by_cases hm : o.mallocWarn <;>
      simp [stopMemoryLeakReporting, run, runStmt, stepSimple, runSimple, evalCond, call, word, h0, hr, hm, footerLine, tooMuchText,
            mallocWarningText, Buf.resetWriteLimit, tooMuchFmt, footerFmt, footerText, mallocWarningFmt]

/-- running the regenerated body of `reportMemoryLeak` IS `OutBuf.reportLeak` -/
theorem gen_reportLeak_eq_model (env : Env) (o : OutBuf) : (run env o reportMemoryLeak).o = o.reportLeak env.leak := by
  unfold OutBuf.reportLeak
  by_cases h0 : o.total = 0 <;> by_cases hn : env.leak.allocName == mallocName <;> by_cases hm : o.mallocWarn <;>
    simp [reportMemoryLeak, run, runStmt, stepSimple, runSimple, evalCond, call, word, h0, hn, hm, leakText, headerText, headerFmt, leakFmt] <;>
    simp_all [mallocName]

/-- running the regenerated body of `reportFailure` IS `OutBuf.reportFailure`, and the text handed to the reporter
    is the buffer's text afterwards -/
theorem gen_reportFailure_eq_model (env : Env) (o : OutBuf) :
    (run env o reportFailure).o = o.reportFailure env.misuse
    ∧ (run env o reportFailure).failed = some (o.reportFailure env.misuse).buf.text := by
  simp [reportFailure, run, runStmt, stepSimple, runSimple, call, word, OutBuf.reportFailure, allocLocationText, deallocLocationText,
        render, renderOne, allocLocationFmt, deallocLocationFmt]

/-- running the regenerated body of `startMemoryLeakReporting` IS `OutBuf.start` -/
theorem gen_start_eq_model (env : Env) (o : OutBuf) : (run env o startMemoryLeakReporting).o = o.start := by
  simp [startMemoryLeakReporting, run, runStmt, stepSimple, runSimple, call, OutBuf.start, startLimitArg_eq.1]

theorem gen_obClear_eq_model (env : Env) (o : OutBuf) : (run env o obClear).o = o.clear := by
  simp [obClear, run, runStmt, stepSimple, runSimple, call, OutBuf.clear]

/-- one operation of a history executed by the regenerated bodies -/
def codeStep (o : OutBuf) : Op → OutBuf
  | .clear => (run default o obClear).o
  | .start => (run default o startMemoryLeakReporting).o
  | .leak l => (run { leak := l, misuse := default } o reportMemoryLeak).o
  | .stop => (run default o stopMemoryLeakReporting).o
  | .misuse m => (run { leak := default, misuse := m } o reportFailure).o

theorem codeStep_eq_model (o : OutBuf) (op : Op) : codeStep o op = o.step op := by
  cases op with
  | clear => exact gen_obClear_eq_model _ o
  | start => exact gen_start_eq_model _ o
  | leak l => exact gen_reportLeak_eq_model _ o
  | stop => exact gen_stop_eq_model _ o
  | misuse m => exact (gen_reportFailure_eq_model _ o).1

/-- `regenerated_run_eq_model`: a whole history executed by the regenerated bodies is the model's run -/
theorem regenerated_run_eq_model (ops : List Op) (o : OutBuf) : ops.foldl codeStep o = o.run ops := by
  have : codeStep = OutBuf.step := by funext o op; exact codeStep_eq_model o op
  rw [this]; rfl

/-- `buffer_invariant`, `history_memory_safe` stated for the regenerated code: for every history executed by the
    statement lists regenerated from the source, the fill position and limit stay at most 4095, the text has
    exactly `filled` bytes, and the real array stays terminated with the canary untouched. -/
theorem buffer_invariant_regenerated (garbage : Bytes) (ops : List Op) :
    (ops.foldl codeStep OutBuf.init).buf.filled ≤ bufferLen - 1
    ∧ (ops.foldl codeStep OutBuf.init).buf.limit ≤ bufferLen - 1
    ∧ (ops.foldl codeStep OutBuf.init).buf.text.length = (ops.foldl codeStep OutBuf.init).buf.filled
    ∧ ∃ mb : MemBuf, mb.abs = (ops.foldl codeStep OutBuf.init).buf ∧ mb.mem[mb.filled]? = some 0 ∧ mb.filled < bufferLen
        ∧ mb.mem.drop bufferLen = canary ∧ mb.overrun = false := by
  rw [regenerated_run_eq_model]
  obtain ⟨h1, h2, h3⟩ := buffer_invariant ops
  exact ⟨h1, h2, h3, history_memory_safe garbage ops⟩

/-- `report_total_true_when_cleared` / `notice_iff_entries_dropped` for the regenerated code: the report the
    regenerated bodies assemble on a cleared buffer is the listing cut at the limit, the notice exactly when the
    listing reached the limit, the complete true total, the malloc note when due. -/
theorem report_total_true_regenerated (o : OutBuf) (leaks : List Leak)
    (hf : o.buf.filled = 0) (ht : o.buf.text = []) (hn : leaks.length < 2147483648) :
    (([Op.start] ++ leaks.map Op.leak ++ [Op.stop]).foldl codeStep o).buf.text = reportText leaks := by
  rw [regenerated_run_eq_model, ← report_is_run]
  exact report_total_true_when_cleared o leaks hf ht hn

/-- non-vacuity: a history with a negative `vsnprintf` result, a huge limit and a result far larger than the buffer -/
example : (([GOp.add (BitVec.ofNat 32 100), .add (-1#32), .setLimit (BitVec.ofNat 64 (2 ^ 64 - 1)), .add (BitVec.ofNat 32 2147483647),
            .setLimit 5#64, .add 7#32, .clear].foldl gstep ctor).1) = { filled := 0#64, limit := 5#64 } := by decide
example : (([GOp.add (BitVec.ofNat 32 100), .add (-1#32), .add (BitVec.ofNat 32 2147483647)].foldl gstep ctor).1).filled = 4095#64 := by decide
example : BOp.Small (.add [1, 2, 3]) ∧ BOp.Small (.setLimit 4096) := by constructor <;> simp [BOp.Small]
example : (run default OutBuf.init stopMemoryLeakReporting).done = true := by decide

end Regenerated


/-! ### the first-difference scans (regenerated from the clang AST of TestFailure.cpp) -/

section RegeneratedScans
open Gen.DiagFail Diag.Code

theorem sext_beq (x y : BitVec 8) : ((x.signExtend 32) == (y.signExtend 32)) = (x == y) := by
  by_cases h : x = y
  · subst h; simp
  · have : x.signExtend 32 ≠ y.signExtend 32 := by
      intro he
      apply h
      apply BitVec.eq_of_toInt_eq
      have h1 := BitVec.toInt_signExtend_of_le (x := x) (v := 32) (by omega)
      have h2 := BitVec.toInt_signExtend_of_le (x := y) (v := 32) (by omega)
      rw [← h1, ← h2, he]
    rw [beq_eq_false_iff_ne.mpr this, beq_eq_false_iff_ne.mpr h]

theorem zext_beq (x y : BitVec 8) : ((x.setWidth 32) == (y.setWidth 32)) = (x == y) := by
  by_cases h : x = y
  · subst h; simp
  · have : x.setWidth 32 ≠ y.setWidth 32 := by
      intro he
      apply h
      apply BitVec.eq_of_toNat_eq
      have h1 := BitVec.toNat_setWidth_of_le (b := x) (w' := 32) (by omega)
      have h2 := BitVec.toNat_setWidth_of_le (b := y) (w' := 32) (by omega)
      rw [← h1, ← h2, he]
    rw [beq_eq_false_iff_ne.mpr this, beq_eq_false_iff_ne.mpr h]

theorem sext_bne (x y : BitVec 8) : ((x.signExtend 32) != (y.signExtend 32)) = (x != y) := by
  simp only [bne, sext_beq]

/-- `regenerated_scan_conditions`: the loop conditions of the six string scans, as clang typed them (chars promoted
    to `int`), are exactly "the bytes agree (after `ToLower` in the no-case class) and the byte of the ACTUAL string
    is not the terminator" — the condition `Diag.scan` is written with. -/
theorem regenerated_scan_conditions (x y : UInt8) :
    condOf stringEqualRawCond x y = decide (id x = id y ∧ x ≠ 0)
    ∧ condOf stringEqualPrintableCond x y = decide (id x = id y ∧ x ≠ 0)
    ∧ condOf checkEqualRawCond x y = decide (id x = id y ∧ x ≠ 0)
    ∧ condOf checkEqualPrintableCond x y = decide (id x = id y ∧ x ≠ 0)
    ∧ condOf stringEqualNoCaseRawCond x y = decide (toLower x = toLower y ∧ x ≠ 0)
    ∧ condOf stringEqualNoCasePrintableCond x y = decide (toLower x = toLower y ∧ x ≠ 0) := by
  refine ⟨?_, ?_, ?_, ?_, ?_, ?_⟩
  · simp only [condOf, stringEqualRawCond, sext_beq, sext_bne, id]
    by_cases h1 : x = y <;> by_cases h2 : x = 0 <;> simp_all [UInt8.eq_iff_toBitVec_eq]
  · simp only [condOf, stringEqualPrintableCond, sext_beq, sext_bne, id]
    by_cases h1 : x = y <;> by_cases h2 : x = 0 <;> simp_all [UInt8.eq_iff_toBitVec_eq]
  · simp only [condOf, checkEqualRawCond, sext_beq, sext_bne, id]
    by_cases h1 : x = y <;> by_cases h2 : x = 0 <;> simp_all [UInt8.eq_iff_toBitVec_eq]
  · simp only [condOf, checkEqualPrintableCond, sext_beq, sext_bne, id]
    by_cases h1 : x = y <;> by_cases h2 : x = 0 <;> simp_all [UInt8.eq_iff_toBitVec_eq]
  · simp only [condOf, stringEqualNoCaseRawCond, sext_beq, sext_bne, lowerBV]
    by_cases h1 : toLower x = toLower y <;> by_cases h2 : x = 0 <;> simp_all [UInt8.eq_iff_toBitVec_eq]
  · simp only [condOf, stringEqualNoCasePrintableCond, sext_beq, sext_bne, lowerBV]
    by_cases h1 : toLower x = toLower y <;> by_cases h2 : x = 0 <;> simp_all [UInt8.eq_iff_toBitVec_eq]

/-- the regenerated condition of the binary scan: index below `size` first, then the two bytes equal -/
theorem regenerated_binary_condition (x y : UInt8) (i size : Nat) (hi : i < 2 ^ 64) (hs : size < 2 ^ 64) :
    binaryEqualCond x.toBitVec y.toBitVec (BitVec.ofNat 64 i) (BitVec.ofNat 64 size) = (decide (i < size) && decide (x = y)) := by
  simp only [binaryEqualCond, zext_beq]
  have : BitVec.ult (BitVec.ofNat 64 i) (BitVec.ofNat 64 size) = decide (i < size) := by
    simp [BitVec.ult, BitVec.toNat_ofNat, Nat.mod_eq_of_lt hi, Nat.mod_eq_of_lt hs]
  rw [this]
  by_cases h : x = y <;> simp_all [UInt8.eq_iff_toBitVec_eq]

/-- the window offset of the binary class, `failStart * 3 + 1` in `size_t` arithmetic, does not wrap for any array
    that fits in memory, and the reported position is the scan result itself -/
theorem regenerated_binary_offset (k : Nat) (hk : k * 3 + 1 < 2 ^ 64) :
    (binaryEqualOffset (BitVec.ofNat 64 k)).toNat = k * 3 + 1 ∧ (binaryEqualReported (BitVec.ofNat 64 k)).toNat = k := by
  have e3 : ((3#32).signExtend 64) = 3#64 := by decide
  have e1 : ((1#32).signExtend 64) = 1#64 := by decide
  simp only [binaryEqualOffset, binaryEqualReported, e3, e1, BitVec.toNat_add, BitVec.toNat_mul, BitVec.toNat_ofNat]
  constructor
  · rw [Nat.mod_eq_of_lt (show k < 2 ^ 64 by omega)]; simp; omega
  · omega

/-- which strings each scan reads (`x` = the one whose terminator ends the scan), which string the marker window is
    cut from, and which index is the window offset / the reported position: as the model has them; and there are
    exactly seven loops in the failure constructors -/
theorem regenerated_scan_wiring :
    stringEqualRawScan = ⟨.actual, .expected⟩ ∧ stringEqualPrintableScan = ⟨.printableActual, .printableExpected⟩
    ∧ stringEqualNoCaseRawScan = ⟨.actual, .expected⟩ ∧ stringEqualNoCasePrintableScan = ⟨.printableActual, .printableExpected⟩
    ∧ checkEqualRawScan = ⟨.actual, .expected⟩ ∧ checkEqualPrintableScan = ⟨.printableActual, .printableExpected⟩
    ∧ binaryEqualScan = ⟨.actual, .expected⟩ ∧ binaryEqualWindowOf = .actualHex
    ∧ stringEqualDiffCall = (.printableActual, .printable, .raw) ∧ stringEqualNoCaseDiffCall = (.printableActual, .printable, .raw)
    ∧ checkEqualDiffCall = (.printableActual, .printable, .raw) ∧ loopCount = 7 := by decide

theorem scanBy_eq_scan (f : UInt8 → UInt8) (c : UInt8 → UInt8 → Bool) (h : ∀ x y, c x y = decide (f x = f y ∧ x ≠ 0)) :
    ∀ fuel A E i, scanBy c fuel A E i = scan f fuel A E i := by
  intro fuel
  induction fuel with
  | zero => intro A E i; rfl
  | succ n ih =>
    intro A E i
    simp only [scanBy, scan]
    split <;> simp_all

theorem scanBinBy_eq_scanBin (inRange : Nat → Nat → Bool) (same : UInt8 → UInt8 → Bool) (size : Nat)
    (h1 : ∀ i, i ≤ size → inRange i size = decide (i < size)) (h2 : ∀ x y, same x y = decide (x = y)) :
    ∀ fuel A E i, i ≤ size → scanBinBy inRange same fuel size A E i = scanBin fuel size A E i := by
  intro fuel
  induction fuel with
  | zero => intro A E i _; rfl
  | succ n ih =>
    intro A E i hi
    simp only [scanBinBy, scanBin, h1 i hi]
    by_cases hlt : i < size
    · simp only [hlt, decide_true, if_true]
      have := ih A E (i + 1) (by omega)
      split <;> simp_all
    · simp [hlt]

theorem stringScansBy_eq (f : UInt8 → UInt8) (c1 c2 : UInt8 → UInt8 → Bool)
    (h1 : ∀ x y, c1 x y = decide (f x = f y ∧ x ≠ 0)) (h2 : ∀ x y, c2 x y = decide (f x = f y ∧ x ≠ 0)) (e a : Bytes) :
    stringScansBy c1 c2 e a = stringScans f e a := by
  unfold stringScansBy stringScans
  rw [scanBy_eq_scan f c1 h1, scanBy_eq_scan f c2 h2]
  generalize scan f (a.length + 1) (cstr a) (cstr e) 0 = r1
  generalize scan f ((printable a).length + 1) (cstr (printable a)) (cstr (printable e)) 0 = r2
  cases r1 <;> cases r2 <;> rfl

/-- `scan_in_bounds` + `position_is_first_difference` for the scans AS REGENERATED from the source: for ALL operand
    pairs (actual NUL-free) the two loops of `StringEqualFailure`, `CheckEqualFailure` and `StringEqualNoCaseFailure`,
    run with the loop conditions clang sees, stay inside the operands and return the first differing indices. -/
theorem regenerated_scans_in_bounds (e a : Bytes) (ha : NulFree a) :
    stringScansBy (condOf stringEqualRawCond) (condOf stringEqualPrintableCond) e a
      = .ok (firstDiff a e, firstDiff (DiagSpec.printable a) (DiagSpec.printable e))
    ∧ stringScansBy (condOf checkEqualRawCond) (condOf checkEqualPrintableCond) e a
      = .ok (firstDiff a e, firstDiff (DiagSpec.printable a) (DiagSpec.printable e))
    ∧ stringScansBy (condOf stringEqualNoCaseRawCond) (condOf stringEqualNoCasePrintableCond) e a
      = .ok (firstDiffBy Text.lowerByte a e, firstDiffBy Text.lowerByte (DiagSpec.printable a) (DiagSpec.printable e)) := by
  refine ⟨?_, ?_, ?_⟩
  · rw [stringScansBy_eq id _ _ (fun x y => (regenerated_scan_conditions x y).1) (fun x y => (regenerated_scan_conditions x y).2.1)]
    exact scan_in_bounds_strings e a ha
  · rw [stringScansBy_eq id _ _ (fun x y => (regenerated_scan_conditions x y).2.2.1) (fun x y => (regenerated_scan_conditions x y).2.2.2.1)]
    exact scan_in_bounds_strings e a ha
  · rw [stringScansBy_eq toLower _ _ (fun x y => (regenerated_scan_conditions x y).2.2.2.2.1) (fun x y => (regenerated_scan_conditions x y).2.2.2.2.2)]
    exact scan_in_bounds_strings_nocase e a ha

/-- the binary scan as regenerated (`binInRange`, `binSame` = the two conjuncts of the regenerated condition): for
    arrays of at least `size` bytes it stops at the first differing index below `size`, or at `size`, without reading
    outside -/
theorem regenerated_binary_scan_in_bounds (size : Nat) (e a : Bytes) (ha : size ≤ a.length) (he : size ≤ e.length)
    (hs : size < 2 ^ 64) :
    scanBinBy binInRange binSame (size + 1) size a e 0 = .ok (firstDiffBin size a e) := by
  rw [scanBinBy_eq_scanBin binInRange binSame size _ _ (size + 1) a e 0 (by omega)]
  · exact scan_in_bounds_binary size e a ha he
  · intro i hi
    have := regenerated_binary_condition 0 0 i size (by omega) hs
    simpa [binInRange] using this
  · intro x y
    have := regenerated_binary_condition x y 0 1 (by omega) (by omega)
    simpa [binSame] using this

example : stringScansBy (condOf stringEqualRawCond) (condOf stringEqualPrintableCond) [92, 110] [10]
    = .ok (firstDiff [10] [92, 110], firstDiff (DiagSpec.printable [10]) (DiagSpec.printable [92, 110])) :=
  (regenerated_scans_in_bounds _ _ (by decide)).1
example : condOf stringEqualNoCaseRawCond 65 97 = true ∧ condOf stringEqualRawCond 65 97 = false := by decide

end RegeneratedScans

end Diag
