/-
Line protocol shared by all drivers (no Mathlib, so drivers link as executables).

A harness prints, per case:
    case <id>
    > <op words...>          -- the operation as given to the real code
    <observation words...>   -- zero or more lines: what the real code did / environment answers
    ...
    end
The driver reads that stream on stdin, feeds every operation (with the implementation's
observation lines, from which *environment inputs* are taken) to the model, prints the same
framing with the MODEL's observation lines, and before `end` prints one line
    spec ok            or      spec FAIL <reason>
which is the property's decidable specification predicate evaluated on the
IMPLEMENTATION's observations only.
-/
namespace Proto

def words (s : String) : List String :=
  (s.trimAscii.toString.splitOn " ").filter (· ≠ "")

def hexDigit (n : Nat) : Char :=
  if n < 10 then Char.ofNat (48 + n) else Char.ofNat (87 + n)

def hexVal? (c : Char) : Option Nat :=
  if '0' ≤ c ∧ c ≤ '9' then some (c.toNat - 48)
  else if 'a' ≤ c ∧ c ≤ 'f' then some (c.toNat - 87)
  else if 'A' ≤ c ∧ c ≤ 'F' then some (c.toNat - 55)
  else none

def hexByte (b : UInt8) : String :=
  String.ofList [hexDigit (b.toNat / 16), hexDigit (b.toNat % 16)]

/-- bytes → hex, the empty string is written `-` so that it stays one word -/
def hex (bs : List UInt8) : String :=
  if bs.isEmpty then "-" else String.join (bs.map hexByte)

def unhexAux : List Char → List UInt8 → Option (List UInt8)
  | [], acc => some acc.reverse
  | [_], _ => none
  | a :: b :: rest, acc =>
    match hexVal? a, hexVal? b with
    | some x, some y => unhexAux rest (UInt8.ofNat (x * 16 + y) :: acc)
    | _, _ => none

def unhex? (s : String) : Option (List UInt8) :=
  if s = "-" then some [] else unhexAux s.toList []

def int? (s : String) : Option Int := s.toInt?
def nat? (s : String) : Option Nat := s.toNat?

structure Op where
  op  : List String                 -- the operation words
  obs : List (List String)          -- the implementation's observation lines (as words)
deriving Repr, Inhabited

structure Case where
  id  : String
  ops : List Op
deriving Repr, Inhabited

partial def readLines (h : IO.FS.Stream) (acc : Array String) : IO (Array String) := do
  let line ← h.getLine
  if line.isEmpty then return acc
  readLines h (acc.push line)

/-- split the harness stream into cases; lines outside `case`/`end` are ignored -/
def parseCases (lines : Array String) : Array Case := Id.run do
  let mut out : Array Case := #[]
  let mut cur : Option (String × Array Op) := none
  for l in lines do
    let ws := words l
    match ws with
    | "case" :: id :: _ => cur := some (id, #[])
    | ["end"] =>
      match cur with
      | some (id, ops) => out := out.push { id := id, ops := ops.toList }; cur := none
      | none => pure ()
    | ">" :: opw =>
      match cur with
      | some (id, ops) => cur := some (id, ops.push { op := opw, obs := [] })
      | none => pure ()
    | [] => pure ()
    | obsw =>
      match cur with
      | some (id, ops) =>
        if h : 0 < ops.size then
          let last := ops[ops.size - 1]
          cur := some (id, ops.set (ops.size - 1) { last with obs := last.obs ++ [obsw] })
        else pure ()
      | none => pure ()
  -- a case cut short by a crash has no `end`; keep what was seen
  match cur with
  | some (id, ops) => out := out.push { id := id, ops := ops.toList }
  | none => pure ()
  return out

/-- A property's executable model and specification oracle, as used by a driver. -/
structure Handler (σ : Type) where
  init : σ
  /-- model step: state, op words, implementation observations (environment inputs are read
      from them) ↦ new state and the MODEL's observation lines -/
  step : σ → List String → List (List String) → σ × List String
  /-- specification predicate on the IMPLEMENTATION's observations of a whole case;
      `none` = holds, `some reason` = violated -/
  spec : List Op → Option String

def runCase {σ} (h : Handler σ) (c : Case) : List String := Id.run do
  let mut st := h.init
  let mut out : Array String := #[s!"case {c.id}"]
  for o in c.ops do
    let (st', obs) := h.step st o.op o.obs
    st := st'
    out := out.push ("> " ++ " ".intercalate o.op)
    for l in obs do out := out.push l
  match h.spec c.ops with
  | none => out := out.push "spec ok"
  | some r => out := out.push ("spec FAIL " ++ r)
  out := out.push "end"
  return out.toList

def driverMain {σ} (h : Handler σ) : IO Unit := do
  let stdin ← IO.getStdin
  let lines ← readLines stdin #[]
  let cases := parseCases lines
  let stdout ← IO.getStdout
  for c in cases do
    for l in runCase h c do
      stdout.putStrLn l
  stdout.flush

end Proto
