import CppUModel.Gen.StringConstants
/-!
# Bounded buffers and the C-library-like primitives of `SimpleString.cpp`

A buffer is the list of ALL bytes of an allocation (terminator and slack included).  A C pointer
is a pair (buffer, offset).  Every access goes through `rd` / `wr`, which fail with `Err.oob`
outside the allocation: "reads and writes only inside the buffers" is the statement that a model
function never returns `.error`.  Loops whose termination depends on finding a terminator carry
the buffer length as fuel and fail with `Err.fuel` (never reached: `oob` comes first).

The functions below are written from `src/CppUTest/SimpleString.cpp` loop by loop.
`char` is signed on the platform the check runs on; the character-class tests are written on
`UInt8` so that they agree with the signed comparisons of the code (bytes ≥ 0x80 are negative).
Core Lean only.
-/
namespace CStr

abbrev Buf := List UInt8

inductive Err
  | oob        -- access outside an allocation
  | fuel       -- loop ran longer than the buffer (unreachable)
  | overflow   -- signed `int` overflow (undefined behaviour in the C code)
  | env        -- the environment (vsnprintf) did not behave as its contract says
deriving Repr, DecidableEq, Inhabited

def Err.render : Err → String
  | .oob => "oob" | .fuel => "fuel" | .overflow => "overflow" | .env => "env"

/-- `*(b + i)` -/
def rd (b : Buf) (i : Nat) : Except Err UInt8 :=
  match b[i]? with
  | some c => .ok c
  | none => .error .oob

/-- `*(b + i) = v` -/
def wr (b : Buf) (i : Nat) (v : UInt8) : Except Err Buf :=
  if i < b.length then .ok (b.set i v) else .error .oob

/-! ### character classes (`isDigit`, `isSpace`, `isUpper`, `isControl`, …; `char` is signed) -/

-- the bounds are regenerated from the source (`Gen/StringConstants.lean`); all of them are < 0x80,
-- so the signed comparisons of the code agree with the unsigned ones below
open Gen.Str in
def isDigit (c : UInt8) : Bool := digitLo ≤ c && c ≤ digitHi
open Gen.Str in
def isSpace (c : UInt8) : Bool := c == spaceChar || (spaceAbove < c && c < spaceBelow)
open Gen.Str in
def isUpper (c : UInt8) : Bool := upperLo ≤ c && c ≤ upperHi
/-- `ch < ' ' || ch == char(0x7F)` on a signed `char`: bytes ≥ 0x80 are negative, hence `< ' '` -/
def isControl (c : UInt8) : Bool := c < Gen.Str.controlBelow || c == Gen.Str.controlDel || 128 ≤ c
open Gen.Str in
def isControlWithShortEscapeSequence (c : UInt8) : Bool := shortEscLo ≤ c && c ≤ shortEscHi

/-- `ToLower`: `isUpper(ch) ? (char)((int)ch + ('a' - 'A')) : ch` -/
def ToLower (c : UInt8) : UInt8 := if isUpper c then c + Gen.Str.lowerOffset else c

/-! ### StrLen: `size_t n = -1; do n++; while (*str++); return n;` -/

def strLenLoop (b : Buf) : Nat → Nat → Nat → Except Err Nat
  | 0, _, _ => .error .fuel
  | f + 1, p, n =>
    match rd b p with
    | .error e => .error e
    | .ok c => if c = 0 then .ok n else strLenLoop b f (p + 1) (n + 1)

def StrLen (b : Buf) (p : Nat) : Except Err Nat := strLenLoop b (b.length + 1) p 0

/-! ### StrCmp: `while (*s1 && *s1 == *s2) {++s1; ++s2;} return *(uchar*)s1 - *(uchar*)s2;`
Both bytes are read in every round: `*s2` either in the loop condition or in the `return`. -/

def strCmpLoop (b1 b2 : Buf) : Nat → Nat → Nat → Except Err Int
  | 0, _, _ => .error .fuel
  | f + 1, p1, p2 =>
    match rd b1 p1 with
    | .error e => .error e
    | .ok c1 =>
      match rd b2 p2 with
      | .error e => .error e
      | .ok c2 =>
        if c1 ≠ 0 ∧ c1 = c2 then strCmpLoop b1 b2 f (p1 + 1) (p2 + 1)
        else .ok ((c1.toNat : Int) - (c2.toNat : Int))

def StrCmp (b1 : Buf) (p1 : Nat) (b2 : Buf) (p2 : Nat) : Except Err Int :=
  strCmpLoop b1 b2 (b1.length + 1) p1 p2

/-! ### StrNCmp: `while (n && *s1 && *s1 == *s2) {--n; ++s1; ++s2;} return n ? *s1 - *s2 : 0;` -/

def StrNCmp (b1 : Buf) (p1 : Nat) (b2 : Buf) (p2 : Nat) : Nat → Except Err Int
  | 0 => .ok 0
  | n + 1 =>
    match rd b1 p1 with
    | .error e => .error e
    | .ok c1 =>
      match rd b2 p2 with
      | .error e => .error e
      | .ok c2 =>
        if c1 ≠ 0 ∧ c1 = c2 then StrNCmp b1 (p1 + 1) b2 (p2 + 1) n
        else .ok ((c1.toNat : Int) - (c2.toNat : Int))

/-! ### StrNCpy (destination non-NULL; the NULL test is made by the callers of this model)
```
if (NULL == s1 || 0 == n) return result;
*s1 = *s2;
while ((--n != 0) && *s1) { *++s1 = *++s2; }
```
The loop condition re-reads the byte just written, which is always inside the destination. -/

def StrNCpy (dst : Buf) (dp : Nat) (src : Buf) (sp : Nat) : Nat → Except Err Buf
  | 0 => .ok dst
  | n + 1 =>
    match rd src sp with
    | .error e => .error e
    | .ok c =>
      match wr dst dp c with
      | .error e => .error e
      | .ok dst' => if c = 0 then .ok dst' else StrNCpy dst' (dp + 1) src (sp + 1) n

/-! ### StrStr
```
if (!*s2) return s1;
for (; *s1; s1++) if (StrNCmp(s1, s2, StrLen(s2)) == 0) return s1;
return NULL;
```
The result is the offset in `b1` of the match (`none` = NULL). -/

def strStrLoop (b1 b2 : Buf) (p2 : Nat) : Nat → Nat → Except Err (Option Nat)
  | 0, _ => .error .fuel
  | f + 1, p1 =>
    match rd b1 p1 with
    | .error e => .error e
    | .ok c =>
      if c = 0 then .ok none
      else
        match StrLen b2 p2 with
        | .error e => .error e
        | .ok l =>
          match StrNCmp b1 p1 b2 p2 l with
          | .error e => .error e
          | .ok r => if r = 0 then .ok (some p1) else strStrLoop b1 b2 p2 f (p1 + 1)

def StrStr (b1 : Buf) (p1 : Nat) (b2 : Buf) (p2 : Nat) : Except Err (Option Nat) :=
  match rd b2 p2 with
  | .error e => .error e
  | .ok c => if c = 0 then .ok (some p1) else strStrLoop b1 b2 p2 (b1.length + 1) p1

/-! ### MemCmp: `while (n--) if (*p1 != *p2) return *p1 - *p2; else {++p1; ++p2;} return 0;` -/

def MemCmp (b1 : Buf) (p1 : Nat) (b2 : Buf) (p2 : Nat) : Nat → Except Err Int
  | 0 => .ok 0
  | n + 1 =>
    match rd b1 p1 with
    | .error e => .error e
    | .ok c1 =>
      match rd b2 p2 with
      | .error e => .error e
      | .ok c2 =>
        if c1 ≠ c2 then .ok ((c1.toNat : Int) - (c2.toNat : Int))
        else MemCmp b1 (p1 + 1) b2 (p2 + 1) n

/-! ### AtoU / AtoI -/

/-- `while (isSpace(*str)) str++;` — returns the offset of the first non-blank byte -/
def skipSpaces (b : Buf) : Nat → Nat → Except Err Nat
  | 0, _ => .error .fuel
  | f + 1, p =>
    match rd b p with
    | .error e => .error e
    | .ok c => if isSpace c then skipSpaces b f (p + 1) else .ok p

/-- `for (; isDigit(*str) && *str >= '0'; str++) { result *= 10; result += *str - '0'; }`
    on `unsigned` (32 bit): wraps -/
def atoULoop (b : Buf) : Nat → Nat → Nat → Except Err Nat
  | 0, _, _ => .error .fuel
  | f + 1, p, r =>
    match rd b p with
    | .error e => .error e
    | .ok c =>
      if isDigit c then atoULoop b f (p + 1) ((r * 10 + (c.toNat - 48)) % 4294967296)
      else .ok r

def AtoU (b : Buf) (p : Nat) : Except Err Nat :=
  match skipSpaces b (b.length + 1) p with
  | .error e => .error e
  | .ok q => atoULoop b (b.length + 1) q 0

/-- the same loop on `int`: signed overflow is undefined behaviour, reported as `Err.overflow` -/
def atoILoop (b : Buf) : Nat → Nat → Nat → Except Err Nat
  | 0, _, _ => .error .fuel
  | f + 1, p, r =>
    match rd b p with
    | .error e => .error e
    | .ok c =>
      if isDigit c then
        if r * 10 + (c.toNat - 48) > 2147483647 then .error .overflow
        else atoILoop b f (p + 1) (r * 10 + (c.toNat - 48))
      else .ok r

/--
```
while (isSpace(*str)) str++;
char first_char = *str;
if (first_char == '-' || first_char == '+') str++;
... digits ...
return (first_char == '-') ? -result : result;
``` -/
def AtoI (b : Buf) (p : Nat) : Except Err Int :=
  match skipSpaces b (b.length + 1) p with
  | .error e => .error e
  | .ok q =>
    match rd b q with
    | .error e => .error e
    | .ok first =>
      match atoILoop b (b.length + 1) (if first = 45 ∨ first = 43 then q + 1 else q) 0 with
      | .error e => .error e
      | .ok r => .ok (if first = 45 then - (r : Int) else (r : Int))

end CStr
