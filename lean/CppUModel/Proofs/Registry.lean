import CppUModel.Spec.Registry
import CppUModel.Proofs.ListLemmas
/-! Helper lemmas for C02 (core only). -/
namespace Registry
open Text (Bytes)

/-! ## regenerated decision functions: their meaning (re-checked whenever the source changes) -/

theorem gen_filterMatch (s i e c : Bool) :
    Gen.Registry.filterMatch s i e c = ((if s then e else c) != i) := by
  cases s <;> cases i <;> cases e <;> cases c <;> rfl

theorem gen_shouldRun (a b : Bool) : Gen.Registry.shouldRun a b = (a && b) := by
  cases a <;> cases b <;> rfl

theorem gen_endOfGroup_last (d : Bool) : Gen.Registry.endOfGroup false true d = true := by
  cases d <;> rfl

theorem gen_endOfGroup_mid (d : Bool) : Gen.Registry.endOfGroup false false d = d := by
  cases d <;> rfl

theorem gen_ignoredRuns (b : Bool) : Gen.Registry.ignoredRuns b = b := by
  cases b <;> rfl

theorem gen_shuffleModulus (i : Nat) : Gen.Registry.shuffleModulus i = i + 1 := rfl

/-! ## textbook substring -/

theorem isInfix_iff (a b : Bytes) : Text.isInfix a b = true ↔ b <:+: a := by
  induction a with
  | nil => simp [Text.isInfix, List.isEmpty_iff]
  | cons x t ih =>
    simp only [Text.isInfix, Bool.or_eq_true, ih, List.infix_cons_iff, List.isPrefixOf_iff_prefix]

/-! ## filters -/

theorem matches_iff (f : Filter) (s : Bytes) : f.matches s = true ↔ f.accepts s := by
  unfold Filter.matches Filter.accepts Filter.hit
  rw [gen_filterMatch]
  have h := isInfix_iff s f.text
  cases hs : f.strict <;> cases hi : f.invert <;> simp [← h]

theorem matchLoop_iff (s : Bytes) (fs : List Filter) :
    matchLoop s fs = true ↔ ∃ f ∈ fs, f.accepts s := by
  induction fs with
  | nil => simp [matchLoop]
  | cons f fs ih =>
    simp only [matchLoop, List.mem_cons, exists_eq_or_imp, ← matches_iff f s]
    cases h : f.matches s <;> simp [ih]

theorem matchFilters_iff (s : Bytes) (fs : List Filter) :
    matchFilters s fs = true ↔ kindAccepts fs s := by
  unfold matchFilters kindAccepts
  cases fs with
  | nil => simp
  | cons f fs => simp only [matchLoop_iff]; simp

theorem shouldRun_iff (cfg : Cfg) (t : Test) : shouldRun cfg t = true ↔ Selected cfg t := by
  unfold shouldRun Selected
  rw [gen_shouldRun]
  simp [matchFilters_iff]

/-! ## one loop iteration -/

theorem runOneTest_eq (cfg : Cfg) (t : Test) (c : Counters) :
    runOneTest cfg t c =
      if willRun cfg t then (c.countRun, [Ev.exec t.id]) else (c.countIgnored, []) := by
  unfold runOneTest ignoredRunOneTest utestShellRunOneTest willRun shellFlagAtUse
  rw [gen_ignoredRuns]
  cases t.ignored <;> cases cfg.runIgnored <;> cases t.flag <;> simp

theorem testStep_eq (cfg : Cfg) (t : Test) (c : Counters) :
    testStep cfg t c =
      if shouldRun cfg t then
        if willRun cfg t then
          (c.countTest.countRun, [Ev.testStart t.id, Ev.exec t.id, Ev.testEnd t.id])
        else (c.countTest.countIgnored, [Ev.testStart t.id, Ev.testEnd t.id])
      else (c.countTest.countFilteredOut, []) := by
  unfold testStep
  rw [runOneTest_eq]
  cases shouldRun cfg t <;> cases willRun cfg t <;> simp

/-! ## counters of the loop -/

theorem runLoop_counts (cfg : Cfg) : ∀ (ts : List Test) (gs : Bool) (c : Counters),
    (runLoop cfg gs ts c).1.testCount = c.testCount + ts.length ∧
    (runLoop cfg gs ts c).1.runCount =
      c.runCount + (ts.filter (fun t => shouldRun cfg t && willRun cfg t)).length ∧
    (runLoop cfg gs ts c).1.ignoredCount =
      c.ignoredCount + (ts.filter (fun t => shouldRun cfg t && !willRun cfg t)).length ∧
    (runLoop cfg gs ts c).1.filteredOutCount =
      c.filteredOutCount + (ts.filter (fun t => !shouldRun cfg t)).length
  | [], gs, c => by simp [runLoop]
  | t :: rest, gs, c => by
    have ih := runLoop_counts cfg rest (endOfGroup t rest) (testStep cfg t c).1
    simp only [runLoop]
    rw [testStep_eq] at ih ⊢
    cases hs : shouldRun cfg t <;> cases hw : willRun cfg t <;>
      simp [hs, hw, Counters.countTest, Counters.countRun, Counters.countIgnored,
        Counters.countFilteredOut] at ih ⊢ <;> omega

/-! ## projections of the loop's events -/

theorem started_append (a b : List Ev) : started (a ++ b) = started a ++ started b := by
  simp [started]
theorem executed_append (a b : List Ev) : executed (a ++ b) = executed a ++ executed b := by
  simp [executed]
theorem ended_append (a b : List Ev) : ended (a ++ b) = ended a ++ ended b := by
  simp [ended]

theorem runLoop_started (cfg : Cfg) : ∀ (ts : List Test) (gs : Bool) (c : Counters),
    started (runLoop cfg gs ts c).2 = (ts.filter (shouldRun cfg)).map (·.id)
  | [], gs, c => by simp [runLoop, started]
  | t :: rest, gs, c => by
    have ih := runLoop_started cfg rest (endOfGroup t rest) (testStep cfg t c).1
    simp only [runLoop, started_append, ih]
    rw [testStep_eq]
    cases hs : shouldRun cfg t <;> cases hw : willRun cfg t <;> cases gs <;>
      cases endOfGroup t rest <;> simp [hs, started]

theorem runLoop_ended (cfg : Cfg) : ∀ (ts : List Test) (gs : Bool) (c : Counters),
    ended (runLoop cfg gs ts c).2 = (ts.filter (shouldRun cfg)).map (·.id)
  | [], gs, c => by simp [runLoop, ended]
  | t :: rest, gs, c => by
    have ih := runLoop_ended cfg rest (endOfGroup t rest) (testStep cfg t c).1
    simp only [runLoop, ended_append, ih]
    rw [testStep_eq]
    cases hs : shouldRun cfg t <;> cases hw : willRun cfg t <;> cases gs <;>
      cases endOfGroup t rest <;> simp [hs, ended]

theorem runLoop_executed (cfg : Cfg) : ∀ (ts : List Test) (gs : Bool) (c : Counters),
    executed (runLoop cfg gs ts c).2 =
      (ts.filter (fun t => shouldRun cfg t && willRun cfg t)).map (·.id)
  | [], gs, c => by simp [runLoop, executed]
  | t :: rest, gs, c => by
    have ih := runLoop_executed cfg rest (endOfGroup t rest) (testStep cfg t c).1
    simp only [runLoop, executed_append, ih]
    rw [testStep_eq]
    cases hs : shouldRun cfg t <;> cases hw : willRun cfg t <;> cases gs <;>
      cases endOfGroup t rest <;> simp [hs, hw, executed]

/-! ## balanced notifications -/

theorem balRun_append (p : Phase) (a b : List Ev) :
    balRun p (a ++ b) = (balRun p a).bind (fun q => balRun q b) := by
  induction a generalizing p with
  | nil => simp [balRun]
  | cons e es ih =>
    simp only [List.cons_append, balRun]
    cases balStep p e with
    | none => simp
    | some q => simpa using ih q

/-- the started/executed/ended triple of one test keeps the group open -/
theorem balRun_testStep (cfg : Cfg) (t : Test) (c : Counters) :
    balRun .opened (testStep cfg t c).2 = some .opened := by
  rw [testStep_eq]
  cases shouldRun cfg t <;> cases willRun cfg t <;> simp [balRun, balStep]

theorem endOfGroup_nil (t : Test) : endOfGroup t [] = true := by
  simp [endOfGroup, gen_endOfGroup_last]

theorem endOfGroup_cons (t n : Test) (rest : List Test) :
    endOfGroup t (n :: rest) = (t.group != n.group) := by
  simp [endOfGroup, gen_endOfGroup_mid]

/-- the loop, entered with `groupStart = true` outside a group or with `groupStart = false`
    inside one, leaves every group closed (for a non-empty remainder) -/
theorem balRun_runLoop (cfg : Cfg) : ∀ (ts : List Test) (gs : Bool) (c : Counters), ts ≠ [] →
    balRun (if gs then Phase.closed else Phase.opened) (runLoop cfg gs ts c).2 = some .closed
  | [], _, _, h => absurd rfl h
  | t :: rest, gs, c, _ => by
    simp only [runLoop]
    have h1 : balRun (if gs then Phase.closed else Phase.opened)
        (if gs then [Ev.groupStart t.id] else []) = some .opened := by
      cases gs <;> simp [balRun, balStep]
    rw [List.append_assoc, List.append_assoc, balRun_append, h1]
    simp only [Option.bind_some]
    rw [balRun_append, balRun_testStep]
    simp only [Option.bind_some]
    cases rest with
    | nil =>
      simp [endOfGroup_nil, runLoop, balRun, balStep]
    | cons n rest' =>
      have ih := balRun_runLoop cfg (n :: rest') (endOfGroup t (n :: rest')) (testStep cfg t c).1
        (by simp)
      cases he : endOfGroup t (n :: rest') with
      | true =>
        rw [he] at ih
        simp only [if_true] at ih ⊢
        rw [balRun_append]
        simpa [balRun, balStep] using ih
      | false =>
        rw [he] at ih
        simpa using ih

theorem balRun_runLoop_nil (cfg : Cfg) (gs : Bool) (c : Counters) :
    (runLoop cfg gs [] c).2 = [] := by simp [runLoop]

theorem balanced_runAllTests (cfg : Cfg) (ts : List Test) : Balanced (runAllTests cfg ts).2 := by
  unfold Balanced runAllTests
  simp only []
  rw [List.append_assoc, balRun_append]
  simp only [balRun, balStep, Option.bind_some]
  rw [balRun_append]
  cases ts with
  | nil => simp [runLoop, balRun, balStep]
  | cons t rest =>
    have := balRun_runLoop cfg (t :: rest) true {} (by simp)
    simp only [if_true] at this
    rw [this]
    simp [balRun, balStep]

/-! ## the linked list -/

theorem Linked.head_eq {nx : Next} {h : Option Nat} {l : List Nat} (hl : Linked nx h l) :
    h = l.head? := by
  cases hl <;> rfl

theorem Linked.unique {nx : Next} {h : Option Nat} {l l' : List Nat}
    (h1 : Linked nx h l) (h2 : Linked nx h l') : l = l' := by
  induction h1 generalizing l' with
  | nil => cases h2; rfl
  | cons _ ih => cases h2 with | cons h2' => rw [ih h2']

theorem walk_of_linked {nx : Next} {h : Option Nat} {l : List Nat} (hl : Linked nx h l) :
    ∀ f, l.length ≤ f → walk nx f h = l := by
  induction hl with
  | nil => intro f _; cases f <;> rfl
  | cons _ ih =>
    intro f hf
    cases f with
    | zero => simp at hf
    | succ f => simp only [walk]; rw [ih f (by simpa using hf)]

theorem countTests_of_linked {nx : Next} : ∀ (f i : Nat) (l : List Nat),
    Linked nx (some i) l → l.length ≤ f + 1 → countTests nx f i = l.length
  | 0, i, l, hl, hf => by
    cases hl with
    | cons hl' =>
      rename_i l'
      have : l' = [] := by cases l' <;> simp_all
      subst this; rfl
  | f + 1, i, l, hl, hf => by
    cases hl with
    | cons hl' =>
      rename_i l'
      simp only [countTests]
      cases hn : nx i with
      | none => rw [hn] at hl'; cases hl'; rfl
      | some n =>
        rw [hn] at hl'
        simp only
        rw [countTests_of_linked f n l' hl' (by simpa using hf)]
        rfl

theorem copyLoop_of_linked {nx : Next} {h : Option Nat} {l : List Nat} (hl : Linked nx h l) :
    ∀ a : Array Nat, copyLoop nx l.length h a = a ++ l.toArray := by
  induction hl with
  | nil => intro a; simp [copyLoop]
  | cons _ ih =>
    intro a
    simp only [List.length_cons, copyLoop]
    rw [ih]
    apply Array.ext'
    simp

/-- the constructor copies exactly the list -/
theorem mkArray_of_linked {nx : Next} {h : Option Nat} {l : List Nat} (hl : Linked nx h l)
    (fuel : Nat) (hf : l.length ≤ fuel + 1) : (mkArray nx fuel h).toList = l := by
  unfold mkArray
  cases hl with
  | nil => rfl
  | cons hl' =>
    rename_i i l'
    simp only
    rw [countTests_of_linked fuel i (i :: l') (Linked.cons hl') hf]
    rw [copyLoop_of_linked (Linked.cons hl')]
    simp

theorem Linked.setNext_of_not_mem {nx : Next} {h : Option Nat} {l : List Nat}
    (hl : Linked nx h l) (x : Nat) (v : Option Nat) (hx : x ∉ l) :
    Linked (setNext nx x v) h l := by
  induction hl with
  | nil => exact Linked.nil
  | @cons i l' _ ih =>
    have hne : i ≠ x := fun e => hx (by simp [e])
    have hx' : x ∉ l' := fun m => hx (by simp [m])
    apply Linked.cons
    have : setNext nx x v i = nx i := by simp [setNext, hne]
    rw [this]
    exact ih hx'

/-- invariant of the relink loop: the already relinked suffix is a proper list -/
theorem relinkFrom_linked (a : Array Nat) (hnd : a.toList.Nodup) :
    ∀ (k : Nat) (nx : Next) (tests : Option Nat), k ≤ a.size →
      Linked nx tests (a.toList.drop k) →
      Linked (relinkFrom a k nx tests).1 (relinkFrom a k nx tests).2 a.toList
  | 0, nx, tests, _, hl => by simpa [relinkFrom] using hl
  | k + 1, nx, tests, hk, hl => by
    have hk' : k < a.size := by omega
    simp only [relinkFrom]
    have hget : a[k]? = some a[k] := by simp [hk']
    rw [hget]
    simp only
    apply relinkFrom_linked a hnd k _ _ (by omega)
    have hdrop : a.toList.drop k = a[k] :: a.toList.drop (k + 1) := by
      rw [List.drop_eq_getElem_cons (by simpa using hk')]
      simp
    rw [hdrop]
    have hnot : a[k] ∉ a.toList.drop (k + 1) := by
      have hn : (a.toList.drop k).Nodup := List.Nodup.sublist (List.drop_sublist _ _) hnd
      rw [hdrop] at hn
      exact (List.nodup_cons.mp hn).1
    apply Linked.cons
    have : setNext nx a[k] tests a[k] = tests := by simp [setNext]
    rw [this]
    exact hl.setNext_of_not_mem _ _ hnot

theorem relink_linked (a : Array Nat) (nx : Next) (hnd : a.toList.Nodup) :
    Linked (relink a nx) (firstOf a) a.toList := by
  have h := relinkFrom_linked a hnd a.size nx none (Nat.le_refl _)
    (by rw [List.drop_of_length_le (by simp)]; exact Linked.nil)
  have hh := h.head_eq
  unfold relink firstOf
  have : a[0]? = a.toList.head? := by
    cases a with | mk l => cases l <;> simp
  rw [this, ← hh]
  exact h

/-! ## shuffle -/

theorem swap_perm (a : Array Nat) (i j : Nat) : (swap a i j).toList.Perm a.toList := by
  unfold swap
  rw [Array.swapIfInBounds_def]
  split
  · split
    · exact Array.perm_iff_toList_perm.mp (Array.swap_perm _ _)
    · exact List.Perm.refl _
  · exact List.Perm.refl _

theorem swap_size (a : Array Nat) (i j : Nat) : (swap a i j).size = a.size := by
  simp [swap]

theorem shuffleLoop_perm : ∀ (k : Nat) (rs : List Nat) (a : Array Nat),
    (shuffleLoop k rs a).toList.Perm a.toList
  | 0, _, a => by simp [shuffleLoop]
  | _ + 1, [], a => by simp [shuffleLoop]
  | k + 1, r :: rs, a => by
    simp only [shuffleLoop]
    exact (shuffleLoop_perm k rs _).trans (swap_perm a _ _)

theorem shuffleArr_perm (rs : List Nat) (a : Array Nat) :
    (shuffleArr rs a).toList.Perm a.toList := by
  unfold shuffleArr
  split
  · exact List.Perm.refl _
  · exact shuffleLoop_perm _ _ _

/-- the index pairs the shuffle loop swaps, in order -/
def shuffleSwaps : Nat → List Nat → List (Nat × Nat)
  | 0, _ => []
  | _ + 1, [] => []
  | k + 1, r :: rs => (k + 1, r % Gen.Registry.shuffleModulus (k + 1)) :: shuffleSwaps k rs

theorem shuffleLoop_eq_foldl : ∀ (k : Nat) (rs : List Nat) (a : Array Nat),
    shuffleLoop k rs a = (shuffleSwaps k rs).foldl (fun b p => swap b p.1 p.2) a
  | 0, _, a => by simp [shuffleLoop, shuffleSwaps]
  | _ + 1, [], a => by simp [shuffleLoop, shuffleSwaps]
  | k + 1, r :: rs, a => by
    simp only [shuffleLoop, shuffleSwaps, List.foldl_cons]
    exact shuffleLoop_eq_foldl k rs _

theorem shuffleSwaps_bounds : ∀ (k : Nat) (rs : List Nat) (p : Nat × Nat),
    p ∈ shuffleSwaps k rs → 1 ≤ p.1 ∧ p.1 ≤ k ∧ p.2 ≤ p.1
  | 0, _, p, h => by simp [shuffleSwaps] at h
  | _ + 1, [], p, h => by simp [shuffleSwaps] at h
  | k + 1, r :: rs, p, h => by
    simp only [shuffleSwaps, List.mem_cons] at h
    rcases h with rfl | h
    · simp only [gen_shuffleModulus]
      have := Nat.mod_lt r (show 0 < k + 1 + 1 by omega)
      omega
    · have := shuffleSwaps_bounds k rs p h
      omega

theorem shuffleSwaps_length : ∀ (k : Nat) (rs : List Nat), k ≤ rs.length →
    (shuffleSwaps k rs).length = k
  | 0, _, _ => by simp [shuffleSwaps]
  | k + 1, [], h => by simp at h
  | k + 1, r :: rs, h => by
    simp only [shuffleSwaps, List.length_cons]
    rw [shuffleSwaps_length k rs (by simpa using h)]

/-! ## reverse -/

theorem swap_getElem? (a : Array Nat) (i j k : Nat) (hi : i < a.size) (hj : j < a.size) :
    (swap a i j)[k]? = if k = j then a[i]? else if k = i then a[j]? else a[k]? := by
  unfold swap
  rw [Array.swapIfInBounds_def]
  simp only [hi, hj, dite_true]
  rw [Array.getElem?_swap]
  by_cases h1 : j = k
  · subst h1; simp [hi]
  · by_cases h2 : i = k
    · subst h2; simp [h1, hj]; intro h; exact absurd h.symm h1
    · have h1' : k ≠ j := fun e => h1 e.symm
      have h2' : k ≠ i := fun e => h2 e.symm
      simp [h1, h2, h1', h2']

theorem reverseLoop_spec (n : Nat) (a0 : Array Nat) :
    ∀ (f i : Nat) (b : Array Nat), i + f = n / 2 → b.size = n →
      (∀ k, b[k]? = if k < i ∨ (n - i ≤ k ∧ k < n) then a0[n - 1 - k]? else a0[k]?) →
      (reverseLoop n f i b).size = n ∧
      ∀ k, (reverseLoop n f i b)[k]? =
        if k < n / 2 ∨ (n - n / 2 ≤ k ∧ k < n) then a0[n - 1 - k]? else a0[k]?
  | 0, i, b, hi, hb, hinv => by
    simp only [reverseLoop]
    have : i = n / 2 := by omega
    subst this
    exact ⟨hb, hinv⟩
  | f + 1, i, b, hi, hb, hinv => by
    simp only [reverseLoop]
    have h1 : i < b.size := by omega
    have h2 : n - i - 1 < b.size := by omega
    apply reverseLoop_spec n a0 f (i + 1) _ (by omega) (by rw [swap_size]; exact hb)
    intro k
    rw [swap_getElem? b i (n - i - 1) k h1 h2]
    by_cases e1 : k = n - i - 1
    · subst e1
      rw [if_pos rfl, hinv i]
      have c1 : ¬ (i < i ∨ (n - i ≤ i ∧ i < n)) := by omega
      have c2 : (n - i - 1 < i + 1 ∨ (n - (i + 1) ≤ n - i - 1 ∧ n - i - 1 < n)) := by omega
      rw [if_neg c1, if_pos c2]
      congr 1; omega
    · rw [if_neg e1]
      by_cases e2 : k = i
      · subst e2
        rw [if_pos rfl, hinv (n - k - 1)]
        have c1 : ¬ (n - k - 1 < k ∨ (n - k ≤ n - k - 1 ∧ n - k - 1 < n)) := by omega
        have c2 : (k < k + 1 ∨ (n - (k + 1) ≤ k ∧ k < n)) := by omega
        rw [if_neg c1, if_pos c2]
        congr 1; omega
      · rw [if_neg e2, hinv k]
        by_cases c : k < i ∨ (n - i ≤ k ∧ k < n)
        · have c' : k < i + 1 ∨ (n - (i + 1) ≤ k ∧ k < n) := by omega
          rw [if_pos c, if_pos c']
        · have c' : ¬ (k < i + 1 ∨ (n - (i + 1) ≤ k ∧ k < n)) := by omega
          rw [if_neg c, if_neg c']

theorem reverseArr_toList (a : Array Nat) : (reverseArr a).toList = a.toList.reverse := by
  unfold reverseArr
  split
  · rename_i h
    have : a = #[] := Array.eq_empty_of_size_eq_zero h
    subst this; rfl
  · have h := reverseLoop_spec a.size a (a.size / 2) 0 a (by omega) rfl
      (by intro k
          by_cases c : k < 0 ∨ (a.size - 0 ≤ k ∧ k < a.size)
          · omega
          · rw [if_neg c])
    apply List.ext_getElem?
    intro k
    rw [Array.getElem?_toList, h.2 k]
    by_cases hk : k < a.size
    · rw [List.getElem?_reverse (by simpa using hk)]
      simp only [Array.length_toList, Array.getElem?_toList]
      by_cases c : k < a.size / 2 ∨ (a.size - a.size / 2 ≤ k ∧ k < a.size)
      · rw [if_pos c]
      · rw [if_neg c]
        congr 1; omega
    · have c : ¬ (k < a.size / 2 ∨ (a.size - a.size / 2 ≤ k ∧ k < a.size)) := by omega
      rw [if_neg c]
      have h1 : a[k]? = none := by simp; omega
      have h2 : a.toList.reverse[k]? = none := by simp; omega
      rw [h1, h2]

/-! ## the registry -/

theorem Reg.WF.order_length_le {r : Reg} (h : r.WF) : r.order.length ≤ r.objs.size := by
  have hs : r.order ⊆ List.range r.objs.size := by
    intro i hi; simpa using h.bound i hi
  simpa using h.nodup.length_le_of_subset hs

theorem Reg.WF.mkArray_toList {r : Reg} (h : r.WF) :
    (mkArray r.next r.objs.size r.head).toList = r.order :=
  mkArray_of_linked h.linked _ (by have := h.order_length_le; omega)

theorem complete_length {r : Reg} (hc : r.Complete) : r.order.length = r.objs.size := by
  have := hc.length_eq
  simpa using this

theorem wf_empty : Reg.empty.WF :=
  { linked := by simp [Reg.empty, Reg.order, walk]; exact Linked.nil
    nodup := by simp [Reg.empty, Reg.order, walk]
    bound := by simp [Reg.empty, Reg.order, walk]
    ids := by intro i t h; simp [Reg.empty] at h }

theorem complete_empty : Reg.empty.Complete := by
  simp [Reg.Complete, Reg.empty, Reg.order, walk]

theorem wf_addTest {r : Reg} (h : r.WF) (g n : Bytes) (ig : Bool) (file : Bytes := []) (line : Nat := 0) :
    (r.addTest g n ig file line).WF ∧ (r.addTest g n ig file line).order = r.objs.size :: r.order := by
  have hnot : r.objs.size ∉ r.order := by
    intro hm
    have := h.bound _ hm
    omega
  have hl : Linked (setNext r.next r.objs.size r.head) (some r.objs.size) (r.objs.size :: r.order) := by
    apply Linked.cons
    have : setNext r.next r.objs.size r.head r.objs.size = r.head := by simp [setNext]
    rw [this]
    exact h.linked.setNext_of_not_mem _ _ hnot
  have hord : (r.addTest g n ig file line).order = r.objs.size :: r.order := by
    unfold Reg.order Reg.addTest
    simp only [Array.size_push]
    exact walk_of_linked hl _ (by have := h.order_length_le; simp; omega)
  refine ⟨{ linked := ?_, nodup := ?_, bound := ?_, ids := ?_ }, hord⟩
  · rw [hord]; exact hl
  · rw [hord]; exact List.nodup_cons.mpr ⟨hnot, h.nodup⟩
  · rw [hord]
    intro i hi
    simp only [Reg.addTest, Array.size_push]
    simp only [List.mem_cons] at hi
    rcases hi with rfl | hi
    · omega
    · have := h.bound i hi; omega
  · intro i t ht
    simp only [Reg.addTest, Array.getElem?_push] at ht
    split at ht
    · rename_i e; cases ht; exact e.symm
    · exact h.ids i t ht

theorem complete_addTest {r : Reg} (h : r.WF) (hc : r.Complete) (g n : Bytes) (ig : Bool)
    (file : Bytes := []) (line : Nat := 0) : (r.addTest g n ig file line).Complete := by
  unfold Reg.Complete
  rw [(wf_addTest h g n ig file line).2]
  simp only [Reg.addTest, Array.size_push, List.range_succ]
  exact (List.Perm.cons _ hc).trans (List.perm_append_singleton _ _).symm

theorem relink_empty (a : Array Nat) (nx : Next) (h : a.size = 0) : relink a nx = nx := by
  unfold relink
  rw [h]
  rfl

/-- any re-ordering that goes through a pointer array holding a permutation of the list and
    relinks it yields a well-formed registry whose list is the array -/
theorem wf_reorder {r : Reg} (h : r.WF) (arr : Array Nat) (hp : arr.toList.Perm r.order) :
    let r' : Reg := { r with next := (if arr.size = 0 then r.next else relink arr r.next),
                             head := firstOf arr }
    r'.WF ∧ r'.order = arr.toList := by
  intro r'
  have hnd : arr.toList.Nodup := hp.nodup_iff.mpr h.nodup
  have hnext : r'.next = relink arr r.next := by
    show (if arr.size = 0 then r.next else relink arr r.next) = relink arr r.next
    split
    · rename_i e; exact (relink_empty arr r.next e).symm
    · rfl
  have hl : Linked r'.next r'.head arr.toList := by
    rw [hnext]; exact relink_linked arr r.next hnd
  have hlen : arr.toList.length ≤ r.objs.size := by rw [hp.length_eq]; exact h.order_length_le
  have hord : r'.order = arr.toList := walk_of_linked hl _ hlen
  refine ⟨{ linked := ?_, nodup := ?_, bound := ?_, ids := h.ids }, hord⟩
  · rw [hord]; exact hl
  · rw [hord]; exact hnd
  · rw [hord]; intro i hi; exact h.bound i (hp.subset hi)

theorem wf_reverseTests {r : Reg} (h : r.WF) :
    r.reverseTests.WF ∧ r.reverseTests.order = r.order.reverse := by
  have hp : (reverseArr (mkArray r.next r.objs.size r.head)).toList.Perm r.order := by
    rw [reverseArr_toList, h.mkArray_toList]; exact List.reverse_perm _
  have := wf_reorder h _ hp
  simp only [reverseArr_toList, h.mkArray_toList] at this
  have hsz : (reverseArr (mkArray r.next r.objs.size r.head)).size = 0 ↔
      (mkArray r.next r.objs.size r.head).size = 0 := by
    rw [← Array.length_toList, ← Array.length_toList (xs := mkArray _ _ _), reverseArr_toList]
    simp
  unfold Reg.reverseTests
  simp only [hsz] at this
  exact this

theorem wf_shuffleTests {r : Reg} (h : r.WF) (rs : List Nat) :
    (r.shuffleTests rs).WF ∧ (r.shuffleTests rs).order.Perm r.order := by
  have hp : (shuffleArr rs (mkArray r.next r.objs.size r.head)).toList.Perm r.order := by
    have := shuffleArr_perm rs (mkArray r.next r.objs.size r.head)
    rwa [h.mkArray_toList] at this
  have := wf_reorder h _ hp
  have hsz : (shuffleArr rs (mkArray r.next r.objs.size r.head)).size = 0 ↔
      (mkArray r.next r.objs.size r.head).size = 0 := by
    rw [← Array.length_toList, ← Array.length_toList (xs := mkArray _ _ _),
      (shuffleArr_perm rs _).length_eq]
  unfold Reg.shuffleTests
  simp only [hsz] at this
  exact ⟨this.1, by rw [this.2]; exact hp⟩

/-- `unDoLastAddTest` drops exactly the head of the list -/
theorem wf_unDoLastAddTest {r : Reg} (h : r.WF) :
    r.unDoLastAddTest.WF ∧ r.unDoLastAddTest.order = r.order.drop 1 := by
  have hl := h.linked
  generalize ho : r.order = l at hl
  generalize hh : r.head = hd at hl
  have key : Linked r.unDoLastAddTest.next r.unDoLastAddTest.head (l.drop 1) := by
    cases hl with
    | nil =>
      simp only [Reg.unDoLastAddTest, hh]
      exact Linked.nil
    | cons hl' =>
      simp only [Reg.unDoLastAddTest, hh, List.drop_succ_cons, List.drop_zero]
      exact hl'
  have hlen : (l.drop 1).length ≤ r.objs.size := by
    have := h.order_length_le; rw [ho] at this; simp; omega
  have hord : r.unDoLastAddTest.order = l.drop 1 := walk_of_linked key _ hlen
  refine ⟨{ linked := ?_, nodup := ?_, bound := ?_, ids := h.ids }, hord⟩
  · rw [hord]; exact key
  · rw [hord]; exact List.Nodup.sublist (List.drop_sublist _ _) (ho ▸ h.nodup)
  · rw [hord]; intro i hi; exact h.bound i (ho ▸ List.mem_of_mem_drop hi)

/-- the shells the run loop visits are the registered ones, each exactly once -/
theorem tests_ids {r : Reg} (h : r.WF) : r.tests.map (·.id) = r.order := by
  unfold Reg.tests
  have hb := h.bound
  generalize r.order = l at hb
  induction l with
  | nil => rfl
  | cons i l ih =>
    have hi : i < r.objs.size := hb i (by simp)
    have hget : r.objs[i]? = some r.objs[i] := by simp [hi]
    simp only [List.filterMap_cons, hget, List.map_cons]
    rw [h.ids i _ hget, ih (fun j hj => hb j (by simp [hj]))]

theorem tests_length {r : Reg} (h : r.WF) : r.tests.length = r.order.length := by
  have := congrArg List.length (tests_ids h)
  simpa using this

/-- changing attributes of the shells through a function that keeps ids: the list is mapped -/
theorem tests_map_objs (r : Reg) (g : Test → Test) :
    ({ r with objs := r.objs.map g } : Reg).tests = r.tests.map g := by
  unfold Reg.tests Reg.order
  simp only [Array.size_map, Array.getElem?_map]
  generalize walk r.next r.objs.size r.head = l
  induction l with
  | nil => rfl
  | cons i l ih =>
    simp only [List.filterMap_cons]
    cases r.objs[i]? with
    | none => simpa using ih
    | some t => simp [ih]

theorem wf_map_objs {r : Reg} (h : r.WF) (g : Test → Test) (hg : ∀ t, (g t).id = t.id) :
    ({ r with objs := r.objs.map g } : Reg).WF := by
  have ho : ({ r with objs := r.objs.map g } : Reg).order = r.order := by
    simp [Reg.order]
  refine { linked := ?_, nodup := ?_, bound := ?_, ids := ?_ }
  · rw [ho]; exact h.linked
  · rw [ho]; exact h.nodup
  · rw [ho]; intro i hi; simpa using h.bound i hi
  · intro i t ht
    simp only [Array.getElem?_map] at ht
    cases hx : r.objs[i]? with
    | none => rw [hx] at ht; simp at ht
    | some u =>
      rw [hx] at ht
      simp at ht
      subst ht
      rw [hg]; exact h.ids i u hx

theorem markRunIgnored_eq (ri : Bool) (ord : List Nat) (objs : Array Test) :
    markRunIgnored ri ord objs =
      objs.map (fun t => if ri && ord.contains t.id then t.setRunIgnored else t) := by
  apply Array.ext'
  simp [markRunIgnored]

theorem setRunIgnored_id (t : Test) : t.setRunIgnored.id = t.id := by
  unfold Test.setRunIgnored; split <;> rfl

/-- after a run with run-ignored on every shell of the list has its flag set; nothing else changes -/
theorem afterRun_tests {r : Reg} (h : r.WF) :
    r.afterRun.tests = r.tests.map (fun t => if r.runIgnored then t.setRunIgnored else t) := by
  unfold Reg.afterRun
  rw [markRunIgnored_eq]
  rw [tests_map_objs r]
  apply List.map_congr_left
  intro t ht
  have hid : t.id ∈ r.order := by
    rw [← tests_ids h]; exact List.mem_map_of_mem ht
  cases r.runIgnored <;> simp [hid]

theorem wf_afterRun {r : Reg} (h : r.WF) : r.afterRun.WF ∧ r.afterRun.order = r.order := by
  have e : r.afterRun = { r with objs := (r.objs.map
      (fun t => if r.runIgnored && r.order.contains t.id then t.setRunIgnored else t)) } := by
    unfold Reg.afterRun; rw [markRunIgnored_eq]
  rw [e]
  refine ⟨wf_map_objs h _ ?_, by simp [Reg.order]⟩
  intro t; split
  · exact setRunIgnored_id t
  · rfl

theorem wf_shellSetRunIgnored {r : Reg} (h : r.WF) (i : Nat) :
    (r.shellSetRunIgnored i).WF ∧ (r.shellSetRunIgnored i).order = r.order := by
  have ho : (r.shellSetRunIgnored i).order = r.order := by
    simp [Reg.shellSetRunIgnored, Reg.order]
  refine ⟨{ linked := ?_, nodup := ?_, bound := ?_, ids := ?_ }, ho⟩
  · rw [ho]; exact h.linked
  · rw [ho]; exact h.nodup
  · rw [ho]; intro j hj; simpa [Reg.shellSetRunIgnored] using h.bound j hj
  · intro j t ht
    simp only [Reg.shellSetRunIgnored, Array.getElem?_modify] at ht
    split at ht
    · cases hx : r.objs[j]? with
      | none => rw [hx] at ht; simp at ht
      | some u =>
        rw [hx] at ht
        simp at ht
        subst ht
        rw [setRunIgnored_id]; exact h.ids j u hx
    · exact h.ids j t ht

/-! ## runs in terms of keys; the repeat loop -/

theorem runAllTests_counters (cfg : Cfg) (ts : List Test) :
    (runAllTests cfg ts).1 = countersOfKeys (ts.map (Test.key cfg)) := by
  obtain ⟨h1, h2, h3, h4⟩ := runLoop_counts cfg ts true {}
  have z1 : ({} : Counters).testCount = 0 := rfl
  have z2 : ({} : Counters).runCount = 0 := rfl
  have z3 : ({} : Counters).ignoredCount = 0 := rfl
  have z4 : ({} : Counters).filteredOutCount = 0 := rfl
  rw [z1] at h1; rw [z2] at h2; rw [z3] at h3; rw [z4] at h4
  simp only [runAllTests]
  cases hx : (runLoop cfg true ts {}).1
  rw [hx] at h1 h2 h3 h4
  simp only [countersOfKeys, List.length_map, List.filter_map, Counters.mk.injEq]
  simp only at h1 h2 h3 h4
  refine ⟨by omega, ?_, ?_, ?_⟩
  · rw [h2]; simp [Test.key, Function.comp_def]
  · rw [h3]; simp [Test.key, Function.comp_def]
  · rw [h4]; simp [Test.key, Function.comp_def]

theorem runAllTests_executed (cfg : Cfg) (ts : List Test) :
    executed (runAllTests cfg ts).2 = execOfKeys (ts.map (Test.key cfg)) := by
  simp only [runAllTests, executed_append, runLoop_executed, execOfKeys, List.filter_map,
    List.map_map]
  simp [executed, Test.key, Function.comp_def]

theorem runAllTests_started (cfg : Cfg) (ts : List Test) :
    started (runAllTests cfg ts).2 = startOfKeys (ts.map (Test.key cfg)) := by
  simp only [runAllTests, started_append, runLoop_started, startOfKeys, List.filter_map,
    List.map_map]
  simp [started, Test.key, Function.comp_def]

theorem runOf_run (r : Reg) : RunOf r.keys r.run :=
  ⟨runAllTests_counters _ _, by rw [Reg.run, runAllTests_executed]; exact List.Perm.refl _,
   by rw [Reg.run, runAllTests_started]; exact List.Perm.refl _, balanced_runAllTests _ _⟩

theorem countersOfKeys_perm {K K' : List Key} (h : K'.Perm K) :
    countersOfKeys K' = countersOfKeys K := by
  simp only [countersOfKeys, h.length_eq, (h.filter _).length_eq]

theorem runOf_perm {K K' : List Key} (h : K'.Perm K) (ce : Counters × List Ev) :
    RunOf K' ce → RunOf K ce := by
  rintro ⟨h1, h2, h3, h4⟩
  exact ⟨by rw [h1, countersOfKeys_perm h], h2.trans ((h.filter _).map _),
    h3.trans ((h.filter _).map _), h4⟩

theorem key_setRunIgnored (cfg : Cfg) (t : Test) (hri : cfg.runIgnored = true) :
    Test.key cfg t.setRunIgnored = Test.key cfg t := by
  unfold Test.key Test.setRunIgnored
  split
  · simp [willRun, hri, shouldRun]
  · rfl

theorem keys_afterRun {r : Reg} (h : r.WF) : r.afterRun.keys = r.keys := by
  have hc : r.afterRun.cfg = r.cfg := rfl
  unfold Reg.keys
  rw [hc, afterRun_tests h, List.map_map]
  apply List.map_congr_left
  intro t _
  simp only [Function.comp]
  cases hri : r.runIgnored
  · simp
  · simp only [if_true]
    exact key_setRunIgnored r.cfg t hri

theorem keys_shuffleTests {r : Reg} (h : r.WF) (rs : List Nat) :
    (r.shuffleTests rs).keys.Perm r.keys := by
  have hc : (r.shuffleTests rs).cfg = r.cfg := rfl
  unfold Reg.keys
  rw [hc]
  apply List.Perm.map
  unfold Reg.tests
  exact (wf_shuffleTests h rs).2.filterMap _

theorem runsOf_append (a b : List ROut) : runsOf (a ++ b) = runsOf a ++ runsOf b := by
  simp [runsOf]

theorem runsOf_printTestRun (n t : Nat) : runsOf (printTestRun n t) = [] := by
  unfold printTestRun; split <;> simp [runsOf]

/-- the repeat loop: `k` repetitions, each of which runs every selected test exactly once;
    the list stays a proper list holding the same shells -/
theorem repeatLoop_spec (shuf : Bool) (total : Nat) :
    ∀ (k lc : Nat) (r : Reg) (rs : List Nat), r.WF →
      (repeatLoop shuf total k lc r rs).reg.WF ∧
      (repeatLoop shuf total k lc r rs).reg.order.Perm r.order ∧
      (runsOf (repeatLoop shuf total k lc r rs).out).length = k ∧
      (∀ ce ∈ runsOf (repeatLoop shuf total k lc r rs).out, RunOf r.keys ce) ∧
      (repeatLoop shuf total k lc r rs).failed = (if ranNothing (countersOfKeys r.keys) then k else 0)
  | 0, lc, r, rs, h => by
    simp [repeatLoop, runsOf]
    exact h
  | k + 1, lc, r, rs, h => by
    simp only [repeatLoop]
    generalize hr1 : (if shuf = true then r.shuffleTests (rs.take (randsNeeded r.order.length)) else r) = r1
    have h1 : r1.WF ∧ r1.order.Perm r.order ∧ r1.keys.Perm r.keys := by
      subst hr1
      cases shuf
      · exact ⟨h, List.Perm.refl _, List.Perm.refl _⟩
      · exact ⟨(wf_shuffleTests h _).1, (wf_shuffleTests h _).2, keys_shuffleTests h _⟩
    obtain ⟨hw1, ho1, hk1⟩ := h1
    have ha := wf_afterRun hw1
    have ih := repeatLoop_spec shuf total k (lc + 1) r1.afterRun
      (if shuf = true then rs.drop (randsNeeded r.order.length) else rs) ha.1
    obtain ⟨i1, i2, i3, i4, i5⟩ := ih
    have hkeys : r1.afterRun.keys.Perm r.keys := by rw [keys_afterRun hw1]; exact hk1
    refine ⟨i1, ?_, ?_, ?_, ?_⟩
    · rw [ha.2] at i2; exact i2.trans ho1
    · simp only [runsOf_append, runsOf_printTestRun, List.nil_append, List.length_append, i3]
      simp [runsOf]; omega
    · intro ce hce
      simp only [runsOf_append, runsOf_printTestRun, List.nil_append, List.mem_append] at hce
      rcases hce with hce | hce
      · simp [runsOf] at hce
        subst hce
        exact runOf_perm hk1 _ (runOf_run r1)
      · exact runOf_perm hkeys _ (i4 ce hce)
    · rw [i5]
      have e1 : r1.run.1 = countersOfKeys r.keys := by
        rw [(runOf_run r1).1, countersOfKeys_perm hk1]
      have e2 : countersOfKeys r1.afterRun.keys = countersOfKeys r.keys := countersOfKeys_perm hkeys
      rw [e1, e2]
      split <;> omega

/-! ## queries -/

theorem findTestWithName_eq (name : Bytes) : ∀ ts : List Test,
    findTestWithName name ts = (ts.find? (fun t => t.name == name)).map (·.id)
  | [] => rfl
  | t :: rest => by
    simp only [findTestWithName, List.find?_cons]
    cases t.name == name <;> simp [findTestWithName_eq name rest]

theorem findTestWithGroup_eq (group : Bytes) : ∀ ts : List Test,
    findTestWithGroup group ts = (ts.find? (fun t => t.group == group)).map (·.id)
  | [] => rfl
  | t :: rest => by
    simp only [findTestWithGroup, List.find?_cons]
    cases t.group == group <;> simp [findTestWithGroup_eq group rest]

theorem countTestsList_eq : ∀ ts : List Test, countTestsList ts = ts.length
  | [] => rfl
  | _ :: rest => by simp [countTestsList, countTestsList_eq rest]

theorem getTestWithNext_null : ∀ ts : List Test,
    getTestWithNext none ts = ts.getLast?.map (·.id)
  | [] => rfl
  | [t] => by simp [getTestWithNext]
  | t :: n :: rest => by
    simp only [getTestWithNext, List.getLast?_cons_cons]
    simpa using getTestWithNext_null (n :: rest)

/-- nobody's successor: the head of the list, or a shell that is not in the list -/
theorem getTestWithNext_not_in_tail (i : Nat) : ∀ ts : List Test,
    i ∉ (ts.drop 1).map (·.id) → getTestWithNext (some i) ts = none
  | [], _ => rfl
  | [t], _ => by simp [getTestWithNext]
  | t :: n :: rest, h => by
    simp only [List.drop_succ_cons, List.drop_zero, List.map_cons, List.mem_cons, not_or] at h
    have hne : ¬ (some i = some n.id) := by
      intro e; exact h.1 (Option.some.inj e)
    simp only [getTestWithNext, hne, if_false]
    exact getTestWithNext_not_in_tail i (n :: rest) (by simpa using h.2)

theorem getTestWithNext_pred (p x : Test) (post : List Test) : ∀ pre : List Test,
    ((pre ++ p :: x :: post).map (·.id)).Nodup →
    getTestWithNext (some x.id) (pre ++ p :: x :: post) = some p.id
  | [], _ => by simp [getTestWithNext]
  | [a], h => by
    have hne : p.id ≠ x.id := by
      simp only [List.cons_append, List.nil_append, List.map_cons, List.nodup_cons, List.mem_cons,
        not_or] at h
      exact h.2.1.1
    have : ¬ (some x.id = some p.id) := fun e => hne (Option.some.inj e).symm
    simp [getTestWithNext, this]
  | a :: b :: pre, h => by
    have hn : ((b :: pre ++ p :: x :: post).map (·.id)).Nodup := by
      simp only [List.cons_append, List.map_cons, List.nodup_cons] at h ⊢
      exact h.2
    have hne : b.id ≠ x.id := by
      simp only [List.cons_append, List.map_cons, List.nodup_cons, List.mem_map, List.mem_append,
        List.mem_cons] at hn
      intro e
      exact hn.1 ⟨x, Or.inr (Or.inr (Or.inl rfl)), e.symm⟩
    have : ¬ (some x.id = some b.id) := fun e => hne (Option.some.inj e).symm
    simp only [List.cons_append, getTestWithNext, this, if_false]
    exact getTestWithNext_pred p x post (b :: pre) hn

/-! ## list modes -/

theorem lgLoop_eq_accLoop : ∀ (ts : List Test) (acc : Bytes),
    lgLoop ts acc = accLoop (ts.map groupEntry) acc
  | [], _ => rfl
  | t :: rest, acc => by
    simp only [lgLoop, List.map_cons, accLoop, groupEntry]
    split
    · exact lgLoop_eq_accLoop rest acc
    · exact lgLoop_eq_accLoop rest _

/-- `-ln` lists exactly the tests the filters select (the others are counted as filtered out) -/
theorem lnLoop_eq (cfg : Cfg) : ∀ (ts : List Test) (acc : Bytes) (c : Counters),
    (lnLoop cfg ts acc c).1 = accLoop ((ts.filter (shouldRun cfg)).map groupDotName) acc ∧
    (lnLoop cfg ts acc c).2 =
      { c with filteredOutCount := c.filteredOutCount + (ts.filter (fun t => !shouldRun cfg t)).length }
  | [], _, _ => by simp [lnLoop, accLoop]
  | t :: rest, acc, c => by
    simp only [lnLoop]
    cases hs : shouldRun cfg t
    · have ih := lnLoop_eq cfg rest acc c.countFilteredOut
      simp only [Bool.false_eq_true, if_false, List.filter_cons, hs, Bool.not_false, if_true,
        List.length_cons]
      refine ⟨ih.1, ?_⟩
      rw [ih.2]
      simp only [Counters.countFilteredOut]
      congr 1; omega
    · simp only [if_true, List.filter_cons, hs, List.map_cons, accLoop, Bool.not_true,
        Bool.false_eq_true, if_false]
      split
      · exact lnLoop_eq cfg rest acc c
      · exact lnLoop_eq cfg rest _ c

theorem isInfix_mono (acc x b : Bytes) (h : Text.isInfix acc b = true) :
    Text.isInfix (acc ++ x) b = true := by
  rw [isInfix_iff] at h ⊢
  exact h.trans (List.prefix_append acc x).isInfix

theorem isInfix_self_mid (acc e x : Bytes) : Text.isInfix (acc ++ e ++ x) e = true := by
  rw [isInfix_iff]
  exact List.infix_append acc e x

/-- what the accumulation holds: the entries of a duplicate-free sublist (order kept) of the
    given entries, none of which occurred before -/
theorem accLoop_structure : ∀ (es : List Bytes) (acc : Bytes),
    ∃ ds : List Bytes, ds.Sublist es ∧ accLoop es acc = acc ++ encEntries ds ∧ ds.Nodup ∧
      ∀ d ∈ ds, Text.isInfix acc d = false
  | [], acc => ⟨[], List.Sublist.refl _, by simp [accLoop, encEntries], List.nodup_nil, by simp⟩
  | e :: es, acc => by
    simp only [accLoop]
    cases he : Text.isInfix acc e
    · obtain ⟨ds, h1, h2, h3, h4⟩ := accLoop_structure es (acc ++ e ++ [space])
      refine ⟨e :: ds, h1.cons_cons e, ?_, ?_, ?_⟩
      · simp only [Bool.false_eq_true, if_false]
        rw [h2]
        simp only [encEntries, List.flatMap_cons, List.append_assoc]
      · refine List.nodup_cons.mpr ⟨?_, h3⟩
        intro hm
        have := h4 e hm
        rw [isInfix_self_mid] at this
        cases this
      · intro d hd
        simp only [List.mem_cons] at hd
        rcases hd with rfl | hd
        · exact he
        · cases hx : Text.isInfix acc d
          · rfl
          · have := isInfix_mono acc (e ++ [space]) d hx
            rw [← List.append_assoc] at this
            rw [h4 d hd] at this
            cases this
    · obtain ⟨ds, h1, h2, h3, h4⟩ := accLoop_structure es acc
      exact ⟨ds, h1.cons e, by simpa using h2, h3, h4⟩

/-- nothing is missing: every given entry occurs in the accumulated text -/
theorem accLoop_complete : ∀ (es : List Bytes) (acc : Bytes),
    (∀ b, Text.isInfix acc b = true → Text.isInfix (accLoop es acc) b = true) ∧
    ∀ e ∈ es, Text.isInfix (accLoop es acc) e = true
  | [], acc => by simp [accLoop]
  | e :: es, acc => by
    simp only [accLoop]
    cases he : Text.isInfix acc e
    · obtain ⟨m, c⟩ := accLoop_complete es (acc ++ e ++ [space])
      simp only [Bool.false_eq_true, if_false]
      refine ⟨fun b hb => m b (by rw [List.append_assoc]; exact isInfix_mono acc _ b hb), ?_⟩
      intro d hd
      simp only [List.mem_cons] at hd
      rcases hd with rfl | hd
      · exact m _ (isInfix_self_mid acc _ [space])
      · exact c d hd
    · obtain ⟨m, c⟩ := accLoop_complete es acc
      simp only [if_true]
      refine ⟨m, ?_⟩
      intro d hd
      simp only [List.mem_cons] at hd
      rcases hd with rfl | hd
      · exact m _ he
      · exact c d hd

/-! ## group blocks -/

theorem groupBlocks_ne_nil : ∀ (ts : List Test), ts ≠ [] → groupBlocks ts ≠ []
  | [], h => absurd rfl h
  | t :: rest, _ => by
    simp only [groupBlocks]
    split
    · simp
    · split <;> simp

theorem groupBlocks_flatten : ∀ (ts : List Test), (groupBlocks ts).flatten = ts
  | [] => by simp [groupBlocks]
  | t :: rest => by
    have ih := groupBlocks_flatten rest
    simp only [groupBlocks]
    split
    · simp [ih]
    · rename_i he
      cases rest with
      | nil => simp [endOfGroup_nil] at he
      | cons n rest' =>
        cases hb : groupBlocks (n :: rest') with
        | nil => exact absurd hb (groupBlocks_ne_nil _ (by simp))
        | cons b bs =>
          rw [hb] at ih
          simp only [List.flatten_cons] at ih ⊢
          rw [← ih]; simp

theorem groupBlocks_block_ne_nil : ∀ (ts : List Test) (b : List Test), b ∈ groupBlocks ts → b ≠ []
  | [], b, h => by simp [groupBlocks] at h
  | t :: rest, b, h => by
    simp only [groupBlocks] at h
    split at h
    · simp only [List.mem_cons] at h
      rcases h with rfl | h
      · simp
      · exact groupBlocks_block_ne_nil rest b h
    · cases hb : groupBlocks rest with
      | nil => rw [hb] at h; simp at h; subst h; simp
      | cons b' bs =>
        rw [hb] at h
        simp only [List.mem_cons] at h
        rcases h with rfl | h
        · simp
        · exact groupBlocks_block_ne_nil rest b (by rw [hb]; simp [h])

/-- the head of the first block is the head of the list -/
theorem groupBlocks_head (t : Test) (rest : List Test) :
    ∃ b bs, groupBlocks (t :: rest) = (t :: b) :: bs := by
  simp only [groupBlocks]
  split
  · exact ⟨[], _, rfl⟩
  · split
    · exact ⟨[], [], rfl⟩
    · exact ⟨_, _, rfl⟩

/-- all tests between a group start and its group end carry the same group name -/
theorem groupBlocks_same_group : ∀ (ts : List Test) (b : List Test), b ∈ groupBlocks ts →
    ∀ t ∈ b, ∀ t' ∈ b, t.group = t'.group
  | [], b, h => by simp [groupBlocks] at h
  | t :: rest, b, h => by
    simp only [groupBlocks] at h
    split at h
    · simp only [List.mem_cons] at h
      rcases h with rfl | h
      · intro a ha a' ha'; simp at ha ha'; rw [ha, ha']
      · exact groupBlocks_same_group rest b h
    · rename_i he
      cases rest with
      | nil => simp [endOfGroup_nil] at he
      | cons n rest' =>
        obtain ⟨b0, bs, hb⟩ := groupBlocks_head n rest'
        rw [hb] at h
        simp only [List.mem_cons] at h
        have hg : t.group = n.group := by
          rw [endOfGroup_cons] at he
          simpa using he
        rcases h with rfl | h
        · have ih := groupBlocks_same_group (n :: rest') (n :: b0) (by rw [hb]; simp)
          have key : ∀ a ∈ t :: n :: b0, a.group = n.group := by
            intro a ha
            simp only [List.mem_cons] at ha
            rcases ha with rfl | ha
            · exact hg
            · exact ih a (by simpa using ha) n (by simp)
          intro a ha a' ha'
          rw [key a ha, key a' ha']
        · exact groupBlocks_same_group (n :: rest') b (by rw [hb]; simp [h])

theorem groupBlocks_cons_end (t : Test) (rest : List Test) (he : endOfGroup t rest = true) :
    groupBlocks (t :: rest) = [t] :: groupBlocks rest := by
  simp [groupBlocks, he]

theorem groupBlocks_cons_mid (t : Test) (rest b : List Test) (bs : List (List Test))
    (he : endOfGroup t rest = false) (hb : groupBlocks rest = b :: bs) :
    groupBlocks (t :: rest) = (t :: b) :: bs := by
  simp [groupBlocks, he, hb]

def blockHeads (bs : List (List Test)) : List Nat := bs.filterMap (fun b => b.head?.map (·.id))
def blockLasts (bs : List (List Test)) : List Nat := bs.filterMap (fun b => b.getLast?.map (·.id))

theorem groupStarts_append (a b : List Ev) : groupStarts (a ++ b) = groupStarts a ++ groupStarts b := by
  simp [groupStarts]
theorem groupEnds_append (a b : List Ev) : groupEnds (a ++ b) = groupEnds a ++ groupEnds b := by
  simp [groupEnds]

theorem groupStarts_testStep (cfg : Cfg) (t : Test) (c : Counters) :
    groupStarts (testStep cfg t c).2 = [] := by
  rw [testStep_eq]
  cases shouldRun cfg t <;> cases willRun cfg t <;> simp [groupStarts]

theorem groupEnds_testStep (cfg : Cfg) (t : Test) (c : Counters) :
    groupEnds (testStep cfg t c).2 = [] := by
  rw [testStep_eq]
  cases shouldRun cfg t <;> cases willRun cfg t <;> simp [groupEnds]

/-- group-start callbacks are issued exactly for the first test of every block (when the loop
    is entered inside a group the first block was already announced) -/
theorem runLoop_groupStarts (cfg : Cfg) : ∀ (ts : List Test) (gs : Bool) (c : Counters),
    groupStarts (runLoop cfg gs ts c).2 =
      if gs then blockHeads (groupBlocks ts) else (blockHeads (groupBlocks ts)).drop 1
  | [], gs, c => by cases gs <;> simp [runLoop, groupStarts, groupBlocks, blockHeads]
  | t :: rest, gs, c => by
    have ih := runLoop_groupStarts cfg rest (endOfGroup t rest) (testStep cfg t c).1
    simp only [runLoop, groupStarts_append, groupStarts_testStep, ih]
    cases he : endOfGroup t rest with
    | true =>
      rw [groupBlocks_cons_end t rest he]
      cases gs <;> simp [groupStarts, blockHeads]
    | false =>
      cases rest with
      | nil => simp [endOfGroup_nil] at he
      | cons n rest' =>
        obtain ⟨b0, bs, hb⟩ := groupBlocks_head n rest'
        rw [groupBlocks_cons_mid t _ _ _ he hb, hb]
        cases gs <;> simp [groupStarts, blockHeads]

/-- group-end callbacks are issued exactly for the last test of every block -/
theorem runLoop_groupEnds (cfg : Cfg) : ∀ (ts : List Test) (gs : Bool) (c : Counters),
    groupEnds (runLoop cfg gs ts c).2 = blockLasts (groupBlocks ts)
  | [], gs, c => by simp [runLoop, groupEnds, groupBlocks, blockLasts]
  | t :: rest, gs, c => by
    have ih := runLoop_groupEnds cfg rest (endOfGroup t rest) (testStep cfg t c).1
    simp only [runLoop, groupEnds_append, groupEnds_testStep, ih]
    cases he : endOfGroup t rest with
    | true =>
      rw [groupBlocks_cons_end t rest he]
      cases gs <;> simp [groupEnds, blockLasts]
    | false =>
      cases rest with
      | nil => simp [endOfGroup_nil] at he
      | cons n rest' =>
        obtain ⟨b0, bs, hb⟩ := groupBlocks_head n rest'
        rw [groupBlocks_cons_mid t _ _ _ he hb, hb]
        have hl : (t :: n :: b0).getLast? = (n :: b0).getLast? := List.getLast?_cons_cons
        cases gs <;> simp [groupEnds, blockLasts, List.filterMap_cons, hl]

end Registry
