import CppUModel.Spec.MockValue
import CppUModel.Model.MockNamedValueList
/-!
Helper lemmas for C09: C integer conversions on `BitVec` expressed through `toInt` / `toNat`
(so that `omega` can finish), without the SAT-based bit-vector tactic.
-/
namespace Mock

theorem toInt_cases32 (x : BitVec 32) :
    (x.toNat < 2147483648 ∧ x.toInt = x.toNat) ∨
    (2147483648 ≤ x.toNat ∧ x.toNat < 4294967296 ∧ x.toInt = (x.toNat : Int) - 4294967296) := by
  have := x.isLt
  rw [BitVec.toInt_eq_toNat_cond]
  by_cases h : 2 * x.toNat < 2 ^ 32
  · rw [if_pos h]; omega
  · rw [if_neg h]; simp only [Nat.reducePow] at *; omega

theorem toInt_cases64 (x : BitVec 64) :
    (x.toNat < 9223372036854775808 ∧ x.toInt = x.toNat) ∨
    (9223372036854775808 ≤ x.toNat ∧ x.toNat < 18446744073709551616 ∧
      x.toInt = (x.toNat : Int) - 18446744073709551616) := by
  have := x.isLt
  rw [BitVec.toInt_eq_toNat_cond]
  by_cases h : 2 * x.toNat < 2 ^ 64
  · rw [if_pos h]; omega
  · rw [if_neg h]; simp only [Nat.reducePow] at *; omega

/-- zero extension 32 → 64 keeps the unsigned value (and the result is non-negative as a signed number) -/
theorem toInt_zext_32_64 (x : BitVec 32) : (x.setWidth 64).toInt = x.toNat := by
  have := x.isLt
  rw [BitVec.toInt_eq_toNat_cond, BitVec.toNat_setWidth]
  have h : x.toNat % 2 ^ 64 = x.toNat := Nat.mod_eq_of_lt (by omega)
  rw [h, if_pos (by omega)]

/-- sign extension 32 → 64 keeps the signed value -/
theorem toInt_sext_32_64 (x : BitVec 32) : (x.signExtend 64).toInt = x.toInt :=
  BitVec.toInt_signExtend_of_le (by omega)


/-- the unsigned reading of a sign-extended 32-bit value -/
theorem toNat_sext_32_64 (x : BitVec 32) :
    (0 ≤ x.toInt ∧ ((x.signExtend 64).toNat : Int) = x.toInt) ∨
    (x.toInt < 0 ∧ ((x.signExtend 64).toNat : Int) = x.toInt + 18446744073709551616) := by
  have h1 := toInt_cases64 (x.signExtend 64)
  have h2 := toInt_sext_32_64 x
  have h3 := toInt_cases32 x
  omega

/-! ## strings and buffers -/

theorem u8_toNat_ne {x y : UInt8} (h : x ≠ y) : x.toNat ≠ y.toNat := fun e => h (UInt8.toNat_inj.mp e)

/-- `StrCmp` is 0 exactly on equal C strings -/
theorem cmp_eq_zero_iff : ∀ (a b : Bytes), NulFree a → NulFree b → (Text.cmp a b = 0 ↔ a = b)
  | [], [], _, _ => by simp [Text.cmp]
  | [], y :: ys, _, hb => by
    have h0 : y ≠ 0 := hb y (by simp)
    have := u8_toNat_ne h0
    simp [Text.cmp] at *; omega
  | x :: xs, [], ha, _ => by
    have h0 : x ≠ 0 := ha x (by simp)
    have := u8_toNat_ne h0
    simp [Text.cmp] at *; omega
  | x :: xs, y :: ys, ha, hb => by
    have ih := cmp_eq_zero_iff xs ys (fun c hc => ha c (by simp [hc])) (fun c hc => hb c (by simp [hc]))
    by_cases h : x = y
    · simp [Text.cmp, h, ih]
    · have := u8_toNat_ne h
      simp [Text.cmp, h]; omega

/-- the `int` difference of two different bytes is not 0 -/
theorem ofInt32_byte_diff_ne_zero (x y : UInt8) (h : x ≠ y) :
    BitVec.ofInt 32 ((x.toNat : Int) - (y.toNat : Int)) ≠ 0#32 := by
  intro he
  have hn := u8_toNat_ne h
  have hx := x.toNat_lt
  have hy := y.toNat_lt
  have h2 := congrArg BitVec.toInt he
  rw [BitVec.toInt_ofInt] at h2
  simp at h2
  simp only [Nat.reducePow] at hx hy
  rw [Int.bmod_def] at h2
  split at h2 <;> omega

/-- `MemCmp` over the whole (common) length is 0 exactly on equal buffers -/
theorem memCmp_eq_zero_iff : ∀ (a b : Bytes), a.length = b.length → (MemCmp a b a.length = 0#32 ↔ a = b)
  | [], [], _ => by simp [MemCmp]
  | [], _ :: _, h => by simp at h
  | _ :: _, [], h => by simp at h
  | x :: xs, y :: ys, h => by
    have ih := memCmp_eq_zero_iff xs ys (by simpa using h)
    by_cases hxy : x = y
    · simp [MemCmp, hxy, ih]
    · simp [MemCmp, hxy, ofInt32_byte_diff_ne_zero x y hxy]

theorem ofNat64_length_eq_iff (a b : Bytes) (ha : SizeOk a) (hb : SizeOk b) :
    BitVec.ofNat 64 a.length = BitVec.ofNat 64 b.length ↔ a.length = b.length := by
  unfold SizeOk at ha hb
  constructor
  · intro h
    have := congrArg BitVec.toNat h
    simp only [BitVec.toNat_ofNat] at this
    rw [Nat.mod_eq_of_lt ha, Nat.mod_eq_of_lt hb] at this
    exact this
  · intro h; rw [h]

theorem toNat_ofNat64_length (a : Bytes) (ha : SizeOk a) : (BitVec.ofNat 64 a.length).toNat = a.length := by
  unfold SizeOk at ha
  simp only [BitVec.toNat_ofNat]
  exact Nat.mod_eq_of_lt ha

/-- a well-formed custom object value answers "no" to every built-in type-name test -/
theorem obj_type_beq_false (ty : String) (a : Nat) (c : Option (Nat → Nat → Bool)) (hw : (MVal.obj ty a c).WF)
    (s : String) (hs : s ∈ builtinTypeNames) : ((MVal.obj ty a c).type_ == s) = false := by
  simp only [MVal.WF] at hw
  simp only [MVal.type_, beq_eq_false_iff_ne, ne_eq]
  intro e; subst e; exact hw hs

/-! ## rendering -/

theorem binaryLoop_ne_nil (x : UInt8) (xs : Bytes) (n : Nat) : binaryLoop (x :: xs) (n + 1) ≠ [] := by
  simp [binaryLoop, hex2U]

/-- the loop-and-trim of `StringFromBinary` is the blank-separated list of `%02X` renderings -/
theorem stringFromBinary_eq : ∀ (b : Bytes) (n : Nat), n ≤ b.length →
    StringFromBinary b n = List.intercalate [32] ((b.take n).map hex2U)
  | _, 0, _ => by simp [StringFromBinary, binaryLoop]
  | [], n + 1, h => by simp at h
  | [x], 1, _ => by simp [StringFromBinary, binaryLoop, hex2U, List.intercalate]
  | [x], n + 2, h => by simp at h
  | x :: y :: ys, n + 1, h => by
    cases n with
    | zero => simp [StringFromBinary, binaryLoop, hex2U, List.intercalate]
    | succ m =>
      have ih := stringFromBinary_eq (y :: ys) (m + 1) (by simp at h ⊢; omega)
      unfold StringFromBinary at ih ⊢
      have hne := binaryLoop_ne_nil y ys m
      rw [show binaryLoop (x :: y :: ys) (m + 1 + 1) = (hex2U x ++ [32]) ++ binaryLoop (y :: ys) (m + 1) by simp [binaryLoop]]
      rw [List.dropLast_append_of_ne_nil hne, ih]
      simp [List.intercalate, List.take]

/-- the bit pattern of a signed value is the value modulo 2^width -/
theorem toNat_eq_toInt_emod32 (x : BitVec 32) : x.toNat = (x.toInt % 4294967296).toNat := by
  have := toInt_cases32 x; omega
theorem toNat_eq_toInt_emod64 (x : BitVec 64) : x.toNat = (x.toInt % 18446744073709551616).toNat := by
  have := toInt_cases64 x; omega

theorem decInt_ofNat (n : Nat) : decInt (n : Int) = decNat n := by
  have h : ¬ ((n : Int) < 0) := by omega
  simp [decInt, h]

/-! ## list and repository -/

theorem nlist_add_eq_append {α} : ∀ (l : NList α) (x : Bytes × α), l.add x = l ++ [x]
  | [], _ => rfl
  | h :: t, x => by simp [NList.add, nlist_add_eq_append t x]

theorem nlist_get_append {α} : ∀ (l1 l2 : NList α) (name : Bytes),
    (l1 ++ l2).getValueByName name =
      match l1.getValueByName name with
      | some a => some a
      | none => l2.getValueByName name
  | [], _, _ => by simp [NList.getValueByName]
  | (n, a) :: t, l2, name => by
    simp only [List.cons_append, NList.getValueByName]
    split
    · rfl
    · exact nlist_get_append t l2 name

theorem repo_installAll_eq : ∀ (r other : Repo), r.installAll other = other.reverse ++ r
  | _, [] => by simp [Repo.installAll]
  | r, n :: rest => by simp [Repo.installAll, repo_installAll_eq (n :: r) rest]

theorem repo_getComparator_append : ∀ (r1 r2 : Repo) (name : String),
    Repo.getComparatorForType (r1 ++ r2) name =
      match Repo.getComparatorForType r1 name with
      | some c => some c
      | none => Repo.getComparatorForType r2 name
  | [], _, _ => by simp [Repo.getComparatorForType]
  | n :: t, r2, name => by
    simp only [List.cons_append, Repo.getComparatorForType]
    split
    · rename_i h
      simp only [Bool.and_eq_true] at h
      cases hc : n.comparator with
      | none => simp [hc] at h
      | some c => rfl
    · exact repo_getComparator_append t r2 name

theorem repo_getCopier_append : ∀ (r1 r2 : Repo) (name : String),
    Repo.getCopierForType (r1 ++ r2) name =
      match Repo.getCopierForType r1 name with
      | some c => some c
      | none => Repo.getCopierForType r2 name
  | [], _, _ => by simp [Repo.getCopierForType]
  | n :: t, r2, name => by
    simp only [List.cons_append, Repo.getCopierForType]
    split
    · rename_i h
      simp only [Bool.and_eq_true] at h
      cases hc : n.copier with
      | none => simp [hc] at h
      | some c => rfl
    · exact repo_getCopier_append t r2 name

end Mock
