import CppUModel.Proofs.ComposeLeak
import CppUModel.Proofs.AllocLayout
/-!
Helper lemmas of the composition theorems `Props/C05x.lean`: the byte-layout model of the tracked allocation
paths `Model/AllocLayout.lean` (C05, `size_t` = `BitVec 64`, regenerated size expressions) against the table model
`Model/LeakDetector.lean` (C04/C06, sizes = `Nat` with explicit `wrap64`).
-/
namespace Compose.Alloc
open AllocLayout

/-! ## the size arithmetic of the two models (default build: corruption check compiled in) -/

theorem align_toNat (x : W) : (align defaultCfg x).toNat = LeakDetector.alignedSize x.toNat := by
  have hx := x.isLt
  simp only [align, defaultCfg, if_true, Gen.AllocLayout.calculateVoidPointerAlignedSizeCheck,
    LeakDetector.alignedSize, LeakDetector.wrap64, Gen.LeakDetector.pointerBytes,
    BitVec.toNat_add, BitVec.toNat_sub, BitVec.toNat_umod, BitVec.toNat_ofNat, Nat.reducePow, Nat.reduceMod]
  omega

theorem swci_toNat_eq (size : W) : (swci defaultCfg size).toNat = LeakDetector.sizeWithCorruptionInfo size.toNat := by
  unfold swci Gen.AllocLayout.sizeOfMemoryWithCorruptionInfo LeakDetector.sizeWithCorruptionInfo
  rw [align_toNat]
  congr 1

theorem allocReq_toNat_eq (sep : Bool) (size : W) :
    (allocReq defaultCfg sep size).toNat = LeakDetector.requestSize size.toNat sep := by
  cases sep
  · simp only [allocReq, Bool.false_eq_true, if_false, Gen.AllocLayout.allocRequestInline, LeakDetector.requestSize,
      BitVec.toNat_add, swci_toNat_eq]
    rfl
  · simp only [allocReq, if_true, Gen.AllocLayout.allocRequestSeparate, LeakDetector.requestSize, swci_toNat_eq]

theorem rejectsAlloc_eq (size : W) : rejectsAlloc defaultCfg size = LeakDetector.sizeOverflows size.toNat := by
  simp only [rejectsAlloc, Gen.AllocLayout.allocOverflowGuard, LeakDetector.sizeOverflows, BitVec.ult,
    BitVec.toNat_add, swci_toNat_eq]
  rfl

/-! ## what the layout model's operations do to its record list -/

/-- the operation ran to its end and returned a pointer or NULL (no undefined behaviour, no test failure raised
    by an allocator, no `std::bad_alloc`) -/
def Completed : Outcome → Prop
  | .ptr _ => True
  | .null => True
  | _ => False

instance (o : Outcome) : Decidable (Completed o) :=
  match o with
  | .ptr _ => isTrue trivial
  | .null => isTrue trivial
  | .badAlloc => isFalse (fun h => h)
  | .testFail => isFalse (fun h => h)
  | .ub _ => isFalse (fun h => h)

theorem store_spec (c : Cfg) (img : NodeImage) (s : State) (r : Rec) (evs : List Ev)
    (hc : Completed (store c img s r evs).2.2) :
    (store c img s r evs).1.tracked = r :: s.tracked ∧ (store c img s r evs).1.seq = s.seq + 1 ∧
      (store c img s r evs).2.2 = .ptr r.id := by
  unfold store at hc ⊢
  cases hw : writeNode c img s.mem r with
  | none => simp [hw, Completed] at hc
  | some m1 =>
    simp only [hw] at hc ⊢
    cases hg : writeGuard c m1 r with
    | none => simp [hg, Completed] at hc
    | some m2 => exact ⟨rfl, rfl, rfl⟩

theorem account_spec (c : Cfg) (img : NodeImage) (s : State) (fam : Nat) (size : W) (sep : Bool) (id : Nat) (a2 : Ans)
    (evs : List Ev) (hc : Completed (account c img s fam size sep id a2 evs).2.2) :
    (sep = true → a2.isNull = false) ∧
    (∃ nid, (account c img s fam size sep id a2 evs).1.tracked = ⟨id, size, fam, sep, nid, s.seq⟩ :: s.tracked) ∧
    (account c img s fam size sep id a2 evs).1.seq = s.seq + 1 ∧
    (account c img s fam size sep id a2 evs).2.2 = .ptr id := by
  cases sep with
  | false =>
    have e : account c img s fam size false id a2 evs = store c img s ⟨id, size, fam, false, 0, s.seq⟩ evs := by
      simp [account]
    rw [e] at hc ⊢
    have := store_spec c img s ⟨id, size, fam, false, 0, s.seq⟩ evs hc
    exact ⟨fun h => (by cases h), ⟨0, this.1⟩, this.2.1, this.2.2⟩
  | true =>
    cases a2 with
    | null => simp [account, Completed] at hc
    | fail => simp [account, Completed] at hc
    | block nid nb =>
      have e : account c img s fam size true id (.block nid nb) evs =
          store c img { s with mem := ⟨nid, nb⟩ :: s.mem } ⟨id, size, fam, true, nid, s.seq⟩ (evs ++ [.unode c.node nid]) := by
        simp [account]
      rw [e] at hc ⊢
      have := store_spec c img { s with mem := ⟨nid, nb⟩ :: s.mem } ⟨id, size, fam, true, nid, s.seq⟩ _ hc
      exact ⟨fun _ => rfl, ⟨nid, this.1⟩, this.2.1, this.2.2⟩

/-- a successful tracked allocation: sizes fit, the platform answered with a block, the accounting node (if kept
    separately) could be allocated -/
def AllocSucceeds (c : Cfg) (size : W) (sep : Bool) (a1 a2 : Ans) : Prop :=
  rejectsAlloc c size = false ∧ a1.isNull = false ∧ (sep = true → a2.isNull = false)

theorem allocMemory_spec (img : NodeImage) (s : State) (fam : Nat) (size : W) (sep0 : Bool) (a1 a2 : Ans)
    (hc : Completed (allocMemory defaultCfg img s fam size sep0 a1 a2).2.2) :
    (AllocSucceeds defaultCfg size sep0 a1 a2 →
      (∃ nid, (allocMemory defaultCfg img s fam size sep0 a1 a2).1.tracked = ⟨a1.id, size, fam, sep0, nid, s.seq⟩ :: s.tracked) ∧
      (allocMemory defaultCfg img s fam size sep0 a1 a2).1.seq = s.seq + 1 ∧
      (allocMemory defaultCfg img s fam size sep0 a1 a2).2.2 = .ptr a1.id) ∧
    (¬ AllocSucceeds defaultCfg size sep0 a1 a2 →
      (allocMemory defaultCfg img s fam size sep0 a1 a2).1.tracked = s.tracked ∧
      (allocMemory defaultCfg img s fam size sep0 a1 a2).1.seq = s.seq ∧
      (allocMemory defaultCfg img s fam size sep0 a1 a2).2.2 = .null) := by
  have hfs : forcedSep defaultCfg sep0 = sep0 := by simp [forcedSep, defaultCfg]
  unfold AllocSucceeds
  unfold allocMemory at hc ⊢
  rw [hfs] at hc ⊢
  cases hrej : rejectsAlloc defaultCfg size with
  | true => simp
  | false =>
    simp only [hrej, Bool.false_eq_true, if_false] at hc ⊢
    cases a1 with
    | null => simp [Ans.isNull]
    | fail => simp [Completed] at hc
    | block id bytes =>
      simp only [Ans.isNull, Ans.id, true_and] at hc ⊢
      cases sep0 with
      | true =>
        cases a2 with
        | null => simp [Ans.isNull]
        | fail => simp [account, Completed] at hc
        | block nid nb =>
          simp only at hc ⊢
          have := account_spec defaultCfg img { s with mem := ⟨id, bytes⟩ :: s.mem } fam size true id (.block nid nb) _ hc
          simp only [Ans.isNull, forall_const, not_true_eq_false, false_implies, and_true]
          exact ⟨this.2.1, this.2.2.1, this.2.2.2⟩
      | false =>
        simp only at hc ⊢
        have := account_spec defaultCfg img { s with mem := ⟨id, bytes⟩ :: s.mem } fam size false id a2 _ hc
        simp only [Bool.false_eq_true, false_implies, not_true_eq_false, and_true]
        intro _
        exact ⟨this.2.1, this.2.2.1, this.2.2.2⟩

/-! ### release -/

theorem removeRec_none : ∀ (t : List Rec) (id : Nat), removeRec t id = none → ∀ r ∈ t, r.id ≠ id
  | [], _, _, _, h => by cases h
  | x :: xs, id, h, r, hr => by
    unfold removeRec at h
    by_cases hx : (x.id == id) = true
    · simp [hx] at h
    · simp only [hx, Bool.false_eq_true, if_false] at h
      cases hrem : removeRec xs id with
      | some p => simp [hrem] at h
      | none =>
        rcases List.mem_cons.mp hr with rfl | hr
        · simpa using hx
        · exact removeRec_none xs id hrem r hr

theorem deallocMemory_spec (c : Cfg) (s : State) (fam : Nat) (ptr : Option Nat) (sep0 : Bool) :
    (deallocMemory c s fam ptr sep0).1.seq = s.seq ∧
    match ptr with
    | none => (deallocMemory c s fam ptr sep0).1.tracked = s.tracked
    | some id =>
      match removeRec s.tracked id with
      | none => (deallocMemory c s fam ptr sep0).1.tracked = s.tracked
      | some (_, rest) => (deallocMemory c s fam ptr sep0).1.tracked = rest := by
  unfold deallocMemory
  cases ptr with
  | none => exact ⟨rfl, rfl⟩
  | some id =>
    simp only
    cases hrem : removeRec s.tracked id with
    | none => exact ⟨rfl, rfl⟩
    | some p =>
      obtain ⟨r, rest⟩ := p
      simp only
      cases hck : checkForCorruption c s.mem r fam (forcedSep c sep0) with
      | mk m1 rest2 =>
        obtain ⟨evs, ub⟩ := rest2
        cases ub <;> exact ⟨rfl, rfl⟩

/-! ### reallocation -/

theorem retrack_spec (c : Cfg) (img : NodeImage) (s : State) (old : Rec) (sep : Bool) (a2 : Ans) (evs : List Ev)
    (hc : Completed (retrack c img s old sep a2 evs).2.2) :
    (sep = true → a2.isNull = false) ∧
    (∃ k, (retrack c img s old sep a2 evs).1.tracked = { old with sep := sep, nodeId := k } :: s.tracked) ∧
    (retrack c img s old sep a2 evs).1.seq = s.seq ∧ (retrack c img s old sep a2 evs).2.2 = .null := by
  unfold retrack at hc ⊢
  cases sep with
  | true =>
    simp only [if_true] at hc ⊢
    cases a2 with
    | null => simp [Completed] at hc
    | fail => simp [Completed] at hc
    | block nid nb =>
      simp only at hc ⊢
      cases hw : writeNode c img (⟨nid, nb⟩ :: s.mem) { old with sep := true, nodeId := nid } with
      | none => simp [hw, Completed] at hc
      | some m1 => exact ⟨fun _ => rfl, ⟨nid, rfl⟩, rfl, rfl⟩
  | false =>
    simp only [Bool.false_eq_true, if_false] at hc ⊢
    cases hw : writeNode c img s.mem { old with sep := false, nodeId := 0 } with
    | none => simp [hw, Completed] at hc
    | some m1 => exact ⟨fun h => (by cases h), ⟨0, rfl⟩, rfl, rfl⟩

/-- what a completed `reallocMemory` of the layout model did to the record list -/
def ReallocPost (s : State) (fam : Nat) (ptr : Option Nat) (size : W) (sep0 : Bool) (ar : RAns) (a2 : Ans)
    (r : State × List Ev × Outcome) : Prop :=
  if rejectsRealloc defaultCfg size = true then r.1.tracked = s.tracked ∧ r.1.seq = s.seq ∧ r.2.2 = .null
  else
    match ptr with
    | none =>
      match ar with
      | .null => r.1.tracked = s.tracked ∧ r.1.seq = s.seq ∧ r.2.2 = .null
      | .moved nid _ =>
        (sep0 = true → a2.isNull = false) ∧ (∃ k, r.1.tracked = ⟨nid, size, fam, sep0, k, s.seq⟩ :: s.tracked) ∧
          r.1.seq = s.seq + 1 ∧ r.2.2 = .ptr nid
    | some id =>
      match removeRec s.tracked id with
      | none => r.1.tracked = s.tracked ∧ r.1.seq = s.seq ∧ r.2.2 = .null
      | some (o, rest) =>
        match ar with
        | .null =>
          (sep0 = true → a2.isNull = false) ∧ (∃ k, r.1.tracked = { o with sep := sep0, nodeId := k } :: rest) ∧
            r.1.seq = s.seq ∧ r.2.2 = .null
        | .moved nid _ =>
          (sep0 = true → a2.isNull = false) ∧ (∃ k, r.1.tracked = ⟨nid, size, fam, sep0, k, s.seq⟩ :: rest) ∧
            r.1.seq = s.seq + 1 ∧ r.2.2 = .ptr nid

theorem reallocMemory_spec (img : NodeImage) (s : State) (fam : Nat) (ptr : Option Nat) (size : W) (sep0 : Bool)
    (ar : RAns) (a2 : Ans) (hc : Completed (reallocMemory defaultCfg img s fam ptr size sep0 ar a2).2.2) :
    ReallocPost s fam ptr size sep0 ar a2 (reallocMemory defaultCfg img s fam ptr size sep0 ar a2) := by
  have hfs : forcedSep defaultCfg sep0 = sep0 := by simp [forcedSep, defaultCfg]
  unfold ReallocPost
  unfold reallocMemory at hc ⊢
  rw [hfs] at hc ⊢
  cases hrej : rejectsRealloc defaultCfg size with
  | true => simp
  | false =>
    simp only [hrej, Bool.false_eq_true, if_false] at hc ⊢
    cases ptr with
    | none =>
      cases ar with
      | null => simp [reallocRest]
      | moved nid nb =>
        simp only [reallocRest] at hc ⊢
        have := account_spec defaultCfg img { s with mem := ⟨nid, nb⟩ :: s.mem } fam size sep0 nid a2 _ hc
        exact this
    | some id =>
      simp only at hc ⊢
      cases hrem : removeRec s.tracked id with
      | none => simp
      | some p =>
        obtain ⟨o, rest⟩ := p
        simp only [hrem] at hc ⊢
        cases hck : checkForCorruption defaultCfg s.mem o fam sep0 with
        | mk m1 rest2 =>
          obtain ⟨evs, ub⟩ := rest2
          cases ub with
          | true => simp [hck, Completed] at hc
          | false =>
            simp only [hck] at hc ⊢
            cases ar with
            | null =>
              simp only [reallocRest] at hc ⊢
              exact retrack_spec defaultCfg img { s with tracked := rest, mem := m1 } o sep0 a2 _ hc
            | moved nid nb =>
              simp only [reallocRest] at hc ⊢
              exact account_spec defaultCfg img { tracked := rest, mem := ⟨nid, nb⟩ :: dropBlock m1 o.id, seq := s.seq }
                fam size sep0 nid a2 _ hc

/-! ## what the table model's `realloc` does to its list of records -/

open LeakDetector in
theorem ld_realloc_unchanged (s : LeakDetector.State) (a : Allocator) (addr size : Nat) (file : String) (line : Nat)
    (sep : Bool) (result : Nat) (fill : UInt8)
    (h : sizeOverflows size = true ∨ (addr = 0 ∧ result = 0) ∨ (addr ≠ 0 ∧ s.table.retrieveNode addr = none)) :
    (LeakDetector.realloc s a addr size file line sep result fill).1 = s := by
  unfold LeakDetector.realloc
  by_cases ho : sizeOverflows size = true
  · simp [ho]
  · rcases h with h | h | h
    · exact absurd h ho
    · simp [ho, h.1, h.2, reallocTail]
    · simp [ho, h.1, h.2]

open LeakDetector in
theorem ld_realloc_null_moved {s : LeakDetector.State} (inv : s.Inv) (a : Allocator) (size : Nat) (file : String)
    (line : Nat) (sep : Bool) (result : Nat) (fill : UInt8) (ho : sizeOverflows size = false) (hr : result ≠ 0) :
    (LeakDetector.realloc s a 0 size file line sep result fill).1.nodes.Perm
        (Spec.newNode (abs s) result size a file line sep fill :: s.nodes) ∧
      (LeakDetector.realloc s a 0 size file line sep result fill).1.seq = s.seq + 1 := by
  have e : (LeakDetector.realloc s a 0 size file line sep result fill).1 =
      storeLeakInformation s result size a file line sep fill := by
    simp [LeakDetector.realloc, ho, reallocTail, hr]
  rw [e]
  exact ⟨Compose.Leak.nodes_store inv _ _ _ _ _ _ _, rfl⟩

open LeakDetector in
theorem ld_realloc_moved {s : LeakDetector.State} (inv : s.Inv) (a : Allocator) (addr size : Nat) (file : String)
    (line : Nat) (sep : Bool) (result : Nat) (fill : UInt8) (n : Node) (hn : s.table.retrieveNode addr = some n)
    (ho : sizeOverflows size = false) (hr : result ≠ 0) :
    (LeakDetector.realloc s a addr size file line sep result fill).1.nodes.Perm
        (Spec.newNode (abs s) result size a file line sep fill :: s.nodes.filter (fun m => m.addr != addr)) ∧
      (LeakDetector.realloc s a addr size file line sep result fill).1.seq = s.seq + 1 := by
  have hmem := (retrieve_some_iff inv).mp hn
  have hz : addr ≠ 0 := by rw [← hmem.2]; exact inv.nonnull n hmem.1
  have inv1 : State.Inv { s with table := s.table.unlinkNode addr } := Table.Inv.unlink inv addr
  have e : (LeakDetector.realloc s a addr size file line sep result fill).1 =
      storeLeakInformation { s with table := s.table.unlinkNode addr } result size a file line sep fill := by
    simp [LeakDetector.realloc, ho, hz, hn, reallocTail, hr, prependEvs]
  rw [e]
  refine ⟨?_, rfl⟩
  have hp := Compose.Leak.nodes_store inv1 result size a file line sep fill
  refine hp.trans ?_
  have : State.nodes { s with table := s.table.unlinkNode addr } = s.nodes.filter (fun m => m.addr != addr) := by
    rw [nodes_unlink inv addr]; exact Compose.Leak.nodes_eraseP_eq_filter inv addr
  rw [this]
  exact List.Perm.refl _

open LeakDetector in
theorem ld_realloc_failed {s : LeakDetector.State} (inv : s.Inv) (a : Allocator) (addr size : Nat) (file : String)
    (line : Nat) (sep : Bool) (fill : UInt8) (n : Node) (hn : s.table.retrieveNode addr = some n)
    (ho : sizeOverflows size = false) :
    (LeakDetector.realloc s a addr size file line sep 0 fill).1.nodes.Perm
        ({ n with sepNode := sep } :: s.nodes.filter (fun m => m.addr != addr)) ∧
      (LeakDetector.realloc s a addr size file line sep 0 fill).1.seq = s.seq := by
  have hmem := (retrieve_some_iff inv).mp hn
  have hz : addr ≠ 0 := by rw [← hmem.2]; exact inv.nonnull n hmem.1
  have inv1 : State.Inv { s with table := s.table.unlinkNode addr } := Table.Inv.unlink inv addr
  have e : (LeakDetector.realloc s a addr size file line sep 0 fill).1 =
      { s with table := (s.table.unlinkNode addr).addNewNode { n with sepNode := sep } } := by
    simp [LeakDetector.realloc, ho, hz, hn, reallocTail, prependEvs]
  rw [e]
  refine ⟨?_, rfl⟩
  show ((s.table.unlinkNode addr).addNewNode { n with sepNode := sep }).flat.Perm _
  refine (Table.Inv.flat_add_perm inv1 _).trans ?_
  have : (s.table.unlinkNode addr).flat = s.nodes.filter (fun m => m.addr != addr) := by
    have := nodes_unlink inv addr
    rw [Compose.Leak.nodes_eraseP_eq_filter inv addr] at this
    exact this
  rw [this]

end Compose.Alloc
