import CppUModel.Spec.MockC
/-! C19: the knowledge computed from the scenario text (`Sym`) stays true of the pointers along a run. -/
namespace MockC
open Req

theorem storeX_of_ne_toAct (K : CppMock) (st : Core K) (kind : XKind) (r : Res K.EC K.AC) (h : kind ≠ .toAct) :
    (storeX K st kind r).m = st.m ∧ (storeX K st kind r).cur = st.cur ∧ (storeX K st kind r).a = st.a := by
  cases kind <;> cases r <;> simp_all [storeX]

theorem storeX_m_cur (K : CppMock) (st : Core K) (kind : XKind) (r : Res K.EC K.AC) :
    (storeX K st kind r).m = st.m ∧ (storeX K st kind r).cur = st.cur := by
  cases kind <;> cases r <;> simp [storeX]

theorem storeX_a (K : CppMock) (st : Core K) (kind : XKind) (r : Res K.EC K.AC) :
    (storeX K st kind r).a = st.a ∨ ∃ a', r = .ac a' ∧ (storeX K st kind r).a = some a' := by
  cases kind <;> cases r <;> simp [storeX]

theorem sig_facts : sigActualCall ≠ sigDisable ∧ sigActualCall ≠ sigIgnoreOtherCalls ∧ sigClear ≠ sigDisable ∧
    sigClear ≠ sigIgnoreOtherCalls ∧ signature "hasReturnValue" [] ≠ sigActualCall ∧ signature "hasReturnValue" [] ≠ sigClear ∧
    signature "hasReturnValue" [] ≠ sigDisable ∧ signature "hasReturnValue" [] ≠ sigIgnoreOtherCalls := by decide

theorem inv_step (K : CppMock) (sl : ScopeLaws K) (sy sy' : Sym) (st : Core K) (x : XStmt)
    (inv : SymInv K sl sy st) (hs : symStepX sy x = some sy')
    (hns : K.stopped (execX K st x).1.m = false) : SymInv K sl sy' (execX K st x).1 := by
  obtain ⟨f1, f2, f3, f4, f5, f6, f7, f8⟩ := sig_facts
  obtain ⟨m, cur, e, a⟩ := st
  obtain ⟨icur, iplain, iact⟩ := inv
  simp only [] at icur iplain iact
  cases x with
  | mock s =>
    simp only [symStepX, Option.some.injEq] at hs; subst hs
    simp only [execX]
    exact ⟨rfl, sl.plain_mock _ _ iplain, fun s0 h => by
      obtain ⟨a', ha, hl⟩ := iact s0 h
      exact ⟨a', ha, by simp only [sl.last_mock]; exact hl⟩⟩
  | invalid w =>
    simp only [symStepX, Option.some.injEq] at hs; subst hs
    simp only [execX]
    exact ⟨icur, iplain, iact⟩
  | call recv sig args kind =>
    cases recv with
    | sup =>
      cases cur with
      | none =>
        simp only [execX, callVia] at hns ⊢
        simp only [symStepX] at hs
        split at hs
        · cases hs
        · split at hs
          · split at hs
            · simp only [Option.some.injEq] at hs; subst hs
              exact ⟨icur, iplain, fun s h => by simp [icur] at h⟩
            · cases hs
          · split at hs
            · cases hs
            · split at hs
              · simp only [Option.some.injEq] at hs; subst hs
                exact ⟨icur, iplain, fun s h => by simp at h⟩
              · simp only [Option.some.injEq] at hs; subst hs
                exact ⟨icur, iplain, iact⟩
      | some s0 =>
        simp only [execX, callVia] at hns ⊢
        have hmc := storeX_m_cur K ⟨(K.sup m s0 sig args).1, some s0, e, a⟩ kind (K.sup m s0 sig args).2
        simp only [] at hmc
        rw [hmc.1] at hns
        simp only [symStepX] at hs
        split at hs
        · cases hs
        · rename_i hnd
          simp only [not_or] at hnd
          have hpl := sl.plain_sup m s0 sig args hnd.1 hnd.2 iplain
          split at hs
          · rename_i hsig
            split at hs
            · rename_i hk
              simp only [Option.some.injEq] at hs; subst hs; subst hsig; subst hk
              obtain ⟨a', hr, hl⟩ := sl.actual_sets_last m s0 args iplain hns
              refine ⟨by rw [hmc.2]; exact icur, by rw [hmc.1]; exact hpl, ?_⟩
              intro s h
              simp only [icur, Option.some.injEq] at h; subst h
              exact ⟨a', by simp [storeX, hr], by rw [hmc.1]; exact hl⟩
            · cases hs
          · rename_i hna
            split at hs
            · cases hs
            · rename_i hk
              obtain ⟨e1, e2, e3⟩ := storeX_of_ne_toAct K ⟨(K.sup m s0 sig args).1, some s0, e, a⟩ kind (K.sup m s0 sig args).2 hk
              simp only [] at e1 e2 e3
              split at hs
              · simp only [Option.some.injEq] at hs; subst hs
                exact ⟨by rw [e2]; exact icur, by rw [e1]; exact hpl, fun s h => by simp at h⟩
              · rename_i hnc
                simp only [Option.some.injEq] at hs; subst hs
                refine ⟨by rw [e2]; exact icur, by rw [e1]; exact hpl, ?_⟩
                intro s h
                obtain ⟨a1, ha, hl⟩ := iact s h
                exact ⟨a1, by rw [e3]; exact ha, by rw [e1, sl.last_sup m s0 sig args s hna hnc hns]; exact hl⟩
    | exp =>
      simp only [symStepX] at hs
      split at hs
      · cases hs
      · rename_i hk
        simp only [Option.some.injEq] at hs; subst hs
        cases e with
        | none => simp only [execX, callVia]; exact ⟨icur, iplain, iact⟩
        | some e0 =>
          simp only [execX, callVia] at hns ⊢
          obtain ⟨e1, e2, e3⟩ := storeX_of_ne_toAct K ⟨(K.ec m e0 sig args).1, cur, some e0, a⟩ kind (K.ec m e0 sig args).2 hk
          simp only [] at e1 e2 e3
          rw [e1] at hns
          refine ⟨by rw [e2]; exact icur, by rw [e1]; exact sl.plain_ec _ _ _ _ iplain, ?_⟩
          intro s h
          obtain ⟨a1, ha, hl⟩ := iact s h
          exact ⟨a1, by rw [e3]; exact ha, by rw [e1, sl.last_ec m e0 sig args s hns]; exact hl⟩
    | act =>
      simp only [symStepX, Option.some.injEq] at hs; subst hs
      cases a with
      | none => simp only [execX, callVia]; exact ⟨icur, iplain, iact⟩
      | some a0 =>
        simp only [execX, callVia] at hns ⊢
        have hmc := storeX_m_cur K ⟨(K.ac m a0 sig args).1, cur, e, some a0⟩ kind (K.ac m a0 sig args).2
        simp only [] at hmc
        rw [hmc.1] at hns
        refine ⟨by rw [hmc.2]; exact icur, by rw [hmc.1]; exact sl.plain_ac _ _ _ _ iplain, ?_⟩
        intro s h
        obtain ⟨a1, ha, hl⟩ := iact s h
        simp only [Option.some.injEq] at ha; subst ha
        refine ⟨a0, ?_, by rw [hmc.1, sl.last_ac m a0 sig args s hns]; exact hl⟩
        rcases storeX_a K ⟨(K.ac m a0 sig args).1, cur, e, some a0⟩ kind (K.ac m a0 sig args).2 with h1 | ⟨a', hr, h1⟩
        · rw [h1]
        · rw [h1, sl.ac_self m a0 sig args a' hr]
  | orDefault recv g kind d =>
    cases recv with
    | exp => simp [symStepX] at hs
    | act =>
      simp only [symStepX, Option.some.injEq] at hs; subst hs
      cases a with
      | none => simp only [execX, execXOrDefault, callVia]; exact ⟨icur, iplain, iact⟩
      | some a0 =>
        simp only [execX, execXOrDefault, callVia] at hns ⊢
        by_cases hst : K.stopped (K.ac m a0 (signature "hasReturnValue" []) []).1 = true
        · simp [hst] at hns
        · simp only [hst, Bool.false_eq_true, if_false] at hns ⊢
          have hst' : K.stopped (K.ac m a0 (signature "hasReturnValue" []) []).1 = false := by simpa using hst
          have ip1 := sl.plain_ac m a0 (signature "hasReturnValue" []) [] iplain
          have il1 : ∀ s, K.last (K.ac m a0 (signature "hasReturnValue" []) []).1 s = K.last m s :=
            fun s => sl.last_ac m a0 _ [] s hst'
          by_cases hv : asBool (K.ac m a0 (signature "hasReturnValue" []) []).2 = true
          · simp only [hv, if_true] at hns ⊢
            exact ⟨icur, sl.plain_ac _ _ _ _ ip1, fun s h => by
              obtain ⟨a1, ha, hl⟩ := iact s h
              exact ⟨a1, ha, by simp only [sl.last_ac _ a0 _ [] s hns, il1]; exact hl⟩⟩
          · simp only [hv, Bool.false_eq_true, if_false]
            exact ⟨icur, ip1, fun s h => by
              obtain ⟨a1, ha, hl⟩ := iact s h
              exact ⟨a1, ha, by simp only [il1]; exact hl⟩⟩
    | sup =>
      simp only [symStepX] at hs
      split at hs
      · cases hs
      · rename_i hg
        simp only [not_or] at hg
        simp only [Option.some.injEq] at hs; subst hs
        cases cur with
        | none => simp only [execX, execXOrDefault, callVia]; exact ⟨icur, iplain, iact⟩
        | some s0 =>
          simp only [execX, execXOrDefault, callVia] at hns ⊢
          by_cases hst : K.stopped (K.sup m s0 (signature "hasReturnValue" []) []).1 = true
          · simp [hst] at hns
          · simp only [hst, Bool.false_eq_true, if_false] at hns ⊢
            have hst' : K.stopped (K.sup m s0 (signature "hasReturnValue" []) []).1 = false := by simpa using hst
            have ip1 := sl.plain_sup m s0 (signature "hasReturnValue" []) [] f7 f8 iplain
            have il1 : ∀ s, K.last (K.sup m s0 (signature "hasReturnValue" []) []).1 s = K.last m s :=
              fun s => sl.last_sup m s0 _ [] s f5 f6 hst'
            by_cases hv : asBool (K.sup m s0 (signature "hasReturnValue" []) []).2 = true
            · simp only [hv, if_true] at hns ⊢
              exact ⟨icur, sl.plain_sup _ _ _ _ hg.2.2.1 hg.2.2.2 ip1, fun s h => by
                obtain ⟨a1, ha, hl⟩ := iact s h
                exact ⟨a1, ha, by simp only [sl.last_sup _ s0 _ [] s hg.1 hg.2.1 hns, il1]; exact hl⟩⟩
            · simp only [hv, Bool.false_eq_true, if_false]
              exact ⟨icur, ip1, fun s h => by
                obtain ⟨a1, ha, hl⟩ := iact s h
                exact ⟨a1, ha, by simp only [il1]; exact hl⟩⟩

end MockC
