import CppUModel.Proofs.SimpleString
/-!
# The formatted-construction family in partial-correctness form (helper lemmas)

`PC m`: IF the model computation `m` succeeds — in any world, whatever `vsnprintf` answered — its
result is a well-formed object (its buffer holds a C string, recorded size = buffer size) that
owns exactly one new outstanding buffer, and every other buffer requested on the way has been
released with its requested size.  No hypothesis on the environment: a `vsnprintf` answer that
breaks the libc contract makes the model fail (`Err.env` / `Err.oob`), which makes `PC` vacuous
for that run.  Also here: the inversion lemmas (`StrLen` succeeded ⇒ there is a C string).
-/
namespace SStr
open CStr Text TextExt


/-! ### inversion: what a successful run tells about the operands -/

theorem drop_of_rd {b : Buf} {p : Nat} {c : UInt8} (h : rd b p = .ok c) : ∃ rest, b.drop p = c :: rest := by
  simp only [rd] at h
  cases hb : b[p]? with
  | none => simp [hb] at h
  | some x =>
    simp only [hb] at h
    injection h with h; subst h
    have hp : p < b.length := by
      rcases Nat.lt_or_ge p b.length with h | h
      · exact h
      · rw [List.getElem?_eq_none h] at hb; cases hb
    refine ⟨b.drop (p + 1), ?_⟩
    rw [List.drop_eq_getElem_cons hp]
    congr 1
    rw [List.getElem?_eq_getElem hp] at hb
    exact Option.some.inj hb

theorem strLenLoop_inv : ∀ (f : Nat) (b : Buf) (p n m : Nat), strLenLoop b f p n = .ok m →
    ∃ a, CAt b p a ∧ m = n + a.length
  | 0, _, _, _, _, h => by simp [strLenLoop] at h
  | f + 1, b, p, n, m, h => by
    simp only [strLenLoop] at h
    cases hr : rd b p with
    | error e => simp [hr] at h
    | ok c =>
      simp only [hr] at h
      obtain ⟨rest, hd⟩ := drop_of_rd hr
      by_cases hc : c = 0
      · subst hc
        simp only [if_true] at h
        injection h with h
        exact ⟨[], ⟨nulFree_nil, rest, by simpa using hd⟩, by simp [h]⟩
      · simp only [hc, if_false] at h
        obtain ⟨a, ⟨hnf, post, hda⟩, hm⟩ := strLenLoop_inv f b (p + 1) (n + 1) m h
        refine ⟨c :: a, ⟨nulFree_cons.mpr ⟨hc, hnf⟩, post, ?_⟩, by simp [hm]; omega⟩
        have := drop_succ_of_drop hd
        rw [this] at hda
        rw [hd, hda]; rfl

/-- if `StrLen` succeeds there is a C string at that place -/
theorem StrLen_inv {b : Buf} {p n : Nat} (h : StrLen b p = .ok n) : ∃ a, CAt b p a ∧ a.length = n := by
  obtain ⟨a, ha, hn⟩ := strLenLoop_inv _ b p 0 n h
  exact ⟨a, ha, by omega⟩

/-- whatever precedes the first NUL of a buffer is the C string it holds -/
theorem cat_cut : ∀ (b post : Bytes), CAt (b ++ 0 :: post) 0 (cut b)
  | [], post => ⟨nulFree_nil, post, rfl⟩
  | x :: t, post => by
    by_cases hx : x = 0
    · subst hx
      exact ⟨nulFree_cut _, t ++ 0 :: post, by simp [cut]⟩
    · obtain ⟨_, post', hd⟩ := cat_cut t post
      have hc : cut (x :: t) = x :: cut t := by simp [cut, hx]
      refine ⟨nulFree_cut _, post', ?_⟩
      simp only [List.drop_zero] at hd
      rw [hc]; simp [hd]

theorem hasStr_of_zero {b : Buf} {j : Nat} (h : b[j]? = some 0) : ∃ a, CAt b 0 a := by
  have hj : j < b.length := by
    rcases Nat.lt_or_ge j b.length with h' | h'
    · exact h'
    · rw [List.getElem?_eq_none h'] at h; cases h
  have : b = b.take j ++ 0 :: b.drop (j + 1) := by
    conv => lhs; rw [← List.take_append_drop j b, List.drop_eq_getElem_cons hj]
    rw [List.getElem?_eq_getElem hj] at h
    rw [Option.some.inj h]
  rw [this]
  exact ⟨_, cat_cut _ _⟩

theorem wr_inv {b b' : Buf} {i : Nat} {v : UInt8} (h : wr b i v = .ok b') : i < b.length ∧ b' = b.set i v := by
  simp only [wr] at h
  split at h
  · next hi => injection h with h; exact ⟨hi, h.symm⟩
  · cases h

theorem StrNCpy_length : ∀ (n : Nat) (dst : Buf) (dp : Nat) (src : Buf) (sp : Nat) (d : Buf),
    StrNCpy dst dp src sp n = .ok d → d.length = dst.length
  | 0, dst, _, _, _, d, h => by simp only [StrNCpy] at h; injection h with h; rw [h]
  | n + 1, dst, dp, src, sp, d, h => by
    simp only [StrNCpy] at h
    cases hr : rd src sp with
    | error e => simp [hr] at h
    | ok c =>
      simp only [hr] at h
      cases hw : wr dst dp c with
      | error e => simp [hw] at h
      | ok dst' =>
        simp only [hw] at h
        have hl : dst'.length = dst.length := by rw [(wr_inv hw).2]; simp
        split at h
        · injection h with h; rw [← h, hl]
        · rw [StrNCpy_length n dst' (dp + 1) src (sp + 1) d h, hl]



/-! ### partial-correctness form: whatever the environment answers -/

def HasStr (o : Obj) : Prop := ∃ a, Holds o a

/-- if `m` succeeds, its result is a well-formed object owning one new buffer, and every other
    buffer requested on the way was released with its size — for every world, whatever
    `vsnprintf` answered -/
def PC (m : M Obj) : Prop :=
  ∀ w r w', m w = .ok (r, w') → HasStr r ∧ Sized r ∧ ∀ L, Owns w L → Owns w' ((r.id, r.size) :: L)

theorem hasStr_mk (i : Nat) {a : Bytes} (h : NulFree a) : HasStr (mkObj i a) := ⟨a, holds_mkObj h⟩

theorem pc_of_creates {m : M Obj} (h : ∀ w, ∃ P : Obj → Prop, Creates m w P ∧ ∀ r, P r → HasStr r) : PC m := by
  intro w r w' hm
  obtain ⟨P, ⟨r0, w0, h0, hp, hs, ho⟩, hP⟩ := h w
  rw [h0] at hm
  injection hm with hm; injection hm with h1 h2; subst h1 h2
  exact ⟨hP _ hp, hs, ho⟩

theorem pc_ctorCStr (src : Buf) (sp : Nat) : PC (ctorCStr src sp) := by
  intro w r w' h
  cases hl : StrLen src sp with
  | error e => simp [ctorCStr, hl] at h
  | ok n =>
    obtain ⟨a, ha, _⟩ := StrLen_inv hl
    rw [ctorCStr_ok ha] at h
    injection h with h; injection h with h1 h2; subst h1 h2
    exact ⟨hasStr_mk _ ha.nulFree, sized_mkObj _ _, fun L hL => hL.alloc _⟩

theorem pc_ctorCopy {o : Obj} (h : HasStr o) : PC (ctorCopy o) := pc_ctorCStr _ _

theorem cat_vsn (text post : Bytes) : CAt (text ++ 0 :: post) 0 (cut text) := cat_cut text post

/-- general fast path (the text may even contain NUL bytes: the copy stops there) -/
theorem vStringFromFormat_fast' {w : World} {r : VsnRes} {rest : List VsnRes} (hv : w.vsn = r :: rest)
    (hret : r.ret < sizeOfdefaultBuffer) (hlen : r.text.length < sizeOfdefaultBuffer) :
    vStringFromFormat w =
      .ok (mkObj (w.next + 2) (cut r.text),
           (((((w.alloc 1).vsnCall sizeOfdefaultBuffer r).alloc ((cut r.text).length + 1)).free w.next 1).alloc
              ((cut r.text).length + 1)).free (w.next + 1) ((cut r.text).length + 1)) := by
  have hv' : (w.alloc 1).vsn = r :: rest := hv
  simp only [vStringFromFormat, bind_run, ctorEmpty_ok, getJunk_run, alloc_junk,
    vsnprintf_ok (List.replicate sizeOfdefaultBuffer w.junk) sizeOfdefaultBuffer hv' hlen (by simp), hret, if_true,
    ctorCStr_ok (cat_vsn _ _), assign_ok _ (holds_mkObj (nulFree_cut _)), dtor_run, pure_run]
  simp

theorem vStringFromFormat_slow' {w : World} {r r2 : VsnRes} {rest : List VsnRes} (hv : w.vsn = r :: r2 :: rest)
    (hret : ¬ r.ret < sizeOfdefaultBuffer) (hlen : r.text.length < sizeOfdefaultBuffer)
    (hlen2 : r2.text.length < r.ret + 1) :
    vStringFromFormat w =
      .ok (mkObj (w.next + 3) (cut r2.text),
           (((((((((w.alloc 1).vsnCall sizeOfdefaultBuffer r).alloc (r.ret + 1)).vsnCall (r.ret + 1) r2).alloc
              ((cut r2.text).length + 1)).free w.next 1).alloc ((cut r2.text).length + 1)).free (w.next + 2)
              ((cut r2.text).length + 1)).free (w.next + 1) (r.ret + 1))) := by
  have hv' : (w.alloc 1).vsn = r :: r2 :: rest := hv
  have hv2 : (((w.alloc 1).vsnCall sizeOfdefaultBuffer r).alloc (r.ret + 1)).vsn = r2 :: rest := by
    simp [hv]
  simp only [vStringFromFormat, bind_run, ctorEmpty_ok, getJunk_run, alloc_junk,
    vsnprintf_ok (List.replicate sizeOfdefaultBuffer w.junk) sizeOfdefaultBuffer hv' hlen (by simp), hret, if_false,
    allocStringBuffer_run, vsnCall_junk,
    vsnprintf_ok (List.replicate (r.ret + 1) w.junk) (r.ret + 1) hv2 hlen2 (by simp),
    ctorCStr_ok (cat_vsn _ _), assign_ok _ (holds_mkObj (nulFree_cut _)), dtor_run, deallocStringBuffer_run, pure_run]
  simp

theorem vsnprintf_error_nil {w : World} (buf : Buf) (size : Nat) (hv : w.vsn = []) :
    vsnprintf buf size w = .error .env := by simp [vsnprintf, hv]

theorem vsnprintf_error_len {w : World} {r : VsnRes} {rest : List VsnRes} (buf : Buf) (size : Nat)
    (hv : w.vsn = r :: rest) (h : ¬ (r.text.length < size)) : vsnprintf buf size w = .error .env := by
  simp [vsnprintf, hv, h]

theorem pc_vStringFromFormat : PC vStringFromFormat := by
  intro w res w' h
  cases hv : w.vsn with
  | nil =>
    have hv' : (w.alloc 1).vsn = [] := hv
    simp [vStringFromFormat, ctorEmpty_ok, vsnprintf_error_nil _ _ hv'] at h
  | cons r rest =>
    have hv' : (w.alloc 1).vsn = r :: rest := hv
    by_cases hlen : r.text.length < sizeOfdefaultBuffer
    · by_cases hret : r.ret < sizeOfdefaultBuffer
      · rw [vStringFromFormat_fast' hv hret hlen] at h
        injection h with h; injection h with h1 h2; subst h1 h2
        refine ⟨hasStr_mk _ (nulFree_cut _), sized_mkObj _ _, fun L hL => ?_⟩
        have h1 := ((hL.alloc 1).vsnCall sizeOfdefaultBuffer r).alloc ((cut r.text).length + 1)
        have h2 := ((h1.free_2nd).alloc ((cut r.text).length + 1)).free_2nd
        simpa using h2
      · cases rest with
        | nil =>
          have hv2 : (((w.alloc 1).vsnCall sizeOfdefaultBuffer r).alloc (r.ret + 1)).vsn = [] := by simp [hv]
          simp [vStringFromFormat, ctorEmpty_ok,
            vsnprintf_ok (List.replicate sizeOfdefaultBuffer w.junk) sizeOfdefaultBuffer hv' hlen (by simp), hret,
            vsnprintf_error_nil _ _ hv2] at h
        | cons r2 rest2 =>
          by_cases hlen2 : r2.text.length < r.ret + 1
          · rw [vStringFromFormat_slow' hv hret hlen hlen2] at h
            injection h with h; injection h with h1 h2; subst h1 h2
            refine ⟨hasStr_mk _ (nulFree_cut _), sized_mkObj _ _, fun L hL => ?_⟩
            have h1 := (((hL.alloc 1).vsnCall sizeOfdefaultBuffer r).alloc (r.ret + 1)).vsnCall (r.ret + 1) r2
            have h2 := (h1.alloc ((cut r2.text).length + 1)).free_3rd
            have h3 := ((h2.alloc ((cut r2.text).length + 1)).free_2nd).free_2nd
            simpa using h3
          · have hv2 : (((w.alloc 1).vsnCall sizeOfdefaultBuffer r).alloc (r.ret + 1)).vsn = r2 :: rest2 := by
              simp [hv]
            simp [vStringFromFormat, ctorEmpty_ok,
              vsnprintf_ok (List.replicate sizeOfdefaultBuffer w.junk) sizeOfdefaultBuffer hv' hlen (by simp), hret,
              vsnprintf_error_len _ _ hv2 hlen2] at h
    · simp [vStringFromFormat, ctorEmpty_ok, vsnprintf_error_len _ _ hv' hlen] at h



theorem bind_ok_inv {α β} {x : M α} {f : α → M β} {w : World} {b : β} {w' : World}
    (h : (x >>= f) w = .ok (b, w')) : ∃ a w1, x w = .ok (a, w1) ∧ f a w1 = .ok (b, w') := by
  simp only [bind_run] at h
  cases hx : x w with
  | error e => simp [hx] at h
  | ok p => obtain ⟨a, w1⟩ := p; simp only [hx] at h; exact ⟨a, w1, rfl, h⟩

theorem pc_stringFromFormat : PC stringFromFormat := by
  intro w res w' h
  simp only [stringFromFormat, bind_run, ctorEmpty_ok] at h
  cases hs : vStringFromFormat (w.alloc 1) with
  | error e => simp [hs] at h
  | ok p =>
    obtain ⟨t, w1⟩ := p
    obtain ⟨⟨a, ha⟩, _, ho⟩ := pc_vStringFromFormat _ _ _ hs
    simp only [hs, assign_ok _ ha, dtor_run, pure_run] at h
    injection h with h; injection h with h1 h2; subst h1 h2
    refine ⟨hasStr_mk _ ha.nulFree, sized_mkObj _ _, fun L hL => ?_⟩
    have h1 := ho _ (hL.alloc 1)
    have h2 := ((h1.free_2nd).alloc (a.length + 1)).free_2nd
    simpa using h2

theorem pc_subString {self : Obj} (h : HasStr self) (p n : Nat) : PC (subString self p n) := by
  obtain ⟨a, ha⟩ := h
  exact pc_of_creates fun w => ⟨_, subString_creates ha p n w, fun r hr => ⟨_, hr⟩⟩

theorem pc_plus {x y : Obj} (hx : HasStr x) (hy : HasStr y) : PC (plus x y) := by
  obtain ⟨a, ha⟩ := hx
  obtain ⟨b, hb⟩ := hy
  exact pc_of_creates fun w => ⟨_, plus_creates ha hb w, fun r hr => ⟨_, hr⟩⟩

theorem pc_hexStringFromSignedChar (neg : Bool) : PC (hexStringFromSignedChar neg) := by
  intro w res w' h
  simp only [hexStringFromSignedChar, bind_run] at h
  cases hs : stringFromFormat w with
  | error e => simp [hs] at h
  | ok p =>
    obtain ⟨t, w1⟩ := p
    obtain ⟨⟨a, ha⟩, hsz, ho⟩ := pc_stringFromFormat _ _ _ hs
    simp only [hs] at h
    cases neg with
    | false =>
      simp only [Bool.false_eq_true, if_false, pure_run] at h
      injection h with h; injection h with h1 h2; subst h1 h2
      exact ⟨⟨a, ha⟩, hsz, ho⟩
    | true =>
      simp only [if_true] at h
      obtain ⟨sz, w1', hsz', h⟩ := bind_ok_inv h
      rw [size_ok ha, liftE_ok] at hsz'
      injection hsz' with hsz'; injection hsz' with e1 e2; subst e1 e2
      obtain ⟨t2, w2, hs2, h⟩ := bind_ok_inv h
      obtain ⟨⟨b, hb⟩, _, ho2⟩ := pc_subString ⟨a, ha⟩ _ _ _ _ _ hs2
      simp only [bind_run, assign_ok _ hb, dtor_run, pure_run] at h
      injection h with h; injection h with h1 h2; subst h1 h2
      refine ⟨hasStr_mk _ hb.nulFree, sized_mkObj _ _, fun L hL => ?_⟩
      have h1 := ho2 _ (ho _ hL)
      have h2 := ((h1.free_2nd).alloc (b.length + 1)).free_2nd
      simpa using h2

/-- `BracketsFormattedHexString(h)` = `"(0x" ++ h ++ ")"` (total, no environment) -/
theorem bracketsFormattedHexString_creates {hexString : Obj} {a : Bytes} (h : Holds hexString a) (w : World) :
    Creates (bracketsFormattedHexString hexString) w (fun r => Holds r ([40, 48, 120] ++ a ++ [41])) := by
  have hc : CAt [41, 0] 0 [41] := ⟨by decide, [], rfl⟩
  have ha : CAt [40, 48, 120, 0] 0 [40, 48, 120] := ⟨by decide, [], rfl⟩
  unfold Creates
  simp only [bracketsFormattedHexString, bind_run, ctorCStr_ok hc, ctorCStr_ok ha,
    plus_ok (holds_mkObj ha.nulFree) h]
  have hnf1 : NulFree ([40, 48, 120] ++ a) := nulFree_append.mpr ⟨ha.nulFree, h.nulFree⟩
  simp only [plus_ok (holds_append ha.nulFree h.nulFree) (holds_mkObj hc.nulFree), dtor_run, pure_run]
  refine ⟨_, _, rfl, holds_append hnf1 hc.nulFree, by simp [Sized], fun L hL => ?_⟩
  have g1 := ((hL.alloc 2).alloc 4).alloc 4
  have g2 := (g1.alloc (3 + (a.length + 1))).free_2nd
  have g3 := (g2.alloc (([40, 48, 120] ++ a).length + 1))
  have g4 := (g3.alloc (([40, 48, 120] ++ a).length + ([41].length + 1))).free_2nd
  have g5 := ((g4.free_2nd).free_2nd).free_2nd
  simpa using g5

theorem pc_brackets {hexString : Obj} (h : HasStr hexString) : PC (bracketsFormattedHexString hexString) := by
  obtain ⟨a, ha⟩ := h
  exact pc_of_creates fun w => ⟨_, bracketsFormattedHexString_creates ha w, fun r hr => ⟨_, hr⟩⟩

/-- a temporary created by `mk`, consumed by `use`, then destroyed -/
theorem pc_with_temp {mk : M Obj} {use : Obj → M Obj} (hmk : PC mk) (huse : ∀ o, HasStr o → PC (use o)) :
    PC (do let h ← mk; let r ← use h; dtor h; pure r) := by
  intro w res w' h
  simp only [bind_run] at h
  cases hs : mk w with
  | error e => simp [hs] at h
  | ok p =>
    obtain ⟨t, w1⟩ := p
    obtain ⟨ht, _, ho⟩ := hmk _ _ _ hs
    simp only [hs] at h
    cases hs2 : use t w1 with
    | error e => simp [hs2] at h
    | ok p2 =>
      obtain ⟨r, w2⟩ := p2
      obtain ⟨hr, hsz, ho2⟩ := huse t ht _ _ _ hs2
      simp only [hs2, dtor_run, pure_run] at h
      injection h with h; injection h with h1 h2; subst h1 h2
      exact ⟨hr, hsz, fun L hL => (ho2 _ (ho _ hL)).free_2nd⟩

theorem pc_stringFromPointer : PC stringFromPointer := by
  intro w res w' h
  simp only [stringFromPointer, bind_run] at h
  cases hs : stringFromFormat w with
  | error e => simp [hs] at h
  | ok p =>
    obtain ⟨t, w1⟩ := p
    obtain ⟨⟨a, ha⟩, _, ho⟩ := pc_stringFromFormat _ _ _ hs
    have hx : CAt [48, 120, 0] 0 [48, 120] := ⟨by decide, [], rfl⟩
    simp only [hs, ctorCStr_ok hx, plus_ok (holds_mkObj hx.nulFree) ha, dtor_run, pure_run] at h
    injection h with h; injection h with h1 h2; subst h1 h2
    refine ⟨⟨_, holds_append hx.nulFree ha.nulFree⟩, by simp [Sized]; omega, fun L hL => ?_⟩
    have g1 := ((ho _ hL).alloc 3).alloc 3
    have g2 := ((g1.alloc (2 + (a.length + 1))).free_2nd).free_2nd
    have g3 := g2.free_2nd
    simpa using g3



/-- `o += <C string>` for whatever is at `(rhs, rp)`: partial-correctness form -/
theorem appendC_pc {self : Obj} (hself : HasStr self) (rhs : Buf) (rp : Nat) :
    ∀ w r w', appendC self rhs rp w = .ok (r, w') →
      HasStr r ∧ Sized r ∧ ∀ L, Owns w ((self.id, self.size) :: L) → Owns w' ((r.id, r.size) :: L) := by
  intro w r w' h
  obtain ⟨a, ha⟩ := hself
  cases hl : StrLen rhs rp with
  | error e => simp [appendC, size_ok ha, hl] at h
  | ok n =>
    obtain ⟨b, hb, _⟩ := StrLen_inv hl
    obtain ⟨r0, w0, h0, hh, hs, ho⟩ := appendC_replaces ha hb w
    rw [h0] at h
    injection h with h; injection h with h1 h2; subst h1 h2
    exact ⟨⟨_, hh⟩, hs, ho⟩

theorem binaryLoop_pc : ∀ (k : Nat) (result : Obj), HasStr result → Sized result →
    ∀ w r w', binaryLoop k result w = .ok (r, w') →
      HasStr r ∧ Sized r ∧ ∀ L, Owns w ((result.id, result.size) :: L) → Owns w' ((r.id, r.size) :: L)
  | 0, result, hr, hs, w, r, w', h => by
    simp only [binaryLoop, pure_run] at h
    injection h with h; injection h with h1 h2; subst h1 h2
    exact ⟨hr, hs, fun L hL => hL⟩
  | k + 1, result, hr, hs, w, r, w', h => by
    simp only [binaryLoop] at h
    obtain ⟨f, w1, hf, h⟩ := bind_ok_inv h
    obtain ⟨hfs, _, hfo⟩ := pc_stringFromFormat _ _ _ hf
    obtain ⟨r2, w2, ha, h⟩ := bind_ok_inv h
    obtain ⟨h2s, h2z, h2o⟩ := appendC_pc hr _ _ _ _ _ ha
    simp only [bind_run, dtor_run] at h
    obtain ⟨h3s, h3z, h3o⟩ := binaryLoop_pc k r2 h2s h2z _ _ _ h
    refine ⟨h3s, h3z, fun L hL => h3o L ?_⟩
    have g1 := hfo _ hL
    have g2 := h2o ((f.id, f.size) :: L) (g1.perm (List.Perm.swap _ _ _))
    exact g2.free_2nd

theorem pc_stringFromBinary (n : Nat) : PC (stringFromBinary n) := by
  intro w res w' h
  simp only [stringFromBinary] at h
  obtain ⟨r0, w0, h0, h⟩ := bind_ok_inv h
  rw [ctorEmpty_ok] at h0
  injection h0 with h0; injection h0 with e1 e2; subst e1 e2
  obtain ⟨r1, w1, hs, h⟩ := bind_ok_inv h
  obtain ⟨⟨a, ha⟩, _, ho⟩ := binaryLoop_pc n _ (hasStr_mk _ nulFree_nil) (sized_mkObj _ _) _ _ _ hs
  obtain ⟨sz, w1', hsz, h⟩ := bind_ok_inv h
  rw [size_ok ha, liftE_ok] at hsz
  injection hsz with hsz; injection hsz with e1 e2; subst e1 e2
  obtain ⟨t, w2, hs2, h⟩ := bind_ok_inv h
  obtain ⟨⟨b, hb⟩, _, ho2⟩ := pc_subString ⟨a, ha⟩ _ _ _ _ _ hs2
  simp only [bind_run, assign_ok _ hb, dtor_run, pure_run] at h
  injection h with h; injection h with h1 h2; subst h1 h2
  refine ⟨hasStr_mk _ hb.nulFree, sized_mkObj _ _, fun L hL => ?_⟩
  have g1 := ho2 _ (ho L (hL.alloc 1))
  have g2 := ((g1.free_2nd).alloc (b.length + 1)).free_2nd
  simpa using g2

theorem nullLit_at : CAt nullLit 0 Gen.Str.nullText := ⟨by decide, [], rfl⟩

theorem pc_stringFromBinaryOrNull (isNull : Bool) (n : Nat) : PC (stringFromBinaryOrNull isNull n) := by
  unfold stringFromBinaryOrNull
  cases isNull
  · simpa using pc_stringFromBinary n
  · simpa using pc_ctorCStr nullLit 0

theorem pc_stringFromBinaryWithSize (isNull : Bool) (n : Nat) : PC (stringFromBinaryWithSize isNull n) := by
  intro w res w' h
  simp only [stringFromBinaryWithSize] at h
  obtain ⟨r1, w1, h1, h⟩ := bind_ok_inv h
  obtain ⟨s1, z1, o1⟩ := pc_stringFromFormat _ _ _ h1
  obtain ⟨b, w2, h2, h⟩ := bind_ok_inv h
  obtain ⟨s2, z2, o2⟩ := pc_stringFromBinaryOrNull _ _ _ _ _ h2
  obtain ⟨r3, w3, h3, h⟩ := bind_ok_inv h
  obtain ⟨s3, z3, o3⟩ := appendC_pc s1 _ _ _ _ _ h3
  simp only [bind_run, dtor_run] at h
  have own3 : ∀ L, Owns w L → Owns (w3.free b.id b.size) ((r3.id, r3.size) :: L) := by
    intro L hL
    have g1 := o2 _ (o1 _ hL)
    have g2 := o3 ((b.id, b.size) :: L) (g1.perm (List.Perm.swap _ _ _))
    exact g2.free_2nd
  by_cases hc : n > (if n > Gen.Str.binaryDisplayLimit then Gen.Str.binaryDisplayLimit else n)
  · rw [if_pos hc] at h
    obtain ⟨s4, z4, o4⟩ := appendC_pc s3 _ _ _ _ _ h
    exact ⟨s4, z4, fun L hL => o4 L (own3 L hL)⟩
  · rw [if_neg hc] at h
    have h' : Except.ok (r3, w3.free b.id b.size) = Except.ok (res, w') := h
    injection h' with h'; injection h' with e1 e2; subst e1 e2
    exact ⟨s3, z3, own3⟩

theorem pc_stringFromBinaryWithSizeOrNull (isNull : Bool) (n : Nat) : PC (stringFromBinaryWithSizeOrNull isNull n) := by
  unfold stringFromBinaryWithSizeOrNull
  cases isNull
  · simpa using pc_stringFromBinaryWithSize false n
  · simpa using pc_ctorCStr nullLit 0

theorem pc_stringFromMaskedBits (v m k : Nat) : PC (stringFromMaskedBits v m k) :=
  pc_of_creates fun w => ⟨_, stringFromMaskedBits_creates v m k w, fun r hr => ⟨_, hr⟩⟩

theorem pc_stringFromOrNull (h : Option Buf) : PC (stringFromOrNull h) := by
  cases h <;> exact pc_ctorCStr _ _



theorem liftE_inv {α} {e : Except Err α} {w : World} {a : α} {w' : World} (h : liftE e w = .ok (a, w')) :
    e = .ok a ∧ w' = w := by
  cases e with
  | error x => simp at h
  | ok b =>
    simp only [liftE_ok] at h
    injection h with h; injection h with h1 h2
    exact ⟨by rw [h1], h2.symm⟩

theorem wr_length {b b' : Buf} {i : Nat} {v : UInt8} (h : wr b i v = .ok b') : b'.length = b.length := by
  rw [(wr_inv h).2]; simp

theorem printableLoop_pc (src : Buf) : ∀ (k i j : Nat) (rb : Buf) (w : World) (rb' : Buf) (j' : Nat) (w' : World),
    printableLoop src k i j rb w = .ok ((rb', j'), w') → rb'.length = rb.length ∧ ∀ L, Owns w L → Owns w' L
  | 0, i, j, rb, w, rb', j', w', h => by
    simp only [printableLoop, pure_run] at h
    injection h with h; injection h with h1 h2; injection h1 with h3 h4; subst h2 h3
    exact ⟨rfl, fun L hL => hL⟩
  | k + 1, i, j, rb, w, rb', j', w', h => by
    simp only [printableLoop] at h
    obtain ⟨c, w1, hc, g⟩ := bind_ok_inv h
    obtain ⟨_, e1⟩ := liftE_inv hc
    subst e1
    by_cases hs : isControlWithShortEscapeSequence c = true
    · rw [if_pos hs] at g
      obtain ⟨rb1, w2, g1, g2⟩ := bind_ok_inv g
      obtain ⟨hcp, e2⟩ := liftE_inv g1
      subst e2
      obtain ⟨hl, ho⟩ := printableLoop_pc src k _ _ _ _ _ _ _ g2
      exact ⟨by rw [hl, StrNCpy_length _ _ _ _ _ _ hcp], ho⟩
    · rw [if_neg hs] at g
      by_cases hcc : isControl c = true
      · rw [if_pos hcc] at g
        obtain ⟨f, w2, hf, g1⟩ := bind_ok_inv g
        obtain ⟨_, _, hfo⟩ := pc_stringFromFormat _ _ _ hf
        obtain ⟨rb1, w3, g2, g3⟩ := bind_ok_inv g1
        obtain ⟨hcp, e2⟩ := liftE_inv g2
        subst e2
        simp only [bind_run, dtor_run] at g3
        obtain ⟨hl, ho⟩ := printableLoop_pc src k _ _ _ _ _ _ _ g3
        exact ⟨by rw [hl, StrNCpy_length _ _ _ _ _ _ hcp], fun L hL => ho L (hfo L hL).free_head⟩
      · rw [if_neg hcc] at g
        obtain ⟨rb1, w2, g1, g2⟩ := bind_ok_inv g
        obtain ⟨hcp, e2⟩ := liftE_inv g1
        subst e2
        obtain ⟨hl, ho⟩ := printableLoop_pc src k _ _ _ _ _ _ _ g2
        exact ⟨by rw [hl, wr_length hcp], ho⟩

theorem pc_printable (self : Obj) : PC (printable self) := by
  intro w res w' h
  simp only [printable] at h
  obtain ⟨r0, w0, h0, g0⟩ := bind_ok_inv h
  rw [ctorEmpty_ok] at h0
  injection h0 with h0; injection h0 with e1 e2; subst e1 e2
  obtain ⟨ps, w1, h1, g1⟩ := bind_ok_inv g0
  obtain ⟨_, e1⟩ := liftE_inv h1
  subst e1
  obtain ⟨r2, w2, h2, g2⟩ := bind_ok_inv g1
  simp only [setInternalBufferToNewBuffer, deallocateInternalBuffer] at h2
  obtain ⟨u, wa, ha, h2a⟩ := bind_ok_inv h2
  rw [deallocStringBuffer_run] at ha
  injection ha with ha; injection ha with _ e2; subst e2
  obtain ⟨k, wb, hb, h2b⟩ := bind_ok_inv h2a
  rw [allocStringBuffer_run] at hb
  injection hb with hb; injection hb with e1 e2; subst e1 e2
  obtain ⟨b0, wc, hc, h2c⟩ := bind_ok_inv h2b
  obtain ⟨hw0, e1⟩ := liftE_inv hc
  subst e1
  simp only [pure_run] at h2c
  injection h2c with h2c; injection h2c with e1 e2; subst e1 e2
  obtain ⟨n, w3, h3, g3⟩ := bind_ok_inv g2
  obtain ⟨_, e1⟩ := liftE_inv h3
  subst e1
  obtain ⟨r, w4, h4, g4⟩ := bind_ok_inv g3
  obtain ⟨rb', j'⟩ := r
  obtain ⟨hl, ho⟩ := printableLoop_pc _ _ _ _ _ _ _ _ _ h4
  obtain ⟨b, w5, h5, g5⟩ := bind_ok_inv g4
  obtain ⟨hw5, e1⟩ := liftE_inv h5
  subst e1
  simp only [pure_run] at g5
  injection g5 with g5; injection g5 with e1 e2; subst e1 e2
  have hlen0 : b0.length = ps + 1 := by rw [wr_length hw0]; simp
  have hlenb : b.length = ps + 1 := by rw [wr_length hw5, hl, hlen0]
  refine ⟨?_, by simp [Sized, hlenb], fun L hL => ?_⟩
  · obtain ⟨hj, hb⟩ := wr_inv hw5
    exact hasStr_of_zero (j := j') (by rw [hb]; simp [hj])
  · have g1 := ((hL.alloc 1).free_head).alloc (ps + 1)
    exact ho _ (by simpa using g1)

theorem pc_printableStringFromOrNull (h : Option Buf) : PC (printableStringFromOrNull h) := by
  cases h with
  | none => exact pc_ctorCStr _ _
  | some b => exact pc_with_temp (pc_ctorCStr b 0) (fun o _ => pc_printable o)



/-! ### texts of the formatter family, given what libc printed -/

/-- `HexStringFrom(signed char)`: a non-negative value keeps what `printf("%x")` printed; for a
    negative value (promoted to `int`, so at least two digits) only the last two characters are
    kept -/
theorem hexStringFromSignedChar_creates {w : World} {r : VsnRes} {rest : List VsnRes} (neg : Bool)
    (hv : w.vsn = r :: rest) (hret : r.ret < sizeOfdefaultBuffer) (hlen : r.text.length < sizeOfdefaultBuffer)
    (hnf : NulFree r.text) (h2 : 2 ≤ r.text.length) :
    Creates (hexStringFromSignedChar neg) w
      (fun o => Holds o (if neg then r.text.drop (r.text.length - 2) else r.text)) := by
  obtain ⟨w1, hf1, _, _, _, hf5⟩ := stringFromFormat_fast hv hret hlen hnf
  unfold Creates
  simp only [hexStringFromSignedChar, bind_run, hf1]
  cases neg with
  | false =>
    simp only [Bool.false_eq_true, if_false, pure_run]
    exact ⟨_, _, rfl, holds_mkObj hnf, sized_mkObj _ _, hf5⟩
  | true =>
    have hlt : r.text.length < npos := by
      simp only [sizeOfdefaultBuffer, Gen.Str.sizeOfdefaultBuffer] at hlen; simp only [npos]; omega
    simp only [if_true, bind_run, size_ok (holds_mkObj hnf), liftE_ok, h2, ge_iff_le]
    obtain ⟨t, w2, ht, hth, _, hto⟩ := subString1_creates (holds_mkObj (i := w.next + 4) hnf) hlt (r.text.length - 2) w1
    simp only [Text.subStringFrom] at hth
    simp only [ht, assign_ok _ hth, dtor_run, pure_run]
    refine ⟨_, _, rfl, holds_mkObj hth.nulFree, sized_mkObj _ _, fun L hL => ?_⟩
    have g1 := hto _ (hf5 L hL)
    have g2 := ((g1.free_2nd).alloc ((r.text.drop (r.text.length - 2)).length + 1)).free_2nd
    simpa using g2

/-- `BracketsFormattedHexStringFrom(v)` = `"(0x" ++ <what printf printed> ++ ")"` -/
theorem bracketsFromFormat_creates {w : World} {r : VsnRes} {rest : List VsnRes}
    (hv : w.vsn = r :: rest) (hret : r.ret < sizeOfdefaultBuffer) (hlen : r.text.length < sizeOfdefaultBuffer)
    (hnf : NulFree r.text) :
    Creates (do let h ← stringFromFormat; let o ← bracketsFormattedHexString h; dtor h; pure o) w
      (fun o => Holds o ([40, 48, 120] ++ r.text ++ [41])) := by
  obtain ⟨w1, hf1, _, _, _, hf5⟩ := stringFromFormat_fast hv hret hlen hnf
  obtain ⟨o, w2, hb1, hb2, hb3, hb4⟩ := bracketsFormattedHexString_creates (holds_mkObj (i := w.next + 4) hnf) w1
  unfold Creates
  simp only [bind_run, hf1, hb1, dtor_run, pure_run]
  exact ⟨_, _, rfl, hb2, hb3, fun L hL => (hb4 _ (hf5 L hL)).free_2nd⟩

/-- `StringFrom(const void*)` = `"0x" ++ <what printf printed>` -/
theorem stringFromPointer_creates {w : World} {r : VsnRes} {rest : List VsnRes}
    (hv : w.vsn = r :: rest) (hret : r.ret < sizeOfdefaultBuffer) (hlen : r.text.length < sizeOfdefaultBuffer)
    (hnf : NulFree r.text) :
    Creates stringFromPointer w (fun o => Holds o ([48, 120] ++ r.text)) := by
  obtain ⟨w1, hf1, _, _, _, hf5⟩ := stringFromFormat_fast hv hret hlen hnf
  have hx : CAt [48, 120, 0] 0 [48, 120] := ⟨by decide, [], rfl⟩
  unfold Creates
  simp only [stringFromPointer, bind_run, hf1, ctorCStr_ok hx,
    plus_ok (holds_mkObj hx.nulFree) (holds_mkObj (i := w.next + 4) hnf), dtor_run, pure_run]
  refine ⟨_, _, rfl, holds_append hx.nulFree hnf, by simp [Sized]; omega, fun L hL => ?_⟩
  have g1 := ((hf5 L hL).alloc 3).alloc 3
  have g2 := ((g1.alloc (2 + (r.text.length + 1))).free_2nd).free_2nd
  have g3 := g2.free_2nd
  simpa using g3

/-- `StringFrom(bool)`: the glue adds nothing to what `printf("%s", "true"/"false")` printed -/
theorem stringFromBool_creates {w : World} {r : VsnRes} {rest : List VsnRes} (b : Bool)
    (hv : w.vsn = r :: rest) (hret : r.ret < sizeOfdefaultBuffer)
    (htext : r.text = if b then [116, 114, 117, 101] else [102, 97, 108, 115, 101]) :
    Creates stringFromFormat w (fun o => Holds o (if b then [116, 114, 117, 101] else [102, 97, 108, 115, 101])) := by
  have hnf : NulFree r.text := by rw [htext]; cases b <;> decide
  have hlen : r.text.length < sizeOfdefaultBuffer := by
    rw [htext]; cases b <;> simp [sizeOfdefaultBuffer, Gen.Str.sizeOfdefaultBuffer]
  obtain ⟨w1, hf1, _, _, _, hf5⟩ := stringFromFormat_fast hv hret hlen hnf
  exact ⟨_, _, hf1, by rw [← htext]; exact holds_mkObj hnf, sized_mkObj _ _, hf5⟩

theorem ellipsis_at : CAt (Gen.Str.binaryEllipsis ++ [0]) 0 [32, 46, 46, 46] := ⟨by decide, [], rfl⟩

/-- `StringFromBinaryWithSize`: header, the first `min n 128` bytes as hex pairs, `" ..."` when cut —
    given that libc printed the header (`hdr`) and each `"%02X "` (`BinEnv`) -/
theorem stringFromBinaryWithSize_creates (x : Bytes) (w : World) (hdr : VsnRes) (vs rest : List VsnRes)
    (hv : w.vsn = hdr :: (vs ++ rest)) (hret : hdr.ret < sizeOfdefaultBuffer)
    (hlen : hdr.text.length < sizeOfdefaultBuffer) (hnf : NulFree hdr.text) (henv : BinEnv (x.take 128) vs) :
    Creates (stringFromBinaryWithSize false x.length) w
      (fun o => Holds o (hdr.text ++ TextExt.binary (x.take 128) ++ (if x.length > 128 then [32, 46, 46, 46] else []))) := by
  obtain ⟨w1, hf1, hf2, _, _, hf5⟩ := stringFromFormat_fast hv hret hlen hnf
  have hk : (if x.length > Gen.Str.binaryDisplayLimit then Gen.Str.binaryDisplayLimit else x.length) = (x.take 128).length := by
    simp only [Gen.Str.binaryDisplayLimit, List.length_take]; split <;> omega
  obtain ⟨b, w2, hb1, hb2, hb3, _, hb5⟩ := stringFromBinary_creates (x.take 128) w1 vs rest henv hf2
  obtain ⟨r3, w3, ha1, ha2, ha3, ha4⟩ := appendC_replaces (holds_mkObj (i := w.next + 4) hnf) hb2 w2
  unfold Creates
  simp only [stringFromBinaryWithSize, bind_run, hf1, hk, stringFromBinaryOrNull, Bool.false_eq_true, if_false, hb1]
  have ha1' : appendC (mkObj (w.next + 4) hdr.text) b.buf 0 w2 = .ok (r3, w3) := ha1
  simp only [ha1', dtor_run]
  have own3 : ∀ L, Owns w L → Owns (w3.free b.id b.size) ((r3.id, r3.size) :: L) := by
    intro L hL
    have g1 := hb5 _ (hf5 L hL)
    have g2 := ha4 ((b.id, b.size) :: L) (g1.perm (List.Perm.swap _ _ _))
    exact g2.free_2nd
  by_cases hc : x.length > (x.take 128).length
  · have hgt : x.length > 128 := by simp only [List.length_take] at hc; omega
    simp only [hc, if_true, hgt]
    obtain ⟨r4, w4, he1, he2, he3, he4⟩ := appendC_replaces ha2 ellipsis_at (w3.free b.id b.size)
    exact ⟨r4, w4, he1, he2, he3, fun L hL => he4 L (own3 L hL)⟩
  · have hle : ¬ x.length > 128 := by simp only [List.length_take] at hc; omega
    simp only [hc, if_false, hle, pure_run, List.append_nil]
    exact ⟨r3, _, rfl, ha2, ha3, own3⟩

/-- … which is the textbook text when the header is the one libc prints for `"Size = %u | HexContents = "` -/
theorem stringFromBinaryWithSize_textbook (x : Bytes) {hdr : VsnRes} (h : hdr.text = TextExt.sizeHeader x.length) :
    hdr.text ++ TextExt.binary (x.take 128) ++ (if x.length > 128 then [32, 46, 46, 46] else []) =
      TextExt.binaryWithSize x := by
  rw [h]; rfl

end SStr
