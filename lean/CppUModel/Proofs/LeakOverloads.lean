import CppUModel.Model.LeakOverloads
import CppUModel.Spec.LeakDetector
/-!
Helper lemmas about the function-pointer store and the switch functions of `Model/LeakOverloads.lean`.
-/
namespace LeakDetector
open Gen.LeakDetector

theorem lookup_filter_ne (s : Store) (k x : String) (h : x ≠ k) :
    (s.filter (fun e => e.1 != k)).lookup x = s.lookup x := by
  induction s with
  | nil => rfl
  | cons e rest ih =>
    by_cases hk : e.1 = k
    · have hf : (e.1 != k) = false := by simp [hk]
      have hx : (x == e.1) = false := by simp [hk, h]
      rw [List.filter_cons_of_neg (by simp [hf]), List.lookup_cons, hx, ih]
    · have hf : (e.1 != k) = true := by simp [hk]
      rw [List.filter_cons_of_pos (by simp [hf]), List.lookup_cons, List.lookup_cons, ih]

@[simp] theorem Store.get_set (s : Store) (k v x : String) :
    (s.set k v).get x = if x = k then v else s.get x := by
  unfold Store.get Store.set
  by_cases h : x = k
  · simp [h, List.lookup]
  · have hx : (x == k) = false := by simp [h]
    simp [h, List.lookup, hx, lookup_filter_ne s k x h]

/-- the eleven function pointers -/
def fptrNames : List String := offTable.map (·.1)

end LeakDetector
