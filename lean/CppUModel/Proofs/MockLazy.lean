import CppUModel.Proofs.Mock
/-! Lazily finished calls, `ignoreOtherCalls`, several scopes (C08). -/
namespace Mock

theorem runG_false : ∀ (calls : List Call) (es : List Exp) (k : Nat), runG false es k calls = run es k calls
  | [], _, _ => rfl
  | c :: rest, es, k => by
    simp only [runG, run, Bool.false_and, Bool.false_eq_true, if_false]
    cases (callFull es (k + 1) c.name c.segs bufInit).fail with
    | some m => rfl
    | none => exact runG_false rest _ _

theorem checkLasts_single (sc : Scope) : checkLasts [sc] = ([sc.checkLast.1], sc.checkLast.2) := by
  unfold checkLasts
  cases h : sc.checkLast with
  | mk s1 f =>
    cases f with
    | some m => rfl
    | none => simp [checkLasts]

theorem endCheck_eq (es : List Exp) :
    (if es.any (fun e => !e.isFulfilled) then some msgUnfulfilled
     else if es.any (fun e => e.outOfOrder) then some msgOutOfOrder else none) = endCheck es := rfl

/-- `checkExpectations` of the global mock alone: finish the call in flight, then `endCheck` -/
theorem check_settled (sc : Scope) :
    (World.check { glob := sc, subs := [] } "").2 =
      match sc.settledFail with
      | some f => some f
      | none => endCheck sc.settledEs := by
  have hcl : sc.checkLast.2 = sc.settledFail ∧ sc.checkLast.1.es = sc.settledEs := by
    unfold Scope.checkLast Scope.settledFail Scope.settledEs
    cases sc.last <;> exact ⟨rfl, rfl⟩
  have ht : (World.touch { glob := sc, subs := [] } "") = { glob := sc, subs := [] } := by simp [World.touch]
  have hc : World.covered { glob := sc, subs := [] } "" = [sc] := by simp [World.covered]
  simp only [World.check, ht, hc, checkLasts_single]
  rw [← hcl.1, ← hcl.2]
  cases hf : sc.checkLast.2 with
  | some f => rfl
  | none =>
    simp only [List.any_cons, List.any_nil, Bool.or_false, Scope.hasUnfulfilled, Scope.hasOutOfOrder]
    unfold endCheck
    split
    · rfl
    · split <;> rfl


/-- the scope after `actualCall` has finished the call in flight -/
def Scope.afterFinish (sc : Scope) : Scope := { sc with es := sc.settledEs, last := none }

theorem afterFinish_settled (sc : Scope) : sc.afterFinish.settledEs = sc.settledEs ∧ sc.afterFinish.settledFail = none :=
  ⟨rfl, rfl⟩

theorem checkLast_eq (sc : Scope) :
    sc.checkLast = ({ sc with es := sc.settledEs,
                              last := sc.last.map (fun c => (callCheck { es := sc.es, call := c, fail := none }).call) },
                    sc.settledFail) := by
  obtain ⟨name, es, ao, eo, st, ioc, en, last⟩ := sc
  cases last <;> rfl

theorem actualCall_eq (sc : Scope) (fn : String) :
    sc.actualCall fn =
      match sc.settledFail with
      | some f => { sc := { sc with es := sc.settledEs,
                                    last := sc.last.map (fun c => (callCheck { es := sc.es, call := c, fail := none }).call) },
                    fail := some f, ignored := false }
      | none => Scope.startCall sc.afterFinish (sc.fullName fn) := by
  unfold Scope.actualCall
  rw [checkLast_eq]
  cases sc.settledFail <;> rfl

theorem callCheck_of_checked (cs : CS) (h : cs.call.checked = true) : callCheck cs = cs := by
  unfold callCheck; rw [if_pos h]

theorem callCheck_checked (cs : CS) : (callCheck cs).call.checked = true := by
  unfold callCheck
  split
  · next h => exact h
  · simp only
    split
    · rfl
    · rfl
    · unfold finishInProgress
      simp only
      split
      · exact (failCall_meta _ _).1
      · split
        · rfl
        · split <;> exact (failCall_meta _ _).1

/-- **lazy = eager.** A run in which calls are finished lazily (by the next `actualCall`, by the
    return-value getter, or by the final `checkExpectations`) has the verdict of the eager run
    `runG` on the settled expectation list — for every expectation list, whatever its class. -/
theorem lazyVerdict_eq : ∀ (stmts : List Stmt) (sc : Scope), sc.name = "" → sc.enabled = true →
    sc.lazyVerdict stmts =
      match sc.settledFail with
      | some f => some f
      | none => runG sc.ioc sc.settledEs sc.actualOrder (stmts.map (·.call))
  | [], sc, _, _ => by
    simp only [Scope.lazyVerdict, Scope.lazyRun, List.map_nil, runG]
    exact check_settled sc
  | s :: rest, sc, hname, hen => by
    have hfull : sc.fullName s.call.name = s.call.name := by simp [Scope.fullName, hname]
    cases hsf : sc.settledFail with
    | some f =>
      simp only [Scope.lazyVerdict, Scope.lazyRun, actualCall_eq, hsf]
    | none =>
      simp only [Scope.lazyVerdict, Scope.lazyRun, actualCall_eq, hsf, hfull, List.map_cons, runG]
      have henA : sc.afterFinish.enabled = true := hen
      by_cases hig : (sc.ioc && !(sc.settledEs.any fun e => e.name == s.call.name)) = true
      · -- ignored
        have hst : Scope.startCall sc.afterFinish s.call.name = { sc := sc.afterFinish, fail := none, ignored := true } := by
          unfold Scope.startCall
          simp only [henA, Bool.not_true, Bool.false_eq_true, if_false]
          have : (sc.afterFinish.ioc && !(sc.afterFinish.es.any fun e => e.name == s.call.name)) = true := hig
          rw [if_pos this]
        rw [hst, if_pos hig]
        simp only [if_true]
        have ih := lazyVerdict_eq rest sc.afterFinish hname hen
        simp only [Scope.lazyVerdict] at ih
        rw [ih]
        rfl
      · -- a checked call
        have hst : Scope.startCall sc.afterFinish s.call.name =
            { sc := { sc.afterFinish with
                      es := (withName { es := beginCall sc.settledEs, call := newCall (sc.actualOrder + 1), fail := none } s.call.name).es,
                      actualOrder := sc.actualOrder + 1,
                      last := some (withName { es := beginCall sc.settledEs, call := newCall (sc.actualOrder + 1), fail := none } s.call.name).call },
              fail := (withName { es := beginCall sc.settledEs, call := newCall (sc.actualOrder + 1), fail := none } s.call.name).fail,
              ignored := false } := by
          unfold Scope.startCall
          simp only [henA, Bool.not_true, Bool.false_eq_true, if_false]
          have : ¬((sc.afterFinish.ioc && !(sc.afterFinish.es.any fun e => e.name == s.call.name)) = true) := hig
          rw [if_neg this]
          rfl
        rw [hst, if_neg hig]
        simp only
        unfold callFull
        cases hw : (withName { es := beginCall sc.settledEs, call := newCall (sc.actualOrder + 1), fail := none } s.call.name).fail with
        | some f =>
          have hne : (withName { es := beginCall sc.settledEs, call := newCall (sc.actualOrder + 1), fail := none } s.call.name).fail ≠ none := by
            rw [hw]; simp
          simp only
          rw [segsFrom_failed _ _ _ hne, callCheck_fail_some _ f hw]
        | none =>
          simp only [Bool.false_eq_true, if_false]
          rw [segsLoop_eq bufInit s.call.segs _ _ rfl]
          simp only [cs_eta _ hw]
          generalize segsFrom (withName { es := beginCall sc.settledEs, call := newCall (sc.actualOrder + 1), fail := none } s.call.name) bufInit s.call.segs = X
          cases hs : X.fail with
          | some f =>
            simp only
            rw [callCheck_fail_some _ f hs]
          | none =>
            simp only
            cases hnow : s.now with
            | true =>
              simp only [if_true, Scope.checkLast, cs_eta _ hs]
              generalize hY : callCheck X = Y
              have hchk : Y.call.checked = true := by rw [← hY]; exact callCheck_checked X
              cases hcc : Y.fail with
              | some f => rfl
              | none =>
                simp only
                have ih := lazyVerdict_eq rest
                  { sc.afterFinish with es := Y.es, actualOrder := sc.actualOrder + 1, last := some Y.call } hname hen
                simp only [Scope.lazyVerdict] at ih
                rw [ih]
                have h1 : callCheck { es := Y.es, call := Y.call, fail := none } = Y := by
                  rw [cs_eta _ hcc]; exact callCheck_of_checked Y hchk
                simp only [Scope.settledFail, Scope.settledEs, h1, hcc]
                rfl
            | false =>
              simp only [Bool.false_eq_true, if_false]
              have ih := lazyVerdict_eq rest
                { sc.afterFinish with es := X.es, actualOrder := sc.actualOrder + 1, last := some X.call } hname hen
              simp only [Scope.lazyVerdict] at ih
              rw [ih]
              simp only [Scope.settledFail, Scope.settledEs, cs_eta _ hs]
              rfl


/-! ### `ignoreOtherCalls`: the function names of the expectation list never change -/

def namesOf (es : List Exp) : List String := es.map (·.name)

theorem names_map (f : Exp → Exp) (hf : ∀ e, (f e).name = e.name) (l : List Exp) : namesOf (l.map f) = namesOf l := by
  simp [namesOf, List.map_map, Function.comp_def, hf]

theorem names_modifyFirst (p : Exp → Bool) (f : Exp → Exp) (hf : ∀ e, (f e).name = e.name) :
    ∀ l : List Exp, namesOf (modifyFirst p f l) = namesOf l
  | [] => rfl
  | a :: l => by
    simp only [modifyFirst]
    split
    · simp [namesOf, hf]
    · have := names_modifyFirst p f hf l
      simp only [namesOf] at this ⊢
      simp [this]

theorem reset_name (e : Exp) : e.reset.name = e.name := rfl
theorem callWasMade_name (e : Exp) (k : Nat) : (e.callWasMade k).name = e.name := rfl

theorem complete_names (cs : CS) : namesOf (complete cs).es = namesOf cs.es := by
  unfold complete
  split
  · (apply names_modifyFirst; intro e; rfl)
  · split <;> rfl

theorem failCall_names (cs : CS) (msg : String) : namesOf (failCall cs msg).es = namesOf cs.es := by
  rw [(failCall_meta cs msg).2.2]

theorem discardE_name (e : Exp) : (discardE e).name = e.name := by
  unfold discardE
  split
  · rfl
  · split <;> rfl

theorem checkParam_names (cs : CS) (keep : Exp → Bool) (pass : Exp → Exp) (msg : String)
    (hp : ∀ e, (pass e).name = e.name) : namesOf (checkParam cs keep pass msg).es = namesOf cs.es := by
  unfold checkParam
  split
  · rfl
  · simp only
    have h1 : namesOf ((cs.es.map discardE).map (fun e => if e.cand && !keep e then ({ e.reset with cand := false } : Exp) else e)) = namesOf cs.es := by
      rw [names_map _ (fun e => by split <;> rfl), names_map _ discardE_name]
    split
    · rw [complete_names]
      simp only
      rw [names_map _ (fun e => by split; exact hp e; rfl), h1]
    · rw [failCall_names]; exact h1

theorem onObject_names (cs : CS) (o : Nat) : namesOf (onObject cs o).es = namesOf cs.es := by
  unfold onObject
  split
  · rfl
  · simp only
    have h1 : namesOf (cs.es.map (fun e => if e.cand && !e.relatesToObject o then ({ e.reset with cand := false } : Exp) else e)) = namesOf cs.es :=
      names_map _ (fun e => by split <;> rfl) _
    split
    · rw [failCall_names]; exact h1
    · have h2 : namesOf ((cs.es.map (fun e => if e.cand && !e.relatesToObject o then ({ e.reset with cand := false } : Exp) else e)).map
          (fun e => if e.cand then ({ e with passedObj := true } : Exp) else e)) = namesOf cs.es := by
        rw [names_map _ (fun e => by split <;> rfl), h1]
      split
      · exact h2
      · rw [complete_names]; exact h2

theorem applySeg_names (cs : CS) (buf : List UInt8) (s : Seg) : namesOf (applySeg cs buf s).es = namesOf cs.es := by
  cases s with
  | inp n v => exact checkParam_names _ _ _ _ (fun _ => rfl)
  | out n => exact checkParam_names _ _ _ _ (fun _ => rfl)
  | obj o => exact onObject_names _ _

theorem segsFrom_names (buf : List UInt8) : ∀ (segs : List Seg) (cs : CS), namesOf (segsFrom cs buf segs).es = namesOf cs.es
  | [], _ => rfl
  | s :: rest, cs => by
    simp only [segsFrom]
    split
    · rfl
    · rw [segsFrom_names buf rest, applySeg_names]

theorem withName_names (cs : CS) (n : String) : namesOf (withName cs n).es = namesOf cs.es := by
  unfold withName
  simp only
  split
  · rw [complete_names]; (apply names_map; intro e; rfl)
  · rw [failCall_names]; (apply names_map; intro e; rfl)

theorem resetCands_names (es : List Exp) : namesOf (resetCands es) = namesOf es :=
  names_map _ (fun e => by split <;> rfl) _

theorem callCheck_names (cs : CS) : namesOf (callCheck cs).es = namesOf cs.es := by
  unfold callCheck
  split
  · rfl
  · simp only
    split
    · rw [resetCands_names]; exact names_map _ (fun e => by split <;> rfl) _
    · exact resetCands_names _
    · unfold finishInProgress
      simp only
      split
      · exact failCall_names _ _
      · split
        · simp only
          rw [resetCands_names]
          (apply names_modifyFirst; intro e; rfl)
        · split <;> exact failCall_names _ _

theorem callFull_names (es : List Exp) (k : Nat) (n : String) (segs : List Seg) (buf : List UInt8) :
    namesOf (callFull es k n segs buf).es = namesOf es := by
  unfold callFull
  rw [callCheck_names, segsFrom_names, withName_names]
  (apply names_map; intro e; rfl)

theorem any_name_congr {l1 l2 : List Exp} (h : namesOf l1 = namesOf l2) (n : String) :
    l1.any (fun e => e.name == n) = l2.any (fun e => e.name == n) := by
  have h1 : ∀ l : List Exp, l.any (fun e => e.name == n) = (namesOf l).any (fun m => m == n) := by
    intro l; simp [namesOf, List.any_map, Function.comp_def]
  rw [h1 l1, h1 l2, h]

theorem knownCalls_congr {l1 l2 : List Exp} (h : namesOf l1 = namesOf l2) (calls : List Call) :
    knownCalls l1 calls = knownCalls l2 calls := by
  unfold knownCalls
  congr 1
  funext c
  exact any_name_congr h c.name

/-- with `ignoreOtherCalls` the run is the run on the calls to functions some expectation names -/
theorem runG_true_eq : ∀ (calls : List Call) (es : List Exp) (k : Nat),
    runG true es k calls = run es k (knownCalls es calls)
  | [], _, _ => rfl
  | c :: rest, es, k => by
    simp only [runG, Bool.true_and]
    cases hk : es.any (fun e => e.name == c.name) with
    | false =>
      have : knownCalls es (c :: rest) = knownCalls es rest := by simp [knownCalls, hk]
      simp only [Bool.not_false, if_true, this]
      exact runG_true_eq rest es k
    | true =>
      have : knownCalls es (c :: rest) = c :: knownCalls es rest := by simp [knownCalls, hk]
      simp only [Bool.not_true, Bool.false_eq_true, if_false, this, run]
      cases hf : (callFull es (k + 1) c.name c.segs bufInit).fail with
      | some m => rfl
      | none =>
        simp only
        rw [runG_true_eq rest _ (k + 1), knownCalls_congr (callFull_names es (k + 1) c.name c.segs bufInit) rest]


/-! ### `checkExpectations` / `expectedCallsLeft` of the global mock cover every scope -/

theorem checkLasts_spec : ∀ (scs : List Scope),
    (checkLasts scs).2 = firstPendingFail scs ∧
    ((checkLasts scs).2 = none → (checkLasts scs).1.flatMap (·.es) = scs.flatMap Scope.settledEs)
  | [] => ⟨rfl, fun _ => rfl⟩
  | s :: rest => by
    obtain ⟨ih1, ih2⟩ := checkLasts_spec rest
    unfold checkLasts firstPendingFail
    rw [checkLast_eq]
    cases hf : s.settledFail with
    | some f => exact ⟨rfl, fun h => by cases h⟩
    | none =>
      simp only
      cases hr : checkLasts rest with
      | mk rest1 f =>
        rw [hr] at ih1 ih2
        simp only at ih1 ih2 ⊢
        refine ⟨ih1, fun h => ?_⟩
        simp only [List.flatMap_cons, ih2 h]

theorem any_flatMap_unfulfilled (scs : List Scope) :
    scs.any Scope.hasUnfulfilled = (scs.flatMap (·.es)).any (fun e => !e.isFulfilled) := by
  induction scs with
  | nil => rfl
  | cons s rest ih => simp [List.any_cons, Scope.hasUnfulfilled, ih, List.any_append]

theorem any_flatMap_outOfOrder (scs : List Scope) :
    scs.any Scope.hasOutOfOrder = (scs.flatMap (·.es)).any (fun e => e.outOfOrder) := by
  induction scs with
  | nil => rfl
  | cons s rest ih => simp [List.any_cons, Scope.hasOutOfOrder, ih, List.any_append]

/-- **`mock().checkExpectations()` over scopes**: it finishes the call in flight of the global
    mock and of every named scope (first failure wins), and then fails iff ANY scope — global or
    named, first or last — has an unfulfilled expectation (else iff any has an out-of-order call) -/
theorem check_over_scopes (w : World) :
    (w.check "").2 =
      match firstPendingFail (w.glob :: w.subs) with
      | some f => some f
      | none => endCheck w.allSettledEs := by
  have ht : w.touch "" = w := by simp [World.touch]
  have hc : w.covered "" = w.glob :: w.subs := by simp [World.covered]
  obtain ⟨h1, h2⟩ := checkLasts_spec (w.glob :: w.subs)
  simp only [World.check, ht, hc]
  cases hcl : checkLasts (w.glob :: w.subs) with
  | mk scs f =>
    rw [hcl] at h1 h2
    simp only at h1 h2
    rw [← h1]
    cases f with
    | some m => rfl
    | none =>
      simp only
      rw [any_flatMap_unfulfilled, any_flatMap_outOfOrder, h2 rfl]
      unfold endCheck World.allSettledEs
      split
      · rfl
      · split <;> rfl

/-- **`mock().expectedCallsLeft()` over scopes** -/
theorem left_over_scopes (w : World) (h : firstPendingFail (w.glob :: w.subs) = none) :
    (w.left "").2.1 = none ∧ (w.left "").2.2 = w.allSettledEs.any (fun e => !e.isFulfilled) := by
  have ht : w.touch "" = w := by simp [World.touch]
  have hc : w.covered "" = w.glob :: w.subs := by simp [World.covered]
  obtain ⟨h1, h2⟩ := checkLasts_spec (w.glob :: w.subs)
  simp only [World.left, ht, hc]
  cases hcl : checkLasts (w.glob :: w.subs) with
  | mk scs f =>
    rw [hcl] at h1 h2
    simp only at h1 h2
    rw [h] at h1
    subst h1
    simp only
    rw [any_flatMap_unfulfilled, h2 rfl]
    exact ⟨by first | rfl | trivial, by first | rfl | trivial⟩

end Mock
