import CppUModel.Proofs.JUnitLoop
/-!
Helper lemmas for C16, part 8: the loop theorem for ANY per-test projection of a test case element that depends
on the node only (`loop_proj`; `loop_keys` is the instance name/file/line/skipped/failure), instantiated with the
`time` attribute; the `time` attribute of the suite element is the time of its group (`loop_group_times`).
-/
set_option linter.unusedSimpArgs false
namespace JUnit
open Text (Bytes)
open OutEv

theorem casesOf_proj {κ : Type} (ck : Case → κ) (nk : Node → κ) (hcn : ∀ p g t n, ck (caseOf p g t n) = nk n)
    (p g : Bytes) : ∀ (ns : List Node) (t : Nat), (casesOf p g t ns).map ck = ns.map nk
  | [], _ => rfl
  | n :: rest, t => by simp [casesOf, casesOf_proj ck nk hcn p g rest, hcn]

theorem reportOf_proj {κ : Type} (ck : Case → κ) (nk : Node → κ) (hcn : ∀ p g t n, ck (caseOf p g t n) = nk n) (s : St) :
    (reportOf s).2.cases.map ck = s.nodesRev.reverse.map nk := by
  simp [reportOf, suiteOf, casesOf_proj ck nk hcn]

/-- the loop theorem for any projection of a test case element that is a function of the collected node, which in turn
    is a function of the scripted test -/
theorem loop_proj {κ : Type} (ck : Case → κ) (nk : Node → κ) (sk : Script → κ)
    (hcn : ∀ p g t n, ck (caseOf p g t n) = nk n) (hns : ∀ sc r, nk (scriptNode sc r) = sk sc)
    (flt : Option Filter) : ∀ (tests : List Script) (gs : Bool) (g0 : Nat) (r : R) (s : St),
    s.crashed = false → (tests = [] → s.nodesRev = []) →
    (reportsFrom s (loop flt gs g0 r tests)).flatMap (fun rp => rp.2.cases.map ck) =
      s.nodesRev.reverse.map nk ++ ((tests.filter fun t => shouldRun flt t.info).map sk)
  | [], gs, g0, r, s, hc, hnil => by
    simp [loop, reportsFrom_cons, reportsFrom_nil, reportsOf, hnil rfl]
  | t :: rest, gs, g0, r, s, hc, _ => by
    simp only [loop]
    have hstart : stFrom s (startEvs gs t) = s ∧ reportsFrom s (startEvs gs t) = [] := by
      unfold startEvs; split <;> simp [stFrom_cons, stFrom_nil, reportsFrom_cons, reportsFrom_nil, reportsOf, step, hc]
    have hb := body_state flt t r s hc
    rw [List.append_assoc, List.append_assoc, reportsFrom_append, hstart.1, hstart.2, List.nil_append,
      reportsFrom_append, reportsFrom_quiet _ _ (noGroupEnd_body flt t r), List.nil_append,
      reportsFrom_append]
    generalize hs2 : stFrom s (bodyEvs flt t r) = s2 at hb ⊢
    obtain ⟨hc2, _, hn2⟩ := hb
    have hkeys : s2.nodesRev.reverse.map nk =
        s.nodesRev.reverse.map nk ++ (if shouldRun flt t.info then [sk t] else []) := by
      rw [hn2]; split <;> simp [hns]
    unfold endEvs
    cases he : endOfGroup t rest
    · simp only [Bool.false_eq_true, if_false, reportsFrom_nil, stFrom_nil, List.nil_append]
      have hrest : rest = [] → s2.nodesRev = [] := by
        intro h; subst h; simp [endOfGroup] at he
      have ih := loop_proj ck nk sk hcn hns flt rest false (if gs = true then r.clock else g0) (bodyR flt t r) s2 hc2 hrest
      rw [ih, hkeys, List.filter_cons]
      split <;> simp
    · simp only [if_true]
      generalize hms : (bodyR flt t r).clock - (if gs = true then r.clock else g0) = ms
      have hrep : reportsFrom s2 [Ev.groupEnded ms] = [reportOf { s2 with groupExecTime := ms }] := by
        simp [reportsFrom_cons, reportsFrom_nil, reportsOf, hc2]
      have hst : stFrom s2 [Ev.groupEnded ms] = onGroupEnded s2 ms := by
        simp [stFrom_cons, stFrom_nil, step, hc2]
      have ih := loop_proj ck nk sk hcn hns flt rest true (if gs = true then r.clock else g0) (bodyR flt t r) (onGroupEnded s2 ms)
        (by simp [onGroupEnded, reset_eq, hc2]) (by intro _; simp [onGroupEnded, reset_eq])
      rw [hrep, hst, List.flatMap_append, ih]
      simp only [List.flatMap_cons, List.flatMap_nil, List.append_nil, reportOf_proj ck nk hcn, hkeys]
      simp only [onGroupEnded, reset_eq, List.reverse_nil, List.map_nil, List.nil_append, List.filter_cons]
      split <;> simp

/-! ## the `time` attribute of a test case -/

/-- seconds (as printed through `(int)`) and milliseconds part of a time in ms -/
def timeOfMs (ms : Nat) : Int × Nat := (castInt ((ms / 1000 : Nat) : Int), ms % 1000)

def caseTime (c : Case) : Int × Nat := (c.secs, c.millis)
def nodeTime (n : Node) : Int × Nat := timeOfMs n.execTime
/-- what the run says: the clock advanced by the test's ticks while it ran; an ignored test takes no time -/
def scriptTime (sc : Script) : Int × Nat := timeOfMs (if sc.info.willRun then actTicks sc.acts else 0)

theorem caseTime_caseOf (p g : Bytes) (t : Nat) (n : Node) : caseTime (caseOf p g t n) = nodeTime n := by
  simp only [caseTime, caseOf, nodeTime, timeOfMs]

theorem nodeTime_scriptNode (sc : Script) (r : R) : nodeTime (scriptNode sc r) = scriptTime sc := by
  simp only [nodeTime, scriptNode, scriptTime]

/-! ## the `time` attribute of the suite -/

def suiteTime (su : Suite) : Int × Nat := (su.secs, su.millis)

/-- the ticks of the tests of a group run that are executed -/
def ticksIn (flt : Option Filter) (run : List Script) : Nat :=
  ((run.filter fun t => shouldRun flt t.info && t.info.willRun).map fun t => actTicks t.acts).sum

theorem bodyR_clock (flt : Option Filter) (t : Script) (r : R) :
    (bodyR flt t r).clock = r.clock + (if shouldRun flt t.info && t.info.willRun then actTicks t.acts else 0) := by
  unfold bodyR afterTest countTest countFiltered
  cases shouldRun flt t.info <;> cases t.info.willRun <;> simp

theorem suiteTime_reportOf (s : St) : suiteTime (reportOf s).2 = timeOfMs s.groupExecTime := by
  simp only [suiteTime, reportOf, suiteOf, timeOfMs]

/-- the group times of all reports written from here on: the time already spent in the open group is added to the
    first one -/
theorem loop_group_times (flt : Option Filter) : ∀ (tests : List Script) (gs : Bool) (g0 : Nat) (r : R) (s : St),
    s.crashed = false → (gs = false → g0 ≤ r.clock) →
    (reportsFrom s (loop flt gs g0 r tests)).map (fun rp => suiteTime rp.2) =
      (addToHead (if gs then 0 else r.clock - g0) ((groupRuns tests).map (ticksIn flt))).map timeOfMs
  | [], gs, g0, r, s, hc, _ => by
    simp [loop, reportsFrom_cons, reportsFrom_nil, reportsOf, groupRuns, addToHead]
  | t :: rest, gs, g0, r, s, hc, hg => by
    simp only [loop]
    have hstart : stFrom s (startEvs gs t) = s ∧ reportsFrom s (startEvs gs t) = [] := by
      unfold startEvs; split <;> simp [stFrom_cons, stFrom_nil, reportsFrom_cons, reportsFrom_nil, reportsOf, step, hc]
    have hb := body_state flt t r s hc
    rw [List.append_assoc, List.append_assoc, reportsFrom_append, hstart.1, hstart.2, List.nil_append,
      reportsFrom_append, reportsFrom_quiet _ _ (noGroupEnd_body flt t r), List.nil_append,
      reportsFrom_append]
    generalize hs2 : stFrom s (bodyEvs flt t r) = s2 at hb ⊢
    obtain ⟨hc2, _, _⟩ := hb
    have hclk := bodyR_clock flt t r
    generalize hd : (if shouldRun flt t.info && t.info.willRun then actTicks t.acts else 0) = d at hclk
    have hg0 : (if gs = true then r.clock else g0) ≤ r.clock := by
      cases gs
      · simpa using hg rfl
      · simp
    have hd' : ∀ run, ticksIn flt (t :: run) = d + ticksIn flt run := by
      intro run
      unfold ticksIn
      rw [List.filter_cons, ← hd]
      split <;> simp
    unfold endEvs
    cases he : endOfGroup t rest
    · simp only [Bool.false_eq_true, if_false, reportsFrom_nil, stFrom_nil, List.nil_append]
      rw [loop_group_times flt rest false _ _ s2 hc2 (by intro _; omega)]
      obtain ⟨run, more, h1, h2⟩ := groupRuns_cons_go t rest he
      rw [h1, h2]
      have key : (bodyR flt t r).clock - (if gs = true then r.clock else g0) + ticksIn flt run =
          (if gs = true then 0 else r.clock - g0) + ticksIn flt (t :: run) := by
        rw [hd', hclk]; cases gs <;> simp at hg0 ⊢ <;> omega
      simp only [List.map_cons, addToHead, Bool.false_eq_true, if_false, key]
    · simp only [if_true]
      generalize hms : (bodyR flt t r).clock - (if gs = true then r.clock else g0) = ms
      have hrep : reportsFrom s2 [Ev.groupEnded ms] = [reportOf { s2 with groupExecTime := ms }] := by
        simp [reportsFrom_cons, reportsFrom_nil, reportsOf, hc2]
      have hst : stFrom s2 [Ev.groupEnded ms] = onGroupEnded s2 ms := by
        simp [stFrom_cons, stFrom_nil, step, hc2]
      rw [hrep, hst, List.map_append, loop_group_times flt rest true _ _ (onGroupEnded s2 ms)
        (by simp [onGroupEnded, reset_eq, hc2]) (by intro h; cases h), groupRuns_cons_end t rest he]
      have hadd : ∀ l : List Nat, addToHead 0 l = l := by intro l; cases l <;> simp [addToHead]
      have key : ms = (if gs = true then 0 else r.clock - g0) + ticksIn flt [t] := by
        rw [hd', ← hms, hclk]; cases gs <;> simp [ticksIn] at hg0 ⊢ <;> omega
      simp only [if_true, hadd]
      simp only [List.map_cons, List.map_nil, addToHead, suiteTime_reportOf, List.singleton_append, key]

end JUnit
