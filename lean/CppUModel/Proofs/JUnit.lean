import CppUModel.Model.JUnit
import CppUModel.Spec.JUnit
/-!
Helper lemmas for C16, part 1: `Text.replaceAll` with a one-byte pattern is a per-byte map, a chain
of such replaces is one per-byte map when no replacement text contains a later pattern (side
condition `tableOk`, decided on the regenerated table), the regenerated table is the XML
reference encoding, per-byte lemmas for the decoder and the scanners, plain text (digits, signs,
the literals of the templates) is its own encoding.
-/
set_option linter.unusedSimpArgs false
namespace JUnit
open Text (Bytes)
open OutEv

theorem all_uint8 (p : UInt8 → Prop) (h : ∀ n : Fin 256, p (UInt8.ofNat n.val)) : ∀ c, p c := by
  intro c
  have := h ⟨c.toNat, c.toNat_lt⟩
  simpa using this

/-! ## one replace call = a per-byte map -/

def one (p : UInt8) (rep : Bytes) (c : UInt8) : Bytes := if c = p then rep else [c]

theorem replaceAllAux_single (p : UInt8) (rep : Bytes) : ∀ (a : Bytes) (n : Nat), a.length < n →
    Text.replaceAllAux n a [p] rep = a.flatMap (one p rep)
  | _, 0, h => by omega
  | [], n + 1, _ => by simp [Text.replaceAllAux]
  | x :: t, n + 1, h => by
    have ih := replaceAllAux_single p rep t n (by simp at h; omega)
    simp only [Text.replaceAllAux, List.flatMap_cons, one]
    by_cases hx : x = p
    · subst hx
      simp [List.isPrefixOf, ih, one]
    · have : ¬ p = x := fun e => hx e.symm
      simp [List.isPrefixOf, hx, this, ih, one]

theorem replaceAll_single (a : Bytes) (p : UInt8) (rep : Bytes) :
    Text.replaceAll a [p] rep = a.flatMap (one p rep) := by
  simp [Text.replaceAll, replaceAllAux_single p rep a (a.length + 1) (by omega)]

/-! ## a chain of replaces = one per-byte map -/

/-- first table entry whose pattern is the single byte `c` -/
def encByteOf (table : List (Bytes × Bytes)) (c : UInt8) : Bytes :=
  match table.find? (fun e => e.1 == [c]) with
  | some e => e.2
  | none => [c]

/-- the per-byte map of the regenerated table -/
def encByte (c : UInt8) : Bytes := encByteOf Gen.EscapeTables.xmlReplaces c

/-- no byte of `r` is a pattern of `rest` -/
def laterFree (r : Bytes) (rest : List (Bytes × Bytes)) : Bool :=
  rest.all fun e => r.all fun b => e.1 != [b]

/-- side condition: every pattern is one byte, and no replacement text contains a LATER pattern -/
def tableOk : List (Bytes × Bytes) → Bool
  | [] => true
  | (p, r) :: rest => p.length == 1 && laterFree r rest && tableOk rest

theorem encByteOf_of_laterFree (rest : List (Bytes × Bytes)) (r : Bytes) (h : laterFree r rest = true) :
    ∀ b ∈ r, encByteOf rest b = [b] := by
  intro b hb
  unfold encByteOf
  have : rest.find? (fun e => e.1 == [b]) = none := by
    rw [List.find?_eq_none]
    intro e he
    simp only [laterFree, List.all_eq_true] at h
    have := h e he b hb
    simpa using this
  rw [this]

theorem flatMap_self_of_forall (r : Bytes) (f : UInt8 → Bytes) (h : ∀ b ∈ r, f b = [b]) : r.flatMap f = r := by
  induction r with
  | nil => rfl
  | cons x t ih =>
    rw [List.flatMap_cons, h x (List.mem_cons_self ..), ih (fun b hb => h b (List.mem_cons_of_mem _ hb))]
    rfl

theorem replaceSeq_eq_map : ∀ (table : List (Bytes × Bytes)), tableOk table = true →
    ∀ s, replaceSeq table s = s.flatMap (encByteOf table)
  | [], _, s => by
    simp only [replaceSeq, encByteOf, List.find?_nil]
    exact (flatMap_self_of_forall s _ (fun _ _ => rfl)).symm
  | (p, r) :: rest, hok, s => by
    simp only [tableOk, Bool.and_eq_true, beq_iff_eq] at hok
    obtain ⟨⟨hp, hfree⟩, hrest⟩ := hok
    obtain ⟨q, rfl⟩ : ∃ q, p = [q] := by
      match p, hp with
      | [q], _ => exact ⟨q, rfl⟩
    simp only [replaceSeq]
    rw [replaceSeq_eq_map rest hrest, replaceAll_single, List.flatMap_assoc]
    congr 1
    funext c
    unfold one
    by_cases hc : c = q
    · subst hc
      simp only [if_true]
      rw [flatMap_self_of_forall r _ (encByteOf_of_laterFree rest r hfree)]
      simp [encByteOf]
    · have : ¬ q = c := fun e => hc e.symm
      simp [hc, encByteOf, List.find?_cons, this]

/-- OBLIGATION over the regenerated table: the side condition holds -/
theorem xml_table_ok : tableOk Gen.EscapeTables.xmlReplaces = true := by decide

/-- OBLIGATION over the regenerated table: its per-byte map is the XML reference encoding -/
theorem encByte_eq_ref : ∀ c : UInt8, encByte c = encByteRef c := by
  apply all_uint8
  set_option maxRecDepth 100000 in decide

theorem encodeXmlText_eq_map (s : Bytes) : encodeXmlText s = s.flatMap encByte :=
  replaceSeq_eq_map _ xml_table_ok s

theorem encodeXmlText_eq_ref (s : Bytes) : encodeXmlText s = encodeRef s := by
  rw [encodeXmlText_eq_map]
  unfold encodeRef
  congr 1
  funext c
  exact encByte_eq_ref c

theorem encodeRef_append (a b : Bytes) : encodeRef (a ++ b) = encodeRef a ++ encodeRef b := by
  simp [encodeRef]

theorem encodeRef_cons (c : UInt8) (s : Bytes) : encodeRef (c :: s) = encByteRef c ++ encodeRef s := by
  simp [encodeRef]

theorem encodeRef_nil : encodeRef [] = [] := rfl

/-- the seven shapes of an encoded byte -/
theorem encByteRef_cases (c : UInt8) :
    (c = 38 ∧ encByteRef c = [38, 97, 109, 112, 59]) ∨
    (c = 34 ∧ encByteRef c = [38, 113, 117, 111, 116, 59]) ∨
    (c = 60 ∧ encByteRef c = [38, 108, 116, 59]) ∨
    (c = 62 ∧ encByteRef c = [38, 103, 116, 59]) ∨
    (c = 13 ∧ encByteRef c = [38, 35, 49, 51, 59]) ∨
    (c = 10 ∧ encByteRef c = [38, 35, 49, 48, 59]) ∨
    ((c ≠ 38 ∧ c ≠ 34 ∧ c ≠ 60 ∧ c ≠ 62 ∧ c ≠ 13 ∧ c ≠ 10) ∧ encByteRef c = [c]) := by
  unfold encByteRef
  by_cases h1 : c = 38
  · left; subst h1; exact ⟨rfl, by decide⟩
  right
  by_cases h2 : c = 34
  · left; subst h2; exact ⟨rfl, by decide⟩
  right
  by_cases h3 : c = 60
  · left; subst h3; exact ⟨rfl, by decide⟩
  right
  by_cases h4 : c = 62
  · left; subst h4; exact ⟨rfl, by decide⟩
  right
  by_cases h5 : c = 13
  · left; subst h5; exact ⟨rfl, by decide⟩
  right
  by_cases h6 : c = 10
  · left; subst h6; exact ⟨rfl, by decide⟩
  right
  simp [h1, h2, h3, h4, h5, h6]

/-! ## decoding -/

theorem refValue_amp : refValue [97, 109, 112] = some 38 := by decide
theorem refValue_quot : refValue [113, 117, 111, 116] = some 34 := by decide
theorem refValue_lt : refValue [108, 116] = some 60 := by decide
theorem refValue_gt : refValue [103, 116] = some 62 := by decide
theorem refValue_cr : refValue [35, 49, 51] = some 13 := by decide
theorem refValue_lf : refValue [35, 49, 48] = some 10 := by decide

theorem decodeAux_encByteRef (c : UInt8) (rest : Bytes) :
    decodeAux none (encByteRef c ++ rest) = c :: decodeAux none rest := by
  rcases encByteRef_cases c with ⟨h, e⟩ | ⟨h, e⟩ | ⟨h, e⟩ | ⟨h, e⟩ | ⟨h, e⟩ | ⟨h, e⟩ | ⟨h, e⟩
  · rw [e]; subst h; simp [decodeAux, refValue_amp]
  · rw [e]; subst h; simp [decodeAux, refValue_quot]
  · rw [e]; subst h; simp [decodeAux, refValue_lt]
  · rw [e]; subst h; simp [decodeAux, refValue_gt]
  · rw [e]; subst h; simp [decodeAux, refValue_cr]
  · rw [e]; subst h; simp [decodeAux, refValue_lf]
  · rw [e]; simp [decodeAux, h.1]

theorem decodeAux_encodeRef (s rest : Bytes) :
    decodeAux none (encodeRef s ++ rest) = s ++ decodeAux none rest := by
  induction s with
  | nil => simp [encodeRef]
  | cons c s ih => rw [encodeRef_cons, List.append_assoc, decodeAux_encByteRef, ih]; rfl

/-! ## safety -/

theorem safeAux_encByteRef (c : UInt8) (rest : Bytes) :
    safeAux 0 (encByteRef c ++ rest) = safeAux 0 rest := by
  rcases encByteRef_cases c with ⟨h, e⟩ | ⟨h, e⟩ | ⟨h, e⟩ | ⟨h, e⟩ | ⟨h, e⟩ | ⟨h, e⟩ | ⟨h, e⟩
  · rw [e]; simp [safeAux, startsWithAny, emittedRefs, lit, List.isPrefixOf]
  · rw [e]; simp [safeAux, startsWithAny, emittedRefs, lit, List.isPrefixOf]
  · rw [e]; simp [safeAux, startsWithAny, emittedRefs, lit, List.isPrefixOf]
  · rw [e]; simp [safeAux, startsWithAny, emittedRefs, lit, List.isPrefixOf]
  · rw [e]; simp [safeAux, startsWithAny, emittedRefs, lit, List.isPrefixOf]
  · rw [e]; simp [safeAux, startsWithAny, emittedRefs, lit, List.isPrefixOf]
  · rw [e]; simp [safeAux, h.1, h.2.1, h.2.2.1, h.2.2.2.1, h.2.2.2.2.1, h.2.2.2.2.2]

theorem safeAux_encodeRef (s rest : Bytes) : safeAux 0 (encodeRef s ++ rest) = safeAux 0 rest := by
  induction s with
  | nil => simp [encodeRef]
  | cons c s ih => rw [encodeRef_cons, List.append_assoc, safeAux_encByteRef, ih]

/-! ## the readers of an attribute value and of element text -/

theorem scanAttr_encByteRef (c : UInt8) (rest acc : Bytes) :
    scanAttr none (encByteRef c ++ rest) acc = scanAttr none rest (c :: acc) := by
  rcases encByteRef_cases c with ⟨h, e⟩ | ⟨h, e⟩ | ⟨h, e⟩ | ⟨h, e⟩ | ⟨h, e⟩ | ⟨h, e⟩ | ⟨h, e⟩
  · rw [e]; subst h; simp [scanAttr, refValue_amp]
  · rw [e]; subst h; simp [scanAttr, refValue_quot]
  · rw [e]; subst h; simp [scanAttr, refValue_lt]
  · rw [e]; subst h; simp [scanAttr, refValue_gt]
  · rw [e]; subst h; simp [scanAttr, refValue_cr]
  · rw [e]; subst h; simp [scanAttr, refValue_lf]
  · rw [e]; simp [scanAttr, h.1, h.2.1, h.2.2.1]

theorem scanAttr_encodeRef (v rest : Bytes) : ∀ acc,
    scanAttr none (encodeRef v ++ 34 :: rest) acc = some (acc.reverse ++ v, rest) := by
  induction v with
  | nil => intro acc; simp [encodeRef, scanAttr]
  | cons c v ih =>
    intro acc
    rw [encodeRef_cons, List.append_assoc, scanAttr_encByteRef, ih]
    simp

theorem scanText_encByteRef (c : UInt8) (rest acc : Bytes) :
    scanText none (encByteRef c ++ rest) acc = scanText none rest (c :: acc) := by
  rcases encByteRef_cases c with ⟨h, e⟩ | ⟨h, e⟩ | ⟨h, e⟩ | ⟨h, e⟩ | ⟨h, e⟩ | ⟨h, e⟩ | ⟨h, e⟩
  · rw [e]; subst h; simp [scanText, refValue_amp]
  · rw [e]; subst h; simp [scanText, refValue_quot]
  · rw [e]; subst h; simp [scanText, refValue_lt]
  · rw [e]; subst h; simp [scanText, refValue_gt]
  · rw [e]; subst h; simp [scanText, refValue_cr]
  · rw [e]; subst h; simp [scanText, refValue_lf]
  · rw [e]; simp [scanText, h.1, h.2.2.1]

theorem scanText_encodeRef (v rest : Bytes) : ∀ acc,
    scanText none (encodeRef v ++ 60 :: rest) acc = some (acc.reverse ++ v, 60 :: rest) := by
  induction v with
  | nil => intro acc; simp [encodeRef, scanText]
  | cons c v ih =>
    intro acc
    rw [encodeRef_cons, List.append_assoc, scanText_encByteRef, ih]
    simp

/-! ## plain text is its own encoding -/

def plain (s : Bytes) : Prop := ∀ c ∈ s, c ≠ 38 ∧ c ≠ 34 ∧ c ≠ 60 ∧ c ≠ 62 ∧ c ≠ 13 ∧ c ≠ 10

instance (s : Bytes) : Decidable (plain s) := by unfold plain; infer_instance

theorem encodeRef_plain (s : Bytes) (h : plain s) : encodeRef s = s := by
  induction s with
  | nil => rfl
  | cons c s ih =>
    rw [encodeRef_cons, ih (fun d hd => h d (List.mem_cons_of_mem _ hd))]
    have hc := h c (List.mem_cons_self ..)
    rcases encByteRef_cases c with ⟨h', _⟩ | ⟨h', _⟩ | ⟨h', _⟩ | ⟨h', _⟩ | ⟨h', _⟩ | ⟨h', _⟩ | ⟨_, e⟩
    · simp [h'] at hc
    · simp [h'] at hc
    · simp [h'] at hc
    · simp [h'] at hc
    · simp [h'] at hc
    · simp [h'] at hc
    · rw [e]; rfl

theorem digit_plain (n : Nat) : plain [digit n] := by
  intro c hc
  simp only [List.mem_singleton] at hc
  subst hc
  unfold digit
  have h : n % 10 < 10 := Nat.mod_lt _ (by decide)
  have : ∀ k, k < 10 → (UInt8.ofNat (48 + k) ≠ 38 ∧ UInt8.ofNat (48 + k) ≠ 34 ∧ UInt8.ofNat (48 + k) ≠ 60 ∧
      UInt8.ofNat (48 + k) ≠ 62 ∧ UInt8.ofNat (48 + k) ≠ 13 ∧ UInt8.ofNat (48 + k) ≠ 10) := by decide
  exact this _ h

theorem plain_append {a b : Bytes} (ha : plain a) (hb : plain b) : plain (a ++ b) := by
  intro c hc
  rcases List.mem_append.mp hc with h | h
  · exact ha c h
  · exact hb c h

theorem plain_cons {c : UInt8} {s : Bytes} (hc : plain [c]) (hs : plain s) : plain (c :: s) :=
  plain_append (a := [c]) hc hs

theorem plain_nil : plain [] := by intro c hc; simp at hc

theorem decAux_plain : ∀ (fuel n : Nat) (acc : Bytes), plain acc → plain (decAux fuel n acc)
  | 0, _, acc, h => by simpa [decAux] using h
  | fuel + 1, n, acc, h => by
    simp only [decAux]
    split
    · exact plain_cons (digit_plain n) h
    · exact decAux_plain fuel (n / 10) _ (plain_cons (digit_plain n) h)

theorem dec_plain (n : Nat) : plain (dec n) := decAux_plain _ _ _ plain_nil

theorem fmtInt_plain (z : Int) : plain (fmtInt z) := by
  unfold fmtInt
  split
  · exact plain_cons (by decide) (dec_plain _)
  · exact dec_plain _

end JUnit
