import CppUModel.Spec.AllocLayout
/-! Helper lemmas for C05: the size arithmetic on `BitVec 64` against its `Nat` meaning, the
bounds-checked byte writes, and the block memory. -/
namespace AllocLayout
open Gen.AllocLayout

/-! ## size arithmetic -/

theorem guard_toNat (c : Cfg) : c.guard.toNat = if c.check then 3 else 0 := by
  unfold Cfg.guard corruptionBufferSizeCheck corruptionBufferSizeNoCheck
  cases c.check <;> simp

theorem guard_le (c : Cfg) : c.guard.toNat ≤ 3 := by
  rw [guard_toNat]; split <;> omega

theorem guard_eq (c : Cfg) : c.guard = if c.check then 3#64 else 0#64 := by
  unfold Cfg.guard corruptionBufferSizeCheck corruptionBufferSizeNoCheck
  cases c.check <;> rfl

theorem swci_toNat (c : Cfg) (size : W) : (swci c size).toNat = swciNat c size.toNat % 2^64 := by
  have hs := size.isLt
  unfold swci swciNat alignNat sizeOfMemoryWithCorruptionInfo align
  rw [guard_toNat, guard_eq]
  cases hc : c.check
  · simp only [Bool.false_eq_true, if_false, calculateVoidPointerAlignedSizeNoCheck, BitVec.add_zero, Nat.add_zero]
    by_cases h0 : size = 0#64
    · subst h0; simp
    · have : size.toNat ≠ 0 := fun h => h0 (BitVec.eq_of_toNat_eq (by simpa using h))
      simp [h0, this, Nat.mod_eq_of_lt hs]
  · simp [calculateVoidPointerAlignedSizeCheck, BitVec.toNat_add, BitVec.toNat_sub, BitVec.toNat_umod]
    omega

theorem swciNat_bounds (c : Cfg) (n : Nat) : n + c.guard.toNat ≤ swciNat c n ∧ swciNat c n ≤ n + c.guard.toNat + 8 := by
  unfold swciNat alignNat
  split
  · omega
  · split <;> omega

theorem swciNat_aligned (c : Cfg) (hc : c.check = true) (n : Nat) : swciNat c n % 8 = 0 := by
  unfold swciNat alignNat
  simp [hc]; omega

theorem rejectsAlloc_iff (c : Cfg) (h : NodeOk c) (size : W) :
    rejectsAlloc c size = true ↔ extNat c size.toNat ≥ 2^64 := by
  have h1 := h.aligned; have h2 := h.small
  have hs := size.isLt
  unfold rejectsAlloc allocOverflowGuard extNat
  simp only [BitVec.ult, BitVec.toNat_add, swci_toNat, decide_eq_true_eq]
  unfold swciNat alignNat
  rw [guard_toNat]
  cases hc : c.check
  · simp only [Bool.false_eq_true, if_false, Nat.add_zero]
    split <;> omega
  · simp; omega

theorem rejectsRealloc_eq (c : Cfg) (size : W) : rejectsRealloc c size = rejectsAlloc c size := rfl

theorem accepted_lt (c : Cfg) (h : NodeOk c) (size : W) (hacc : rejectsAlloc c size = false) :
    extNat c size.toNat < 2^64 := by
  rcases Nat.lt_or_ge (extNat c size.toNat) (2^64) with h1 | h1
  · exact h1
  · have := (rejectsAlloc_iff c h size).mpr h1
    rw [hacc] at this; cases this

theorem swci_toNat_acc (c : Cfg) (h : NodeOk c) (size : W) (hacc : rejectsAlloc c size = false) :
    (swci c size).toNat = swciNat c size.toNat := by
  have := accepted_lt c h size hacc
  rw [swci_toNat]; unfold extNat at this
  exact Nat.mod_eq_of_lt (by omega)

theorem nodeOff_toNat_acc (c : Cfg) (h : NodeOk c) (size : W) (hacc : rejectsAlloc c size = false) :
    (nodeOff c size).toNat = swciNat c size.toNat := by
  unfold nodeOff nodeOffset; exact swci_toNat_acc c h size hacc

theorem allocReq_toNat_acc (c : Cfg) (h : NodeOk c) (size : W) (sep : Bool) (hacc : rejectsAlloc c size = false) :
    (allocReq c sep size).toNat = if sep then swciNat c size.toNat else extNat c size.toNat := by
  have hl := accepted_lt c h size hacc
  have hs := swci_toNat_acc c h size hacc
  unfold allocReq allocRequestSeparate allocRequestInline
  cases sep
  · simp only [Bool.false_eq_true, if_false, BitVec.toNat_add, hs]
    unfold extNat at *; exact Nat.mod_eq_of_lt hl
  · simpa using hs

theorem reallocReq_eq (c : Cfg) (sep : Bool) (size : W) : reallocReq c sep size = allocReq c sep size := rfl

/-! ## calloc -/

theorem calloc_test_iff (num size : W) :
    callocOverflowTest num size = true ↔ num.toNat * size.toNat ≥ 2^64 := by
  have hn := num.isLt; have hs := size.isLt
  unfold callocOverflowTest
  simp only [Bool.and_eq_true, bne_iff_ne, ne_eq, BitVec.ult, decide_eq_true_eq, BitVec.toNat_udiv, BitVec.toNat_neg, BitVec.toNat_ofNat]
  constructor
  · rintro ⟨h0, h1⟩
    have hpos : 0 < size.toNat := by
      rcases Nat.eq_zero_or_pos size.toNat with h | h
      · exact absurd (BitVec.eq_of_toNat_eq (by simpa using h)) h0
      · exact h
    have : (2 ^ 64 - 1 % 2 ^ 64) % 2 ^ 64 = 2^64 - 1 := by decide
    rw [this] at h1
    have := (Nat.div_lt_iff_lt_mul hpos).mp h1
    omega
  · intro h
    have hpos : 0 < size.toNat := by
      rcases Nat.eq_zero_or_pos size.toNat with h0 | h0
      · rw [h0] at h; omega
      · exact h0
    refine ⟨?_, ?_⟩
    · intro h0; rw [h0] at hpos; simp at hpos
    · have : (2 ^ 64 - 1 % 2 ^ 64) % 2 ^ 64 = 2^64 - 1 := by decide
      rw [this]
      exact (Nat.div_lt_iff_lt_mul hpos).mpr (by omega)

theorem calloc_request_exact (num size : W) (h : callocOverflowTest num size = false) :
    (callocRequest num size).toNat = num.toNat * size.toNat ∧
    (callocMemset num size).toNat = num.toNat * size.toNat := by
  have this : num.toNat * size.toNat < 2^64 := by
    rcases Nat.lt_or_ge (num.toNat * size.toNat) (2^64) with h1 | h1
    · exact h1
    · have := (calloc_test_iff num size).mpr h1
      rw [h] at this; cases this
  unfold callocRequest callocMemset
  simp [BitVec.toNat_mul, Nat.mod_eq_of_lt this]

/-! ## bounds-checked writes -/

theorem writeAt_eq_some {bs bs' : List UInt8} {off : Nat} {src : List UInt8} (h : writeAt bs off src = some bs') :
    off + src.length ≤ bs.length ∧ bs' = bs.take off ++ src ++ bs.drop (off + src.length) := by
  unfold writeAt at h
  split at h
  · next hle => exact ⟨hle, (Option.some.inj h).symm⟩
  · cases h

theorem writeAt_some {bs : List UInt8} {off : Nat} {src : List UInt8} (h : off + src.length ≤ bs.length) :
    writeAt bs off src = some (bs.take off ++ src ++ bs.drop (off + src.length)) := by
  simp [writeAt, h]

theorem writeAt_length {bs bs' : List UInt8} {off : Nat} {src : List UInt8} (h : writeAt bs off src = some bs') :
    bs'.length = bs.length := by
  obtain ⟨h1, rfl⟩ := writeAt_eq_some h
  simp; omega

/-- bytes before the written range are untouched -/
theorem writeAt_take {bs bs' : List UInt8} {off : Nat} {src : List UInt8} (h : writeAt bs off src = some bs')
    (n : Nat) (hn : n ≤ off) : bs'.take n = bs.take n := by
  obtain ⟨h1, rfl⟩ := writeAt_eq_some h
  rw [List.append_assoc, List.take_append_of_le_length (by simp; omega)]
  simp [List.take_take, Nat.min_eq_left hn]

/-- the written range reads back as what was written -/
theorem writeAt_read {bs bs' : List UInt8} {off : Nat} {src : List UInt8} (h : writeAt bs off src = some bs') :
    (bs'.drop off).take src.length = src := by
  obtain ⟨h1, rfl⟩ := writeAt_eq_some h
  have : (bs.take off).length = off := by simp; omega
  rw [List.append_assoc, List.drop_append_of_le_length (by omega)]
  simp

theorem writeAt_zero_take {bs bs' src : List UInt8} (h : writeAt bs 0 src = some bs') :
    bs'.take src.length = src := by
  have := writeAt_read h
  simpa using this

/-- bytes after the written range are untouched -/
theorem writeAt_drop {bs bs' : List UInt8} {off : Nat} {src : List UInt8} (h : writeAt bs off src = some bs')
    (n : Nat) (hn : off + src.length ≤ n) : bs'.drop n = bs.drop n := by
  obtain ⟨h1, rfl⟩ := writeAt_eq_some h
  have e : n = (bs.take off ++ src).length + (n - (off + src.length)) := by simp; omega
  rw [e, ← List.drop_drop, List.drop_left]
  simp
  congr 1; omega

/-! ## block memory -/

theorem findBlock_cons_self (id : Nat) (bs : List UInt8) (m : List Block) :
    findBlock (⟨id, bs⟩ :: m) id = some ⟨id, bs⟩ := by simp [findBlock]

theorem findBlock_cons_ne {id id' : Nat} (bs : List UInt8) (m : List Block) (h : id' ≠ id) :
    findBlock (⟨id', bs⟩ :: m) id = findBlock m id := by
  simp [findBlock, h]

theorem findBlock_id {m : List Block} {id : Nat} {b : Block} (h : findBlock m id = some b) : b.id = id := by
  have := List.find?_some h
  simpa using this

theorem findBlock_cons (x : Block) (xs : List Block) (id : Nat) :
    findBlock (x :: xs) id = if x.id == id then some x else findBlock xs id := by
  unfold findBlock; rw [List.find?_cons]; split <;> simp_all

theorem setBlock_cons (x : Block) (xs : List Block) (id : Nat) (bs : List UInt8) :
    setBlock (x :: xs) id bs = (if x.id == id then { x with bytes := bs } else x) :: setBlock xs id bs := by
  simp [setBlock]

theorem findBlock_setBlock_same {m : List Block} {id : Nat} {b : Block} (bs : List UInt8)
    (h : findBlock m id = some b) : findBlock (setBlock m id bs) id = some ⟨id, bs⟩ := by
  induction m with
  | nil => simp [findBlock] at h
  | cons x xs ih =>
    rw [setBlock_cons, findBlock_cons]
    rw [findBlock_cons] at h
    by_cases hx : (x.id == id) = true
    · simp only [hx, if_true]
      have : x.id = id := by simpa using hx
      simp [this]
    · simp only [hx] at h ⊢
      simp only [Bool.false_eq_true, if_false] at h ⊢
      simp only [hx, Bool.false_eq_true, if_false]
      exact ih h

theorem findBlock_setBlock_ne {m : List Block} {id id' : Nat} (bs : List UInt8) (h : id ≠ id') :
    findBlock (setBlock m id' bs) id = findBlock m id := by
  induction m with
  | nil => simp [findBlock, setBlock]
  | cons x xs ih =>
    rw [setBlock_cons, findBlock_cons, findBlock_cons]
    by_cases hx : (x.id == id') = true
    · have e : x.id = id' := by simpa using hx
      have : (x.id == id) = false := by simp [e]; omega
      simp only [hx, if_true, this, Bool.false_eq_true, if_false]
      exact ih
    · simp only [hx, Bool.false_eq_true, if_false]
      split
      · rfl
      · exact ih

theorem writeBlock_eq_some {m m' : List Block} {id off : Nat} {src : List UInt8}
    (h : writeBlock m id off src = some m') :
    ∃ b bs', findBlock m id = some b ∧ writeAt b.bytes off src = some bs' ∧ m' = setBlock m id bs' := by
  unfold writeBlock at h
  split at h
  · cases h
  · next b hb =>
    split at h
    · cases h
    · next bs' hw => exact ⟨b, bs', hb, hw, (Option.some.inj h).symm⟩

theorem writeBlock_some {m : List Block} {id off : Nat} {src : List UInt8} {b : Block}
    (hb : findBlock m id = some b) (hfit : off + src.length ≤ b.bytes.length) :
    writeBlock m id off src = some (setBlock m id (b.bytes.take off ++ src ++ b.bytes.drop (off + src.length))) := by
  unfold writeBlock
  rw [hb]; simp only []
  rw [writeAt_some hfit]

theorem guardImage_length (c : Cfg) : (guardImage c).length = c.guard.toNat := by
  simp [guardImage]

/-! ## storeLeakInformation -/

theorem setBlock_setBlock (m : List Block) (id : Nat) (a b : List UInt8) :
    setBlock (setBlock m id a) id b = setBlock m id b := by
  induction m with
  | nil => simp [setBlock]
  | cons x xs ih =>
    rw [setBlock_cons, setBlock_cons, setBlock_cons, ih]
    by_cases hx : (x.id == id) = true <;> simp [hx]

/-- `storeLeakInformation` with an inline node: succeeds when the node fits behind the guard
    bytes; the user bytes keep their contents, the guard bytes are in place -/
theorem store_inline (c : Cfg) (img : NodeImage) (hi : ImgOk c img) (s : State) (r : Rec) (evs : List Ev) (b : Block)
    (hsep : r.sep = false) (hb : findBlock s.mem r.id = some b)
    (hord : r.size.toNat + c.guard.toNat ≤ (nodeOff c r.size).toNat)
    (hfit : (nodeOff c r.size).toNat + c.node.toNat ≤ b.bytes.length) :
    ∃ bs', store c img s r evs =
        ({ tracked := r :: s.tracked, mem := setBlock s.mem r.id bs', seq := s.seq + 1 }, evs, .ptr r.id) ∧
      bs'.length = b.bytes.length ∧ bs'.take r.size.toNat = b.bytes.take r.size.toNat ∧
      (bs'.drop r.size.toNat).take c.guard.toNat = guardImage c := by
  have hil := hi r
  have hgl := guardImage_length c
  -- node->init
  have h1 := writeBlock_some (m := s.mem) (id := r.id) (off := (nodeOff c r.size).toNat) (src := img r) hb (by omega)
  generalize hbs1 : b.bytes.take (nodeOff c r.size).toNat ++ img r ++ b.bytes.drop ((nodeOff c r.size).toNat + (img r).length) = bs1 at h1
  have hw1 : writeAt b.bytes (nodeOff c r.size).toNat (img r) = some bs1 := by rw [← hbs1]; exact writeAt_some (by omega)
  have hl1 := writeAt_length hw1
  -- guard bytes
  have hb1 : findBlock (setBlock s.mem r.id bs1) r.id = some ⟨r.id, bs1⟩ := findBlock_setBlock_same bs1 hb
  have h2 := writeBlock_some (m := setBlock s.mem r.id bs1) (id := r.id) (off := r.size.toNat) (src := guardImage c) hb1
    (by simp only []; omega)
  simp only [] at h2
  generalize hbs2 : bs1.take r.size.toNat ++ guardImage c ++ bs1.drop (r.size.toNat + (guardImage c).length) = bs2 at h2
  have hw2 : writeAt bs1 r.size.toNat (guardImage c) = some bs2 := by rw [← hbs2]; exact writeAt_some (by omega)
  refine ⟨bs2, ?_, ?_, ?_, ?_⟩
  · unfold store writeNode writeGuard
    simp only [hsep, Bool.false_eq_true, if_false, h1, h2, setBlock_setBlock]
  · rw [writeAt_length hw2, hl1]
  · rw [writeAt_take hw2 _ (Nat.le_refl _), writeAt_take hw1 _ (by omega)]
  · have := writeAt_read hw2
    rw [hgl] at this; exact this

theorem setBlock_comm (m : List Block) (i j : Nat) (a b : List UInt8) (h : i ≠ j) :
    setBlock (setBlock m i a) j b = setBlock (setBlock m j b) i a := by
  induction m with
  | nil => simp [setBlock]
  | cons x xs ih =>
    simp only [setBlock_cons, ih]
    by_cases hi : (x.id == i) = true
    · have e : x.id = i := by simpa using hi
      have : (x.id == j) = false := by simp [e]; exact h
      simp [hi, this]
    · by_cases hj : (x.id == j) = true <;> simp [hi, hj]

/-- `storeLeakInformation` with a separately allocated node -/
theorem store_sep (c : Cfg) (img : NodeImage) (hi : ImgOk c img) (s : State) (r : Rec) (evs : List Ev) (b nb : Block)
    (hsep : r.sep = true) (hne : r.nodeId ≠ r.id)
    (hnb : findBlock s.mem r.nodeId = some nb) (hnl : c.node.toNat ≤ nb.bytes.length)
    (hb : findBlock s.mem r.id = some b) (hfit : r.size.toNat + c.guard.toNat ≤ b.bytes.length) :
    ∃ nbs' bs', store c img s r evs =
        ({ tracked := r :: s.tracked, mem := setBlock (setBlock s.mem r.nodeId nbs') r.id bs', seq := s.seq + 1 }, evs, .ptr r.id) ∧
      bs'.length = b.bytes.length ∧ bs'.take r.size.toNat = b.bytes.take r.size.toNat ∧
      (bs'.drop r.size.toNat).take c.guard.toNat = guardImage c := by
  have hil := hi r
  have hgl := guardImage_length c
  have h1 := writeBlock_some (m := s.mem) (id := r.nodeId) (off := 0) (src := img r) hnb (by omega)
  generalize nb.bytes.take 0 ++ img r ++ nb.bytes.drop (0 + (img r).length) = nbs1 at h1
  have hb1 : findBlock (setBlock s.mem r.nodeId nbs1) r.id = some b := by
    rw [findBlock_setBlock_ne nbs1 (Ne.symm hne)]; exact hb
  have h2 := writeBlock_some (m := setBlock s.mem r.nodeId nbs1) (id := r.id) (off := r.size.toNat) (src := guardImage c) hb1 (by omega)
  generalize hbs2 : b.bytes.take r.size.toNat ++ guardImage c ++ b.bytes.drop (r.size.toNat + (guardImage c).length) = bs2 at h2
  have hw2 : writeAt b.bytes r.size.toNat (guardImage c) = some bs2 := by rw [← hbs2]; exact writeAt_some (by omega)
  refine ⟨nbs1, bs2, ?_, writeAt_length hw2, writeAt_take hw2 _ (Nat.le_refl _), ?_⟩
  · unfold store writeNode writeGuard
    simp only [hsep, if_true, h1, h2]
  · have := writeAt_read hw2
    rw [hgl] at this; exact this

/-! ## allocMemory -/

theorem trackedSet_cons (s : State) (r : Rec) (m : List Block) (q : Nat) :
    State.trackedSet { tracked := r :: s.tracked, mem := m, seq := q } = (r.id, r.size) :: s.trackedSet := by
  simp [State.trackedSet]

theorem allocMemory_block_eq (c : Cfg) (img : NodeImage) (s : State) (fam : Nat) (size : W) (sep0 : Bool) (id : Nat)
    (bytes : List UInt8) (a2 : Ans) (hacc : rejectsAlloc c size = false)
    (hn : ¬ (forcedSep c sep0 = true ∧ a2 = .null)) :
    allocMemory c img s fam size sep0 (.block id bytes) a2 =
      account c img { s with mem := ⟨id, bytes⟩ :: s.mem } fam size (forcedSep c sep0) id a2
        [.ualloc (allocReq c (forcedSep c sep0) size) id] := by
  unfold allocMemory
  simp only [hacc, Bool.false_eq_true, if_false]
  split
  · exact absurd ⟨‹forcedSep c sep0 = true›, rfl⟩ hn
  · rfl

/-- what a successful `allocMemory` establishes -/
theorem allocMemory_block (c : Cfg) (h : NodeOk c) (img : NodeImage) (hi : ImgOk c img) (s : State) (fam : Nat)
    (size : W) (sep0 : Bool) (id : Nat) (bytes : List UInt8) (a2 : Ans)
    (hacc : rejectsAlloc c size = false)
    (hlen : bytes.length = (allocReq c (forcedSep c sep0) size).toNat)
    (h2 : forcedSep c sep0 = true → ∃ nid nb, a2 = .block nid nb ∧ nb.length = c.node.toNat ∧ nid ≠ id) :
    ∃ s' evs, allocMemory c img s fam size sep0 (.block id bytes) a2 = (s', evs, .ptr id) ∧
      s'.trackedSet = (id, size) :: s.trackedSet ∧
      (∃ b', findBlock s'.mem id = some b' ∧ b'.bytes.length = bytes.length ∧
          b'.bytes.take size.toNat = bytes.take size.toNat ∧ size.toNat + c.guard.toNat ≤ b'.bytes.length ∧
          (b'.bytes.drop size.toNat).take c.guard.toNat = guardImage c) ∧
      (∀ j, j ≠ id → j ≠ a2.id → findBlock s'.mem j = findBlock s.mem j) := by
  have hb := swciNat_bounds c size.toNat
  have hoff := nodeOff_toNat_acc c h size hacc
  have hreq := allocReq_toNat_acc c h size (forcedSep c sep0) hacc
  cases hfs : forcedSep c sep0
  · -- inline node
    rw [allocMemory_block_eq c img s fam size sep0 id bytes a2 hacc (by simp [hfs]), hfs]
    rw [hfs] at hreq hlen
    simp only [Bool.false_eq_true, if_false] at hreq
    obtain ⟨bs', he, hl, ht, hg⟩ := store_inline c img hi { s with mem := ⟨id, bytes⟩ :: s.mem } ⟨id, size, fam, false, 0, s.seq⟩
      [.ualloc (allocReq c false size) id] ⟨id, bytes⟩ rfl (findBlock_cons_self id bytes s.mem)
      (by simp only []; omega) (by simp only []; unfold extNat at hreq; omega)
    simp only [] at he hl ht hg
    refine ⟨{ tracked := ⟨id, size, fam, false, 0, s.seq⟩ :: s.tracked, mem := setBlock (⟨id, bytes⟩ :: s.mem) id bs', seq := s.seq + 1 },
      [.ualloc (allocReq c false size) id], ?_, ?_, ⟨⟨id, bs'⟩, ?_, hl, ht, ?_, hg⟩, ?_⟩
    · unfold account
      exact he
    · simp [State.trackedSet]
    · simp only []; exact findBlock_setBlock_same bs' (findBlock_cons_self id bytes s.mem)
    · show size.toNat + c.guard.toNat ≤ bs'.length
      rw [hl, hlen, hreq]; unfold extNat; omega
    · intro j hj _
      simp only []
      rw [findBlock_setBlock_ne bs' hj, findBlock_cons_ne bytes s.mem (Ne.symm hj)]
  · -- separate node
    obtain ⟨nid, nb, rfl, hnl, hne⟩ := h2 hfs
    rw [allocMemory_block_eq c img s fam size sep0 id bytes _ hacc (by simp), hfs]
    rw [hfs] at hreq hlen
    simp only [if_true] at hreq
    obtain ⟨nbs', bs', he, hl, ht, hg⟩ := store_sep c img hi { s with mem := ⟨nid, nb⟩ :: ⟨id, bytes⟩ :: s.mem }
      ⟨id, size, fam, true, nid, s.seq⟩ ([.ualloc (allocReq c true size) id] ++ [.unode c.node nid]) ⟨id, bytes⟩ ⟨nid, nb⟩ rfl hne
      (findBlock_cons_self nid nb _) (by simp only []; omega)
      (by simp only []; rw [findBlock_cons_ne nb _ hne]; exact findBlock_cons_self id bytes s.mem)
      (by simp only []; omega)
    simp only [] at he hl ht hg
    refine ⟨{ tracked := ⟨id, size, fam, true, nid, s.seq⟩ :: s.tracked,
              mem := setBlock (setBlock (⟨nid, nb⟩ :: ⟨id, bytes⟩ :: s.mem) nid nbs') id bs', seq := s.seq + 1 },
      [.ualloc (allocReq c true size) id] ++ [.unode c.node nid], ?_, ?_, ⟨⟨id, bs'⟩, ?_, hl, ht, ?_, hg⟩, ?_⟩
    · unfold account
      exact he
    · simp [State.trackedSet]
    · simp only []
      apply findBlock_setBlock_same bs'
      rw [findBlock_setBlock_ne nbs' (Ne.symm hne), findBlock_cons_ne nb _ hne]
      exact findBlock_cons_self id bytes s.mem
    · show size.toNat + c.guard.toNat ≤ bs'.length
      rw [hl, hlen, hreq]; omega
    · intro j hj hjn
      simp only [Ans.id] at hjn
      simp only []
      rw [findBlock_setBlock_ne bs' hj, findBlock_setBlock_ne nbs' hjn, findBlock_cons_ne nb _ (Ne.symm hjn),
        findBlock_cons_ne bytes s.mem (Ne.symm hj)]

/-! ## C wrappers -/

/-- `test_harness_c_strlen` finds the first NUL: the bytes before it are the C string -/
theorem cstrlen_spec : ∀ (buf : List UInt8) (n : Nat), cstrlen buf = some n →
    n < buf.length ∧ buf.take n = cstrOf buf ∧ (buf.drop n).head? = some 0
  | [], n, h => by simp [cstrlen] at h
  | b :: rest, n, h => by
    unfold cstrlen at h
    by_cases hb : (b == 0) = true
    · simp only [hb, if_true] at h
      have : n = 0 := by cases h; rfl
      subst this
      have : b = 0 := by simpa using hb
      simp [cstrOf, this]
    · simp only [hb, Bool.false_eq_true, if_false] at h
      cases hr : cstrlen rest with
      | none => simp [hr] at h
      | some k =>
        simp [hr] at h
        subst h
        obtain ⟨h1, h2, h3⟩ := cstrlen_spec rest k hr
        have hb' : (b != 0) = true := by simpa using hb
        refine ⟨by simp; omega, ?_, ?_⟩
        · simp only [List.take_succ_cons, cstrOf, List.takeWhile_cons, hb', if_true]
          rw [h2]; rfl
        · simpa using h3

theorem cstrlen_none_of_no_nul : ∀ (buf : List UInt8), (∀ b ∈ buf, b ≠ 0) → cstrlen buf = none
  | [], _ => rfl
  | b :: rest, h => by
    unfold cstrlen
    have hb : (b == 0) = false := by simpa using h b (by simp)
    simp only [hb, Bool.false_eq_true, if_false]
    rw [cstrlen_none_of_no_nul rest (fun x hx => h x (by simp [hx]))]; rfl

theorem thenWrite_ptr (s1 : State) (evs : List Ev) (id off : Nat) (src : List UInt8) (why : String) (b : Block)
    (hb : findBlock s1.mem id = some b) (hfit : off + src.length ≤ b.bytes.length) :
    thenWrite (s1, evs, .ptr id) off src why =
      ({ s1 with mem := setBlock s1.mem id (b.bytes.take off ++ src ++ b.bytes.drop (off + src.length)) }, evs, .ptr id) := by
  unfold thenWrite
  simp only [writeBlock_some hb hfit]

theorem thenWrite_notptr (s1 : State) (evs : List Ev) (o : Outcome) (off : Nat) (src : List UInt8) (why : String)
    (h : ∀ id, o ≠ .ptr id) : thenWrite (s1, evs, o) off src why = (s1, evs, o) := by
  unfold thenWrite
  cases o <;> simp_all

/-- `createMemoryLeakAccountingInformation` + `storeLeakInformation` for a block that has just been
    obtained (it is the newest block of the memory) -/
theorem account_block (c : Cfg) (h : NodeOk c) (img : NodeImage) (hi : ImgOk c img)
    (t : List Rec) (m : List Block) (q : Nat) (fam : Nat)
    (size : W) (sep : Bool) (id : Nat) (bytes : List UInt8) (a2 : Ans) (evs : List Ev)
    (hacc : rejectsAlloc c size = false)
    (hlen : bytes.length = (allocReq c sep size).toNat)
    (h2 : sep = true → ∃ nid nb, a2 = .block nid nb ∧ nb.length = c.node.toNat ∧ nid ≠ id) :
    ∃ s' evs', account c img ⟨t, ⟨id, bytes⟩ :: m, q⟩ fam size sep id a2 evs = (s', evs', .ptr id) ∧
      s'.trackedSet = (id, size) :: t.map (fun r => (r.id, r.size)) ∧
      (∃ b', findBlock s'.mem id = some b' ∧ b'.bytes.length = bytes.length ∧
          b'.bytes.take size.toNat = bytes.take size.toNat ∧ size.toNat + c.guard.toNat ≤ b'.bytes.length ∧
          (b'.bytes.drop size.toNat).take c.guard.toNat = guardImage c) ∧
      (∀ j, j ≠ id → j ≠ a2.id → findBlock s'.mem j = findBlock m j) := by
  have hb := swciNat_bounds c size.toNat
  have hoff := nodeOff_toNat_acc c h size hacc
  have hreq := allocReq_toNat_acc c h size sep hacc
  cases sep
  · simp only [Bool.false_eq_true, if_false] at hreq
    obtain ⟨bs', he, hl, ht, hg⟩ := store_inline c img hi ⟨t, ⟨id, bytes⟩ :: m, q⟩ ⟨id, size, fam, false, 0, q⟩
      evs ⟨id, bytes⟩ rfl (findBlock_cons_self id bytes m)
      (by simp only []; omega) (by simp only []; unfold extNat at hreq; omega)
    simp only [] at he hl ht hg
    refine ⟨{ tracked := ⟨id, size, fam, false, 0, q⟩ :: t, mem := setBlock (⟨id, bytes⟩ :: m) id bs', seq := q + 1 },
      evs, ?_, ?_, ⟨⟨id, bs'⟩, ?_, hl, ht, ?_, hg⟩, ?_⟩
    · unfold account
      exact he
    · simp [State.trackedSet]
    · exact findBlock_setBlock_same bs' (findBlock_cons_self id bytes m)
    · show size.toNat + c.guard.toNat ≤ bs'.length
      rw [hl, hlen, hreq]; unfold extNat; omega
    · intro j hj _
      show findBlock (setBlock (⟨id, bytes⟩ :: m) id bs') j = findBlock m j
      rw [findBlock_setBlock_ne bs' hj, findBlock_cons_ne bytes m (Ne.symm hj)]
  · obtain ⟨nid, nb, rfl, hnl, hne⟩ := h2 rfl
    simp only [if_true] at hreq
    obtain ⟨nbs', bs', he, hl, ht, hg⟩ := store_sep c img hi ⟨t, ⟨nid, nb⟩ :: ⟨id, bytes⟩ :: m, q⟩
      ⟨id, size, fam, true, nid, q⟩ (evs ++ [.unode c.node nid]) ⟨id, bytes⟩ ⟨nid, nb⟩ rfl hne
      (findBlock_cons_self nid nb _) (by simp only []; omega)
      (by simp only []; rw [findBlock_cons_ne nb _ hne]; exact findBlock_cons_self id bytes m)
      (by simp only []; omega)
    simp only [] at he hl ht hg
    refine ⟨{ tracked := ⟨id, size, fam, true, nid, q⟩ :: t,
              mem := setBlock (setBlock (⟨nid, nb⟩ :: ⟨id, bytes⟩ :: m) nid nbs') id bs', seq := q + 1 },
      evs ++ [.unode c.node nid], ?_, ?_, ⟨⟨id, bs'⟩, ?_, hl, ht, ?_, hg⟩, ?_⟩
    · unfold account
      exact he
    · simp [State.trackedSet]
    · apply findBlock_setBlock_same bs'
      rw [findBlock_setBlock_ne nbs' (Ne.symm hne), findBlock_cons_ne nb _ hne]
      exact findBlock_cons_self id bytes m
    · show size.toNat + c.guard.toNat ≤ bs'.length
      rw [hl, hlen, hreq]; omega
    · intro j hj hjn
      simp only [Ans.id] at hjn
      show findBlock (setBlock (setBlock (⟨nid, nb⟩ :: ⟨id, bytes⟩ :: m) nid nbs') id bs') j = findBlock m j
      rw [findBlock_setBlock_ne bs' hj, findBlock_setBlock_ne nbs' hjn, findBlock_cons_ne nb _ (Ne.symm hjn),
        findBlock_cons_ne bytes m (Ne.symm hj)]

theorem forcedSep_true (c : Cfg) : forcedSep c true = true := by simp [forcedSep]

theorem userView_setBlock (s : State) (id n : Nat) (bs : List UInt8) (b : Block) (hb : findBlock s.mem id = some b) :
    userView { s with mem := setBlock s.mem id bs } id n = some (bs.take n) := by
  unfold userView
  rw [findBlock_setBlock_same bs hb]; rfl

theorem cstrlen_some_of_nul : ∀ (buf : List UInt8), (0 : UInt8) ∈ buf → ∃ n, cstrlen buf = some n
  | [], h => by simp at h
  | b :: rest, h => by
    unfold cstrlen
    by_cases hb : (b == 0) = true
    · exact ⟨0, by simp [hb]⟩
    · have hb0 : b ≠ 0 := by simpa using hb
      have : (0 : UInt8) ∈ rest := by
        rcases List.mem_cons.mp h with h | h
        · exact absurd h.symm hb0
        · exact h
      obtain ⟨n, hn⟩ := cstrlen_some_of_nul rest this
      exact ⟨n + 1, by simp [hb, hn]⟩

/-- sizes far below 2^64 are accepted by the guard -/
theorem small_accepted (c : Cfg) (h : NodeOk c) (size : W) (hs : size.toNat < 2 ^ 63) : rejectsAlloc c size = false := by
  cases hr : rejectsAlloc c size
  · rfl
  · have := (rejectsAlloc_iff c h size).mp hr
    have hb := swciNat_bounds c size.toNat
    have hg := guard_le c
    have := h.small
    unfold extNat at *
    omega

/-- the common part of strdup / strndup: `size = k + 1` bytes are requested, `k ≤ strlen`, and the
    result holds the first `k` bytes of the string followed by the terminator -/
theorem strdupAlloc_copies (c : Cfg) (h : NodeOk c) (img : NodeImage) (hi : ImgOk c img) (s : State)
    (buf : List UInt8) (k : Nat) (size : W) (id : Nat) (bytes : List UInt8) (nid : Nat) (nb : List UInt8)
    (hsize : size.toNat = k + 1) (hk : k < buf.length) (hsmall : size.toNat < 2 ^ 63)
    (hlen : bytes.length = (allocReq c true size).toNat)
    (hnl : nb.length = c.node.toNat) (hne : nid ≠ id) :
    ∃ s' evs, strdupAlloc c img s buf size (.block id bytes) (.block nid nb) = (s', evs, .ptr id) ∧
      s'.trackedSet = (id, size) :: s.trackedSet ∧
      userView s' id (k + 1) = some (buf.take k ++ [0]) := by
  have hacc := small_accepted c h size hsmall
  obtain ⟨s1, evs, he, ht, ⟨b', hb', hl', _, hfit, _⟩, _⟩ :=
    allocMemory_block c h img hi s famMalloc size true id bytes (.block nid nb) hacc
      (by rw [forcedSep_true]; exact hlen) (fun _ => ⟨nid, nb, rfl, hnl, hne⟩)
  have hnl' : ¬ buf.length < size.toNat := by omega
  have hsub : (size - 1).toNat = k := by
    have := size.isLt
    rw [BitVec.toNat_sub]; simp; omega
  unfold strdupAlloc cMalloc
  simp only [hnl', if_false, he]
  have htk : (buf.take size.toNat).length = k + 1 := by simp; omega
  rw [thenWrite_ptr s1 evs id 0 _ _ b' hb' (by rw [htk]; omega)]
  generalize hb1 : b'.bytes.take 0 ++ buf.take size.toNat ++ b'.bytes.drop (0 + (buf.take size.toNat).length) = bs1
  have hw1 : writeAt b'.bytes 0 (buf.take size.toNat) = some bs1 := by rw [← hb1]; exact writeAt_some (by rw [htk]; omega)
  have hl1 := writeAt_length hw1
  have hr1 := writeAt_zero_take hw1
  have hfb1 : findBlock (setBlock s1.mem id bs1) id = some ⟨id, bs1⟩ := findBlock_setBlock_same bs1 hb'
  rw [thenWrite_ptr _ evs id (size - 1).toNat [0] _ ⟨id, bs1⟩ hfb1 (by simp only [hsub, List.length_singleton]; omega)]
  refine ⟨_, _, rfl, ht, ?_⟩
  simp only [setBlock_setBlock]
  rw [userView_setBlock s1 id _ _ b' hb']
  simp only [hsub, List.length_singleton]
  generalize hb2 : bs1.take k ++ [0] ++ bs1.drop (k + 1) = bs2
  have hw2 : writeAt bs1 k [0] = some bs2 := by rw [← hb2]; exact writeAt_some (by simp; omega)
  have e1 : bs2.take k = bs1.take k := writeAt_take hw2 k (Nat.le_refl _)
  have e2 : (bs2.drop k).take 1 = [0] := by simpa using writeAt_read hw2
  have e3 : bs1.take k = buf.take k := by
    rw [htk] at hr1
    have : bs1.take k = (bs1.take (k + 1)).take k := by simp [List.take_take]
    rw [this, hr1, hsize]; simp [List.take_take]
  have fin : bs2.take (k + 1) = buf.take k ++ [0] := by
    rw [← List.take_append_drop k (bs2.take (k + 1)), List.take_take, Nat.min_eq_left (Nat.le_succ k), e1, e3,
      List.drop_take]
    simpa using e2
  rw [fin]

theorem removeRec_perm : ∀ (t : List Rec) (id : Nat) (r : Rec) (rest : List Rec),
    removeRec t id = some (r, rest) → t.Perm (r :: rest) ∧ r.id = id
  | [], _, _, _, h => by simp [removeRec] at h
  | x :: xs, id, r, rest, h => by
    unfold removeRec at h
    by_cases hx : (x.id == id) = true
    · simp only [hx, if_true] at h
      cases h
      exact ⟨List.Perm.refl _, by simpa using hx⟩
    · simp only [hx, Bool.false_eq_true, if_false] at h
      cases hr : removeRec xs id with
      | none => simp [hr] at h
      | some p =>
        obtain ⟨y, rest'⟩ := p
        simp only [hr] at h
        cases h
        obtain ⟨hp, hid⟩ := removeRec_perm xs id r rest' hr
        exact ⟨(List.Perm.cons x hp).trans (List.Perm.swap r x rest'), hid⟩

theorem trackedSet_perm {t t' : List Rec} (h : t.Perm t') :
    (t.map (fun r => (r.id, r.size))).Perm (t'.map (fun r => (r.id, r.size))) := h.map _

end AllocLayout
