import CppUModel.Proofs.JUnitBehaviours
/-!
Helper lemmas for C16, part 8: repeated runs (`-r<n>`) on one `JUnitTestOutput`: the state of the
collector at the end of a run, the file names a run writes, and the same for n consecutive runs.
-/
set_option linter.unusedSimpArgs false
namespace JUnit
open Text (Bytes)
open OutEv

theorem body_group (flt : Option Filter) (sc : Script) (r : R) (s : St) (hc : s.crashed = false) :
    (stFrom s (bodyEvs flt sc r)).group = (if shouldRun flt sc.info then sc.info.group else s.group) := by
  rw [rstep_state]
  unfold bodyEvs
  split
  · rw [test_state sc _ s hc]
  · simp [foldEvents]

/-- the report file names a run of the loop writes; `g` = the group the collector currently knows -/
def loopNames (flt : Option Filter) (package : Bytes) : Bytes → List Script → List Bytes
  | _, [] => []
  | g, t :: rest =>
    if endOfGroup t rest then
      createFileName package (if shouldRun flt t.info then t.info.group else g) :: loopNames flt package [] rest
    else loopNames flt package (if shouldRun flt t.info then t.info.group else g) rest

/-- what the loop leaves behind, and the names it writes -/
theorem loop_names (flt : Option Filter) : ∀ (tests : List Script) (gs : Bool) (g0 : Nat) (r : R) (s : St),
    s.crashed = false → (tests = [] → s.nodesRev = [] ∧ s.group = []) →
    (reportsFrom s (loop flt gs g0 r tests)).map (·.1) = loopNames flt s.package s.group tests ∧
    (stFrom s (loop flt gs g0 r tests)).crashed = false ∧
    (stFrom s (loop flt gs g0 r tests)).nodesRev = [] ∧
    (stFrom s (loop flt gs g0 r tests)).group = [] ∧
    (stFrom s (loop flt gs g0 r tests)).package = s.package
  | [], gs, g0, r, s, hc, hnil => by
    obtain ⟨h1, h2⟩ := hnil rfl
    simp [loop, reportsFrom_cons, reportsFrom_nil, reportsOf, stFrom_cons, stFrom_nil, step, hc, loopNames, h1, h2]
  | t :: rest, gs, g0, r, s, hc, _ => by
    simp only [loop]
    have hstart : stFrom s (startEvs gs t) = s ∧ reportsFrom s (startEvs gs t) = [] := by
      unfold startEvs; split <;> simp [stFrom_cons, stFrom_nil, reportsFrom_cons, reportsFrom_nil, reportsOf, step, hc]
    have hb := body_state flt t r s hc
    have hg := body_group flt t r s hc
    rw [List.append_assoc, List.append_assoc, reportsFrom_append, stFrom_append, hstart.1, hstart.2, List.nil_append,
      reportsFrom_append, stFrom_append, reportsFrom_quiet _ _ (noGroupEnd_body flt t r), List.nil_append,
      reportsFrom_append, stFrom_append]
    generalize hs2 : stFrom s (bodyEvs flt t r) = s2 at hb hg ⊢
    obtain ⟨hc2, hp2, hn2⟩ := hb
    unfold endEvs
    cases he : endOfGroup t rest
    · simp only [Bool.false_eq_true, if_false, reportsFrom_nil, stFrom_nil, List.nil_append]
      have hrest : rest = [] → s2.nodesRev = [] ∧ s2.group = [] := by
        intro h; subst h; simp [endOfGroup] at he
      have ih := loop_names flt rest false (if gs = true then r.clock else g0) (bodyR flt t r) s2 hc2 hrest
      rw [hp2, hg] at ih
      simp only [loopNames, he, Bool.false_eq_true, if_false]
      exact ih
    · simp only [if_true]
      generalize hms : (bodyR flt t r).clock - (if gs = true then r.clock else g0) = ms
      have hrep : reportsFrom s2 [Ev.groupEnded ms] = [reportOf { s2 with groupExecTime := ms }] := by
        simp [reportsFrom_cons, reportsFrom_nil, reportsOf, hc2]
      have hst : stFrom s2 [Ev.groupEnded ms] = onGroupEnded s2 ms := by
        simp [stFrom_cons, stFrom_nil, step, hc2]
      have ih := loop_names flt rest true (if gs = true then r.clock else g0) (bodyR flt t r) (onGroupEnded s2 ms)
        (by simp [onGroupEnded, reset_eq, hc2]) (by intro _; simp [onGroupEnded, reset_eq])
      rw [hrep, hst, List.map_append, ih.1]
      refine ⟨?_, ih.2.1, ih.2.2.1, ih.2.2.2.1, ?_⟩
      · simp [loopNames, he, reportOf, onGroupEnded, reset_eq, hp2, hg]
      · rw [ih.2.2.2.2]; simp [onGroupEnded, reset_eq, hp2]

/-- a state between runs: nothing collected, no group known -/
def Fresh (s : St) : Prop := s.crashed = false ∧ s.nodesRev = [] ∧ s.group = []

theorem repetition_state (flt : Option Filter) (tests : List Script) (i n : Nat) (s : St) (h : Fresh s) :
    (reportsFrom s (.testRun i n :: runAll flt tests)).map (·.1) = loopNames flt s.package [] tests ∧
    (reportsFrom s (.testRun i n :: runAll flt tests)).flatMap reportKeys =
      (tests.filter fun t => shouldRun flt t.info).map scriptKey ∧
    Fresh (stFrom s (.testRun i n :: runAll flt tests)) ∧
    (stFrom s (.testRun i n :: runAll flt tests)).package = s.package := by
  obtain ⟨hc, hn, hg⟩ := h
  -- the state after `printTestRun` and `printTestsStarted`: only the captured output grew
  let s1 : St := { s with stdOutput := s.stdOutput ++ testRunText n }
  have hs1 : stFrom s (.testRun i n :: runAll flt tests) = stFrom s1 (loop flt true 0 {} tests) := by
    simp [runAll, stFrom_cons, step, hc, s1]
  have hr1 : reportsFrom s (.testRun i n :: runAll flt tests) = reportsFrom s1 (loop flt true 0 {} tests) := by
    simp [runAll, reportsFrom_cons, reportsOf, step, hc, s1]
  have hnames := loop_names flt tests true 0 {} s1 hc (fun _ => ⟨hn, hg⟩)
  have hkeys := loop_keys flt tests true 0 {} s1 hc (fun _ => hn)
  rw [hs1, hr1]
  refine ⟨?_, ?_, ⟨hnames.2.1, hnames.2.2.1, hnames.2.2.2.1⟩, hnames.2.2.2.2⟩
  · rw [hnames.1]; simp [s1, hg]
  · rw [hkeys.1]; simp [s1, hn]

theorem repetitions_state (flt : Option Filter) (tests : List Script) (n : Nat) : ∀ (k : Nat) (s : St), Fresh s →
    (reportsFrom s ((List.range k).flatMap fun i => Ev.testRun (i + 1) n :: runAll flt tests)).map (·.1) =
      (List.range k).flatMap (fun _ => loopNames flt s.package [] tests) ∧
    (reportsFrom s ((List.range k).flatMap fun i => Ev.testRun (i + 1) n :: runAll flt tests)).flatMap reportKeys =
      (List.range k).flatMap (fun _ => (tests.filter fun t => shouldRun flt t.info).map scriptKey) ∧
    Fresh (stFrom s ((List.range k).flatMap fun i => Ev.testRun (i + 1) n :: runAll flt tests)) ∧
    (stFrom s ((List.range k).flatMap fun i => Ev.testRun (i + 1) n :: runAll flt tests)).package = s.package
  | 0, s, h => by simp [reportsFrom_nil, stFrom_nil, h]
  | k + 1, s, h => by
    obtain ⟨ih1, ih2, ih3, ih4⟩ := repetitions_state flt tests n k s h
    have hb := repetition_state flt tests (k + 1) n _ ih3
    rw [ih4] at hb
    simp only [List.range_succ, List.flatMap_append, List.flatMap_cons, List.flatMap_nil, List.append_nil,
      reportsFrom_append, stFrom_append, List.map_append, ih1, ih2, hb.1, hb.2.1]
    exact ⟨trivial, trivial, hb.2.2.1, hb.2.2.2⟩

end JUnit
