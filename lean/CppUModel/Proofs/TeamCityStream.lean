import CppUModel.Proofs.TeamCityRun
import CppUModel.Proofs.TeamCityParse
/-!
Helper lemmas for C20, part 4: the text items of a run's message list (test prints, the -vv progress
trace, the final summary) and when they contain no `#`; which print events a run of the registry
can contain.
-/
set_option linter.unusedSimpArgs false
namespace TeamCity
open Text (Bytes)
open OutEv

theorem noHash_append (a b : Bytes) : noHash (a ++ b) = (noHash a && noHash b) := by simp [noHash]
theorem noHash_nil : noHash [] = true := rfl

theorem noHash_digit (n : Nat) : noHash [digit n] = true := by
  have h : n % 10 < 10 := Nat.mod_lt _ (by decide)
  have key : ∀ k, k < 10 → noHash [UInt8.ofNat (48 + k)] = true := by decide
  exact key _ h

theorem noHash_decAux : ∀ (fuel n : Nat) (acc : Bytes), noHash acc = true → noHash (decAux fuel n acc) = true
  | 0, _, acc, h => by simpa [decAux] using h
  | fuel + 1, n, acc, h => by
    simp only [decAux]
    have hd : noHash (digit n :: acc) = true := by
      have := noHash_append [digit n] acc
      simp only [List.singleton_append] at this
      rw [this, noHash_digit, h]; rfl
    split
    · exact hd
    · exact noHash_decAux fuel (n / 10) _ hd

theorem noHash_dec (n : Nat) : noHash (dec n) = true := noHash_decAux _ _ _ rfl

set_option maxRecDepth 100000 in
theorem noHash_summary (sm : Summary) : noHash (summaryOut sm) = true := by
  unfold summaryOut
  split <;> (try split) <;> (try split) <;> simp only [noHash_append, noHash_dec, Bool.and_eq_true, Bool.and_true, Bool.true_and] <;> decide

theorem noHash_testRunOut (i n : Nat) : noHash (testRunOut i n) = true := by
  unfold testRunOut
  by_cases h : n > 1
  · simp only [h, if_true, noHash_append, noHash_dec, Bool.and_true, Bool.true_and, Bool.and_eq_true]; decide
  · simp only [h, if_false]; rfl

/-- the raw text an event may contribute -/
def evText : Ev → Option Bytes
  | .print x => some x
  | .veryVerbose x => some x
  | _ => none

/-- every test print and every progress trace line of the event list is free of `#` -/
def RawTextNoHash (evs : List Ev) : Prop := ∀ e ∈ evs, ∀ x, evText e = some x → noHash x = true

theorem texts_of_msgsOf (s : St) (e : Ev) (h : ∀ x, evText e = some x → noHash x = true) :
    textsNoHash (msgsOf s e) := by
  intro m hm raw hraw
  subst hraw
  cases e with
  | testRun i n =>
    simp only [msgsOf] at hm
    split at hm
    · have : raw = testRunOut i n := by simpa using hm
      rw [this]; exact noHash_testRunOut i n
    · simp at hm
  | testsStarted => simp [msgsOf] at hm
  | groupStarted t => simp [msgsOf] at hm
  | testStarted t => simp only [msgsOf] at hm; split at hm <;> simp at hm
  | print x =>
    have : raw = x := by simpa [msgsOf] using hm
    rw [this]; exact h x rfl
  | veryVerbose x =>
    simp only [msgsOf] at hm
    split at hm
    · have : raw = x := by simpa using hm
      rw [this]; exact h x rfl
    · simp at hm
  | failure f => simp [msgsOf] at hm
  | testEnded ms c => simp only [msgsOf] at hm; split at hm <;> simp at hm
  | groupEnded ms => simp only [msgsOf] at hm; split at hm <;> simp at hm
  | testsEnded sm =>
    have : raw = summaryOut sm := by simpa [msgsOf] using hm
    rw [this]; exact noHash_summary sm

theorem texts_of_msgsFrom : ∀ (evs : List Ev) (s : St), RawTextNoHash evs → textsNoHash (msgsFrom s evs)
  | [], s, _ => by intro m hm; simp [msgsFrom_nil] at hm
  | e :: es, s, h => by
    intro m hm raw hraw
    rw [msgsFrom_cons, List.mem_append] at hm
    rcases hm with hm | hm
    · exact texts_of_msgsOf s e (h e (List.mem_cons_self ..)) m hm raw hraw
    · exact texts_of_msgsFrom es _ (fun x hx => h x (List.mem_cons_of_mem _ hx)) m hm raw hraw

/-! ## the raw text of a run of the registry -/

/-- the test's own prints are free of `#` -/
def PrintsNoHash (sc : Script) : Prop :=
  ∀ f l x, Act.print f l x ∈ sc.acts → noHash f = true ∧ noHash x = true

theorem noHash_printText (f : Bytes) (l : Nat) (x : Bytes) (hf : noHash f = true) (hx : noHash x = true) :
    noHash (printText f l x) = true := by
  unfold printText
  simp only [noHash_append, noHash_dec, hf, hx, Bool.and_true, Bool.true_and, Bool.and_eq_true]
  decide

theorem raw_acts (t : TestInfo) : ∀ (acts : List Act),
    (∀ f l x, Act.print f l x ∈ acts → noHash f = true ∧ noHash x = true) → RawTextNoHash (actEvs t acts)
  | [], _ => by intro e he; simp [actEvs] at he
  | a :: as, h => by
    have ih := raw_acts t as (fun f l x hm => h f l x (List.mem_cons_of_mem _ hm))
    intro e he y hy
    cases a with
    | print f l x =>
      simp only [actEvs, List.mem_cons] at he
      rcases he with he | he
      · subst he; simp only [evText, Option.some.injEq] at hy; subst hy
        obtain ⟨h1, h2⟩ := h f l x (List.mem_cons_self ..)
        exact noHash_printText f l x h1 h2
      · exact ih e he y hy
    | fail f l m =>
      simp only [actEvs, List.mem_cons] at he
      rcases he with he | he
      · subst he; simp [evText] at hy
      · exact ih e he y hy
    | failMsg m =>
      simp only [actEvs, List.mem_cons] at he
      rcases he with he | he
      · subst he; simp [evText] at hy
      · exact ih e he y hy
    | failLoc f l =>
      simp only [actEvs, List.mem_cons] at he
      rcases he with he | he
      · subst he; simp [evText] at hy
      · exact ih e he y hy
    | failExit f l m =>
      simp only [actEvs, List.mem_singleton] at he
      subst he; simp [evText] at hy
    | postFail m => exact ih e (by simpa [actEvs] using he) y hy
    | checks n => exact ih e (by simpa [actEvs] using he) y hy
    | tick n => exact ih e (by simpa [actEvs] using he) y hy

theorem raw_post (t : TestInfo) : ∀ (acts : List Act), RawTextNoHash (postEvs t acts)
  | [] => by intro e he; simp [postEvs] at he
  | a :: as => by
    have ih := raw_post t as
    intro e he y hy
    cases a with
    | postFail m =>
      simp only [postEvs, List.mem_cons] at he
      rcases he with he | he
      · subst he; simp [evText] at hy
      · exact ih e he y hy
    | print f l x => exact ih e (by simpa [postEvs] using he) y hy
    | fail f l m => exact ih e (by simpa [postEvs] using he) y hy
    | failMsg m => exact ih e (by simpa [postEvs] using he) y hy
    | failLoc f l => exact ih e (by simpa [postEvs] using he) y hy
    | failExit f l m => exact ih e (by simpa [postEvs] using he) y hy
    | checks n => exact ih e (by simpa [postEvs] using he) y hy
    | tick n => exact ih e (by simpa [postEvs] using he) y hy

theorem raw_append {a b : List Ev} (ha : RawTextNoHash a) (hb : RawTextNoHash b) : RawTextNoHash (a ++ b) := by
  intro e he
  rcases List.mem_append.mp he with h | h
  · exact ha e h
  · exact hb e h

def rawOk (evs : List Ev) : Bool :=
  evs.all fun e => match evText e with
    | some x => noHash x
    | none => true

theorem raw_of_ok (evs : List Ev) (h : rawOk evs = true) : RawTextNoHash evs := by
  intro e he x hx
  have := (List.all_eq_true.mp h) e he
  rw [hx] at this
  exact this

theorem raw_trace (acts : List Act) :
    RawTextNoHash traceBefore ∧ RawTextNoHash (traceBetween acts) ∧ RawTextNoHash traceAfter := by
  refine ⟨raw_of_ok _ (by decide), ?_, raw_of_ok _ (by decide)⟩
  unfold traceBetween; split <;> exact raw_of_ok _ (by decide)

theorem raw_testEvs (sc : Script) (r : R) (h : PrintsNoHash sc) : RawTextNoHash (testEvs sc r) := by
  unfold testEvs
  split
  · obtain ⟨h1, h2, h3⟩ := raw_trace sc.acts
    have hin : RawTextNoHash (testInner sc.info sc.acts) :=
      raw_append h1 (raw_append (raw_acts sc.info sc.acts h) (raw_append h2 (raw_append (raw_post sc.info sc.acts) h3)))
    show RawTextNoHash ([Ev.testStarted sc.info] ++ (testInner sc.info sc.acts ++ [Ev.testEnded _ _]))
    exact raw_append (raw_of_ok _ rfl) (raw_append hin (raw_of_ok _ rfl))
  · exact raw_of_ok _ rfl

theorem raw_loop (flt : Option Filter) : ∀ (tests : List Script) (gs : Bool) (g0 : Nat) (r : R),
    (∀ sc ∈ tests, PrintsNoHash sc) → RawTextNoHash (loop flt gs g0 r tests)
  | [], gs, g0, r, _ => by
    intro e he x hx
    simp only [loop, List.mem_singleton] at he; subst he; simp [evText] at hx
  | t :: rest, gs, g0, r, h => by
    simp only [loop]
    refine raw_append (raw_append (raw_append ?_ ?_) ?_) (raw_loop flt rest _ _ _ (fun sc hsc => h sc (List.mem_cons_of_mem _ hsc)))
    · intro e he x hx
      unfold startEvs at he; split at he
      · simp only [List.mem_singleton] at he; subst he; simp [evText] at hx
      · simp at he
    · unfold bodyEvs; split
      · exact raw_testEvs t _ (h t (List.mem_cons_self ..))
      · intro e he; simp at he
    · intro e he x hx
      unfold endEvs at he; split at he
      · simp only [List.mem_singleton] at he; subst he; simp [evText] at hx
      · simp at he

theorem raw_runAll (flt : Option Filter) (tests : List Script) (h : ∀ sc ∈ tests, PrintsNoHash sc) :
    RawTextNoHash (runAll flt tests) := by
  intro e he
  simp only [runAll, List.mem_cons] at he
  rcases he with he | he
  · subst he; intro x hx; simp [evText] at hx
  · exact raw_loop flt tests true 0 {} h e he

end TeamCity
