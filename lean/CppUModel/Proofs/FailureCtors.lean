import CppUModel.Model.OutputEvents
/-!
Obligations over the regenerated member-initialiser lists of the `TestFailure` constructors
(`Gen/FailureCtors.lean`, from src/CppUTest/TestFailure.cpp), location part, shared by C16 and C20:
whichever constructor builds a failure, its test location is the test's own file and line, and its
failure location is the given file:line or — when none is given — the test's; the message is the
given one or "no message".  An edit of an initialiser list breaks these theorems.
(The part about the test's NAME is in `Proofs/FailureCtorsName.lean`; only C20 depends on it.)
-/
namespace OutEv
open Text (Bytes)

variable (t : TestInfo) (f : Bytes) (l : Nat) (m : Bytes)

/-! `TestFailure(test, file, line, message)` -/
theorem locMsgFailure_file : (locMsgFailure t f l m).file = f := rfl
theorem locMsgFailure_line : (locMsgFailure t f l m).line = l := rfl
theorem locMsgFailure_testFile : (locMsgFailure t f l m).testFile = t.file := rfl
theorem locMsgFailure_testLine : (locMsgFailure t f l m).testLine = t.line := rfl
theorem locMsgFailure_message : (locMsgFailure t f l m).message = m := rfl

/-! `TestFailure(test, message)`: the failure is located at the test itself -/
theorem msgFailure_file : (msgFailure t m).file = t.file := rfl
theorem msgFailure_line : (msgFailure t m).line = t.line := rfl
theorem msgFailure_testFile : (msgFailure t m).testFile = t.file := rfl
theorem msgFailure_testLine : (msgFailure t m).testLine = t.line := rfl
theorem msgFailure_message : (msgFailure t m).message = m := rfl

/-! `TestFailure(test, file, line)` -/
theorem locFailure_file : (locFailure t f l).file = f := rfl
theorem locFailure_line : (locFailure t f l).line = l := rfl
theorem locFailure_testFile : (locFailure t f l).testFile = t.file := rfl
theorem locFailure_testLine : (locFailure t f l).testLine = t.line := rfl
theorem locFailure_message : (locFailure t f l).message = lit "no message" := by
  have h : (lit "no message" : Bytes) = [110, 111, 32, 109, 101, 115, 115, 97, 103, 101] := by decide
  rw [h]; rfl

/-! `FailFailure(test, file, line, message)` -/
theorem exitFailure_file : (exitFailure t f l m).file = f := rfl
theorem exitFailure_line : (exitFailure t f l m).line = l := rfl
theorem exitFailure_testFile : (exitFailure t f l m).testFile = t.file := rfl
theorem exitFailure_testLine : (exitFailure t f l m).testLine = t.line := rfl
theorem exitFailure_message : (exitFailure t f l m).message = m := rfl

end OutEv
