/-! Small list lemmas shared by the proofs (core only). -/
namespace ListLemmas

theorem perm_of_count {α} [DecidableEq α] {l₁ l₂ : List α}
    (h : ∀ x, l₁.count x = l₂.count x) : l₁.Perm l₂ := List.perm_iff_count.mpr h

/-- replacing element `i` of a list: how the flattened image changes, up to permutation -/
theorem flatMap_set_perm {α β} [DecidableEq β] (f : α → List β) :
    ∀ (cs : List α) (i : Nat) (c c' : α) (a b : List β),
      cs[i]? = some c → (f c' ++ a).Perm (f c ++ b) →
      ((cs.set i c').flatMap f ++ a).Perm (cs.flatMap f ++ b)
  | [], i, c, c', a, b, h, _ => by simp at h
  | d :: ds, 0, c, c', a, b, h, hp => by
    simp at h; subst h
    apply perm_of_count; intro x
    have := hp.count_eq x
    simp [List.count_append] at this ⊢; omega
  | d :: ds, i+1, c, c', a, b, h, hp => by
    have ih := flatMap_set_perm f ds i c c' a b (by simpa using h) hp
    apply perm_of_count; intro x
    have := ih.count_eq x
    simp [List.count_append] at this ⊢; omega

end ListLemmas
