import CppUModel.Spec.Asserts
/-! Helper lemmas for the C03 theorems: C integer conversions on `BitVec.ofInt`, promotion and
    usual arithmetic conversions, `& 0xff`, masked bits, `Text.cmp`/`ncmp`/`isInfix`, `memCmp`.
    Core Lean only. -/
namespace Asserts
open Text

theorem two_pow_pos (n : Nat) : (0 : Int) < (2 : Int) ^ n := Int.pow_pos (by decide)

theorem natCast_two_pow (n : Nat) : ((2 ^ n : Nat) : Int) = (2 : Int) ^ n := by
  simp [Int.natCast_pow]

/-- conversions to an `n` bit type agree iff the values are congruent modulo 2^n -/
theorem conv_eq_iff (n : Nat) (a b : Int) :
    conv n a = conv n b ↔ a % (2 : Int) ^ n = b % (2 : Int) ^ n := by
  unfold conv
  rw [← BitVec.toNat_inj, BitVec.toNat_ofInt, BitVec.toNat_ofInt, natCast_two_pow]
  have ha := Int.emod_nonneg a (Int.ne_of_gt (two_pow_pos n))
  have hb := Int.emod_nonneg b (Int.ne_of_gt (two_pow_pos n))
  constructor
  · intro h; omega
  · intro h; rw [h]

theorem asType_signed_of_inRange (n : Nat) (hn : 0 < n) (v : Int)
    (h : -(2 : Int) ^ (n - 1) ≤ v ∧ v < (2 : Int) ^ (n - 1)) : (conv n v).toInt = v := by
  unfold conv
  rw [BitVec.toInt_ofInt]
  have h2 : (2 : Int) ^ n = 2 * (2 : Int) ^ (n - 1) := by
    have : n = (n - 1) + 1 := by omega
    rw [this, Int.pow_succ]; simp; omega
  apply Int.bmod_eq_of_le
  · rw [natCast_two_pow, h2]; omega
  · rw [natCast_two_pow, h2]; omega

theorem asType_unsigned_of_inRange (n : Nat) (v : Int)
    (h : 0 ≤ v ∧ v < (2 : Int) ^ n) : ((conv n v).toNat : Int) = v := by
  unfold conv
  rw [BitVec.toNat_ofInt, natCast_two_pow, Int.emod_eq_of_lt h.1 h.2]
  omega

theorem asType_of_inRange (t : CTy) (ht : 0 < t.w) (v : Int) (h : InRange t v) : asType t v = v := by
  unfold asType valueAt
  unfold InRange at h
  split
  · next hs => simp [hs] at h; exact asType_signed_of_inRange t.w ht v h
  · next hs => simp [hs] at h; exact asType_unsigned_of_inRange t.w v h

theorem asType_eq_iff (t : CTy) (a b : Int) : asType t a = asType t b ↔ conv t.w a = conv t.w b := by
  unfold asType valueAt
  split
  · exact BitVec.toInt_inj
  · rw [← BitVec.toNat_inj]; omega



/-! ## promotion / common type -/

theorem promote_w_ge (t : CTy) : 32 ≤ (promote t).w := by
  unfold promote tyInt; split
  · simp
  · simp at *; omega

theorem common_w_ge (t u : CTy) : 32 ≤ (common t u).w := by
  unfold common commonPromoted
  have h1 := promote_w_ge t; have h2 := promote_w_ge u
  split
  · simp; omega
  · split
    · split <;> simp <;> omega
    · split <;> simp <;> omega

/-! ## sign / zero extension keep equality -/

theorem signExtend_eq_iff {w v : Nat} (h : w ≤ v) (x y : BitVec w) :
    x.signExtend v = y.signExtend v ↔ x = y := by
  constructor
  · intro e
    have := congrArg BitVec.toInt e
    rw [BitVec.toInt_signExtend_of_le h, BitVec.toInt_signExtend_of_le h] at this
    exact BitVec.toInt_inj.mp this
  · intro e; rw [e]

theorem zeroExtend_eq_iff {w v : Nat} (h : w ≤ v) (x y : BitVec w) :
    x.zeroExtend v = y.zeroExtend v ↔ x = y := by
  constructor
  · intro e
    have := congrArg BitVec.toNat e
    simp only [BitVec.zeroExtend, BitVec.toNat_setWidth] at this
    have hx := x.isLt; have hy := y.isLt
    have hp : 2 ^ w ≤ 2 ^ v := Nat.pow_le_pow_right (by decide) h
    rw [Nat.mod_eq_of_lt (by omega), Nat.mod_eq_of_lt (by omega)] at this
    exact BitVec.toNat_inj.mp this
  · intro e; rw [e]

/-! ## `(x) & 0xff` -/

theorem andLit_255_val (x : CInt) : (andLit x 255).val = x.val % 256 := by
  have hw := common_w_ge x.ty tyInt
  unfold andLit
  simp only
  generalize (common x.ty tyInt).w = w at hw
  generalize (common x.ty tyInt).signed = s
  have hnat : (conv w x.val &&& BitVec.ofNat w 255).toNat = (x.val % 256).toNat := by
    rw [BitVec.toNat_and, BitVec.toNat_ofNat]
    have h255 : 255 % 2 ^ w = 2 ^ 8 - 1 := by
      have : 2 ^ 8 ≤ 2 ^ w := Nat.pow_le_pow_right (by decide) (by omega)
      rw [Nat.mod_eq_of_lt (by omega)]
    rw [h255, Nat.and_two_pow_sub_one_eq_mod]
    unfold conv
    rw [BitVec.toNat_ofInt, natCast_two_pow]
    have hdvd : ((2:Int) ^ 8) ∣ (2:Int) ^ w := by
      have : w = 8 + (w - 8) := by omega
      rw [this, Int.pow_add]; exact Int.dvd_mul_right _ _
    have h1 : x.val % (2:Int) ^ w % (2:Int)^8 = x.val % (2:Int)^8 := Int.emod_emod_of_dvd _ hdvd
    have hnn := Int.emod_nonneg x.val (Int.ne_of_gt (two_pow_pos w))
    have : ((x.val % (2:Int) ^ w).toNat % 2 ^ 8 : Nat) = (x.val % (2:Int)^w % (2:Int)^8).toNat := by
      rw [Int.toNat_emod hnn (by decide)]; rfl
    rw [this, h1]; rfl
  have hlt : (x.val % 256).toNat < 256 := by
    have := Int.emod_lt_of_pos x.val (show (0:Int) < 256 by decide)
    have := Int.emod_nonneg x.val (show (256:Int) ≠ 0 by decide)
    omega
  have hnn := Int.emod_nonneg x.val (show (256:Int) ≠ 0 by decide)
  unfold valueAt
  split
  · rw [BitVec.toInt_eq_toNat_of_lt, hnat]
    · omega
    · rw [hnat]
      have : 2 ^ 9 ≤ 2 ^ w := Nat.pow_le_pow_right (by decide) (by omega)
      omega
  · rw [hnat]; omega

/-! ## masked bits -/

theorem masked_eq_iff {w : Nat} (e a m : BitVec w) :
    (e &&& m) = (a &&& m) ↔ ∀ i, i < w → m.getLsbD i = true → e.getLsbD i = a.getLsbD i := by
  constructor
  · intro h i _ hm
    have := congrArg (fun x => BitVec.getLsbD x i) h
    simp only [BitVec.getLsbD_and, hm, Bool.and_true] at this
    exact this
  · intro h
    apply BitVec.eq_of_getLsbD_eq
    intro i hi
    simp only [BitVec.getLsbD_and]
    cases hm : m.getLsbD i
    · simp
    · simp [h i hi hm]

/-! ## strings -/

theorem cmp_eq_zero_iff : ∀ (a b : Bytes), NulFree a → NulFree b → (Text.cmp a b = 0 ↔ a = b)
  | [], [], _, _ => by simp [Text.cmp]
  | [], y :: ys, _, hb => by
    have : y ≠ 0 := hb y (by simp)
    have h2 : y.toNat ≠ 0 := fun h => this (UInt8.toNat_inj.mp (by simpa using h))
    simp [Text.cmp]; omega
  | x :: xs, [], ha, _ => by
    have : x ≠ 0 := ha x (by simp)
    have h2 : x.toNat ≠ 0 := fun h => this (UInt8.toNat_inj.mp (by simpa using h))
    simp [Text.cmp]; omega
  | x :: xs, y :: ys, ha, hb => by
    unfold Text.cmp
    split
    · next h =>
      subst h
      have ih := cmp_eq_zero_iff xs ys (fun c hc => ha c (by simp [hc])) (fun c hc => hb c (by simp [hc]))
      simp [ih]
    · next h =>
      have h2 : x.toNat ≠ y.toNat := fun e => h (UInt8.toNat_inj.mp e)
      simp [h]; omega

theorem ncmp_eq_zero_iff : ∀ (n : Nat) (a b : Bytes), NulFree a → NulFree b →
    (Text.ncmp n a b = 0 ↔ a.take n = b.take n)
  | 0, _, _, _, _ => by simp [Text.ncmp]
  | n + 1, [], [], _, _ => by simp [Text.ncmp]
  | n + 1, [], y :: ys, _, hb => by
    have : y ≠ 0 := hb y (by simp)
    have h2 : y.toNat ≠ 0 := fun h => this (UInt8.toNat_inj.mp (by simpa using h))
    simp [Text.ncmp]; omega
  | n + 1, x :: xs, [], ha, _ => by
    have : x ≠ 0 := ha x (by simp)
    have h2 : x.toNat ≠ 0 := fun h => this (UInt8.toNat_inj.mp (by simpa using h))
    simp [Text.ncmp]; omega
  | n + 1, x :: xs, y :: ys, ha, hb => by
    unfold Text.ncmp
    split
    · next h =>
      subst h
      have ih := ncmp_eq_zero_iff n xs ys (fun c hc => ha c (by simp [hc])) (fun c hc => hb c (by simp [hc]))
      simp [ih]
    · next h =>
      have h2 : x.toNat ≠ y.toNat := fun e => h (UInt8.toNat_inj.mp e)
      simp [h]; omega

theorem isInfix_iff : ∀ (a b : Bytes), Text.isInfix a b = true ↔ b <:+: a
  | [], b => by
    simp [Text.isInfix, List.infix_nil]
  | x :: t, b => by
    have ih := isInfix_iff t b
    unfold Text.isInfix
    rw [Bool.or_eq_true, List.isPrefixOf_iff_prefix, ih, List.infix_cons_iff]

theorem memCmp_eq_zero_iff : ∀ (n : Nat) (a b : Bytes), n ≤ a.length → n ≤ b.length →
    (memCmp n a b = 0 ↔ a.take n = b.take n)
  | 0, _, _, _, _ => by simp [memCmp]
  | n + 1, [], _, ha, _ => by simp at ha
  | n + 1, _ :: _, [], _, hb => by simp at hb
  | n + 1, x :: xs, y :: ys, ha, hb => by
    unfold memCmp
    split
    · next h =>
      have h2 : x.toNat ≠ y.toNat := fun e => h (UInt8.toNat_inj.mp e)
      simp [h]; omega
    · next h =>
      have h' : x = y := by simpa using h
      subst h'
      have ih := memCmp_eq_zero_iff n xs ys (by simpa using ha) (by simpa using hb)
      simp [ih]

/-! ## usual arithmetic conversions keep representable values -/

theorem pow_mono_int {w w' : Nat} (h : w ≤ w') : (2 : Int) ^ w ≤ (2 : Int) ^ w' := by
  have : (2 : Nat) ^ w ≤ 2 ^ w' := Nat.pow_le_pow_right (by decide) h
  have h2 : ((2 ^ w : Nat) : Int) ≤ ((2 ^ w' : Nat) : Int) := Int.ofNat_le.mpr this
  simpa [Int.natCast_pow] using h2

theorem inRange_signed_mono {w w' : Nat} (h : w ≤ w') (v : Int)
    (hv : InRange ⟨w, true⟩ v) : InRange ⟨w', true⟩ v := by
  simp only [InRange] at *
  have := pow_mono_int (show w - 1 ≤ w' - 1 by omega)
  simp at hv ⊢
  omega

theorem inRange_unsigned_mono {w w' : Nat} (h : w ≤ w') (v : Int)
    (hv : InRange ⟨w, false⟩ v) : InRange ⟨w', false⟩ v := by
  simp only [InRange] at *
  have := pow_mono_int h
  simp at hv ⊢
  omega

theorem inRange_unsigned_to_signed {w w' : Nat} (h : w < w') (v : Int)
    (hv : InRange ⟨w, false⟩ v) : InRange ⟨w', true⟩ v := by
  simp only [InRange] at *
  have := pow_mono_int (show w ≤ w' - 1 by omega)
  have := two_pow_pos (w' - 1)
  simp at hv ⊢
  omega

theorem inRange_nonneg_signed_to_unsigned {w w' : Nat} (h : w ≤ w') (v : Int) (h0 : 0 ≤ v)
    (hv : InRange ⟨w, true⟩ v) : InRange ⟨w', false⟩ v := by
  simp only [InRange] at *
  have := pow_mono_int (show w - 1 ≤ w' by omega)
  simp at hv ⊢
  omega

theorem inRange_promote (t : CTy) (v : Int) (hv : InRange t v) : InRange (promote t) v := by
  unfold promote
  split
  · next h =>
    obtain ⟨w, s⟩ := t
    cases s
    · exact inRange_unsigned_to_signed (show w < 32 from h) v hv
    · exact inRange_signed_mono (show w ≤ 32 by simp at h; omega) v hv
  · exact hv

/-- after the usual arithmetic conversions both operands still have their mathematical values
    when the promoted types have the same signedness, or when both values are non-negative -/
theorem inRange_commonPromoted (t u : CTy) (x y : Int) (hx : InRange t x) (hy : InRange u y)
    (h : t.signed = u.signed ∨ (0 ≤ x ∧ 0 ≤ y)) :
    InRange (commonPromoted t u) x ∧ InRange (commonPromoted t u) y := by
  obtain ⟨wt, st⟩ := t
  obtain ⟨wu, su⟩ := u
  unfold commonPromoted
  cases st <;> cases su <;> simp only [] at *
  · -- both unsigned
    simp
    exact ⟨inRange_unsigned_mono (Nat.le_max_left _ _) x hx, inRange_unsigned_mono (Nat.le_max_right _ _) y hy⟩
  · -- t unsigned, u signed
    have h0 : 0 ≤ x ∧ 0 ≤ y := by
      rcases h with h | h
      · simp at h
      · exact h
    simp
    split
    · next hw => exact ⟨inRange_unsigned_mono (Nat.le_refl _) x hx, inRange_nonneg_signed_to_unsigned hw y h0.2 hy⟩
    · next hw => exact ⟨inRange_unsigned_to_signed (by omega) x hx, hy⟩
  · -- t signed, u unsigned
    have h0 : 0 ≤ x ∧ 0 ≤ y := by
      rcases h with h | h
      · simp at h
      · exact h
    simp
    split
    · next hw => exact ⟨inRange_nonneg_signed_to_unsigned hw x h0.1 hx, hy⟩
    · next hw => exact ⟨hx, inRange_unsigned_to_signed (by omega) y hy⟩
  · -- both signed
    simp
    exact ⟨inRange_signed_mono (Nat.le_max_left _ _) x hx, inRange_signed_mono (Nat.le_max_right _ _) y hy⟩

theorem inRange_common (e a : CInt) (he : InRange e.ty e.val) (ha : InRange a.ty a.val)
    (h : (promote e.ty).signed = (promote a.ty).signed ∨ (0 ≤ e.val ∧ 0 ≤ a.val)) :
    InRange (common e.ty a.ty) e.val ∧ InRange (common e.ty a.ty) a.val :=
  inRange_commonPromoted (promote e.ty) (promote a.ty) e.val a.val
    (inRange_promote _ _ he) (inRange_promote _ _ ha) h

/-! ## values of bit patterns: the bridge between the typed (`BitVec`) regenerated macro expansions and the model's
    mathematical operands -/

theorem setWidth_eq_iff {w v : Nat} (h : w ≤ v) (x y : BitVec w) :
    x.setWidth v = y.setWidth v ↔ x = y := zeroExtend_eq_iff h x y

theorem signExtend_bne_iff {w v : Nat} (h : w ≤ v) (x y : BitVec w) :
    (x.signExtend v != y.signExtend v) = (x != y) := by
  by_cases e : x = y
  · subst e; simp
  · have : x.signExtend v ≠ y.signExtend v := fun q => e ((signExtend_eq_iff h x y).mp q)
    have h1 : (x != y) = true := by simpa using e
    have h2 : (x.signExtend v != y.signExtend v) = true := by simpa using this
    rw [h1, h2]

theorem setWidth_bne_iff {w v : Nat} (h : w ≤ v) (x y : BitVec w) :
    (x.setWidth v != y.setWidth v) = (x != y) := by
  by_cases e : x = y
  · subst e; simp
  · have : x.setWidth v ≠ y.setWidth v := fun q => e ((setWidth_eq_iff h x y).mp q)
    have h1 : (x != y) = true := by simpa using e
    have h2 : (x.setWidth v != y.setWidth v) = true := by simpa using this
    rw [h1, h2]

theorem conv_toInt {w : Nat} (n : Nat) (x : BitVec w) : conv n x.toInt = x.signExtend n := rfl

theorem conv_toNat {w : Nat} (n : Nat) (x : BitVec w) : conv n (x.toNat : Int) = x.setWidth n := by
  unfold conv
  rw [BitVec.ofInt_natCast]
  exact BitVec.ofNat_toNat n x

/-- `cppNe` with the width of the common type made explicit (the regenerated expansions carry a literal width) -/
theorem cppNe_w (e a : CInt) (W : Nat) (hW : (common e.ty a.ty).w = W) :
    cppNe e a = (conv W e.val != conv W a.val) := by
  subst hW; rfl

theorem andLit_w (x : CInt) (m W : Nat) (s : Bool) (hW : (common x.ty tyInt).w = W)
    (hs : (common x.ty tyInt).signed = s) :
    (andLit x m).val = valueAt s (conv W x.val &&& BitVec.ofNat W m) := by
  subst hW; subst hs; rfl

theorem conv_zero (n : Nat) : conv n 0 = 0#n := by simp [conv]

theorem seqO_nothing_left (x : Outcome) : seqO nothing x = x := by
  cases x; simp [seqO, nothing]

theorem toInt_bne_zero {n : Nat} (x : BitVec n) : (x.toInt != 0) = (x != 0#n) := by
  by_cases h : x = 0#n
  · subst h; simp
  · have : x.toInt ≠ 0 := fun hz => h (BitVec.toInt_inj.mp (by simpa using hz))
    have h2 : (x != 0#n) = true := by simpa using h
    rw [h2]; simpa using this

theorem toNat_bne_zero {n : Nat} (x : BitVec n) : ((x.toNat : Int) != 0) = (x != 0#n) := by
  by_cases h : x = 0#n
  · subst h; simp
  · have : x.toNat ≠ 0 := fun hz => h (BitVec.eq_of_toNat_eq (by simpa using hz))
    have h2 : (x != 0#n) = true := by simpa using h
    rw [h2]; simp; omega

theorem holds_lt_s {n : Nat} (x y : BitVec n) : RelOp.holds .lt x.toInt y.toInt = BitVec.slt x y := rfl
theorem holds_lt_u {n : Nat} (x y : BitVec n) : RelOp.holds .lt (x.toNat : Int) (y.toNat : Int) = BitVec.ult x y := by
  simp [RelOp.holds, BitVec.ult]
theorem holds_le_s {n : Nat} (x y : BitVec n) : RelOp.holds .le x.toInt y.toInt = BitVec.sle x y := rfl
theorem holds_le_u {n : Nat} (x y : BitVec n) : RelOp.holds .le (x.toNat : Int) (y.toNat : Int) = BitVec.ule x y := by
  simp [RelOp.holds, BitVec.ule]
theorem holds_gt_s {n : Nat} (x y : BitVec n) : RelOp.holds .gt x.toInt y.toInt = BitVec.slt y x := rfl
theorem holds_gt_u {n : Nat} (x y : BitVec n) : RelOp.holds .gt (x.toNat : Int) (y.toNat : Int) = BitVec.ult y x := by
  simp [RelOp.holds, BitVec.ult]
theorem holds_ge_s {n : Nat} (x y : BitVec n) : RelOp.holds .ge x.toInt y.toInt = BitVec.sle y x := rfl
theorem holds_ge_u {n : Nat} (x y : BitVec n) : RelOp.holds .ge (x.toNat : Int) (y.toNat : Int) = BitVec.ule y x := by
  simp [RelOp.holds, BitVec.ule]
theorem holds_eq_s {n : Nat} (x y : BitVec n) : RelOp.holds .eq x.toInt y.toInt = (x == y) := by
  by_cases h : x = y <;> simp [RelOp.holds, h, BitVec.toInt_inj]
theorem holds_eq_u {n : Nat} (x y : BitVec n) : RelOp.holds .eq (x.toNat : Int) (y.toNat : Int) = (x == y) := by
  by_cases h : x = y
  · simp [RelOp.holds, h]
  · have : (x.toNat : Int) ≠ (y.toNat : Int) := fun hz => h (BitVec.eq_of_toNat_eq (by omega))
    have h2 : (x == y) = false := by simpa using h
    rw [h2]; simp only [RelOp.holds]; exact decide_eq_false this
theorem holds_ne_s {n : Nat} (x y : BitVec n) : RelOp.holds .ne x.toInt y.toInt = (x != y) := by
  by_cases h : x = y <;> simp [RelOp.holds, h, BitVec.toInt_inj]
theorem holds_ne_u {n : Nat} (x y : BitVec n) : RelOp.holds .ne (x.toNat : Int) (y.toNat : Int) = (x != y) := by
  by_cases h : x = y
  · simp [RelOp.holds, h]
  · have : (x.toNat : Int) ≠ (y.toNat : Int) := fun hz => h (BitVec.eq_of_toNat_eq (by omega))
    have h2 : (x != y) = true := by simpa using h
    rw [h2]; simp only [RelOp.holds]; exact decide_eq_true this

end Asserts
