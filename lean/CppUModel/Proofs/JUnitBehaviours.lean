import CppUModel.Proofs.JUnitLoop
/-!
Helper lemmas for C16, part 4: three behaviours of the code that are not violations of the property
but are worth stating exactly — when two groups get the same file name, that the captured output is
never reset between groups, and what is written for a group none of whose tests runs.
-/
set_option linter.unusedSimpArgs false
namespace JUnit
open Text (Bytes)
open OutEv

/-! ## file names -/

theorem sanitize_append (a b : Bytes) : sanitize (a ++ b) = sanitize a ++ sanitize b := by simp [sanitize]

theorem sanitize_length (a : Bytes) : (sanitize a).length = a.length := by simp [sanitize]

theorem expectedFileName_eq_iff (p g1 g2 : Bytes) :
    expectedFileName p g1 = expectedFileName p g2 ↔ sanitize g1 = sanitize g2 := by
  unfold expectedFileName
  simp only [sanitize_append]
  constructor
  · intro h
    exact List.append_cancel_left (List.append_cancel_right h)
  · intro h; rw [h]

/-! ## the captured output is never reset -/

theorem crashed_sticky : ∀ (evs : List Ev) (s : St), s.crashed = true → (stFrom s evs).crashed = true
  | [], s, h => h
  | e :: es, s, h => by
    rw [stFrom_cons]
    have : (step s e).1 = s := by simp [step, h]
    rw [this]; exact crashed_sticky es s h

theorem step_stdOutput (s : St) (e : Ev) (hc : s.crashed = false) :
    (step s e).1.stdOutput = s.stdOutput ++ evsPrinted [e] := by
  cases e with
  | print x => simp [step, hc, evsPrinted]
  | failure f =>
    simp only [step, hc, Bool.false_eq_true, if_false, onFailure, evsPrinted, List.append_nil]
    cases hn : s.nodesRev with
    | nil => rfl
    | cons n rest => simp only []; cases n.failure <;> rfl
  | testEnded ms c =>
    simp only [step, hc, Bool.false_eq_true, if_false, onTestEnded, evsPrinted, List.append_nil]
    cases hn : s.nodesRev <;> rfl
  | testRun i n => simp [step, hc, evsPrinted]
  | testsStarted => simp [step, hc, evsPrinted]
  | groupStarted t => simp [step, hc, evsPrinted]
  | testStarted t => simp [step, hc, evsPrinted, onTestStarted]
  | veryVerbose x => simp [step, hc, evsPrinted]
  | groupEnded ms => simp [step, hc, evsPrinted, onGroupEnded, reset_eq]
  | testsEnded sm => simp [step, hc, evsPrinted]

theorem evsPrinted_cons (e : Ev) (es : List Ev) : evsPrinted (e :: es) = evsPrinted [e] ++ evsPrinted es := by
  cases e <;> simp [evsPrinted]

/-- as long as the collector has not crashed, its captured output is everything printed so far -/
theorem stdOutput_after : ∀ (evs : List Ev) (s : St), (stFrom s evs).crashed = false →
    (stFrom s evs).stdOutput = s.stdOutput ++ evsPrinted evs
  | [], s, _ => by simp [stFrom_nil, evsPrinted]
  | e :: es, s, h => by
    have hc : s.crashed = false := by
      cases hs : s.crashed with
      | false => rfl
      | true => rw [crashed_sticky (e :: es) s hs] at h; exact absurd h (by decide)
    rw [stFrom_cons] at h ⊢
    rw [stdOutput_after es _ h, step_stdOutput s e hc, evsPrinted_cons e es, List.append_assoc]

theorem not_crashed_prefix (a b : List Ev) (s : St) (h : (stFrom s (a ++ b)).crashed = false) :
    (stFrom s a).crashed = false := by
  cases hs : (stFrom s a).crashed with
  | false => rfl
  | true =>
    rw [stFrom_append, crashed_sticky b _ hs] at h
    exact absurd h (by decide)

end JUnit
