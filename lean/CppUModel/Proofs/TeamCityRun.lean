import CppUModel.Proofs.TeamCity
import CppUModel.Proofs.FailureCtorsName
/-!
Helper lemmas for C20, part 2: the message list of a run of the registry loop, piece by piece
(group start, one test, group end), for the balance automaton and for "failures name the open test".
-/
namespace TeamCity
open Text (Bytes)
open OutEv

def msgsFrom (s : St) (evs : List Ev) : List Msg := (foldEvents msgStep s evs).2
def stAfter (s : St) (evs : List Ev) : St := (foldEvents msgStep s evs).1

theorem msgsFrom_nil (s : St) : msgsFrom s [] = [] := rfl
theorem stAfter_nil (s : St) : stAfter s [] = s := rfl

theorem msgsFrom_cons (s : St) (e : Ev) (es : List Ev) :
    msgsFrom s (e :: es) = msgsOf s e ++ msgsFrom (step s e).1 es := rfl
theorem stAfter_cons (s : St) (e : Ev) (es : List Ev) :
    stAfter s (e :: es) = stAfter (step s e).1 es := rfl

theorem msgsFrom_append (s : St) (a b : List Ev) :
    msgsFrom s (a ++ b) = msgsFrom s a ++ msgsFrom (stAfter s a) b := by
  simp [msgsFrom, stAfter, foldEvents_append]

theorem stAfter_append (s : St) (a b : List Ev) :
    stAfter s (a ++ b) = stAfter (stAfter s a) b := by
  simp [stAfter, foldEvents_append]

/-! ## balance -/

theorem balRun_append (a b : List Msg) : ∀ p,
    balRun p (a ++ b) = (balRun p a).bind fun p' => balRun p' b := by
  induction a with
  | nil => intro p; simp [balRun]
  | cons m a ih =>
    intro p
    simp only [List.cons_append, balRun]
    cases balStep p m with
    | none => simp
    | some p' => simpa using ih p'

def runB (p : Phase) (s : St) (evs : List Ev) : Option Phase := balRun p (msgsFrom s evs)

theorem runB_append (p : Phase) (s : St) (a b : List Ev) :
    runB p s (a ++ b) = (runB p s a).bind fun p' => runB p' (stAfter s a) b := by
  simp [runB, msgsFrom_append, balRun_append]

theorem runB_nil (p : Phase) (s : St) : runB p s [] = some p := rfl

/-- what a running test sends between its start and its end: text (prints, the -vv progress trace)
    and failures that carry the test's name -/
def okEv (t : TestInfo) : Ev → Prop
  | .print _ => True
  | .veryVerbose _ => True
  | .failure f => f.testName = t.name
  | _ => False

def InnerOK (t : TestInfo) (l : List Ev) : Prop := ∀ e ∈ l, okEv t e

theorem InnerOK_append {t : TestInfo} {a b : List Ev} (ha : InnerOK t a) (hb : InnerOK t b) : InnerOK t (a ++ b) := by
  intro e he
  rcases List.mem_append.mp he with h | h
  · exact ha e h
  · exact hb e h

theorem InnerOK_cons {t : TestInfo} {e : Ev} {l : List Ev} (he : okEv t e) (hl : InnerOK t l) : InnerOK t (e :: l) := by
  intro x hx
  rcases List.mem_cons.mp hx with h | h
  · subst h; exact he
  · exact hl x h

theorem InnerOK_nil (t : TestInfo) : InnerOK t [] := by intro e he; simp at he

theorem InnerOK_acts (t : TestInfo) : ∀ acts, InnerOK t (actEvs t acts)
  | [] => InnerOK_nil t
  | .print _ _ _ :: as => InnerOK_cons trivial (InnerOK_acts t as)
  | .fail f l m :: as => InnerOK_cons (locMsgFailure_testName t f l m) (InnerOK_acts t as)
  | .failMsg m :: as => InnerOK_cons (msgFailure_testName t m) (InnerOK_acts t as)
  | .failLoc f l :: as => InnerOK_cons (locFailure_testName t f l) (InnerOK_acts t as)
  | .failExit f l m :: _ => InnerOK_cons (exitFailure_testName t f l m) (InnerOK_nil t)
  | .postFail _ :: as => InnerOK_acts t as
  | .checks _ :: as => InnerOK_acts t as
  | .tick _ :: as => InnerOK_acts t as

theorem InnerOK_post (t : TestInfo) : ∀ acts, InnerOK t (postEvs t acts)
  | [] => InnerOK_nil t
  | .postFail m :: as => InnerOK_cons (msgFailure_testName t m) (InnerOK_post t as)
  | .print _ _ _ :: as => InnerOK_post t as
  | .fail _ _ _ :: as => InnerOK_post t as
  | .failExit _ _ _ :: as => InnerOK_post t as
  | .failMsg _ :: as => InnerOK_post t as
  | .failLoc _ _ :: as => InnerOK_post t as
  | .checks _ :: as => InnerOK_post t as
  | .tick _ :: as => InnerOK_post t as

theorem InnerOK_trace (t : TestInfo) (acts : List Act) :
    InnerOK t traceBefore ∧ InnerOK t (traceBetween acts) ∧ InnerOK t traceAfter := by
  refine ⟨?_, ?_, ?_⟩
  · intro e he; simp [traceBefore, vv] at he; rcases he with h | h | h | h | h | h | h | h <;> subst h <;> trivial
  · intro e he
    unfold traceBetween at he
    split at he <;> simp [vv] at he
    · rcases he with h | h | h | h | h | h <;> subst h <;> trivial
    · rcases he with h | h | h | h | h | h | h <;> subst h <;> trivial
  · intro e he; simp [traceAfter, vv] at he; subst he; trivial

theorem InnerOK_testInner (t : TestInfo) (acts : List Act) : InnerOK t (testInner t acts) := by
  obtain ⟨h1, h2, h3⟩ := InnerOK_trace t acts
  exact InnerOK_append h1 (InnerOK_append (InnerOK_acts t acts) (InnerOK_append h2 (InnerOK_append (InnerOK_post t acts) h3)))

/-- such events keep the test open and do not touch the writer's state -/
theorem inner_keeps_open (t : TestInfo) (g : Bytes) : ∀ (l : List Ev) (s : St), InnerOK t l →
    runB (.inTest g t.name) s l = some (.inTest g t.name) ∧ stAfter s l = s
  | [], s, _ => ⟨rfl, rfl⟩
  | e :: es, s, h => by
    have he : okEv t e := h e (List.mem_cons_self ..)
    have ih := inner_keeps_open t g es s (fun x hx => h x (List.mem_cons_of_mem _ hx))
    cases e with
    | print x =>
      simp only [runB, msgsFrom_cons, stAfter_cons, msgsOf, step_eq_hand, stepHand, List.cons_append, List.nil_append, balRun, balStep]
      exact ih
    | veryVerbose x =>
      cases hv : s.veryVerbose <;>
        simp only [runB, msgsFrom_cons, stAfter_cons, msgsOf, step_eq_hand, stepHand, hv, Bool.false_eq_true, if_false, if_true,
          List.cons_append, List.nil_append, balRun, balStep] <;> exact ih
    | failure f =>
      have hf : f.testName = t.name := he
      simp only [runB, msgsFrom_cons, stAfter_cons, msgsOf, step_eq_hand, stepHand, List.cons_append, List.nil_append, balRun, balStep, hf,
        if_true]
      exact ih
    | testRun _ _ => exact absurd he (by simp [okEv])
    | testsStarted => exact absurd he (by simp [okEv])
    | groupStarted _ => exact absurd he (by simp [okEv])
    | testStarted _ => exact absurd he (by simp [okEv])
    | testEnded _ _ => exact absurd he (by simp [okEv])
    | groupEnded _ => exact absurd he (by simp [okEv])
    | testsEnded _ => exact absurd he (by simp [okEv])

/-- one test (started, body, ended) inside an open suite leaves the suite open -/
theorem test_keeps_suite (sc : Script) (r : R) (s : St) (g : Bytes) (hg : s.currGroup = g) :
    runB (.inSuite g) s (testEvs sc r) = some (.inSuite g) ∧ (stAfter s (testEvs sc r)).currGroup = g := by
  unfold testEvs
  cases hw : sc.info.willRun
  · simp [runB, msgsFrom_cons, msgsFrom_nil, stAfter_cons, stAfter_nil, msgsOf, step_eq_hand, stepHand, balRun, balStep, hw, hg]
  · simp only [if_true]
    have ha := inner_keeps_open sc.info g (testInner sc.info sc.acts) { s with currTest := some sc.info.name }
      (InnerOK_testInner _ _)
    have h1 : runB (.inSuite g) s [Ev.testStarted sc.info] = some (.inTest g sc.info.name) := by
      simp [runB, msgsFrom_cons, msgsFrom_nil, msgsOf, hw, balRun, balStep]
    have h2 : stAfter s [Ev.testStarted sc.info] = { s with currTest := some sc.info.name } := by
      simp [stAfter_cons, stAfter_nil, step_eq_hand, stepHand]
    constructor
    · show runB (.inSuite g) s ([Ev.testStarted sc.info] ++ (testInner sc.info sc.acts ++ [Ev.testEnded _ _])) = _
      rw [runB_append, h1, h2, Option.bind_some, runB_append, ha.1, ha.2, Option.bind_some]
      simp [runB, msgsFrom_cons, msgsFrom_nil, msgsOf, balRun, balStep]
    · show (stAfter s ([Ev.testStarted sc.info] ++ (testInner sc.info sc.acts ++ [Ev.testEnded _ _]))).currGroup = g
      rw [stAfter_append, stAfter_append, h2, ha.2]
      simp [stAfter_cons, stAfter_nil, step_eq_hand, stepHand, hg]

theorem body_keeps_suite (flt : Option Filter) (sc : Script) (r : R) (s : St) (g : Bytes) (hg : s.currGroup = g) :
    runB (.inSuite g) s (bodyEvs flt sc r) = some (.inSuite g) ∧ (stAfter s (bodyEvs flt sc r)).currGroup = g := by
  unfold bodyEvs
  split
  · exact test_keeps_suite sc _ s g hg
  · exact ⟨rfl, hg⟩

/-- the loop invariant: between groups nothing is open; inside a group its suite is open, is the
    writer's current group, is not the empty name, and the next test belongs to it -/
def LoopInv (gs : Bool) (s : St) (p : Phase) (tests : List Script) : Prop :=
  (gs = true ∧ p = .idle) ∨
  (gs = false ∧ p = .inSuite s.currGroup ∧ ∃ t rest, tests = t :: rest ∧ t.info.group = s.currGroup)

theorem loop_balanced (flt : Option Filter) : ∀ (tests : List Script) (gs : Bool) (g0 : Nat) (r : R) (s : St) (p : Phase),
    (∀ t ∈ tests, t.info.group ≠ []) → LoopInv gs s p tests →
    runB p s (loop flt gs g0 r tests) = some .idle
  | [], gs, g0, r, s, p, _, inv => by
    rcases inv with ⟨_, hp⟩ | ⟨_, _, t, rest, h, _⟩
    · subst hp; simp [loop, runB, msgsFrom_cons, msgsFrom_nil, msgsOf, balRun, balStep]
    · cases h
  | t :: rest, gs, g0, r, s, p, hne, inv => by
    have hgne : t.info.group ≠ [] := hne t (List.mem_cons_self ..)
    -- after the (possible) group start the suite of `t` is open and is the current group
    have hstart : runB p s (startEvs gs t) = some (.inSuite t.info.group) ∧
        (stAfter s (startEvs gs t)).currGroup = t.info.group := by
      rcases inv with ⟨hgs, hp⟩ | ⟨hgs, hp, t', rest', h, hg⟩
      · subst hgs; subst hp
        simp [startEvs, runB, msgsFrom_cons, msgsFrom_nil, stAfter_cons, stAfter_nil, msgsOf, step_eq_hand, stepHand, balRun, balStep]
      · subst hgs
        cases h
        simp [startEvs, runB_nil, stAfter_nil, hp, hg]
    have hbody := body_keeps_suite flt t r (stAfter s (startEvs gs t)) t.info.group hstart.2
    simp only [loop]
    rw [List.append_assoc, List.append_assoc, runB_append, hstart.1, Option.bind_some, runB_append, hbody.1, Option.bind_some,
      runB_append]
    -- state after start and body
    generalize hs2 : stAfter (stAfter s (startEvs gs t)) (bodyEvs flt t r) = s2 at hbody ⊢
    have hcg : s2.currGroup = t.info.group := hbody.2
    unfold endEvs
    cases he : endOfGroup t rest
    · -- the group goes on
      simp only [Bool.false_eq_true, if_false, runB_nil, stAfter_nil, Option.bind_some]
      apply loop_balanced flt rest false _ _ s2 _ (fun x hx => hne x (List.mem_cons_of_mem _ hx))
      right
      refine ⟨rfl, by rw [hcg], ?_⟩
      cases rest with
      | nil => simp [endOfGroup] at he
      | cons n rest' =>
        refine ⟨n, rest', rfl, ?_⟩
        simp only [endOfGroup, bne_eq_false_iff_eq] at he
        rw [hcg]; exact he.symm
    · -- the group ends here
      have h1 : runB (.inSuite t.info.group) s2 [Ev.groupEnded ((bodyR flt t r).clock - if gs = true then r.clock else g0)] =
          some .idle := by
        simp [runB, msgsFrom_cons, msgsFrom_nil, msgsOf, balRun, balStep, hcg, hgne]
      simp only [if_true, h1, Option.bind_some]
      apply loop_balanced flt rest true _ _ _ _ (fun x hx => hne x (List.mem_cons_of_mem _ hx))
      left; exact ⟨rfl, rfl⟩

/-! ## failures name the open test -/

/-- the open test after a message list -/
def openAfter : Option Bytes → List Msg → Option Bytes
  | cur, [] => cur
  | _, .testStarted t :: ms => openAfter (some t) ms
  | _, .testFinished _ _ :: ms => openAfter none ms
  | cur, _ :: ms => openAfter cur ms

theorem failuresInOpenTest_append (a b : List Msg) : ∀ cur,
    failuresInOpenTest cur (a ++ b) = (failuresInOpenTest cur a && failuresInOpenTest (openAfter cur a) b) := by
  induction a with
  | nil => intro cur; simp [failuresInOpenTest, openAfter]
  | cons m a ih =>
    intro cur
    cases m <;> simp [failuresInOpenTest, openAfter, ih, Bool.and_assoc]

theorem openAfter_append (a b : List Msg) : ∀ cur,
    openAfter cur (a ++ b) = openAfter (openAfter cur a) b := by
  induction a with
  | nil => intro cur; rfl
  | cons m a ih => intro cur; cases m <;> simp [openAfter, ih]

theorem inner_failures_open (t : TestInfo) : ∀ (l : List Ev) (s : St), InnerOK t l →
    failuresInOpenTest (some t.name) (msgsFrom s l) = true ∧ openAfter (some t.name) (msgsFrom s l) = some t.name
  | [], s, _ => by simp [msgsFrom_nil, failuresInOpenTest, openAfter]
  | e :: es, s, h => by
    have he : okEv t e := h e (List.mem_cons_self ..)
    have hst : stAfter s [e] = s := (inner_keeps_open t [] [e] s (fun x hx => by
      have : x = e := by simpa using hx
      subst this; exact he)).2
    have ih := inner_failures_open t es s (fun x hx => h x (List.mem_cons_of_mem _ hx))
    have hsplit : msgsFrom s (e :: es) = msgsFrom s [e] ++ msgsFrom s es := by
      have := msgsFrom_append s [e] es
      rw [hst] at this; simpa using this
    rw [hsplit, failuresInOpenTest_append, openAfter_append]
    cases e with
    | print x => simpa [msgsFrom_cons, msgsFrom_nil, msgsOf, failuresInOpenTest, openAfter] using ih
    | veryVerbose x =>
      cases hv : s.veryVerbose <;> simpa [msgsFrom_cons, msgsFrom_nil, msgsOf, hv, failuresInOpenTest, openAfter] using ih
    | failure f =>
      have hf : f.testName = t.name := he
      simpa [msgsFrom_cons, msgsFrom_nil, msgsOf, failuresInOpenTest, openAfter, hf] using ih
    | testRun _ _ => exact absurd he (by simp [okEv])
    | testsStarted => exact absurd he (by simp [okEv])
    | groupStarted _ => exact absurd he (by simp [okEv])
    | testStarted _ => exact absurd he (by simp [okEv])
    | testEnded _ _ => exact absurd he (by simp [okEv])
    | groupEnded _ => exact absurd he (by simp [okEv])
    | testsEnded _ => exact absurd he (by simp [okEv])

theorem test_failures_open (sc : Script) (r : R) (s : St) (cur : Option Bytes) :
    failuresInOpenTest cur (msgsFrom s (testEvs sc r)) = true := by
  unfold testEvs
  cases hw : sc.info.willRun
  · simp [msgsFrom_cons, msgsFrom_nil, msgsOf, step_eq_hand, stepHand, hw, failuresInOpenTest]
  · simp only [if_true]
    have hok := InnerOK_testInner sc.info sc.acts
    have ha := inner_failures_open sc.info (testInner sc.info sc.acts) { s with currTest := some sc.info.name } hok
    have hst := (inner_keeps_open sc.info [] (testInner sc.info sc.acts) { s with currTest := some sc.info.name } hok).2
    show failuresInOpenTest cur (msgsFrom s ([Ev.testStarted sc.info] ++ (testInner sc.info sc.acts ++ [Ev.testEnded _ _]))) = _
    rw [msgsFrom_append, msgsFrom_append]
    have h2 : stAfter s [Ev.testStarted sc.info] = { s with currTest := some sc.info.name } := by
      simp [stAfter_cons, stAfter_nil, step_eq_hand, stepHand]
    have h1 : msgsFrom s [Ev.testStarted sc.info] = [.testStarted sc.info.name] := by
      simp [msgsFrom_cons, msgsFrom_nil, msgsOf, hw]
    rw [h2, h1, hst, failuresInOpenTest_append, failuresInOpenTest_append]
    simp only [failuresInOpenTest, openAfter, ha.1, ha.2, Bool.true_and]
    simp [msgsFrom_cons, msgsFrom_nil, msgsOf, failuresInOpenTest]

theorem loop_failures_open (flt : Option Filter) : ∀ (tests : List Script) (gs : Bool) (g0 : Nat) (r : R) (s : St)
    (cur : Option Bytes), failuresInOpenTest cur (msgsFrom s (loop flt gs g0 r tests)) = true
  | [], gs, g0, r, s, cur => by simp [loop, msgsFrom_cons, msgsFrom_nil, msgsOf, failuresInOpenTest]
  | t :: rest, gs, g0, r, s, cur => by
    simp only [loop]
    rw [List.append_assoc, List.append_assoc, msgsFrom_append, msgsFrom_append, msgsFrom_append,
      failuresInOpenTest_append, failuresInOpenTest_append, failuresInOpenTest_append]
    have hstart : ∀ c, failuresInOpenTest c (msgsFrom s (startEvs gs t)) = true := by
      intro c; unfold startEvs; split <;> simp [msgsFrom_cons, msgsFrom_nil, msgsOf, failuresInOpenTest]
    have hbody : ∀ c s', failuresInOpenTest c (msgsFrom s' (bodyEvs flt t r)) = true := by
      intro c s'; unfold bodyEvs; split
      · exact test_failures_open t _ s' c
      · simp [msgsFrom_nil, failuresInOpenTest]
    have hend : ∀ c s' g r', failuresInOpenTest c (msgsFrom s' (endEvs t rest g r')) = true := by
      intro c s' g r'; unfold endEvs; split
      · by_cases h : s'.currGroup = []
        · simp [msgsFrom_cons, msgsFrom_nil, msgsOf, h, failuresInOpenTest]
        · simp [msgsFrom_cons, msgsFrom_nil, msgsOf, h, failuresInOpenTest]
      · simp [msgsFrom_nil, failuresInOpenTest]
    rw [hstart, hbody, hend, loop_failures_open flt rest]
    rfl

end TeamCity
