import CppUModel.Proofs.TeamCity
import CppUModel.Proofs.FailureCtorsName
/-!
Helper lemmas for C20, part 2: the message list of a run of the registry loop, piece by piece
(group start, one test, group end), for the balance automaton and for "failures name the open test".
-/
namespace TeamCity
open Text (Bytes)
open OutEv

def msgsFrom (s : St) (evs : List Ev) : List Msg := (foldEvents msgStep s evs).2
def stAfter (s : St) (evs : List Ev) : St := (foldEvents msgStep s evs).1

theorem msgsFrom_nil (s : St) : msgsFrom s [] = [] := rfl
theorem stAfter_nil (s : St) : stAfter s [] = s := rfl

theorem msgsFrom_cons (s : St) (e : Ev) (es : List Ev) :
    msgsFrom s (e :: es) = msgsOf s e ++ msgsFrom (step s e).1 es := rfl
theorem stAfter_cons (s : St) (e : Ev) (es : List Ev) :
    stAfter s (e :: es) = stAfter (step s e).1 es := rfl

theorem msgsFrom_append (s : St) (a b : List Ev) :
    msgsFrom s (a ++ b) = msgsFrom s a ++ msgsFrom (stAfter s a) b := by
  simp [msgsFrom, stAfter, foldEvents_append]

theorem stAfter_append (s : St) (a b : List Ev) :
    stAfter s (a ++ b) = stAfter (stAfter s a) b := by
  simp [stAfter, foldEvents_append]

/-! ## balance -/

theorem balRun_append (a b : List Msg) : ∀ p,
    balRun p (a ++ b) = (balRun p a).bind fun p' => balRun p' b := by
  induction a with
  | nil => intro p; simp [balRun]
  | cons m a ih =>
    intro p
    simp only [List.cons_append, balRun]
    cases balStep p m with
    | none => simp
    | some p' => simpa using ih p'

def runB (p : Phase) (s : St) (evs : List Ev) : Option Phase := balRun p (msgsFrom s evs)

theorem runB_append (p : Phase) (s : St) (a b : List Ev) :
    runB p s (a ++ b) = (runB p s a).bind fun p' => runB p' (stAfter s a) b := by
  simp [runB, msgsFrom_append, balRun_append]

theorem runB_nil (p : Phase) (s : St) : runB p s [] = some p := rfl

/-- a failure that names the open test keeps it open and does not touch the writer's state -/
theorem failure_keeps_open (t : TestInfo) (g : Bytes) (f : Failure) (hf : f.testName = t.name) (es : List Ev) (s : St) :
    runB (.inTest g t.name) s (.failure f :: es) = runB (.inTest g t.name) s es ∧
    stAfter s (.failure f :: es) = stAfter s es := by
  simp [runB, msgsFrom_cons, stAfter_cons, msgsOf, step, balRun, balStep, hf]

/-- the body of a test: prints and failures keep the test open, the writer's state is not touched -/
theorem acts_keep_open (t : TestInfo) (g : Bytes) : ∀ (acts : List Act) (s : St),
    runB (.inTest g t.name) s (actEvs t acts) = some (.inTest g t.name) ∧ stAfter s (actEvs t acts) = s
  | [], s => by simp [actEvs, runB_nil, stAfter_nil]
  | .print f l x :: as, s => by
    have ih := acts_keep_open t g as s
    simp only [actEvs, runB, msgsFrom_cons, stAfter_cons, msgsOf, step, List.cons_append, List.nil_append, balRun, balStep]
    exact ih
  | .fail f l m :: as, s => by
    have h := failure_keeps_open t g _ (locMsgFailure_testName t f l m) (actEvs t as) s
    rw [actEvs, h.1, h.2]; exact acts_keep_open t g as s
  | .failMsg m :: as, s => by
    have h := failure_keeps_open t g _ (msgFailure_testName t m) (actEvs t as) s
    rw [actEvs, h.1, h.2]; exact acts_keep_open t g as s
  | .failLoc f l :: as, s => by
    have h := failure_keeps_open t g _ (locFailure_testName t f l) (actEvs t as) s
    rw [actEvs, h.1, h.2]; exact acts_keep_open t g as s
  | .failExit f l m :: _, s => by
    have h := failure_keeps_open t g _ (exitFailure_testName t f l m) [] s
    rw [actEvs, h.1, h.2]; exact ⟨rfl, rfl⟩
  | .postFail _ :: as, s => by simpa [actEvs] using acts_keep_open t g as s
  | .checks _ :: as, s => by simpa [actEvs] using acts_keep_open t g as s
  | .tick _ :: as, s => by simpa [actEvs] using acts_keep_open t g as s

/-- the plugin's post-test failures name the open test as well -/
theorem post_keep_open (t : TestInfo) (g : Bytes) : ∀ (acts : List Act) (s : St),
    runB (.inTest g t.name) s (postEvs t acts) = some (.inTest g t.name) ∧ stAfter s (postEvs t acts) = s
  | [], s => by simp [postEvs, runB_nil, stAfter_nil]
  | .postFail m :: as, s => by
    have h := failure_keeps_open t g _ (msgFailure_testName t m) (postEvs t as) s
    rw [postEvs, h.1, h.2]; exact post_keep_open t g as s
  | .print _ _ _ :: as, s => by simpa [postEvs] using post_keep_open t g as s
  | .fail _ _ _ :: as, s => by simpa [postEvs] using post_keep_open t g as s
  | .failExit _ _ _ :: as, s => by simpa [postEvs] using post_keep_open t g as s
  | .failMsg _ :: as, s => by simpa [postEvs] using post_keep_open t g as s
  | .failLoc _ _ :: as, s => by simpa [postEvs] using post_keep_open t g as s
  | .checks _ :: as, s => by simpa [postEvs] using post_keep_open t g as s
  | .tick _ :: as, s => by simpa [postEvs] using post_keep_open t g as s

/-- one test (started, body, ended) inside an open suite leaves the suite open -/
theorem test_keeps_suite (sc : Script) (r : R) (s : St) (g : Bytes) (hg : s.currGroup = g) :
    runB (.inSuite g) s (testEvs sc r) = some (.inSuite g) ∧ (stAfter s (testEvs sc r)).currGroup = g := by
  unfold testEvs
  cases hw : sc.info.willRun
  · simp [runB, msgsFrom_cons, msgsFrom_nil, stAfter_cons, stAfter_nil, msgsOf, step, balRun, balStep, hw, hg]
  · simp only [if_true]
    have ha := acts_keep_open sc.info g sc.acts { s with currTest := some sc.info.name }
    have hp := post_keep_open sc.info g sc.acts { s with currTest := some sc.info.name }
    constructor
    · show runB (.inSuite g) s ([Ev.testStarted sc.info] ++ (actEvs sc.info sc.acts ++ (postEvs sc.info sc.acts ++ [Ev.testEnded _ _]))) = _
      rw [runB_append]
      have h1 : runB (.inSuite g) s [Ev.testStarted sc.info] = some (.inTest g sc.info.name) := by
        simp [runB, msgsFrom_cons, msgsFrom_nil, msgsOf, hw, balRun, balStep]
      have h2 : stAfter s [Ev.testStarted sc.info] = { s with currTest := some sc.info.name } := by
        simp [stAfter_cons, stAfter_nil, step]
      rw [h1, h2, Option.bind_some, runB_append, ha.1, ha.2, Option.bind_some, runB_append, hp.1, hp.2, Option.bind_some]
      simp [runB, msgsFrom_cons, msgsFrom_nil, msgsOf, balRun, balStep]
    · show (stAfter s ([Ev.testStarted sc.info] ++ (actEvs sc.info sc.acts ++ (postEvs sc.info sc.acts ++ [Ev.testEnded _ _])))).currGroup = g
      rw [stAfter_append, stAfter_append, stAfter_append]
      have h2 : stAfter s [Ev.testStarted sc.info] = { s with currTest := some sc.info.name } := by
        simp [stAfter_cons, stAfter_nil, step]
      rw [h2, ha.2, hp.2]
      simp [stAfter_cons, stAfter_nil, step, hg]

theorem body_keeps_suite (flt : Option Filter) (sc : Script) (r : R) (s : St) (g : Bytes) (hg : s.currGroup = g) :
    runB (.inSuite g) s (bodyEvs flt sc r) = some (.inSuite g) ∧ (stAfter s (bodyEvs flt sc r)).currGroup = g := by
  unfold bodyEvs
  split
  · exact test_keeps_suite sc _ s g hg
  · exact ⟨rfl, hg⟩

/-- the loop invariant: between groups nothing is open; inside a group its suite is open, is the
    writer's current group, is not the empty name, and the next test belongs to it -/
def LoopInv (gs : Bool) (s : St) (p : Phase) (tests : List Script) : Prop :=
  (gs = true ∧ p = .idle) ∨
  (gs = false ∧ p = .inSuite s.currGroup ∧ ∃ t rest, tests = t :: rest ∧ t.info.group = s.currGroup)

theorem loop_balanced (flt : Option Filter) : ∀ (tests : List Script) (gs : Bool) (g0 : Nat) (r : R) (s : St) (p : Phase),
    (∀ t ∈ tests, t.info.group ≠ []) → LoopInv gs s p tests →
    runB p s (loop flt gs g0 r tests) = some .idle
  | [], gs, g0, r, s, p, _, inv => by
    rcases inv with ⟨_, hp⟩ | ⟨_, _, t, rest, h, _⟩
    · subst hp; simp [loop, runB, msgsFrom_cons, msgsFrom_nil, msgsOf, balRun, balStep]
    · cases h
  | t :: rest, gs, g0, r, s, p, hne, inv => by
    have hgne : t.info.group ≠ [] := hne t (List.mem_cons_self ..)
    -- after the (possible) group start the suite of `t` is open and is the current group
    have hstart : runB p s (startEvs gs t) = some (.inSuite t.info.group) ∧
        (stAfter s (startEvs gs t)).currGroup = t.info.group := by
      rcases inv with ⟨hgs, hp⟩ | ⟨hgs, hp, t', rest', h, hg⟩
      · subst hgs; subst hp
        simp [startEvs, runB, msgsFrom_cons, msgsFrom_nil, stAfter_cons, stAfter_nil, msgsOf, step, balRun, balStep]
      · subst hgs
        cases h
        simp [startEvs, runB_nil, stAfter_nil, hp, hg]
    have hbody := body_keeps_suite flt t r (stAfter s (startEvs gs t)) t.info.group hstart.2
    simp only [loop]
    rw [List.append_assoc, List.append_assoc, runB_append, hstart.1, Option.bind_some, runB_append, hbody.1, Option.bind_some,
      runB_append]
    -- state after start and body
    generalize hs2 : stAfter (stAfter s (startEvs gs t)) (bodyEvs flt t r) = s2 at hbody ⊢
    have hcg : s2.currGroup = t.info.group := hbody.2
    unfold endEvs
    cases he : endOfGroup t rest
    · -- the group goes on
      simp only [Bool.false_eq_true, if_false, runB_nil, stAfter_nil, Option.bind_some]
      apply loop_balanced flt rest false _ _ s2 _ (fun x hx => hne x (List.mem_cons_of_mem _ hx))
      right
      refine ⟨rfl, by rw [hcg], ?_⟩
      cases rest with
      | nil => simp [endOfGroup] at he
      | cons n rest' =>
        refine ⟨n, rest', rfl, ?_⟩
        simp only [endOfGroup, bne_eq_false_iff_eq] at he
        rw [hcg]; exact he.symm
    · -- the group ends here
      have h1 : runB (.inSuite t.info.group) s2 [Ev.groupEnded ((bodyR flt t r).clock - if gs = true then r.clock else g0)] =
          some .idle := by
        simp [runB, msgsFrom_cons, msgsFrom_nil, msgsOf, balRun, balStep, hcg, hgne]
      simp only [if_true, h1, Option.bind_some]
      apply loop_balanced flt rest true _ _ _ _ (fun x hx => hne x (List.mem_cons_of_mem _ hx))
      left; exact ⟨rfl, rfl⟩

/-! ## failures name the open test -/

/-- the open test after a message list -/
def openAfter : Option Bytes → List Msg → Option Bytes
  | cur, [] => cur
  | _, .testStarted t :: ms => openAfter (some t) ms
  | _, .testFinished _ _ :: ms => openAfter none ms
  | cur, _ :: ms => openAfter cur ms

theorem failuresInOpenTest_append (a b : List Msg) : ∀ cur,
    failuresInOpenTest cur (a ++ b) = (failuresInOpenTest cur a && failuresInOpenTest (openAfter cur a) b) := by
  induction a with
  | nil => intro cur; simp [failuresInOpenTest, openAfter]
  | cons m a ih =>
    intro cur
    cases m <;> simp [failuresInOpenTest, openAfter, ih, Bool.and_assoc]

theorem openAfter_append (a b : List Msg) : ∀ cur,
    openAfter cur (a ++ b) = openAfter (openAfter cur a) b := by
  induction a with
  | nil => intro cur; rfl
  | cons m a ih => intro cur; cases m <;> simp [openAfter, ih]

theorem failure_in_open (t : TestInfo) (f : Failure) (hf : f.testName = t.name) (es : List Ev) (s : St) :
    failuresInOpenTest (some t.name) (msgsFrom s (.failure f :: es)) = failuresInOpenTest (some t.name) (msgsFrom s es) ∧
    openAfter (some t.name) (msgsFrom s (.failure f :: es)) = openAfter (some t.name) (msgsFrom s es) := by
  simp [msgsFrom_cons, msgsOf, step, failuresInOpenTest, openAfter, hf]

theorem acts_failures_open (t : TestInfo) : ∀ (acts : List Act) (s : St),
    failuresInOpenTest (some t.name) (msgsFrom s (actEvs t acts)) = true ∧
    openAfter (some t.name) (msgsFrom s (actEvs t acts)) = some t.name
  | [], s => by simp [actEvs, msgsFrom_nil, failuresInOpenTest, openAfter]
  | .print f l x :: as, s => by
    simpa [actEvs, msgsFrom_cons, msgsOf, step, failuresInOpenTest, openAfter] using acts_failures_open t as s
  | .fail f l m :: as, s => by
    have h := failure_in_open t _ (locMsgFailure_testName t f l m) (actEvs t as) s
    rw [actEvs, h.1, h.2]; exact acts_failures_open t as s
  | .failMsg m :: as, s => by
    have h := failure_in_open t _ (msgFailure_testName t m) (actEvs t as) s
    rw [actEvs, h.1, h.2]; exact acts_failures_open t as s
  | .failLoc f l :: as, s => by
    have h := failure_in_open t _ (locFailure_testName t f l) (actEvs t as) s
    rw [actEvs, h.1, h.2]; exact acts_failures_open t as s
  | .failExit f l m :: _, s => by
    have h := failure_in_open t _ (exitFailure_testName t f l m) [] s
    rw [actEvs, h.1, h.2]; simp [msgsFrom_nil, failuresInOpenTest, openAfter]
  | .postFail _ :: as, s => by simpa [actEvs] using acts_failures_open t as s
  | .checks _ :: as, s => by simpa [actEvs] using acts_failures_open t as s
  | .tick _ :: as, s => by simpa [actEvs] using acts_failures_open t as s

theorem post_failures_open (t : TestInfo) : ∀ (acts : List Act) (s : St),
    failuresInOpenTest (some t.name) (msgsFrom s (postEvs t acts)) = true ∧
    openAfter (some t.name) (msgsFrom s (postEvs t acts)) = some t.name
  | [], s => by simp [postEvs, msgsFrom_nil, failuresInOpenTest, openAfter]
  | .postFail m :: as, s => by
    have h := failure_in_open t _ (msgFailure_testName t m) (postEvs t as) s
    rw [postEvs, h.1, h.2]; exact post_failures_open t as s
  | .print _ _ _ :: as, s => by simpa [postEvs] using post_failures_open t as s
  | .fail _ _ _ :: as, s => by simpa [postEvs] using post_failures_open t as s
  | .failExit _ _ _ :: as, s => by simpa [postEvs] using post_failures_open t as s
  | .failMsg _ :: as, s => by simpa [postEvs] using post_failures_open t as s
  | .failLoc _ _ :: as, s => by simpa [postEvs] using post_failures_open t as s
  | .checks _ :: as, s => by simpa [postEvs] using post_failures_open t as s
  | .tick _ :: as, s => by simpa [postEvs] using post_failures_open t as s

theorem test_failures_open (sc : Script) (r : R) (s : St) (cur : Option Bytes) :
    failuresInOpenTest cur (msgsFrom s (testEvs sc r)) = true := by
  unfold testEvs
  cases hw : sc.info.willRun
  · simp [msgsFrom_cons, msgsFrom_nil, msgsOf, step, hw, failuresInOpenTest]
  · simp only [if_true]
    have ha := acts_failures_open sc.info sc.acts { s with currTest := some sc.info.name }
    have hst := (acts_keep_open sc.info [] sc.acts { s with currTest := some sc.info.name }).2
    have hp := post_failures_open sc.info sc.acts { s with currTest := some sc.info.name }
    have hst2 := (post_keep_open sc.info [] sc.acts { s with currTest := some sc.info.name }).2
    show failuresInOpenTest cur (msgsFrom s ([Ev.testStarted sc.info] ++ (actEvs sc.info sc.acts ++ (postEvs sc.info sc.acts ++ [Ev.testEnded _ _])))) = _
    rw [msgsFrom_append, msgsFrom_append, msgsFrom_append]
    have h2 : stAfter s [Ev.testStarted sc.info] = { s with currTest := some sc.info.name } := by
      simp [stAfter_cons, stAfter_nil, step]
    have h1 : msgsFrom s [Ev.testStarted sc.info] = [.testStarted sc.info.name] := by
      simp [msgsFrom_cons, msgsFrom_nil, msgsOf, hw]
    rw [h2, h1, hst, hst2, failuresInOpenTest_append, failuresInOpenTest_append, failuresInOpenTest_append]
    simp only [failuresInOpenTest, openAfter, ha.1, ha.2, hp.1, hp.2, Bool.true_and]
    simp [msgsFrom_cons, msgsFrom_nil, msgsOf, failuresInOpenTest]

theorem loop_failures_open (flt : Option Filter) : ∀ (tests : List Script) (gs : Bool) (g0 : Nat) (r : R) (s : St)
    (cur : Option Bytes), failuresInOpenTest cur (msgsFrom s (loop flt gs g0 r tests)) = true
  | [], gs, g0, r, s, cur => by simp [loop, msgsFrom_cons, msgsFrom_nil, msgsOf, failuresInOpenTest]
  | t :: rest, gs, g0, r, s, cur => by
    simp only [loop]
    rw [List.append_assoc, List.append_assoc, msgsFrom_append, msgsFrom_append, msgsFrom_append,
      failuresInOpenTest_append, failuresInOpenTest_append, failuresInOpenTest_append]
    have hstart : ∀ c, failuresInOpenTest c (msgsFrom s (startEvs gs t)) = true := by
      intro c; unfold startEvs; split <;> simp [msgsFrom_cons, msgsFrom_nil, msgsOf, failuresInOpenTest]
    have hbody : ∀ c s', failuresInOpenTest c (msgsFrom s' (bodyEvs flt t r)) = true := by
      intro c s'; unfold bodyEvs; split
      · exact test_failures_open t _ s' c
      · simp [msgsFrom_nil, failuresInOpenTest]
    have hend : ∀ c s' g r', failuresInOpenTest c (msgsFrom s' (endEvs t rest g r')) = true := by
      intro c s' g r'; unfold endEvs; split
      · by_cases h : s'.currGroup = []
        · simp [msgsFrom_cons, msgsFrom_nil, msgsOf, h, failuresInOpenTest]
        · simp [msgsFrom_cons, msgsFrom_nil, msgsOf, h, failuresInOpenTest]
      · simp [msgsFrom_nil, failuresInOpenTest]
    rw [hstart, hbody, hend, loop_failures_open flt rest]
    rfl

end TeamCity
