import CppUModel.Proofs.AllocLayout
/-! Lemmas for the whole-history invariant of the C05 byte-level model (`InvTM`, `Inv`). -/
namespace AllocLayout
open Gen.AllocLayout

/-! ## more about the block memory -/

theorem dropBlock_cons (x : Block) (xs : List Block) (id : Nat) :
    dropBlock (x :: xs) id = if x.id != id then x :: dropBlock xs id else dropBlock xs id := by
  simp [dropBlock, List.filter_cons]

theorem findBlock_dropBlock_ne {m : List Block} {id j : Nat} (h : j ≠ id) :
    findBlock (dropBlock m id) j = findBlock m j := by
  induction m with
  | nil => rfl
  | cons x xs ih =>
    rw [dropBlock_cons]
    by_cases hx : x.id = id
    · have hb : (x.id != id) = false := by simp [hx]
      have : (x.id == j) = false := by simp [hx]; exact Ne.symm h
      rw [findBlock_cons]
      simp only [hb, Bool.false_eq_true, if_false, this]
      exact ih
    · have : (x.id != id) = true := by simpa using hx
      simp only [this, if_true, findBlock_cons]
      split
      · rfl
      · exact ih

theorem findBlock_dropBlock_self (m : List Block) (id : Nat) : findBlock (dropBlock m id) id = none := by
  induction m with
  | nil => rfl
  | cons x xs ih =>
    rw [dropBlock_cons]
    by_cases hx : x.id = id
    · simp only [hx, bne_self_eq_false, Bool.false_eq_true, if_false]; exact ih
    · have h1 : (x.id != id) = true := by simpa using hx
      have h2 : (x.id == id) = false := by simpa using hx
      simp only [h1, if_true, findBlock_cons, h2, Bool.false_eq_true, if_false]; exact ih

theorem findBlock_none_of_fresh {m : List Block} {id : Nat} (h : Fresh m id) : findBlock m id = none := by
  induction m with
  | nil => rfl
  | cons x xs ih =>
    have hx : x.id ≠ id := h x (by simp)
    have : (x.id == id) = false := by simpa using hx
    rw [findBlock_cons]; simp only [this, Bool.false_eq_true, if_false]
    exact ih (fun b hb => h b (by simp [hb]))

theorem ne_of_fresh_of_find {m : List Block} {id j : Nat} {b : Block} (hf : Fresh m id) (hb : findBlock m j = some b) :
    j ≠ id := by
  intro h; subst h; rw [findBlock_none_of_fresh hf] at hb; cases hb

theorem fresh_dropBlock {m : List Block} {id : Nat} (j : Nat) (h : Fresh m id) : Fresh (dropBlock m j) id := by
  intro b hb; exact h b (List.mem_filter.mp hb).1

theorem fresh_dropBlock_self (m : List Block) (id : Nat) : Fresh (dropBlock m id) id := by
  intro b hb
  have := (List.mem_filter.mp hb).2
  simpa using this

/-- a write changes no block's length and no other block at all -/
theorem writeBlock_other {m m' : List Block} {id off : Nat} {src : List UInt8} (h : writeBlock m id off src = some m')
    {j : Nat} (hj : j ≠ id) : findBlock m' j = findBlock m j := by
  obtain ⟨b, bs', _, _, rfl⟩ := writeBlock_eq_some h
  exact findBlock_setBlock_ne bs' hj

theorem writeBlock_same {m m' : List Block} {id off : Nat} {src : List UInt8} (h : writeBlock m id off src = some m') :
    ∃ b bs', findBlock m id = some b ∧ findBlock m' id = some ⟨id, bs'⟩ ∧ writeAt b.bytes off src = some bs' := by
  obtain ⟨b, bs', hb, hw, rfl⟩ := writeBlock_eq_some h
  exact ⟨b, bs', hb, findBlock_setBlock_same bs' hb, hw⟩

/-! ## structure of the invariant -/

theorem owned_cons (r : Rec) (t : List Rec) : owned (r :: t) = r.owned ++ owned t := by
  simp [owned]

theorem mem_owned_of_mem {t : List Rec} {r : Rec} {j : Nat} (hr : r ∈ t) (hj : j ∈ r.owned) : j ∈ owned t := by
  unfold owned; exact List.mem_flatMap.mpr ⟨r, hr, hj⟩

theorem id_mem_owned (r : Rec) : r.id ∈ r.owned := by
  unfold Rec.owned; split <;> simp

/-- `RecOk` only looks at the blocks the record owns -/
theorem RecOk.frame {c : Cfg} {m m' : List Block} {r : Rec} (h : RecOk c m r)
    (hf : ∀ j ∈ r.owned, findBlock m' j = findBlock m j) : RecOk c m' r := by
  refine ⟨h.acc, h.lay, ?_, ?_, h.node.2⟩
  · rw [hf r.id (id_mem_owned r)]; exact h.blk
  · intro hs
    obtain ⟨hne, nb, hnb, hl⟩ := h.node.1 hs
    refine ⟨hne, nb, ?_, hl⟩
    rw [hf r.nodeId (by unfold Rec.owned; simp [hs])]; exact hnb

/-- every owned block is live -/
theorem RecOk.live {c : Cfg} {m : List Block} {r : Rec} (h : RecOk c m r) {j : Nat} (hj : j ∈ r.owned) :
    ∃ b, findBlock m j = some b := by
  unfold Rec.owned at hj
  split at hj
  · next hs =>
    simp at hj
    rcases hj with rfl | rfl
    · obtain ⟨b, hb, _⟩ := h.blk; exact ⟨b, hb⟩
    · obtain ⟨_, nb, hnb, _⟩ := h.node.1 hs; exact ⟨nb, hnb⟩
  · simp at hj; subst hj
    obtain ⟨b, hb, _⟩ := h.blk; exact ⟨b, hb⟩

theorem InvTM.live {c : Cfg} {t : List Rec} {m : List Block} (h : InvTM c t m) {j : Nat} (hj : j ∈ owned t) :
    ∃ b, findBlock m j = some b := by
  obtain ⟨r, hr, hjr⟩ := List.mem_flatMap.mp hj
  exact (h.recs r hr).live hjr

/-- a block the platform hands out fresh is owned by nobody -/
theorem InvTM.fresh_not_owned {c : Cfg} {t : List Rec} {m : List Block} (h : InvTM c t m) {id : Nat} (hf : Fresh m id) :
    id ∉ owned t := by
  intro hj
  obtain ⟨b, hb⟩ := h.live hj
  exact ne_of_fresh_of_find hf hb rfl

theorem InvTM.frame {c : Cfg} {t : List Rec} {m m' : List Block} (h : InvTM c t m)
    (hf : ∀ j ∈ owned t, findBlock m' j = findBlock m j) : InvTM c t m' :=
  ⟨fun r hr => (h.recs r hr).frame (fun j hj => hf j (mem_owned_of_mem hr hj)), h.nodup⟩

theorem InvTM.empty (c : Cfg) (m : List Block) : InvTM c [] m where
  recs := fun _ h => nomatch h
  nodup := by simp [owned]

/-- adding a record that is true of the memory and owns blocks nobody owns yet -/
theorem InvTM.cons {c : Cfg} {t : List Rec} {m : List Block} {r : Rec} (h : InvTM c t m) (hr : RecOk c m r)
    (hnew : ∀ j ∈ r.owned, j ∉ owned t) : InvTM c (r :: t) m := by
  refine ⟨?_, ?_⟩
  · intro x hx
    rcases List.mem_cons.mp hx with rfl | hx
    · exact hr
    · exact h.recs x hx
  · rw [owned_cons]
    refine List.nodup_append.mpr ⟨?_, h.nodup, ?_⟩
    · unfold Rec.owned
      split
      · next hs =>
        have := (hr.node.1 hs).1
        simp; exact Ne.symm this
      · simp
    · intro a ha b hb hab
      subst hab
      exact hnew a ha hb

/-- taking one record out -/
theorem InvTM.remove {c : Cfg} {t rest : List Rec} {m : List Block} {r : Rec} {id : Nat} (h : InvTM c t m)
    (hrem : removeRec t id = some (r, rest)) :
    InvTM c rest m ∧ RecOk c m r ∧ r ∈ t ∧ r.id = id ∧ (∀ j ∈ r.owned, j ∉ owned rest) ∧ r.owned.Nodup := by
  obtain ⟨hp, hid⟩ := removeRec_perm t id r rest hrem
  have hmem : r ∈ t := hp.mem_iff.mpr (by simp)
  have hnd : (owned (r :: rest)).Nodup := by
    have : (owned t).Perm (owned (r :: rest)) := by unfold owned; exact hp.flatMap_right _
    exact this.nodup_iff.mp h.nodup
  rw [owned_cons] at hnd
  obtain ⟨h1, h2, h3⟩ := List.nodup_append.mp hnd
  refine ⟨⟨fun x hx => h.recs x (hp.mem_iff.mpr (by simp [hx])), h2⟩, h.recs r hmem, hmem, hid, ?_, h1⟩
  intro j hj hjr
  exact h3 j hj j hjr rfl

/-- with `owned` duplicate-free, a block has one owner -/
theorem owned_inj : ∀ {t : List Rec}, (owned t).Nodup → ∀ {r x : Rec} {j : Nat}, r ∈ t → x ∈ t → j ∈ r.owned → j ∈ x.owned → r = x
  | [], _, _, _, _, hr, _, _, _ => nomatch hr
  | y :: ys, hnd, r, x, j, hr, hx, hjr, hjx => by
    rw [owned_cons] at hnd
    obtain ⟨_, h2, h3⟩ := List.nodup_append.mp hnd
    rcases List.mem_cons.mp hr with rfl | hr' <;> rcases List.mem_cons.mp hx with rfl | hx'
    · rfl
    · exact absurd rfl (h3 j hjr j (mem_owned_of_mem hx' hjx))
    · exact absurd rfl (h3 j hjx j (mem_owned_of_mem hr' hjr))
    · exact owned_inj h2 hr' hx' hjr hjx

/-- a store into the user bytes of a tracked block keeps the invariant: lengths stay, the guard
    bytes behind the user bytes stay, nobody else's block is touched -/
theorem InvTM.userWrite {c : Cfg} {t : List Rec} {m m' : List Block} (h : InvTM c t m) {r : Rec} (hr : r ∈ t)
    {off : Nat} {src : List UInt8} (hfit : off + src.length ≤ r.size.toNat)
    (hw : writeBlock m r.id off src = some m') : InvTM c t m' := by
  refine ⟨?_, h.nodup⟩
  intro x hx
  by_cases hown : r.id ∈ x.owned
  · have : r = x := owned_inj h.nodup hr hx (id_mem_owned r) hown
    subst this
    have ok := h.recs r hr
    obtain ⟨b, bs', hb, hb', hwa⟩ := writeBlock_same hw
    obtain ⟨b0, hb0, hl0, hg0⟩ := ok.blk
    rw [hb] at hb0; cases hb0
    refine ⟨ok.acc, ok.lay, ⟨⟨r.id, bs'⟩, hb', ?_, ?_⟩, ?_, ok.node.2⟩
    · show bs'.length = _
      rw [writeAt_length hwa]; exact hl0
    · show (bs'.drop r.size.toNat).take c.guard.toNat = guardImage c
      rw [writeAt_drop hwa _ hfit]; exact hg0
    · intro hs
      obtain ⟨hne, nb, hnb, hl⟩ := ok.node.1 hs
      exact ⟨hne, nb, by rw [writeBlock_other hw hne]; exact hnb, hl⟩
  · exact (h.recs x hx).frame (fun j hj => writeBlock_other hw (fun e => hown (e ▸ hj)))

/-- under the invariant such a store is always inside the block -/
theorem InvTM.userWrite_some {c : Cfg} (hn : NodeOk c) {t : List Rec} {m : List Block} (h : InvTM c t m) {r : Rec} (hr : r ∈ t)
    {off : Nat} {src : List UInt8} (hfit : off + src.length ≤ r.size.toNat) :
    ∃ m', writeBlock m r.id off src = some m' := by
  have ok := h.recs r hr
  obtain ⟨b, hb, hl, _⟩ := ok.blk
  have hreq := allocReq_toNat_acc c hn r.size r.sep ok.acc
  have hbd := swciNat_bounds c r.size.toNat
  refine ⟨_, writeBlock_some hb ?_⟩
  rw [hl, hreq]; unfold extNat; split <;> omega

/-! ## allocation keeps the invariant -/

/-- `store_sep` with the node block's length -/
theorem store_sep' (c : Cfg) (img : NodeImage) (hi : ImgOk c img) (s : State) (r : Rec) (evs : List Ev) (b nb : Block)
    (hsep : r.sep = true) (hne : r.nodeId ≠ r.id)
    (hnb : findBlock s.mem r.nodeId = some nb) (hnl : c.node.toNat ≤ nb.bytes.length)
    (hb : findBlock s.mem r.id = some b) (hfit : r.size.toNat + c.guard.toNat ≤ b.bytes.length) :
    ∃ nbs' bs', store c img s r evs =
        ({ tracked := r :: s.tracked, mem := setBlock (setBlock s.mem r.nodeId nbs') r.id bs', seq := s.seq + 1 }, evs, .ptr r.id) ∧
      nbs'.length = nb.bytes.length ∧
      bs'.length = b.bytes.length ∧ bs'.take r.size.toNat = b.bytes.take r.size.toNat ∧
      (bs'.drop r.size.toNat).take c.guard.toNat = guardImage c := by
  have hil := hi r
  have hgl := guardImage_length c
  have h1 := writeBlock_some (m := s.mem) (id := r.nodeId) (off := 0) (src := img r) hnb (by omega)
  generalize hn1 : nb.bytes.take 0 ++ img r ++ nb.bytes.drop (0 + (img r).length) = nbs1 at h1
  have hwn : writeAt nb.bytes 0 (img r) = some nbs1 := by rw [← hn1]; exact writeAt_some (by omega)
  have hb1 : findBlock (setBlock s.mem r.nodeId nbs1) r.id = some b := by
    rw [findBlock_setBlock_ne nbs1 (Ne.symm hne)]; exact hb
  have h2 := writeBlock_some (m := setBlock s.mem r.nodeId nbs1) (id := r.id) (off := r.size.toNat) (src := guardImage c) hb1 (by omega)
  generalize hbs2 : b.bytes.take r.size.toNat ++ guardImage c ++ b.bytes.drop (r.size.toNat + (guardImage c).length) = bs2 at h2
  have hw2 : writeAt b.bytes r.size.toNat (guardImage c) = some bs2 := by rw [← hbs2]; exact writeAt_some (by omega)
  refine ⟨nbs1, bs2, ?_, writeAt_length hwn, writeAt_length hw2, writeAt_take hw2 _ (Nat.le_refl _), ?_⟩
  · unfold store writeNode writeGuard
    simp only [hsep, if_true, h1, h2]
  · have := writeAt_read hw2
    rw [hgl] at this; exact this

theorem sepOf_malloc (c : Cfg) : sepOf c famMalloc = true := by simp [sepOf, forcedSep, famMalloc]

/-- `createMemoryLeakAccountingInformation` + `storeLeakInformation` on a block just obtained from
    the platform keep the invariant; the outcome is the block, or (default allocators) the test
    failure of the node allocation; never undefined behaviour when a node is available -/
theorem account_inv (c : Cfg) (hn : NodeOk c) (img : NodeImage) (hi : ImgOk c img) {t : List Rec} {m : List Block} (q : Nat)
    (h : InvTM c t m) (fam : Nat) (size : W) (id : Nat) (bytes : List UInt8) (a2 : Ans) (evs : List Ev)
    (hacc : rejectsAlloc c size = false)
    (hlen : bytes.length = (allocReq c (sepOf c fam) size).toNat)
    (hfid : Fresh m id) (h2ok : a2.Ok c.node.toNat) (h2f : a2.Fresh m) (hd : a2.isNull = true ∨ a2.id ≠ id)
    (hnn : sepOf c fam = true → a2 ≠ .null) :
    InvTM c (account c img ⟨t, ⟨id, bytes⟩ :: m, q⟩ fam size (sepOf c fam) id a2 evs).1.tracked
            (account c img ⟨t, ⟨id, bytes⟩ :: m, q⟩ fam size (sepOf c fam) id a2 evs).1.mem ∧
    (((account c img ⟨t, ⟨id, bytes⟩ :: m, q⟩ fam size (sepOf c fam) id a2 evs).2.2 = .ptr id ∧
      ∃ nd, (account c img ⟨t, ⟨id, bytes⟩ :: m, q⟩ fam size (sepOf c fam) id a2 evs).1.tracked =
        ⟨id, size, fam, sepOf c fam, nd, q⟩ :: t) ∨
     ((account c img ⟨t, ⟨id, bytes⟩ :: m, q⟩ fam size (sepOf c fam) id a2 evs).2.2 = .testFail ∧
      (account c img ⟨t, ⟨id, bytes⟩ :: m, q⟩ fam size (sepOf c fam) id a2 evs).1.tracked = t)) := by
  have hb := swciNat_bounds c size.toNat
  have hoff := nodeOff_toNat_acc c hn size hacc
  have hreq := allocReq_toNat_acc c hn size (sepOf c fam) hacc
  have hnot : id ∉ owned t := h.fresh_not_owned hfid
  -- the old records do not see the new block
  have hframe1 : InvTM c t (⟨id, bytes⟩ :: m) :=
    h.frame (fun j hj => findBlock_cons_ne bytes m (fun e => hnot (e ▸ hj)))
  cases hs : sepOf c fam
  · -- inline
    rw [hs] at hreq hlen
    simp only [Bool.false_eq_true, if_false] at hreq
    obtain ⟨bs', he, hl, ht, hg⟩ := store_inline c img hi ⟨t, ⟨id, bytes⟩ :: m, q⟩ ⟨id, size, fam, false, 0, q⟩
      evs ⟨id, bytes⟩ rfl (findBlock_cons_self id bytes m)
      (by simp only []; omega) (by simp only []; unfold extNat at hreq; omega)
    simp only [] at he hl ht hg
    have hacc_eq : account c img ⟨t, ⟨id, bytes⟩ :: m, q⟩ fam size false id a2 evs =
        ({ tracked := ⟨id, size, fam, false, 0, q⟩ :: t, mem := setBlock (⟨id, bytes⟩ :: m) id bs', seq := q + 1 }, evs, .ptr id) := by
      unfold account; exact he
    rw [hacc_eq]
    refine ⟨?_, Or.inl ⟨rfl, 0, rfl⟩⟩
    show InvTM c (⟨id, size, fam, false, 0, q⟩ :: t) (setBlock (⟨id, bytes⟩ :: m) id bs')
    apply InvTM.cons
    · exact hframe1.frame (fun j hj => findBlock_setBlock_ne bs' (fun e => hnot (e ▸ hj)))
    · refine ⟨hacc, by simp only []; exact hs.symm, ⟨⟨id, bs'⟩, findBlock_setBlock_same bs' (findBlock_cons_self id bytes m), ?_, hg⟩,
        by simp, by simp⟩
      show bs'.length = _
      rw [hl, hlen]
    · intro j hj
      simp [Rec.owned] at hj; subst hj; exact hnot
  · -- separate node
    rw [hs] at hreq hlen
    simp only [if_true] at hreq
    cases a2 with
    | null => exact absurd rfl (hnn hs)
    | fail =>
      have : account c img ⟨t, ⟨id, bytes⟩ :: m, q⟩ fam size true id .fail evs =
          (⟨t, ⟨id, bytes⟩ :: m, q⟩, evs ++ [.unode c.node 0], .testFail) := by simp [account]
      rw [this]
      exact ⟨hframe1, Or.inr ⟨rfl, rfl⟩⟩
    | block nid nb =>
      have hne : nid ≠ id := by simpa [Ans.isNull, Ans.id] using hd
      have hfn : Fresh m nid := h2f
      have hnotn : nid ∉ owned t := h.fresh_not_owned hfn
      obtain ⟨nbs', bs', he, hnl', hl, ht, hg⟩ := store_sep' c img hi ⟨t, ⟨nid, nb⟩ :: ⟨id, bytes⟩ :: m, q⟩
        ⟨id, size, fam, true, nid, q⟩ (evs ++ [.unode c.node nid]) ⟨id, bytes⟩ ⟨nid, nb⟩ rfl hne
        (findBlock_cons_self nid nb _) (by simp only []; exact Nat.le_of_eq h2ok.symm)
        (by simp only []; rw [findBlock_cons_ne nb _ hne]; exact findBlock_cons_self id bytes m)
        (by simp only []; omega)
      simp only [] at he hnl' hl ht hg
      have hacc_eq : account c img ⟨t, ⟨id, bytes⟩ :: m, q⟩ fam size true id (.block nid nb) evs =
          ({ tracked := ⟨id, size, fam, true, nid, q⟩ :: t,
             mem := setBlock (setBlock (⟨nid, nb⟩ :: ⟨id, bytes⟩ :: m) nid nbs') id bs', seq := q + 1 },
           evs ++ [.unode c.node nid], .ptr id) := by
        unfold account; exact he
      rw [hacc_eq]
      refine ⟨?_, Or.inl ⟨rfl, nid, rfl⟩⟩
      show InvTM c (⟨id, size, fam, true, nid, q⟩ :: t) (setBlock (setBlock (⟨nid, nb⟩ :: ⟨id, bytes⟩ :: m) nid nbs') id bs')
      have hfind_id : findBlock (setBlock (setBlock (⟨nid, nb⟩ :: ⟨id, bytes⟩ :: m) nid nbs') id bs') id = some ⟨id, bs'⟩ := by
        apply findBlock_setBlock_same bs'
        rw [findBlock_setBlock_ne nbs' (Ne.symm hne), findBlock_cons_ne nb _ hne]
        exact findBlock_cons_self id bytes m
      have hfind_n : findBlock (setBlock (setBlock (⟨nid, nb⟩ :: ⟨id, bytes⟩ :: m) nid nbs') id bs') nid = some ⟨nid, nbs'⟩ := by
        rw [findBlock_setBlock_ne bs' hne]
        exact findBlock_setBlock_same nbs' (findBlock_cons_self nid nb _)
      apply InvTM.cons
      · apply h.frame
        intro j hj
        have hj1 : j ≠ id := fun e => hnot (e ▸ hj)
        have hj2 : j ≠ nid := fun e => hnotn (e ▸ hj)
        rw [findBlock_setBlock_ne bs' hj1, findBlock_setBlock_ne nbs' hj2, findBlock_cons_ne nb _ (Ne.symm hj2),
          findBlock_cons_ne bytes m (Ne.symm hj1)]
      · refine ⟨hacc, by simp only []; exact hs.symm, ⟨⟨id, bs'⟩, hfind_id, ?_, hg⟩, ?_, by simp⟩
        · show bs'.length = _
          rw [hl, hlen]
        · intro _
          exact ⟨hne, ⟨nid, nbs'⟩, hfind_n, by show nbs'.length = _; rw [hnl']; exact h2ok⟩
      · intro j hj
        simp [Rec.owned] at hj
        rcases hj with rfl | rfl
        · exact hnot
        · exact hnotn

/-- what one `allocMemory` of the public wrappers does to a state that satisfies the invariant -/
structure AllocResult (c : Cfg) (s : State) (fam : Nat) (size : W) (a1 : Ans) (r : State × List Ev × Outcome) : Prop where
  inv    : Inv c r.1
  noUb   : r.2.2.isUb = false
  noBad  : r.2.2 ≠ .badAlloc
  onPtr  : ∀ id, r.2.2 = .ptr id → a1.id = id ∧ ∃ nd, r.1.tracked = ⟨id, size, fam, sepOf c fam, nd, s.seq⟩ :: s.tracked
  onFail : (∀ id, r.2.2 ≠ .ptr id) → r.1.tracked = s.tracked

theorem allocMemory_inv (c : Cfg) (hn : NodeOk c) (img : NodeImage) (hi : ImgOk c img) {s : State} (h : Inv c s)
    (fam : Nat) (size : W) (sep0 : Bool) (a1 a2 : Ans) (hsep0 : sep0 = (fam == famMalloc))
    (henv : AllocEnvOk c s.mem (sepOf c fam) size a1 a2) :
    AllocResult c s fam size a1 (allocMemory c img s fam size sep0 a1 a2) := by
  have hfs : forcedSep c sep0 = sepOf c fam := by rw [hsep0]; rfl
  cases hacc : rejectsAlloc c size
  · cases a1 with
    | null =>
      have : allocMemory c img s fam size sep0 .null a2 = (s, [.ualloc (allocReq c (forcedSep c sep0) size) 0], .null) := by
        simp [allocMemory, hacc]
      rw [this]
      exact ⟨h, rfl, by simp, fun id hx => (nomatch hx), fun _ => rfl⟩
    | fail =>
      have : allocMemory c img s fam size sep0 .fail a2 = (s, [.ualloc (allocReq c (forcedSep c sep0) size) 0], .testFail) := by
        simp [allocMemory, hacc]
      rw [this]
      exact ⟨h, rfl, by simp, fun id hx => (nomatch hx), fun _ => rfl⟩
    | block id bytes =>
      by_cases hnull : forcedSep c sep0 = true ∧ a2 = .null
      · obtain ⟨hf, rfl⟩ := hnull
        have : allocMemory c img s fam size sep0 (.block id bytes) .null =
            (s, [.ualloc (allocReq c true size) id, .unode c.node 0, .ufree id], .null) := by
          simp [allocMemory, hacc, hf]
        rw [this]
        exact ⟨h, rfl, by simp, fun id hx => (nomatch hx), fun _ => rfl⟩
      · rw [allocMemory_block_eq c img s fam size sep0 id bytes a2 hacc hnull, hfs]
        have hlen : bytes.length = (allocReq c (sepOf c fam) size).toNat := henv.len1
        have hd : a2.isNull = true ∨ a2.id ≠ id := henv.differ
        have key := account_inv c hn img hi s.seq h fam size id bytes a2
          [.ualloc (allocReq c (sepOf c fam) size) id] hacc hlen henv.fresh1 henv.len2 henv.fresh2 hd
          (fun hs hx => hnull ⟨by rw [hfs]; exact hs, hx⟩)
        obtain ⟨hinv, hout⟩ := key
        generalize account c img { s with mem := ⟨id, bytes⟩ :: s.mem } fam size (sepOf c fam) id a2
          [.ualloc (allocReq c (sepOf c fam) size) id] = r at hinv hout
        rcases hout with ⟨hp, nd, ht⟩ | ⟨hp, ht⟩
        · refine ⟨hinv, by rw [hp]; rfl, by rw [hp]; simp, ?_, ?_⟩
          · intro i hx; rw [hp] at hx; cases hx; exact ⟨rfl, nd, ht⟩
          · intro hx; exact absurd hp (hx id)
        · refine ⟨hinv, by rw [hp]; rfl, by rw [hp]; simp, ?_, fun _ => ht⟩
          intro i hx; rw [hp] at hx; cases hx
  · have : allocMemory c img s fam size sep0 a1 a2 = (s, [], .null) := by simp [allocMemory, hacc]
    rw [this]
    exact ⟨h, rfl, by simp, fun id hx => (nomatch hx), fun _ => rfl⟩

/-- the detector reports a test failure only when an allocator did -/
theorem allocMemory_testFail (c : Cfg) (img : NodeImage) (s : State) (fam : Nat) (size : W) (sep0 : Bool) (a1 a2 : Ans) :
    (allocMemory c img s fam size sep0 a1 a2).2.2 = .testFail → a1 = .fail ∨ a2 = .fail := by
  unfold allocMemory
  split
  · simp
  · split
    · simp
    · simp
    · split
      · simp
      · unfold account
        split
        · split
          · simp
          · simp
          · unfold store
            split
            · simp
            · split <;> simp
        · unfold store
          split
          · simp
          · split <;> simp

/-- a later store into the user bytes of the block just allocated (`memset` of calloc, `memcpy` and
    terminator of strdup) keeps everything `AllocResult` says -/
theorem thenWrite_inv (c : Cfg) (hn : NodeOk c) {s : State} {fam : Nat} {size : W} {a1 : Ans} {r : State × List Ev × Outcome}
    (h : AllocResult c s fam size a1 r) (off : Nat) (src : List UInt8) (why : String) (hfit : off + src.length ≤ size.toNat) :
    AllocResult c s fam size a1 (thenWrite r off src why) ∧ (thenWrite r off src why).2.2 = r.2.2 := by
  rcases r with ⟨s1, evs, o⟩
  cases o with
  | ptr id =>
    obtain ⟨ha, nd, ht⟩ := h.onPtr id rfl
    have hmem : (⟨id, size, fam, sepOf c fam, nd, s.seq⟩ : Rec) ∈ s1.tracked := by
      show _ ∈ (s1, evs, Outcome.ptr id).1.tracked
      rw [ht]; simp
    obtain ⟨m', hw⟩ := InvTM.userWrite_some hn h.inv hmem (off := off) (src := src) hfit
    have hinv' := InvTM.userWrite h.inv hmem hfit hw
    simp only [] at hw
    have : thenWrite (s1, evs, .ptr id) off src why = ({ s1 with mem := m' }, evs, .ptr id) := by
      unfold thenWrite; simp only [hw]
    rw [this]
    exact ⟨⟨hinv', rfl, by simp, fun i hx => by cases hx; exact ⟨ha, nd, ht⟩, fun hx => absurd rfl (hx id)⟩, rfl⟩
  | null => exact ⟨h, rfl⟩
  | badAlloc => exact ⟨h, rfl⟩
  | testFail => exact ⟨h, rfl⟩
  | ub w => exact ⟨h, rfl⟩

theorem cMalloc_inv (c : Cfg) (hn : NodeOk c) (img : NodeImage) (hi : ImgOk c img) {s : State} (h : Inv c s)
    (size : W) (a1 a2 : Ans) (henv : AllocEnvOk c s.mem true size a1 a2) :
    AllocResult c s famMalloc size a1 (cMalloc c img s size a1 a2) := by
  unfold cMalloc
  exact allocMemory_inv c hn img hi h famMalloc size true a1 a2 rfl (by rw [sepOf_malloc]; exact henv)

theorem cCalloc_inv (c : Cfg) (hn : NodeOk c) (img : NodeImage) (hi : ImgOk c img) {s : State} (h : Inv c s)
    (num size : W) (a1 a2 : Ans) (henv : AllocEnvOk c s.mem true (callocRequest num size) a1 a2) :
    AllocResult c s famMalloc (callocRequest num size) a1 (cCalloc c img s num size a1 a2) := by
  unfold cCalloc
  cases ht : callocOverflowTest num size
  · simp only [Bool.false_eq_true, if_false]
    have hm := cMalloc_inv c hn img hi h (callocRequest num size) a1 a2 henv
    obtain ⟨e1, e2⟩ := calloc_request_exact num size ht
    generalize cMalloc c img s (callocRequest num size) a1 a2 = r at hm
    rcases r with ⟨s1, evs, o⟩
    cases o with
    | ptr id => exact (thenWrite_inv c hn hm 0 _ _ (by simp [e1, e2])).1
    | null => exact hm
    | badAlloc => exact hm
    | testFail => exact hm
    | ub w => exact hm
  · simp only [if_true]
    exact ⟨h, rfl, by simp, fun id hx => (nomatch hx), fun _ => rfl⟩

/-- the regenerated `strdup` length is `strlen + 1` -/
theorem strdupLength_toNat (len : Nat) (h : len < 2 ^ 62) : (strdupLength (BitVec.ofNat 64 len)).toNat = len + 1 := by
  unfold strdupLength
  simp [BitVec.toNat_add]; omega

/-- the regenerated `strndup` length is `min n strlen + 1`, for every bound `n` up to `SIZE_MAX` -/
theorem strndupLength_toNat (len : Nat) (n : W) (h : len < 2 ^ 62) :
    (strndupLength (BitVec.ofNat 64 len) n).toNat = min n.toNat len + 1 := by
  have hnlt := n.isLt
  unfold strndupLength
  have hl : (BitVec.ofNat 64 len).toNat = len := by simp; omega
  by_cases hlt : len < n.toNat
  · have : BitVec.ult (BitVec.ofNat 64 len) n = true := by simp [BitVec.ult, hl, hlt]
    simp only [this, if_true, BitVec.toNat_add, hl]
    simp; omega
  · have : BitVec.ult (BitVec.ofNat 64 len) n = false := by simp [BitVec.ult, hl]; omega
    simp only [this, Bool.false_eq_true, if_false, BitVec.toNat_add]
    simp; omega

theorem strdupAlloc_inv (c : Cfg) (hn : NodeOk c) (img : NodeImage) (hi : ImgOk c img) {s : State} (h : Inv c s)
    (buf : List UInt8) (size : W) (k : Nat) (a1 a2 : Ans) (hsize : size.toNat = k + 1) (hk : k < buf.length)
    (henv : AllocEnvOk c s.mem true size a1 a2) :
    AllocResult c s famMalloc size a1 (strdupAlloc c img s buf size a1 a2) := by
  unfold strdupAlloc
  have hnl : ¬ buf.length < size.toNat := by omega
  simp only [hnl, if_false]
  have hm := cMalloc_inv c hn img hi h size a1 a2 henv
  have hsub : (size - 1).toNat = k := by
    have := size.isLt
    rw [BitVec.toNat_sub]; simp; omega
  have h1 := thenWrite_inv c hn hm 0 (buf.take size.toNat) "memcpy outside the block" (by simp; omega)
  have h2 := thenWrite_inv c hn h1.1 (size - 1).toNat [0] "terminator outside the block" (by simp; omega)
  exact h2.1

theorem cStrdup_inv (c : Cfg) (hn : NodeOk c) (img : NodeImage) (hi : ImgOk c img) {s : State} (h : Inv c s)
    (buf : List UInt8) (a1 a2 : Ans) (hnul : (0 : UInt8) ∈ buf) (hshort : buf.length < 2 ^ 62)
    (henv : AllocEnvOk c s.mem true (strdupLength (BitVec.ofNat 64 (cstrOf buf).length)) a1 a2) :
    AllocResult c s famMalloc (strdupLength (BitVec.ofNat 64 (cstrOf buf).length)) a1 (cStrdup c img s buf a1 a2) := by
  obtain ⟨n, hn'⟩ := cstrlen_some_of_nul buf hnul
  obtain ⟨h1, h2, _⟩ := cstrlen_spec buf n hn'
  have hcl : (cstrOf buf).length = n := by rw [← h2]; simp; omega
  unfold cStrdup
  simp only [hn']
  rw [hcl] at henv ⊢
  exact strdupAlloc_inv c hn img hi h buf _ n a1 a2 (strdupLength_toNat n (by omega)) h1 henv

theorem cStrndup_inv (c : Cfg) (hn : NodeOk c) (img : NodeImage) (hi : ImgOk c img) {s : State} (h : Inv c s)
    (buf : List UInt8) (n : W) (a1 a2 : Ans) (hnul : (0 : UInt8) ∈ buf) (hshort : buf.length < 2 ^ 62)
    (henv : AllocEnvOk c s.mem true (strndupLength (BitVec.ofNat 64 (cstrOf buf).length) n) a1 a2) :
    AllocResult c s famMalloc (strndupLength (BitVec.ofNat 64 (cstrOf buf).length) n) a1 (cStrndup c img s buf n a1 a2) := by
  obtain ⟨len, hn'⟩ := cstrlen_some_of_nul buf hnul
  obtain ⟨h1, h2, _⟩ := cstrlen_spec buf len hn'
  have hcl : (cstrOf buf).length = len := by rw [← h2]; simp; omega
  unfold cStrndup
  simp only [hn']
  rw [hcl] at henv ⊢
  exact strdupAlloc_inv c hn img hi h buf _ (min n.toNat len) a1 a2 (strndupLength_toNat len n (by omega)) (by omega) henv

theorem newFam_ne_malloc (v : NewVariant) : ((if v.array then famNewArray else famNew) == famMalloc) = false := by
  cases v.array <;> decide

/-- `operator new`: the detector's state; undefined behaviour only in the listed case (a test
    failure inside a nothrow overload) -/
theorem operatorNew_inv (c : Cfg) (hn : NodeOk c) (img : NodeImage) (hi : ImgOk c img) {s : State} (h : Inv c s)
    (v : NewVariant) (size : W) (a1 a2 : Ans)
    (henv : AllocEnvOk c s.mem (forcedSep c false) size a1 a2)
    (hnf : v.nothrow = false ∨ (a1 ≠ .fail ∧ a2 ≠ .fail)) :
    AllocResult c s (if v.array then famNewArray else famNew) size a1 (operatorNew c img s v size a1 a2) ∨
    ((operatorNew c img s v size a1 a2).2.2 = .badAlloc ∧ Inv c (operatorNew c img s v size a1 a2).1 ∧
      (operatorNew c img s v size a1 a2).1.tracked = s.tracked) := by
  have hsep : sepOf c (if v.array then famNewArray else famNew) = forcedSep c false := by
    unfold sepOf; rw [newFam_ne_malloc]
  have hm := allocMemory_inv c hn img hi h (if v.array then famNewArray else famNew) size false a1 a2
    (newFam_ne_malloc v).symm (by rw [hsep]; exact henv)
  have htf := allocMemory_testFail c img s (if v.array then famNewArray else famNew) size false a1 a2
  have hfr := hm.onFail
  unfold operatorNew
  generalize allocMemory c img s (if v.array then famNewArray else famNew) size false a1 a2 = d at hm htf hfr
  rcases d with ⟨s1, evs, o⟩
  cases o with
  | null =>
    cases v.throws
    · exact Or.inl hm
    · simp only [if_true]
      exact Or.inr ⟨trivial, hm.inv, hfr (fun id hx => nomatch hx)⟩
  | testFail =>
    rcases hnf with hx | ⟨hx1, hx2⟩
    · simp only [hx, Bool.false_eq_true, if_false]; exact Or.inl hm
    · rcases htf rfl with e | e
      · exact absurd e hx1
      · exact absurd e hx2
  | ptr id => exact Or.inl hm
  | badAlloc => exact absurd rfl hm.noBad
  | ub w => exact Or.inl hm

/-! ## release keeps the invariant -/

theorem removeRec_retrieve : ∀ (t : List Rec) (id : Nat),
    retrieveRec t id = (removeRec t id).map (·.1)
  | [], _ => rfl
  | x :: xs, id => by
    unfold removeRec retrieveRec
    rw [List.find?_cons]
    by_cases hx : (x.id == id) = true
    · simp [hx]
    · simp only [hx, Bool.false_eq_true, if_false]
      have ih := removeRec_retrieve xs id
      unfold retrieveRec at ih
      rw [ih]
      cases removeRec xs id with
      | none => rfl
      | some p => rfl

theorem removeRec_some_of_mem : ∀ (t : List Rec) (r : Rec), r ∈ t → ∃ o rest, removeRec t r.id = some (o, rest)
  | [], _, h => nomatch h
  | x :: xs, r, h => by
    unfold removeRec
    by_cases hx : (x.id == r.id) = true
    · exact ⟨x, xs, by simp [hx]⟩
    · simp only [hx, Bool.false_eq_true, if_false]
      have hr : r ∈ xs := by
        rcases List.mem_cons.mp h with rfl | h'
        · simp at hx
        · exact h'
      obtain ⟨o, rest, he⟩ := removeRec_some_of_mem xs r hr
      exact ⟨o, x :: rest, by rw [he]⟩

theorem removeRec_none_not_mem : ∀ (t : List Rec) (id : Nat), removeRec t id = none → ∀ r ∈ t, r.id ≠ id
  | [], _, _, r, h => nomatch h
  | x :: xs, id, he, r, h => by
    unfold removeRec at he
    by_cases hx : (x.id == id) = true
    · simp [hx] at he
    · simp only [hx, Bool.false_eq_true, if_false] at he
      cases hr : removeRec xs id with
      | some p => rw [hr] at he; cases he
      | none =>
        rcases List.mem_cons.mp h with rfl | h'
        · simpa using hx
        · exact removeRec_none_not_mem xs id hr r h'

/-- an intact block of the matching family passes `checkForCorruption`; the separately kept node
    is handed back -/
theorem checkForCorruption_ok {c : Cfg} {m : List Block} {r : Rec} (h : RecOk c m r) :
    checkForCorruption c m r r.fam r.sep =
      (if r.sep then dropBlock m r.nodeId else m, if r.sep then [.unodefree r.nodeId] else [], false) := by
  obtain ⟨b, hb, _, hg⟩ := h.blk
  have hgv : guardValid c m r = true := by
    unfold guardValid; rw [hb]; simp [hg]
  unfold checkForCorruption
  simp only [bne_self_eq_false, Bool.false_eq_true, if_false, hgv, Bool.not_true]
  cases r.sep <;> simp

/-- releasing a tracked block of the right family: exactly its record, its data block and (separate
    layout) its node block go; one `free_memory` with the pointer itself -/
theorem deallocMemory_tracked (c : Cfg) {s : State} (h : Inv c s) {id fam : Nat} {sep0 : Bool} {r : Rec} {rest : List Rec}
    (hrem : removeRec s.tracked id = some (r, rest)) (hfam : r.fam = fam) (hsep0 : sep0 = (fam == famMalloc)) :
    deallocMemory c s fam (some id) sep0 =
      ({ s with tracked := rest, mem := dropBlock (if r.sep then dropBlock s.mem r.nodeId else s.mem) id },
       (if r.sep then [.unodefree r.nodeId] else []) ++ [.ufree id], .null) ∧
    InvTM c rest (dropBlock (if r.sep then dropBlock s.mem r.nodeId else s.mem) id) := by
  obtain ⟨hrest, hok, _, hid, hdis, _⟩ := InvTM.remove h hrem
  have hfs : forcedSep c sep0 = r.sep := by rw [hok.lay, hfam, hsep0]; rfl
  constructor
  · unfold deallocMemory
    simp only [hrem, hfs]
    rw [← hfam, checkForCorruption_ok hok]
  · apply hrest.frame
    intro j hj
    have hj1 : j ≠ id := fun e => hdis j (by rw [e, ← hid]; exact id_mem_owned r) hj
    rw [findBlock_dropBlock_ne hj1]
    split
    · next hs =>
      have hj2 : j ≠ r.nodeId := fun e => hdis j (by rw [e]; unfold Rec.owned; simp [hs]) hj
      exact findBlock_dropBlock_ne hj2
    · rfl

/-- `invalidateMemory` + `deallocMemory` of a tracked block of the right family -/
theorem release_tracked (c : Cfg) (hn : NodeOk c) {s : State} (h : Inv c s) {id fam : Nat} {sep0 : Bool} {r : Rec} {rest : List Rec}
    (hrem : removeRec s.tracked id = some (r, rest)) (hfam : r.fam = fam) (hsep0 : sep0 = (fam == famMalloc)) :
    ∃ m', release c s fam (some id) sep0 =
        ({ s with tracked := rest, mem := m' }, (if r.sep then [.unodefree r.nodeId] else []) ++ [.ufree id], .null) ∧
      InvTM c rest m' ∧ findBlock m' id = none ∧ (r.sep = true → findBlock m' r.nodeId = none) ∧
      ∀ j, j ∉ r.owned → findBlock m' j = findBlock s.mem j := by
  obtain ⟨_, hok, hmem, hid, _, _⟩ := InvTM.remove h hrem
  have hret : retrieveRec s.tracked id = some r := by rw [removeRec_retrieve, hrem]; rfl
  obtain ⟨m1, hw⟩ := InvTM.userWrite_some hn h hmem (off := 0) (src := List.replicate r.size.toNat poisonByte) (by simp)
  have hinv1 : Inv c { s with mem := m1 } := InvTM.userWrite h hmem (by simp) hw
  rw [hid] at hw
  have hrel : release c s fam (some id) sep0 = deallocMemory c { s with mem := m1 } fam (some id) sep0 := by
    unfold release invalidateMemory
    simp only [hret, hw]
  obtain ⟨hd, hinv2⟩ := deallocMemory_tracked c hinv1 (id := id) (fam := fam) (sep0 := sep0) (r := r) (rest := rest) hrem hfam hsep0
  simp only [] at hd hinv2
  refine ⟨_, by rw [hrel, hd], hinv2, findBlock_dropBlock_self _ id, ?_, ?_⟩
  · intro hs
    have hne : r.nodeId ≠ id := by rw [← hid]; exact (hok.node.1 hs).1
    rw [findBlock_dropBlock_ne hne]
    simp only [hs, if_true]
    exact findBlock_dropBlock_self _ _
  · intro j hj
    have hj1 : j ≠ id := fun e => hj (by rw [e, ← hid]; exact id_mem_owned r)
    rw [findBlock_dropBlock_ne hj1]
    have hjm : findBlock m1 j = findBlock s.mem j := writeBlock_other hw hj1
    split
    · next hs =>
      have hj2 : j ≠ r.nodeId := fun e => hj (by rw [e]; unfold Rec.owned; simp [hs])
      rw [findBlock_dropBlock_ne hj2]; exact hjm
    · exact hjm

/-- any release a well-behaved client can make keeps the invariant and is never undefined behaviour -/
theorem release_inv (c : Cfg) (hn : NodeOk c) {s : State} (h : Inv c s) (fam : Nat) (ptr : Option Nat) (sep0 : Bool)
    (hsep0 : sep0 = (fam == famMalloc)) (hp : PtrOk s fam ptr) :
    Inv c (release c s fam ptr sep0).1 ∧ (release c s fam ptr sep0).2.2 = .null := by
  cases ptr with
  | none => simp [release, invalidateMemory, deallocMemory]; exact h
  | some id =>
    cases hrem : removeRec s.tracked id with
    | none =>
      have hret : retrieveRec s.tracked id = none := by rw [removeRec_retrieve, hrem]; rfl
      have : release c s fam (some id) sep0 = (s, [.misuse "nonallocated"], .null) := by
        unfold release invalidateMemory
        simp only [hret]
        unfold deallocMemory
        simp only [hrem]
      rw [this]; exact ⟨h, rfl⟩
    | some p =>
      obtain ⟨r, rest⟩ := p
      obtain ⟨_, _, hmem, hid, _, _⟩ := InvTM.remove h hrem
      obtain ⟨m', he, hinv, _⟩ := release_tracked c hn h hrem (hp id rfl r hmem hid) hsep0
      rw [he]; exact ⟨hinv, rfl⟩

/-! ## realloc keeps the invariant -/

theorem forcedSep_true' (c : Cfg) : forcedSep c true = true := by simp [forcedSep]

/-- what the invariant says when `cpputest_realloc` finds the old record: the record is a
    malloc-family record with a separate node, `checkForCorruption` passes and hands the node back,
    and the old data block is still there, intact -/
theorem realloc_old_record (c : Cfg) {s : State} (h : Inv c s) {id : Nat} {o : Rec} {rest : List Rec}
    (hrem : removeRec s.tracked id = some (o, rest)) (hfam : o.fam = famMalloc) :
    o.sep = true ∧ o.id = id ∧
    checkForCorruption c s.mem o famMalloc true = (dropBlock s.mem o.nodeId, [.unodefree o.nodeId], false) ∧
    InvTM c rest (dropBlock s.mem o.nodeId) ∧
    (∃ ob, findBlock (dropBlock s.mem o.nodeId) id = some ob ∧ findBlock s.mem id = some ob ∧
        ob.bytes.length = (allocReq c true o.size).toNat ∧
        (ob.bytes.drop o.size.toNat).take c.guard.toNat = guardImage c) ∧
    rejectsAlloc c o.size = false ∧ id ∉ owned rest ∧ o.nodeId ∉ owned rest ∧ o.nodeId ≠ id := by
  obtain ⟨hrest, hok, _, hid, hdis, _⟩ := InvTM.remove h hrem
  have hsep : o.sep = true := by rw [hok.lay, hfam]; exact sepOf_malloc c
  have hne : o.nodeId ≠ id := by rw [← hid]; exact (hok.node.1 hsep).1
  have hnown : o.nodeId ∈ o.owned := by unfold Rec.owned; simp [hsep]
  have hcfc := checkForCorruption_ok hok
  rw [hfam, hsep] at hcfc
  simp only [if_true] at hcfc
  obtain ⟨ob, hob, hl, hg⟩ := hok.blk
  rw [hsep] at hl
  rw [hid] at hob
  refine ⟨hsep, hid, hcfc, ?_, ⟨ob, ?_, hob, hl, hg⟩, hok.acc, ?_, hdis _ hnown, hne⟩
  · exact hrest.frame (fun j hj => findBlock_dropBlock_ne (fun e => hdis _ hnown (e ▸ hj)))
  · rw [findBlock_dropBlock_ne (Ne.symm hne)]; exact hob
  · exact fun hx => hdis id (by rw [← hid]; exact id_mem_owned o) hx

theorem cRealloc_inv (c : Cfg) (hn : NodeOk c) (img : NodeImage) (hi : ImgOk c img) {s : State} (h : Inv c s)
    (ptr : Option Nat) (size : W) (ar : RAns) (a2 : Ans)
    (hp : PtrOk s famMalloc ptr) (har : ar.EnvOk s.mem ptr (reallocReq c true size).toNat)
    (h2ok : a2.Ok c.node.toNat) (h2f : a2.Fresh s.mem) (hd : ar.differs a2) (hnn : a2 ≠ .null) :
    Inv c (cRealloc c img s ptr size ar a2).1 ∧ (cRealloc c img s ptr size ar a2).2.2.isUb = false := by
  unfold cRealloc reallocMemory
  cases hacc : rejectsRealloc c size
  · simp only [Bool.false_eq_true, if_false, forcedSep_true']
    have hacc' : rejectsAlloc c size = false := by rw [← rejectsRealloc_eq]; exact hacc
    cases ptr with
    | none =>
      simp only []
      unfold reallocRest
      cases ar with
      | null => exact ⟨h, rfl⟩
      | moved nid nb =>
        simp only []
        obtain ⟨hl, hfr, _⟩ := har
        have hfresh : Fresh s.mem nid := by
          rcases hfr with hf | hf
          · exact hf
          · cases hf
        have key := account_inv c hn img hi s.seq h famMalloc size nid nb a2
          ([] ++ [.urealloc 0 (reallocReq c true size) nid]) hacc'
          (by rw [sepOf_malloc, ← reallocReq_eq]; exact hl) hfresh h2ok h2f hd (fun _ => hnn)
        rw [sepOf_malloc] at key
        obtain ⟨hinv, hout⟩ := key
        refine ⟨hinv, ?_⟩
        rcases hout with ⟨hp', _⟩ | ⟨hp', _⟩ <;> rw [hp'] <;> rfl
    | some id =>
      simp only []
      cases hrem : removeRec s.tracked id with
      | none => exact ⟨h, rfl⟩
      | some p =>
        obtain ⟨o, rest⟩ := p
        obtain ⟨_, _, hmem, hid, _, _⟩ := InvTM.remove h hrem
        have hfam := hp id rfl o hmem hid
        obtain ⟨hsep, _, hcfc, hrest, ⟨ob, hob1, hob, hol, hog⟩, hoacc, hidn, hnidn, hne⟩ := realloc_old_record c h hrem hfam
        simp only [hcfc]
        unfold reallocRest
        cases ar with
        | null =>
          simp only []
          unfold retrack
          simp only [if_true]
          cases a2 with
          | null => exact absurd rfl hnn
          | fail => exact ⟨hrest, rfl⟩
          | block nid nb =>
            simp only []
            have hfn : Fresh s.mem nid := h2f
            have hnid_id : nid ≠ id := (ne_of_fresh_of_find hfn hob).symm
            have hw := writeBlock_some (m := ⟨nid, nb⟩ :: dropBlock s.mem o.nodeId) (id := nid) (off := 0)
              (src := img { o with sep := true, nodeId := nid }) (findBlock_cons_self nid nb _)
              (by simp only []; rw [hi]; exact Nat.le_of_eq (by simpa using h2ok.symm))
            generalize hbs : (⟨nid, nb⟩ : Block).bytes.take 0 ++ img { o with sep := true, nodeId := nid } ++
              (⟨nid, nb⟩ : Block).bytes.drop (0 + (img { o with sep := true, nodeId := nid }).length) = bs1 at hw
            have hwa : writeAt nb 0 (img { o with sep := true, nodeId := nid }) = some bs1 := by
              rw [← hbs]; exact writeAt_some (by rw [hi]; exact Nat.le_of_eq (by simpa using h2ok.symm))
            unfold writeNode
            simp only [if_true, hw]
            refine ⟨?_, rfl⟩
            show InvTM c ({ o with sep := true, nodeId := nid } :: rest) (setBlock (⟨nid, nb⟩ :: dropBlock s.mem o.nodeId) nid bs1)
            have hnid_not : nid ∉ owned rest := by
              intro hx
              obtain ⟨b, hb⟩ := hrest.live hx
              rw [findBlock_dropBlock_ne (fun e => hnidn (by rw [← e]; exact hx))] at hb
              exact ne_of_fresh_of_find hfn hb rfl
            apply InvTM.cons
            · apply hrest.frame
              intro j hj
              have : j ≠ nid := fun e => hnid_not (e ▸ hj)
              rw [findBlock_setBlock_ne bs1 this, findBlock_cons_ne nb _ (Ne.symm this)]
            · refine ⟨hoacc, by simp only []; rw [hfam]; exact (sepOf_malloc c).symm, ⟨ob, ?_, by simpa using hol, hog⟩, ?_, by simp⟩
              · show findBlock (setBlock (⟨nid, nb⟩ :: dropBlock s.mem o.nodeId) nid bs1) o.id = some ob
                rw [‹o.id = id›, findBlock_setBlock_ne bs1 (Ne.symm hnid_id), findBlock_cons_ne nb _ hnid_id]
                exact hob1
              · intro _
                refine ⟨by simp only []; rw [‹o.id = id›]; exact hnid_id, ⟨nid, bs1⟩, ?_, ?_⟩
                · exact findBlock_setBlock_same bs1 (findBlock_cons_self nid nb _)
                · show bs1.length = _
                  rw [writeAt_length hwa]; exact h2ok
            · intro j hj
              simp [Rec.owned] at hj
              rcases hj with rfl | rfl
              · rw [‹o.id = id›]; exact hidn
              · exact hnid_not
        | moved nid nb =>
          simp only []
          obtain ⟨hl, hfr, _⟩ := har
          have hfresh : Fresh (dropBlock (dropBlock s.mem o.nodeId) o.id) nid := by
            rcases hfr with hf | hf
            · exact fresh_dropBlock _ (fresh_dropBlock _ hf)
            · cases hf; rw [‹o.id = id›]; exact fresh_dropBlock_self _ _
          have hrest' : InvTM c rest (dropBlock (dropBlock s.mem o.nodeId) o.id) :=
            hrest.frame (fun j hj => findBlock_dropBlock_ne (fun e => hidn (by rw [← ‹o.id = id›, ← e]; exact hj)))
          have h2f' : a2.Fresh (dropBlock (dropBlock s.mem o.nodeId) o.id) := by
            cases a2 with
            | block k kb => exact fresh_dropBlock _ (fresh_dropBlock _ h2f)
            | null => trivial
            | fail => trivial
          have key := account_inv c hn img hi s.seq hrest' famMalloc size nid nb a2
            ([.unodefree o.nodeId] ++ [.urealloc o.id (reallocReq c true size) nid]) hacc'
            (by rw [sepOf_malloc, ← reallocReq_eq]; exact hl) hfresh h2ok h2f' hd (fun _ => hnn)
          rw [sepOf_malloc] at key
          obtain ⟨hinv, hout⟩ := key
          refine ⟨hinv, ?_⟩
          rcases hout with ⟨hp', _⟩ | ⟨hp', _⟩ <;> rw [hp'] <;> rfl
  · simp only [if_true]; exact ⟨h, rfl⟩

/-! ## every public operation keeps the invariant -/

theorem step_inv (c : Cfg) (hn : NodeOk c) (img : NodeImage) (hi : ImgOk c img) {s : State} (h : Inv c s)
    (op : Op) (hop : OpOk c s op) :
    Inv c (step c img s op).1 ∧ (step c img s op).2.2.isUb = false := by
  cases op with
  | new v size a1 a2 =>
    obtain ⟨_, henv, hnf⟩ := hop
    rcases operatorNew_inv c hn img hi h v size a1 a2 henv hnf with hr | ⟨hb, hinv, _⟩
    · exact ⟨hr.inv, hr.noUb⟩
    · exact ⟨hinv, by show (operatorNew c img s v size a1 a2).2.2.isUb = false; rw [hb]; rfl⟩
  | malloc size a1 a2 =>
    have hr := cMalloc_inv c hn img hi h size a1 a2 hop
    exact ⟨hr.inv, hr.noUb⟩
  | calloc num size a1 a2 =>
    have hr := cCalloc_inv c hn img hi h num size a1 a2 hop
    exact ⟨hr.inv, hr.noUb⟩
  | strdup buf a1 a2 =>
    obtain ⟨h1, h2, henv⟩ := hop
    have hr := cStrdup_inv c hn img hi h buf a1 a2 h1 h2 henv
    exact ⟨hr.inv, hr.noUb⟩
  | strndup buf n a1 a2 =>
    obtain ⟨h1, h2, henv⟩ := hop
    have hr := cStrndup_inv c hn img hi h buf n a1 a2 h1 h2 henv
    exact ⟨hr.inv, hr.noUb⟩
  | realloc ptr size ar a2 =>
    obtain ⟨hp, har, h2ok, h2f, hd, hnn⟩ := hop
    exact cRealloc_inv c hn img hi h ptr size ar a2 hp har h2ok h2f hd hnn
  | free ptr =>
    have hr := release_inv c hn h famMalloc ptr true rfl hop
    exact ⟨hr.1, by show (release c s famMalloc ptr true).2.2.isUb = false; rw [hr.2]; rfl⟩
  | delete array ptr =>
    have hr := release_inv c hn h (if array then famNewArray else famNew) ptr false
      (by cases array <;> decide) hop
    exact ⟨hr.1, by show (release c s (if array then famNewArray else famNew) ptr false).2.2.isUb = false; rw [hr.2]; rfl⟩
  | write id off src =>
    obtain ⟨r, hr, hid, hfit⟩ := hop
    obtain ⟨m', hw⟩ := InvTM.userWrite_some hn h hr (off := off) (src := src) hfit
    have hinv := InvTM.userWrite h hr hfit hw
    rw [hid] at hw
    have : step c img s (.write id off src) = ({ s with mem := m' }, [], .null) := by
      show clientWrite s id off src = _
      unfold clientWrite; simp only [hw]
    rw [this]; exact ⟨hinv, rfl⟩

theorem run_inv (c : Cfg) (hn : NodeOk c) (img : NodeImage) (hi : ImgOk c img) :
    ∀ (ops : List Op) (s : State), Inv c s → OpsOk c img s ops → Inv c (run c img s ops)
  | [], _, h, _ => h
  | op :: ops, s, h, hok => run_inv c hn img hi ops _ (step_inv c hn img hi h op hok.1).1 hok.2

theorem inv_initial (c : Cfg) : Inv c {} := InvTM.empty c []

/-! ## histories -/

theorem run_append (c : Cfg) (img : NodeImage) : ∀ (ops : List Op) (s : State) (op : Op),
    run c img s (ops ++ [op]) = (step c img (run c img s ops) op).1
  | [], _, _ => rfl
  | o :: ops, s, op => by simp only [List.cons_append, run]; exact run_append c img ops _ op

theorem opsOk_append (c : Cfg) (img : NodeImage) : ∀ (ops : List Op) (s : State) (op : Op),
    OpsOk c img s (ops ++ [op]) → OpsOk c img s ops ∧ OpOk c (run c img s ops) op
  | [], _, _, h => ⟨trivial, h.1⟩
  | o :: ops, s, op, h => by
    obtain ⟨h1, h2⟩ := opsOk_append c img ops _ op h.2
    exact ⟨⟨h.1, h1⟩, h2⟩

theorem ids_sublist_owned : ∀ (t : List Rec), (t.map (·.id)).Sublist (owned t)
  | [] => by simp [owned]
  | r :: t => by
    rw [owned_cons, List.map_cons]
    have ih := ids_sublist_owned t
    unfold Rec.owned
    split
    · exact List.Sublist.cons_cons _ (List.Sublist.cons _ ih)
    · exact List.Sublist.cons_cons _ ih

/-- under the invariant the record `removeNode` finds for a tracked pointer is that record -/
theorem removeRec_of_tracked (c : Cfg) {s : State} (h : Inv c s) {o : Rec} (ho : o ∈ s.tracked) :
    ∃ rest, removeRec s.tracked o.id = some (o, rest) := by
  obtain ⟨o', rest, he⟩ := removeRec_some_of_mem s.tracked o ho
  obtain ⟨_, _, hm, hid, _, _⟩ := InvTM.remove h he
  have : o' = o := owned_inj h.nodup hm ho (id_mem_owned o') (by rw [hid]; exact id_mem_owned o)
  subst this
  exact ⟨rest, he⟩

theorem reallocMemory_ptr (c : Cfg) (img : NodeImage) (s : State) (fam : Nat) (ptr : Option Nat) (size : W) (sep0 : Bool)
    (ar : RAns) (a2 : Ans) (id : Nat) :
    (reallocMemory c img s fam ptr size sep0 ar a2).2.2 = .ptr id → ar.id = id := by
  have hacct : ∀ (st : State) (sp : Bool) (i : Nat) (evs : List Ev),
      (account c img st fam size sp i a2 evs).2.2 = .ptr id → i = id := by
    intro st sp i evs
    unfold account
    split
    · split
      · simp
      · simp
      · unfold store
        split
        · simp
        · split
          · simp
          · simp only [Outcome.ptr.injEq]; exact fun hx => hx
    · unfold store
      split
      · simp
      · split
        · simp
        · simp only [Outcome.ptr.injEq]; exact fun hx => hx
  have hretr : ∀ (st : State) (o : Rec) (sp : Bool) (evs : List Ev), (retrack c img st o sp a2 evs).2.2 ≠ .ptr id := by
    intro st o sp evs
    unfold retrack
    split
    · split
      · simp
      · simp
      · split <;> simp
    · split <;> simp
  unfold reallocMemory
  split
  · simp
  · split
    · unfold reallocRest
      split
      · simp
      · intro hx; exact absurd hx (hretr _ _ _ _)
      · exact hacct _ _ _ _
      · exact hacct _ _ _ _
    · split
      · simp
      · split
        · simp
        · unfold reallocRest
          split
          · simp
          · intro hx; exact absurd hx (hretr _ _ _ _)
          · exact hacct _ _ _ _
          · exact hacct _ _ _ _

end AllocLayout
