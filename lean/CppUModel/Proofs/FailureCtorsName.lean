import CppUModel.Proofs.FailureCtors
/-!
Obligations over the regenerated member-initialiser lists of the `TestFailure` constructors, name
part (C20): whichever constructor builds a failure, `testNameOnly_` — what TeamCity prints as the
failure's `name` — is the NAME of the test, exactly what `testStarted` announced; the printable
`TEST(group, name)` goes to `testName_` only.
-/
namespace OutEv
open Text (Bytes)

variable (t : TestInfo) (f : Bytes) (l : Nat) (m : Bytes)

theorem locMsgFailure_testName : (locMsgFailure t f l m).testName = t.name := rfl
theorem msgFailure_testName : (msgFailure t m).testName = t.name := rfl
theorem locFailure_testName : (locFailure t f l).testName = t.name := rfl
theorem exitFailure_testName : (exitFailure t f l m).testName = t.name := rfl

theorem formatted_name_only_in_testName :
    Gen.FailureCtors.withLocationAndMessage.testName = .shellFormattedName ∧
    Gen.FailureCtors.withMessage.testName = .shellFormattedName ∧
    Gen.FailureCtors.withLocation.testName = .shellFormattedName := by decide

end OutEv
