import CppUModel.Spec.SeparateProcess
/-!
Helper lemmas for C11: the glibc wait-status macros equal the textbook reading of the status
word, and structural facts about the parent's wait loop.
-/
namespace SepProc
open Gen.SepProcC

/-! ## status word decoding -/

theorem wTermSig_eq (s : BitVec 32) : wTermSig s = s.toNat % 128 := by
  unfold wTermSig
  rw [BitVec.toNat_and]
  exact Nat.and_two_pow_sub_one_eq_mod s.toNat 7

theorem lowByte_eq (s : BitVec 32) : (s &&& 0xff#32).toNat = s.toNat % 256 := by
  rw [BitVec.toNat_and]
  exact Nat.and_two_pow_sub_one_eq_mod s.toNat 8

theorem wExitStatus_eq (s : BitVec 32) : wExitStatus s = s.toNat / 256 % 256 := by
  unfold wExitStatus
  rw [BitVec.toNat_ushiftRight, BitVec.toNat_and]
  show (s.toNat &&& 0xff00) >>> 8 = _
  rw [Nat.shiftRight_and_distrib]
  show (s.toNat >>> 8) &&& 255 = _
  rw [Nat.shiftRight_eq_div_pow]
  exact Nat.and_two_pow_sub_one_eq_mod _ 8

/-- the `(signed char)` cast and arithmetic shift of `__WIFSIGNALED`, for every 7-bit value -/
theorem signedCharTest : ∀ t : Fin 128,
    decide (0 < ((BitVec.ofNat 8 (t.val + 1)).sshiftRight 1).toInt) = decide (1 ≤ t.val ∧ t.val ≤ 126) := by
  decide

theorem wIfExited_eq (s : BitVec 32) : wIfExited s = decide (s.toNat % 128 = 0) := by
  unfold wIfExited
  rw [wTermSig_eq]
  cases h : decide (s.toNat % 128 = 0) <;> simp_all

theorem wIfSignaled_eq (s : BitVec 32) :
    wIfSignaled s = decide (1 ≤ s.toNat % 128 ∧ s.toNat % 128 ≤ 126) := by
  unfold wIfSignaled
  rw [wTermSig_eq]
  exact signedCharTest ⟨s.toNat % 128, Nat.mod_lt _ (by decide)⟩

theorem wIfStopped_eq (s : BitVec 32) : wIfStopped s = decide (s.toNat % 256 = 127) := by
  unfold wIfStopped
  rw [lowByte_eq]
  cases h : decide (s.toNat % 256 = 127) <;> simp_all

/-- the loop condition `!WIFEXITED(status) && !WIFSIGNALED(status)` is "the child is not gone" -/
theorem terminal_eq (s : BitVec 32) : (wIfExited s || wIfSignaled s) = (classify s).terminal := by
  rw [wIfExited_eq, wIfSignaled_eq]
  unfold classify
  by_cases h0 : s.toNat % 128 = 0
  · simp [h0, StatusClass.terminal]
  · by_cases h1 : s.toNat % 128 = 127
    · by_cases h2 : s.toNat % 256 = 127 <;> simp [h1, h2, StatusClass.terminal]
    · have : 1 ≤ s.toNat % 128 ∧ s.toNat % 128 ≤ 126 := by omega
      simp [h0, h1, this, StatusClass.terminal]

theorem stopped_eq (s : BitVec 32) : wIfStopped s = (classify s).isStopped := by
  rw [wIfStopped_eq]
  unfold classify
  by_cases h0 : s.toNat % 128 = 0
  · have : ¬ s.toNat % 256 = 127 := by omega
    simp [h0, this, StatusClass.isStopped]
  · by_cases h1 : s.toNat % 128 = 127
    · by_cases h2 : s.toNat % 256 = 127 <;> simp [h1, h2, StatusClass.isStopped]
    · have : ¬ s.toNat % 256 = 127 := by omega
      simp [h0, h1, this, StatusClass.isStopped]

theorem contOf_eq (s : BitVec 32) : contOf s = if (classify s).isStopped then 1 else 0 := by
  unfold contOf; rw [stopped_eq]

/-- `SetTestFailureByStatusCode` adds exactly the failures the property asks for, for every
    32-bit status word (this is where the regenerated chain enters the proofs) -/
theorem statusFailures_classes (s : BitVec 32) :
    classes (statusFailures s) = (classify s).expected := by
  unfold statusFailures statusChain
  simp only [chainFailures, condHolds, classOfArm, textOfArm]
  rw [wIfExited_eq, wIfSignaled_eq, wIfStopped_eq, wExitStatus_eq, wTermSig_eq]
  unfold classify
  by_cases h0 : s.toNat % 128 = 0
  · have hs : ¬ (1 ≤ s.toNat % 128 ∧ s.toNat % 128 ≤ 126) := by omega
    have ht : ¬ s.toNat % 256 = 127 := by omega
    by_cases hc : s.toNat / 256 % 256 = 0
    · simp [h0, ht, hc, classes, StatusClass.expected]
    · simp only [h0, if_true]
      simp [hc, classes]
      cases hk : s.toNat / 256 % 256 with
      | zero => exact absurd hk hc
      | succ k => simp [StatusClass.expected]
  · by_cases h1 : s.toNat % 128 = 127
    · have hs : ¬ (1 ≤ s.toNat % 128 ∧ s.toNat % 128 ≤ 126) := by omega
      by_cases h2 : s.toNat % 256 = 127
      · simp [h1, h2, classes, StatusClass.expected]
      · simp [h1, h2, classes, StatusClass.expected]
    · have hs : 1 ≤ s.toNat % 128 ∧ s.toNat % 128 ≤ 126 := by omega
      simp [h0, h1, hs, classes, StatusClass.expected]

/-! ## the wait loop -/

/-- failures one wait result adds inside the loop (giving up is accounted for by `endFailures`) -/
def outcomeFailures : WaitOutcome → List Failure
  | .status s => statusFailures s
  | _ => []

def endFailures : LoopEnd → List Failure
  | .gaveUp => [giveUpFailure]
  | .waitError => [waitFailure]
  | .forkFailed => [forkFailure]
  | .noFork => [noForkFailure]
  | _ => []

theorem nonFinal_status (s : BitVec 32) :
    (WaitOutcome.status s).nonFinal = !(wIfExited s || wIfSignaled s) := by
  simp only [WaitOutcome.nonFinal, terminal_eq]

theorem isStop_status (s : BitVec 32) : (WaitOutcome.status s).isStop = wIfStopped s := by
  simp only [WaitOutcome.isStop, stopped_eq]

@[simp] theorem prepend_failures (fs c r) : (LoopResult.prepend fs c r).failures = fs ++ r.failures := rfl
@[simp] theorem prepend_consumed (fs c r) : (LoopResult.prepend fs c r).consumed = r.consumed + 1 := rfl
@[simp] theorem prepend_conts (fs c r) : (LoopResult.prepend fs c r).conts = c + r.conts := rfl
@[simp] theorem prepend_ended (fs c r) : (LoopResult.prepend fs c r).ended = r.ended := rfl

theorem parentLoop_nil (r : Nat) :
    parentLoop r [] = { failures := [], consumed := 0, conts := 0, ended := .starved } := rfl

theorem parentLoop_eintr (r : Nat) (rest : List WaitOutcome) :
    parentLoop r (.eintr :: rest) =
      if r > retryBound then { failures := [giveUpFailure], consumed := 1, conts := 0, ended := .gaveUp }
      else (parentLoop (r + 1) rest).prepend [] 0 := rfl

theorem parentLoop_error (r : Nat) (rest : List WaitOutcome) :
    parentLoop r (.error :: rest) =
      { failures := [waitFailure], consumed := 1, conts := 0, ended := .waitError } := rfl

theorem parentLoop_status (r : Nat) (s : BitVec 32) (rest : List WaitOutcome) :
    parentLoop r (.status s :: rest) =
      if wIfExited s || wIfSignaled s then
        { failures := statusFailures s, consumed := 1, conts := contOf s, ended := .childGone }
      else (parentLoop r rest).prepend (statusFailures s) (contOf s) := rfl

@[simp] theorem eintrCount_nil : eintrCount [] = 0 := rfl
@[simp] theorem eintrCount_eintr (l : List WaitOutcome) : eintrCount (.eintr :: l) = eintrCount l + 1 := by
  simp [eintrCount, List.countP_cons, WaitOutcome.isEintr]
@[simp] theorem eintrCount_error (l : List WaitOutcome) : eintrCount (.error :: l) = eintrCount l := by
  simp [eintrCount, WaitOutcome.isEintr]
@[simp] theorem eintrCount_status (s : BitVec 32) (l : List WaitOutcome) :
    eintrCount (.status s :: l) = eintrCount l := by
  simp [eintrCount, WaitOutcome.isEintr]
@[simp] theorem stopCount_nil : stopCount [] = 0 := rfl
@[simp] theorem stopCount_eintr (l : List WaitOutcome) : stopCount (.eintr :: l) = stopCount l := by
  simp [stopCount, WaitOutcome.isStop]
@[simp] theorem stopCount_error (l : List WaitOutcome) : stopCount (.error :: l) = stopCount l := by
  simp [stopCount, WaitOutcome.isStop]
theorem stopCount_status (s : BitVec 32) (l : List WaitOutcome) :
    stopCount (.status s :: l) = contOf s + stopCount l := by
  simp only [stopCount, List.countP_cons, isStop_status, contOf]
  split <;> omega

/-- every wait result the parent uses is one of the results it was given -/
theorem consumed_le : ∀ (outs : List WaitOutcome) (r : Nat), (parentLoop r outs).consumed ≤ outs.length
  | [], r => by simp [parentLoop_nil]
  | .eintr :: rest, r => by
    rw [parentLoop_eintr]; split
    · simp
    · have := consumed_le rest (r + 1); simp; omega
  | .error :: rest, r => by simp [parentLoop_error]
  | .status s :: rest, r => by
    rw [parentLoop_status]; split
    · simp
    · have := consumed_le rest r; simp; omega

/-- the failures are exactly those of the results used, plus the one that ends a failed wait -/
theorem failures_exact : ∀ (outs : List WaitOutcome) (r : Nat),
    (parentLoop r outs).failures =
      (outs.take (parentLoop r outs).consumed).flatMap outcomeFailures ++ endFailures (parentLoop r outs).ended
  | [], r => by simp [parentLoop_nil, endFailures]
  | .eintr :: rest, r => by
    rw [parentLoop_eintr]; split
    · simp [endFailures, outcomeFailures]
    · have := failures_exact rest (r + 1)
      simp [List.take_succ_cons, outcomeFailures]
      exact this
  | .error :: rest, r => by simp [parentLoop_error, endFailures, outcomeFailures]
  | .status s :: rest, r => by
    rw [parentLoop_status]; split
    · simp [endFailures, outcomeFailures]
    · have := failures_exact rest r
      simp [List.take_succ_cons, outcomeFailures]
      exact this

/-- SIGCONT is sent exactly once per stop result used -/
theorem conts_exact : ∀ (outs : List WaitOutcome) (r : Nat),
    (parentLoop r outs).conts = stopCount (outs.take (parentLoop r outs).consumed)
  | [], r => by simp [parentLoop_nil]
  | .eintr :: rest, r => by
    rw [parentLoop_eintr]; split
    · simp
    · have := conts_exact rest (r + 1)
      simp [List.take_succ_cons, this]
  | .error :: rest, r => by simp [parentLoop_error]
  | .status s :: rest, r => by
    rw [parentLoop_status]; split
    · simp [stopCount_status]
    · have := conts_exact rest r
      simp [List.take_succ_cons, stopCount_status, this]

/-- everything strictly before the last result used left the child alive -/
theorem used_prefix_nonFinal : ∀ (outs : List WaitOutcome) (r : Nat),
    ∀ o ∈ outs.take ((parentLoop r outs).consumed - 1), o.nonFinal = true
  | [], r => by simp
  | .eintr :: rest, r => by
    rw [parentLoop_eintr]; split
    · simp
    · intro o ho
      have ih := used_prefix_nonFinal rest (r + 1)
      simp only [prepend_consumed, Nat.add_sub_cancel] at ho
      cases hc : (parentLoop (r + 1) rest).consumed with
      | zero => simp [hc] at ho
      | succ k =>
        rw [hc, List.take_succ_cons] at ho
        rcases List.mem_cons.mp ho with h | h
        · subst h; rfl
        · apply ih; rw [hc]; simpa using h
  | .error :: rest, r => by simp [parentLoop_error]
  | .status s :: rest, r => by
    rw [parentLoop_status]; split
    · simp
    · rename_i hterm
      intro o ho
      have ih := used_prefix_nonFinal rest r
      simp only [prepend_consumed, Nat.add_sub_cancel] at ho
      cases hc : (parentLoop r rest).consumed with
      | zero => simp [hc] at ho
      | succ k =>
        rw [hc, List.take_succ_cons] at ho
        rcases List.mem_cons.mp ho with h | h
        · subst h; rw [nonFinal_status]; simp [hterm]
        · apply ih; rw [hc]; simpa using h

/-- a prefix of results that all leave the child alive, within the retry budget, is stepped over -/
theorem parentLoop_append : ∀ (pre : List WaitOutcome) (r : Nat) (rest : List WaitOutcome),
    (∀ o ∈ pre, o.nonFinal = true) → r + eintrCount pre ≤ retryBound + 1 →
    parentLoop r (pre ++ rest) =
      { failures := pre.flatMap outcomeFailures ++ (parentLoop (r + eintrCount pre) rest).failures,
        consumed := pre.length + (parentLoop (r + eintrCount pre) rest).consumed,
        conts := stopCount pre + (parentLoop (r + eintrCount pre) rest).conts,
        ended := (parentLoop (r + eintrCount pre) rest).ended }
  | [], r, rest, _, _ => by simp
  | .eintr :: pre, r, rest, hnf, hb => by
    rw [eintrCount_eintr] at hb
    have ih := parentLoop_append pre (r + 1) rest (fun o ho => hnf o (List.mem_cons_of_mem _ ho)) (by omega)
    have e : r + 1 + eintrCount pre = r + (eintrCount pre + 1) := by omega
    rw [List.cons_append, parentLoop_eintr, if_neg (by omega), ih, eintrCount_eintr, e]
    simp only [LoopResult.prepend, List.flatMap_cons, outcomeFailures, List.nil_append, List.length_cons,
      stopCount_eintr, Nat.zero_add]
    congr 1; omega
  | .error :: pre, r, rest, hnf, _ => by
    have := hnf .error (List.mem_cons_self ..)
    simp [WaitOutcome.nonFinal] at this
  | .status s :: pre, r, rest, hnf, hb => by
    rw [eintrCount_status] at hb
    have hs := hnf (.status s) (List.mem_cons_self ..)
    rw [nonFinal_status] at hs
    have hterm : ¬ ((wIfExited s || wIfSignaled s) = true) := by simpa using hs
    have ih := parentLoop_append pre r rest (fun o ho => hnf o (List.mem_cons_of_mem _ ho)) hb
    rw [List.cons_append, parentLoop_status, if_neg hterm, ih, eintrCount_status]
    simp only [LoopResult.prepend, List.flatMap_cons, outcomeFailures, List.length_cons, stopCount_status,
      List.append_assoc]
    congr 1 <;> omega

/-- EINTR results used, counted together with the retries already made, never exceed bound + 2;
    they reach bound + 2 exactly when the parent gives up -/
theorem eintr_used_le : ∀ (outs : List WaitOutcome) (r : Nat), r ≤ retryBound + 1 →
    r + eintrCount (outs.take (parentLoop r outs).consumed) ≤ retryBound + 2 ∧
    ((parentLoop r outs).ended = .gaveUp ↔ r + eintrCount (outs.take (parentLoop r outs).consumed) = retryBound + 2)
  | [], r, hr => by simp [parentLoop_nil]; omega
  | .eintr :: rest, r, hr => by
    rw [parentLoop_eintr]; split
    · simp; omega
    · have ih := eintr_used_le rest (r + 1) (by omega)
      simp only [prepend_consumed, prepend_ended, List.take_succ_cons, eintrCount_eintr] at ih ⊢
      constructor
      · omega
      · rw [ih.2]; omega
  | .error :: rest, r, hr => by
    simp [parentLoop_error]; omega
  | .status s :: rest, r, hr => by
    rw [parentLoop_status]; split
    · simp; omega
    · have ih := eintr_used_le rest r hr
      simp only [prepend_consumed, prepend_ended, List.take_succ_cons, eintrCount_status] at ih ⊢
      exact ih

/-- the parent is still waiting only if nothing it was given ends the waiting, it used every
    result, and the retry budget is not exhausted -/
theorem starved_only_if : ∀ (outs : List WaitOutcome) (r : Nat), r ≤ retryBound + 1 →
    (parentLoop r outs).ended = .starved →
    (∀ o ∈ outs, o.nonFinal = true) ∧ (parentLoop r outs).consumed = outs.length ∧
      r + eintrCount outs ≤ retryBound + 1
  | [], r, hr, _ => by simp [parentLoop_nil]; omega
  | .eintr :: rest, r, hr, h => by
    rw [parentLoop_eintr] at h ⊢
    split at h
    · simp at h
    · rename_i hgt
      rw [if_neg hgt]
      have ih := starved_only_if rest (r + 1) (by omega) (by simpa using h)
      refine ⟨?_, ?_, ?_⟩
      · intro o ho
        rcases List.mem_cons.mp ho with e | e
        · subst e; rfl
        · exact ih.1 o e
      · simp [ih.2.1]
      · have := ih.2.2
        simp at this ⊢; omega
  | .error :: rest, r, hr, h => by simp [parentLoop_error] at h
  | .status s :: rest, r, hr, h => by
    rw [parentLoop_status] at h ⊢
    split at h
    · simp at h
    · rename_i hterm
      rw [if_neg hterm]
      have ih := starved_only_if rest r hr (by simpa using h)
      refine ⟨?_, ?_, ?_⟩
      · intro o ho
        rcases List.mem_cons.mp ho with e | e
        · subst e; rw [nonFinal_status]; simp [hterm]
        · exact ih.1 o e
      · simp [ih.2.1]
      · have := ih.2.2
        simp at this ⊢; omega

/-- the loop leaves through its `while` condition only at a status that says the child is gone -/
theorem childGone_only_if : ∀ (outs : List WaitOutcome) (r : Nat),
    (parentLoop r outs).ended = .childGone →
    ∃ pre s post, outs = pre ++ .status s :: post ∧ (∀ o ∈ pre, o.nonFinal = true) ∧
      (classify s).terminal = true ∧ (parentLoop r outs).consumed = pre.length + 1
  | [], r, h => by simp [parentLoop_nil] at h
  | .eintr :: rest, r, h => by
    rw [parentLoop_eintr] at h ⊢
    split at h
    · simp at h
    · rename_i hgt
      rw [if_neg hgt]
      obtain ⟨pre, s, post, e, hnf, ht, hc⟩ := childGone_only_if rest (r + 1) (by simpa using h)
      refine ⟨.eintr :: pre, s, post, by simp [e], ?_, ht, by simp [hc]⟩
      intro o ho
      rcases List.mem_cons.mp ho with e | e
      · subst e; rfl
      · exact hnf o e
  | .error :: rest, r, h => by simp [parentLoop_error] at h
  | .status s :: rest, r, h => by
    rw [parentLoop_status] at h ⊢
    by_cases hterm : (wIfExited s || wIfSignaled s) = true
    · rw [if_pos hterm]
      exact ⟨[], s, rest, rfl, by simp, by rw [← terminal_eq]; exact hterm, rfl⟩
    · rw [if_neg hterm] at h ⊢
      obtain ⟨pre, s', post, e, hnf, ht, hc⟩ := childGone_only_if rest r (by simpa using h)
      refine ⟨.status s :: pre, s', post, by simp [e], ?_, ht, by simp [hc]⟩
      intro o ho
      rcases List.mem_cons.mp ho with e | e
      · subst e; rw [nonFinal_status]; simp [hterm]
      · exact hnf o e

/-! ## the function regenerated from the clang AST (`Gen/SeparateProcessLoop.lean`)

The conditions below are the expansions of `WIFEXITED`, `WEXITSTATUS`, `WIFSIGNALED`, `WIFSTOPPED`,
`WTERMSIG` that the installed `<sys/wait.h>` produced inside the source's own expressions, with C's
`int` arithmetic (`sshiftRight`, `(signed char)` truncation and sign extension). -/

open Gen.SepProcLoop

theorem and127 (s : BitVec 32) : s &&& 127#32 = BitVec.ofNat 32 (s.toNat % 128) := by
  apply BitVec.eq_of_toNat_eq
  have h1 : (s &&& 127#32).toNat = s.toNat % 128 := by
    rw [BitVec.toNat_and]; exact Nat.and_two_pow_sub_one_eq_mod s.toNat 7
  have : s.toNat % 128 < 2^32 := by omega
  rw [h1, BitVec.toNat_ofNat, Nat.mod_eq_of_lt this]

theorem gen_exited (s : BitVec 32) : ((s &&& 127#32) == 0#32) = wIfExited s := by
  rw [wIfExited_eq, and127]
  have h : s.toNat % 128 < 128 := Nat.mod_lt _ (by decide)
  generalize s.toNat % 128 = t at h
  revert t; decide

theorem gen_signaled (s : BitVec 32) :
    BitVec.slt 0#32 (((((s &&& 127#32) + 1#32).truncate 8).signExtend 32).sshiftRight 1) = wIfSignaled s := by
  rw [wIfSignaled_eq, and127]
  have h : s.toNat % 128 < 128 := Nat.mod_lt _ (by decide)
  generalize s.toNat % 128 = t at h
  revert t; decide

theorem and255 (s : BitVec 32) : s &&& 255#32 = BitVec.ofNat 32 (s.toNat % 256) := by
  apply BitVec.eq_of_toNat_eq
  have h1 : (s &&& 255#32).toNat = s.toNat % 256 := by
    rw [BitVec.toNat_and]; exact Nat.and_two_pow_sub_one_eq_mod s.toNat 8
  have : s.toNat % 256 < 2^32 := by omega
  rw [h1, BitVec.toNat_ofNat, Nat.mod_eq_of_lt this]

set_option maxRecDepth 8000 in
theorem gen_stopped (s : BitVec 32) : ((s &&& 255#32) == 127#32) = wIfStopped s := by
  rw [wIfStopped_eq, and255]
  have h : s.toNat % 256 < 256 := Nat.mod_lt _ (by decide)
  generalize s.toNat % 256 = t at h
  revert t; decide

theorem gen_exitstatus (s : BitVec 32) : (s &&& 65280#32).sshiftRight 8 = BitVec.ofNat 32 (wExitStatus s) := by
  have hm : (s &&& 65280#32).msb = false := by
    have h2 : (65280#32).msb = false := by decide
    rw [BitVec.msb_and, h2]; simp
  rw [BitVec.sshiftRight_eq_of_msb_false hm]
  unfold wExitStatus
  rw [BitVec.ofNat_toNat]; simp

set_option maxRecDepth 8000 in
theorem gen_exitstatus_ne (s : BitVec 32) : ((s &&& 65280#32).sshiftRight 8 != 0#32) = (wExitStatus s != 0) := by
  rw [gen_exitstatus, wExitStatus_eq]
  have h : s.toNat / 256 % 256 < 256 := Nat.mod_lt _ (by decide)
  generalize s.toNat / 256 % 256 = t at h
  revert t; decide

theorem gen_termsig_text (s : BitVec 32) : toString ((s &&& 127#32)).toInt = toString (wTermSig s) := by
  rw [wTermSig_eq, and127]
  have h : s.toNat % 128 < 128 := Nat.mod_lt _ (by decide)
  generalize s.toNat % 128 = t at h
  have : (BitVec.ofNat 32 t).toInt = Int.ofNat t := by
    rw [BitVec.toInt_eq_toNat_cond, BitVec.toNat_ofNat]
    have : t % 2^32 = t := Nat.mod_eq_of_lt (by omega)
    rw [this]; simp; omega
  rw [this]; rfl

/-- the regenerated `SetTestFailureByStatusCode` adds exactly the texts of the hand model -/
theorem setTestFailureGen_eq (s : BitVec 32) : setTestFailureGen s = (statusFailures s).map (·.text) := by
  unfold setTestFailureGen statusFailures statusChain
  simp only [chainFailures, condHolds, classOfArm, textOfArm]
  rw [gen_exited, gen_exitstatus_ne, gen_signaled, gen_stopped, gen_termsig_text]
  cases wIfExited s && wExitStatus s != 0 <;> cases wIfSignaled s <;> cases wIfStopped s <;> simp

/-! ## the regenerated loop is the hand model -/

theorem gen_prepend (fs : List Failure) (c : Nat) (r : LoopResult) :
    (r.prepend fs c).gen = r.gen.prepend (fs.map (·.text)) c := by
  simp [LoopResult.prepend, LoopResult.gen, GenResult.prepend]

theorem retry_bound_fits : retryBound + 2 < 2 ^ 64 := by decide

theorem waitBodyGen_eintr (r : Nat) (st : BitVec 32) (h : r ≤ retryBound + 1) :
    waitBodyGen (BitVec.ofNat 64 r) st .eintr =
      if r > retryBound then .ret [msgEintrGiveUp] 0 else .fall [] 0 (BitVec.ofNat 64 (r + 1)) st true := by
  have hb := retry_bound_fits
  have hr : r % 2 ^ 64 = r := Nat.mod_eq_of_lt (by omega)
  have hlt : BitVec.ult (BitVec.ofNat 64 retryBound) (BitVec.ofNat 64 r) = decide (retryBound < r) := by
    simp only [BitVec.ult, BitVec.toNat_ofNat, hr, Nat.mod_eq_of_lt (show retryBound < 2 ^ 64 by omega)]
  have hadd : BitVec.ofNat 64 r + 1#64 = BitVec.ofNat 64 (r + 1) := by
    rw [BitVec.ofNat_add]
  rw [show waitBodyGen (BitVec.ofNat 64 r) st .eintr =
      (if BitVec.ult (BitVec.ofNat 64 retryBound) (BitVec.ofNat 64 r) then BodyOut.ret [msgEintrGiveUp] 0
       else .fall [] 0 (BitVec.ofNat 64 r + 1#64) st true) from rfl]
  rw [hlt, hadd]
  by_cases hgt : r > retryBound
  · have h2 : retryBound < r := hgt
    simp [h2]
  · have h2 : ¬ retryBound < r := hgt
    simp [h2]

theorem waitBodyGen_error (r : BitVec 64) (st : BitVec 32) :
    waitBodyGen r st .error = .ret [msgWaitFailed] 0 := by
  unfold waitBodyGen; simp [msgWaitFailed]

theorem waitBodyGen_status (r : BitVec 64) (st s : BitVec 32) :
    waitBodyGen r st (.status s) =
      .fall ((statusFailures s).map (·.text)) (contOf s) r s (!(wIfExited s || wIfSignaled s)) := by
  unfold waitBodyGen
  simp only []
  rw [gen_exited, gen_signaled, gen_stopped, setTestFailureGen_eq]
  unfold contOf
  cases wIfStopped s <;> cases wIfExited s <;> cases wIfSignaled s <;> simp


end SepProc
