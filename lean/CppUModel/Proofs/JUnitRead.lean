import CppUModel.Proofs.JUnitDoc
/-!
Helper lemmas for C16, part 7: the token list of a report is well formed (so the tokenizer returns
it), and the layout reader turns it back into the structured report.
-/
set_option linter.unusedSimpArgs false
namespace JUnit
open Text (Bytes)
open OutEv

/-! ## well-formedness of the token list -/

def adjOk (prev : Bool) : List Tok → Bool
  | [] => true
  | t :: ts => !(prev && isText t) && adjOk (isText t) ts

theorem noAdj_of_adjOk : ∀ (l : List Tok) (p : Bool), adjOk p l = true → noAdjText l
  | [], _, _ => trivial
  | [_], _, _ => trivial
  | a :: b :: rest, p, h => by
    simp only [adjOk, Bool.and_eq_true, Bool.not_eq_true', Bool.and_eq_false_iff] at h
    refine ⟨?_, noAdj_of_adjOk (b :: rest) (isText a) (by simp only [adjOk, Bool.and_eq_true, Bool.not_eq_true', Bool.and_eq_false_iff]; exact h.2)⟩
    intro ⟨ha, hb⟩
    rcases h.2.1 with h' | h' <;> simp_all

def toks (rs : List RTok) : List Tok := rs.map RTok.toTok

theorem adjOk_case (c : Case) (p : Bool) (rest : List RTok) :
    adjOk p (toks (caseR c ++ rest)) = adjOk true (toks rest) := by
  unfold caseR caseChildren
  cases hf : c.failure with
  | some m => cases p <;> simp [toks, RTok.toTok, adjOk, isText]
  | none => cases hs : c.skipped <;> cases p <;> simp [toks, RTok.toTok, adjOk, isText]

theorem adjOk_cases (rest : List RTok) : ∀ (cs : List Case), adjOk true (toks (cs.flatMap caseR ++ rest)) = adjOk true (toks rest)
  | [] => rfl
  | c :: cs => by
    rw [List.flatMap_cons, List.append_assoc, adjOk_case, adjOk_cases rest cs]

theorem docR_adj (su : Suite) : noAdjText (toks (docR su)) := by
  apply noAdj_of_adjOk _ false
  have h1 : adjOk false (toks (docR su)) = adjOk true (toks (su.cases.flatMap caseR ++ suiteTail su)) := by
    simp [docR, suiteHead, toks, RTok.toTok, adjOk, isText]
  rw [h1, adjOk_cases]
  unfold suiteTail
  by_cases h : su.stdout = [] <;> simp [h, toks, RTok.toTok, adjOk, isText]

instance (n : Bytes) : Decidable (nameOk n) := by unfold nameOk; infer_instance

theorem caseAttrs_keys (c : Case) : (∀ p ∈ caseAttrs c, nameOk p.1) ∧ ((caseAttrs c).map (·.1)).Nodup := by
  have h : nameOk (lit "classname") ∧ nameOk (lit "name") ∧ nameOk (lit "assertions") ∧ nameOk (lit "time") ∧
      nameOk (lit "file") ∧ nameOk (lit "line") := by decide
  refine ⟨?_, by simp only [caseAttrs, List.map]; decide⟩
  intro p hp
  simp only [caseAttrs, List.mem_cons, List.not_mem_nil, or_false] at hp
  rcases hp with rfl | rfl | rfl | rfl | rfl | rfl
  · exact h.1
  · exact h.2.1
  · exact h.2.2.1
  · exact h.2.2.2.1
  · exact h.2.2.2.2.1
  · exact h.2.2.2.2.2

theorem suiteAttrs_keys (su : Suite) : (∀ p ∈ suiteAttrs su, nameOk p.1) ∧ ((suiteAttrs su).map (·.1)).Nodup := by
  have h : nameOk (lit "errors") ∧ nameOk (lit "failures") ∧ nameOk (lit "hostname") ∧ nameOk (lit "name") ∧
      nameOk (lit "tests") ∧ nameOk (lit "time") ∧ nameOk (lit "timestamp") := by decide
  refine ⟨?_, by simp only [suiteAttrs, List.map]; decide⟩
  intro p hp
  simp only [suiteAttrs, List.mem_cons, List.not_mem_nil, or_false] at hp
  rcases hp with rfl | rfl | rfl | rfl | rfl | rfl | rfl
  · exact h.1
  · exact h.2.1
  · exact h.2.2.1
  · exact h.2.2.2.1
  · exact h.2.2.2.2.1
  · exact h.2.2.2.2.2.1
  · exact h.2.2.2.2.2.2

theorem caseR_ok (c : Case) : ∀ t ∈ caseR c, rOk t := by
  have n1 : nameOk (lit "testcase") := by decide
  have n2 : nameOk (lit "failure") := by decide
  have n3 : nameOk (lit "skipped") := by decide
  obtain ⟨k1, k2⟩ := caseAttrs_keys c
  have k3 : nameOk (lit "message") ∧ nameOk (lit "type") := by decide
  have k4 : ¬ (lit "message" = lit "type") := by decide
  unfold caseR caseChildren
  cases hf : c.failure with
  | some m => simp [rOk, tokOk, n1, n2, k2, k3, k4, or_imp, forall_and]; exact fun a b h => k1 (a, b) h
  | none =>
    cases hs : c.skipped <;> simp [rOk, tokOk, n1, n3, k2, or_imp, forall_and] <;> exact fun a b h => k1 (a, b) h

theorem docR_ok (su : Suite) : ∀ t ∈ docR su, rOk t := by
  have n1 : nameOk (lit "testsuite") ∧ nameOk (lit "properties") ∧ nameOk (lit "system-out") ∧ nameOk (lit "system-err") := by
    decide
  obtain ⟨k1, k2⟩ := suiteAttrs_keys su
  intro t ht
  simp only [docR, List.mem_append, List.mem_flatMap] at ht
  rcases ht with ht | ⟨c, _, hc⟩ | ht
  · revert t
    simp [suiteHead, rOk, tokOk, n1, k2, or_imp, forall_and]
    exact fun a b h => k1 (a, b) h
  · exact caseR_ok c t hc
  · revert t
    unfold suiteTail
    by_cases hs : su.stdout = [] <;> simp [hs, rOk, tokOk, n1, or_imp, forall_and]

/-- the tokenizer returns the token list of the report -/
theorem tokenize_doc (su : Suite) (hts : encodeRef su.timestamp = su.timestamp) :
    tokenize (su.render.length + 1) su.render [] = .ok (toks (docR su)) := by
  have hlen : (docR su).length < su.render.length + 1 := by
    rw [suite_render_eq su hts]
    have : ∀ rs : List RTok, (∀ t ∈ rs, rOk t) → rs.length ≤ (renderR rs).length := by
      intro rs
      induction rs with
      | nil => intro _; simp [renderR]
      | cons r rs ih =>
        intro h
        have h1 : 1 ≤ r.render.length := by
          cases r with
          | nl => simp [RTok.render]
          | tok t =>
            cases t with
            | pi => simp [RTok.render, Tok.render, piText, lit]
            | open_ n a sc => simp [RTok.render, Tok.render]
            | close n => simp [RTok.render, Tok.render]
            | text x =>
              have hx : x ≠ [] := h _ (List.mem_cons_self ..)
              obtain ⟨c, x', rfl⟩ : ∃ c x', x = c :: x' := by
                cases x with
                | nil => exact absurd rfl hx
                | cons a b => exact ⟨a, b, rfl⟩
              obtain ⟨y, ys, hy, _⟩ := encodeRef_head c x'
              simp [RTok.render, Tok.render, hy]
        have := ih (fun t ht => h t (List.mem_cons_of_mem _ ht))
        simp only [renderR, List.flatMap_cons, List.length_append, List.length_cons] at this ⊢
        omega
    have := this (docR su) (docR_ok su)
    omega
  have := tokenize_render (docR su) [] (su.render.length + 1) (docR_ok su) (docR_adj su) hlen
  rw [suite_render_eq su hts] at this ⊢
  simpa [toks] using this

/-! ## reading the token list -/

theorem getAttr_of_mem (k : String) (v : Bytes) : ∀ (as : List (Bytes × Bytes)), (as.map (·.1)).Nodup → (lit k, v) ∈ as →
    getAttr as k = .ok v
  | [], _, hm => by simp at hm
  | p :: as, hnd, hm => by
    simp only [List.map_cons, List.nodup_cons] at hnd
    unfold getAttr
    simp only [List.find?_cons]
    by_cases hp : p.1 = lit k
    · have hpe : p = (lit k, v) := by
        rcases List.mem_cons.mp hm with h | h
        · exact h.symm
        · exact absurd (List.mem_map.mpr ⟨(lit k, v), h, hp.symm ▸ rfl⟩) hnd.1
      simp [hpe]
    · have hm' : (lit k, v) ∈ as := by
        rcases List.mem_cons.mp hm with h | h
        · exact absurd (by rw [← h]) hp
        · exact h
      have hb : (p.1 == lit k) = false := by simpa using hp
      have ih := getAttr_of_mem k v as hnd.2 hm'
      unfold getAttr at ih
      simp only [hb, Bool.false_eq_true, if_false]
      exact ih

def caseWf (c : Case) : Prop := c.millis < 1000 ∧ (c.failure.isSome = true → c.skipped = false)

/-- well-formed report: times have a millisecond part below 1000; a case with a failure is not also
    marked skipped (only one of the two is ever rendered) -/
def suiteWf (su : Suite) : Prop := su.millis < 1000 ∧ ∀ c ∈ su.cases, caseWf c

theorem getInt_of (as : List (Bytes × Bytes)) (k : String) (z : Int) (h : getAttr as k = .ok (showInt z)) :
    getInt as k = .ok z := by
  simp [getInt, h, intOfBytes?_showInt]

theorem getTime_of (as : List (Bytes × Bytes)) (k : String) (secs : Int) (m : Nat) (hm : m < 1000)
    (h : getAttr as k = .ok (showTime secs m)) : getTime as k = .ok (secs, m) := by
  unfold getTime
  rw [h]
  exact time_roundtrip secs m hm

theorem caseOfAttrs_case (c : Case) (hm : c.millis < 1000) (f : Option Bytes) (sk : Bool) :
    caseOfAttrs (caseAttrs c) f sk = .ok { c with failure := f, skipped := sk } := by
  have hnd := (caseAttrs_keys c).2
  have g := fun k v (h : (lit k, v) ∈ caseAttrs c) => getAttr_of_mem k v (caseAttrs c) hnd h
  have h1 := g "classname" c.classname (by simp [caseAttrs])
  have h2 := g "name" c.name (by simp [caseAttrs])
  have h3 := getInt_of _ _ _ (g "assertions" (showInt c.assertions) (by simp [caseAttrs]))
  have h4 := getTime_of _ _ _ _ hm (g "time" (showTime c.secs c.millis) (by simp [caseAttrs]))
  have h5 := g "file" c.file (by simp [caseAttrs])
  have h6 := getInt_of _ _ _ (g "line" (showInt c.line) (by simp [caseAttrs]))
  simp [caseOfAttrs, h1, h2, h3, h4, h5, h6]

theorem isBlank_nl : isBlank [10] = true := by decide

theorem readCaseBody_case (c : Case) (hwf : caseWf c) (rest : List RTok) :
    readCaseBody (toks (.nl :: (caseChildren c ++ ([.tok (.close (lit "testcase")), .nl] ++ rest)))) =
      .ok (c.failure, c.skipped, toks (.nl :: rest)) := by
  have d1 : ¬ (lit "failure" = lit "skipped") := by decide
  unfold caseChildren
  cases hf : c.failure with
  | some m =>
    have hsk : c.skipped = false := hwf.2 (by simp [hf])
    have hg : getAttr [(lit "message", m), (lit "type", lit "AssertionFailedError")] "message" = .ok m :=
      getAttr_of_mem "message" m _ (by simp only [List.map]; decide) (by simp)
    simp [toks, RTok.toTok, readCaseBody, dropBlank, isBlank_nl, d1, hg, hsk]
  | none =>
    cases hs : c.skipped <;> simp [toks, RTok.toTok, readCaseBody, dropBlank, isBlank_nl]

theorem readCases_cases (tail : List RTok) (tl : List Tok)
    (htail : toks tail = .open_ (lit "system-out") [] false :: tl) :
    ∀ (cs : List Case) (acc : List Case) (fuel : Nat), (∀ c ∈ cs, caseWf c) → cs.length < fuel →
      readCases fuel (toks (.nl :: (cs.flatMap caseR ++ tail))) acc = .ok (acc.reverse ++ cs, toks tail)
  | [], acc, fuel, _, hf => by
    obtain ⟨f, rfl⟩ : ∃ f, fuel = f + 1 := ⟨fuel - 1, by simp at hf; omega⟩
    have d : ¬ (lit "system-out" = lit "testcase") := by decide
    have : toks (.nl :: ([].flatMap caseR ++ tail)) = .text [10] :: toks tail := by simp [toks, RTok.toTok]
    rw [this, htail]
    simp [readCases, dropBlank, isBlank_nl, d]
  | c :: cs, acc, fuel, hwf, hf => by
    obtain ⟨f, rfl⟩ : ∃ f, fuel = f + 1 := ⟨fuel - 1, by simp at hf; omega⟩
    have hc := hwf c (List.mem_cons_self ..)
    have ih := readCases_cases tail tl htail cs ({ c with failure := c.failure, skipped := c.skipped } :: acc) f
      (fun x hx => hwf x (List.mem_cons_of_mem _ hx)) (by simp at hf; omega)
    have hshape : toks (.nl :: ((c :: cs).flatMap caseR ++ tail)) =
        .text [10] :: .open_ (lit "testcase") (caseAttrs c) false ::
          toks (.nl :: (caseChildren c ++ ([.tok (.close (lit "testcase")), .nl] ++ (cs.flatMap caseR ++ tail)))) := by
      simp [toks, RTok.toTok, caseR, List.append_assoc]
    rw [hshape]
    simp only [readCases, dropBlank, isBlank_nl, if_true, and_self]
    rw [readCaseBody_case c hc]
    simp only [caseOfAttrs_case c hc.1]
    rw [ih]
    simp

theorem suiteTail_head (su : Suite) : ∃ tl, toks (suiteTail su) = .open_ (lit "system-out") [] false :: tl := by
  unfold suiteTail
  by_cases h : su.stdout = [] <;> simp [h, toks, RTok.toTok]

theorem readEnding_tail (su : Suite) : readEnding (toks (suiteTail su)) = .ok su.stdout := by
  have d1 : isBlank [10] = true := by decide
  unfold suiteTail
  by_cases h : su.stdout = []
  · simp [h, toks, RTok.toTok, readEnding, dropBlank, d1]
  · simp [h, toks, RTok.toTok, readEnding, dropBlank, d1]

theorem suiteOfAttrs_suite (su : Suite) (hm : su.millis < 1000) (cases : List Case) (out : Bytes) :
    suiteOfAttrs (suiteAttrs su) cases out = .ok { su with cases := cases, stdout := out } := by
  have hnd := (suiteAttrs_keys su).2
  have g := fun k v (h : (lit k, v) ∈ suiteAttrs su) => getAttr_of_mem k v (suiteAttrs su) hnd h
  have h1 := getInt_of _ _ _ (g "failures" (showInt su.failures) (by simp [suiteAttrs]))
  have h2 := g "name" su.name (by simp [suiteAttrs])
  have h3 := getInt_of _ _ _ (g "tests" (showInt su.tests) (by simp [suiteAttrs]))
  have h4 := getTime_of _ _ _ _ hm (g "time" (showTime su.secs su.millis) (by simp [suiteAttrs]))
  have h5 := g "timestamp" su.timestamp (by simp [suiteAttrs])
  simp [suiteOfAttrs, h1, h2, h3, h4, h5]

theorem caseR_length (cs : List Case) : cs.length ≤ (cs.flatMap caseR).length := by
  induction cs with
  | nil => simp
  | cons c cs ih =>
    simp only [List.flatMap_cons, List.length_append, List.length_cons]
    have : 1 ≤ (caseR c).length := by simp [caseR]
    omega

/-- the layout reader turns the token list of a well-formed report back into the report -/
theorem readSuite_doc (su : Suite) (hwf : suiteWf su) : readSuite (toks (docR su)) = .ok su := by
  obtain ⟨tl, htl⟩ := suiteTail_head su
  have hshape : toks (docR su) =
      .pi :: .text [10] :: .open_ (lit "testsuite") (suiteAttrs su) false :: .text [10] ::
        .open_ (lit "properties") [] false :: .text [10] :: .close (lit "properties") ::
          toks (.nl :: (su.cases.flatMap caseR ++ suiteTail su)) := by
    simp [docR, suiteHead, toks, RTok.toTok]
  have hfuel : su.cases.length < (toks (.nl :: (su.cases.flatMap caseR ++ suiteTail su))).length + 1 := by
    have := caseR_length su.cases
    simp only [toks, List.length_map, List.length_cons, List.length_append]
    omega
  have hcases := readCases_cases (suiteTail su) tl htl su.cases [] _ hwf.2 hfuel
  have d1 : isBlank [10] = true := by decide
  rw [hshape]
  simp only [readSuite, dropBlank, d1, if_true, ne_eq, not_true_eq_false, if_false, hcases, List.reverse_nil, List.nil_append,
    readEnding_tail, suiteOfAttrs_suite su hwf.1]

/-- the specification's report reader accepts the bytes of a well-formed report and returns it -/
theorem parseReport_render (su : Suite) (hwf : suiteWf su) (hts : plain su.timestamp) : parseReport su.render = .ok su := by
  have hts' : encodeRef su.timestamp = su.timestamp := encodeRef_plain _ hts
  unfold parseReport
  rw [tokenize_doc su hts']
  exact readSuite_doc su hwf

end JUnit
